"""
C11 — generator of the translation units whose TYPES carry the compile-time knowledge under test.

A *program* is an expression tree of nmtools views (depth 1..3) over leaf arrays of a given
static-knowledge kind.  The compile-time knowledge (fixed_shape_v, ... of decltype(view)) can only be
produced by the C++ metafunctions for a concrete type, so every program becomes one function of a
generated TU (written to .build/gen_c11/); what stays free at run time — the shapes of the leaves
admitted by their types and the values of run-time arguments — arrives in the request line:

    prog id=<n> e=<readable expression> shapes=<leaf shape>;<leaf shape> rargs=<list>;<list>

The same module evaluates a program with NumPy (reference run-time shape and data) and renders the
RPN description the Lean driver interprets (`c11 rpn=... shapes=... rargs=...`).
"""
import itertools, os, random, hashlib
import numpy as np

HERE = os.path.dirname(os.path.abspath(__file__))


def prod(s):
    p = 1
    for x in s:
        p *= int(x)
    return p


def fmt(l):
    l = list(l)
    return '[]' if not l else ','.join(str(int(x)) for x in l)


def ct_tuple(vals):
    return 'nmtools_tuple{' + ','.join('%d_ct' % v for v in vals) + '}'


def cl_tuple(vals, maxes):
    return 'nmtools_tuple{' + ','.join('"%d:[%d]"_ct' % (v, m) for v, m in zip(vals, maxes)) + '}'


# ------------------------------------------------------------------------------------------------
# leaves
# ------------------------------------------------------------------------------------------------

LEAF_KINDS = ['cs', 'fx', 'cl', 'cld', 'cla', 'fd', 'fdf', 'fdh', 'bd', 'dy']
QUICK_KINDS = ['cs', 'cl', 'cld', 'cla', 'fd', 'fdh', 'bd', 'dy']


class Leaf:
    """kind + nominal shape P (the type parameter; also the first run-time instance)."""
    is_leaf = True

    def __init__(self, kind, P):
        self.kind = kind
        self.P = tuple(P)

    def cxx_type(self):
        P = self.P; n = prod(P); k = self.kind
        if k == 'cs':
            return 'na::ndarray_t<std::array<int,%d>, decltype(%s)>' % (n, ct_tuple(P))
        if k == 'fx':
            return 'na::fixed_ndarray<int,%s>' % ','.join(map(str, P))
        if k == 'cl':
            return 'na::ndarray_t<nmtools_static_vector<int,%d>, nmtools_tuple<%s>>' % (n, ','.join('nm::clipped_size_t<%d>' % e for e in P))
        if k == 'cld':
            return 'na::ndarray_t<std::vector<int>, nmtools_tuple<%s>>' % ','.join('nm::clipped_size_t<%d>' % e for e in P)
        if k == 'cla':
            return 'na::ndarray_t<std::vector<int>, nmtools_array<nm::clipped_size_t<%d>,%d>>' % (max(P), len(P))
        if k == 'fd':
            return 'na::ndarray_t<std::vector<int>, std::array<size_t,%d>>' % len(P)
        if k == 'fdf':
            return 'na::ndarray_t<std::array<int,%d>, std::array<size_t,%d>>' % (n, len(P))
        if k == 'fdh':
            return 'na::ndarray_t<nmtools_static_vector<int,%d>, std::array<size_t,%d>>' % (n, len(P))
        if k == 'bd':
            return 'na::ndarray_t<std::vector<int>, nmtools_static_vector<size_t,%d>>' % (len(P) + 1)
        if k == 'dy':
            return 'na::ndarray_t<std::vector<int>, std::vector<size_t>>'
        raise ValueError(k)

    def token(self):
        return 'L.%s.%s' % (self.kind, fmt(self.P))

    def text(self):
        return '%s[%s]' % (self.kind, fmt(self.P))

    def admitted(self, rng, many):
        """run-time shapes the TYPE admits (all of them when the set is small), nominal first."""
        P = self.P; k = self.kind; r = len(P)
        out = [P]
        if k in ('cs', 'fx'):
            return out
        if k in ('cl', 'cld'):
            out += [s for s in itertools.product(*[range(1, e + 1) for e in P])]
        elif k == 'cla':
            allv = list(itertools.product(range(1, max(P) + 1), repeat=r))
            if len(allv) > (27 if many else 9):
                allv = rng.sample(allv, 27 if many else 9)
            out += allv
        elif k == 'fdf':
            out += [s for s in itertools.product(range(1, prod(P) + 1), repeat=r) if prod(s) == prod(P)]
        elif k == 'fdh':
            allv = [s for s in itertools.product(range(1, prod(P) + 1), repeat=r) if prod(s) <= prod(P)]
            if len(allv) > (16 if many else 6):
                allv = rng.sample(allv, 16 if many else 6)
            out += allv + [(1,) * r]
        elif k == 'fd':
            out += [(1,) * r, P[::-1]] + [tuple(rng.randint(1, 4) for _ in range(r)) for _ in range(4 if many else 2)]
        elif k in ('bd', 'dy'):
            out += [(1,) * r, P[::-1]] + [tuple(rng.randint(1, 4) for _ in range(r)) for _ in range(3 if many else 1)]
            # ranks up to the bound of a bounded-dim leaf (r + 1) matter: the inferred bounds must still hold there
            out += [(rng.randint(1, 5),), tuple(rng.randint(1, 3) for _ in range(r + 1)), (1,) * r + (2,), (2,) + (1,) * r]
            if k == 'dy':
                out += [tuple(rng.randint(1, 2) for _ in range(r + 2))]
        seen = []
        for s in out:
            s = tuple(int(x) for x in s)
            if s not in seen:
                seen.append(s)
        return seen


# ------------------------------------------------------------------------------------------------
# operations.  A node knows: C++ expression, NumPy evaluation, run-time argument values, RPN token.
# Argument kinds: ct (compile-time constant), cl (clipped: run-time value with compile-time maximum),
# rt (std::array<int,N>: length static, values run time), rtv (std::vector<int>), sv (nmtools_static_vector<int,N>: length run time,
# at most the capacity N), rts (run-time int), none
# ------------------------------------------------------------------------------------------------

class Node:
    is_leaf = False

    def __init__(self, name, kids, akind='', ct=None, N=None, rfun=None, npf=None, cxx=None, extra='', clv=None, mextra=None):
        self.name = name; self.kids = kids; self.akind = akind
        self.ct = ct            # compile-time value(s) (also the maxima for 'cl')
        self.N = N              # static length of an rt argument
        self.rfun = rfun        # (list of kid run-time shapes) -> run-time argument value (list) or None = instance not applicable
        self.npf = npf          # (list of kid arrays, run-time argument) -> ndarray
        self.cxx = cxx          # (list of kid expressions, run-time argument expression) -> C++ expression
        self.extra = extra      # extra token text (keepdims ...)
        self.clv = clv          # run-time values of a clipped argument
        self.mextra = mextra    # `extra` as the Lean driver needs it (more explicit than the readable text), when different

    def has_rarg(self):
        return self.rfun is not None

    def token(self, model=False):
        """RPN token read by lean/NmVerif/Driver/C11.lean: name.argkind.fields (lists comma separated); model=False: the
        same token as part of the readable program text (kept stable: it is written into the generated TUs)"""
        t = self.name
        k = self.akind
        if k == 'ct':
            t += '.ct.' + (fmt(self.ct) if isinstance(self.ct, (tuple, list)) else str(self.ct))
        elif k in ('cts',):
            t += '.cts.%d' % self.ct
        elif k == 'ctt':
            t += '.ctt.' + fmt(self.ct)
        elif k == 'cl':
            t += '.cl.%s.%s' % (fmt(self.ct), fmt(self.clv))
        elif k == 'rt':
            t += '.rt.%d' % self.N
        elif k == 'sv':
            t += '.sv.%d' % self.N
        elif k and k != 'pat':
            t += '.' + k
        extra = self.mextra if (model and self.mextra is not None) else self.extra
        if extra:
            t += '.' + extra
        return t

    def text(self):
        a = self.token().split('.', 1)
        return '%s(%s%s)' % (self.name, ','.join(k.text() for k in self.kids), (';' + a[1]) if len(a) > 1 else '')


def rarg_expr(akind, N, slot):
    if akind == 'rt':
        return 'c11::to_arr<%d>(R[%d])' % (N, slot)
    if akind == 'rtv':
        return 'c11::to_vec(R[%d])' % slot
    if akind == 'sv':
        return 'c11::to_sv<%d>(R[%d])' % (N, slot)
    if akind in ('rts', 'slr'):
        return '(int)R[%d][0]' % slot
    if akind == 'cl':
        return None
    raise ValueError(akind)


def _perm(r, variant=0):
    p = list(range(r))
    if r <= 1:
        return p
    return p[1:] + p[:1] if variant == 0 else p[::-1]


# each factory: (kid nodes, nominal kid shapes) -> list of Node variants ---------------------------

def op_transpose(k, v):
    r = len(v); out = []
    out.append(Node('transpose', [k], 'none', npf=lambda a, _: np.transpose(a[0]), cxx=lambda e, _: 'view::transpose(%s, nm::None)' % e[0]))
    p = _perm(r)
    out.append(Node('transpose', [k], 'ct', ct=tuple(p), npf=lambda a, _, p=p: np.transpose(a[0], p),
                    cxx=lambda e, _, p=p: 'view::transpose(%s, %s)' % (e[0], ct_tuple(p))))
    out.append(Node('transpose', [k], 'rt', N=r, rfun=lambda s, r=r: _perm(len(s[0])) if len(s[0]) == r else None,
                    npf=lambda a, x: np.transpose(a[0], x), cxx=lambda e, x: 'view::transpose(%s, %s)' % (e[0], x)))
    out.append(Node('transpose', [k], 'rtv', rfun=lambda s: _perm(len(s[0]), 1),
                    npf=lambda a, x: np.transpose(a[0], x), cxx=lambda e, x: 'view::transpose(%s, %s)' % (e[0], x)))
    return out


def _reshape_target(s, variant=0):
    s = list(s); n = prod(s)
    if len(s) >= 2 and variant == 0:
        return [s[-1], n // s[-1]] if s[-1] != n // s[-1] or len(s) > 2 else [n, 1]
    if variant == 1:
        return [1, n]
    return [n]


def op_reshape(k, v):
    out = []
    t = _reshape_target(v)
    out.append(Node('reshape', [k], 'ct', ct=tuple(t), npf=lambda a, _, t=t: np.reshape(a[0], t),
                    cxx=lambda e, _, t=t: 'view::reshape(%s, %s)' % (e[0], ct_tuple(t))))
    # clipped target: run-time values with compile-time maxima (one tight, one with slack)
    for slack in (0, 2):
        mx = [x + slack for x in t]
        out.append(Node('reshape', [k], 'cl', ct=tuple(mx), N=len(t),
                        rfun=None, npf=lambda a, _, t=t: np.reshape(a[0], t),
                        cxx=lambda e, _, t=t, mx=mx: 'view::reshape(%s, %s)' % (e[0], cl_tuple(t, mx)), clv=tuple(t)))
    out.append(Node('reshape', [k], 'rt', N=len(t), rfun=lambda s, L=len(t): (lambda x: x if len(x) == L else None)(_reshape_target(s[0])),
                    npf=lambda a, x: np.reshape(a[0], x), cxx=lambda e, x: 'view::reshape(%s, %s)' % (e[0], x)))
    out.append(Node('reshape', [k], 'rt', N=2, rfun=lambda s: [-1, s[0][-1]],
                    npf=lambda a, x: np.reshape(a[0], x), cxx=lambda e, x: 'view::reshape(%s, %s)' % (e[0], x), extra='m1'))
    out.append(Node('reshape', [k], 'rtv', rfun=lambda s: _reshape_target(s[0], 1),
                    npf=lambda a, x: np.reshape(a[0], x), cxx=lambda e, x: 'view::reshape(%s, %s)' % (e[0], x)))
    return out


def op_flatten(k, v):
    return [Node('flatten', [k], npf=lambda a, _: np.ravel(a[0]), cxx=lambda e, _: 'view::flatten(%s)' % e[0])]


def _bcast_target(s):
    return [2] + [3 if (x == 1 and i == len(s) - 1) else x for i, x in enumerate(s)]


def op_broadcast_to(k, v):
    out = []
    t = _bcast_target(v)
    out.append(Node('broadcast_to', [k], 'ct', ct=tuple(t), npf=lambda a, _, t=t: np.broadcast_to(a[0], t),
                    cxx=lambda e, _, t=t: 'view::broadcast_to(%s, %s)' % (e[0], ct_tuple(t))))
    mx = [x + 1 for x in t]
    out.append(Node('broadcast_to', [k], 'cl', ct=tuple(mx), N=len(t), npf=lambda a, _, t=t: np.broadcast_to(a[0], t),
                    cxx=lambda e, _, t=t, mx=mx: 'view::broadcast_to(%s, %s)' % (e[0], cl_tuple(t, mx)), clv=tuple(t)))
    out.append(Node('broadcast_to', [k], 'rt', N=len(t), rfun=lambda s, L=len(t): (lambda x: x if len(x) == L else None)(_bcast_target(s[0])),
                    npf=lambda a, x: np.broadcast_to(a[0], x), cxx=lambda e, x: 'view::broadcast_to(%s, %s)' % (e[0], x)))
    out.append(Node('broadcast_to', [k], 'rtv', rfun=lambda s: _bcast_target(s[0]),
                    npf=lambda a, x: np.broadcast_to(a[0], x), cxx=lambda e, x: 'view::broadcast_to(%s, %s)' % (e[0], x)))
    return out


def op_tile(k, v):
    r = len(v); out = []
    for reps in ([2] + [1] * (r - 1), [2, 1] + [2] * r if r < 2 else [3, 1, 2][:r + 1]):
        reps = list(reps)
        out.append(Node('tile', [k], 'ct', ct=tuple(reps), npf=lambda a, _, t=reps: np.tile(a[0], t),
                        cxx=lambda e, _, t=reps: 'view::tile(%s, %s)' % (e[0], ct_tuple(t))))
    out.append(Node('tile', [k], 'rt', N=r, rfun=lambda s, r=r: ([1] * (r - 1) + [2]),
                    npf=lambda a, x: np.tile(a[0], x), cxx=lambda e, x: 'view::tile(%s, %s)' % (e[0], x)))
    out.append(Node('tile', [k], 'rtv', rfun=lambda s: [2] * (len(s[0]) + 1),
                    npf=lambda a, x: np.tile(a[0], x), cxx=lambda e, x: 'view::tile(%s, %s)' % (e[0], x)))
    return out


def op_expand_dims(k, v):
    out = []
    out.append(Node('expand_dims', [k], 'cts', ct=0, npf=lambda a, _: np.expand_dims(a[0], 0),
                    cxx=lambda e, _: 'view::expand_dims(%s, 0_ct)' % e[0]))
    ax = (0, len(v) + 1)
    out.append(Node('expand_dims', [k], 'ctt', ct=ax, npf=lambda a, _, ax=ax: np.expand_dims(a[0], ax),
                    cxx=lambda e, _, ax=ax: 'view::expand_dims(%s, %s)' % (e[0], ct_tuple(ax))))
    out.append(Node('expand_dims', [k], 'rts', rfun=lambda s: [len(s[0])],
                    npf=lambda a, x: np.expand_dims(a[0], x[0]), cxx=lambda e, x: 'view::expand_dims(%s, %s)' % (e[0], x)))
    return out


def op_squeeze(k, v):
    return [Node('squeeze', [k], npf=lambda a, _: np.squeeze(a[0]), cxx=lambda e, _: 'view::squeeze(%s)' % e[0])]


def op_sum(k, v):
    r = len(v); out = []
    for kd in (0, 1):
        kds = 'nm::True' if kd else 'nm::False'
        out.append(Node('sum', [k], 'cts', ct=r - 1, extra='kd%d' % kd, npf=lambda a, _, ax=r - 1, kd=kd: np.sum(a[0], axis=ax, keepdims=bool(kd)),
                        cxx=lambda e, _, ax=r - 1, kds=kds: 'view::sum(%s, %d_ct, nm::None, nm::None, %s)' % (e[0], ax, kds)))
        out.append(Node('sum', [k], 'rts', extra='kd%d' % kd, rfun=lambda s: [0], npf=lambda a, x, kd=kd: np.sum(a[0], axis=x[0], keepdims=bool(kd)),
                        cxx=lambda e, x, kds=kds: 'view::sum(%s, %s, nm::None, nm::None, %s)' % (e[0], x, kds)))
    if r >= 2:
        ax = (0, r - 1)
        out.append(Node('sum', [k], 'ctt', ct=ax, extra='kd0', npf=lambda a, _, ax=ax: np.sum(a[0], axis=ax),
                        cxx=lambda e, _, ax=ax: 'view::sum(%s, %s, nm::None, nm::None, nm::False)' % (e[0], ct_tuple(ax))))
        out.append(Node('sum', [k], 'rt', N=2, extra='kd1', rfun=lambda s: [0, len(s[0]) - 1] if len(s[0]) >= 2 else None,
                        npf=lambda a, x: np.sum(a[0], axis=tuple(x), keepdims=True),
                        cxx=lambda e, x: 'view::sum(%s, %s, nm::None, nm::None, nm::True)' % (e[0], x)))
    return out


def op_negative(k, v):
    return [Node('negative', [k], npf=lambda a, _: -a[0], cxx=lambda e, _: 'view::negative(%s)' % e[0])]


def op_add(k1, k2, v1, v2):
    return [Node('add', [k1, k2], npf=lambda a, _: a[0] + a[1], cxx=lambda e, _: 'view::add(%s, %s)' % (e[0], e[1]))]


def op_concatenate(k1, k2, v1, v2):
    out = []
    out.append(Node('concatenate', [k1, k2], 'cts', ct=0, npf=lambda a, _: np.concatenate([a[0], a[1]], 0),
                    cxx=lambda e, _: 'view::concatenate(%s, %s, 0_ct)' % (e[0], e[1])))
    out.append(Node('concatenate', [k1, k2], 'rts', rfun=lambda s: [0], npf=lambda a, x: np.concatenate([a[0], a[1]], x[0]),
                    cxx=lambda e, x: 'view::concatenate(%s, %s, %s)' % (e[0], e[1], x)))
    out.append(Node('concatenate', [k1, k2], 'none', npf=lambda a, _: np.concatenate([a[0], a[1]], None),
                    cxx=lambda e, _: 'view::concatenate(%s, %s, nm::None)' % (e[0], e[1])))
    return out


# operations whose transfer functions live in lean/NmVerif/StaticMore.lean -----------------------------

def op_repeat(k, v):
    out = []
    # repeats: compile-time constant / run-time int; axis: compile-time constant / None / run-time int
    out.append(Node('repeat', [k], 'ct', ct=(2,), extra='axc0', npf=lambda a, _: np.repeat(a[0], 2, 0), cxx=lambda e, _: 'view::repeat(%s, 2_ct, 0_ct)' % e[0]))
    out.append(Node('repeat', [k], 'ct', ct=(3,), extra='axn', npf=lambda a, _: np.repeat(a[0], 3, None), cxx=lambda e, _: 'view::repeat(%s, 3_ct, nm::None)' % e[0]))
    out.append(Node('repeat', [k], 'rts', extra='axr0', rfun=lambda s: [2], npf=lambda a, x: np.repeat(a[0], x[0], 0), cxx=lambda e, x: 'view::repeat(%s, %s, 0)' % (e[0], x)))
    out.append(Node('repeat', [k], 'rts', extra='axn', rfun=lambda s: [3], npf=lambda a, x: np.repeat(a[0], x[0], None), cxx=lambda e, x: 'view::repeat(%s, %s, nm::None)' % (e[0], x)))
    return out


def op_pad(k, v):
    r = len(v)
    before = [1] + [0] * (r - 1); after = [0] * (r - 1) + [2]
    flat = before + after        # nmtools order: before_0.., after_0..
    npw = list(zip(before, after))
    out = [Node('pad', [k], 'rt', N=2 * r, rfun=lambda s, r=r, flat=flat: flat if len(s[0]) == r else None,
                npf=lambda a, x, r=r: np.pad(a[0], list(zip(x[:r], x[r:]))), cxx=lambda e, x: 'view::pad(%s, %s)' % (e[0], x))]
    out.append(Node('pad', [k], 'ct', ct=tuple(flat), npf=lambda a, _, npw=npw: np.pad(a[0], npw),
                    cxx=lambda e, _, flat=flat: 'view::pad(%s, %s)' % (e[0], ct_tuple(flat))))
    mx = [x + 1 for x in flat]
    out.append(Node('pad', [k], 'cl', ct=tuple(mx), N=len(flat), npf=lambda a, _, npw=npw: np.pad(a[0], npw),
                    cxx=lambda e, _, flat=flat, mx=mx: 'view::pad(%s, %s)' % (e[0], cl_tuple(flat, mx)), clv=tuple(flat)))
    out.append(Node('pad', [k], 'rtv', rfun=lambda s: [1] + [0] * (len(s[0]) - 1) + [0] * (len(s[0]) - 1) + [2],
                    npf=lambda a, x: np.pad(a[0], list(zip(x[:len(x) // 2], x[len(x) // 2:]))), cxx=lambda e, x: 'view::pad(%s, %s)' % (e[0], x)))
    return out


def op_cumsum(k, v):
    return [Node('cumsum', [k], 'rts', rfun=lambda s: [0], npf=lambda a, x: np.cumsum(a[0], x[0]), cxx=lambda e, x: 'view::cumsum(%s, %s)' % (e[0], x)),
            Node('cumsum', [k], 'cts', ct=0, npf=lambda a, _: np.cumsum(a[0], 0), cxx=lambda e, _: 'view::cumsum(%s, 0_ct)' % e[0])]


def op_roll(k, v):
    return [Node('roll', [k], 'rts', extra='axn', rfun=lambda s: [1], npf=lambda a, x: np.roll(a[0], x[0]), cxx=lambda e, x: 'view::roll(%s, %s)' % (e[0], x)),
            Node('roll', [k], 'rts', extra='axr0', rfun=lambda s: [1], npf=lambda a, x: np.roll(a[0], x[0], 0), cxx=lambda e, x: 'view::roll(%s, %s, 0)' % (e[0], x)),
            Node('roll', [k], 'ct', ct=(1,), extra='axc0', npf=lambda a, _: np.roll(a[0], 1, 0), cxx=lambda e, _: 'view::roll(%s, 1_ct, 0_ct)' % e[0])]


def op_flip(k, v):
    return [Node('flip', [k], 'none', npf=lambda a, _: np.flip(a[0]), cxx=lambda e, _: 'view::flip(%s, nm::None)' % e[0]),
            Node('flip', [k], 'cts', ct=0, npf=lambda a, _: np.flip(a[0], 0), cxx=lambda e, _: 'view::flip(%s, 0_ct)' % e[0]),
            Node('flip', [k], 'rts', rfun=lambda s: [0], npf=lambda a, x: np.flip(a[0], x[0]), cxx=lambda e, x: 'view::flip(%s, %s)' % (e[0], x))]


def op_moveaxis(k, v):
    r = len(v)
    return [Node('moveaxis', [k], 'ct', ct=(0, r - 1), npf=lambda a, _, r=r: np.moveaxis(a[0], 0, r - 1),
                 cxx=lambda e, _, r=r: 'view::moveaxis(%s, 0_ct, %d_ct)' % (e[0], r - 1)),
            Node('moveaxis', [k], 'rts', rfun=lambda s: [len(s[0]) - 1], npf=lambda a, x: np.moveaxis(a[0], 0, x[0]),
                 cxx=lambda e, x: 'view::moveaxis(%s, 0, %s)' % (e[0], x))]


def op_take(k, v):
    return [Node('take', [k], 'rt', N=3, extra='axr0', rfun=lambda s: [0, s[0][0] - 1, 0], npf=lambda a, x: np.take(a[0], x, 0),
                 cxx=lambda e, x: 'view::take(%s, %s, 0)' % (e[0], x)),
            Node('take', [k], 'rtv', extra='axr0', rfun=lambda s: [s[0][0] - 1, 0], npf=lambda a, x: np.take(a[0], x, 0),
                 cxx=lambda e, x: 'view::take(%s, %s, 0)' % (e[0], x)),
            Node('take', [k], 'ct', ct=(0, 0, 0), extra='axc0', npf=lambda a, _: np.take(a[0], [0, 0, 0], 0),
                 cxx=lambda e, _: 'view::take(%s, %s, 0_ct)' % (e[0], ct_tuple((0, 0, 0))))]


def op_slice(k, v):
    r = len(v)
    if r < 2:
        return []
    # token fields: the slice entries, `e` = Ellipsis, `r<a>_<b>` = a:b (run-time ints in a tuple), `i<k>` = integer index
    return [Node('slice', [k], 'sl', extra='e.r0_1', npf=lambda a, _: a[0][..., 0:1], cxx=lambda e, _: 'view::slice(%s, nm::Ellipsis, nmtools_tuple{0,1})' % e[0]),
            Node('slice', [k], 'slr', rfun=lambda s: [1] if len(s[0]) >= 2 else None, npf=lambda a, x: a[0][0:x[0]], cxx=lambda e, x: 'view::slice(%s, nmtools_tuple{0,%s}, nm::Ellipsis)' % (e[0], x)),
            Node('slice', [k], 'sl', extra='i0.e', npf=lambda a, _: a[0][0, ...], cxx=lambda e, _: 'view::slice(%s, 0, nm::Ellipsis)' % e[0])]


def op_atleast_3d(k, v):
    return [Node('atleast_3d', [k], npf=lambda a, _: np.reshape(a[0], (1,) * max(0, 3 - a[0].ndim) + a[0].shape),
                 cxx=lambda e, _: 'view::atleast_nd(%s, 3_ct)' % e[0])]


# three-operand broadcasting: view::where(c, x, y) and view::broadcast_arrays(p, q, r)[0]  (view::clip, the third user of
# broadcast_arrays with three operands, does not compile in the unchanged library for any operand kinds: its test is disabled too).  The operand pattern says what stands in each position: a = first array,
# b = second array, s = a number literal (size type ct<1>, shape None).
_LIT = {'where': ('1', '7', '7'), 'bcast3': ('7', '7', '7')}


def _three(name, pat, kids):
    lit = _LIT[name]

    def vals(a):
        return [a[0] if ch == 'a' else (a[1] if ch == 'b' else int(lit[i])) for i, ch in enumerate(pat)]

    def exprs(e):
        return [e[0] if ch == 'a' else (e[1] if ch == 'b' else lit[i]) for i, ch in enumerate(pat)]
    if name == 'where':
        npf = lambda a, _: (lambda v: np.where(np.asarray(v[0]) != 0, v[1], v[2]))(vals(a))
        cxx = lambda e, _: 'view::where(%s, %s, %s)' % tuple(exprs(e))
    else:
        npf = lambda a, _: (lambda v: np.broadcast_arrays(*[np.asarray(x) for x in v])[0])(vals(a))
        cxx = lambda e, _: 'c11::first(view::broadcast_arrays(%s, %s, %s))' % tuple(exprs(e))
    return Node(name, kids, 'pat', extra=pat, npf=npf, cxx=cxx)


PAT2 = ['aab', 'asb', 'abs', 'sab', 'sba', 'bas', 'bsa']
PAT1 = ['ass', 'sas', 'ssa']


def op_where(k1, k2, v1, v2):
    return [_three('where', 'aab', [k1, k2])]


def op_where3(k1, k2, v1, v2):
    return [_three('where', pat, [k1, k2]) for pat in PAT2]


def op_bcast3(k1, k2, v1, v2):
    return [_three('bcast3', pat, [k1, k2]) for pat in ('asb', 'sab', 'bsa', 'aab')]


def op_where1(k, v):
    return [_three('where', pat, [k]) for pat in PAT1]


def op_bcast1(k, v):
    return [_three('bcast3', 'ass', [k]), _three('bcast3', 'sas', [k])]


def _matmul2d(a, b):
    if a.ndim < 2 or b.ndim < 2:
        raise ValueError('1-d matmul operands are outside the generated domain')
    return np.matmul(a, b)


def op_matmul(k1, k2, v1, v2):
    return [Node('matmul', [k1, k2], npf=lambda a, _: _matmul2d(a[0], a[1]), cxx=lambda e, _: 'view::matmul(%s, %s)' % (e[0], e[1]))]


def op_multiply_scalar(k, v):
    return [Node('mulscalar', [k], npf=lambda a, _: a[0] * 3, cxx=lambda e, _: 'view::multiply(%s, 3)' % e[0])]



# third group (transfer functions in lean/NmVerif/StaticGen.lean): generating / selecting / pooling / windowing views ----------

def op_eye(k, v):
    # no array operand: the leaf only supplies run-time numbers (its instance shape); kinds of N, M: constant / run-time
    return [Node('eye', [k], 'ct', ct=(2, 3), npf=lambda a, _: np.eye(2, 3), cxx=lambda e, _: 'view::eye(2_ct, 3_ct)'),
            Node('eye', [k], 'cts', ct=3, npf=lambda a, _: np.eye(3), cxx=lambda e, _: 'view::eye(3_ct)'),
            Node('eye', [k], 'rt', N=2, rfun=lambda s: [s[0][0], s[0][-1] + 1], npf=lambda a, x: np.eye(x[0], x[1]),
                 cxx=lambda e, x: 'view::eye((size_t)(%s)[0], (size_t)(%s)[1])' % (x, x)),
            Node('eye', [k], 'rts', rfun=lambda s: [s[0][-1]], npf=lambda a, x: np.eye(x[0]), cxx=lambda e, x: 'view::eye((size_t)%s)' % x)]


def op_tri(k, v):
    return [Node('tri', [k], 'ct', ct=(2, 3), npf=lambda a, _: np.tri(2, 3), cxx=lambda e, _: 'view::tri(2_ct, 3_ct)'),
            Node('tri', [k], 'rt', N=2, rfun=lambda s: [s[0][0], s[0][-1] + 1], npf=lambda a, x: np.tri(x[0], x[1]),
                 cxx=lambda e, x: 'view::tri((size_t)(%s)[0], (size_t)(%s)[1])' % (x, x))]


def op_tril(k, v):
    if len(v) < 2:
        return []
    return [Node('tril', [k], 'none', npf=lambda a, _: np.tril(a[0]), cxx=lambda e, _: 'view::tril(%s)' % e[0]),
            Node('tril', [k], 'cts', ct=1, npf=lambda a, _: np.tril(a[0], 1), cxx=lambda e, _: 'view::tril(%s, 1_ct)' % e[0]),
            Node('triu', [k], 'rts', rfun=lambda s: [1], npf=lambda a, x: np.triu(a[0], x[0]), cxx=lambda e, x: 'view::triu(%s, %s)' % (e[0], x))]


def _pool(a, kh, kw, sh, sw, ceil, red):
    H, W = a.shape[-2:]
    if H < kh or W < kw:
        raise ValueError('kernel larger than the array')
    f = (lambda n, k, s: -(-(n - k) // s) + 1) if ceil else (lambda n, k, s: (n - k) // s + 1)
    oh, ow = f(H, kh, sh), f(W, kw, sw)
    out = np.zeros(a.shape[:-2] + (oh, ow), dtype=np.int64)
    for i in range(oh):
        for j in range(ow):
            out[..., i, j] = red(a[..., i * sh:i * sh + kh, j * sw:j * sw + kw].reshape(a.shape[:-2] + (-1,)), axis=-1)
    return out


def op_pool2d(k, v):
    if len(v) < 2:
        return []
    return [Node('max_pool2d', [k], 'ct', ct=(2, 2), extra='s1.c0', npf=lambda a, _: _pool(a[0], 2, 2, 1, 1, False, np.max),
                 cxx=lambda e, _: 'view::max_pool2d(%s, nmtools_tuple{2_ct,2_ct}, nmtools_tuple{1_ct,1_ct}, nm::False)' % e[0]),
            Node('max_pool2d', [k], 'rt', N=2, extra='s2.c1', rfun=lambda s: [2, 2], npf=lambda a, x: _pool(a[0], x[0], x[1], 2, 2, True, np.max),
                 cxx=lambda e, x: 'view::max_pool2d(%s, %s, std::array<int,2>{2,2}, nm::True)' % (e[0], x)),
            Node('avg_pool2d', [k], 'rt', N=2, extra='s1.c0', rfun=lambda s: [2, 1], npf=lambda a, x: _pool(a[0], x[0], x[1], 1, 1, False, np.sum),
                 cxx=lambda e, x: 'view::avg_pool2d(%s, %s, std::array<int,2>{1,1}, nm::False)' % (e[0], x))]


def op_resize(k, v):
    r = len(v)
    t = [3, 4, 2, 2][:r]
    # the element map of view::resize (nearest neighbour) is not NumPy's: only the shape is the reference here
    def same_rank(a, t):
        if a.ndim != len(t):
            raise ValueError('resize keeps the rank')
        return np.zeros(t, dtype=np.int64)
    return [Node('resize', [k], 'ct', ct=tuple(t), npf=lambda a, _, t=t: same_rank(a[0], t), cxx=lambda e, _, t=t: 'view::resize(%s, %s)' % (e[0], ct_tuple(t))),
            Node('resize', [k], 'rt', N=r, rfun=lambda s, r=r: [x + 1 for x in s[0]] if len(s[0]) == r else None,
                 npf=lambda a, x: np.zeros(x, dtype=np.int64), cxx=lambda e, x: 'view::resize(%s, %s)' % (e[0], x)),
            Node('resize', [k], 'rtv', rfun=lambda s: [x + 2 for x in s[0]], npf=lambda a, x: np.zeros(x, dtype=np.int64),
                 cxx=lambda e, x: 'view::resize(%s, %s)' % (e[0], x))]


def _swv(a, w, ax):
    return np.lib.stride_tricks.sliding_window_view(a, w, ax)


def op_sliding_window(k, v):
    r = len(v)
    full = tuple([1] * (r - 1) + [2])
    return [Node('sliding_window', [k], 'cts', ct=2, extra='axc', mextra='axc%d' % (r - 1), npf=lambda a, _, r=r: _swv(a[0], 2, r - 1),
                 cxx=lambda e, _, r=r: 'view::sliding_window(%s, 2_ct, %d_ct)' % (e[0], r - 1)),
            Node('sliding_window', [k], 'ct', ct=full, extra='axn', npf=lambda a, _, full=full: _swv(a[0], full, None),
                 cxx=lambda e, _, full=full: 'view::sliding_window(%s, %s)' % (e[0], ct_tuple(full))),
            Node('sliding_window', [k], 'rts', extra='axr', rfun=lambda s: [2], npf=lambda a, x: _swv(a[0], x[0], a[0].ndim - 1),
                 cxx=lambda e, x: 'view::sliding_window(%s, %s, -1)' % (e[0], x)),
            Node('sliding_window', [k], 'rt', N=r, extra='axn', rfun=lambda s, r=r: ([1] * (r - 1) + [2]) if len(s[0]) == r else None,
                 npf=lambda a, x: _swv(a[0], tuple(x), None), cxx=lambda e, x: 'view::sliding_window(%s, %s)' % (e[0], x))]


def op_compress(k, v):
    return [Node('compress', [k], 'ct', ct=(1, 0), extra='axc0', npf=lambda a, _: np.compress([1, 0], a[0], 0),
                 cxx=lambda e, _: 'view::compress(nmtools_tuple{1_ct,0_ct}, %s, 0_ct)' % e[0]),
            Node('compress', [k], 'rt', N=2, extra='axr', rfun=lambda s: [0, 1] if s[0][-1] >= 2 else None,
                 npf=lambda a, x: np.compress(x, a[0], a[0].ndim - 1), cxx=lambda e, x: 'view::compress(%s, %s, -1)' % (x, e[0])),
            Node('compress', [k], 'rtv', extra='axr0', rfun=lambda s: ([1, 0, 1] * 4)[:s[0][0]], npf=lambda a, x: np.compress(x, a[0], 0),
                 cxx=lambda e, x: 'view::compress(%s, %s, 0)' % (x, e[0]))]


def op_outer(k1, k2, v1, v2):
    return [Node('outer_add', [k1, k2], npf=lambda a, _: np.add.outer(a[0], a[1]), cxx=lambda e, _: 'view::outer_add(%s, %s)' % (e[0], e[1]))]


# bounded-container arguments (nmtools_static_vector<int,CAP>): the length is a run-time value BELOW or AT the capacity; the
# bounded_dim / bounded_size of the view must come from the capacity.  Reps / targets are longer than the operand's rank.
def op_bounded_args(k, v):
    r = len(v); out = []

    def both(name, cap_lo, cap_at, vals_lo, vals_at, npf, call):
        # (capacity above the run-time length, capacity equal to it)
        for tag, cap, vals in (('below', cap_lo, vals_lo), ('at', cap_at, vals_at)):
            out.append(Node(name, [k], 'sv', N=cap, extra=tag, rfun=lambda s, vals=vals, r=r: vals(s[0]) if len(s[0]) == r else None,
                            npf=npf, cxx=lambda e, x, call=call: call % (e[0], x)))
    both('tile', r + 2, r + 1, lambda s: [2] * (len(s) + 1), lambda s: [2] * (len(s) + 1),
         lambda a, x: np.tile(a[0], x), 'view::tile(%s, %s)')
    both('tile', r + 3, r + 2, lambda s: [1, 2] + [1] * len(s), lambda s: [1, 2] + [1] * len(s),
         lambda a, x: np.tile(a[0], x), 'view::tile(%s, %s)')
    both('reshape', 4, 3, lambda s: [1, prod(s), 1], lambda s: [1, prod(s), 1],
         lambda a, x: np.reshape(a[0], x), 'view::reshape(%s, %s)')
    both('broadcast_to', r + 3, r + 2, lambda s: [2, 1] + list(s), lambda s: [2, 1] + list(s),
         lambda a, x: np.broadcast_to(a[0], x), 'view::broadcast_to(%s, %s)')
    both('transpose', r + 1, r, lambda s: _perm(len(s)), lambda s: _perm(len(s)),
         lambda a, x: np.transpose(a[0], x), 'view::transpose(%s, %s)')
    both('pad', 2 * r + 1, 2 * r, lambda s: [1] + [0] * (2 * len(s) - 2) + [2], lambda s: [1] + [0] * (2 * len(s) - 2) + [2],
         lambda a, x: np.pad(a[0], list(zip(x[:len(x) // 2], x[len(x) // 2:]))), 'view::pad(%s, %s)')
    return out


GEN_UNARY = [op_tril, op_pool2d, op_resize, op_sliding_window, op_compress]
GEN_NULLARY = [op_eye, op_tri]
GEN_BINARY = [op_outer]

MODELLED_UNARY = [op_transpose, op_reshape, op_flatten, op_broadcast_to, op_tile, op_expand_dims, op_squeeze, op_sum, op_negative]
MODELLED_BINARY = [op_add, op_concatenate]
# second group (transfer functions in StaticMore.lean); generated for fewer leaf kinds in the quick tier (compile time)
EXTRA_UNARY = [op_repeat, op_pad, op_cumsum, op_roll, op_flip, op_moveaxis, op_take, op_slice, op_atleast_3d, op_multiply_scalar]
EXTRA_BINARY = [op_where, op_matmul]
MODELLED = {'transpose', 'reshape', 'flatten', 'broadcast_to', 'tile', 'expand_dims', 'squeeze', 'sum', 'negative', 'add', 'concatenate',
            'repeat', 'pad', 'cumsum', 'roll', 'flip', 'moveaxis', 'take', 'slice', 'atleast_3d', 'mulscalar', 'where', 'matmul', 'bcast3',
            # third group (transfer functions in StaticGen.lean)
            'eye', 'tri', 'tril', 'triu', 'max_pool2d', 'avg_pool2d', 'resize', 'sliding_window', 'compress', 'outer_add'}

# header of each view function; a TU includes only what its programs use (compile time)
HEADER_OF = {'transpose': 'transpose', 'reshape': 'reshape', 'flatten': 'flatten', 'broadcast_to': 'broadcast_to', 'tile': 'tile',
             'expand_dims': 'expand_dims', 'squeeze': 'squeeze', 'sum': 'sum', 'negative': 'ufuncs/negative', 'add': 'ufuncs/add',
             'concatenate': 'concatenate', 'repeat': 'repeat', 'pad': 'pad', 'cumsum': 'cumsum', 'roll': 'roll', 'flip': 'flip',
             'moveaxis': 'moveaxis', 'take': 'take', 'slice': 'slice', 'atleast_3d': 'atleast_nd', 'mulscalar': 'ufuncs/multiply',
             'where': 'where', 'bcast3': 'broadcast_arrays', 'matmul': 'matmul', 'eye': 'eye', 'tri': 'tri', 'tril': 'tril', 'triu': 'triu', 'max_pool2d': 'pooling',
             'avg_pool2d': 'pooling', 'resize': 'resize', 'sliding_window': 'sliding_window', 'compress': 'compress', 'outer_add': 'ufuncs/add'}
BASE_HEADERS = ['ufuncs/add', 'ufuncs/mod']


# ------------------------------------------------------------------------------------------------
# programs
# ------------------------------------------------------------------------------------------------

class Program:
    def __init__(self, root):
        self.root = root
        self.leaves = []
        self.nodes = []        # post order
        self._walk(root)
        self.id = None
        self.group = ''         # '' = first group of TUs, 'x' = second group
        self.depth = self._depth(root)

    def _walk(self, n):
        if n.is_leaf:
            self.leaves.append(n)
            return
        for k in n.kids:
            self._walk(k)
        self.nodes.append(n)

    def _depth(self, n):
        return 0 if n.is_leaf else 1 + max(self._depth(k) for k in n.kids)

    def text(self):
        return self.root.text()

    def modelled(self):
        return all(n.name in MODELLED for n in self.nodes)

    def rpn(self):
        toks = []

        def rec(n):
            if n.is_leaf:
                toks.append(n.token()); return
            for k in n.kids:
                rec(k)
            toks.append(n.token(model=True))
        rec(self.root)
        return ';'.join(toks)

    def evaluate(self, shapes):
        """NumPy evaluation on provenance data. returns (ndarray, rargs) ; raises on inadmissible instance."""
        li = [0]; rargs = []

        def rec(n):
            if n.is_leaf:
                i = li[0]; li[0] += 1
                s = shapes[i]
                return (np.arange(prod(s), dtype=np.int64) + 1000 * i).reshape(s)
            arrs = [rec(k) for k in n.kids]
            x = None
            if n.has_rarg():
                x = n.rfun([a.shape for a in arrs])
                if x is None:
                    raise ValueError('instance not applicable')
                x = [int(t) for t in x]
                rargs.append(x)
            res = np.asarray(n.npf(arrs, x))
            if res.ndim == 0:
                # domain of the generator: every intermediate view has rank >= 1 (a run-time squeeze of an all-ones instance ends here)
                raise ValueError('rank-0 intermediate')
            return res
        r = rec(self.root)
        return r, rargs

    def cxx_function(self):
        lines = ['static std::string prog_%d(const c11::Shapes& S, const c11::Shapes& R) {' % self.id, '    // ' + self.text()]
        li = [0]; slot = [0]; vi = [0]

        def rec(n):
            if n.is_leaf:
                i = li[0]; li[0] += 1
                lines.append('    using L%d = %s; L%d a%d{}; if (!c11::make_leaf(a%d, S[%d], %d)) return "bad-leaf";' % (i, n.cxx_type(), i, i, i, i, 1000 * i))
                return 'a%d' % i
            es = [rec(k) for k in n.kids]
            x = None
            if n.has_rarg():
                x = rarg_expr(n.akind, n.N, slot[0]); slot[0] += 1
            vi[0] += 1
            # a view function may answer with nmtools_maybe: unwrap as user code would
            lines.append('    auto m%d = %s; if (!c11::has(m%d)) return "nothing"; auto v%d = c11::get(m%d);' % (vi[0], n.cxx(es, x), vi[0], vi[0], vi[0]))
            return 'v%d' % vi[0]
        # leaves must be declared before use and in leaf order: walk once for leaves, then nodes
        e = rec(self.root)
        nslots = slot[0]
        lines.insert(2, '    if (S.size() != %d || R.size() != %d) return "bad-args";' % (len(self.leaves), nslots))
        lines.append('    return c11::report(%s);' % e)
        lines.append('}')
        return '\n'.join(lines)


def nominal(node):
    """nominal run-time shape of a node (all leaves at their P)."""
    p = Program(node)
    r, _ = p.evaluate([l.P for l in p.leaves])
    return tuple(r.shape)


def unary_variants(facts, kid):
    v = nominal(kid) if not kid.is_leaf else tuple(kid.P)
    out = []
    for f in facts:
        try:
            out += f(kid, v)
        except Exception:
            pass
    return out


def binary_variants(facts, k1, k2):
    v1, v2 = nominal(k1), nominal(k2)
    out = []
    for f in facts:
        out += f(k1, k2, v1, v2)
    return out


def valid(node):
    """every intermediate result has rank >= 1 and the program evaluates at the nominal instance."""
    try:
        p = Program(node)
        if any(len(l.P) == 0 for l in p.leaves):
            return False
        for n in p.nodes:
            if len(nominal(n)) == 0:
                return False
            if n.name == 'matmul' and any(len(nominal(k)) != 2 for k in n.kids):
                return False
        return True
    except Exception:
        return False


def build_programs(tier):
    """deterministic list of programs of a tier (independent of VERIF_SEED, so that TUs stay cached)."""
    rng = random.Random(1100 + (0 if tier == 'quick' else 1))
    kinds = QUICK_KINDS if tier == 'quick' else LEAF_KINDS
    progs = []

    def add(n):
        if valid(n):
            progs.append(Program(n))

    # depth 1, unary: every op variant x every leaf kind
    for kind in kinds:
        leaf = lambda P, kind=kind: Leaf(kind, P)
        extra = EXTRA_UNARY if kind in (('cs', 'cl', 'fd', 'bd', 'dy') if tier == 'quick' else LEAF_KINDS) else []
        for n in unary_variants(MODELLED_UNARY + extra, leaf((2, 3))):
            if n.name == 'squeeze':
                continue
            add(n)
        for n in unary_variants([op_squeeze, op_sum, op_transpose] if tier != 'quick' else [op_squeeze], leaf((2, 1, 3))):
            add(n)
        if tier != 'quick':
            for n in unary_variants([op_squeeze, op_flatten, op_tile, op_broadcast_to, op_expand_dims], leaf((3,))):
                add(n)
    # depth 1, binary
    partners = ['cs', 'cl', 'dy'] if tier == 'quick' else ['cs', 'cl', 'cla', 'fd', 'fdh', 'bd', 'dy']
    for k1 in kinds:
        for k2 in partners:
            for (P1, P2) in (((2, 3), (2, 3)), ((2, 3), (1, 3)), ((2, 1), (3,))):
                if (P1, P2) != ((2, 3), (2, 3)) and k2 not in (('cs', 'dy') if tier == 'quick' else ('cs', 'cl', 'fd', 'dy')) and k1 != k2:
                    continue
                for n in binary_variants([op_add], Leaf(k1, P1), Leaf(k2, P2)):
                    add(n)
            if tier == 'quick' and k2 == 'cs':
                # run-time shaped partner of fixed rank: the broadcast_shape branch that reads clipped maxima as extents
                for n in binary_variants([op_add], Leaf(k1, (2, 3)), Leaf('fd', (2, 3))):
                    add(n)
            for n in binary_variants([op_concatenate], Leaf(k1, (2, 3)), Leaf(k2, (1, 3))):
                add(n)
            if k2 == 'cs' or (tier != 'quick' and k2 in ('cl', 'fd', 'dy')):
                for n in binary_variants([op_where], Leaf(k1, (2, 3)), Leaf(k2, (2, 3))):
                    add(n)
                for n in binary_variants([op_matmul], Leaf(k1, (2, 3)), Leaf(k2, (3, 2))):
                    add(n)
    # view kinds without a Lean transfer: every op variant x every leaf kind (depth 1); eye / tri have no array operand
    for kind in (('cs', 'cl', 'fd', 'bd', 'dy') if tier == 'quick' else kinds):
        for P in ((2, 3), (4, 4)) if tier != 'quick' else ((3, 4),):
            for n in unary_variants(GEN_UNARY, Leaf(kind, P)):
                add(n)
    for n in unary_variants(GEN_NULLARY, Leaf('dy', (2, 3))):
        add(n)
    for k1 in kinds:
        for k2 in partners:
            if tier == 'quick' and k2 != 'cs' and k1 not in ('cs', 'cl'):
                continue
            for n in binary_variants([op_outer], Leaf(k1, (2, 3)), Leaf(k2, (2,))):
                add(n)
    # matmul where the product bound of the operands' sizes is TIGHT: (3,1) x (1,3) has 9 = 3 * 3 elements
    for k1 in (('cs', 'cl', 'fdh') if tier == 'quick' else ('cs', 'cl', 'cla', 'fdf', 'fdh')):
        for k2 in (('cl',) if tier == 'quick' else ('cs', 'cl', 'fdh')):
            for n in binary_variants([op_matmul], Leaf(k1, (3, 1)), Leaf(k2, (1, 3))):
                add(n)
    # three-operand broadcasting with a number literal in every position (index::broadcast_size: the size type of the FIRST operand
    # survives only next to operands of size ct<1>): first array fixed-size / hybrid / dynamic, second array stretches the result
    firsts = ('cs', 'fdf', 'fdh') if tier == 'quick' else ('cs', 'fx', 'fdf', 'fdh', 'cl', 'dy')
    seconds = ('dy', 'fdf') if tier == 'quick' else ('dy', 'fd', 'fdf', 'cs')
    for k1 in firsts:
        for k2 in seconds:
            for n in binary_variants([op_where3, op_bcast3], Leaf(k1, (2, 1)), Leaf(k2, (7,))):
                add(n)
    for k1 in (('cs', 'fdf', 'fdh', 'dy') if tier == 'quick' else kinds):
        for n in unary_variants([op_where1, op_bcast1], Leaf(k1, (2, 3))):
            add(n)
    # where(c, c, y) with a one-element condition: the class of the known finding C11.where-tripled-fixed-size (fdf partner)
    # and its sound neighbours (bounded / constant-shape / dynamic partner)
    for k1, P1 in (('fdf', (1, 1)), ('cs', (1, 1)), ('cs', (1,))):
        for k2 in ('fdf', 'fdh', 'cs', 'dy'):
            for n in binary_variants([op_where], Leaf(k1, P1), Leaf(k2, (2, 3))):
                add(n)
    # depth 2 and 3: sampled compositions
    n2, n3 = (110, 25) if tier == 'quick' else (450, 220)
    una = MODELLED_UNARY + EXTRA_UNARY
    seen = set(p.text() for p in progs)

    def rand_leaf():
        return Leaf(rng.choice(kinds), rng.choice([(2, 3), (2, 3), (2, 1, 3), (3,), (1, 3)]))

    def rand_node(depth):
        if depth == 0:
            return rand_leaf()
        for _ in range(20):
            if rng.random() < 0.75:
                kid = rand_node(depth - 1)
                if not valid(kid):
                    continue
                vs = unary_variants([rng.choice(una if rng.random() < 0.35 else MODELLED_UNARY)], kid)
            else:
                k1 = rand_node(depth - 1)
                if not valid(k1):
                    continue
                v1 = nominal(k1)
                k2 = Leaf(rng.choice(kinds), rng.choice([v1, v1[-1:], (1,) + v1[1:]]))
                f = rng.choice(MODELLED_BINARY + MODELLED_BINARY + EXTRA_BINARY)
                if f is op_matmul:
                    k2 = Leaf(rng.choice(kinds), (v1[-1], 2))
                vs = binary_variants([f], k1, k2)
            vs = [n for n in vs if valid(n)]
            if vs:
                return rng.choice(vs)
        return rand_leaf()

    for depth, cnt in ((2, n2), (3, n3)):
        tries = 0
        while cnt > 0 and tries < 50 * (n2 + n3):
            tries += 1
            n = rand_node(depth)
            if n.is_leaf or not valid(n):
                continue
            p = Program(n)
            if p.depth != depth or p.text() in seen or prod(nominal(n)) > 400:
                continue
            seen.add(p.text()); progs.append(p); cnt -= 1
    skip = load_skip()
    progs = [p for p in progs if p.text() not in skip]
    # second group of translation units (own TUs, so that the first group stays cached): bounded-container arguments, and outer
    # products whose size is a compile-time constant although the shape is not (fixed buffers of run-time shape)
    extra = []

    def addx(n):
        if valid(n):
            p = Program(n); p.group = 'x'
            if p.text() not in skip and p.text() not in seen:
                seen.add(p.text()); extra.append(p)
    for kind in (('cs', 'cl', 'fd', 'bd', 'dy') if tier == 'quick' else kinds):
        for n in unary_variants([op_bounded_args], Leaf(kind, (2, 3))):
            addx(n)
        if tier != 'quick':
            for n in unary_variants([op_bounded_args], Leaf(kind, (3,))):
                addx(n)
    for k1, k2 in (('fdf', 'fdf'), ('fdf', 'cs'), ('fdh', 'fdf'), ('fdf', 'fdh'), ('fdf', 'dy'), ('cs', 'fdf')):
        for n in binary_variants([op_outer], Leaf(k1, (2, 3)), Leaf(k2, (2,))):
            addx(n)
    progs += extra
    for i, p in enumerate(progs):
        p.id = i
    return progs


SKIP_FILE = os.path.join(HERE, 'c11_uncompilable.txt')


def load_skip():
    """programs the UNCHANGED library cannot compile (unsupported kind combinations: a compile-time refusal, not a
    C11 question).  One program text per line; maintained with `python harness/gen_c11.py --refresh-skip <tier>`."""
    if not os.path.exists(SKIP_FILE):
        return set()
    return set(l.split(' :: ')[0].strip() for l in open(SKIP_FILE) if l.strip() and not l.startswith('#'))


PER_TU = {'quick': 24, 'thorough': 24}


def tu_name(tier, k):
    return 'g_c11_%s_%03d' % (tier, k)


def write_tus(progs, tier, outdir):
    """returns list of (harness name, source path, [program ids])"""
    os.makedirs(outdir, exist_ok=True)
    res = []
    for group in ('', 'x'):
        res += _write_group([p for p in progs if p.group == group], tier, outdir, group)
    return res


def _write_group(progs, tier, outdir, group):
    if not progs:
        return []
    per = PER_TU[tier]
    # heavier (deeper) programs are spread evenly: round-robin after sorting by depth
    order = sorted(progs, key=lambda p: (p.depth, p.id))
    ntu = (len(order) + per - 1) // per
    buckets = [[] for _ in range(ntu)]
    for i, p in enumerate(order):
        buckets[i % ntu].append(p)
    res = []
    for k, b in enumerate(buckets):
        src = ['// generated by harness/gen_c11.py — do not edit', '#include "c11_support.hpp"']
        hs = list(BASE_HEADERS)
        for p in b:
            for n in p.nodes:
                if HEADER_OF[n.name] not in hs:
                    hs.append(HEADER_OF[n.name])
        src += ['#include "nmtools/array/view/%s.hpp"' % h for h in hs]
        for p in b:
            src.append(p.cxx_function())
        src.append('std::string handle(const std::string& op, const proto::Args& a) {')
        src.append('    if (op != "prog") return "unknown-op";')
        src.append('    long long id = proto::integer(a, "id");')
        src.append('    c11::Shapes S = proto::int_lists(a, "shapes"); c11::Shapes R; if (proto::has(a, "rargs")) R = proto::int_lists(a, "rargs");')
        src.append('    c11::reset_events();')
        src.append('    switch (id) {')
        for p in b:
            src.append('        case %d: return prog_%d(S, R);' % (p.id, p.id))
        src.append('        default: return "unknown-prog";')
        src.append('    }')
        src.append('}')
        text = '\n'.join(src) + '\n'
        name = tu_name(tier, k) if not group else 'g_c11_%s_%s%03d' % (tier, group, k)
        path = os.path.join(outdir, name + '.cpp')
        if not (os.path.exists(path) and open(path).read() == text):
            with open(path, 'w') as f:
                f.write(text)
        res.append((name, path, [p.id for p in b]))
    return res


def instances(p, rng, many, cap):
    """admissible run-time instances of a program: list of (shapes, rargs, ndarray)."""
    per_leaf = [l.admitted(rng, many) for l in p.leaves]
    combos = list(itertools.product(*per_leaf))
    if len(combos) > 4 * cap:
        head = combos[:1]
        combos = head + rng.sample(combos[1:], 4 * cap - 1)
    out = []
    for shapes in combos:
        try:
            r, rargs = p.evaluate(shapes)
        except Exception:
            continue
        if r.ndim == 0 or r.size == 0 or r.size > 4000:
            continue
        out.append((shapes, rargs, r))
        if len(out) >= cap:
            break
    return out


def data_hash(r):
    h = 0
    for x in np.asarray(r).reshape(-1).tolist():
        h = (h * 31 + int(x)) % 1000000007
    return h


def refresh_skip(tier, jobs=4, repo='/repo'):
    """development tool: compile the TUs of a tier, map compiler errors back to programs, append them to
    c11_uncompilable.txt, repeat until every TU builds."""
    import re, subprocess, tempfile, shutil
    from concurrent.futures import ThreadPoolExecutor
    work = tempfile.mkdtemp(prefix='c11skip', dir='/var/tmp')
    try:
        while True:
            progs = build_programs(tier)
            tus = write_tus(progs, tier, work)

            def cc(t):
                name, path, ids = t
                p = subprocess.run(['g++', '-std=c++17', '-O1', '-DNDEBUG', '-DNMTOOLS_VERIF', '-w', '-I%s/include' % repo, '-I' + HERE,
                                    '-fsyntax-only', path], stdout=subprocess.PIPE, stderr=subprocess.STDOUT)
                return name, path, p.returncode, p.stdout.decode('utf-8', 'replace')
            with ThreadPoolExecutor(max_workers=jobs) as ex:
                res = list(ex.map(cc, tus))
            fails = {}
            for name, path, rc, log in res:
                if rc == 0:
                    continue
                src = open(path).read().splitlines()
                l2p = {}; cur = None
                for i, l in enumerate(src, 1):
                    if l.startswith('static std::string prog_'):
                        cur = src[i].strip()[3:]
                    l2p[i] = cur
                curp = None
                for l in log.splitlines():
                    m = re.search(r'%s\.cpp:(\d+):\d+:\s+required from here' % name, l) or re.search(r'%s\.cpp:(\d+):\d+: (fatal )?error' % name, l)
                    if m:
                        curp = l2p.get(int(m.group(1)))
                    if 'error' in l and curp is not None and curp not in fails:
                        fails[curp] = re.sub(r'\s+', ' ', l)[:160]
            print(tier, 'failing programs this round:', len(fails))
            if not fails:
                break
            with open(SKIP_FILE, 'a') as f:
                for t, e in fails.items():
                    f.write('%s :: %s\n' % (t, e))
    finally:
        shutil.rmtree(work, ignore_errors=True)


if __name__ == '__main__':
    import sys
    if len(sys.argv) > 2 and sys.argv[1] == '--refresh-skip':
        refresh_skip(sys.argv[2], int(sys.argv[3]) if len(sys.argv) > 3 else 4)
        sys.exit(0)
    tier = sys.argv[1] if len(sys.argv) > 1 else 'quick'
    ps = build_programs(tier)
    print(len(ps), 'programs; depth histogram', {d: sum(1 for p in ps if p.depth == d) for d in (1, 2, 3)})
    for p in ps[:: max(1, len(ps) // 40)]:
        print(p.id, p.text(), '|', p.rpn())
