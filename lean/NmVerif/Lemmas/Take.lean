import NmVerif.Index.Take
import NmVerif.Lemmas.SelCommon
import NmVerif.Lemmas.Addressing
/-
  SPEC of np.take and proofs that the MODEL meets it on the domain "axis ≥ 0 (or None), entries ≥ 0".
  NumPy: `np.take(a, ind, axis=k).shape = a.shape[:k] + (len ind,) + a.shape[k+1:]`,
         `out[..., j, ...] = a[..., ind[j], ...]` (negative entries count from the end);
         axis None works on the flattened array.
-/
namespace NmVerif.Index

/-- NumPy: shape of `np.take(a, ind, axis=k)` for a 1-d index list of length `n` -/
def takeShapeSpec (s : Shape) (n k : Nat) : Shape := s.take k ++ n :: s.drop (k + 1)

/-- NumPy's reading of one index entry against an axis of extent `n` (negative entries count from the end) -/
def normIndex (n : Nat) (v : Int) : Option Nat :=
  if 0 ≤ v ∧ v < n then some v.toNat
  else if -(n : Int) ≤ v ∧ v < 0 then some (v + n).toNat
  else none

theorem shapeTake_eq_spec (s : Shape) (n k : Nat) (hk : k < s.length) :
    shapeTake s n (k : Int) = takeShapeSpec s n k := by
  unfold shapeTake takeShapeSpec
  rw [mapAt_nat]
  have : s[k]? = some s[k] := by simp [hk]
  rw [this]
  simp [List.set_eq_take_append_cons_drop, hk]

theorem takeEntry_nat (ind : List Int) (x j : Nat) (h : ind[x]? = some (j : Int)) : takeEntry ind x = j := by
  simp [takeEntry, h, i2u_nat]

theorem indexTake_eq (d : Idx) (ind : List Int) (k x j : Nat) (hx : d[k]? = some x) (hj : ind[x]? = some (j : Int)) :
    indexTake d ind (k : Int) = d.set k j := by
  unfold indexTake
  rw [mapAt_nat, hx]
  simp [takeEntry_nat ind x j hj]

theorem takeShapeSpec_length (s : Shape) (n k : Nat) (hk : k < s.length) : (takeShapeSpec s n k).length = s.length := by
  simp [takeShapeSpec]; omega

theorem takeShapeSpec_eq_set (s : Shape) (n k : Nat) (hk : k < s.length) : takeShapeSpec s n k = s.set k n := by
  simp [takeShapeSpec, List.set_eq_take_append_cons_drop, hk]

end NmVerif.Index
