import NmVerif.Proto
import NmVerif.Simd.Loop
import NmVerif.Simd.Enum
import NmVerif.Simd.Eval
import NmVerif.Simd.IntLanes
import NmVerif.Simd.FloatLanes
/-
  Driver handler of C12: answers the harness protocol of harness/h_c12_*.cpp with the MODEL
  (Simd/Loop.lean, Simd/Enum.lean, Simd/Eval.lean) on integer data.  Requests reach the driver with the
  prefix `c12.` (`mreq` of lib/props/c12.py): `reduce`, `outer`, `matmul` are also op names of other properties.  The packed intrinsics are
  instantiated lane-wise (`xs.map f`, `List.zipWith f`): that is the assumption `LaneWise*` of Props/C12.lean.
-/
namespace NmVerif.Driver.C12
open NmVerif NmVerif.Proto NmVerif.Simd

/-- scalar functors the model can evaluate exactly on integer-valued data -/
def unaryF : String → Option (Int → Int)
  | "floor" => some id
  | "ceil" => some id
  | "relu" => some (fun x => max x 0)
  | "relu6" => some (fun x => min (max x 0) 6)
  | _ => none

def binaryF : String → Option (Int → Int → Int)
  | "add" => some (· + ·)
  | "subtract" => some (· - ·)
  | "multiply" => some (· * ·)
  | _ => none

/-- `view.op.identity()` when the op has one (`meta::has_identity_v`); subtract has none -/
def identityOf : String → Option Int
  | "add" => some 0
  | "multiply" => some 1
  | _ => none

def okVals (shape : String) (vals : List Int) : String :=
  s!"ok shape={shape} val={fmtInts vals}"

def fmtT (t : TIdx) : List Int := [t.tag, (t.off : Int)]

def arrOf (a : Args) (shapeK layoutK dataK : String) : Option (NDA Int) := do
  let shape ← a.nats shapeK
  let data ← a.ints dataK
  let col := (a.get? layoutK) == some "col"
  pure { shape := shape, colMajor := col, data := data }

/-! ### integer element types (`ibinary`, `iouter`, `ireduce`, `imatmul` of harness/h_c12i_*.cpp)

  The model functions are those of the float requests (`simdEvalBinarySame`, `simdEvalBinary2d`, `simdEvalOuter`,
  `simdEvalReduceAll`, `simdReduceAxisK`) at element type `BitVec w`: operands are stored as bit patterns
  (`IntTy.encode`), the packed instruction is `packInt o` (modular on every lane, sign-agnostic), the scalar functor of
  the tail / PAD steps is `IOp.lane` (= `scalarOp` wherever that is defined: `scalarOp_eq_lane`), results are read back
  as numbers of the element type (`IntTy.decode`). -/

def intTyOf : String → Option IntTy
  | "i8" => some ⟨8, true⟩ | "u8" => some ⟨8, false⟩
  | "i16" => some ⟨16, true⟩ | "u16" => some ⟨16, false⟩
  | "i32" => some ⟨32, true⟩ | "u32" => some ⟨32, false⟩
  | "i64" => some ⟨64, true⟩ | "u64" => some ⟨64, false⟩
  | _ => none

def iopOf : String → Option IOp
  | "add" => some .add
  | "subtract" => some .sub
  | "multiply" => some .mul
  | _ => none

def bvArrOf (t : IntTy) (a : Args) (shapeK dataK : String) : Option (NDA (BitVec t.bits)) := do
  let shape ← a.nats shapeK
  let data ← a.ints dataK
  pure { shape := shape, colMajor := false, data := data.map t.encode }

def okBV (t : IntTy) (shape : String) (vals : List (BitVec t.bits)) : String :=
  okVals shape (vals.map t.decode)

def handleInt (kind : String) (a : Args) : Option String :=
  match kind with
  | "c12.ibinary" => orBad do
      let t ← (a.get? "dtype").bind intTyOf
      let o ← (a.get? "op").bind iopOf
      let N ← a.nat "lanes"
      let l ← bvArrOf t a "lshape" "ldata"
      let r ← bvArrOf t a "rshape" "rdata"
      if l.shape == r.shape then
        match simdEvalBinarySame N (packInt o) o.lane l r (List.replicate (prod l.shape) 0) with
        | some out => pure (okBV t (fmtNats l.shape) out)
        | none => pure "ub"
      else
        match l.shape, r.shape with
        | [lr, lc], [rr, rc] =>
          let R := max lr rr
          let C := max lc rc
          match simdEvalBinary2d N (packInt o) o.lane l r lr lc rr rc C (List.replicate (R * C) 0) with
          | some out => pure (okBV t (fmtNats [R, C]) out)
          | none => pure "ub"
        | _, _ => pure "unsupported"
  | "c12.iouter" => orBad do
      let t ← (a.get? "dtype").bind intTyOf
      let o ← (a.get? "op").bind iopOf
      let N ← a.nat "lanes"
      let l ← bvArrOf t a "lshape" "ldata"
      let r ← bvArrOf t a "rshape" "rdata"
      let os := l.shape ++ r.shape
      match simdEvalOuter N (packInt o) o.lane l r (List.replicate (prod os) 0) with
      | some out => pure (okBV t (fmtNats os) out)
      | none => pure "ub"
  | "c12.ireduce" => orBad do
      let t ← (a.get? "dtype").bind intTyOf
      let o ← (a.get? "op").bind iopOf
      let N ← a.nat "lanes"
      let arr ← bvArrOf t a "shape" "data"
      let keep ← a.nat "keepdims"
      let axis ← a.optInt "axis"
      match axis with
      | none =>
        match simdEvalReduceAll N (packInt o) o.lane o.identity arr with
        | some v => pure (okBV t (if keep == 0 then "num" else fmtNats (arr.shape.map (fun _ => 1))) [v])
        | none => pure "ub"
      | some ax =>
        match simdReduceAxisK N (packInt o) o.lane o.identity arr ax (keep != 0) with
        | some (outShape, out) => pure (okBV t (fmtNats outShape) out)
        | none => pure "ub"
  | "c12.imatmul" => orBad do
      let t ← (a.get? "dtype").bind intTyOf
      let N ← a.nat "lanes"
      let l ← bvArrOf t a "lshape" "ldata"
      let r0 ← bvArrOf t a "rshape" "rdata"
      let r : NDA (BitVec t.bits) := { r0 with colMajor := true }     -- rhs buffer in column-major storage order
      match l.shape, r.shape with
      | [M, K], [_, Nn] =>
        -- `op.fmadd(l, r, acc)` on integer lanes = mullo then add (x86_sse.hpp:310-315, vector_extension.hpp:246-250)
        match simdEvalMatmul N (fun x y z => x * y + z) (· * ·) (· + ·) 0 l r M K Nn (List.replicate (M * Nn) 0) with
        | some out => pure (okBV t (fmtNats [M, Nn]) out)
        | none => pure "ub"
      | _, _ => none
  | _ => none

/-! ### floating-point lanes at their own precision (`funary`, the precision-sensitive value cases of `unary`)

  `Builtin Float32 Float` with the C library's ceilf / ceil, floorf / floor, sqrtf / sqrt (what `nmtools_builtin_*`
  expand to) and the hardware conversions; the request carries the operand as bit patterns (decimal), the answer prints
  bit patterns in hex exactly as harness/h_c12_common.hpp does.  `usef` = outcome of the `if constexpr` on the element
  type (`selectsF32`: 1 for f32, 0 for f64 in the unchanged tree). -/

def nativeBuiltin : String → Option (Builtin Float32 Float)
  | "ceil" => some ⟨Float32.ceil, Float.ceil, Float.toFloat32, Float32.toFloat⟩
  | "floor" => some ⟨Float32.floor, Float.floor, Float.toFloat32, Float32.toFloat⟩
  | "sqrt" => some ⟨Float32.sqrt, Float.sqrt, Float.toFloat32, Float32.toFloat⟩
  | _ => none

def hexPad (width n : Nat) : String :=
  let d := Nat.toDigits 16 n
  String.ofList (List.replicate (width - d.length) '0' ++ d)

def handleFloat (kind : String) (a : Args) : Option String :=
  match kind with
  | "c12.funary" => orBad do
      let b ← (a.get? "op").bind nativeBuiltin
      let lanes ← a.nat "lanes"
      let useF := (← a.nat "usef") != 0
      let bits ← a.nats "bits"
      let n := bits.length
      match a.get? "dtype" with
      | some "f64" =>
        let arr : NDA Float := { shape := [n], colMajor := false, data := bits.map (fun v => Float.ofBits v.toUInt64) }
        match simdEvalUnary lanes (vecExtUnaryD b useF) b.fnD arr (List.replicate n 0) with
        | some out => pure s!"ok shape={n} val={",".intercalate (out.map (fun v => hexPad 16 v.toBits.toNat))}"
        | none => pure "ub"
      | some "f32" =>
        let arr : NDA Float32 := { shape := [n], colMajor := false, data := bits.map (fun v => Float32.ofBits v.toUInt32) }
        match simdEvalUnary lanes (vecExtUnaryF b useF) b.fnF arr (List.replicate n 0) with
        | some out => pure s!"ok shape={n} val={",".intercalate (out.map (fun v => hexPad 8 v.toBits.toNat))}"
        | none => pure "ub"
      | _ => none
  | _ => none

def handle : Handler := fun kind a =>
  match handleFloat kind a with
  | some r => some r
  | none =>
  match handleInt kind a with
  | some r => some r
  | none =>
  match kind with
  | "c12.unary" => orBad do
      let f ← (a.get? "op").bind unaryF
      let lanes ← a.nat "lanes"
      let arr ← arrOf a "shape" "layout" "data"
      match simdEvalUnary lanes (·.map f) f arr (List.replicate (prod arr.shape) 0) with
      | some out => pure (okVals (fmtNats arr.shape) out)
      | none => pure "ub"
  | "c12.binary" => orBad do
      let f ← (a.get? "op").bind binaryF
      let N ← a.nat "lanes"
      let l ← arrOf a "lshape" "llayout" "ldata"
      let r ← arrOf a "rshape" "rlayout" "rdata"
      if l.shape == r.shape then
        match simdEvalBinarySame N (List.zipWith f) f l r (List.replicate (prod l.shape) 0) with
        | some out => pure (okVals (fmtNats l.shape) out)
        | none => pure "ub"
      else
        match l.shape, r.shape with
        | [lr, lc], [rr, rc] =>
          let R := max lr rr
          let C := max lc rc
          match simdEvalBinary2d N (List.zipWith f) f l r lr lc rr rc C (List.replicate (R * C) 0) with
          | some out => pure (okVals (fmtNats [R, C]) out)
          | none => pure "ub"
        | _, _ => pure "unsupported"
  | "c12.outer" => orBad do
      let f ← (a.get? "op").bind binaryF
      let N ← a.nat "lanes"
      let l ← arrOf a "lshape" "llayout" "ldata"
      let r ← arrOf a "rshape" "rlayout" "rdata"
      let os := l.shape ++ r.shape
      match simdEvalOuter N (List.zipWith f) f l r (List.replicate (prod os) 0) with
      | some out => pure (okVals (fmtNats os) out)
      | none => pure "ub"
  | "c12.reduce" => orBad do
      let opn ← a.get? "op"
      let f ← binaryF opn
      let N ← a.nat "lanes"
      let arr ← arrOf a "shape" "layout" "data"
      let keep ← a.nat "keepdims"
      let axis ← a.optInt "axis"
      match axis with
      | none =>
        match simdEvalReduceAll N (List.zipWith f) f (identityOf opn) arr with
        | some v => pure (okVals (if keep == 0 then "num" else fmtNats (arr.shape.map (fun _ => 1))) [v])
        | none => pure "ub"
      | some ax =>
        match simdReduceAxisK N (List.zipWith f) f (identityOf opn) arr ax (keep != 0) with
        | some (outShape, out) => pure (okVals (fmtNats outShape) out)
        | none => pure "ub"
  | "c12.matmul" => orBad do
      let N ← a.nat "lanes"
      let ls ← a.nats "lshape"
      let rs ← a.nats "rshape"
      let ld ← a.ints "ldata"
      let rd ← a.ints "rdata"
      -- default layouts: the pair `eval_matmul` itself accepts (row-major lhs, column-major rhs)
      let l : NDA Int := { shape := ls, colMajor := (a.get? "llayout") == some "col", data := ld }
      let r : NDA Int := { shape := rs, colMajor := (a.get? "rlayout") != some "row", data := rd }
      match ls, rs with
      | [M, K], [_, Nn] =>
        -- `fallback=1`: the layout test of operator() on the lhs is effective (tree after
        -- fixes/C12-matmul-lhs-layout-fallback.diff); absent / 0: the tree as it is (`matmulLhsFallbackEffective`)
        let fb := (a.get? "fallback") == some "1" || matmulLhsFallbackEffective
        if !(fb && l.colMajor) && !r.colMajor then pure "unsupported"      -- static_assert in eval_matmul: not a program
        else
        match simdEvalMatmulWith fb N (fun x y z => x * y + z) (· * ·) (· + ·) 0 l r M K Nn (List.replicate (M * Nn) 0) with
        | some out => pure (okVals (fmtNats [M, Nn]) out)
        | none => pure "ub"
      | _, _ => none
  -- pure enumerators, tuple by tuple
  | "c12.enum_binary2d" => orBad do
      let N ← a.nat "lanes"
      let out ← a.nats "out"
      let l ← a.nats "lhs"
      let r ← a.nats "rhs"
      match out, l, r with
      | [_, oc], [lr, lc], [rr, rc] =>
        let n := binary2dSize N oc lr rr
        let rows := (List.range n).map (fun i =>
          let (o, x, y) := binary2dAt N oc lr lc rr rc i
          fmtT o ++ fmtT x ++ fmtT y)
        pure s!"ok n={n} t={fmtIntLists rows}"
      | _, _, _ => none
  | "c12.enum_reduce" => orBad do
      let N ← a.nat "lanes"
      let out ← a.nats "out"
      let inp ← a.nats "inp"
      let axis ← a.nat "axis"
      let kind := if (a.get? "kind") == some "h" then RKind.horizontal else RKind.vertical
      let n := reductionSize kind N inp axis
      let rows ← (List.range n).mapM (fun i => do
          let (o, x) ← reductionAt kind N out inp axis i
          pure (fmtT o ++ fmtT x))
      pure s!"ok n={n} t={fmtIntLists rows}"
  | "c12.enum_outer" => orBad do
      let N ← a.nat "lanes"
      let l ← a.nats "lhs"
      let r ← a.nats "rhs"
      let os := l ++ r
      let n := outerSize N os l r
      let rows := (List.range n).map (fun i =>
          let (o, x, y) := outerAt N os l r i
          fmtT o ++ fmtT x ++ fmtT y)
      pure s!"ok n={n} t={fmtIntLists rows}"
  | "c12.enum_matmul" => orBad do
      let N ← a.nat "lanes"
      let l ← a.nats "lhs"
      let r ← a.nats "rhs"
      match l, r with
      | [M, K], [_, Nn] =>
        let inner := matmulInnerSize N K
        let rows := (List.range (M * Nn)).flatMap (fun o => (List.range inner).map (fun s =>
          let (x, y, z) := matmulInner N o s Nn K
          fmtT x ++ fmtT y ++ fmtT z))
        pure s!"ok n={M * Nn} inner={inner} t={fmtIntLists rows}"
      | _, _ => none
  | _ => none

end NmVerif.Driver.C12
