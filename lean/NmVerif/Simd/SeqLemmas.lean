import NmVerif.Simd.Loop
import NmVerif.Simd.LoopLemmas
/-
  "Sequential block writer" lemmas: an evaluator whose steps write the blocks
  [pos g, pos g + len g) one after the other, each starting where the previous one ended
  (`Contig`), writes every cell of [s, e) exactly once and in order; if every block receives the
  corresponding block of `new`, the buffer ends as `new` on [s, e) and untouched elsewhere.
  Used for eval_binary BROADCASTED_2D, eval_outer and the row pass of the vertical reduction.
-/
namespace NmVerif.Simd
open NmVerif

variable {β γ : Type}

/-- the blocks of `steps` tile `[s, e)` contiguously, in order -/
inductive Contig (pos len : γ → Nat) : Nat → List γ → Nat → Prop
  | nil (s : Nat) : Contig pos len s [] s
  | cons {s e : Nat} {g : γ} {t : List γ} : pos g = s → Contig pos len (s + len g) t e → Contig pos len s (g :: t) e

namespace Contig
variable {pos len : γ → Nat}

theorem le {s e : Nat} {l : List γ} (h : Contig pos len s l e) : s ≤ e := by
  induction h with
  | nil => exact Nat.le_refl _
  | cons _ _ ih => omega

theorem append {s m e : Nat} {l₁ l₂ : List γ} (h₁ : Contig pos len s l₁ m) (h₂ : Contig pos len m l₂ e) :
    Contig pos len s (l₁ ++ l₂) e := by
  induction h₁ with
  | nil => simpa using h₂
  | cons hp _ ih => exact Contig.cons hp (ih h₂)

theorem map {δ : Type} (f : δ → γ) {s e : Nat} {l : List δ}
    (h : Contig (fun d => pos (f d)) (fun d => len (f d)) s l e) : Contig pos len s (l.map f) e := by
  induction h with
  | nil => exact Contig.nil _
  | cons hp _ ih => exact Contig.cons hp ih

theorem congr {pos' len' : γ → Nat} {s e : Nat} {l : List γ} (h : Contig pos len s l e)
    (hp : ∀ g ∈ l, pos' g = pos g) (hl : ∀ g ∈ l, len' g = len g) : Contig pos' len' s l e := by
  induction h with
  | nil => exact Contig.nil _
  | @cons s e g t hpg _ ih =>
    refine Contig.cons (by rw [hp g (by simp)]; exact hpg) ?_
    rw [hl g (by simp)]
    exact ih (fun x hx => hp x (by simp [hx])) (fun x hx => hl x (by simp [hx]))

/-- every cell of `[s, e)` is written exactly once, in increasing order -/
theorem blocks {s e : Nat} {l : List γ} (h : Contig pos len s l e) :
    l.flatMap (fun g => List.range' (pos g) (len g)) = List.range' s (e - s) := by
  induction h with
  | nil => simp
  | @cons s e g t hp ht ih =>
    have hle := ht.le
    rw [List.flatMap_cons, ih, hp]
    have : e - s = len g + (e - (s + len g)) := by omega
    rw [this, ← List.range'_append (step := 1)]
    simp

end Contig

/-- arithmetic progression of equal-width blocks over `range' a m` -/
theorem Contig.arith {pos len : Nat → Nat} (w a : Nat) : ∀ (m s : Nat),
    (∀ k, a ≤ k → k < a + m → pos k = s + (k - a) * w ∧ len k = w) →
    Contig pos len s (List.range' a m) (s + m * w) := by
  intro m
  induction m generalizing a with
  | zero => intro s _; simpa using Contig.nil s
  | succ m ih =>
    intro s h
    rw [List.range'_succ]
    have h0 := h a (Nat.le_refl _) (by omega)
    refine Contig.cons (by rw [h0.1]; simp) ?_
    rw [h0.2]
    have := ih (a + 1) (s + w) (fun k hk1 hk2 => by
      have hk := h k (by omega) (by omega)
      refine ⟨?_, hk.2⟩
      rw [hk.1]
      have : k - a = (k - (a + 1)) + 1 := by omega
      rw [this, Nat.succ_mul]; omega)
    have e : s + w + m * w = s + (m + 1) * w := by rw [Nat.succ_mul]; omega
    rw [e] at this
    exact this

/-- sequential block writer: see the header -/
theorem seq_blocks (new old : List β) (pos len : γ → Nat) (body : List β → γ → Option (List β))
    (hlen : new.length = old.length) :
    ∀ (steps : List γ) (s e : Nat), Contig pos len s steps e → e ≤ old.length →
      (∀ g ∈ steps, pos g + len g ≤ old.length →
          body (new.take (pos g) ++ old.drop (pos g)) g
            = storeu (new.take (pos g) ++ old.drop (pos g)) (pos g) ((new.drop (pos g)).take (len g))) →
      steps.foldlM body (new.take s ++ old.drop s) = some (new.take e ++ old.drop e) := by
  intro steps s e hc
  induction hc with
  | nil => intro _ _; simp
  | @cons s e g t hp ht ih =>
    intro he hb
    have hle := ht.le
    subst hp
    rw [List.foldlM_cons, hb g (by simp) (by omega)]
    have hl : ((new.drop (pos g)).take (len g)).length = len g := by
      rw [List.length_take, List.length_drop]; omega
    rw [storeu_prefix _ _ _ (pos g) (by rw [List.length_take]; omega) (by rw [hl, List.length_drop]; omega)]
    simp only [Option.bind_eq_bind, Option.bind_some, hl, List.drop_drop]
    rw [← List.take_add]
    exact ih he (fun x hx => hb x (by simp [hx]))

end NmVerif.Simd
