// C12 harness, x86 SSE context (128 bit); build with -msse4.1
#include "nmtools/array/eval/simd/x86_sse.hpp"
#define C12_CTX  nmtools::array::simd::x86_SSE
#define C12_BITS 128
#include "h_c12_common.hpp"
