import NmVerif.Basic
import NmVerif.Index.MatmulBroadcast
/-
  MODEL of the index functions in include/nmtools/array/view/matmul.hpp (the header holds both the index and the view part):

    index::shape_matmul            :29-95     shapeMatmul
    index::matmul                  :116-225   matmulSlices  (slicing arguments of the row / column taken by `matmul_t::view_at`)
    index::matmul_rhs_transpose    :556-590   matmulRhsTranspose
    index::matmul_lhs_tile         :595-630   matmulLhsTile
    index::matmul_lhs_reshape      :635-682   matmulLhsReshape
    index::matmul_rhs_reshape      :687-735   matmulRhsReshape

  Index containers are `List Nat`.  `at(x, -k)` on a container shorter than `k` is an out-of-range access in the C++
  (`std::vector::at` throws, other containers are undefined); the model makes that explicit as `none`
  wherever the public entry points can reach it with operands of rank >= 1 (the rank-0 / mismatch cases belong to C15).
  Core Lean only.
-/
namespace NmVerif
open NmVerif.MB

/-- `at(l, -k) = v` for `1 ≤ k ≤ len` -/
def setNeg (l : List Nat) (k v : Nat) : List Nat := l.set (l.length - k) v
/-- `at(l, -k)`; `none` when the container is shorter than `k` (or `k = 0`) -/
def getNeg? (l : List Nat) (k : Nat) : Option Nat := if 1 ≤ k ∧ k ≤ l.length then l[l.length - k]? else none

/-- `index::shape_matmul(ashape, bshape)` (run-time branch, :38-93).
    `shape_1 = at(ashape,-1)`, `shape_2 = bdim == 1 ? at(bshape,0) : at(bshape,-2)`; batch parts by `split(…, -1 or -2)`;
    `Nothing` unless the contracted extents agree and the batch parts broadcast.  The three result loops:
    `adim>=2 && bdim==1` copies `ashape[0..adim-1)`; `bdim>=2 && adim==1` copies `bshape` skipping index `bdim-2`;
    otherwise the broadcast batch shape followed by `ashape[-2]`, `bshape[-1]` (nothing at all when both are 1-d). -/
def shapeMatmul (a b : Shape) : Option Shape :=
  let adim := a.length
  let bdim := b.length
  match getNeg? a 1, (if bdim = 1 then b[0]? else getNeg? b 2) with
  | some s1, some s2 =>
    let bcA := a.take (if adim = 1 then adim - 1 else adim - 2)
    let bcB := b.take (if bdim = 1 then bdim - 1 else bdim - 2)
    match broadcastShape bcA bcB with
    | none => none
    | some bs =>
      if s1 ≠ s2 then none
      else if 2 ≤ adim ∧ bdim = 1 then some (a.take (adim - 1))
      else if 2 ≤ bdim ∧ adim = 1 then some (b.eraseIdx (bdim - 2))
      else if adim = 1 ∧ bdim = 1 then some []
      else match getNeg? a 2, getNeg? b 1 with
        | some m, some n => some (bs ++ [m, n])
        | _, _ => none
  | _, _ => none

/-- the non-matrix entries of one operand's slice list: `fill_non_matmul_indices`:
    for `i < dim-2` (only when `dim > 2`): `si == 1 ? 0 : indices[i + (batch_dim - dim)]`, where
    `batch_dim = len(shape) + (lhs is 1-d) + (rhs is 1-d)` — the batch axes of an operand are right-aligned with the batch
    axes of the result, which has one non-batch axis less for each 1-d operand -/
def matmulBatchIdx (d : Idx) (src : Shape) (batchDim : Nat) : Option Idx :=
  (List.range (src.length - 2)).mapM (fun i =>
    match src[i]? with
    | none => none
    | some si => if si = 1 then some 0 else d[i + (batchDim - src.length)]?)

/-- `index::matmul(indices, lshape, rshape, shape)` (since fix C16-matmul-1d-operand: NumPy's promotion of 1-d operands):
    the slice lists `(l, r)`; here as `(batch index of lhs, row?, batch index of rhs, col?)` — the lhs slice is
    `[lb…, row, :]` (`[:]` for a 1-d lhs: no row), the rhs slice `[rb…, :, col]` (`[:]` for a 1-d rhs: no column).
    The row coordinate is the last but one of the result index, or the last when the result has no column coordinate
    (1-d rhs); the column coordinate, if any, is the last.  Reads past the result index are `none`. -/
def matmulSlices (d : Idx) (ls rs dst : Shape) : Option (Idx × Option Nat × Idx × Option Nat) :=
  let lVec := ls.length = 1
  let rVec := rs.length = 1
  let batchDim := dst.length + (if lVec then 1 else 0) + (if rVec then 1 else 0)
  if 1 ≤ ls.length ∧ 1 ≤ rs.length ∧ d.length = dst.length then
    let row : Option (Option Nat) := if lVec then some none else (getNeg? d (if rVec then 1 else 2)).map some
    let col : Option (Option Nat) := if rVec then some none else (getNeg? d 1).map some
    match row, col, matmulBatchIdx d ls batchDim, matmulBatchIdx d rs batchDim with
    | some row, some col, some lb, some rb => some (lb, row, rb, col)
    | _, _, _, _ => none
  else none

/-- swap the last two entries (`tmp = at(r,-1); at(r,-1) = at(r,-2); at(r,-2) = tmp`) -/
def swapLast2 (l : List Nat) : List Nat :=
  match getNeg? l 1, getNeg? l 2 with
  | some x, some y => setNeg (setNeg l 1 y) 2 x
  | _, _ => l

/-- `index::matmul_rhs_transpose(rhs_dim)`: `0..rhs_dim-1` with the last two swapped when `rhs_dim >= 2` -/
def matmulRhsTranspose (rdim : Nat) : List Nat :=
  if 2 ≤ rdim then swapLast2 (List.range rdim) else List.range rdim

/-- `index::matmul_lhs_tile(lhs_shape, rhs_shape)`: all ones, last entry `rhs_shape[-1]` when both ranks ≥ 2 -/
def matmulLhsTile (ls rs : Shape) : List Nat :=
  let r := List.replicate ls.length 1
  if 2 ≤ ls.length ∧ 2 ≤ rs.length then
    match getNeg? rs 1 with
    | some n => setNeg r 1 n
    | none => r
  else r

/-- `index::matmul_lhs_reshape(lhs_shape, rhs_shape)`: `lhs_shape`, and when both ranks ≥ 2 one more entry
    `rhs_shape[-1]` appended and then swapped with the entry before it -/
def matmulLhsReshape (ls rs : Shape) : List Nat :=
  if 2 ≤ ls.length ∧ 2 ≤ rs.length then
    match getNeg? rs 1 with
    | some n => swapLast2 (setNeg (ls ++ [1]) 1 n)
    | none => ls ++ [1]
  else ls

/-- `index::matmul_rhs_reshape(lhs_shape, rhs_shape)` (called with the shapes of the *transformed* operands):
    `rhs_shape` with a `1` inserted before its last two entries when both ranks ≥ 2 -/
def matmulRhsReshape (ls rs : Shape) : List Nat :=
  if 2 ≤ ls.length ∧ 2 ≤ rs.length then
    rs.take (rs.length - 2) ++ [1] ++ rs.drop (rs.length - 2)
  else rs

end NmVerif
