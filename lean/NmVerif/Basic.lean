/-
  NmVerif.Basic — L0 of the model: shapes, strides, offsets, multi-indices.

  Mirrors (loop for loop, with `List Nat` for every index container kind):
    include/nmtools/array/index/product.hpp          product
    include/nmtools/array/index/compute_strides.hpp  stride / compute_strides
    include/nmtools/array/index/compute_offset.hpp   compute_offset
    include/nmtools/array/index/compute_indices.hpp  compute_indices
    include/nmtools/array/index/ndindex.hpp          ndindex_t::operator[]
    include/nmtools/array/ndarray/base_ndarray.hpp   row_major_offset_t / column_major_offset_t

  Core Lean only (no Mathlib): this file is linked into the `driver` executable.
-/
namespace NmVerif

abbrev Shape := List Nat
abbrev Idx := List Nat

/-- `index::product` -/
def prod : List Nat → Nat
  | [] => 1
  | x :: xs => x * prod xs

/-- `index::compute_strides`: entry k is `∏_{j>k} shape[j]` (the loop of `index::stride`). -/
def strides : Shape → List Nat
  | [] => []
  | _ :: xs => prod xs :: strides xs

/-- `index::compute_offset(indices, strides)`: `Σ strides[i]*indices[i]`. -/
def computeOffset : Idx → List Nat → Nat
  | i :: is, s :: ss => s * i + computeOffset is ss
  | _, _ => 0

/-- `index::compute_indices(offset, shape, strides)`: `(offset / strides[i]) % shape[i]`. -/
def computeIndices (off : Nat) : Shape → List Nat → Idx
  | sh :: shs, st :: sts => (off / st % sh) :: computeIndices off shs sts
  | _, _ => []

/-- `ndindex_t::operator[](i)` -/
def ndindex (s : Shape) (i : Nat) : Idx := computeIndices i s (strides s)

/-- `column_major_offset_t`: `shape_ = reverse(shape)`, `strides_ = reverse(compute_strides(shape_))`. -/
def colStrides (s : Shape) : List Nat := (strides s.reverse).reverse

/-- multi-index lies inside the shape: same length, pointwise `<`. -/
def InShape : Idx → Shape → Prop
  | [], [] => True
  | i :: is, s :: ss => i < s ∧ InShape is ss
  | _, _ => False

instance decInShape : (i : Idx) → (s : Shape) → Decidable (InShape i s)
  | [], [] => isTrue trivial
  | i :: is, s :: ss =>
      match Nat.decLt i s, decInShape is ss with
      | isTrue h1, isTrue h2 => isTrue ⟨h1, h2⟩
      | isFalse h1, _ => isFalse (fun h => h1 h.1)
      | _, isFalse h2 => isFalse (fun h => h2 h.2)
  | [], _ :: _ => isFalse (fun h => h)
  | _ :: _, [] => isFalse (fun h => h)

/-- all extents positive (the guard of C01 and most index properties). -/
def Pos (s : List Nat) : Prop := ∀ x ∈ s, 0 < x

instance (s : List Nat) : Decidable (Pos s) := by unfold Pos; exact inferInstance

/-- all multi-indices of a shape in row-major (C, lexicographic) order: the SPEC enumeration. -/
def allIdx : Shape → List Idx
  | [] => [[]]
  | a :: t => (List.range a).flatMap (fun i => (allIdx t).map (i :: ·))

/-! ### basic lemmas -/

theorem Pos.tail {a : Nat} {t : List Nat} (h : Pos (a :: t)) : Pos t :=
  fun x hx => h x (by simp [hx])

theorem Pos.head {a : Nat} {t : List Nat} (h : Pos (a :: t)) : 0 < a := h a (by simp)

theorem prod_pos {s : List Nat} (h : Pos s) : 0 < prod s := by
  induction s with
  | nil => simp [prod]
  | cons a t ih =>
    simp only [prod]
    exact Nat.mul_pos h.head (ih h.tail)

theorem prod_append (a b : List Nat) : prod (a ++ b) = prod a * prod b := by
  induction a with
  | nil => simp [prod]
  | cons x xs ih => simp [prod, ih, Nat.mul_assoc]

theorem prod_reverse (s : List Nat) : prod s.reverse = prod s := by
  induction s with
  | nil => rfl
  | cons a t ih => simp [prod, prod_append, ih, Nat.mul_comm]

theorem strides_length (s : Shape) : (strides s).length = s.length := by
  induction s with
  | nil => rfl
  | cons a t ih => simp [strides, ih]

theorem InShape.length_eq {i : Idx} {s : Shape} (h : InShape i s) : i.length = s.length := by
  induction s generalizing i with
  | nil => cases i <;> simp_all [InShape]
  | cons a t ih =>
    cases i with
    | nil => simp [InShape] at h
    | cons x xs => simp only [InShape] at h; simp [ih h.2]

theorem pos_of_inShape {i : Idx} {s : Shape} (h : InShape i s) : Pos s := by
  induction s generalizing i with
  | nil => intro x hx; simp at hx
  | cons a t ih =>
    cases i with
    | nil => simp [InShape] at h
    | cons x xs =>
      simp only [InShape] at h
      intro y hy
      simp at hy
      rcases hy with rfl | hy
      · omega
      · exact ih h.2 y hy

end NmVerif
