import NmVerif.Static
/-
  NmVerif.StaticEval — C11: which result container `array::eval` chooses from the compile-time knowledge of the view type
  (core Lean only: linked into the driver).

  Mirrors `resolve_optype<eval_type_resolver_t<default_type_resolver_t<Layout>>, view_t, none_t>` (array/eval.hpp:706-879):
  five candidate shape buffers and three candidate data buffers are derived from the five traits and from the type of
  `nmtools::shape(view)`, and the first available pair in a fixed priority list is taken.

    shape buffer   c  tuple of constants            <- fixed_shape_v
                   l  the clipped shape type itself <- is_clipped_index_array_v<decltype(shape(view))>
                   f  array<size_t, dim>            <- fixed_dim_v
                   b  static_vector<size_t, b_dim>  <- bounded_dim_v
                   d  vector<size_t>
    data buffer    f  array<T, size>                <- fixed_size_v
                   b  static_vector<T, N>           <- N = product of the clipped maxima when the shape is clipped, else bounded_size_v
                   d  vector<T>
    priority       (c,f) (c,b) (l,f) (l,b) (f,f) (f,b) (b,f) (b,b) (d,f) (d,b) (c,d) (l,d) (f,d) (b,d) (d,d)

  `resolveEval` walks the same list.  A fixed buffer (array<T,n>) holds exactly n elements and a bounded one at most n
  (utl::static_vector ignores a larger resize request): `BufK.fits`.
-/
namespace NmVerif.Static
open NmVerif

inductive BufK where
  | fixed (n : Nat)     -- array<T,n>: holds exactly n elements
  | bounded (n : Nat)   -- static_vector<T,n>: at most n; a larger resize request is silently ignored
  | dyn
  deriving DecidableEq, Repr

structure ResK where
  shape : ShapeK
  buf : BufK
  deriving DecidableEq, Repr

/-- the data buffer holds a result of `m` elements -/
def BufK.fits : BufK → Nat → Prop
  | .fixed n, m => m = n
  | .bounded n, m => m ≤ n
  | .dyn, _ => True

instance (b : BufK) (m : Nat) : Decidable (b.fits m) := by
  cases b <;> simp only [BufK.fits] <;> exact inferInstance

/-- capacity of the data buffer (`none` = unbounded) -/
def BufK.capacity : BufK → Option Nat
  | .fixed n => some n
  | .bounded n => some n
  | .dyn => none

/-- the result container can be given the run-time shape `s` and holds all its elements -/
def ResK.admits (r : ResK) (s : Shape) : Prop := r.shape.γ s ∧ r.buf.fits (prod s)

instance (r : ResK) (s : Shape) : Decidable (r.admits s) := by unfold ResK.admits; exact inferInstance

/-! ### candidates -/

inductive ShapeC where | c | l | f | b | d deriving DecidableEq, Repr
inductive BufC where | f | b | d deriving DecidableEq, Repr

def shapeCand (i : SInfo) : ShapeC → Option ShapeK
  | .c => i.fixedShape.map .const
  | .l => match i.shape with | .clipped b => some (.clipped b) | _ => none
  | .f => i.fixedDim.map .fixedDim
  | .b => i.boundedDim.map .boundedDim
  | .d => some .dyn

def bufCand (i : SInfo) : BufC → Option BufK
  | .f => i.fixedSize.map .fixed
  | .b => match i.shape with
    | .clipped b => some (.bounded (prod b))
    | _ => i.boundedSize.map .bounded
  | .d => some .dyn

/-- the `if constexpr` chain of eval.hpp:806-876 -/
def evalPriority : List (ShapeC × BufC) :=
  [(.c, .f), (.c, .b), (.l, .f), (.l, .b), (.f, .f), (.f, .b), (.b, .f), (.b, .b), (.d, .f), (.d, .b),
   (.c, .d), (.l, .d), (.f, .d), (.b, .d), (.d, .d)]

def firstAvailable (i : SInfo) : List (ShapeC × BufC) → Option ResK
  | [] => none
  | (sc, bc) :: rest =>
    match shapeCand i sc, bufCand i bc with
    | some s, some b => some ⟨s, b⟩
    | _, _ => firstAvailable i rest

/-- the container the default resolver chooses for a view type with knowledge `i` -/
def resolveEval (i : SInfo) : Option ResK := firstAvailable i evalPriority

/-- compile-time knowledge of the RESULT type (`ndarray_t<buffer, shape buffer>`, ndarray.hpp:238-388) -/
def ResK.info (r : ResK) : SInfo :=
  ⟨r.shape, match r.shape, r.buf with
    | .const l, _ => .known (prod l)
    | _, .fixed n => .known n
    | _, .bounded n => .atMost n
    | _, .dyn => .any⟩

end NmVerif.Static
