// A host-only stand-in for the SYCL runtime (namespace ::sycl), just large enough for
// include/nmtools/array/eval/sycl/context.hpp + evaluator.hpp to compile and RUN unchanged with g++:
//   buffer<T>            shared host storage (copy-in from a const host pointer; `fill` for uninitialised buffers)
//   accessor / host_accessor   pointers into that storage
//   queue::submit        runs the command group at once;  handler::parallel_for runs the kernel lambda once per work item
//                        of the nd_range — in the order (with the duplications / omissions) given by mock::order, else ascending
// Everything the nmtools SYCL context does on the host (function extraction, operand upload, launch geometry, the kernel
// lambda, copy back) is the real code; only the runtime underneath is this file.  No device, no concurrency.
#pragma once
#include <vector>
#include <memory>
#include <string>
#include <cstddef>
#include <algorithm>

namespace sycl
{
    namespace mock
    {
        inline std::vector<size_t> order;      // global ids to execute, in this order
        inline bool use_order = false;
        inline long long fill = 0;             // content of buffers created without host data (the output buffer)
        inline size_t launches = 0, last_global = 0, last_local = 0;
    }

    template <int D=1> struct id
    {
        size_t v[D] = {};
        id() {}
        id(size_t x) { v[0] = x; }
        operator size_t() const { return v[0]; }
        size_t operator[](int i) const { return v[i]; }
    };
    template <int D=1> struct range
    {
        size_t v[D] = {};
        range() {}
        range(size_t x) { v[0] = x; }
        size_t operator[](int i) const { return v[i]; }
        size_t size() const { size_t n = 1; for (int i = 0; i < D; i++) n *= v[i]; return n; }
    };
    template <int D=1> struct nd_range
    {
        range<D> global, local;
        nd_range(range<D> global, range<D> local) : global(global), local(local) {}
        range<D> get_global_range() const { return global; }
        range<D> get_local_range() const { return local; }
    };
    template <int D=1> struct nd_item
    {
        size_t gid, lsz;
        id<D> get_global_id() const { return id<D>(gid); }
        size_t get_global_id(int) const { return gid; }
        size_t get_global_linear_id() const { return gid; }
        id<D> get_local_id() const { return id<D>(gid % lsz); }
        size_t get_local_id(int) const { return gid % lsz; }
        size_t get_group(int) const { return gid / lsz; }
        size_t get_local_range(int) const { return lsz; }
    };

    struct read_only_t {}; struct write_only_t {}; struct read_write_t {};
    inline constexpr read_only_t read_only{}; inline constexpr write_only_t write_only{}; inline constexpr read_write_t read_write{};

    struct handler;

    template <typename T, int D=1> struct buffer
    {
        using value_type = T;
        std::shared_ptr<std::vector<T>> storage;
        buffer(const T* host, range<1> n) : storage(std::make_shared<std::vector<T>>(host, host + n[0])) {}
        explicit buffer(range<1> n) : storage(std::make_shared<std::vector<T>>(n[0], (T)mock::fill)) {}
        template <typename iterator_t> buffer(iterator_t first, iterator_t last) : storage(std::make_shared<std::vector<T>>(first, last)) {}
        size_t size() const { return storage->size(); }
    };

    template <typename T> struct multi_ptr { T* p; T* get() const { return p; } };

    template <typename T, int D=1, int Mode=0> struct accessor
    {
        std::shared_ptr<std::vector<T>> storage;
        accessor() {}
        template <typename tag_t> accessor(buffer<T,D>& b, handler&, tag_t) : storage(b.storage) {}
        T& operator[](size_t i) const { return (*storage)[i]; }
        multi_ptr<T> get_pointer() const { return {storage->data()}; }
        size_t size() const { return storage->size(); }
    };
    template <typename T, int D> accessor(buffer<T,D>&, handler&, read_only_t)  -> accessor<T,D,0>;
    template <typename T, int D> accessor(buffer<T,D>&, handler&, write_only_t) -> accessor<T,D,1>;
    template <typename T, int D> accessor(buffer<T,D>&, handler&, read_write_t) -> accessor<T,D,2>;

    template <typename T, int D=1> struct host_accessor
    {
        std::shared_ptr<std::vector<T>> storage;
        host_accessor(buffer<T,D>& b) : storage(b.storage) {}
        T& operator[](size_t i) const { return (*storage)[i]; }
        size_t size() const { return storage->size(); }
    };
    template <typename T, int D> host_accessor(buffer<T,D>&) -> host_accessor<T,D>;

    struct handler
    {
        template <typename kernel_t>
        void parallel_for(nd_range<1> r, const kernel_t& kernel)
        {
            mock::launches++; mock::last_global = r.global[0]; mock::last_local = r.local[0];
            if (mock::use_order) {
                for (auto g : mock::order) kernel(nd_item<1>{g, r.local[0]});
            } else {
                for (size_t g = 0; g < r.global[0]; g++) kernel(nd_item<1>{g, r.local[0]});
            }
        }
    };

    struct event { void wait() {} };

    namespace info
    {
        enum class device_type { cpu, gpu, accelerator, custom, automatic, host, all };
        enum class local_mem_type { none, local, global };
        enum class global_mem_cache_type { none, read_only, read_write };
        enum class fp_config { denorm, inf_nan, round_to_nearest, round_to_zero, round_to_inf, fma, correctly_rounded_divide_sqrt, soft_float };
        enum class execution_capability { exec_kernel, exec_native_kernel };
        enum class partition_property { no_partition, partition_equally, partition_by_counts, partition_by_affinity_domain };
        enum class partition_affinity_domain { not_applicable, numa, L4_cache, L3_cache, L2_cache, L1_cache, next_partitionable };
        namespace platform
        {
            #define C13_SYCL_STR(name) struct name { using return_type = std::string; };
            C13_SYCL_STR(name) C13_SYCL_STR(vendor) C13_SYCL_STR(version) C13_SYCL_STR(profile) C13_SYCL_STR(extensions)
        }
        namespace device
        {
            // every descriptor answers a number here (the context only prints them)
            #define C13_SYCL_NUM(name) struct name { using return_type = int; };
            C13_SYCL_STR(name) C13_SYCL_STR(vendor) C13_SYCL_STR(driver_version) C13_SYCL_STR(profile) C13_SYCL_STR(version)
            C13_SYCL_STR(opencl_c_version) C13_SYCL_STR(extensions) C13_SYCL_STR(built_in_kernels)
            C13_SYCL_NUM(address_bits) C13_SYCL_NUM(device_type) C13_SYCL_NUM(double_fp_config) C13_SYCL_NUM(error_correction_support)
            C13_SYCL_NUM(execution_capabilities) C13_SYCL_NUM(global_mem_cache_line_size) C13_SYCL_NUM(global_mem_cache_size)
            C13_SYCL_NUM(global_mem_cache_type) C13_SYCL_NUM(global_mem_size) C13_SYCL_NUM(half_fp_config) C13_SYCL_NUM(host_unified_memory)
            C13_SYCL_NUM(image2d_max_height) C13_SYCL_NUM(image2d_max_width) C13_SYCL_NUM(image3d_max_depth) C13_SYCL_NUM(image3d_max_height)
            C13_SYCL_NUM(image3d_max_width) C13_SYCL_NUM(image_max_array_size) C13_SYCL_NUM(image_max_buffer_size) C13_SYCL_NUM(image_support)
            C13_SYCL_NUM(is_available) C13_SYCL_NUM(is_compiler_available) C13_SYCL_NUM(is_endian_little) C13_SYCL_NUM(is_linker_available)
            C13_SYCL_NUM(local_mem_size) C13_SYCL_NUM(local_mem_type) C13_SYCL_NUM(max_clock_frequency) C13_SYCL_NUM(max_compute_units)
            C13_SYCL_NUM(max_constant_args) C13_SYCL_NUM(max_constant_buffer_size) C13_SYCL_NUM(max_mem_alloc_size) C13_SYCL_NUM(max_parameter_size)
            C13_SYCL_NUM(max_read_image_args) C13_SYCL_NUM(max_samplers) C13_SYCL_NUM(max_work_group_size) C13_SYCL_NUM(max_work_item_dimensions)
            C13_SYCL_NUM(max_write_image_args) C13_SYCL_NUM(mem_base_addr_align)
            C13_SYCL_NUM(native_vector_width_char) C13_SYCL_NUM(native_vector_width_double) C13_SYCL_NUM(native_vector_width_float)
            C13_SYCL_NUM(native_vector_width_half) C13_SYCL_NUM(native_vector_width_int) C13_SYCL_NUM(native_vector_width_long) C13_SYCL_NUM(native_vector_width_short)
            C13_SYCL_NUM(partition_affinity_domains) C13_SYCL_NUM(partition_max_sub_devices) C13_SYCL_NUM(partition_properties)
            C13_SYCL_NUM(partition_type_affinity_domain) C13_SYCL_NUM(partition_type_property) C13_SYCL_NUM(preferred_interop_user_sync)
            C13_SYCL_NUM(preferred_vector_width_char) C13_SYCL_NUM(preferred_vector_width_double) C13_SYCL_NUM(preferred_vector_width_float)
            C13_SYCL_NUM(preferred_vector_width_half) C13_SYCL_NUM(preferred_vector_width_int) C13_SYCL_NUM(preferred_vector_width_long) C13_SYCL_NUM(preferred_vector_width_short)
            C13_SYCL_NUM(printf_buffer_size) C13_SYCL_NUM(profiling_timer_resolution) C13_SYCL_NUM(queue_profiling) C13_SYCL_NUM(reference_count)
            C13_SYCL_NUM(single_fp_config) C13_SYCL_NUM(vendor_id)
            template <int D> struct max_work_item_sizes { using return_type = int; };
            #undef C13_SYCL_NUM
            #undef C13_SYCL_STR
        }
    }

    struct platform
    {
        template <typename info_t> typename info_t::return_type get_info() const { return typename info_t::return_type{}; }
    };
    struct device
    {
        static std::vector<device> get_devices() { return std::vector<device>(1); }
        platform get_platform() const { return platform{}; }
        template <typename info_t> typename info_t::return_type get_info() const { return typename info_t::return_type{}; }
    };
    struct queue
    {
        queue() {}
        explicit queue(const device&) {}
        template <typename group_t> event submit(const group_t& group) { handler cgh; group(cgh); return event{}; }
        void wait() {}
    };
} // namespace sycl
