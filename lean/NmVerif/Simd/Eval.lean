import NmVerif.Simd.Loop
import NmVerif.Simd.Enum
/-
  NmVerif.Simd.Eval — MODEL of the enumerator-driven SIMD evaluators of
    include/nmtools/array/eval/simd/evaluator/ufunc.hpp
      eval_binary BROADCASTED_2D (l.420-451), eval_outer (l.95-171),
      eval_reduction VERTICAL / HORIZONTAL (l.231-351)
    include/nmtools/array/eval/simd/evaluator/matmul.hpp  eval_matmul (l.23-121)
  and of the scalar reference results they are compared with.

  Operand buffers are the raw `data()` of the leaves (read linearly, whatever their layout — as the code
  does); out-of-buffer accesses are `none`.  `packOp` is `op.eval` on registers (parameter).
  Core Lean only.
-/
namespace NmVerif.Simd
open NmVerif

variable {α β : Type}

/-- `lanes ? op.loadu(&p[off]) : op.set1(p[off])` -/
def loadOrSet1 (buf : List α) (t : TIdx) (N : Nat) : Option (List α) :=
  if t.tag = Tag.PACKED then loadu buf t.off N else (readAt buf t.off).map (List.replicate N)

/-! ### eval_binary, BROADCASTED_2D -/

/-- one step of the loop over `binary_2d_simd_enumerator`: a register (PACKED result) or one scalar -/
def binary2dStep (N : Nat) (packF : List α → List α → List β) (f : α → α → β)
    (lhs rhs : List α) (lr lc rr rc oc : Nat) (o : List β) (i : Nat) : Option (List β) :=
  let step := binary2dAt N oc lr lc rr rc i
  if step.1.tag = Tag.PACKED then do
    let l ← loadOrSet1 lhs step.2.1 N
    let r ← loadOrSet1 rhs step.2.2 N
    storeu o step.1.off (packF l r)
  else do
    let x ← readAt lhs step.2.1.off
    let y ← readAt rhs step.2.2.off
    writeAt o step.1.off (f x y)

/-- the loop over `binary_2d_simd_enumerator`; shapes `(lr,lc)`, `(rr,rc)`, output `(_, oc)` -/
def simdBinary2d (N : Nat) (packF : List α → List α → List β) (f : α → α → β)
    (lhs rhs : List α) (lr lc rr rc oc : Nat) (out : List β) : Option (List β) :=
  (List.range (binary2dSize N oc lr rr)).foldlM (binary2dStep N packF f lhs rhs lr lc rr rc oc) out

/-- NumPy broadcasting of two 2-d arrays, row-major result: element (r,c) = f(a[r or 0, c or 0], b[…]) -/
def scalarBinary2d (f : α → α → β) (a b : NDA α) (lr lc rr rc : Nat) : Option (List β) :=
  let R := max lr rr
  let C := max lc rc
  allSome ((List.range (R * C)).map (fun k =>
    let r := k / C
    let c := k % C
    match a.get? [if lr = 1 then 0 else r, if lc = 1 then 0 else c],
          b.get? [if rr = 1 then 0 else r, if rc = 1 then 0 else c] with
    | some x, some y => some (f x y)
    | _, _ => none))

/-! ### eval_outer -/

/-- scalar loop of the `PAD_k` branch: `for i < N - k: out[o+i] = op(lhs[l], rhs[r+i])` -/
def outerPadLoop (f : α → α → β) (lhs rhs : List α) (lo ro oo cnt : Nat) (out : List β) : Option (List β) :=
  (List.range cnt).foldlM (fun o i => do
    let x ← readAt lhs lo
    let y ← readAt rhs (ro + i)
    writeAt o (oo + i) (f x y)) out

/-- one step of the loop over `outer_simd_enumerator`: a register (PACKED) or the scalar loop of `PAD_k` -/
def outerStep (N : Nat) (packF : List α → List α → List β) (f : α → α → β)
    (lhs rhs : List α) (outShape lhsShape rhsShape : List Nat) (o : List β) (i : Nat) : Option (List β) :=
  let step := outerAt N outShape lhsShape rhsShape i
  let ot := step.1
  let lt := step.2.1
  let rt := step.2.2
  if ot.tag = Tag.PACKED then do
    let x ← readAt lhs lt.off                       -- lhs always simd-broadcasted
    let r ← loadu rhs rt.off N
    storeu o ot.off (packF (List.replicate N x) r)
  else
    -- template_for<N-1>: only tags 1..N-1 do anything
    if 1 ≤ ot.tag ∧ ot.tag < (N : Int) then
      outerPadLoop f lhs rhs lt.off rt.off ot.off (N - ot.tag.toNat) o
    else some o

def simdOuter (N : Nat) (packF : List α → List α → List β) (f : α → α → β)
    (lhs rhs : List α) (outShape lhsShape rhsShape : List Nat) (out : List β) : Option (List β) :=
  (List.range (outerSize N outShape lhsShape rhsShape)).foldlM (outerStep N packF f lhs rhs outShape lhsShape rhsShape) out

/-- outer product, row-major: out[i ++ j] = f(a[i], b[j]) -/
def scalarOuter (f : α → α → β) (a b : NDA α) : Option (List β) := do
  let x ← logical a
  let y ← logical b
  pure (x.flatMap (fun u => y.map (fun v => f u v)))

/-! ### eval_reduction along one axis -/

/-- horizontal fold of a register: `result = tmp[0]; for i in 1..N: result = op(result, tmp[i])` -/
def hfold (op : α → α → α) (reg : List α) : Option α :=
  match reg with
  | [] => none
  | r0 :: rs => some (rs.foldl op r0)

/-- one step of the VERTICAL loop (`switch (out_tag)`): ACCUMULATE_PACKED / ACCUMULATE / nothing -/
def vertStep (N : Nat) (packOp : List α → List α → List α) (op : α → α → α)
    (inp : List α) (outShape inpShape : List Nat) (axis : Nat) (o : List α) (i : Nat) : Option (List α) := do
  let (ot, it) ← reductionAt .vertical N outShape inpShape axis i
  if ot.tag = Tag.ACCUMULATE_PACKED then do
    let x ← loadu inp it.off N
    let y ← loadu o ot.off N
    storeu o ot.off (packOp y x)
  else if ot.tag = Tag.ACCUMULATE then do
    let x ← readAt inp it.off
    let y ← readAt o ot.off
    writeAt o ot.off (op y x)
  else some o

/-- VERTICAL: `out` pre-filled with `identity`; ACCUMULATE_PACKED / ACCUMULATE steps -/
def simdReduceVertical (N : Nat) (packOp : List α → List α → List α) (op : α → α → α)
    (inp : List α) (outShape inpShape : List Nat) (axis : Nat) (out : List α) : Option (List α) :=
  (List.range (reductionSize .vertical N inpShape axis)).foldlM (vertStep N packOp op inp outShape inpShape axis) out

/-- one step of the HORIZONTAL loop: `switch (inp_tag)` then `switch (out_tag)`; state = (output buffer, accumulator) -/
def horizStep (N : Nat) (packOp : List α → List α → List α) (op : α → α → α) (identity : α)
    (inp : List α) (outShape inpShape : List Nat) (axis : Nat) (st : List α × List α) (i : Nat) :
    Option (List α × List α) := do
  let (ot, it) ← reductionAt .horizontal N outShape inpShape axis i
  let accum ←
    if it.tag = Tag.PACKED then do
      let x ← loadu inp it.off N
      pure (packOp st.2 x)
    else if 1 ≤ it.tag ∧ it.tag < (N : Int) then do
      let k := it.tag.toNat
      let x ← loadu inp it.off (N - k)                    -- element-wise copy of N-k elements
      pure (packOp st.2 (x ++ List.replicate k identity))
    else pure st.2
  if ot.tag = Tag.ACCUMULATE then do
    let r ← hfold op accum
    let o ← writeAt st.1 ot.off r
    pure (o, List.replicate N identity)
  else pure (st.1, accum)

/-- HORIZONTAL: state = (output buffer, vector accumulator) -/
def simdReduceHorizontal (N : Nat) (packOp : List α → List α → List α) (op : α → α → α) (identity : α)
    (inp : List α) (outShape inpShape : List Nat) (axis : Nat) (out : List α) : Option (List α) :=
  ((List.range (reductionSize .horizontal N inpShape axis)).foldlM
      (horizStep N packOp op identity inp outShape inpShape axis) (out, List.replicate N identity)).map
    (fun (st : List α × List α) => st.1)

/-- shape of the result "as if keepdims": extent 1 at `axis` -/
def keepShape (shape : List Nat) (axis : Nat) : List Nat := shape.set axis 1

/-- reference: NumPy `op.reduce(a, axis, keepdims=True)` as the scalar evaluator computes it
    (`reduce_t`: slice along the axis, left fold starting from its first element), row-major result -/
def scalarReduceAxis (op : α → α → α) (a : NDA α) (axis : Nat) : Option (List α) :=
  let os := keepShape a.shape axis
  allSome ((List.range (prod os)).map (fun o =>
    let idx := ndindex os o
    match allSome ((List.range (a.shape.getD axis 0)).map (fun k => a.get? (idx.set axis k))) with
    | some (x :: xs) => some (xs.foldl op x)
    | _ => none))

/-- `evaluator_t<view, simd_base_t<tag>>::operator()(output)` on a reduce view with an index axis.
    `axisI` is the axis as written by the caller (negative = counted from the end);
    `identity` = `some (view.op.identity())`, or `none` for an op without one (subtract).
    Result: row-major buffer of the keepdims-shaped output; `none` = invalid axis or a buffer was left.
    Order of the checks as in the code:
      operator():      an operand that is not row-major goes to the default (scalar) evaluator;
      eval_reduction:  no `identity()` → scalar evaluator; `out_size == 1` → reduce everything;
                       negative axis normalised by `+ dim`; last axis → HORIZONTAL, else VERTICAL. -/
def simdReduceAxis (N : Nat) (packOp : List α → List α → List α) (op : α → α → α) (identity : Option α)
    (a : NDA α) (axisI : Int) : Option (List α) :=
  let dim := a.shape.length
  let axisN : Int := if axisI < 0 then axisI + (dim : Int) else axisI
  if axisN < 0 ∨ axisN ≥ (dim : Int) then none else
  let axis : Nat := axisN.toNat
  if a.colMajor then scalarReduceAxis op a axis else
  match identity with
  | none => scalarReduceAxis op a axis
  | some e =>
    let outShape := keepShape a.shape axis
    let outSize := prod outShape
    if outSize = 1 then
      (simdReduceAll N packOp op e a).map (fun r => [r])          -- `if (out_size == 1)` comes first
    else
      let out := List.replicate outSize e
      if axis = dim - 1 then
        simdReduceHorizontal N packOp op e a.data outShape a.shape axis out
      else
        simdReduceVertical N packOp op a.data outShape a.shape axis out

/-! ### keepdims: the shape of the view / output, and what `eval_reduction` hands to the enumerators -/

/-- shape of a reduce view over one axis (= shape of the output buffer `eval_reduction` receives):
    `keepdims` ? extent 1 at `axis` : `axis` removed -/
def reduceOutShape (shape : List Nat) (axis : Nat) (keep : Bool) : List Nat :=
  if keep then keepShape shape axis else shape.eraseIdx axis

/-- `out_shape_` of `eval_reduction`: "normalize the out shape as if keepdims=True":
    `keepdims ? out_shape : index::insert_index(out_shape, 1, reduction_axis)` -/
def normOutShape (outShape : List Nat) (axis : Nat) (keep : Bool) : List Nat :=
  if keep then outShape else outShape.insertIdx axis 1

/-- reference with `keepdims` made explicit: NumPy `op.reduce(a, axis, keepdims)`, row-major buffer of the result of shape
    `reduceOutShape`: cell `idx` is the left fold of `a[idx with k put at axis]`, `k < shape[axis]`
    (`keepdims=true`: `idx[axis]` replaced; `keepdims=false`: `k` inserted) -/
def scalarReduceAxisK (op : α → α → α) (a : NDA α) (axis : Nat) (keep : Bool) : Option (List α) :=
  let os := reduceOutShape a.shape axis keep
  allSome ((List.range (prod os)).map (fun o =>
    let idx := ndindex os o
    match allSome ((List.range (a.shape.getD axis 0)).map (fun k =>
        a.get? (if keep then idx.set axis k else idx.insertIdx axis k))) with
    | some (x :: xs) => some (xs.foldl op x)
    | _ => none))

/-- `operator()(output)` on a reduce view with an index axis and a `keepdims` flag: as `simdReduceAxis`, with the output
    shape the view has (`reduceOutShape`) and the enumerators fed `normOutShape` of it.  Result: (shape, row-major buffer). -/
def simdReduceAxisK (N : Nat) (packOp : List α → List α → List α) (op : α → α → α) (identity : Option α)
    (a : NDA α) (axisI : Int) (keep : Bool) : Option (List Nat × List α) :=
  let dim := a.shape.length
  let axisN : Int := if axisI < 0 then axisI + (dim : Int) else axisI
  if axisN < 0 ∨ axisN ≥ (dim : Int) then none else
  let axis : Nat := axisN.toNat
  let viewShape := reduceOutShape a.shape axis keep              -- shape(view) == shape(output)
  if a.colMajor then (scalarReduceAxisK op a axis keep).map (fun b => (viewShape, b)) else
  match identity with
  | none => (scalarReduceAxisK op a axis keep).map (fun b => (viewShape, b))
  | some e =>
    let outSize := prod viewShape                                -- nmtools::size(output)
    if outSize = 1 then
      (simdReduceAll N packOp op e a).map (fun r => (viewShape, [r]))
    else
      let out := List.replicate outSize e
      let outShape := normOutShape viewShape axis keep           -- insert_index(out_shape, 1, axis) unless keepdims
      if axis = dim - 1 then
        (simdReduceHorizontal N packOp op e a.data outShape a.shape axis out).map (fun b => (viewShape, b))
      else
        (simdReduceVertical N packOp op a.data outShape a.shape axis out).map (fun b => (viewShape, b))

/-- … with `axis = None` (the output is one number): same dispatch, always the `out_size == 1` path -/
def simdEvalReduceAll (N : Nat) (packOp : List α → List α → List α) (op : α → α → α) (identity : Option α)
    (a : NDA α) : Option α :=
  if a.colMajor then scalarReduceAll op a else
  match identity with
  | none => scalarReduceAll op a
  | some e => simdReduceAll N packOp op e a

/-! ### `operator()(output)`: layout check, then the packed evaluators

  `evaluator_t<view, simd_base_t<tag>>::operator()` hands the view to the default (scalar) evaluator when an
  operand is not row-major (the packed loops read `data()` linearly); otherwise it dispatches on the view kind. -/

def simdEvalUnary (lanes : Nat) (packF : List α → List β) (f : α → β) (a : NDA α) (out : List β) : Option (List β) :=
  if a.colMajor then scalarUnary f a else simdUnary lanes packF f a out

def simdEvalBinarySame (lanes : Nat) (packF : List α → List α → List β) (f : α → α → β)
    (a b : NDA α) (out : List β) : Option (List β) :=
  if a.colMajor || b.colMajor then scalarBinarySame f a b else simdBinarySame lanes packF f a b out

def simdEvalBinary2d (N : Nat) (packF : List α → List α → List β) (f : α → α → β)
    (a b : NDA α) (lr lc rr rc oc : Nat) (out : List β) : Option (List β) :=
  if a.colMajor || b.colMajor then scalarBinary2d f a b lr lc rr rc
  else simdBinary2d N packF f a.data b.data lr lc rr rc oc out

def simdEvalOuter (N : Nat) (packF : List α → List α → List β) (f : α → α → β)
    (a b : NDA α) (out : List β) : Option (List β) :=
  if a.colMajor || b.colMajor then scalarOuter f a b
  else simdOuter N packF f a.data b.data (a.shape ++ b.shape) a.shape b.shape out

/-! ### eval_matmul -/

/-- lanes of `fmadd(l, r, acc)`; `fma x y z` is the (fused) scalar `x*y+z` -/
def fmaddLanes (fma : α → α → α → α) (l r acc : List α) : List α :=
  List.zipWith (fun (p : α × α) c => fma p.1 p.2 c) (List.zip l r) acc

/-- one inner step of `eval_matmul` for output element `outOffset`: `fmadd` of a register of the lhs row and of the rhs
    column (zero-padded for `PAD_k`) into the accumulator, then the horizontal sum is stored (after EVERY step: the last
    store is the one that stays).  State = (output buffer, accumulator register). -/
def matmulStep (N : Nat) (fma : α → α → α → α) (add : α → α → α) (zero : α)
    (lhs rhs : List α) (K Nn outOffset : Nat) (st : List α × List α) (step : Nat) : Option (List α × List α) := do
  let idx := matmulInner N outOffset step Nn K
  let ot := idx.1
  let lt := idx.2.1
  let rt := idx.2.2
  let acc ←
    if lt.tag = Tag.PACKED then do
      let l ← loadu lhs lt.off N
      let r ← loadu rhs rt.off N
      pure (fmaddLanes fma l r st.2)
    else if 1 ≤ lt.tag ∧ lt.tag < (N : Int) then do
      let k := lt.tag.toNat
      let l ← loadu lhs lt.off (N - k)
      let r ← loadu rhs rt.off (N - k)
      pure (fmaddLanes fma (l ++ List.replicate k zero) (r ++ List.replicate k zero) st.2)
    else pure st.2
  let res ← hfold add acc
  let o ← writeAt st.1 ot.off res
  pure (o, acc)

/-- one output element: `result_pack = set1(0)`, then the inner steps -/
def matmulCellLoop (N : Nat) (fma : α → α → α → α) (add : α → α → α) (zero : α)
    (lhs rhs : List α) (K Nn : Nat) (o : List α) (outOffset : Nat) : Option (List α) :=
  ((List.range (matmulInnerSize N K)).foldlM (matmulStep N fma add zero lhs rhs K Nn outOffset)
      (o, List.replicate N zero)).map (fun (st : List α × List α) => st.1)

/-- `eval_matmul`: lhs buffer row-major (M,K), rhs buffer column-major (K,Nn), output row-major (M,Nn) -/
def simdMatmul (N : Nat) (fma : α → α → α → α) (add : α → α → α) (zero : α)
    (lhs rhs : List α) (M K Nn : Nat) (out : List α) : Option (List α) :=
  (List.range (M * Nn)).foldlM (matmulCellLoop N fma add zero lhs rhs K Nn) out

/-- reference: `out[m,n] = Σ_k lhs[m,k]·rhs[k,n]` (left to right from `zero`); `lhs` row-major (M,K),
    `rhsCol` the column-major buffer of the (K,Nn) operand -/
def scalarMatmul (mul add : α → α → α) (zero : α) (lhs rhsCol : List α) (M K Nn : Nat) : Option (List α) :=
  allSome ((List.range (M * Nn)).map (fun o =>
    let m := o / Nn
    let n := o % Nn
    (allSome ((List.range K).map (fun k =>
      match lhs[m * K + k]?, rhsCol[n * K + k]? with
      | some x, some y => some (mul x y)
      | _, _ => none))).map (fun ps => ps.foldl add zero)))

/-- reference on the n-d operands (either layout): `out[m,n] = Σ_k a[m,k]·b[k,n]`, left to right from `zero`; row-major result -/
def scalarMatmulNDA (mul add : α → α → α) (zero : α) (a b : NDA α) (M K Nn : Nat) : Option (List α) :=
  allSome ((List.range (M * Nn)).map (fun o =>
    let m := o / Nn
    let n := o % Nn
    (allSome ((List.range K).map (fun k =>
      match a.get? [m, k], b.get? [k, n] with
      | some x, some y => some (mul x y)
      | _, _ => none))).map (fun ps => ps.foldl add zero)))

/-- `evaluator_t<matmul view, simd_base_t<tag>>::operator()(output)` as written: an lhs that is not row-major
    (`contiguous_axis != -1`) goes to the default (scalar) evaluator, whatever the rhs; otherwise `eval_matmul`, which exists
    only for a column-major rhs (`static_assert(contiguous_axis == 0)`: a row-major lhs with a row-major rhs is not a
    program — `none` here).  `fallback` says whether the layout test on the lhs can succeed at all (see below). -/
def simdEvalMatmulWith (fallback : Bool) (N : Nat) (fma : α → α → α → α) (mul add : α → α → α) (zero : α)
    (a b : NDA α) (M K Nn : Nat) (out : List α) : Option (List α) :=
  if fallback && a.colMajor then scalarMatmulNDA mul add zero a b M K Nn
  else if b.colMajor then simdMatmul N fma add zero a.data b.data M K Nn out
  else none

/-- The layout test of `operator()` is effective since fix commit 8eebbc3 (fixes/C12-matmul-lhs-layout-fallback.diff).
    Before it, `lhs_type` was computed as `remove_cvref_pointer_t<decltype(get<0>(get_array(view)))>`: `decltype(get<0>(…))`
    is a REFERENCE to the stored pointer, `remove_pointer_t` did nothing, `contiguous_axis_v<lhs_type>` was a fail type
    and `eval_matmul` ran for every lhs (`false` here reproduces that tree). -/
def matmulLhsFallbackEffective : Bool := true

/-- `operator()` on a matmul view, as the (repaired) tree behaves -/
def simdEvalMatmul (N : Nat) (fma : α → α → α → α) (mul add : α → α → α) (zero : α)
    (a b : NDA α) (M K Nn : Nat) (out : List α) : Option (List α) :=
  simdEvalMatmulWith matmulLhsFallbackEffective N fma mul add zero a b M K Nn out

end NmVerif.Simd
