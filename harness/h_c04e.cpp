// C04 harness, part E: (1) probes of the generator views at selected positions (ranges too long to enumerate),
//                      (2) the COMPILE-TIME-CONSTANT argument forms of the generators (`kind=…`), over a fixed table
//
// Answers : `ok shape=<len> at=<elements at the requested positions>`     (arange_at / linspace_at)
//           `ok shape=<dims> data=<elements, C order>`                    (kind=… forms; same text as the run-time form)
//           `not-in-table` (the constants of the request are not instantiated here) | `bad-args` | `unknown-op`
//           integer element type prints decimal integers, real element types print %.17g
//
// Request syntax (parameters as in h_c04c.cpp / h_c04d.cpp: integers, or quarter units with a `q` suffix on the key):
//   arange_at   start=<int> stop=<int> step=<int>|None dtype=int|float|double at=<positions>   view::arange(start, stop[, step], dtype)
//   arange_at   start=<int> stop=<int> stepq=<int> dtype=float|double at=<positions>           view::arange(int, int, real step, dtype)
//   linspace_at start=<int>|startq=<int> stop=<int>|stopq=<int> num=<int> endpoint=0|1 dtype=float|double at=<positions>
//                                                                                             view::linspace(T start, T stop, num, bool endpoint)
// A position is NOT checked against the length: the views do not check it either (arange_t / linspace_t::operator()),
// the generator only asks for positions below the length.
//
// Constant forms — the request is the run-time request plus `kind=`; `C` = integral constant (`N_ct` / `meta::ct_v<N>`),
// `r` = run-time value.  (N, M) from PAIRS, single constants from 1..4, k constants from -1..1.
//   tri | eye  n= m=<int>|None k= kind=ct    (C, C, r)        kind=ctk  (C, C, C)
//                                 kind=ctn   (C, None, r)  [m=None]     kind=ctnk (C, None, C)  [m=None]
//                                 kind=ctn-m (C, r, r)                  kind=n-ctm (r, C, r)
//   identity   n=                 kind=ct    (C)
//   full value= | zeros | ones  shape=<dims> kind=ct     shape = nmtools_tuple of constants (table SHAPES)
//                                            kind=mixed  shape = nmtools_tuple{C, r} / {C, r, C} (first extent constant)
//   full_like value= | zeros_like | ones_like shape=2,3|3,2|4 kind=fixed   source = a fixed-shape std::array nest
//   arange start= stop= step=<int>|None dtype=int kind=ct    all given arguments signed constants (table TRIPLES)
//                                                  kind=ctu   unsigned `_ct` literals (start <= stop, step > 0 only)
//                                                  kind=ct-stop (r, C, r)   kind=ct-step (r, r, C)
//                                                  kind=ct-none (C, C, nm::None)  [step=None; constants only: a run-time
//                                                               start/stop with a None step does not compile]
//   arange stop= dtype=int kind=ct1                            view::arange(stop_ct, dtype)   (start = 0, step = 1)
//   linspace start…= stop…= num= endpoint=0|1 dtype=float|double kind=ct   num constant 1..6, endpoint meta::True / meta::False
//                                                                 kind=ctnum num constant, endpoint run-time bool
#include "nmtools/array/view/arange.hpp"
#include "nmtools/array/view/linspace.hpp"
#include "nmtools/array/view/tri.hpp"
#include "nmtools/array/view/eye.hpp"
#include "nmtools/array/view/identity.hpp"
#include "nmtools/array/view/full.hpp"
#include "nmtools/array/view/zeros.hpp"
#include "nmtools/array/view/ones.hpp"
#include "nmtools/array/view/full_like.hpp"
#include "nmtools/array/view/zeros_like.hpp"
#include "nmtools/array/view/ones_like.hpp"
#include <tuple>
#include <utility>
#include "c04_bc.hpp"
using namespace c04;

template <typename V> static std::string at_dump(const V& v, const uvec& at, bool real) {
    uvec s = to_uvec(nm::shape(v));
    if (s.size() != 1) return "dim-mismatch";
    std::ostringstream o; o << "ok shape=" << (long long)s[0] << " at=";
    if (at.empty()) o << "[]";
    for (size_t i = 0; i < at.size(); i++) {
        if (i) o << ',';
        if (real) o << fmt_real((double)v(at[i])); else o << (long long)v(at[i]);
    }
    return o.str();
}
template <typename T> static T real_arg(const Args& a, const std::string& k) {
    if (has(a, k + "q")) return (T)integer(a, k + "q") / (T)4;
    return (T)integer(a, k);
}
template <typename T, typename D> static std::string do_arange(const Args& a, D dtype, bool real) {
    int start = (int)integer(a, "start"), stop = (int)integer(a, "stop");
    auto at = nats(a, "at");
    if constexpr (std::is_floating_point_v<T>) {
        if (has(a, "stepq")) return at_dump(view::arange(start, stop, real_arg<T>(a, "step"), dtype), at, real);
    }
    if (has(a, "stepq")) return "bad-args";
    if (is_none(a, "step")) return at_dump(view::arange(start, stop, dtype), at, real);
    return at_dump(view::arange(start, stop, (int)integer(a, "step"), dtype), at, real);
}
template <typename T> static std::string do_linspace(const Args& a) {
    T start = real_arg<T>(a, "start"), stop = real_arg<T>(a, "stop");
    size_t num = (size_t)integer(a, "num"); bool endpoint = integer(a, "endpoint") != 0;
    return at_dump(view::linspace(start, stop, num, endpoint), nats(a, "at"), true);
}

// ---------------------------------------------------------------------------------------------------------------
// constant forms
// ---------------------------------------------------------------------------------------------------------------
namespace meta = nm::meta;

// shape of a view as a run-time vector, whatever the shape container (tuple of constants, mixed tuple, array, vector)
template <typename S> static uvec shape_vec(const S& shp) {
    uvec s;
    constexpr auto N = meta::len_v<S>;
    if constexpr (N > 0) meta::template_for<N>([&](auto i){ s.push_back((size_t)nm::at(shp, i)); });
    else for (size_t i = 0; i < (size_t)nm::len(shp); i++) s.push_back((size_t)nm::at(shp, i));
    return s;
}
// same text as c04::dump_view, for any shape container
template <typename V> static std::string cdump(const V& v) {
    uvec s = shape_vec(nm::shape(v));
    if ((size_t)nm::dim(v) != s.size()) return "dim-mismatch";
    size_t n = 1; for (auto e : s) n *= e;
    if ((size_t)nm::size(v) != n) return "size-mismatch";
    std::ostringstream o; o << "ok shape=" << fmt(s) << " data=";
    if (n == 0) o << "[]";
    auto nd = ix::ndindex(s);
    for (size_t k = 0; k < n; k++) { auto idx = nd[k]; if (k) o << ','; o << (long long)nm::apply_at(v, idx); }
    return o.str();
}
template <typename V> static std::string cdump1(const V& v, bool real) {
    uvec s = shape_vec(nm::shape(v));
    if (s.size() != 1 || (size_t)nm::dim(v) != 1) return "dim-mismatch";
    if ((size_t)nm::size(v) != s[0]) return "size-mismatch";
    std::ostringstream o; o << "ok shape=" << fmt(s) << " data=";
    if (s[0] == 0) o << "[]";
    for (size_t k = 0; k < s[0]; k++) { if (k) o << ','; if (real) o << fmt_real((double)v(k)); else o << (long long)v(k); }
    return o.str();
}

template <size_t N, size_t M> struct NM {};
using PAIRS = std::tuple<NM<2,3>, NM<3,2>, NM<3,4>, NM<4,2>, NM<1,3>, NM<3,3>, NM<1,1>>;
// f(N_ct, M_ct) for the table entry (n, m)
template <typename F, size_t...Ns, size_t...Ms>
static std::string pick_pair(size_t n, size_t m, F&& f, std::tuple<NM<Ns,Ms>...>) {
    std::string r = "not-in-table";
    (void)((n == Ns && m == Ms ? (r = f(meta::ct_v<Ns>, meta::ct_v<Ms>), true) : false) || ...);
    return r;
}
// f(ct_v<V>) for v in Vs
template <typename T, T...Vs, typename F> static std::string pick(std::integer_sequence<T,Vs...>, long long v, F&& f) {
    std::string r = "not-in-table";
    (void)((v == (long long)Vs ? (r = f(meta::ct_v<Vs>), true) : false) || ...);
    return r;
}
using ONE_TO_4 = std::integer_sequence<size_t, 1, 2, 3, 4>;
using ONE_TO_6 = std::integer_sequence<size_t, 1, 2, 3, 4, 5, 6>;
using KS = std::integer_sequence<int, -1, 0, 1>;

template <bool TRI, typename N, typename M, typename K> static std::string tri_eye(N n, M m, K k) {
    if constexpr (TRI) return cdump(view::tri(n, m, k, nm::int32)); else return cdump(view::eye(n, m, k, nm::int32));
}
template <bool TRI> static std::string do_tri_eye(const std::string& kind, const Args& a) {
    int k = (int)integer(a, "k"); size_t n = (size_t)integer(a, "n");
    bool mnone = is_none(a, "m"); size_t m = mnone ? 0 : (size_t)integer(a, "m");
    if (kind == "ct" && !mnone) return pick_pair(n, m, [&](auto N, auto M){ return tri_eye<TRI>(N, M, k); }, PAIRS{});
    if (kind == "ctk" && !mnone) return pick_pair(n, m, [&](auto N, auto M){
        return pick(KS{}, k, [&](auto K){ return tri_eye<TRI>(N, M, K); }); }, PAIRS{});
    if (kind == "ctn" && mnone) return pick(ONE_TO_4{}, n, [&](auto N){ return tri_eye<TRI>(N, nm::None, k); });
    if (kind == "ctnk" && mnone) return pick(ONE_TO_4{}, n, [&](auto N){
        return pick(KS{}, k, [&](auto K){ return tri_eye<TRI>(N, nm::None, K); }); });
    if (kind == "ctn-m" && !mnone) return pick(ONE_TO_4{}, n, [&](auto N){ return tri_eye<TRI>(N, (int)m, k); });
    if (kind == "n-ctm" && !mnone) return pick(ONE_TO_4{}, m, [&](auto M){ return tri_eye<TRI>((int)n, M, k); });
    return "bad-args";
}

template <size_t...Es> struct SH {};
using SHAPES = std::tuple<SH<2,3>, SH<3,2>, SH<1,3>, SH<4>, SH<2,1,3>, SH<3,1>>;
template <typename F, size_t...Es> static bool try_shape(const uvec& s, F& f, std::string& r, SH<Es...>) {
    if (s == uvec{Es...}) { r = f(nmtools_tuple{meta::ct_v<Es>...}); return true; }
    return false;
}
template <typename F, typename...Ss> static std::string pick_shape(const uvec& s, F&& f, std::tuple<Ss...>) {
    std::string r = "not-in-table";
    (void)(try_shape(s, f, r, Ss{}) || ...);
    return r;
}
template <typename S> static std::string fzo(const std::string& op, const S& shape, const Args& a) {
    if (op == "full") return cdump(view::full(shape, (int)integer(a, "value")));
    if (op == "zeros") return cdump(view::zeros(shape, nm::int32));
    if (op == "ones") return cdump(view::ones(shape, nm::int32));
    return "unknown-op";
}
template <typename A> static std::string fzo_like(const std::string& op, const A& arr, const Args& a) {
    if (op == "full_like") return cdump(view::full_like(arr, (int)integer(a, "value")));
    if (op == "zeros_like") return cdump(view::zeros_like(arr));
    if (op == "ones_like") return cdump(view::ones_like(arr));
    return "unknown-op";
}

template <int A, int B, int C> struct TR {};
using TRIPLES = std::tuple<TR<0,4,1>, TR<1,8,3>, TR<2,9,2>, TR<-2,5,2>, TR<7,1,-2>, TR<5,2,1>, TR<3,3,1>, TR<4,-3,-3>, TR<-3,4,1>, TR<0,6,1>>;
template <typename F, int...As, int...Bs, int...Cs>
static std::string pick_triple(int a, int b, int c, F&& f, std::tuple<TR<As,Bs,Cs>...>) {
    std::string r = "not-in-table";
    (void)((a == As && b == Bs && c == Cs ? (r = f(meta::ct_v<As>, meta::ct_v<Bs>, meta::ct_v<Cs>), true) : false) || ...);
    return r;
}
using STOPS = std::integer_sequence<int, 0, 1, 4, 6, 8, 9>;
using STEPS = std::integer_sequence<int, -3, -2, 1, 2, 3>;

static std::string do_arange_ct(const std::string& kind, const Args& a) {
    if (get(a, "dtype") != "int") return "bad-args";
    int stop = (int)integer(a, "stop");
    if (kind == "ct1") return pick(STOPS{}, stop, [&](auto S){ return cdump1(view::arange(S, nm::int32), false); });
    int start = (int)integer(a, "start");
    bool snone = is_none(a, "step"); int step = snone ? 1 : (int)integer(a, "step");
    if (kind == "ct") return pick_triple(start, stop, step, [&](auto A, auto B, auto C){
        if (snone) return cdump1(view::arange(A, B, nm::int32), false);
        return cdump1(view::arange(A, B, C, nm::int32), false); }, TRIPLES{});
    if (kind == "ct-none" && snone) return pick_triple(start, stop, step, [&](auto A, auto B, auto){
        return cdump1(view::arange(A, B, nm::None, nm::int32), false); }, TRIPLES{});
    if (kind == "ctu") {
        if (start < 0 || stop < start || step <= 0) return "bad-args";
        // (unsigned constants with stop < start do not compile: "overflow in constant expression" in arange_shape)
        return pick_triple(start, stop, step, [&](auto A, auto B, auto C) -> std::string {
            constexpr int av = decltype(A)::value, bv = decltype(B)::value, cv = decltype(C)::value;
            if constexpr (av >= 0 && bv >= av && cv > 0) {
                if (snone) return cdump1(view::arange(meta::ct_v<(size_t)av>, meta::ct_v<(size_t)bv>, nm::int32), false);
                return cdump1(view::arange(meta::ct_v<(size_t)av>, meta::ct_v<(size_t)bv>, meta::ct_v<(size_t)cv>, nm::int32), false);
            } else return "not-in-table"; }, TRIPLES{});
    }
    if (kind == "ct-stop") return pick(STOPS{}, stop, [&](auto S){
        if (snone) return cdump1(view::arange(start, S, nm::int32), false);
        return cdump1(view::arange(start, S, step, nm::int32), false); });
    if (kind == "ct-step" && !snone) return pick(STEPS{}, step, [&](auto C){ return cdump1(view::arange(start, stop, C, nm::int32), false); });
    return "bad-args";
}
template <typename T> static std::string do_linspace_ct(const std::string& kind, const Args& a) {
    T start = real_arg<T>(a, "start"), stop = real_arg<T>(a, "stop");
    bool endpoint = integer(a, "endpoint") != 0;
    return pick(ONE_TO_6{}, integer(a, "num"), [&](auto NUM){
        if (kind == "ctnum") return cdump1(view::linspace(start, stop, NUM, endpoint), true);
        if (endpoint) return cdump1(view::linspace(start, stop, NUM, nm::True), true);
        return cdump1(view::linspace(start, stop, NUM, nm::False), true); });
}

std::string handle(const std::string& op, const Args& a) {
    if (has(a, "kind")) {
        const auto& kind = get(a, "kind");
        if (op == "tri") return do_tri_eye<true>(kind, a);
        if (op == "eye") return do_tri_eye<false>(kind, a);
        if (op == "identity") return pick(ONE_TO_4{}, integer(a, "n"), [&](auto N){ return cdump(view::identity(N, nm::int32)); });
        if (op == "full" || op == "zeros" || op == "ones") {
            auto s = nats(a, "shape");
            if (kind == "ct") return pick_shape(s, [&](auto shape){ return fzo(op, shape, a); }, SHAPES{});
            if (kind == "mixed") {
                if (s.size() == 2) return pick(ONE_TO_4{}, (long long)s[0], [&](auto N){ return fzo(op, nmtools_tuple{N, s[1]}, a); });
                if (s.size() == 3) return pick(ONE_TO_4{}, (long long)s[0], [&](auto N){
                    return pick(ONE_TO_4{}, (long long)s[2], [&](auto P){ return fzo(op, nmtools_tuple{N, s[1], P}, a); }); });
                return "not-in-table";
            }
            return "bad-args";
        }
        if (op == "full_like" || op == "zeros_like" || op == "ones_like") {
            auto s = nats(a, "shape");
            if (kind != "fixed") return "bad-args";
            if (s == uvec{2, 3}) { std::array<std::array<int,3>,2> A{}; return fzo_like(op, A, a); }
            if (s == uvec{3, 2}) { std::array<std::array<int,2>,3> A{}; return fzo_like(op, A, a); }
            if (s == uvec{4}) { std::array<int,4> A{}; return fzo_like(op, A, a); }
            return "not-in-table";
        }
        if (op == "arange") return do_arange_ct(kind, a);
        if (op == "linspace") {
            const auto& dt = get(a, "dtype");
            if (dt == "float") return do_linspace_ct<float>(kind, a);
            if (dt == "double") return do_linspace_ct<double>(kind, a);
            return "bad-args";
        }
        return "unknown-op";
    }
    const auto& dt = get(a, "dtype");
    if (op == "arange_at") {
        if (dt == "int") return do_arange<int>(a, nm::int32, false);
        if (dt == "float") return do_arange<float>(a, nm::float32, true);
        if (dt == "double") return do_arange<double>(a, nm::float64, true);
        return "bad-args";
    }
    if (op == "linspace_at") {
        if (dt == "float") return do_linspace<float>(a);
        if (dt == "double") return do_linspace<double>(a);
        return "bad-args";
    }
    return "unknown-op";
}
