/-
  Helper lemmas for property C09: the refusal classes of the ONE reference function per operation
  (NmVerif.Containers.KindRefs).  The kind matrix compares every kind-specific C++ branch with the
  reference answer `nothing` on sampled members of these classes; here the reference is shown to
  refuse EVERY member, and broadcasting is shown not to depend on the operand order.
-/
import NmVerif.Basic
import NmVerif.Containers.KindRefs
namespace NmVerif.KindRefs
open NmVerif

theorem bdim_comm (a b : Nat) : bdim a b = bdim b a := by
  unfold bdim
  by_cases h1 : a = b
  · subst h1; rfl
  · have h2 : ¬ b = a := fun h => h1 h.symm
    simp only [h1, h2, if_false]
    by_cases ha : a = 1 <;> by_cases hb : b = 1 <;> simp [ha, hb] <;> omega

theorem bshapeRev_comm : ∀ (a b : List Nat), bshapeRev a b = bshapeRev b a
  | [], [] => rfl
  | [], _ :: _ => by simp [bshapeRev]
  | _ :: _, [] => by simp [bshapeRev]
  | x :: xs, y :: ys => by
      simp only [bshapeRev]
      rw [bdim_comm x y, bshapeRev_comm xs ys]

theorem broadcastShape_comm' (a b : List Nat) : broadcastShape a b = broadcastShape b a := by
  unfold broadcastShape
  rw [bshapeRev_comm]

/-- all-positive target: the filter for negatives is empty and the non-negative part is everything -/
theorem filter_neg_of_pos (d : List Int) (h : ∀ x ∈ d, 0 < x) : d.filter (· < 0) = [] := by
  apply List.filter_eq_nil_iff.mpr
  intro x hx
  have := h x hx
  simp; omega

theorem filter_nonneg_of_pos (d : List Int) (h : ∀ x ∈ d, 0 < x) : d.filter (· ≥ 0) = d := by
  apply List.filter_eq_self.mpr
  intro x hx
  have := h x hx
  simp; omega

theorem prod_eq_zero_of_mem {l : List Nat} (h : 0 ∈ l) : prod l = 0 := by
  induction l with
  | nil => cases h
  | cons a t ih =>
    simp only [prod]
    rcases List.mem_cons.mp h with h | h
    · subst h; simp
    · rw [ih h]; simp

theorem bshapeRev_none_of_mismatch : ∀ (ra rb : List Nat) (k x y : Nat),
    ra[k]? = some x → rb[k]? = some y → bdim x y = none → bshapeRev ra rb = none
  | [], _, k, x, y, h, _, _ => by simp at h
  | _ :: _, [], k, x, y, _, h, _ => by simp at h
  | p :: ps, q :: qs, 0, x, y, h1, h2, h3 => by
      simp at h1 h2; subst h1; subst h2
      simp [bshapeRev, h3]
  | p :: ps, q :: qs, k + 1, x, y, h1, h2, h3 => by
      simp at h1 h2
      simp only [bshapeRev, bshapeRev_none_of_mismatch ps qs k x y h1 h2 h3]
      cases bdim p q <;> rfl

theorem bdim_none {x y : Nat} (hxy : x ≠ y) (hx : x ≠ 1) (hy : y ≠ 1) : bdim x y = none := by
  simp [bdim, hxy, hx, hy]


theorem sum_map_const (l : List Nat) (c : Nat) : (l.map (fun _ => c)).sum = l.length * c := by
  induction l with
  | nil => simp
  | cons a t ih => simp [ih, Nat.add_mul, Nat.add_comm]

theorem allIdx_length (s : List Nat) : (allIdx s).length = prod s := by
  induction s with
  | nil => rfl
  | cons a t ih =>
    simp only [allIdx, List.length_flatMap, List.length_map, ih, prod]
    rw [sum_map_const]; simp

/-- an array value is well formed when it has as many elements as its shape demands -/
def WF (a : ArrV) : Prop := a.2.length = prod a.1

theorem tabulate_wf (r : List Nat) (f : List Nat → Nat) : WF (tabulate r f) := by
  simp [WF, tabulate, allIdx_length]


/-- the target with its unknown slots filled by `q` -/
def fillUnknown (q : Nat) (dst : List Int) : List Nat := dst.map (fun d => if d < 0 then q else d.toNat)

theorem prod_fill_noneg (q : Nat) : ∀ (dst : List Int), (dst.filter (· < 0)).length = 0 →
    prod (fillUnknown q dst) = prod ((dst.filter (· ≥ 0)).map Int.toNat)
  | [], _ => rfl
  | d :: t, h => by
    by_cases hd : d < 0
    · simp [List.filter, hd] at h
    · have hd' : d ≥ 0 := by omega
      have ht : (t.filter (· < 0)).length = 0 := by simpa [List.filter, hd] using h
      have := prod_fill_noneg q t ht
      simp only [fillUnknown, List.map_cons, prod] at this ⊢
      simp [hd, hd', List.filter, prod, this]

theorem prod_fill_one (q : Nat) : ∀ (dst : List Int), (dst.filter (· < 0)).length = 1 →
    prod (fillUnknown q dst) = q * prod ((dst.filter (· ≥ 0)).map Int.toNat)
  | [], h => by simp at h
  | d :: t, h => by
    by_cases hd : d < 0
    · have hd' : ¬ d ≥ 0 := by omega
      have ht : (t.filter (· < 0)).length = 0 := by simpa [List.filter, hd] using h
      have := prod_fill_noneg q t ht
      simp only [fillUnknown, List.map_cons, prod] at this ⊢
      simp [hd, hd', List.filter, this]
    · have hd' : d ≥ 0 := by omega
      have ht : (t.filter (· < 0)).length = 1 := by simpa [List.filter, hd] using h
      have := prod_fill_one q t ht
      simp only [fillUnknown, List.map_cons, prod] at this ⊢
      simp only [hd, if_false, this, List.filter, hd', decide_true, List.map_cons, prod]
      rw [Nat.mul_left_comm]

/-- an accepted reshape keeps the element count -/
theorem reshape_prod (src : List Nat) (dst : List Int) (r : List Nat) (h : reshape src dst = some r) :
    prod r = prod src := by
  unfold reshape at h
  simp only at h
  split at h
  · cases h
  · split at h
    · rename_i h0
      split at h
      · rename_i hk
        cases h
        have := prod_fill_noneg 0 dst h0
        have e : dst.map Int.toNat = fillUnknown 0 dst := by
          unfold fillUnknown
          apply List.map_congr_left
          intro d hd
          have : ¬ d < 0 := by
            intro hn
            have : d ∈ dst.filter (· < 0) := List.mem_filter.mpr ⟨hd, by simpa using hn⟩
            rw [List.length_eq_zero_iff.mp h0] at this
            cases this
          simp [this]
        rw [e, this, hk]
      · cases h
    · rename_i h1
      split at h
      · cases h
      · split at h
        · rename_i hk hm
          cases h
          have := prod_fill_one (prod src / prod ((dst.filter (· ≥ 0)).map Int.toNat)) dst h1
          unfold fillUnknown at this
          rw [this]
          exact Nat.div_mul_cancel (Nat.dvd_of_mod_eq_zero hm)
        · cases h
    · cases h

theorem mapM_none_of_mem {α β : Type} (f : α → Option β) : ∀ (l : List α) (a : α), a ∈ l → f a = none → l.mapM f = none
  | [], _, h, _ => by cases h
  | x :: t, a, h, hf => by
    rcases List.mem_cons.mp h with rfl | h'
    · simp [List.mapM_cons, hf]
    · have := mapM_none_of_mem f t a h' hf
      simp [List.mapM_cons, this]


end NmVerif.KindRefs
