"""C01 — index <-> offset bijection. IMPL: index::compute_strides/offset/indices, ndindex_t, ndarray_t element access."""
import itertools
from runner import Case
from shapes import shapes, prod, fmt, all_idx, rand_shape

ID = 'C01'
LEVEL = 'proof'
RULE = ('exhaustive: every shape of rank 1..R with extents 1..E, every flat offset (strides, indices, ndindex) and every '
        'multi-index (offset, row- and column-major ndarray read/write); container kinds vec/std::array/static_vector; '
        'random shapes with prod near 2^31 / 2^40 at index level. non-trivial = shape has >= 2 axes with extent > 1')
EXHAUSTIVE = {'quick': True, 'thorough': True}
ANCHORS = {'NmVerif.strides': 'index::compute_strides', 'NmVerif.computeOffset': 'index::compute_offset',
           'NmVerif.computeIndices/ndindex': 'index::compute_indices, index::ndindex_t::operator[]',
           'NmVerif.NDA.get?/set': 'array::ndarray_t::operator() with row_major_offset_t / column_major_offset_t'}
MANIFEST = dict(
    text='Proof: 16 Lean theorems (round trip both ways, in-shape, suffix-product strides, enumeration = lexicographic list of all multi-indices without repetition, row/column-major get/set laws) for every rank and extent; tied to the C++ by an exhaustive small-scope + large-extent differential run of compute_strides/compute_offset/compute_indices/ndindex/ndarray_t access on every check.',
    note='Lean kernel + propext/Classical.choice/Quot.sound; model hand-written, fidelity rests on the correspondence run; unbounded Nat in the model, machine width covered by intermediates_le_prod and extents near 2^31/2^40; compile-time-constant and clipped argument kinds of compute_strides / compute_offset / compute_indices / product / ndindex run over a fixed table in a generated TU (harness/gen_c01_ct.py); the full kind matrix is C09.',
    technique='Lean 4 induction proofs over List Nat shapes + differential correspondence (exhaustive small scope)')
ASSUMPTIONS = ['size_t arithmetic does not wrap: Props.C01.intermediates_le_prod + large-extent cases below 2^40',
               'compile-time-constant and clipped index kinds are covered by C09 kind matrix, not here']


def harness_specs(tier):
    return [dict(name='h_c01', src='h_c01.cpp', flavour='fast'),
            dict(name='h_c01ct', src='h_c01ct.cpp', flavour='fast'),     # generated: harness/gen_c01_ct.py
            dict(name='h_c01s', src='h_c01s.cpp', flavour='fast')]      # user-chosen strides containers


CT_TABLE = [[2, 3, 4], [3, 2], [4], [2, 1, 3], [1], [3, 3], [2, 2, 2, 2], [4, 3]]     # = TABLE of harness/gen_c01_ct.py


def strides_py(s):
    return [prod(s[k + 1:]) for k in range(len(s))]


def offset_py(i, st):
    return sum(a * b for a, b in zip(i, st))


def indices_py(off, s):
    st = strides_py(s)
    return [(off // st[k]) % s[k] for k in range(len(s))]


def gen(tier, rng):
    R, E = (4, 3) if tier == 'quick' else (5, 4)
    kinds = ['vec', 'arr', 'sv']
    for s in shapes(R, E, min_rank=1):
        nt = sum(1 for e in s if e > 1) >= 2
        n = prod(s)
        st = strides_py(s)
        for k in kinds:
            yield Case('strides shape=%s kind=%s' % (fmt(s), k), 'h_c01', oracle='ok ' + fmt(st), nontrivial=nt, tags=['strides', 'kind=' + k, 'rank=%d' % len(s)])
        yield Case('product shape=%s' % fmt(s), 'h_c01', oracle='ok %d' % n, nontrivial=nt, tags=['product'])
        step = 1 if (tier == 'quick' or n <= 64) else 7
        for off in list(range(0, n, step)) + [n, n + 1, 2 * n + 1]:
            # offsets >= n: no spec (property only demands in-shape result) -> compare with model only
            idx = indices_py(off, s)
            k = kinds[off % 3]
            yield Case('indices off=%d shape=%s kind=%s' % (off, fmt(s), k), 'h_c01', oracle='ok ' + fmt(idx), nontrivial=nt, tags=['indices', 'oob-offset' if off >= n else 'offset<n'])
            if off < n:
                yield Case('ndindex off=%d shape=%s' % (off, fmt(s)), 'h_c01', oracle='ok %s size=%d' % (fmt(idx), n), model=False, nontrivial=nt, tags=['ndindex'])
        for idx in all_idx(s)[::step]:
            off = offset_py(idx, st)
            yield Case('offset idx=%s strides=%s kind=%s' % (fmt(idx), fmt(st), kinds[off % 3]), 'h_c01', oracle='ok %d' % off, nontrivial=nt, tags=['offset'])
            # logical element (data[k]=k row-major  <=> value at idx is the row-major offset);
            # column-major buffer position = offset of reversed index in reversed shape
            coff = offset_py(idx[::-1], strides_py(s[::-1]))
            yield Case('nd_get shape=%s layout=row idx=%s' % (fmt(s), fmt(idx)), 'h_c01', oracle='ok %d' % off, nontrivial=nt, tags=['nd_get', 'row'])
            yield Case('nd_get shape=%s layout=col idx=%s' % (fmt(s), fmt(idx)), 'h_c01', oracle='ok %d' % coff, nontrivial=nt, tags=['nd_get', 'col'])
            yield Case('nd_set shape=%s layout=row idx=%s' % (fmt(s), fmt(idx)), 'h_c01', oracle='ok %d' % off, nontrivial=nt, tags=['nd_set', 'row'])
            yield Case('nd_set shape=%s layout=col idx=%s' % (fmt(s), fmt(idx)), 'h_c01', oracle='ok %d' % coff, nontrivial=nt, tags=['nd_set', 'col'])
    # compile-time-constant / clipped argument kinds (fixed table of harness/gen_c01_ct.py): the all-constant branches of
    # the index functions compute their answer in the TYPE (`ct<...>` tuples) through code of their own (seeded C01-2)
    for s in CT_TABLE:
        n = prod(s); st = strides_py(s); nt = sum(1 for e in s if e > 1) >= 2
        for k in ('ct', 'cl'):
            yield Case('strides shape=%s kind=%s' % (fmt(s), k), 'h_c01ct', oracle='ok ' + fmt(st), nontrivial=nt, tags=['strides', 'kind=' + k])
        yield Case('product shape=%s kind=ct' % fmt(s), 'h_c01ct', oracle='ok %d' % n, nontrivial=nt, tags=['product', 'kind=ct'])
        for off in list(range(n)) + [n, n + 1]:
            idx = indices_py(off, s)
            for k in ('ct', 'ctshape', 'ctoff', 'cl'):
                yield Case('indices off=%d shape=%s kind=%s' % (off, fmt(s), k), 'h_c01ct', oracle='ok ' + fmt(idx), nontrivial=nt,
                           tags=['indices', 'kind=' + k, 'oob-offset' if off >= n else 'offset<n'])
            if off < n:
                yield Case('ndindex off=%d shape=%s kind=ct' % (off, fmt(s)), 'h_c01ct', oracle='ok ' + fmt(idx), model=False, nontrivial=nt, tags=['ndindex', 'kind=ct'])
        for idx in all_idx(s):
            off = offset_py(idx, st)
            for k in ('ct', 'ctidx'):
                yield Case('offset idx=%s strides=%s kind=%s' % (fmt(idx), fmt(st), k), 'h_c01ct', oracle='ok %d' % off, nontrivial=nt, tags=['offset', 'kind=' + k])
    # ndarray_t with a user-chosen strides container whose type differs from what compute_strides deduces for the shape
    # (base_ndarray_t::compute_strides converts element by element; seeded change C01-3), both layouts: strides() and the
    # buffer position of every element.  (strides() of a column-major array reports the row-major strides: C20 finding.)
    for s in [x for x in shapes(3, 3 if tier == 'quick' else 4, min_rank=1)]:
        n = prod(s); st = strides_py(s); nt = sum(1 for e in s if e > 1) >= 2
        fst = [prod(s[:k]) for k in range(len(s))]
        for lay in ('row', 'col'):
            pos = [offset_py(i, st if lay == 'row' else fst) for i in all_idx(s)]
            for k in ('a_al', 'a_ai', 'a_vu', 'v_vl', 'v_vi'):
                yield Case('nd_strides kind=%s layout=%s shape=%s' % (k, lay, fmt(s)), 'h_c01s', oracle='ok strides=%s pos=%s' % (fmt(st), fmt(pos)), model=False,
                           nontrivial=nt, tags=['nd_strides', 'kind=' + k, lay])
    # large extents, index math only
    nlarge = 400 if tier == 'quick' else 5000
    for t in range(nlarge):
        target = 2 ** 31 if t % 2 == 0 else 2 ** 40
        r = rng.randint(1, 6)
        s = []
        rem = target
        for k in range(r):
            e = max(1, int(rem ** (1.0 / (r - k)) * rng.uniform(0.5, 1.5))) if k < r - 1 else max(1, rem)
            e = min(e, max(1, rem))
            s.append(e)
            rem = max(1, rem // e)
        rng.shuffle(s)
        n = prod(s)
        if n >= 2 ** 62:
            continue
        st = strides_py(s)
        off = rng.randrange(n)
        idx = indices_py(off, s)
        tags = ['large', 'near2^31' if t % 2 == 0 else 'near2^40']
        yield Case('strides shape=%s kind=vec' % fmt(s), 'h_c01', oracle='ok ' + fmt(st), tags=tags)
        yield Case('indices off=%d shape=%s kind=vec' % (off, fmt(s)), 'h_c01', oracle='ok ' + fmt(idx), tags=tags)
        yield Case('offset idx=%s strides=%s kind=vec' % (fmt(idx), fmt(st)), 'h_c01', oracle='ok %d' % off, tags=tags)
