"""C09 — results are independent of container kind and of compile- vs run-time knowledge.

IMPL here is not one harness but a generated *kind matrix* (harness/gen_kinds_c09.py): for every
operation x request x assignment of container kinds to the arguments one C++ `case` calling the real
nmtools function; four builds (STL / NMTOOLS_DISABLE_STL x g++ / clang++-14).  Every case of a request
must print the same normalised answer, and that answer must be the single reference answer (Lean driver
op + the NumPy oracle below).  Which (build, op, kind signature) combinations compile is pinned in
lib/kinds_supported_c09.json (python harness/gen_kinds_c09.py --pin); a pinned combination that stops
compiling is a violation (no failing input, compiler error in the replay).
"""
import os, sys, json, time, random, itertools, hashlib
from concurrent.futures import ThreadPoolExecutor
import numpy as np
import runner
from runner import Case

sys.path.insert(0, os.path.join(runner.ROOT, 'harness'))
import gen_kinds_c09 as G

ID = 'C09'
LEVEL = 'translation_validation'
RULE = ('programs = generated C++ cases, one per (operation, request, kind assignment, mode, build); requests: fixed 40-request sample '
        '(quick) / ~400 seeded requests (thorough) over the index functions of C01-C08 and a handful of views/evals; kind assignments: '
        'every kind on the diagonal (all arguments in the same kind) plus seeded mixed assignments (quick), every pinned-supported kind '
        'signature at least once (thorough); builds stl-gcc, stl-clang, nostl-gcc, nostl-clang; constexpr evaluation where every argument '
        'kind is a literal type. A case is non-trivial when the request has >= 2 axes or is a refusal (nothing expected); distinct = '
        'distinct (request, kind signature, build)')
EXHAUSTIVE = {'quick': False, 'thorough': False}
ANCHORS = {'Driver.C09 k9_* reference ops (NumPy semantics, one function per operation)':
           'nmtools::index::* under every meta::resolve_optype branch (constant / clipped / fixed / bounded / dynamic), array kinds of utility/cast.hpp'}
MANIFEST = dict(
    text='Translation validation: every operation is instantiated under the supported combinations of argument container kinds (constant tuple, clipped, std::array, raw array, static_vector, vector, run-time tuple, fixed/hybrid 1-d ndarray, utl::array/vector, boost; 20 array kinds x 2 layouts), in STL and NMTOOLS_DISABLE_STL builds with g++ and clang++, including constexpr evaluation, on a common request list; the normalised (has_value, list) of all of them is compared with one reference answer (Lean reference function + NumPy). Proof-level Lean lemmas for the container layer: a bounded vector refines a list while no capacity event occurs, a clipped integer is the identity inside its range and clamps outside, and the bounded / clipped result containers chosen by the metafunctions of compute_strides / shape_transpose / broadcast_shape never overflow or clamp.',
    note='The universally quantified part over configurations is finite and enumerated (pinned list of supported signatures); over input values it is sampled. That the constant-index branch computes the same function (it calls the same constexpr function on to_value_v) is code structure validated by the matrix, not a theorem.',
    technique='generated kind-matrix differential run against one Lean/NumPy reference + Lean 4 container refinement lemmas')
ASSUMPTIONS = ['a kind signature that does not compile in the unchanged tree is an unsupported combination, not a violation (pinned in lib/kinds_supported_c09.json)',
               'a failure type returned for compile-time-constant arguments (meta::is_fail_v) counts as the refusal `nothing`',
               'input values are sampled; extents are small (<= 9 per axis for constant kinds)']
PARTIAL = []
KNOWN_PREDICATES = {}

MAX_JOBS = min(6, int(os.environ.get('VERIF_JOBS', '6')))
CASES_PER_TU = 220


def fmt(l):
    l = list(l)
    return '[]' if not l else ','.join(str(int(x)) for x in l)


def canon(a):
    return 'nothing' if a == 'fail-type' else a


def same(a, b):
    return canon(a) == canon(b)


# ------------------------------------------------------------------------------------------------
# reference semantics (NumPy) and request generators, one entry per operation
# ------------------------------------------------------------------------------------------------
def rshape(rng, rmin=1, rmax=4, emax=5, emin=1):
    return [rng.randint(emin, emax) for _ in range(rng.randint(rmin, rmax))]


def c_strides(s):
    return [int(x) for x in np.empty(s, dtype=np.int8).strides]


class Ref:
    """reference of one op: oracle(vals) -> answer string, mreq(vals) -> Lean driver request, gen(rng) -> vals"""
    def __init__(self, oracle, mreq, gen, fixed=()):
        self.oracle = oracle; self.mreq = mreq; self.gen = gen; self.fixed = list(fixed)


REFS = {}

REFS['compute_strides'] = Ref(
    lambda v: 'ok ' + fmt(c_strides(v[0])),
    lambda v: 'strides shape=%s' % fmt(v[0]),
    lambda rng: [rshape(rng, 1, 5)],
    fixed=[[[2, 3, 4]], [[5]], [[3, 1, 2, 2]]])
REFS['product'] = Ref(
    lambda v: 'ok %d' % int(np.prod(np.array(v[0], dtype=np.int64))),
    lambda v: 'product shape=%s' % fmt(v[0]),
    lambda rng: [rshape(rng, 1, 5)],
    fixed=[[[2, 3, 4]], [[7]]])


def _gen_offset(rng):
    s = rshape(rng, 1, 4)
    return [[rng.randrange(e) for e in s], c_strides(s)]


REFS['compute_offset'] = Ref(
    lambda v: 'ok %d' % int(np.dot(np.array(v[0], dtype=np.int64), np.array(v[1], dtype=np.int64))),
    lambda v: 'offset idx=%s strides=%s' % (fmt(v[0]), fmt(v[1])),
    _gen_offset,
    fixed=[[[1, 2, 3], [12, 4, 1]], [[0, 1], [3, 1]]])


def _gen_indices(rng):
    s = rshape(rng, 1, 4)
    return [rng.randrange(int(np.prod(s))), s]


REFS['compute_indices'] = Ref(
    lambda v: 'ok ' + fmt(np.unravel_index(v[0], v[1])),
    lambda v: 'indices off=%d shape=%s' % (v[0], fmt(v[1])),
    _gen_indices,
    fixed=[[23, [2, 3, 4]], [4, [3, 2]]])


# ------------------------------------------------------------------------------------------------
# the plan: requests x kind assignments x builds -> TUs
# ------------------------------------------------------------------------------------------------
_plan_cache = {}


def seed_now():
    return int(os.environ.get('VERIF_SEED', '0'))


def requests(tier, seed):
    """[(op, vals, rid)]"""
    out = []
    if tier == 'quick':
        rng = random.Random(1234)      # the quick request sample is fixed
        for op, ref in REFS.items():
            for v in ref.fixed:
                out.append((op, v))
            out.append((op, ref.gen(rng)))
    else:
        rng = random.Random(seed * 7919 + 17)
        per = max(4, 400 // len(REFS))
        for op, ref in REFS.items():
            for v in ref.fixed:
                out.append((op, v))
            for _ in range(per):
                out.append((op, ref.gen(rng)))
    seen = set(); res = []
    for op, v in out:
        k = (op, json.dumps(v))
        if k not in seen:
            seen.add(k); res.append((op, v, len(res)))
    return res


def supported(pins, build, op):
    return set(pins.get(build, {}).get(op, {}).get('supported', []))


def assignments(op, vals, build, rng, tier, pins, todo_sigs):
    """kind assignments (kinds, mode) of one request in one build"""
    sup = supported(pins, build, op)
    allk = G.all_assignments(op, vals, build)
    o = G.OPS[op]
    chosen = []
    # diagonal: every list kind used for all list arguments at once; scalars cycle
    per = [G.kinds_for(vt, build, v) for (an, vt), v in zip(o.args, vals)]
    width = max(len(p) for p in per)
    for j in range(width):
        chosen.append(tuple(p[j % len(p)] for p in per))
    nmix = 6 if tier == 'quick' else 10
    if len(allk) > len(chosen):
        chosen += rng.sample(allk, min(nmix, len(allk)))
    out = []
    seen = set()
    for k in chosen:
        for mode in ('rt', 'cx'):
            if mode == 'cx' and not G.cx_ok(op, vals, k):
                continue
            s = G.sig(op, k, mode)
            if s in sup and (k, mode) not in seen:
                seen.add((k, mode)); out.append((k, mode))
    if tier != 'quick':
        # cover every pinned signature at least once over the run
        pend = todo_sigs.setdefault((build, op), sorted(sup))
        take = []
        for s in list(pend):
            ks, mode = parse_sig(s)
            if ks in allk and (mode == 'rt' or G.cx_ok(op, vals, ks)):
                take.append((ks, mode)); pend.remove(s)
                if len(take) >= 40:
                    break
        for km in take:
            if km not in seen:
                seen.add(km); out.append(km)
    return out


def parse_sig(s):
    mode = 'rt'
    if s.endswith('|cx'):
        mode = 'cx'; s = s[:-3]
    return tuple(p.split(':', 1)[1] for p in s.split(',')), mode


def plan(tier):
    seed = seed_now()
    key = (tier, seed)
    if key in _plan_cache:
        return _plan_cache[key]
    pins = G.load_pins()
    rng = random.Random(seed * 104729 + 5)
    reqs = requests(tier, seed)
    tus = {}     # name -> (build, [KCase])
    items = []   # (KCase, build, expected, mreq, tags, harness)
    todo = {}
    for build in G.BUILDS:
        cases = []
        for op, vals, rid in reqs:
            for kinds, mode in assignments(op, vals, build, rng, tier, pins, todo):
                cases.append(G.KCase(op, vals, kinds, mode, salt=rid % 6, rid=rid))
        for j in range(0, len(cases), CASES_PER_TU):
            name = 'k9_%s_%s_%02d' % (tier[0], build, j // CASES_PER_TU)
            tus[name] = (build, cases[j:j + CASES_PER_TU])
    _plan_cache[key] = (reqs, tus)
    return _plan_cache[key]


_build_notes = {}


def harness_specs(tier):
    reqs, tus = plan(tier)
    specs = []
    for name, (build, cases) in tus.items():
        src = G.write_tu(name, cases, build)
        b = G.BUILDS[build]
        specs.append(dict(name=name, src=src, flavour='fast', extra=tuple(b['extra']), compiler=b['compiler']))
    # build here with a bounded number of jobs (the runner's own pool is wider); the runner then finds them cached
    runner.include_tree_hash()
    with ThreadPoolExecutor(max_workers=MAX_JOBS) as ex:
        futs = [ex.submit(runner.harness_build, s['name'], s['src'], s['flavour'], s['extra'], s['compiler']) for s in specs]
        for f in futs:
            f.result()
    return specs


def gen(tier, rng):
    reqs, tus = plan(tier)
    for name, (build, cases) in tus.items():
        for c in cases:
            ref = REFS[c.op]
            exp = ref.oracle(c.vals)
            nt = exp == 'nothing' or any(isinstance(v, (list, tuple)) and len(v) >= 2 for v in c.vals)
            tags = ['op=' + c.op, 'build=' + build, 'mode=' + c.mode] + ['kind=' + k for k in sorted(set(c.kinds))] + \
                   (['expect-nothing'] if exp == 'nothing' else [])
            yield Case('k9 id=%s build=%s %s' % (c.key, build, c.text()), name, dom=True, oracle=exp, mreq=ref.mreq(c.vals),
                       nontrivial=nt, tags=tags, cmp=same)


def post(cases, tier):
    """cross-kind agreement per request (independent of the reference): every answer of one request must be the same"""
    out = []
    groups = {}
    for c in cases:
        if c.impl in (None, 'no-harness'):
            continue
        rk = c.req.split(' op=', 1)[1].split(' kinds=', 1)[0]
        groups.setdefault(rk, []).append(c)
    bad = []
    for rk, cs in groups.items():
        answers = {}
        for c in cs:
            answers.setdefault(canon(c.impl), []).append(c)
        if len(answers) > 1:
            bad.append((rk, answers))
    _stats['groups'] = len(groups)
    _stats['disagreeing_groups'] = len(bad)
    return out


_stats = {}


def coverage_extra(cases, tier):
    progs = len({c.req for c in cases})
    sigs = {}
    for c in cases:
        parts = dict(p.split('=', 1) for p in c.req.split(' ')[1:] if '=' in p)
        sigs.setdefault((parts.get('build'), parts.get('op')), set()).add((parts.get('kinds'), parts.get('mode')))
    pins = G.load_pins()
    n_sup = sum(len(v.get('supported', [])) for b in pins.values() for v in b.values())
    n_unsup = sum(len(v.get('unsupported', {})) for b in pins.values() for v in b.values())
    samples = [{'program': c.req, 'harness': c.harness, 'impl': c.impl, 'reference_lean': c.mans, 'reference_numpy': c.oracle}
               for c in (cases[:3] + cases[len(cases) // 2:len(cases) // 2 + 3] + cases[-2:])]
    return {
        'programs': progs,
        'disagreements_checked': sum(1 for c in cases if c.impl not in (None, 'no-harness')),
        'request_groups_cross_checked': _stats.get('groups', 0),
        'request_groups_disagreeing': _stats.get('disagreeing_groups', 0),
        'translation_units': len({c.harness for c in cases}),
        'kind_signatures_exercised': sum(len(v) for v in sigs.values()),
        'kind_signatures_pinned_supported': n_sup,
        'kind_signatures_pinned_unsupported': n_unsup,
        'builds': sorted(G.BUILDS),
        'samples': samples,
    }
