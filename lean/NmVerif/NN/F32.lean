import NmVerif.Arr
import NmVerif.Proto
/-
  NN/F32 — driver-side helpers to run the polymorphic NN models at the element type `Float32` (the element type of the
  harness): parsing of decimal data, canonical printing.  A float is printed as `b<decimal IEEE-754 bit pattern>`
  (exact; `lib/props/c17.py` decodes it) unless it is an integer of small magnitude, which is printed as the integer —
  the same text the harness prints for it.
  Nothing here is used in a theorem; the theorems are about the polymorphic definitions this file instantiates.
-/
namespace NmVerif.NN.F32
open NmVerif NmVerif.Proto

/-- `[-]digits[.digits][e[-|+]digits]` → Float32, through a double exactly as the harness does (`(float) std::stod(t)`) -/
def parseReal (s : String) : Option Float32 := do
  let (neg, body) := if s.startsWith "-" then (true, (s.drop 1).toString) else (false, s)
  let (mant, ex) ← match body.splitOn "e" with
    | [m] => some (m, (0 : Int))
    | [m, e] => (if e.startsWith "+" then (e.drop 1).toString.toInt? else e.toInt?).map (fun v => (m, v))
    | _ => none
  let (ip, fp) ← match mant.splitOn "." with
    | [i] => some (i, "")
    | [i, f] => some (i, f)
    | _ => none
  if ip.isEmpty && fp.isEmpty then none
  let digits := ip ++ fp
  if !digits.all Char.isDigit then none
  let m ← digits.toNat?
  let e : Int := ex - fp.length
  let d : Float := if e < 0 then Float.ofScientific m true e.natAbs else Float.ofScientific m false e.natAbs
  let d := if neg then -d else d
  pure d.toFloat32

def parseReals (s : String) : Option (List Float32) :=
  if s == "[]" || s == "" then some [] else (s.splitOn ",").mapM parseReal

/-- canonical text of one value -/
def fmt (x : Float32) : String :=
  if x.isNaN then "nan"
  else if x.isInf then (if x > 0 then "inf" else "-inf")
  else if x == x.floor && x.abs < 16777216 then toString x.toInt64
  else s!"b{x.toBits}"

def fmtList (l : List Float32) : String := if l.isEmpty then "[]" else ",".intercalate (l.map fmt)

/-- array of the request: shape `<key>s`, decimal data `<key>` (row-major) -/
def mkArr (a : Args) (key : String) : Option (Arr Float32) := do
  let shape ← a.nats (key ++ "s")
  let data ← (a.get? key).bind parseReals
  if data.length ≠ prod shape then none
  let arr := data.toArray
  pure ⟨shape, fun i => arr.getD (computeOffset i (strides shape)) 0⟩

/-- answer line of an evaluated view whose elements may be undefined -/
def fmtView (v : Option (Arr (Option Float32))) : String :=
  match v with
  | none => "nothing"
  | some r =>
    match (allIdx r.shape).mapM r.get with
    | some vals => s!"ok shape={fmtNats r.shape} data={fmtList vals}"
    | none => "ub:element"

end NmVerif.NN.F32
