// C08 harness: mean / var / stddev with an EXPLICIT result dtype (the None-dtype forms are in h_c08f.cpp).
//   request: vardt op=<mean|var|stddev> api=<view|array> et=<i32|f32> dtype=f64 shape= axis=<None|list> ax=<int|vec>
//            keepdims=<0|1> [ddof=] data=<ints>
// the requested dtype is the type of EVERY intermediate (the mean that is subtracted, the squares, the sum): with int32 or
// float data near 2^24 a float32 intermediate is visibly inexact where dtype=f64 is asked for.  Results with 17 digits.
#include "nmtools/array/array/mean.hpp"
#include "nmtools/array/array/var.hpp"
#include "nmtools/array/array/stddev.hpp"
#include "nmtools/array/ndarray.hpp"
#include "c08_common.hpp"
#include <vector>

namespace nm = nmtools; namespace na = nmtools::array; namespace view = nmtools::view;
using namespace proto;
using iarr_t = na::ndarray_t<std::vector<int>, std::vector<size_t>>;
using farr_t = na::ndarray_t<std::vector<float>, std::vector<size_t>>;

template <typename array_t, typename dtype_t> static std::string run(const std::string& op, const array_t& arr, const Args& a, dtype_t dtype) {
    bool keep = c08::keepdims_of(a); bool eager = get(a, "api") == "array";
    size_t ddof = has(a, "ddof") ? (size_t)integer(a, "ddof") : 0;
    return c08::with_axis(a, [&](const auto& axis) {
        if (op == "mean") {
            if (!eager) return c08::emit(view::mean(arr, axis, dtype, keep));
            return keep ? c08::emit(na::mean(arr, axis, dtype, nm::True)) : c08::emit(na::mean(arr, axis, dtype, nm::False));
        }
        if (op == "stddev") {
            if (!eager) return c08::emit(view::stddev(arr, axis, dtype, ddof, keep));
            return keep ? c08::emit(na::stddev(arr, axis, dtype, ddof, nm::True)) : c08::emit(na::stddev(arr, axis, dtype, ddof, nm::False));
        }
        if (!eager) return c08::emit(view::var(arr, axis, dtype, ddof, keep));
        return keep ? c08::emit(na::var(arr, axis, dtype, ddof, nm::True)) : c08::emit(na::var(arr, axis, dtype, ddof, nm::False));
    });
}
template <typename array_t> static std::string with_dtype(const std::string& op, const Args& a) {
    auto arr = c08::make_array<array_t>(a);
    std::string dt = get(a, "dtype");
    if (dt == "f64") return run(op, arr, a, nm::float64);
    throw bad_args("dtype");
}
std::string handle(const std::string& op_, const Args& a) {
    if (op_ != "vardt") return "unknown-op";
    std::string op = get(a, "op"), et = get(a, "et");
    if (op != "mean" && op != "var" && op != "stddev") throw bad_args("op");
    if (et == "i32") return with_dtype<iarr_t>(op, a);
    if (et == "f32") return with_dtype<farr_t>(op, a);
    throw bad_args("et");
}
