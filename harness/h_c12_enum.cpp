// C12 harness: the pure SIMD index enumerators of eval/simd/index/{ufunc,matmul}.hpp, tuple by tuple.
//   enum_binary2d lanes=L out=R,C lhs=r,c rhs=r,c
//   enum_reduce   lanes=L kind=h|v out=<keepdims-shaped out shape> inp=<shape> axis=k
//   enum_outer    lanes=L lhs=<shape> rhs=<shape>
//   enum_matmul   lanes=L lhs=M,K rhs=K,N
// answer: ok n=<enumerator.size()> t=<tag,off,tag,off[,tag,off];...>
#include "nmtools/array/eval/simd/index.hpp"
#include "nmtools/array/eval/simd/index/matmul.hpp"
#include "nmtools/array/index/product.hpp"
#include "nmtools/utility/at.hpp"
#include "proto.hpp"
#include <vector>

namespace nm = nmtools; namespace ix = nmtools::index; namespace meta = nmtools::meta;
using namespace proto;

template <typename P> static void put(std::ostringstream& o, const P& p, bool first) {
    if (!first) o << ',';
    o << (long long)(int)nm::get<0>(p) << ',' << (long long)nm::get<1>(p);
}

template <size_t L> static std::string run(const std::string& op, const Args& a) {
    auto n_elem_pack = meta::as_type<L>{};
    std::ostringstream o;
    if (op=="enum_binary2d") {
        auto out = nats(a,"out"); auto lhs = nats(a,"lhs"); auto rhs = nats(a,"rhs");
        auto e = ix::binary_2d_simd_enumerator(n_elem_pack, out, lhs, rhs);
        size_t n = e.size();
        o << "ok n=" << n << " t=";
        if (n==0) o << "[]";
        for (size_t i=0;i<n;i++) {
            auto t = e[i];
            if (i) o << ';';
            put(o, nm::get<0>(t), true); put(o, nm::get<1>(t), false); put(o, nm::get<2>(t), false);
        }
        return o.str();
    }
    if (op=="enum_reduce") {
        auto out = nats(a,"out"); auto inp = nats(a,"inp"); size_t axis = (size_t)integer(a,"axis");
        auto emit = [&](const auto& e) {
            size_t n = e.size();
            o << "ok n=" << n << " t=";
            if (n==0) o << "[]";
            for (size_t i=0;i<n;i++) {
                auto t = e[i];
                if (i) o << ';';
                put(o, nm::get<0>(t), true); put(o, nm::get<1>(t), false);
            }
        };
        if (get(a,"kind")=="h") emit(ix::reduction_2d_enumerator(meta::as_type_v<ix::ReductionKind::HORIZONTAL>, n_elem_pack, out, inp, axis));
        else                    emit(ix::reduction_2d_enumerator(meta::as_type_v<ix::ReductionKind::VERTICAL>, n_elem_pack, out, inp, axis));
        return o.str();
    }
    if (op=="enum_outer") {
        auto lhs = nats(a,"lhs"); auto rhs = nats(a,"rhs");
        uvec out = lhs; out.insert(out.end(), rhs.begin(), rhs.end());
        auto e = ix::outer_simd_enumerator(n_elem_pack, out, lhs, rhs);
        size_t n = e.size();
        o << "ok n=" << n << " t=";
        if (n==0) o << "[]";
        for (size_t i=0;i<n;i++) {
            auto t = e[i];
            if (i) o << ';';
            put(o, nm::get<0>(t), true); put(o, nm::get<1>(t), false); put(o, nm::get<2>(t), false);
        }
        return o.str();
    }
    if (op=="enum_matmul") {
        auto lhs = nats(a,"lhs"); auto rhs = nats(a,"rhs");
        uvec out = {lhs.at(0), rhs.at(1)};
        auto e = ix::matmul_simd_enumerator(n_elem_pack, out, lhs, rhs);
        size_t n = e.size(); size_t inner = 0; bool first = true;
        std::ostringstream t;
        for (size_t i=0;i<n;i++) {
            auto [tag, off, in] = e[i];
            inner = in.size();
            for (size_t s=0;s<inner;s++) {
                auto r = in[s];
                if (!first) t << ';';
                first = false;
                put(t, nm::at(r,0), true); put(t, nm::at(r,1), false); put(t, nm::at(r,2), false);
            }
        }
        o << "ok n=" << n << " inner=" << inner << " t=" << (first ? std::string("[]") : t.str());
        return o.str();
    }
    return "unknown-op";
}

std::string handle(const std::string& op, const Args& a) {
    switch (integer(a,"lanes")) {
        case 2:  return run<2>(op,a);
        case 4:  return run<4>(op,a);
        case 8:  return run<8>(op,a);
        case 16: return run<16>(op,a);
        default: return "bad-args";
    }
}
