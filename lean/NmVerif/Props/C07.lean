import NmVerif.Index.Ufunc
import NmVerif.Lemmas.Broadcast
import NmVerif.Props.C06
/-
  C07 — Element-wise functions apply the scalar operation to broadcast operands.
  Only property statements (+ non-vacuity examples) live here.

  MODEL : NmVerif.ufunc / ufunc1 / ufunc2 / ufunc3 / outer (Index/Ufunc.lean) on top of the C06 broadcasting model.
  SPEC  : result shape = broadcast of the operand shapes (C06: NumPy rule); element `d` = `op` of the operands'
          elements at `specBroadcastIdx (shape operand) d` (NumPy element rule); `Nothing` iff incompatible;
          outer: shape `shape a ++ shape b`, element `(i ++ j) = op a[i] b[j]`.
  The scalar operation `op` and the element types are universally quantified parameters: the C++ result element type
  and the numeric value of `op` are checked by the harness (static_assert / reference expressions), not here.
-/
namespace NmVerif.Props.C07
open NmVerif NmVerif.Props.C06

/-! ### helpers -/

private theorem specBroadcastIdx_self (s : Shape) (d : Idx) (h : InShape d s) : specBroadcastIdx s d = d := by
  unfold specBroadcastIdx
  rw [h.length_eq, Nat.sub_self, List.drop_zero]
  induction s generalizing d with
  | nil => cases d <;> simp_all [InShape]
  | cons a t ih =>
    cases d with
    | nil => simp [InShape] at h
    | cons x xs =>
      simp only [InShape] at h
      simp only [List.zipWith_cons_cons, ih xs h.2]
      congr 1
      split <;> omega

private theorem compatible_single (s : Shape) : Compatible [s] := by
  intro k a ha b hb
  simp only [List.mem_cons, List.not_mem_nil, or_false] at ha hb
  subst ha; subst hb
  exact Or.inl rfl

private theorem reads_eq {α : Type} (d : Idx) (as : List (Arr α)) (vs : List IxView) (hl : vs.length = as.length)
    (h : ∀ p ∈ (as.map (·.shape)).zip vs, p.2.map d = some (specBroadcastIdx p.1 d)) :
    (as.zip vs).mapM (fun p => p.2.read p.1 d) = some (as.map (fun a => a.get (specBroadcastIdx a.shape d))) := by
  induction as generalizing vs with
  | nil => cases vs <;> simp_all
  | cons a t ih =>
    cases vs with
    | nil => simp at hl
    | cons v vt =>
      have h0 : v.map d = some (specBroadcastIdx a.shape d) := h (a.shape, v) (by simp)
      have ht := ih vt (by simpa using hl) (fun p hp => h p (by simp [hp]))
      rw [List.zip_cons_cons, List.mapM_cons, ht]
      simp [IxView.read, h0]

/-! ### n-ary `view::ufunc` (operands of one element type, any arity) -/

/-- the result has the broadcast shape of the operand shapes -/
theorem ufunc_shape_eq_broadcast {α β : Type} (op : List α → β) (as : List (Arr α)) (u : Arr (Option β))
    (h : ufunc op as = some u) : broadcastShape (as.map (·.shape)) = some u.shape := by
  match as, h with
  | [a], h =>
    simp only [ufunc, Option.some.injEq] at h
    subst h
    simp [broadcastShape, broadcastFold]
  | a :: b :: rest, h =>
    simp only [ufunc, Option.bind_eq_some_iff, Option.map_eq_some_iff] at h
    obtain ⟨vs, hvs, v0, hv0, rfl⟩ := h
    obtain ⟨r, hr, hl, hz⟩ := broadcastArrays_elem _ vs hvs
    cases vs with
    | nil => simp at hv0
    | cons v vt =>
      simp only [List.head?_cons, Option.some.injEq] at hv0
      subst hv0
      have := (hz (a.shape, v) (by simp)).2.1
      simp only at this ⊢
      rw [this]; exact hr

/-- `Nothing` exactly when the operand shapes are not broadcast-compatible -/
theorem ufunc_none_iff_incompatible {α β : Type} (op : List α → β) (as : List (Arr α)) (hne : as ≠ [])
    (hp : AllPos (as.map (·.shape))) : ufunc op as = none ↔ ¬ Compatible (as.map (·.shape)) := by
  match as, hne, hp with
  | [a], _, _ =>
    simp only [ufunc, List.map_cons, List.map_nil]
    constructor
    · intro h; cases h
    · intro h; exact absurd (compatible_single a.shape) h
  | a :: b :: rest, _, hp =>
    rw [← broadcastArrays_isSome_iff _ (by simp) hp]
    simp only [ufunc]
    cases hvs : broadcastArraysViews ((a :: b :: rest).map (·.shape)) with
    | none => simp
    | some vs =>
      obtain ⟨r, hr, hl, hz⟩ := broadcastArrays_elem _ vs hvs
      cases vs with
      | nil => simp at hl
      | cons v vt => simp

/-- **element rule**: element `d` of the result is `op` applied to the operands' elements at `d` under broadcasting
    (prepended axes dropped, stretched axes read at 0), for every arity -/
theorem ufunc_elem {α β : Type} (op : List α → β) (as : List (Arr α)) (u : Arr (Option β))
    (h : ufunc op as = some u) (d : Idx) (hd : InShape d u.shape) :
    u.get d = some (op (as.map (fun a => a.get (specBroadcastIdx a.shape d)))) := by
  match as, h with
  | [a], h =>
    simp only [ufunc, Option.some.injEq] at h
    subst h
    simp only at hd ⊢
    rw [List.map_cons, List.map_nil, specBroadcastIdx_self a.shape d hd]
  | a :: b :: rest, h =>
    simp only [ufunc, Option.bind_eq_some_iff, Option.map_eq_some_iff] at h
    obtain ⟨vs, hvs, v0, hv0, rfl⟩ := h
    obtain ⟨r, hr, hl, hz⟩ := broadcastArrays_elem _ vs hvs
    have hv0r : v0.dst = r := by
      cases vs with
      | nil => simp at hv0
      | cons v vt =>
        simp only [List.head?_cons, Option.some.injEq] at hv0
        subst hv0
        exact (hz (a.shape, v) (by simp)).2.1
    simp only at hd ⊢
    rw [hv0r] at hd
    have := reads_eq d (a :: b :: rest) vs (by simpa using hl) (fun p hp => (hz p hp).2.2 d hd)
    rw [this]
    rfl

/-- every operand is read inside its own shape (feeds C02) -/
theorem ufunc_reads_inBounds {α β : Type} (op : List α → β) (as : List (Arr α)) (u : Arr (Option β))
    (h : ufunc op as = some u) (d : Idx) (hd : InShape d u.shape) :
    ∀ a ∈ as, InShape (specBroadcastIdx a.shape d) a.shape := by
  match as, h with
  | [a], h =>
    simp only [ufunc, Option.some.injEq] at h
    subst h
    intro x hx
    simp only [List.mem_cons, List.not_mem_nil, or_false] at hx
    subst hx
    simp only at hd
    rw [specBroadcastIdx_self _ d hd]; exact hd
  | a :: b :: rest, h =>
    intro x hx
    have hs := ufunc_shape_eq_broadcast op _ u h
    have hne : (a :: b :: rest).map (·.shape) ≠ [] := by simp
    -- the operand can be broadcast to the result shape, and the view built for it is in bounds
    simp only [ufunc, Option.bind_eq_some_iff, Option.map_eq_some_iff] at h
    obtain ⟨vs, hvs, v0, hv0, rfl⟩ := h
    unfold broadcastArraysViews at hvs
    simp only [Option.bind_eq_some_iff] at hvs
    obtain ⟨r, hr, hm⟩ := hvs
    rw [hr] at hs
    simp only [Option.some.injEq] at hs
    have hxs : x.shape ∈ (a :: b :: rest).map (·.shape) := List.mem_map.2 ⟨x, hx, rfl⟩
    -- every member of a successful mapM has a value
    have key : ∀ (l : List Shape) (ws : List IxView), l.mapM (fun s => broadcastToView s r) = some ws →
        ∀ s ∈ l, ∃ w, broadcastToView s r = some w := by
      intro l
      induction l with
      | nil => intro ws _ s hs; simp at hs
      | cons y t ih =>
        intro ws hws s hs
        simp only [List.mapM_cons, Option.bind_eq_bind, Option.bind_eq_some_iff, Option.pure_def, Option.some.injEq] at hws
        obtain ⟨w, hw, wt, hwt, _⟩ := hws
        simp only [List.mem_cons] at hs
        rcases hs with rfl | hs
        · exact ⟨w, hw⟩
        · exact ih wt hwt s hs
    obtain ⟨w, hw⟩ := key _ vs hm x.shape hxs
    have hb := broadcastTo_inBounds x.shape r w hw
    obtain ⟨h1, h2⟩ := broadcastTo_shape x.shape r w hw
    simp only at hd
    rw [← hs] at hd
    have := hb d (by rw [h2]; exact hd) _ (broadcastTo_index_eq_spec x.shape r w hw d hd)
    rw [h1] at this
    exact this

/-- operands that are themselves views: the result depends on the operands only through shape and in-shape
    elements (so an operand may be replaced by any array/view with the same denotation) -/
theorem ufunc_congr {α β : Type} (op : List α → β) (as bs : List (Arr α)) (u w : Arr (Option β))
    (hl : as.length = bs.length) (he : ∀ p ∈ as.zip bs, p.1.Equiv p.2)
    (hu : ufunc op as = some u) (hw : ufunc op bs = some w) :
    u.shape = w.shape ∧ ∀ d, InShape d u.shape → u.get d = w.get d := by
  have hshape : as.map (·.shape) = bs.map (·.shape) := by
    clear hu hw
    induction as generalizing bs with
    | nil => cases bs <;> simp_all
    | cons a t ih =>
      cases bs with
      | nil => simp at hl
      | cons b tb =>
        have h0 := he (a, b) (by simp)
        simp only [List.map_cons]
        rw [h0.1, ih tb (by simpa using hl) (fun p hp => he p (by simp [hp]))]
  have hs1 := ufunc_shape_eq_broadcast op as u hu
  have hs2 := ufunc_shape_eq_broadcast op bs w hw
  rw [hshape, hs2] at hs1
  have hsh : u.shape = w.shape := by simpa using hs1.symm
  refine ⟨hsh, fun d hd => ?_⟩
  rw [ufunc_elem op as u hu d hd, ufunc_elem op bs w hw d (hsh ▸ hd)]
  congr 2
  have hin := ufunc_reads_inBounds op as u hu d hd
  clear hu hw hs1 hs2 hshape
  induction as generalizing bs with
  | nil => cases bs <;> simp_all
  | cons a t ih =>
    cases bs with
    | nil => simp at hl
    | cons b tb =>
      have h0 := he (a, b) (by simp)
      simp only [List.map_cons]
      rw [ih tb (by simpa using hl) (fun p hp => he p (by simp [hp])) (fun x hx => hin x (by simp [hx]))]
      congr 1
      rw [← h0.1]
      exact h0.2 _ (hin a (by simp))

/-! ### typed arities 1, 2, 3 (operands of different element types) -/

/-- unary: shape of the operand, element `d` = `op a[d]`, never `Nothing` -/
theorem ufunc1_spec {α β : Type} (op : α → β) (a : Arr α) :
    (ufunc1 op a).shape = a.shape ∧ ∀ d, (ufunc1 op a).get d = op (a.get d) := ⟨rfl, fun _ => rfl⟩

private theorem bav2 {sa sb : Shape} {vs : List IxView} (h : broadcastArraysViews [sa, sb] = some vs) :
    ∃ r va vb, vs = [va, vb] ∧ broadcastShape [sa, sb] = some r ∧ va.dst = r ∧
      (∀ d, InShape d r → va.map d = some (specBroadcastIdx sa d)) ∧
      (∀ d, InShape d r → vb.map d = some (specBroadcastIdx sb d)) := by
  obtain ⟨r, hr, hl, hz⟩ := broadcastArrays_elem _ vs h
  match vs, hl with
  | [va, vb], _ =>
    have h1 := hz (sa, va) (by simp)
    have h2 := hz (sb, vb) (by simp)
    exact ⟨r, va, vb, rfl, hr, h1.2.1, h1.2.2, h2.2.2⟩

private theorem bav3 {sa sb sc : Shape} {vs : List IxView} (h : broadcastArraysViews [sa, sb, sc] = some vs) :
    ∃ r va vb vc, vs = [va, vb, vc] ∧ broadcastShape [sa, sb, sc] = some r ∧ va.dst = r ∧
      (∀ d, InShape d r → va.map d = some (specBroadcastIdx sa d)) ∧
      (∀ d, InShape d r → vb.map d = some (specBroadcastIdx sb d)) ∧
      (∀ d, InShape d r → vc.map d = some (specBroadcastIdx sc d)) := by
  obtain ⟨r, hr, hl, hz⟩ := broadcastArrays_elem _ vs h
  match vs, hl with
  | [va, vb, vc], _ =>
    have h1 := hz (sa, va) (by simp)
    have h2 := hz (sb, vb) (by simp)
    have h3 := hz (sc, vc) (by simp)
    exact ⟨r, va, vb, vc, rfl, hr, h1.2.1, h1.2.2, h2.2.2, h3.2.2⟩

/-- binary: broadcast shape, element rule -/
theorem ufunc2_spec {α β γ : Type} (op : α → β → γ) (a : Arr α) (b : Arr β) (u : Arr (Option γ))
    (h : ufunc2 op a b = some u) :
    broadcastShape2 a.shape b.shape = some u.shape ∧
    ∀ d, InShape d u.shape →
      u.get d = some (op (a.get (specBroadcastIdx a.shape d)) (b.get (specBroadcastIdx b.shape d))) := by
  unfold ufunc2 at h
  simp only [Option.bind_eq_some_iff] at h
  obtain ⟨vs, hvs, h⟩ := h
  obtain ⟨r, va, vb, rfl, hr, hdst, ha, hb⟩ := bav2 hvs
  simp only [Option.some.injEq] at h
  subst h
  rw [broadcast_pair] at hr
  refine ⟨by simpa [hdst] using hr, fun d hd => ?_⟩
  simp only at hd ⊢
  rw [hdst] at hd
  simp [IxView.read, ha d hd, hb d hd]

/-- binary: `Nothing` exactly when the two shapes are incompatible -/
theorem ufunc2_none_iff_incompatible {α β γ : Type} (op : α → β → γ) (a : Arr α) (b : Arr β)
    (ha : Pos a.shape) (hb : Pos b.shape) : ufunc2 op a b = none ↔ ¬ Compatible [a.shape, b.shape] := by
  have hp : AllPos [a.shape, b.shape] := by
    intro s hs; simp at hs; rcases hs with rfl | rfl <;> assumption
  rw [← broadcastArrays_isSome_iff _ (by simp) hp]
  unfold ufunc2
  cases hvs : broadcastArraysViews [a.shape, b.shape] with
  | none => simp
  | some vs =>
    obtain ⟨r, va, vb, rfl, _⟩ := bav2 hvs
    simp

/-- ternary (`where`, `clip`): broadcast shape of the three operands, element rule -/
theorem ufunc3_spec {α β γ δ : Type} (op : α → β → γ → δ) (a : Arr α) (b : Arr β) (c : Arr γ) (u : Arr (Option δ))
    (h : ufunc3 op a b c = some u) :
    broadcastShape [a.shape, b.shape, c.shape] = some u.shape ∧
    ∀ d, InShape d u.shape →
      u.get d = some (op (a.get (specBroadcastIdx a.shape d)) (b.get (specBroadcastIdx b.shape d))
        (c.get (specBroadcastIdx c.shape d))) := by
  unfold ufunc3 at h
  simp only [Option.bind_eq_some_iff] at h
  obtain ⟨vs, hvs, h⟩ := h
  obtain ⟨r, va, vb, vc, rfl, hr, hdst, ha, hb, hc⟩ := bav3 hvs
  simp only [Option.some.injEq] at h
  subst h
  refine ⟨by simpa [hdst] using hr, fun d hd => ?_⟩
  simp only at hd ⊢
  rw [hdst] at hd
  simp [IxView.read, ha d hd, hb d hd, hc d hd]

/-- ternary: `Nothing` exactly when the three shapes are incompatible -/
theorem ufunc3_none_iff_incompatible {α β γ δ : Type} (op : α → β → γ → δ) (a : Arr α) (b : Arr β) (c : Arr γ)
    (ha : Pos a.shape) (hb : Pos b.shape) (hc : Pos c.shape) :
    ufunc3 op a b c = none ↔ ¬ Compatible [a.shape, b.shape, c.shape] := by
  have hp : AllPos [a.shape, b.shape, c.shape] := by
    intro s hs; simp at hs; rcases hs with rfl | rfl | rfl <;> assumption
  rw [← broadcastArrays_isSome_iff _ (by simp) hp]
  unfold ufunc3
  cases hvs : broadcastArraysViews [a.shape, b.shape, c.shape] with
  | none => simp
  | some vs =>
    obtain ⟨r, va, vb, vc, rfl, _⟩ := bav3 hvs
    simp

/-! ### outer -/

/-- the outer variant has shape `shape(a) ++ shape(b)` -/
theorem outer_shape {α β γ : Type} (op : α → β → γ) (a : Arr α) (b : Arr β) :
    (outer op a b).shape = a.shape ++ b.shape := rfl

/-- … and element `(i, j) = op a[i] b[j]` -/
theorem outer_elem {α β γ : Type} (op : α → β → γ) (a : Arr α) (b : Arr β) (i j : Idx)
    (hi : InShape i a.shape) (hj : InShape j b.shape) :
    (outer op a b).get (i ++ j) = op (a.get i) (b.get j) := by
  unfold outer outerIdx
  simp only
  rw [← hi.length_eq, ← hj.length_eq]
  simp

/-- every in-shape index of the outer result is such a pair `(i, j)`, and conversely -/
theorem outer_index_iff {α β γ : Type} (op : α → β → γ) (a : Arr α) (b : Arr β) (d : Idx) :
    InShape d (outer op a b).shape ↔ ∃ i j, d = i ++ j ∧ InShape i a.shape ∧ InShape j b.shape := by
  rw [outer_shape]
  constructor
  · intro h
    obtain ⟨i, j, rfl, hl, hj⟩ := inShape_append_split h
    refine ⟨i, j, rfl, ?_, hj⟩
    -- the prefix is in the shape of `a`
    clear hj
    generalize a.shape = s at h hl
    induction s generalizing i with
    | nil => cases i <;> simp_all [InShape]
    | cons x t ih =>
      cases i with
      | nil => simp at hl
      | cons y ys =>
        simp only [List.cons_append, InShape] at h
        exact ⟨h.1, ih ys h.2 (by simpa using hl)⟩
  · rintro ⟨i, j, rfl, hi, hj⟩
    generalize a.shape = s at hi
    induction s generalizing i with
    | nil => cases i <;> simp_all [InShape]
    | cons x t ih =>
      cases i with
      | nil => simp [InShape] at hi
      | cons y ys =>
        simp only [InShape] at hi
        simp only [List.cons_append, InShape]
        exact ⟨hi.1, ih ys hi.2⟩

/-! ### non-vacuity -/

private def A : Arr Nat := Arr.iota [2, 1, 3]
private def B : Arr Nat := ⟨[4, 1], fun i => 100 + computeOffset i (strides [4, 1])⟩

example : (ufunc (fun l => l.foldl (· + ·) 0) [A, B]).map (·.shape) = some [2, 4, 3] := by decide
example : (ufunc (fun l => l) [A, B]).bind (·.get [1, 2, 1]) = some [4, 102] := by decide
example : (ufunc2 (fun x y => (x, y)) A B).bind (·.get [1, 2, 1]) = some (4, 102) := by decide
example : (ufunc (fun l => l) [A, ⟨[2, 2], fun _ => 0⟩]).isNone = true := by decide
example : (ufunc3 (fun c x y => if c = 0 then x else y) A B (Arr.iota [3])).bind (·.get [1, 2, 1]) = some 1 := by decide
example : (outer (fun x y => (x, y)) A B).shape = [2, 1, 3, 4, 1] := rfl
example : (outer (fun x y => (x, y)) A B).get [1, 0, 2, 3, 0] = (5, 103) := by decide

end NmVerif.Props.C07
