import NmVerif.Index.Broadcast
/-
  NmVerif.Index.Ufunc — MODEL of element-wise functions (C07).

  Mirrors:
    include/nmtools/array/view/ufunc.hpp           view::ufunc / unary_ufunc / broadcast_binary_ufunc
    include/nmtools/array/view/ufunc/ufunc.hpp     ufunc_t (shape_ = shape_ufunc(shapes of the broadcast operands),
                                                   operator()(i…) = op(apply_at(operand_k, i)…))
    include/nmtools/array/index/ufunc.hpp          shape_ufunc (copy of the first shape when all are equal)
    include/nmtools/array/view/where.hpp           view::where (broadcast_arrays of 3 operands, then select)
    include/nmtools/array/view/ufunc/outer.hpp     outer_t
    include/nmtools/array/index/outer.hpp          shape_outer, outer

  The scalar operation and the element types are parameters (`op`, `α`, `β`, `γ`, `δ`): what the model fixes is the
  shape and *which operand element feeds which output element*.
  An element is `Option β`: `none` would be an out-of-range `at` inside `index::gather` (UB in the C++); the
  theorems show it never occurs for an in-shape index.

  Core Lean only (linked into the `driver` executable).
-/
namespace NmVerif

/-- `apply_at(operand, indexer.indices(d))` of an indexing view over `a` -/
def IxView.read {α : Type} (v : IxView) (a : Arr α) (d : Idx) : Option α := (v.map d).map a.get

/-- `view::ufunc(op, a₁, …, aₙ)` with all operands of element type `α`:
    one operand → `ufunc_t{op, a}` directly (no broadcasting);
    two or more → `broadcast_arrays` (`Nothing` when incompatible), then `ufunc_t` over the broadcast views. -/
def ufunc {α β : Type} (op : List α → β) : List (Arr α) → Option (Arr (Option β))
  | [] => none
  | [a] => some ⟨a.shape, fun d => some (op [a.get d])⟩
  | a :: b :: rest =>
    let as := a :: b :: rest
    (broadcastArraysViews (as.map (·.shape))).bind fun vs =>
      vs.head?.map fun v0 =>
        ⟨v0.dst, fun d => ((as.zip vs).mapM (fun (p : Arr α × IxView) => p.2.read p.1 d)).map op⟩

/-- unary element-wise function (`unary_ufunc`): never `Nothing`, shape of the operand -/
def ufunc1 {α β : Type} (op : α → β) (a : Arr α) : Arr β := ⟨a.shape, fun d => op (a.get d)⟩

/-- binary element-wise function with operands of different element types (`broadcast_binary_ufunc`) -/
def ufunc2 {α β γ : Type} (op : α → β → γ) (a : Arr α) (b : Arr β) : Option (Arr (Option γ)) :=
  (broadcastArraysViews [a.shape, b.shape]).bind fun vs =>
    match vs with
    | [va, vb] => some ⟨va.dst, fun d => (va.read a d).bind fun x => (vb.read b d).map fun y => op x y⟩
    | _ => none

/-- ternary element-wise function (`view::where`, and through it `view::clip`) -/
def ufunc3 {α β γ δ : Type} (op : α → β → γ → δ) (a : Arr α) (b : Arr β) (c : Arr γ) : Option (Arr (Option δ)) :=
  (broadcastArraysViews [a.shape, b.shape, c.shape]).bind fun vs =>
    match vs with
    | [va, vb, vc] =>
      some ⟨va.dst, fun d => (va.read a d).bind fun x => (vb.read b d).bind fun y => (vc.read c d).map fun z => op x y z⟩
    | _ => none

/-- `index::outer(indices, ashape, bshape)`: the first `adim` entries address `a`, the next `bdim` entries `b` -/
def outerIdx (d : Idx) (adim bdim : Nat) : Idx × Idx := (d.take adim, (d.drop adim).take bdim)

/-- `view::outer(op, a, b)`: shape `shape_outer(a, b) = shape a ++ shape b` -/
def outer {α β γ : Type} (op : α → β → γ) (a : Arr α) (b : Arr β) : Arr γ :=
  ⟨a.shape ++ b.shape, fun d =>
    let p := outerIdx d a.shape.length b.shape.length
    op (a.get p.1) (b.get p.2)⟩

end NmVerif
