import NmVerif.Simd.Enum
import NmVerif.Simd.SeqLemmas
import NmVerif.Lemmas.Addressing
/-
  Index-level facts about the enumerators of Simd/Enum.lean: the output blocks of successive steps tile the
  output buffer contiguously (`Contig`), and operand offsets follow the broadcasting rule.  Helper lemmas.
-/
namespace NmVerif.Simd
open NmVerif

/-- number of output cells a step writes: a register when PACKED, else one scalar -/
def stepLen (N : Nat) (t : TIdx) : Nat := if t.tag = Tag.PACKED then N else 1

theorem div_mod_of_row (r sc Cs : Nat) (h : sc < Cs) : (r * Cs + sc) / Cs = r ∧ (r * Cs + sc) % Cs = sc := by
  have hC : 0 < Cs := by omega
  constructor
  · rw [Nat.add_comm, Nat.add_mul_div_right _ _ hC, Nat.div_eq_of_lt h, Nat.zero_add]
  · rw [Nat.add_comm, Nat.add_mul_mod_self_right, Nat.mod_eq_of_lt h]

theorem binary2dAt_row (N oc lr lc rr rc r sc : Nat) (h : sc < oc / N + oc % N) :
    binary2dAt N oc lr lc rr rc (r * (oc / N + oc % N) + sc) = binary2d N r sc oc lr lc rr rc := by
  unfold binary2dAt binary2dShape
  simp only
  rw [(div_mod_of_row r sc _ h).1, (div_mod_of_row r sc _ h).2]

theorem binary2d_out_packed (N r sc oc lr lc rr rc : Nat) (h : sc < oc / N) :
    (binary2d N r sc oc lr lc rr rc).1 = ⟨Tag.PACKED, sc * N + r * oc⟩ := by
  unfold binary2d
  have : ¬ (sc ≥ oc / N) := by omega
  simp [this]

theorem binary2d_out_scalar (N r sc oc lr lc rr rc : Nat) (h : oc / N ≤ sc) :
    (binary2d N r sc oc lr lc rr rc).1 = ⟨Tag.SCALAR, oc / N * N + (sc - oc / N) + r * oc⟩ := by
  unfold binary2d
  have : sc ≥ oc / N := h
  simp [this]

/-- one row of the 2-d binary enumerator tiles `[r·oc, (r+1)·oc)` -/
theorem binary2d_row_contig (N oc lr lc rr rc : Nat) (r : Nat) :
    Contig (fun i => (binary2dAt N oc lr lc rr rc i).1.off) (fun i => stepLen N (binary2dAt N oc lr lc rr rc i).1)
      (r * oc) (List.range' (r * (oc / N + oc % N)) (oc / N + oc % N)) (r * oc + oc) := by
  rw [← List.range'_append (step := 1)]
  simp only [Nat.one_mul]
  have hoc : oc = oc / N * N + oc % N := by
    have := Nat.div_add_mod oc N; rw [Nat.mul_comm] at this; omega
  refine Contig.append (m := r * oc + oc / N * N) ?_ ?_
  · apply Contig.arith N
    intro k hk1 hk2
    obtain ⟨sc, rfl⟩ : ∃ sc, k = r * (oc / N + oc % N) + sc := ⟨k - r * (oc / N + oc % N), by omega⟩
    have hsc : sc < oc / N := by omega
    rw [binary2dAt_row _ _ _ _ _ _ _ _ (by omega), binary2d_out_packed _ _ _ _ _ _ _ _ hsc, Nat.add_sub_cancel_left]
    constructor
    · simp only; omega
    · simp [stepLen]
  · have e : r * oc + oc = (r * oc + oc / N * N) + (oc % N) * 1 := by omega
    rw [e]
    apply Contig.arith 1
    intro k hk1 hk2
    obtain ⟨sc, rfl⟩ : ∃ sc, k = r * (oc / N + oc % N) + oc / N + sc := ⟨k - (r * (oc / N + oc % N) + oc / N), by omega⟩
    have hsc : sc < oc % N := by omega
    rw [Nat.add_assoc, binary2dAt_row _ _ _ _ _ _ _ _ (by omega), binary2d_out_scalar _ _ _ _ _ _ _ _ (by omega)]
    constructor
    · simp only; omega
    · simp [stepLen, Tag.SCALAR, Tag.PACKED]

/-- the whole 2-d binary enumerator tiles `[0, R·oc)`: every output cell exactly once, in order -/
theorem binary2d_contig (N oc lr lc rr rc : Nat) :
    ∀ R, Contig (fun i => (binary2dAt N oc lr lc rr rc i).1.off) (fun i => stepLen N (binary2dAt N oc lr lc rr rc i).1)
      0 (List.range (R * (oc / N + oc % N))) (R * oc) := by
  intro R
  induction R with
  | zero => simpa using Contig.nil 0
  | succ R ih =>
    rw [Nat.succ_mul, List.range_eq_range', ← List.range'_append (step := 1), ← List.range_eq_range']
    simp only [Nat.one_mul, Nat.zero_add]
    rw [Nat.succ_mul]
    exact Contig.append ih (binary2d_row_contig N oc lr lc rr rc R)

/-! ### operand offsets of the 2-d binary enumerator = NumPy broadcasting -/

/-- buffer offset read by lane `j` of an operand access (a register when PACKED, else one element for all lanes) -/
def laneOff (t : TIdx) (j : Nat) : Nat := if t.tag = Tag.PACKED then t.off + j else t.off

/-- NumPy broadcasting of a row-major `(rows, cols)` operand against a result with `oc` columns:
    the buffer element that output cell `o` (row-major) reads -/
def bcastOff (rows cols oc o : Nat) : Nat :=
  (if rows = 1 then 0 else o / oc) * cols + (if cols = 1 then 0 else o % oc)

/-- operand shapes the enumerator handles: broadcast-compatible with the `(R, oc)` result
    (each extent equals the result's or is 1; this includes a `(1,1)` operand) -/
def OperandOK (R oc rows cols : Nat) : Prop :=
  (cols = oc ∨ cols = 1) ∧ (rows = R ∨ rows = 1)

theorem col_div_mod (c r oc : Nat) (h : c < oc) : (c + r * oc) / oc = r ∧ (c + r * oc) % oc = c := by
  have := div_mod_of_row r c oc h
  rw [Nat.add_comm] at this
  exact this

theorem binary2dOperand_lane (N r sc oc R rows cols j : Nat) (hN : 0 < N) (hr : r < R)
    (hsc : sc < oc / N + oc % N) (hok : OperandOK R oc rows cols)
    (hj : j < (if sc < oc / N then N else 1)) :
    laneOff (binary2dOperand N r sc oc (decide (sc ≥ oc / N)) rows cols) j
      = bcastOff rows cols oc ((if sc < oc / N then sc * N else oc / N * N + (sc - oc / N)) + j + r * oc) := by
  obtain ⟨hc, hrw⟩ := hok
  have hoc : oc = oc / N * N + oc % N := by
    have := Nat.div_add_mod oc N; rw [Nat.mul_comm] at this; omega
  by_cases hp : sc < oc / N
  · -- packed result
    rw [if_pos hp] at hj ⊢
    have hcol : sc * N + j < oc := by
      have : (sc + 1) * N ≤ oc / N * N := Nat.mul_le_mul_right N hp
      rw [Nat.succ_mul] at this; omega
    have hdm := col_div_mod (sc * N + j) r oc hcol
    have hns : ¬ (sc ≥ oc / N) := by omega
    unfold binary2dOperand bcastOff
    simp only [hns, decide_false, Bool.false_and, Bool.false_eq_true, if_false]
    rw [hdm.1, hdm.2]
    by_cases hc1 : cols = 1
    · simp only [hc1, if_true, laneOff, Tag.BROADCAST, Tag.PACKED]
      by_cases hr1 : rows = 1
      · simp [hr1]
      · have hgt : rows > 1 := by rcases hrw with h | h <;> omega
        simp [hr1, hgt]
    · have hco : cols = oc := by rcases hc with h | h; exact h; exact absurd h hc1
      simp only [hc1, if_false, laneOff, Tag.PACKED, if_true]
      by_cases hr1 : rows = 1
      · simp [hr1]
      · have : rows > 1 := by rcases hrw with h | h <;> omega
        simp only [hr1, this, if_true, if_false, hco]; omega
  · -- scalar result
    rw [if_neg hp] at hj ⊢
    have hj0 : j = 0 := by omega
    subst hj0
    have hN1 : 1 < N := by
      rcases Nat.lt_or_ge 1 N with h | h
      · exact h
      · have : N = 1 := by omega
        subst this; simp at hsc; omega
    have hcol : oc / N * N + (sc - oc / N) < oc := by omega
    have hdm := col_div_mod (oc / N * N + (sc - oc / N)) r oc hcol
    have hs : sc ≥ oc / N := by omega
    unfold binary2dOperand bcastOff
    simp only [Nat.add_zero]
    rw [hdm.1, hdm.2]
    by_cases hc1 : cols = 1
    · have h0 : (1 : Nat) / N = 0 := Nat.div_eq_of_lt hN1
      simp only [hc1, h0, hs, decide_true, Bool.true_and, Nat.zero_le, ge_iff_le, if_true, laneOff, Tag.SCALAR, Tag.PACKED]
      by_cases hr1 : rows = 1
      · simp [hr1]
      · have hgt : rows > 1 := by rcases hrw with h | h <;> omega
        simp [hr1, hgt]
    · have hco : cols = oc := by rcases hc with h | h; exact h; exact absurd h hc1
      subst hco
      simp only [hs, decide_true, Bool.true_and, ge_iff_le, if_true, hc1, if_false, laneOff, Tag.SCALAR, Tag.PACKED]
      by_cases hr1 : rows = 1
      · simp [hr1]
      · have : rows > 1 := by rcases hrw with h | h <;> omega
        simp only [hr1, this, if_true, if_false]; simp; omega

end NmVerif.Simd
