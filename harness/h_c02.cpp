// C02 harness (one source, several TUs selected by -D flags — see lib/props/c02.py `NEW_SPECS`):
// view chains / trees over dynamic, bounded and fixed storage, every element read and the view evaluated.
//   -DC02_STORE=0 dyn   na::ndarray_t<std::vector<int>, std::vector<size_t>>
//   -DC02_STORE=5 dyc   na::column_major_ndarray_t<std::vector<int>, std::vector<size_t>>
//              =1 sv    na::ndarray_t<nmtools_static_vector<int,64>, nmtools_static_vector<size_t,4>>   (bounded; args static_vector<_,8>)
//              =2 arr   na::ndarray_t<std::array<int,C02_N>, std::array<size_t,C02_D>>                   (fixed buffer, fixed rank)
//              =3 hyb   na::hybrid_ndarray<int,64,C02_D>
//              =4 fix   na::fixed_ndarray<int,C02_FIXED>   (e.g. -DC02_FIXED=2,3)
//   -DC02_M1/-DC02_M2/-DC02_M3 : bit masks of the stage kinds instantiated at depth 1 / 2 / 3 (0 = depth not built)
//   -DC02_MODES1/2/3 : bit 0 = mode=eval, bit 1 = mode=out compiled for results of that depth (mode=view always)
//
//   chain store=<S> shape=<dims> ops=<stage>/<stage>/...  [mode=view|eval|out]
//        stage (applied left to right, the first one to the array):
//          transpose:<axes>   reshape:<to>   tile:<reps>   flip:<axes>   bcast:<shape>   pad:<widths>
//          take:<indices>:<axis>   repeat:<r>:<axis>   slice:<start,stop,step;...>(as s0,e0,t0,s1,e1,t1,...)
//          neg   add2   sum:<axis>:<keepdims>   cumsum:<axis>
//        answer `ok shape=<dims> data=<every element, C order>` (data[k]=k in the leaf, -1 = pad fill), `nothing`,
//        `unsupported` (stage kind not compiled at that depth in this TU).
//        mode=eval : additionally na::eval(view) must give the same shape and elements (`eval-differs` otherwise)
//        mode=out  : eval into a caller-supplied output of the view's shape
#include "nmtools/array/ndarray.hpp"
#include "nmtools/array/index/ndindex.hpp"
#include "nmtools/utility/at.hpp"
#include "nmtools/array/eval.hpp"
#include "nmtools/array/view/transpose.hpp"
#include "nmtools/array/view/reshape.hpp"
#include "nmtools/array/view/tile.hpp"
#include "nmtools/array/view/flip.hpp"
#include "nmtools/array/view/broadcast_to.hpp"
#include "nmtools/array/view/pad.hpp"
#include "nmtools/array/view/take.hpp"
#include "nmtools/array/view/repeat.hpp"
#include "nmtools/array/view/slice.hpp"
#include "nmtools/array/view/ufuncs/negative.hpp"
#include "nmtools/array/view/ufuncs/add.hpp"
#include "nmtools/array/view/sum.hpp"
#include "nmtools/array/view/cumsum.hpp"
#include "nmtools/array/ndarray/hybrid.hpp"
#include "nmtools/array/ndarray/fixed.hpp"
#include "proto.hpp"
#include <array>

namespace nm = nmtools; namespace ix = nmtools::index; namespace na = nmtools::array; namespace view = nmtools::view;
using namespace proto;

namespace c02 {

enum : unsigned {
    K_TRANSPOSE = 1u << 0, K_RESHAPE = 1u << 1, K_TILE = 1u << 2, K_FLIP = 1u << 3, K_BCAST = 1u << 4, K_PAD = 1u << 5,
    K_TAKE = 1u << 6, K_REPEAT = 1u << 7, K_SLICE = 1u << 8, K_NEG = 1u << 9, K_ADD2 = 1u << 10, K_SUM = 1u << 11,
    K_CUMSUM = 1u << 12, K_ALL = (1u << 13) - 1
};

struct Stage { std::string kind; std::vector<ivec> args; };

inline std::vector<Stage> parse_ops(const std::string& s) {
    std::vector<Stage> out;
    if (s.empty() || s == "[]") return out;
    for (auto& st : split(s, '/')) {
        auto parts = split(st, ':');
        Stage g; g.kind = parts[0];
        for (size_t i = 1; i < parts.size(); i++) g.args.push_back(parse_ints(parts[i]));
        out.push_back(g);
    }
    return out;
}

template <typename S> inline uvec to_uvec(const S& shp) {
    uvec s;
    if constexpr (nm::is_none_v<S>) return s;
    else { for (size_t i = 0; i < (size_t)nm::len(shp); i++) s.push_back((size_t)nm::at(shp, i)); return s; }
}

// argument containers: std::vector by default; the bounded stores pass static_vector so that the index functions
// resolve bounded result types
struct vec_args {
    template <typename T> static std::vector<T> list(const ivec& v) { std::vector<T> r; for (auto x : v) r.push_back((T)x); return r; }
};
struct sv_args {
    template <typename T> static nmtools_static_vector<T, 8> list(const ivec& v) {
        nmtools_static_vector<T, 8> r; r.resize(v.size() > 8 ? 8 : v.size());
        for (size_t i = 0; i < v.size() && i < 8; i++) nm::at(r, i) = (T)v[i];
        return r;
    }
};

template <typename V, typename K> inline std::string cont(const V& v, K&& k) {
    if constexpr (nm::meta::is_maybe_v<V>) { if (!nm::has_value(v)) return "nothing"; return k(*v); }
    else return k(v);
}

inline const ivec& arg(const Stage& st, size_t i) { if (i >= st.args.size()) throw bad_args("stage"); return st.args[i]; }
inline long long arg1(const Stage& st, size_t i) { const auto& v = arg(st, i); if (v.size() != 1) throw bad_args("stage"); return v[0]; }

template <unsigned MASK, typename AP, typename A, typename K> inline std::string apply_stage_array(const A& a, const Stage& st, K&& k);
// one stage applied to `a`; `k` receives the (unwrapped) view.  MASK selects the kinds instantiated here.
template <unsigned MASK, typename AP, typename A, typename K>
inline std::string apply_stage(const A& a, const Stage& st, K&& k) {
    const std::string& kd = st.kind;
    // a statically rank-0 operand (e.g. the sum of a fixed rank-1 array) is a number: no view is stacked on it
    if constexpr (nm::meta::is_num_v<A>) return "scalar-result";
    else if constexpr (nm::is_none_v<decltype(nm::shape(a))>) return "scalar-result";
    else return apply_stage_array<MASK, AP>(a, st, k);
}
template <unsigned MASK, typename AP, typename A, typename K>
inline std::string apply_stage_array(const A& a, const Stage& st, K&& k) {
    const std::string& kd = st.kind;
    if constexpr (MASK & K_TRANSPOSE) if (kd == "transpose") return cont(view::transpose(a, AP::template list<int>(arg(st, 0))), k);
    if constexpr (MASK & K_RESHAPE)   if (kd == "reshape")   return cont(view::reshape(a, AP::template list<int>(arg(st, 0))), k);
    if constexpr (MASK & K_TILE)      if (kd == "tile")      return cont(view::tile(a, AP::template list<size_t>(arg(st, 0))), k);
    if constexpr (MASK & K_FLIP)      if (kd == "flip")      return cont(view::flip(a, AP::template list<int>(arg(st, 0))), k);
    if constexpr (MASK & K_BCAST)     if (kd == "bcast")     return cont(view::broadcast_to(a, AP::template list<size_t>(arg(st, 0))), k);
    if constexpr (MASK & K_PAD)       if (kd == "pad")       return cont(view::pad(a, AP::template list<int>(arg(st, 0)), -1), k);
    if constexpr (MASK & K_TAKE)      if (kd == "take")      return cont(view::take(a, AP::template list<int>(arg(st, 0)), (int)arg1(st, 1)), k);
    if constexpr (MASK & K_REPEAT)    if (kd == "repeat")    return cont(view::repeat(a, (int)arg1(st, 0), (int)arg1(st, 1)), k);
    if constexpr (MASK & K_SLICE)     if (kd == "slice") {
        const auto& f = arg(st, 0); if (f.size() % 3) throw bad_args("slice");
        std::vector<std::array<int, 3>> sl;
        for (size_t i = 0; i < f.size(); i += 3) sl.push_back({(int)f[i], (int)f[i + 1], (int)f[i + 2]});
        return cont(view::apply_slice(a, sl), k);
    }
    if constexpr (MASK & K_NEG)       if (kd == "neg")       return cont(view::negative(a), k);
    if constexpr (MASK & K_ADD2)      if (kd == "add2")      return cont(view::add(a, a), k);
    if constexpr (MASK & K_SUM)       if (kd == "sum") {
        int ax = (int)arg1(st, 0);
        if (arg1(st, 1)) return cont(view::sum(a, ax, nm::None, nm::None, nm::True), k);
        return cont(view::sum(a, ax, nm::None, nm::None, nm::False), k);
    }
    if constexpr (MASK & K_CUMSUM)    if (kd == "cumsum")    return cont(view::cumsum(a, (int)arg1(st, 0)), k);
    return "unsupported";
}

// every element of a view / array, C order, through apply_at with the index type ndindex derives from the view's own shape type
template <typename V> inline bool read_all(const V& v, uvec& shape_out, ivec& data) {
    auto shp = nm::shape(v);
    shape_out = to_uvec(shp);
    if ((size_t)nm::dim(v) != shape_out.size()) return false;
    size_t n = 1; for (auto e : shape_out) n *= e;
    if ((size_t)nm::size(v) != n) return false;
    auto nd = ix::ndindex(shp);
    if ((size_t)nd.size() != n) return false;
    for (size_t i = 0; i < n; i++) data.push_back((long long)nm::apply_at(v, nd[i]));
    return true;
}

using dyn_t = na::ndarray_t<std::vector<int>, std::vector<size_t>>;

template <unsigned MODES, typename V> inline std::string dump_array(const V& v, const std::string& mode);
// MODES: bit 0 = mode=eval compiled, bit 1 = mode=out compiled (each costs compile time per view type)
template <unsigned MODES, typename V> inline std::string dump(const V& v, const std::string& mode) {
    // a view whose rank is statically 0 (e.g. sum of sum of a fixed rank-2 array) is a number, not an array: not generated
    if constexpr (nm::is_none_v<decltype(nm::shape(v))> || nm::meta::is_num_v<V>) return "scalar-result";
    else return dump_array<MODES>(v, mode);
}
template <unsigned MODES, typename V> inline std::string dump_array(const V& v, const std::string& mode) {
    uvec s; ivec data;
    if (!read_all(v, s, data)) return "dim-or-size-mismatch";
    std::string head = "ok shape=" + fmt(s) + " data=" + fmt(data);
    if (mode == "view") return head;
    if constexpr (MODES & 1u) if (mode == "eval") {
        auto r = na::eval(v);
        return cont(r, [&](const auto& e) -> std::string {
            uvec s2; ivec d2;
            if (!read_all(e, s2, d2)) return "eval-dim-or-size-mismatch";
            if (s2 != s || d2 != data) return "eval-differs shape=" + fmt(s2) + " data=" + fmt(d2);
            return head;
        });
    }
    if constexpr (MODES & 2u) if (mode == "out") {
        dyn_t out; out.resize(s);
        for (size_t i = 0; i < data.size(); i++) out.data()[i] = -777;
        na::eval(v, nm::None, out);
        ivec d2; for (size_t i = 0; i < data.size(); i++) d2.push_back(out.data()[i]);
        if (d2 != data) return "out-differs data=" + fmt(d2);
        return head;
    }
    return "unsupported";
}

// chains of depth 1..3; M1 = kinds applied to the array, M2 / M3 = kinds applied on top at depth 2 / 3
template <unsigned M1, unsigned M2, unsigned M3, unsigned D1, unsigned D2, unsigned D3, typename AP, typename A>
inline std::string run_chain(const A& a, const std::vector<Stage>& ops, const std::string& mode) {
    if (ops.empty()) return "unsupported";
    return apply_stage<M1, AP>(a, ops[0], [&](const auto& v1) -> std::string {
        if (ops.size() == 1) return dump<D1>(v1, mode);
        if constexpr (M2 == 0) return "unsupported";
        else return apply_stage<M2, AP>(v1, ops[1], [&](const auto& v2) -> std::string {
            if (ops.size() == 2) return dump<D2>(v2, mode);
            if constexpr (M3 == 0) return "unsupported";
            else return apply_stage<M3, AP>(v2, ops[2], [&](const auto& v3) -> std::string {
                if (ops.size() == 3) return dump<D3>(v3, mode);
                return "unsupported";
            });
        });
    });
}

// data[k] = k (+base) in C order, written through the array's own element access
template <typename A> inline void fill_iota(A& a, int base = 0) {
    auto shp = nm::shape(a);
    auto nd = ix::ndindex(shp);
    size_t n = nd.size();
    for (size_t k = 0; k < n; k++) nm::apply_at(a, nd[k]) = (int)k + base;
}

} // namespace c02

#ifndef C02_STORE
#define C02_STORE 0
#endif
#ifndef C02_M1
#define C02_M1 c02::K_ALL
#endif
#ifndef C02_M2
#define C02_M2 0
#endif
#ifndef C02_M3
#define C02_M3 0
#endif
#ifndef C02_MODES1
#define C02_MODES1 3
#endif
#ifndef C02_MODES2
#define C02_MODES2 2
#endif
#ifndef C02_MODES3
#define C02_MODES3 0
#endif
#ifndef C02_D
#define C02_D 2
#endif
#ifndef C02_N
#define C02_N 6
#endif
#ifndef C02_FIXED
#define C02_FIXED 2,3
#endif

namespace c02 {
#if C02_STORE == 0
using store_t = dyn_t; using args_t = vec_args;
inline bool make(store_t& a, const uvec& s) { return a.resize(s); }
#elif C02_STORE == 1
using store_t = na::ndarray_t<nmtools_static_vector<int, 64>, nmtools_static_vector<size_t, 4>>; using args_t = sv_args;
inline bool make(store_t& a, const uvec& s) {
    size_t n = 1; for (auto e : s) n *= e;
    if (s.size() > 4 || n > 64) return false;
    nmtools_static_vector<size_t, 4> sh; sh.resize(s.size());
    for (size_t i = 0; i < s.size(); i++) nm::at(sh, i) = s[i];
    return a.resize(sh);
}
#elif C02_STORE == 2
using store_t = na::ndarray_t<std::array<int, C02_N>, std::array<size_t, C02_D>>; using args_t = vec_args;
inline bool make(store_t& a, const uvec& s) {
    size_t n = 1; for (auto e : s) n *= e;
    if (s.size() != C02_D || n != C02_N) return false;
    std::array<size_t, C02_D> sh; for (size_t i = 0; i < s.size(); i++) sh[i] = s[i];
    return a.resize(sh);
}
#elif C02_STORE == 3
using store_t = na::hybrid_ndarray<int, 64, C02_D>; using args_t = vec_args;
inline bool make(store_t& a, const uvec& s) {
    size_t n = 1; for (auto e : s) n *= e;
    if (s.size() != C02_D || n > 64) return false;
    std::array<size_t, C02_D> sh; for (size_t i = 0; i < s.size(); i++) sh[i] = s[i];
    return a.resize(sh);
}
#elif C02_STORE == 4
using store_t = na::fixed_ndarray<int, C02_FIXED>; using args_t = vec_args;
inline bool make(store_t& a, const uvec& s) { return to_uvec(nm::shape(a)) == s; }
#elif C02_STORE == 5
// dynamic COLUMN-MAJOR array: same logical contents, buffer position through column_major_offset_t
using store_t = na::column_major_ndarray_t<std::vector<int>, std::vector<size_t>>; using args_t = vec_args;
inline bool make(store_t& a, const uvec& s) { return a.resize(s); }
#endif
} // namespace c02

std::string handle(const std::string& op, const Args& a) {
    using namespace c02;
    if (op == "chain") {
        store_t arr{};
        if (!make(arr, nats(a, "shape"))) return "bad-args";
        fill_iota(arr);
        std::string mode = has(a, "mode") ? get(a, "mode") : "view";
        return run_chain<C02_M1, C02_M2, C02_M3, C02_MODES1, C02_MODES2, C02_MODES3, args_t>(arr, parse_ops(get(a, "ops")), mode);
    }
    return "unknown-op";
}
