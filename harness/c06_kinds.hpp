// C06 mixed-kind harness support (used by the TUs that harness/gen_kinds_c06.py generates).
//   * normalisation of shape-like results of any container kind (constant tuple, clipped tuple, std::array,
//     static_vector, vector, None, maybe<...>, fail type) to `nothing` / `[]` / `2,3,4`
//   * `bc(a, b)`: index::broadcast_shape that also accepts an already failed operand (a compile-time failure type is
//     a refusal: NumPy raises for the same operands)
//   * `term(name, f)`: evaluates one clause, prints `name=<value>`, and watches the NMTOOLS_VERIF hook events
//     (1 = bounded container overflow, 2 = clipped integer clamped a value) that fired WHILE the clause was computed:
//     on an ACCEPTED result they are appended as `!ev<kind>:<count>` so that the answer differs from the reference
//   * array normalisation `shape=<list> data=<row-major elements>`
//   * `tag<T>()`: which container the library chose for a shape result (constant / clipped with bounds / fixed /
//     bounded / dynamic); request `k6t` answers the shape clauses as `value@container`
// Requires -DPROTO_VERIF_EVENTS (proto.hpp then defines the event counters).
#pragma once
#include "nmtools/meta.hpp"
#include "nmtools/constants.hpp"
#include "nmtools/utl.hpp"
#include "nmtools/utility/at.hpp"
#include "nmtools/utility/shape.hpp"
#include "nmtools/utility/has_value.hpp"
#include "nmtools/utility/unwrap.hpp"
#include "nmtools/utility/get.hpp"
#include "nmtools/array/ndarray.hpp"
#include "nmtools/utility/cast.hpp"
#include "nmtools/array/index/ndindex.hpp"
#include "nmtools/array/index/broadcast_shape.hpp"
#include "proto.hpp"
#include <string>

#ifndef PROTO_VERIF_EVENTS
#error "the C06 kind harness must be compiled with -DPROTO_VERIF_EVENTS"
#endif

namespace k6 {
namespace nm = nmtools; namespace meta = nmtools::meta; namespace ix = nmtools::index; namespace na = nmtools::array;

struct failed_t {};     // a clause whose operand kinds made the library answer with a compile-time failure type

template <typename T> inline constexpr bool is_failed_v = meta::is_same_v<meta::remove_cvref_t<T>, failed_t>;

template <typename T> inline std::string num(const T& v) {
    if constexpr (meta::is_constant_index_v<T>) return std::to_string((long long)T::value);
    else if constexpr (meta::is_clipped_integer_v<T>) return std::to_string((long long)(typename T::value_type)v);
    else return std::to_string((long long)v);
}

template <typename T> inline std::string items(const T& r) {
    std::string o; bool first = true;
    auto put = [&](const auto& e){ if (!first) o += ","; first = false; o += num(e); };
    if constexpr (meta::is_tuple_v<T>) {
        constexpr auto N = meta::len_v<T>;
        meta::template_for<N>([&](auto i){ put(nm::at(r,i)); });
    } else {
        auto n = (size_t)nm::len(r);
        for (size_t i=0;i<n;i++) put(nm::at(r,i));
    }
    if (first) return "[]";
    return o;
}

// the container the library chose for a shape-like result, as far as meta::resolve_optype<broadcast_shape_t> cares:
//   ct | cl(b0,b1,..) tuple of clipped | ca(b,b,..) array of clipped | a<N> fixed length | sv<cap> bounded | v | none
// (compared with the Lean model of the resolver, NmVerif.resolveBroadcast)
template <typename T> inline std::string tag() {
    if constexpr (is_failed_v<T> || meta::is_fail_v<T>) return "err";
    else if constexpr (meta::is_maybe_v<T>) return tag<meta::remove_cvref_t<meta::get_maybe_type_t<T>>>();
    else if constexpr (nm::is_none_v<T>) return "none";
    else if constexpr (meta::is_constant_index_array_v<T>) return "ct";
    else if constexpr (meta::is_clipped_index_array_v<T>) {
        constexpr auto bounds = meta::to_value_v<T>;
        std::string o = meta::is_tuple_v<T> ? "cl(" : "ca(";
        for (size_t i=0;i<(size_t)nm::len(bounds);i++) { if (i) o += ","; o += std::to_string((long long)nm::at(bounds,i)); }
        return o + ")";
    }
    else if constexpr ((meta::len_v<T>) > 0) return "a" + std::to_string((long long)meta::len_v<T>);
    else {
        constexpr auto bs = meta::bounded_size_v<T>;
        if constexpr (meta::is_fail_v<decltype(bs)>) return "v";
        else return "sv" + std::to_string((long long)bs);
    }
}

// accepted?  (a maybe with a value, or a plain value)
template <typename T> inline bool accepted(const T& r) {
    if constexpr (is_failed_v<T> || meta::is_fail_v<T>) return false;
    else if constexpr (meta::is_maybe_v<T>) return nm::has_value(r);
    else return true;
}

// shape-like value: `nothing` | `[]` (rank 0, also None = the shape of a number) | `2,3,4`
template <typename T> inline std::string shp(const T& r) {
    if constexpr (is_failed_v<T> || meta::is_fail_v<T>) return "nothing";
    else if constexpr (meta::is_maybe_v<T>) { if (!nm::has_value(r)) return "nothing"; return shp(*r); }
    else if constexpr (nm::is_none_v<T>) return "[]";
    else return items(r);
}

// result of shape_broadcast_to, maybe<tuple<shape, free axes>>: `nothing` | `<shape>/<free axes as 0,1 list>`
// (a None source, the shape of a number, has the free-axes entry None: every axis is free)
template <typename T> inline std::string sbt(const T& r) {
    if constexpr (is_failed_v<T> || meta::is_fail_v<T>) return "nothing";
    else if constexpr (meta::is_maybe_v<T>) { if (!nm::has_value(r)) return "nothing"; return sbt(*r); }
    else {
        const auto& s = nm::get<0>(r);
        const auto& f = nm::get<1>(r);
        std::string o = shp(s) + "/";
        if constexpr (nm::is_none_v<meta::remove_cvref_t<decltype(f)>>) {
            size_t n;
            if constexpr (nm::is_none_v<meta::remove_cvref_t<decltype(s)>>) n = 0; else n = (size_t)nm::len(s);
            std::string l; for (size_t i=0;i<n;i++) { if (i) l += ","; l += "1"; }
            return o + (n ? l : std::string("[]"));
        } else {
            auto n = (size_t)nm::len(f);
            std::string l; for (size_t i=0;i<n;i++) { if (i) l += ","; l += (nm::at(f,i) ? "1" : "0"); }
            return o + (n ? l : std::string("[]"));
        }
    }
}

// array / view: `nothing` | `shape=<list>;data=<elements>`
template <typename T> inline std::string arr(const T& v) {
    if constexpr (is_failed_v<T> || meta::is_fail_v<T>) return "nothing";
    else if constexpr (meta::is_maybe_v<T>) { if (!nm::has_value(v)) return "nothing"; return arr(*v); }
    else if constexpr (meta::is_num_v<T>) return "shape=[];data=" + std::to_string((long long)v);
    else {
        auto s = nm::shape(v);
        std::string o = "shape=" + items(s) + ";data=";
        // run-time copy of the shape for the enumeration (the enumeration itself is not under test)
        nmtools_list<size_t> rs; rs.resize((size_t)nm::len(s));
        { size_t j = 0;
          if constexpr (meta::is_tuple_v<decltype(s)>) meta::template_for<meta::len_v<decltype(s)>>([&](auto i){ rs[j++] = (size_t)nm::at(s,i); });
          else for (; j<(size_t)nm::len(s); j++) rs[j] = (size_t)nm::at(s,j); }
        auto nd = ix::ndindex(rs);
        size_t n = (size_t)nd.size();
        if (n == 0) return o + "[]";
        for (size_t i=0;i<n;i++) { if (i) o += ","; o += std::to_string((long long)nm::apply_at(v, nd[i])); }
        return o;
    }
}

// tuple of views (broadcast_arrays): `nothing` | `<arr>|<arr>|...`
template <typename T> inline std::string arrs(const T& m) {
    if constexpr (is_failed_v<T> || meta::is_fail_v<T>) return "nothing";
    else if constexpr (meta::is_maybe_v<T>) { if (!nm::has_value(m)) return "nothing"; return arrs(*m); }
    else {
        std::string o;
        constexpr auto N = meta::len_v<T>;
        meta::template_for<N>([&](auto i){ if (i) o += "|"; o += arr(nm::at(m,i)); });
        return o;
    }
}

// broadcast_shape that threads compile-time failures
template <typename A, typename B> inline auto bc(const A& a, const B& b) {
    if constexpr (is_failed_v<A> || is_failed_v<B>) return failed_t{};
    else {
        using R = decltype(ix::broadcast_shape(a,b));
        if constexpr (meta::is_fail_v<R>) return failed_t{};
        else return ix::broadcast_shape(a,b);
    }
}
template <typename A, typename B, typename C> inline auto bc(const A& a, const B& b, const C& c) {
    using R = decltype(ix::broadcast_shape(a,b,c));
    if constexpr (meta::is_fail_v<R>) return failed_t{};
    else if constexpr (meta::is_maybe_v<R>) {
        if constexpr (meta::is_fail_v<meta::get_maybe_type_t<R>>) return failed_t{};
        else return ix::broadcast_shape(a,b,c);
    }
    else return ix::broadcast_shape(a,b,c);
}

inline long long ev(int k) { return proto::g_events[k]; }

struct out_t {
    std::string s = "ok";      // the clauses, values only            (request `k6`)
    std::string t = "ok";      // shape clauses as value@container    (request `k6t`: against the Lean model of the resolver)
    // one clause: value printed by `print`, hook events on an accepted value are part of the answer
    template <typename F, typename P> void term(const char* name, F f, P print, bool tagged = false) {
        long long e1 = ev(1), e2 = ev(2);
        auto r = f();
        std::string txt = print(r);      // reading the elements of a view is part of the clause
        long long d1 = ev(1) - e1, d2 = ev(2) - e2;
        std::string e;
        if (accepted(r)) {
            if (d1) e += "!ev1:" + std::to_string(d1);
            if (d2) e += "!ev2:" + std::to_string(d2);
        }
        s += " "; s += name; s += "="; s += txt; s += e;
        if (tagged) { t += " "; t += name; t += "="; t += txt; t += "@" + tag<meta::remove_cvref_t<decltype(r)>>(); t += e; }
    }
    void lit(const char* name, const char* value) {
        s += " "; s += name; s += "="; s += value;
        t += " "; t += name; t += "="; t += value;
    }
    std::string done(bool tags) { for (auto& e : proto::g_events) e = 0; return tags ? t : s; }
};
#define K6_SHP(o, name, expr) (o).term(name, [&]{ return (expr); }, [](const auto& r){ return k6::shp(r); }, true)
#define K6_SBT(o, name, expr) (o).term(name, [&]{ return (expr); }, [](const auto& r){ return k6::sbt(r); })
#define K6_ARR(o, name, expr) (o).term(name, [&]{ return (expr); }, [](const auto& r){ return k6::arr(r); })
#define K6_ARRS(o, name, expr) (o).term(name, [&]{ return (expr); }, [](const auto& r){ return k6::arrs(r); })
} // namespace k6
