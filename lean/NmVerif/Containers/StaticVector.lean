import NmVerif.Containers.Core
/-
  NmVerif.Containers.StaticVector — mirror of `utl::static_vector<T,Capacity>` (utl/static_vector.hpp:29-160)
  and of `utl::array<T,N>` (utl/array.hpp:23-112; an aggregate over `T buffer[N]`).

    buffer (utl::array<T,Capacity>, `= {}`: value-initialised) ↦ `cells` (always `Capacity` cells)
    size_                                                      ↦ `size`

  Mirrored (state of the code after the `fix:` commits C19-static-vector-oversize-ctor / -grow-init):
  default ctor size 0; `static_vector(n)`: `size_(n <= Capacity ? n : 0)`;
  variadic ctor `buffer{a,b,ts…}`, rest value-initialised; copy ctor copies the whole buffer and size_;
  `resize(n)`: ignored when `n > Capacity`, otherwise the cells `size_ … n-1` are value-initialised and `size_ = n`;
  `operator=`: `resize(other.size_)` + copy of `size_` elements (l.81-89); `push_back`: ignored when full (l.91-98);
  element access unchecked.  Core Lean only.
-/
namespace NmVerif.Containers

structure SVec (α : Type) where
  cells : List (Cell α)
  size : Nat
  deriving Repr

namespace SVec
variable {α : Type}

/-- `buffer[i] = c` -/
def store (v : SVec α) (i : Nat) (c : Cell α) (L : Ledger) : SVec α × Ledger :=
  if i < v.cells.length then ({ v with cells := v.cells.set i c }, L) else (v, L.flag .oob)

def mkDefault (c : Nat) (zero : α) (L : Ledger) : SVec α × Ledger :=
  ({ cells := List.replicate c (some zero), size := 0 }, L)

/-- `static_vector(n)`: refused (empty) above the capacity -/
def mkSized (c : Nat) (zero : α) (n : Nat) (L : Ledger) : SVec α × Ledger :=
  ({ cells := List.replicate c (some zero), size := if n ≤ c then n else 0 }, L)


/-- `static_vector(a, b, ts…)` (more than `Capacity` arguments do not compile) -/
def mkVariadic (c : Nat) (zero : α) (vs : List α) (L : Ledger) : SVec α × Ledger :=
  ({ cells := (vs.map some ++ List.replicate (c - vs.length) (some zero)).take c, size := vs.length }, L)

def mkCopy (o : SVec α) (L : Ledger) : SVec α × Ledger := (o, L)

def resize (c : Nat) (zero : α) (v : SVec α) (n : Nat) (L : Ledger) : SVec α × Ledger :=
  if n ≤ c then ({ cells := initRange zero v.cells v.size n, size := n },
                 L.flagIf (decide (v.size < n ∧ v.cells.length < n)) .oob)
  else (v, L)

/-- `for i < size_: buffer[i] = other.buffer[i]` -/
def copyFrom (v o : SVec α) (L : Ledger) : SVec α × Ledger :=
  ({ v with cells := o.cells.take v.size ++ v.cells.drop v.size },
   L.flagIf (decide (o.cells.length < v.size ∨ v.cells.length < v.size)) .oob)

def assign (c : Nat) (zero : α) (v o : SVec α) (L : Ledger) : SVec α × Ledger :=
  let r := resize c zero v o.size L
  r.1.copyFrom o r.2

def assignSelf (c : Nat) (zero : α) (v : SVec α) (L : Ledger) : SVec α × Ledger :=
  let r := resize c zero v v.size L
  r.1.copyFrom r.1 r.2

def push (c : Nat) (zero : α) (v : SVec α) (a : α) (L : Ledger) : SVec α × Ledger :=
  if c < v.size + 1 then (v, L)
  else
    let r := resize c zero v (v.size + 1) L
    r.1.store (r.1.size - 1) (some a) r.2

/-- `push_back(buffer[i])`: no reallocation, the reference stays valid -/
def pushAt (c : Nat) (zero : α) (v : SVec α) (i : Nat) (L : Ledger) : SVec α × Ledger :=
  if c < v.size + 1 then (v, L)
  else
    let r := resize c zero v (v.size + 1) L
    match v.cells[i]? with
    | some x => r.1.store (r.1.size - 1) x r.2
    | none => r.1.store (r.1.size - 1) none (r.2.flag .oob)

def write (v : SVec α) (i : Nat) (a : α) (L : Ledger) : SVec α × Ledger := v.store i (some a) L

def read (v : SVec α) (i : Nat) (L : Ledger) : Cell α × Ledger :=
  match v.cells[i]? with
  | some c => (c, L)
  | none => (none, L.flag .oob)

def view (v : SVec α) : List (Cell α) := v.cells.take v.size

end SVec

def svecImpl (c : Nat) (zero : α) : Impl (SVec α) α where
  mkDefault := SVec.mkDefault c zero
  mkSized := SVec.mkSized c zero
  mkVariadic := SVec.mkVariadic c zero
  mkCopy := SVec.mkCopy
  assign := SVec.assign c zero
  assignSelf := SVec.assignSelf c zero
  push := SVec.push c zero
  pushAt := SVec.pushAt c zero
  resize := SVec.resize c zero
  write := SVec.write
  read := SVec.read
  destroy := fun _ L => L
  size := SVec.size
  view := SVec.view

/-- `utl::array<T,N>`: an aggregate; `array<T,N> a{}` / `a{v…}` (missing elements value-initialised);
    no resize / push_back (the history interpreter skips them for this kind: modelled as no-ops) -/
def arrImpl (n : Nat) (zero : α) : Impl (SVec α) α where
  mkDefault := fun L => ({ cells := List.replicate n (some zero), size := n }, L)
  mkSized := fun _ L => ({ cells := List.replicate n (some zero), size := n }, L)
  mkVariadic := fun vs L => ({ (SVec.mkVariadic n zero vs L).1 with size := n }, L)
  mkCopy := SVec.mkCopy
  assign := fun _ o L => (o, L)
  assignSelf := fun v L => (v, L)
  push := fun v _ L => (v, L)
  pushAt := fun v _ L => (v, L)
  resize := fun v _ L => (v, L)
  write := SVec.write
  read := SVec.read
  destroy := fun _ L => L
  size := SVec.size
  view := SVec.view

end NmVerif.Containers
