// C03 harness: rearranging views over a dynamic ndarray filled with data[k]=k, from $VERIF_REPO/include
//   reshape / flatten / transpose / moveaxis / swapaxes / expand_dims / squeeze / atleast_{1d,2d,nd} / flip
//   and the two-step compositions transpose2 / flip2.
// answer: `ok shape=<extents> data=<elements in C order of the view's own shape>` or `nothing`.
// With `eval=1` the eager `nmtools::array::<fn>` is called instead of the lazy view (observable "evaluated output").
#include "nmtools/array/ndarray.hpp"
#include "nmtools/array/index/ndindex.hpp"
#include "nmtools/array/view/reshape.hpp"
#include "nmtools/array/view/flatten.hpp"
#include "nmtools/array/view/transpose.hpp"
#include "nmtools/array/view/moveaxis.hpp"
#include "nmtools/array/view/swapaxes.hpp"
#include "nmtools/array/view/expand_dims.hpp"
#include "nmtools/array/view/squeeze.hpp"
#include "nmtools/array/view/atleast_nd.hpp"
#include "nmtools/array/view/flip.hpp"
#ifdef C03_EVAL
#include "nmtools/array/array/reshape.hpp"
#include "nmtools/array/array/flatten.hpp"
#include "nmtools/array/array/transpose.hpp"
#include "nmtools/array/array/moveaxis.hpp"
#include "nmtools/array/array/swapaxes.hpp"
#include "nmtools/array/array/expand_dims.hpp"
#include "nmtools/array/array/squeeze.hpp"
#include "nmtools/array/array/atleast_1d.hpp"
#include "nmtools/array/array/atleast_2d.hpp"
// array/atleast_nd.hpp is NOT included: with it, view::atleast_1d's unqualified call of atleast_nd becomes
// ambiguous (ADL finds array::atleast_nd for ndarray_t operands); atleast_nd is evaluated through array::eval.
#include "nmtools/array/eval.hpp"
#include "nmtools/array/array/flip.hpp"
#endif
#include "proto.hpp"

namespace nm = nmtools; namespace ix = nmtools::index; namespace na = nmtools::array; namespace view = nmtools::view;
using namespace proto;
using arr_t = na::ndarray_t<std::vector<int>, std::vector<size_t>>;

static arr_t iota(const uvec& shape) {
    arr_t a; a.resize(shape);
    size_t n = nm::size(a);
    for (size_t k=0;k<n;k++) a.data()[k] = (int)k;
    return a;
}

// shape + every element, in C order of the result's own shape
template <typename V> static std::string show(const V& v) {
    if constexpr (nm::meta::is_maybe_v<V>) {
        if (!nm::has_value(v)) return "nothing";
        return show(nm::unwrap(v));
    } else {
        auto s = nm::shape(v);
        uvec sh; for (size_t i=0;i<(size_t)nm::len(s);i++) sh.push_back((size_t)nm::at(s,i));
        if ((size_t)nm::dim(v) != sh.size()) return "dim-mismatch";
        size_t n = 1; for (auto e : sh) n *= e;
        if ((size_t)nm::size(v) != n) return "size-mismatch shape=" + fmt(sh) + " size=" + std::to_string((size_t)nm::size(v));
        ivec data;
        auto nd = ix::ndindex(sh);
        for (size_t i=0;i<n;i++) data.push_back((long long)nm::apply_at(v, nd[i]));
        return "ok shape=" + fmt(sh) + " data=" + fmt(data);
    }
}

#ifdef C03_EVAL
#define CALL(fn, ...) show(na::fn(__VA_ARGS__))
#else
#define CALL(fn, ...) show(view::fn(__VA_ARGS__))
#endif

std::string handle(const std::string& op, const Args& a) {
    auto arr = iota(nats(a,"shape"));
    std::string kind = has(a,"kind") ? get(a,"kind") : "list";
    if (op=="reshape")  return CALL(reshape, arr, intsi(a,"to"));
    if (op=="flatten")  return CALL(flatten, arr);
    if (op=="transpose") {
        if (is_none(a,"axes")) return CALL(transpose, arr);
        return CALL(transpose, arr, intsi(a,"axes"));
    }
    if (op=="moveaxis") {
        auto s = intsi(a,"src"); auto d = intsi(a,"dst");
        if (kind=="int") { if (s.size()!=1 || d.size()!=1) throw bad_args("int"); return CALL(moveaxis, arr, s[0], d[0]); }
        return CALL(moveaxis, arr, s, d);
    }
    if (op=="swapaxes") return CALL(swapaxes, arr, (int)integer(a,"a1"), (int)integer(a,"a2"));
    if (op=="expand_dims") {
        auto ax = intsi(a,"axis");
        if (kind=="int") { if (ax.size()!=1) throw bad_args("int"); return CALL(expand_dims, arr, ax[0]); }
        return CALL(expand_dims, arr, ax);
    }
    if (op=="squeeze") return CALL(squeeze, arr);
    if (op=="atleast") {
        if (kind=="1d") return CALL(atleast_1d, arr);
        if (kind=="2d") return CALL(atleast_2d, arr);
#ifdef C03_EVAL
        return show(na::eval(view::atleast_nd(arr, (size_t)integer(a,"nd"))));
#else
        return show(view::atleast_nd(arr, (size_t)integer(a,"nd")));
#endif
    }
    if (op=="flip") {
        if (is_none(a,"axis")) return CALL(flip, arr, nm::None);
        auto ax = intsi(a,"axis");
        if (kind=="int") { if (ax.size()!=1) throw bad_args("int"); return CALL(flip, arr, ax[0]); }
        return CALL(flip, arr, ax);
    }
#ifndef C03_EVAL
    if (op=="transpose2") {   // transpose(transpose(a, axes), axes2)
        auto p = intsi(a,"axes"); auto q = intsi(a,"axes2");
        return show(view::transpose(view::transpose(arr, p), q));
    }
    if (op=="flip2") {        // flip(flip(a, axis), axis2)
        auto p = intsi(a,"axis"); auto q = intsi(a,"axis2");
        return show(view::flip(view::flip(arr, p), q));
    }
#endif
    return "unknown-op";
}
