import NmVerif.Proto
import NmVerif.Basic
import NmVerif.Containers.KindRefs
import NmVerif.Containers.Kinds
namespace NmVerif.Driver.C09
open NmVerif NmVerif.Proto NmVerif.KindRefs

/-- answer of an optional shape: `ok a,b,c` / `nothing` -/
def optShape : Option (List Nat) → String
  | some s => s!"ok {fmtNats s}"
  | none => "nothing"

def optArr : Option ArrV → String
  | some (s, d) => s!"ok shape={fmtNats s} data={fmtNats d}"
  | none => "nothing"

/-- `a,b` or `a,b,c` with `N` for an absent entry -/
def parseSlice (t : String) : Option (Option Nat × Option Nat × Option Nat) :=
  let f : String → Option (Option Nat) := fun x => if x == "N" then some none else x.toNat?.map some
  match t.splitOn "," with
  | [x, y] => do pure (← f x, ← f y, none)
  | [x, y, z] => do pure (← f x, ← f y, ← f z)
  | _ => none

def natsOfInts (l : List Int) : Option (List Nat) :=
  l.mapM (fun x => if x < 0 then none else some x.toNat)

/-- reference answers of the C09 kind matrix (the C01 ops `strides`, `offset`, `indices`, `product`
    are answered by Driver.C01) -/
def handle : Handler := fun op a =>
  match op with
  | "k9_reshape" => orBad do
      let s ← a.nats "shape"
      let d ← a.ints "newshape"
      pure (optShape (reshape s d))
  | "k9_transpose" => orBad do
      let s ← a.nats "shape"
      let ax ← a.optInts "axes"
      match ax with
      | none => pure (optShape (transpose s none))
      | some l => match natsOfInts l with
        | some n => pure (optShape (transpose s (some n)))
        | none => pure "nothing"
  | "k9_broadcast_shape" => orBad do
      let ss ← a.natLists "shapes"
      pure (optShape (broadcastShapes ss))
  | "k9_broadcast_to" => orBad do
      let s ← a.nats "ashape"
      let t ← a.nats "bshape"
      match broadcastTo s t with
      | some r => pure s!"ok ({fmtNats r}),({fmtNats (broadcastFreeAxes s t)})"
      | none => pure "nothing"
  | "k9_tile" => orBad do
      let s ← a.nats "shape"
      let r ← a.nats "reps"
      pure s!"ok {fmtNats (tile s r)}"
  | "k9_repeat" => orBad do
      let s ← a.nats "shape"
      let ax ← a.optInt "axis"
      match a.get? "repeats" with
      | none => none
      | some rs =>
        if rs.contains ',' || (a.get? "rlist") == some "1" then do
          let r ← parseNats rs
          pure (optShape (repeatList s r ax))
        else do
          let r ← rs.toNat?
          pure (optShape (repeatScalar s r ax))
  | "k9_remove_dims" => orBad do
      let s ← a.nats "shape"
      let ax ← a.optInts "axis"
      let kd ← a.nat "keepdims"
      pure (optShape (removeDims s ax (kd != 0)))
  | "k9_normalize_axis" => orBad do
      let nd ← a.nat "ndim"
      match a.get? "scalar" with
      | some "1" => do
          let ax ← a.int "axis"
          match normAxis nd ax with
          | some k => pure s!"ok {k}"
          | none => pure "nothing"
      | _ => do
          let ax ← a.ints "axis"
          pure (optShape (normAxes nd ax))
  | "k9_concatenate" => orBad do
      let s ← a.nats "ashape"
      let t ← a.nats "bshape"
      let ax ← a.optInt "axis"
      pure (optShape (concatenate s t ax))
  | "k9_pad" => orBad do
      let s ← a.nats "shape"
      let pw ← a.nats "pad_width"
      pure (optShape (pad s pw))
  | "k9_matmul" => orBad do
      let s ← a.nats "ashape"
      let t ← a.nats "bshape"
      pure (optShape (matmulShape s t))
  | "k9_slice" => orBad do
      let s ← a.nats "shape"
      let s0 ← (a.get? "s0").bind parseSlice
      let s1 ← (a.get? "s1").bind parseSlice
      match s with
      | [n0, n1] => pure s!"ok {fmtNats [sliceLen n0 s0.1 s0.2.1 s0.2.2, sliceLen n1 s1.1 s1.2.1 s1.2.2]}"
      | _ => none
  | "k9v_transpose" => orBad do
      let s ← a.nats "x"
      let ax ← a.optInts "axes"
      match ax with
      | none => pure (optArr (vTranspose s none))
      | some l => match natsOfInts l with
        | some n => pure (optArr (vTranspose s (some n)))
        | none => pure "nothing"
  | "k9v_reshape" => orBad do
      let s ← a.nats "x"
      let d ← a.ints "newshape"
      pure (optArr (vReshape s d))
  | "k9v_tile" => orBad do
      let s ← a.nats "x"
      let r ← a.nats "reps"
      pure (optArr (some (vTile s r)))
  | "k9v_add" => orBad do
      let s ← a.nats "x"
      let t ← a.nats "y"
      pure (optArr (vAdd s t))
  | "k9v_sum" => orBad do
      let s ← a.nats "x"
      let ax ← a.int "axis"
      pure (optArr (vSum s ax))
  | "k9v_broadcast_to" => orBad do
      let s ← a.nats "x"
      let t ← a.nats "shape"
      pure (optArr (vBroadcastTo s t))
  | "k9v_broadcast_arrays" => orBad do
      let s ← a.nats "x"
      let t ← a.nats "y"
      match vBroadcastArrays s t with
      | some ((s1, d1), (s2, d2)) => pure s!"ok shape={fmtNats s1} data={fmtNats d1}|shape={fmtNats s2} data={fmtNats d2}"
      | none => pure "nothing"
  | "k9v_repeat" => orBad do
      let s ← a.nats "x"
      let r ← a.nat "repeats"
      let ax ← a.optInt "axis"
      pure (optArr (vRepeat s r ax))
  | "k9v_pad" => orBad do
      let s ← a.nats "x"
      let pw ← a.nats "pad_width"
      pure (optArr (vPad s pw))
  | "k9v_slice" => orBad do
      let s ← a.nats "x"
      let s0 ← (a.get? "s0").bind parseSlice
      let s1 ← (a.get? "s1").bind parseSlice
      pure (optArr (vSlice2 s s0 s1))
  | "k9v_flip" => orBad do
      let s ← a.nats "x"
      let ax ← a.optInts "axis"
      pure (optArr (vFlip s ax))
  | "k9v_expand_dims" => orBad do
      let s ← a.nats "x"
      let ax ← a.ints "axis"
      pure (optArr (vExpandDims s ax))
  | "k9v_squeeze" => orBad do
      let s ← a.nats "x"
      pure (optArr (some (vSqueeze s)))
  | "k9v_concatenate" => orBad do
      let s ← a.nats "x"
      let t ← a.nats "y"
      let ax ← a.optInt "axis"
      pure (optArr (vConcatenate s t ax))
  | "k9v_where" => orBad do
      let c ← a.nats "c"
      let s ← a.nats "x"
      let t ← a.nats "y"
      pure (optArr (vWhere c s t))
  | "k9v_matmul" => orBad do
      let s ← a.nats "x"
      let t ← a.nats "y"
      pure (optArr (vMatmul s t))
  | "k9v_sum_k" => orBad do
      let s ← a.nats "x"
      let ax ← a.optInts "axis"
      let kd ← a.nat "keepdims"
      pure (optArr (vSumK s ax (kd != 0)))
  | "k9v_take" => orBad do
      let s ← a.nats "x"
      let ind ← a.nats "indices"
      let ax ← a.int "axis"
      pure (optArr (vTake s ind ax))
  | "k9_bvec" => orBad do
      -- the bounded-vector model itself, for the utl::static_vector cases of the matrix
      let cap ← a.nat "cap"
      let l ← a.nats "list"
      let b := Kinds.BVec.ofList cap l
      pure s!"ok size={b.size} list={fmtNats b.toList}"
  | "k9_clip" => orBad do
      let lo ← a.int "lo"
      let hi ← a.int "hi"
      let v ← a.int "v"
      pure s!"ok {(Kinds.Clipped.mk' lo hi v).val}"
  | _ => none

end NmVerif.Driver.C09
