import NmVerif.Basic
namespace NmVerif.Props.C17
end NmVerif.Props.C17
