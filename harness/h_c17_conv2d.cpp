// C17 harness: conv2d through nmtools::array::conv2d (= eval of view::conv2d = view::convnd<2>)
//   conv2d xs=N,C,H,W x=.. ws=O,C/g,KH,KW w=.. b=None|.. stride=None|int|int,int padding=.. dilation=.. groups=int
// built twice: -DC17_BIAS=0 (serves b=None) and -DC17_BIAS=1 (serves requests with a bias) to halve the compile time
#include "nmtools/array/array/conv2d.hpp"
#include "c17_util.hpp"

using namespace c17;

// f(None) | f(int) | f(std::array<int,2>)
template <typename F> static std::string opt_int_pair(const Args& a, const char* key, F f) {
    if (proto::is_none(a, key)) return f(nm::None);
    auto v = proto::intsi(a, key);
    if (v.size() == 1) return f((int)v[0]);
    if (v.size() == 2) return f(std::array<int,2>{v[0], v[1]});
    throw proto::bad_args(key);
}

template <typename T> static std::string conv2d(const Args& a) {
    auto x = mk<T>(a, "x"); auto w = mk<T>(a, "w");
    int groups = (int)proto::integer(a, "groups");
    auto with_bias = [&](const auto& bias) {
        return opt_int_pair(a, "stride", [&](auto stride) {
            return opt_int_pair(a, "padding", [&](auto padding) {
                return opt_int_pair(a, "dilation", [&](auto dilation) {
                    return fmt_result(na::conv2d(x, w, bias, stride, padding, dilation, groups));
                });
            });
        });
    };
#if C17_BIAS
    if (proto::is_none(a, "b")) return "unsupported-form";
    auto b = mk<T>(a, "b");
    return with_bias(b);
#else
    if (!proto::is_none(a, "b")) return "unsupported-form";
    return with_bias(nm::None);
#endif
}

std::string handle(const std::string& op, const Args& a) {
    if (op == "conv2d") return conv2d<float>(a);
    return "unknown-op";
}
