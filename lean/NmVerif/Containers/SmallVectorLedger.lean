import NmVerif.Containers.SmallVectorProofs
import NmVerif.Containers.LedgerSim
/-
  Ledger theorems for the `small_vector` mirror.

  * static mode never touches the heap: on histories in which every object stays in static mode
    (`smallStaticOk`, decided on the reference run: sized construction below DIM, at most DIM values, resizes up to
    DIM, pushes only below DIM) the ledger is handed back unchanged by every operation (`small_static_fix`).
-/
namespace NmVerif.Containers
variable {α : Type}

/-- every object stays in static mode: `small_vector(n)` with `n < DIM` (`n = DIM` already takes the heap branch,
    small_vector.hpp:41), at most DIM values, `resize(n)` with `n ≤ DIM`, `push_back` only on objects holding fewer than
    DIM elements (an inapplicable `pushAt`, `i ≥ size()`, is skipped and therefore allowed).  The conditions on
    `push` / `pushAt` look at the reference-side state of the target object. -/
def smallStaticOk (c : Nat) : Option (List α) → Op α → Prop
  | _, .ctorN _ n => n < c
  | _, .ctorV _ vs => vs.length ≤ c
  | _, .resize _ n => n ≤ c
  | some l, .push _ _ => l.length < c
  | some l, .pushAt _ i => i < l.length → l.length < c
  | _, _ => True

instance decSmallStaticOk (c : Nat) (st : Option (List α)) (op : Op α) : Decidable (smallStaticOk c st op) := by
  cases st <;> cases op <;> simp only [smallStaticOk] <;> infer_instance

/-- static-mode refinement: the object is in static mode and its static part refines the list -/
def RStat (c : Nat) (x : Small α) (l : List α) : Prop := x.tagS = true ∧ RSVec c x.st l

theorem RStat.rsmall {c : Nat} {x : Small α} {l : List α} (h : RStat c x l) : RSmall c x l :=
  (rsmall_st h.1).mpr h.2

theorem RStat.of_rsmall {c : Nat} {x : Small α} {l : List α} (ht : x.tagS = true) (h : RSmall c x l) : RStat c x l :=
  ⟨ht, (rsmall_st ht).mp h⟩

theorem smallOk_of_static {c : Nat} {st : Option (List α)} {op : Op α} (_h : smallStaticOk c st op) : smallOk c st op :=
  trivial

namespace SVec

theorem resize_led (c : Nat) (zero : α) (x : SVec α) (n : Nat) (L : Ledger) (h : SVec.Inv c x) :
    (SVec.resize c zero x n L).2 = L := by
  obtain ⟨h1, h2⟩ := h
  by_cases hn : n ≤ c
  · rw [(svec_resize_spec c zero x n L h1 h2 hn).1]
  · simp [SVec.resize, hn]

theorem resize_inv (c : Nat) (zero : α) (x : SVec α) (n : Nat) (L : Ledger) (h : SVec.Inv c x) :
    SVec.Inv c (SVec.resize c zero x n L).1 ∧ (SVec.resize c zero x n L).1.size = (if n ≤ c then n else x.size) := by
  obtain ⟨h1, h2⟩ := h
  by_cases hn : n ≤ c
  · obtain ⟨hr, hl, _⟩ := svec_resize_spec c zero x n L h1 h2 hn
    rw [hr]; simp only [hn, if_true]; exact ⟨⟨hl, hn⟩, trivial⟩
  · simp only [SVec.resize, hn, if_false]; exact ⟨⟨h1, h2⟩, trivial⟩

theorem copyFrom_led (c : Nat) (v o : SVec α) (L : Ledger) (hv : SVec.Inv c v) (ho : SVec.Inv c o) :
    (SVec.copyFrom v o L).2 = L := by
  obtain ⟨h1, h2⟩ := hv; obtain ⟨h3, h4⟩ := ho
  have hc : decide (o.cells.length < v.size ∨ v.cells.length < v.size) = false := by simp; omega
  simp [SVec.copyFrom, hc, Ledger.flagIf]

theorem copyFrom_inv (c : Nat) (v o : SVec α) (L : Ledger) (hv : SVec.Inv c v) (ho : SVec.Inv c o) :
    SVec.Inv c (SVec.copyFrom v o L).1 := by
  obtain ⟨h1, h2⟩ := hv; obtain ⟨h3, h4⟩ := ho
  refine ⟨?_, h2⟩
  simp [SVec.copyFrom, List.length_take]; omega

theorem assign_inv (c : Nat) (zero : α) (v o : SVec α) (L : Ledger) (hv : SVec.Inv c v) (ho : SVec.Inv c o) :
    SVec.Inv c (SVec.assign c zero v o L).1 :=
  copyFrom_inv c _ o _ (resize_inv c zero v o.size L hv).1 ho

theorem assign_led (c : Nat) (zero : α) (v o : SVec α) (L : Ledger) (hv : SVec.Inv c v) (ho : SVec.Inv c o) :
    (SVec.assign c zero v o L).2 = L := by
  simp only [SVec.assign]
  rw [copyFrom_led c _ o _ (resize_inv c zero v o.size L hv).1 ho, resize_led c zero v o.size L hv]

theorem assignSelf_led (c : Nat) (zero : α) (v : SVec α) (L : Ledger) (hv : SVec.Inv c v) :
    (SVec.assignSelf c zero v L).2 = L := by
  simp only [SVec.assignSelf]
  have hi := (resize_inv c zero v v.size L hv).1
  rw [copyFrom_led c _ _ _ hi hi, resize_led c zero v v.size L hv]

theorem store_led (v : SVec α) (i : Nat) (x : Cell α) (L : Ledger) (hi : i < v.cells.length) : (v.store i x L).2 = L := by
  simp [SVec.store, hi]

theorem push_led (c : Nat) (zero : α) (v : SVec α) (a : α) (L : Ledger) (hv : SVec.Inv c v) :
    (SVec.push c zero v a L).2 = L := by
  by_cases hc : c < v.size + 1
  · simp [SVec.push, hc]
  · have hr := resize_inv c zero v (v.size + 1) L hv
    have hle : v.size + 1 ≤ c := by omega
    simp only [hle, if_true] at hr
    simp only [SVec.push, hc, if_false]
    rw [store_led _ _ _ _ (by rw [hr.2, hr.1.1]; omega), resize_led c zero v _ L hv]

theorem pushAt_led (c : Nat) (zero : α) (v : SVec α) (i : Nat) (L : Ledger) (hv : SVec.Inv c v) (hi : i < v.size) :
    (SVec.pushAt c zero v i L).2 = L := by
  by_cases hc : c < v.size + 1
  · simp [SVec.pushAt, hc]
  · have hr := resize_inv c zero v (v.size + 1) L hv
    have hle : v.size + 1 ≤ c := by omega
    simp only [hle, if_true] at hr
    have hil : i < v.cells.length := by have := hv.1; have := hv.2; omega
    simp only [SVec.pushAt, hc, if_false, List.getElem?_eq_getElem hil]
    rw [store_led _ _ _ _ (by rw [hr.2, hr.1.1]; omega), resize_led c zero v _ L hv]

theorem read_led (c : Nat) (v : SVec α) (i : Nat) (L : Ledger) (hv : SVec.Inv c v) (hi : i < v.size) :
    (SVec.read v i L).2 = L := by
  have hil : i < v.cells.length := by have := hv.1; have := hv.2; omega
  simp [SVec.read, List.getElem?_eq_getElem hil]

end SVec

theorem RSVec.inv {c : Nat} {v : SVec α} {l : List α} (h : RSVec c v l) : SVec.Inv c v := ⟨h.len, h.le⟩

theorem svec_inv_fresh (c : Nat) (zero : α) : SVec.Inv c (Small.freshSt c zero) := by
  simp [SVec.Inv, Small.freshSt]

namespace Small

theorem write_tag (x : Small α) (i : Nat) (a : α) (L : Ledger) : (write x i a L).1.tagS = x.tagS := by
  cases ht : x.tagS <;> simp [write, ht]

theorem storeAll_tag (x : Small α) (i : Nat) (as : List α) (L : Ledger) : (storeAll x i as L).1.tagS = x.tagS := by
  induction as generalizing x i L with
  | nil => rfl
  | cons a as ih => simp only [storeAll]; rw [ih, write_tag]

/-- `storeAll` on a static-mode object within the buffer: the ledger is not touched -/
theorem storeAll_led_st (x : Small α) (ht : x.tagS = true) (i : Nat) (as : List α) (L : Ledger)
    (h : i + as.length ≤ x.st.cells.length) : (storeAll x i as L).2 = L := by
  rw [storeAll_st x ht i as L h]

end Small

theorem small_static_sim (c : Nat) (zero : α) :
    Sim (smallImpl c zero) (stdSpec zero) (RStat c) (smallStaticOk c) where
  size_eq := fun x y h => h.rsmall.size_eq
  mkDefault := fun s L M hok =>
    RStat.of_rsmall (by simp [smallImpl, Small.mkDefault]) ((small_sim c zero).mkDefault s L M (smallOk_of_static hok))
  mkSized := fun s n L M hok => by
    have hn : n < c := hok
    exact RStat.of_rsmall (by simp [smallImpl, Small.mkSized, hn]) ((small_sim c zero).mkSized s n L M (smallOk_of_static hok))
  mkVariadic := fun s vs L M hok => by
    have hn : vs.length ≤ c := hok
    refine RStat.of_rsmall ?_ ((small_sim c zero).mkVariadic s vs L M (smallOk_of_static hok))
    simp only [smallImpl, Small.mkVariadic]
    rw [Small.storeAll_tag]
    simp [Small.resize, Small.mkDefault, hn]
  mkCopy := fun d s x y L M hok h =>
    RStat.of_rsmall (by simp [smallImpl, Small.mkCopy, h.1]) ((small_sim c zero).mkCopy d s x y L M (smallOk_of_static hok) h.rsmall)
  assign := fun d s x y x' y' L M hok h h' =>
    RStat.of_rsmall (by simp [smallImpl, Small.assign, h.1, h'.1])
      ((small_sim c zero).assign d s x y x' y' L M (smallOk_of_static hok) h.rsmall h'.rsmall)
  assignSelf := fun d x y L M hok h =>
    RStat.of_rsmall (by simp [smallImpl, Small.assignSelf, h.1]) ((small_sim c zero).assignSelf d x y L M (smallOk_of_static hok) h.rsmall)
  push := fun s a x y L M hok h => by
    have hlt : y.length < c := hok
    have hsz := h.rsmall.size_eq
    have hc : ¬ x.size = c := by omega
    exact RStat.of_rsmall (by simp [smallImpl, Small.push, hc, h.1]) ((small_sim c zero).push s a x y L M (smallOk_of_static hok) h.rsmall)
  pushAt := fun s i x y L M hok h hi => by
    have hlt : y.length < c := hok hi
    have hsz := h.rsmall.size_eq
    have hc : ¬ x.size = c := by omega
    exact RStat.of_rsmall (by simp [smallImpl, Small.pushAt, hc, h.1])
      ((small_sim c zero).pushAt s i x y L M (smallOk_of_static hok) h.rsmall hi)
  resize := fun s n x y L M hok h => by
    have hn : n ≤ c := hok
    exact RStat.of_rsmall (by simp [smallImpl, Small.resize, hn, h.1]) ((small_sim c zero).resize s n x y L M (smallOk_of_static hok) h.rsmall)
  write := fun s i a x y L M hok h hi =>
    RStat.of_rsmall (by rw [show (smallImpl c zero).write = Small.write from rfl, Small.write_tag]; exact h.1)
      ((small_sim c zero).write s i a x y L M (smallOk_of_static hok) h.rsmall hi)

/-- in static mode every operation hands the ledger back untouched -/
theorem small_static_fix (c : Nat) (zero : α) :
    LedFix (smallImpl c zero) (stdSpec zero) (RStat c) (smallStaticOk c) where
  mkDefault := fun s L _ => rfl
  mkSized := fun s n L hok => by
    have hn : n < c := hok
    simp only [smallImpl, Small.mkSized, hn, if_true]
    have hf := svec_inv_fresh c zero (α := α)
    have h1 := SVec.assign_inv c zero _ _ L hf hf
    rw [SVec.resize_led c zero _ n _ h1, SVec.assign_led c zero _ _ L hf hf]
  mkVariadic := fun s vs L hok => by
    have hn : vs.length ≤ c := hok
    obtain ⟨hrs, hl, _⟩ := svec_resize_spec c zero (Small.freshSt c zero) vs.length L (by simp [Small.freshSt]) (by simp [Small.freshSt]) hn
    have hr : Small.resize c zero (Small.mkDefault c zero L).1 vs.length (Small.mkDefault c zero L).2 =
        ({ (Small.mkDefault c zero L).1 with st := { cells := initRange zero (Small.freshSt c zero).cells 0 vs.length, size := vs.length } }, L) := by
      simp only [Small.resize, Small.mkDefault, if_true, hn, hrs]; simp [Small.freshSt]
    have hl' : (initRange zero (Small.freshSt c zero).cells 0 vs.length).length = c := by simpa [Small.freshSt] using hl
    simp only [smallImpl, Small.mkVariadic]
    rw [hr, Small.storeAll_led_st _ (by simp [Small.mkDefault]) 0 vs L (by simp only [Small.mkDefault]; omega)]
  mkCopy := fun d s x y L _ h => by
    simp only [smallImpl, Small.mkCopy, h.1, if_true]
  assign := fun d s x y x' y' L _ h h' => by
    simp only [smallImpl, Small.assign, h.1, h'.1, bne_self_eq_false, Bool.false_eq_true, if_false, if_true]
    exact SVec.assign_led c zero _ _ L h.2.inv h'.2.inv
  assignSelf := fun d x y L _ h => rfl
  push := fun s a x y L hok h => by
    have hlt : y.length < c := hok
    have hsz := h.rsmall.size_eq
    have hc : ¬ x.size = c := by omega
    simp only [smallImpl, Small.push, hc, if_false, h.1, if_true]
    exact SVec.push_led c zero _ a L h.2.inv
  pushAt := fun s i x y L hok h hi => by
    have hlt : y.length < c := hok hi
    have hsz := h.rsmall.size_eq
    have hc : ¬ x.size = c := by omega
    have hi' : i < x.st.size := by
      have : x.size = x.st.size := by simp [Small.size, h.1]
      have hi'' : i < y.length := hi
      omega
    simp only [smallImpl, Small.pushAt, hc, if_false, h.1, if_true]
    exact SVec.pushAt_led c zero _ i L h.2.inv hi'
  resize := fun s n x y L hok h => by
    have hn : n ≤ c := hok
    simp only [smallImpl, Small.resize, h.1, if_true, hn]
    exact SVec.resize_led c zero _ n L h.2.inv
  write := fun s i a x y L _ h hi => by
    have hi' : i < x.st.cells.length := by
      have : x.size = x.st.size := by simp [Small.size, h.1]
      have hi'' : i < y.length := hi
      have := h.rsmall.size_eq; have := h.2.len; have := h.2.le
      omega
    simp only [smallImpl, Small.write, h.1, if_true, SVec.write]
    exact SVec.store_led _ _ _ L hi'
  read := fun s i x y L _ h hi => by
    have hi' : i < x.st.size := by
      have : x.size = x.st.size := by simp [Small.size, h.1]
      have hi'' : i < y.length := hi
      have := h.rsmall.size_eq
      omega
    simp only [smallImpl, Small.read, h.1, if_true]
    exact SVec.read_led c _ i L h.2.inv hi'
  destroy := fun s x y L _ h => by simp [smallImpl, Small.destroy, h.1]

/-! ### conservation of blocks: `allocs − |freed| − |lost|` = number of live objects in heap mode -/

namespace Vec

theorem mkDefault_bal (L : Ledger) : (mkDefault (α := α) L).2.bal = L.bal + 1 := by
  simp only [mkDefault]; exact Ledger.bal_alloc L

theorem resize_bal (zero : α) (v : Vec α) (n : Nat) (L : Ledger) (h : v.blk.isSome) :
    (v.resize zero n L).2.bal = L.bal := by
  obtain ⟨p, hp⟩ := Option.isSome_iff_exists.mp h
  unfold resize
  simp only [hp]
  split
  · rw [Ledger.bal_free, Ledger.bal_flagIf, Ledger.bal_alloc]; omega
  · rw [Ledger.bal_flagIf]

theorem resize_bal_raw (zero : α) (v : Vec α) (n : Nat) (L : Ledger) (h : v.blk = none) :
    (v.resize zero n L).2.bal = L.bal + 1 := by
  unfold resize
  simp only [h]
  exact Ledger.bal_alloc L

theorem resize_blk (zero : α) (v : Vec α) (n : Nat) (L : Ledger) : (v.resize zero n L).1.blk.isSome := by
  unfold resize
  split
  · rfl
  · split <;> simp [*]

theorem copyFrom_bal (v o : Vec α) (L : Ledger) : (v.copyFrom o L).2.bal = L.bal := by
  simp only [copyFrom]; exact Ledger.bal_flagIf _ _ _

theorem copyFrom_blk (v o : Vec α) (L : Ledger) : (v.copyFrom o L).1.blk = v.blk := rfl

theorem store_bal (v : Vec α) (i : Nat) (x : Cell α) (L : Ledger) : (v.store i x L).2.bal = L.bal := by
  simp only [store]; split <;> rfl

theorem store_blk (v : Vec α) (i : Nat) (x : Cell α) (L : Ledger) : (v.store i x L).1.blk = v.blk := by
  simp only [store]; split <;> rfl

theorem assign_bal (zero : α) (v o : Vec α) (L : Ledger) (h : v.blk.isSome) : (assign zero v o L).2.bal = L.bal := by
  simp only [assign]; rw [copyFrom_bal, resize_bal zero v _ L h]

theorem assign_bal_raw (zero : α) (v o : Vec α) (L : Ledger) (h : v.blk = none) : (assign zero v o L).2.bal = L.bal + 1 := by
  simp only [assign]; rw [copyFrom_bal, resize_bal_raw zero v _ L h]

theorem pushCell_bal (zero : α) (v : Vec α) (x : Cell α) (L : Ledger) (h : v.blk.isSome) :
    (pushCell zero v x L).2.bal = L.bal := by
  unfold pushCell
  split
  · rw [store_bal, resize_bal zero v _ L h]
  · rw [store_bal]

theorem pushAt_bal (zero : α) (v : Vec α) (i : Nat) (L : Ledger) (h : v.blk.isSome) :
    (pushAt zero v i L).2.bal = L.bal := by
  unfold pushAt
  split
  · exact pushCell_bal zero v _ L h
  · rw [pushCell_bal zero v _ _ h]; rfl

theorem read_bal (v : Vec α) (i : Nat) (L : Ledger) : (read v i L).2.bal = L.bal := by
  unfold read; split <;> rfl

theorem destroy_bal (v : Vec α) (L : Ledger) (h : v.blk.isSome) : (destroy v L).bal = L.bal - 1 := by
  obtain ⟨p, hp⟩ := Option.isSome_iff_exists.mp h
  simp only [destroy, hp]; exact Ledger.bal_free L p

theorem pushAt_inv (zero : α) (v : Vec α) (i : Nat) (L : Ledger) (h : v.Inv) : (pushAt zero v i L).1.Inv := by
  unfold pushAt
  split
  · exact (pushCell_spec zero v _ L h).1
  · exact (pushCell_spec zero v _ _ h).1

end Vec

namespace SVec

theorem resize_bal (c : Nat) (zero : α) (x : SVec α) (n : Nat) (L : Ledger) : (SVec.resize c zero x n L).2.bal = L.bal := by
  simp only [SVec.resize]; split
  · exact Ledger.bal_flagIf _ _ _
  · rfl

theorem copyFrom_bal (v o : SVec α) (L : Ledger) : (SVec.copyFrom v o L).2.bal = L.bal := by
  simp only [SVec.copyFrom]; exact Ledger.bal_flagIf _ _ _

theorem assign_bal (c : Nat) (zero : α) (v o : SVec α) (L : Ledger) : (SVec.assign c zero v o L).2.bal = L.bal := by
  simp only [SVec.assign]; rw [copyFrom_bal, resize_bal]

theorem assignSelf_bal (c : Nat) (zero : α) (v : SVec α) (L : Ledger) : (SVec.assignSelf c zero v L).2.bal = L.bal := by
  simp only [SVec.assignSelf]; rw [copyFrom_bal, resize_bal]

theorem store_bal (v : SVec α) (i : Nat) (x : Cell α) (L : Ledger) : (v.store i x L).2.bal = L.bal := by
  simp only [SVec.store]; split <;> rfl

theorem store_inv (c : Nat) (v : SVec α) (i : Nat) (x : Cell α) (L : Ledger) (h : SVec.Inv c v) : SVec.Inv c (v.store i x L).1 := by
  obtain ⟨h1, h2⟩ := h
  simp only [SVec.store]; split
  · exact ⟨by simp [h1], h2⟩
  · exact ⟨h1, h2⟩

theorem push_bal (c : Nat) (zero : α) (v : SVec α) (a : α) (L : Ledger) : (SVec.push c zero v a L).2.bal = L.bal := by
  simp only [SVec.push]; split
  · rfl
  · rw [store_bal, resize_bal]

theorem push_inv (c : Nat) (zero : α) (v : SVec α) (a : α) (L : Ledger) (h : SVec.Inv c v) : SVec.Inv c (SVec.push c zero v a L).1 := by
  simp only [SVec.push]; split
  · exact h
  · exact store_inv c _ _ _ _ (resize_inv c zero v _ L h).1

theorem pushAt_bal (c : Nat) (zero : α) (v : SVec α) (i : Nat) (L : Ledger) : (SVec.pushAt c zero v i L).2.bal = L.bal := by
  simp only [SVec.pushAt]; split
  · rfl
  · split
    · rw [store_bal, resize_bal]
    · rw [store_bal, Ledger.bal_flag, resize_bal]

theorem pushAt_inv (c : Nat) (zero : α) (v : SVec α) (i : Nat) (L : Ledger) (h : SVec.Inv c v) : SVec.Inv c (SVec.pushAt c zero v i L).1 := by
  simp only [SVec.pushAt]; split
  · exact h
  · split <;> exact store_inv c _ _ _ _ (resize_inv c zero v _ L h).1

theorem read_bal (v : SVec α) (i : Nat) (L : Ledger) : (SVec.read v i L).2.bal = L.bal := by
  unfold SVec.read; split <;> rfl

theorem assignSelf_inv (c : Nat) (zero : α) (v : SVec α) (L : Ledger) (hv : SVec.Inv c v) :
    SVec.Inv c (SVec.assignSelf c zero v L).1 := by
  have hi := (resize_inv c zero v v.size L hv).1
  exact copyFrom_inv c _ _ _ hi hi

end SVec

/-- the operation records no event and drops no block -/
def Ledger.Same (L L' : Ledger) : Prop := L'.events = L.events ∧ L'.lost = L.lost

theorem Ledger.Same.rfl' (L : Ledger) : Ledger.Same L L := ⟨rfl, rfl⟩
theorem Ledger.Same.trans {L1 L2 L3 : Ledger} (h1 : Ledger.Same L1 L2) (h2 : Ledger.Same L2 L3) : Ledger.Same L1 L3 :=
  ⟨h2.1.trans h1.1, h2.2.trans h1.2⟩
theorem Ledger.same_of_eq {L L' : Ledger} (h : L' = L) : Ledger.Same L L' := by subst h; exact ⟨rfl, rfl⟩

namespace Vec

theorem mkDefault_same (L : Ledger) : Ledger.Same L (mkDefault (α := α) L).2 := ⟨rfl, rfl⟩

theorem resize_same' (zero : α) (v : Vec α) (n : Nat) (L : Ledger) (h : v.Inv) : Ledger.Same L (v.resize zero n L).2 := by
  obtain ⟨p, hp⟩ := Option.isSome_iff_exists.mp h.blk
  have h1 := h.len; have h2 := h.le
  unfold resize
  simp only [hp]
  split
  · have hc : decide (v.cells.length < v.size) = false := by simp; omega
    simp [Ledger.Same, hc, Ledger.flagIf, Ledger.free, Ledger.alloc]
  · have hc : decide (v.size < n ∧ v.cells.length < n) = false := by simp; omega
    simp [Ledger.Same, hc, Ledger.flagIf]

theorem copyFrom_same (v o : Vec α) (L : Ledger) (h : v.Inv) (ho : o.Inv) (hs : v.size = o.size) :
    Ledger.Same L (v.copyFrom o L).2 := by
  have h1 := h.len; have h2 := h.le; have h3 := ho.len; have h4 := ho.le
  have hc : decide (o.cells.length < v.size ∨ v.cells.length < v.size) = false := by simp; omega
  simp [copyFrom, hc, Ledger.flagIf, Ledger.Same]

theorem assign_same (zero : α) (v o : Vec α) (L : Ledger) (h : v.Inv) (ho : o.Inv) : Ledger.Same L (assign zero v o L).2 :=
  (resize_same' zero v o.size L h).trans
    (copyFrom_same _ o _ (resize_inv zero v o.size L h) ho (resize_size zero v o.size L h))

theorem mkCopy_same (zero : α) (o : Vec α) (L : Ledger) (ho : o.Inv) : Ledger.Same L (mkCopy zero o L).2 := by
  have h0 := mkDefault_inv (α := α) L
  exact (mkDefault_same L).trans ((resize_same' zero _ o.size _ h0).trans
    (copyFrom_same _ o _ (resize_inv zero _ o.size _ h0) ho (resize_size zero _ o.size _ h0)))

theorem mkCopy_bal (zero : α) (o : Vec α) (L : Ledger) : (mkCopy zero o L).2.bal = L.bal + 1 := by
  simp only [mkCopy]
  rw [copyFrom_bal, resize_bal zero _ _ _ (by simp [mkDefault]), mkDefault_bal]

theorem store_same (v : Vec α) (i : Nat) (x : Cell α) (L : Ledger) (hi : i < v.cells.length) : Ledger.Same L (v.store i x L).2 := by
  simp [store, hi, Ledger.Same]

theorem pushCell_same (zero : α) (v : Vec α) (x : Cell α) (L : Ledger) (h : v.Inv) : Ledger.Same L (pushCell zero v x L).2 := by
  have h1 := h.len; have h2 := h.le
  unfold pushCell
  split
  · have hi := resize_inv zero v (v.size + 1) L h
    have hs := resize_size zero v (v.size + 1) L h
    exact (resize_same' zero v _ L h).trans (store_same _ _ _ _ (by have := hi.len; have := hi.le; omega))
  · exact store_same _ _ _ _ (by simp; omega)

theorem pushAt_same (zero : α) (v : Vec α) (i : Nat) (L : Ledger) (h : v.Inv) (hi : i < v.size) :
    Ledger.Same L (pushAt zero v i L).2 := by
  have h1 := h.len; have h2 := h.le
  have hil : i < v.cells.length := by omega
  simp only [pushAt, List.getElem?_eq_getElem hil]
  exact pushCell_same zero v _ L h

theorem destroy_same (v : Vec α) (L : Ledger) : Ledger.Same L (destroy v L) := by
  unfold destroy; split <;> exact ⟨rfl, rfl⟩

theorem read_same (v : Vec α) (i : Nat) (L : Ledger) (h : v.Inv) (hi : i < v.size) : Ledger.Same L (read v i L).2 := by
  have h1 := h.len; have h2 := h.le
  have hil : i < v.cells.length := by omega
  simp [read, List.getElem?_eq_getElem hil, Ledger.Same]

end Vec

namespace Small

/-- representation invariant: the active part is well formed -/
def Inv (c : Nat) (x : Small α) : Prop := (x.tagS = true → SVec.Inv c x.st) ∧ (x.tagS = false → x.dy.Inv)

/-- blocks owned by the object -/
def own (x : Small α) : Nat := if x.tagS then 0 else 1

theorem inv_st {c : Nat} {x : Small α} (ht : x.tagS = true) (h : SVec.Inv c x.st) : Inv c x :=
  ⟨fun _ => h, fun e => (by rw [ht] at e; cases e)⟩
theorem inv_dy {c : Nat} {x : Small α} (ht : x.tagS = false) (h : x.dy.Inv) : Inv c x :=
  ⟨fun e => (by rw [ht] at e; cases e), fun _ => h⟩
theorem own_st {x : Small α} (ht : x.tagS = true) : own x = 0 := by simp [own, ht]
theorem own_dy {x : Small α} (ht : x.tagS = false) : own x = 1 := by simp [own, ht]

/-- summary of an operation: invariant kept, balance follows ownership (`ob` = blocks owned before), no event is
    recorded and no block dropped -/
structure SGood (c : Nat) (ob : Nat) (L : Ledger) (r : Small α × Ledger) : Prop where
  inv : Inv c r.1
  bal : r.2.bal = L.bal + own r.1 - ob
  same : Ledger.Same L r.2

theorem SGood.trans {c : Nat} {ob : Nat} {L : Ledger} {r1 r2 : Small α × Ledger} (h1 : SGood c ob L r1)
    (h2 : SGood c (own r1.1) r1.2 r2) : SGood c ob L r2 :=
  ⟨h2.inv, by rw [h2.bal, h1.bal]; omega, h1.same.trans h2.same⟩

theorem mkSized_bal (c : Nat) (zero : α) (n : Nat) (L : Ledger) (hn : ¬ n < c) : (mkSized c zero n L).2.bal = L.bal + 1 := by
  simp only [mkSized, hn, if_false]
  have hb : (Vec.mkCopy zero (Vec.mkDefault (α := α) L).1 (Vec.mkDefault (α := α) L).2).1.blk.isSome :=
    (Vec.mkCopy_spec zero _ _ (Vec.mkDefault_inv L)).1.blk
  rw [Vec.resize_bal zero _ n _ hb, Vec.destroy_bal _ _ (by simp [Vec.mkDefault]), Vec.mkCopy_bal, Vec.mkDefault_bal]
  omega

theorem mkSized_same (c : Nat) (zero : α) (n : Nat) (L : Ledger) (hn : ¬ n < c) : Ledger.Same L (mkSized c zero n L).2 := by
  simp only [mkSized, hn, if_false]
  have hd := Vec.mkDefault_inv (α := α) L
  have hc := Vec.mkCopy_spec zero (Vec.mkDefault (α := α) L).1 (Vec.mkDefault (α := α) L).2 hd
  exact (Vec.mkDefault_same L).trans ((Vec.mkCopy_same zero _ _ hd).trans ((Vec.destroy_same _ _).trans
    (Vec.resize_same' zero _ n _ hc.1)))

theorem mkSized_good (c : Nat) (zero : α) (n : Nat) (L : Ledger) : SGood c 0 L (mkSized c zero n L) := by
  by_cases hn : n < c
  · have hf := svec_inv_fresh c zero (α := α)
    have h1 := SVec.assign_inv c zero _ _ L hf hf
    refine ⟨?_, ?_, ?_⟩
    · simp only [mkSized, hn, if_true]
      exact inv_st rfl (SVec.resize_inv c zero _ n _ h1).1
    · simp only [mkSized, hn, if_true]
      rw [SVec.resize_bal, SVec.assign_bal, own_st rfl]; omega
    · simp only [mkSized, hn, if_true]
      exact Ledger.same_of_eq (by rw [SVec.resize_led c zero _ n _ h1, SVec.assign_led c zero _ _ L hf hf])
  · obtain ⟨ht, hi, _⟩ := mkSized_dyn c zero n L hn
    exact ⟨inv_dy ht hi, by rw [mkSized_bal c zero n L hn, own_dy ht]; omega, mkSized_same c zero n L hn⟩

theorem storeCell_tag (x : Small α) (i : Nat) (v : Cell α) (L : Ledger) : (storeCell x i v L).1.tagS = x.tagS := by
  cases ht : x.tagS <;> simp [storeCell, ht]

theorem storeCell_good (c : Nat) (x : Small α) (i : Nat) (v : Cell α) (L : Ledger) (h : Inv c x) (hi : i < x.size) :
    SGood c (own x) L (storeCell x i v L) := by
  cases ht : x.tagS with
  | true =>
    have hs := h.1 ht
    have hil : i < x.st.cells.length := by have := hs.1; have := hs.2; simp [size, ht] at hi; omega
    refine ⟨?_, ?_, ?_⟩
    · simp only [storeCell, ht, if_true]; exact inv_st rfl (SVec.store_inv c _ _ _ _ hs)
    · simp only [storeCell, ht, if_true]; rw [SVec.store_bal]; simp only [own, ht, if_true, Bool.false_eq_true, if_false] <;> omega
    · simp only [storeCell, ht, if_true]; exact Ledger.same_of_eq (SVec.store_led _ _ _ _ hil)
  | false =>
    have hd := h.2 ht
    have hil : i < x.dy.cells.length := by have := hd.len; have := hd.le; simp [size, ht] at hi; omega
    refine ⟨?_, ?_, ?_⟩
    · simp only [storeCell, ht, Bool.false_eq_true, if_false]; exact inv_dy rfl (Vec.store_inv _ _ _ _ hd)
    · simp only [storeCell, ht, Bool.false_eq_true, if_false]; rw [Vec.store_bal]; simp only [own, ht, if_true, Bool.false_eq_true, if_false] <;> omega
    · simp only [storeCell, ht, Bool.false_eq_true, if_false]; exact Vec.store_same _ _ _ _ hil

theorem storeCell_size (x : Small α) (i : Nat) (v : Cell α) (L : Ledger) : (storeCell x i v L).1.size = x.size := by
  cases ht : x.tagS
  · simp only [storeCell, ht, Bool.false_eq_true, if_false, size, Vec.store]; split <;> rfl
  · simp only [storeCell, ht, if_true, size, SVec.store]; split <;> rfl

theorem storeAll_good (c : Nat) (x : Small α) (i : Nat) (as : List α) (L : Ledger) (h : Inv c x)
    (hb : i + as.length ≤ x.size) : SGood c (own x) L (storeAll x i as L) := by
  induction as generalizing x i L with
  | nil => exact ⟨h, by simp only [storeAll]; omega, Ledger.Same.rfl' L⟩
  | cons a as ih =>
    simp only [List.length_cons] at hb
    simp only [storeAll, write_eq_storeCell]
    have g1 := storeCell_good c x i (some a) L h (by omega)
    exact g1.trans (ih _ _ _ g1.inv (by rw [storeCell_size]; omega))

theorem write_bal (x : Small α) (i : Nat) (a : α) (L : Ledger) : (write x i a L).2.bal = L.bal := by
  simp only [write]; split
  · exact SVec.store_bal _ _ _ _
  · exact Vec.store_bal _ _ _ _

theorem storeAll_bal (x : Small α) (i : Nat) (as : List α) (L : Ledger) : (storeAll x i as L).2.bal = L.bal := by
  induction as generalizing x i L with
  | nil => rfl
  | cons a as ih => simp only [storeAll]; rw [ih, write_bal]

theorem resize_good (c : Nat) (zero : α) (x : Small α) (n : Nat) (L : Ledger) (h : Inv c x) :
    SGood c (own x) L (resize c zero x n L) := by
  cases ht : x.tagS with
  | true =>
    have hs := h.1 ht
    by_cases hn : n ≤ c
    · refine ⟨?_, ?_, ?_⟩
      · simp only [resize, ht, if_true, hn]; exact inv_st rfl (SVec.resize_inv c zero _ n L hs).1
      · simp only [resize, ht, if_true, hn]; rw [SVec.resize_bal]; simp only [own, ht, if_true, Bool.false_eq_true, if_false] <;> omega
      · simp only [resize, ht, if_true, hn]; exact Ledger.same_of_eq (SVec.resize_led c zero _ n L hs)
    · obtain ⟨htag, hinv, _⟩ := resize_grow_dyn c zero x n L ht hs.1 hs.2 (by omega)
      have hnc : ¬ n < c := by omega
      obtain ⟨_, hnbinv, hnbview⟩ := mkSized_dyn c zero n L hnc
      have hnbsz : (mkSized c zero n L).1.dy.size = n := by
        have := Vec.view_length _ hnbinv; rw [hnbview] at this; simpa using this.symm
      -- the temporary with the copied prefix is still a well-formed vector
      have hpatch : ({ (mkSized c zero n L).1.dy with
          cells := x.st.cells.take x.st.size ++ (mkSized c zero n L).1.dy.cells.drop x.st.size } : Vec α).Inv := by
        have hl := hnbinv.len; have hle := hnbinv.le
        refine ⟨hnbinv.blk, ?_, hnbinv.le⟩
        have := hs.1; have := hs.2
        simp [List.length_take]; omega
      have hflag : decide (x.st.cells.length < x.st.size ∨ (mkSized c zero n L).1.dy.cells.length < x.st.size) = false := by
        have hl := hnbinv.len; have hle := hnbinv.le
        have := hs.1; have := hs.2
        simp; omega
      refine ⟨inv_dy htag hinv, ?_, ?_⟩
      · rw [own_dy htag, own_st ht]
        simp only [resize, ht, if_true, hn, if_false]
        rw [Vec.destroy_bal _ _ hpatch.blk, Vec.mkCopy_bal, Ledger.bal_flagIf, mkSized_bal c zero n L hnc]
        omega
      · simp only [resize, ht, if_true, hn, if_false, hflag, Ledger.flagIf]
        exact (mkSized_same c zero n L hnc).trans ((Vec.mkCopy_same zero _ _ hpatch).trans (Vec.destroy_same _ _))
  | false =>
    have hd := h.2 ht
    refine ⟨?_, ?_, ?_⟩
    · simp only [resize, ht, Bool.false_eq_true, if_false]; exact inv_dy rfl (Vec.resize_inv zero _ n L hd)
    · simp only [resize, ht, Bool.false_eq_true, if_false]; rw [Vec.resize_bal zero _ n L hd.blk]; simp only [own, ht, if_true, Bool.false_eq_true, if_false] <;> omega
    · simp only [resize, ht, Bool.false_eq_true, if_false]; exact Vec.resize_same' zero _ n L hd

theorem resize_size (c : Nat) (zero : α) (x : Small α) (n : Nat) (L : Ledger) (h : Inv c x) (hx : x.size ≤ n) (hn : c < n ∨ ¬ x.tagS) :
    (resize c zero x n L).1.size = n := by
  cases ht : x.tagS with
  | true =>
    have hs := h.1 ht
    have hc : c < n := by rcases hn with h' | h'; exact h'; simp [ht] at h'
    obtain ⟨htag, hinv, hview⟩ := resize_grow_dyn c zero x n L ht hs.1 hs.2 hc
    have := Vec.view_length _ hinv
    rw [hview] at this
    have hxs : x.size = x.st.size := by simp [size, ht]
    have hvl : x.st.view.length = x.st.size := by
      have := hs.1; have := hs.2
      simp only [SVec.view, List.length_take]; omega
    simp [size, htag] at this ⊢
    omega
  | false =>
    simp only [resize, ht, Bool.false_eq_true, if_false, size]
    exact Vec.resize_size zero _ n L (h.2 ht)

theorem push_good (c : Nat) (zero : α) (x : Small α) (a : α) (L : Ledger) (h : Inv c x) :
    SGood c (own x) L (push c zero x a L) := by
  by_cases hc : x.size = c
  · simp only [push, hc, if_true]
    have g1 := resize_good c zero x (c + 1) L h
    have hsz := resize_size c zero x (c + 1) L h (by omega) (by
      cases ht : x.tagS with
      | true => left; omega
      | false => right; simp)
    rw [write_eq_storeCell]
    exact g1.trans (storeCell_good c _ _ _ _ g1.inv (by omega))
  · cases ht : x.tagS with
    | true =>
      refine ⟨?_, ?_, ?_⟩
      · simp only [push, hc, if_false, ht, if_true]; exact inv_st rfl (SVec.push_inv c zero _ a L (h.1 ht))
      · simp only [push, hc, if_false, ht, if_true]; rw [SVec.push_bal]; simp only [own, ht, if_true, Bool.false_eq_true, if_false] <;> omega
      · simp only [push, hc, if_false, ht, if_true]; exact Ledger.same_of_eq (SVec.push_led c zero _ a L (h.1 ht))
    | false =>
      refine ⟨?_, ?_, ?_⟩
      · simp only [push, hc, if_false, ht, Bool.false_eq_true]; exact inv_dy rfl (Vec.pushCell_spec zero _ _ L (h.2 ht)).1
      · simp only [push, hc, if_false, ht, Bool.false_eq_true, Vec.push]
        rw [Vec.pushCell_bal zero _ _ L (h.2 ht).blk]; simp only [own, ht, if_true, Bool.false_eq_true, if_false] <;> omega
      · simp only [push, hc, if_false, ht, Bool.false_eq_true, Vec.push]; exact Vec.pushCell_same zero _ _ L (h.2 ht)

theorem pushAt_good (c : Nat) (zero : α) (x : Small α) (i : Nat) (L : Ledger) (h : Inv c x) (hi : i < x.size) :
    SGood c (own x) L (pushAt c zero x i L) := by
  by_cases hc : x.size = c
  · have hcell : ∃ v, (if x.tagS then x.st.cells else x.dy.cells)[i]? = some v := by
      cases ht : x.tagS with
      | true =>
        have hs := h.1 ht
        have : i < x.st.cells.length := by have := hs.1; have := hs.2; simp [size, ht] at hi; omega
        exact ⟨_, by simp only [if_true]; exact List.getElem?_eq_getElem this⟩
      | false =>
        have hd := h.2 ht
        have : i < x.dy.cells.length := by have := hd.len; have := hd.le; simp [size, ht] at hi; omega
        exact ⟨_, by simp only [Bool.false_eq_true, if_false]; exact List.getElem?_eq_getElem this⟩
    obtain ⟨v, hv⟩ := hcell
    simp only [pushAt, hc, if_true, hv]
    have g1 := resize_good c zero x (c + 1) L h
    have hsz := resize_size c zero x (c + 1) L h (by omega) (by
      cases ht : x.tagS with
      | true => left; omega
      | false => right; simp)
    exact g1.trans (storeCell_good c _ _ _ _ g1.inv (by omega))
  · cases ht : x.tagS with
    | true =>
      have hi' : i < x.st.size := by simpa [size, ht] using hi
      refine ⟨?_, ?_, ?_⟩
      · simp only [pushAt, hc, if_false, ht, if_true]; exact inv_st rfl (SVec.pushAt_inv c zero _ i L (h.1 ht))
      · simp only [pushAt, hc, if_false, ht, if_true]; rw [SVec.pushAt_bal]; simp only [own, ht, if_true, Bool.false_eq_true, if_false] <;> omega
      · simp only [pushAt, hc, if_false, ht, if_true]; exact Ledger.same_of_eq (SVec.pushAt_led c zero _ i L (h.1 ht) hi')
    | false =>
      have hi' : i < x.dy.size := by simpa [size, ht] using hi
      refine ⟨?_, ?_, ?_⟩
      · simp only [pushAt, hc, if_false, ht, Bool.false_eq_true]; exact inv_dy rfl (Vec.pushAt_inv zero _ i L (h.2 ht))
      · simp only [pushAt, hc, if_false, ht, Bool.false_eq_true]
        rw [Vec.pushAt_bal zero _ i L (h.2 ht).blk]; simp only [own, ht, if_true, Bool.false_eq_true, if_false] <;> omega
      · simp only [pushAt, hc, if_false, ht, Bool.false_eq_true]; exact Vec.pushAt_same zero _ i L (h.2 ht) hi'

theorem mkCopy_good (c : Nat) (zero : α) (o : Small α) (L : Ledger) (h : Inv c o) : SGood c 0 L (mkCopy c zero o L) := by
  cases ht : o.tagS with
  | true =>
    simp only [mkCopy, ht, if_true]
    exact ⟨inv_st rfl (h.1 ht), by rw [own_st rfl]; show L.bal = _; omega, Ledger.Same.rfl' L⟩
  | false =>
    simp only [mkCopy, ht, Bool.false_eq_true, if_false]
    exact ⟨inv_dy rfl (Vec.mkCopy_spec zero o.dy L (h.2 ht)).1, by rw [Vec.mkCopy_bal, own_dy rfl]; omega,
      Vec.mkCopy_same zero o.dy L (h.2 ht)⟩

theorem assign_good (c : Nat) (zero : α) (x o : Small α) (L : Ledger) (h : Inv c x) (ho : Inv c o) :
    SGood c (own x) L (assign c zero x o L) := by
  cases ht : x.tagS <;> cases ht' : o.tagS
  · refine ⟨?_, ?_, ?_⟩
    · simp only [assign, ht, ht', bne_self_eq_false, Bool.false_eq_true, if_false]
      exact inv_dy rfl (Vec.assign_spec zero _ _ L (h.2 ht) (ho.2 ht')).1
    · simp only [assign, ht, ht', bne_self_eq_false, Bool.false_eq_true, if_false]
      rw [Vec.assign_bal zero _ _ L (h.2 ht).blk]; simp only [own, ht, if_true, Bool.false_eq_true, if_false] <;> omega
    · simp only [assign, ht, ht', bne_self_eq_false, Bool.false_eq_true, if_false]
      exact Vec.assign_same zero _ _ L (h.2 ht) (ho.2 ht')
  · simp only [assign, ht, ht', Bool.bne_true, Bool.not_false, if_true]
    exact ⟨inv_st rfl (ho.1 ht'), by
      rw [Vec.destroy_bal _ _ (h.2 ht).blk]; simp only [own, ht, if_true, Bool.false_eq_true, if_false] <;> omega,
      Vec.destroy_same _ _⟩
  · simp only [assign, ht, ht', Bool.bne_false, if_true, Bool.false_eq_true, if_false]
    exact ⟨inv_dy rfl (Vec.mkCopy_spec zero o.dy L (ho.2 ht')).1, by
      rw [Vec.mkCopy_bal]; simp only [own, ht, if_true, Bool.false_eq_true, if_false] <;> omega,
      Vec.mkCopy_same zero o.dy L (ho.2 ht')⟩
  · refine ⟨?_, ?_, ?_⟩
    · simp only [assign, ht, ht', bne_self_eq_false, Bool.false_eq_true, if_false, if_true]
      exact inv_st rfl (SVec.assign_inv c zero _ _ L (h.1 ht) (ho.1 ht'))
    · simp only [assign, ht, ht', bne_self_eq_false, Bool.false_eq_true, if_false, if_true]
      rw [SVec.assign_bal]; simp only [own, ht, if_true, Bool.false_eq_true, if_false] <;> omega
    · simp only [assign, ht, ht', bne_self_eq_false, Bool.false_eq_true, if_false, if_true]
      exact Ledger.same_of_eq (SVec.assign_led c zero _ _ L (h.1 ht) (ho.1 ht'))

end Small

theorem RSmall.inv {c : Nat} {x : Small α} {l : List α} (h : RSmall c x l) : Small.Inv c x := by
  cases ht : x.tagS with
  | true => exact Small.inv_st ht ((rsmall_st ht).mp h).inv
  | false => exact Small.inv_dy ht ((rsmall_dy ht).mp h).1

/-- every operation of `small_vector` keeps the representation invariant and changes the balance of the ledger by
    exactly the change of the number of blocks its object owns (0 in static mode, 1 in heap mode) -/
theorem small_bal (c : Nat) (zero : α) : Bal (smallImpl c zero) (Small.Inv c) Small.own where
  mkDefault := fun L => ⟨Small.inv_st rfl (svec_inv_fresh c zero), by
    show L.bal = L.bal + ((Small.own (Small.mkDefault c zero L).1 : Nat) : Int)
    rw [Small.own_st rfl]; omega⟩
  mkSized := fun n L => by
    have g := Small.mkSized_good c zero n L
    exact ⟨g.inv, by have := g.bal; simp only [smallImpl]; omega⟩
  mkVariadic := fun vs L => by
    have hi := ((small_sim c zero).mkVariadic 0 vs L L trivial).inv
    refine ⟨hi, ?_⟩
    show (Small.mkVariadic c zero vs L).2.bal = L.bal + (Small.own (Small.mkVariadic c zero vs L).1 : Nat)
    have g := Small.resize_good c zero (Small.mkDefault c zero L).1 vs.length (Small.mkDefault c zero L).2
      (Small.inv_st rfl (svec_inv_fresh c zero))
    have ho : Small.own (Small.mkVariadic c zero vs L).1
        = Small.own (Small.resize c zero (Small.mkDefault c zero L).1 vs.length (Small.mkDefault c zero L).2).1 := by
      simp only [Small.own, Small.mkVariadic, Small.storeAll_tag]
    have hb := g.bal
    rw [Small.own_st (x := (Small.mkDefault c zero L).1) rfl] at hb
    rw [ho]
    simp only [Small.mkVariadic]
    rw [Small.storeAll_bal, hb]
    simp only [Small.mkDefault]; omega
  mkCopy := fun x L h => by
    have g := Small.mkCopy_good c zero x L h
    exact ⟨g.inv, by have := g.bal; simp only [smallImpl]; omega⟩
  assign := fun x y L h h' => by
    have g := Small.assign_good c zero x y L h h'
    exact ⟨g.inv, g.bal⟩
  assignSelf := fun x L h => ⟨h, by show L.bal = L.bal + (Small.own x : Nat) - (Small.own x : Nat); omega⟩
  push := fun a x L h => by
    have g := Small.push_good c zero x a L h
    exact ⟨g.inv, g.bal⟩
  pushAt := fun i x L h hi => by
    have g := Small.pushAt_good c zero x i L h hi
    exact ⟨g.inv, g.bal⟩
  resize := fun n x L h => by
    have g := Small.resize_good c zero x n L h
    exact ⟨g.inv, g.bal⟩
  write := fun i a x L h hi => by
    have g := Small.storeCell_good c x i (some a) L h hi
    rw [← Small.write_eq_storeCell] at g
    exact ⟨g.inv, g.bal⟩
  read := fun i x L _ _ => by
    show (Small.read x i L).2.bal = L.bal
    simp only [Small.read]; split
    · exact SVec.read_bal _ _ _
    · exact Vec.read_bal _ _ _
  destroy := fun x L h => by
    show (Small.destroy x L).bal = L.bal - (Small.own x : Nat)
    cases ht : x.tagS with
    | true => simp only [Small.destroy, ht, if_true, Small.own_st ht]; omega
    | false =>
      simp only [Small.destroy, ht, Bool.false_eq_true, if_false]
      rw [Vec.destroy_bal _ _ (h.2 ht).blk, Small.own_dy ht]; omega

/-- the ledger never records an event (out-of-bounds access, read of freed memory, lifetime error) and never drops a block -/
def Ledger.Quiet (L : Ledger) : Prop := L.events = [] ∧ L.lost = []

theorem Ledger.Quiet.of_same {L L' : Ledger} (h : Ledger.Quiet L) (hs : Ledger.Same L L') : Ledger.Quiet L' :=
  ⟨hs.1.trans h.1, hs.2.trans h.2⟩

theorem small_quiet (c : Nat) (zero : α) : Pres (smallImpl c zero) (Small.Inv c) Ledger.Quiet (fun _ => True) where
  mkDefault := fun s L _ hq => ⟨Small.inv_st rfl (svec_inv_fresh c zero), hq⟩
  mkSized := fun s n L _ hq => by
    have g := Small.mkSized_good c zero n L
    exact ⟨g.inv, hq.of_same g.same⟩
  mkVariadic := fun s vs L _ hq => by
    have g1 := Small.resize_good c zero (Small.mkDefault c zero L).1 vs.length L
      (Small.inv_st rfl (svec_inv_fresh c zero))
    have hsz : (Small.resize c zero (Small.mkDefault c zero L).1 vs.length L).1.size = vs.length := by
      have hr := ((small_sim c zero).resize 0 vs.length (Small.mkDefault c zero L).1 [] L L trivial
        (by simpa [RSmall, Small.mkDefault] using rsvec_fresh c zero)).size_eq
      have : (listResize zero ([] : List α) vs.length).length = vs.length := by
        simp only [listResize]; split
        · have : vs.length = 0 := by simpa using ‹vs.length ≤ ([] : List α).length›
          simp [this]
        · simp
      simpa [smallImpl, stdSpec, this] using hr
    have g2 := Small.storeAll_good c (Small.resize c zero (Small.mkDefault c zero L).1 vs.length L).1 0 vs
      (Small.resize c zero (Small.mkDefault c zero L).1 vs.length L).2 g1.inv (by omega)
    have g := g1.trans g2
    exact ⟨g.inv, hq.of_same g.same⟩
  mkCopy := fun d s x L _ hp hq => by
    have g := Small.mkCopy_good c zero x L hp
    exact ⟨g.inv, hq.of_same g.same⟩
  assign := fun d s x y L _ hx hy hq => by
    have g := Small.assign_good c zero x y L hx hy
    exact ⟨g.inv, hq.of_same g.same⟩
  assignSelf := fun d x L _ hx hq => ⟨hx, hq⟩
  push := fun s a x L _ hx hq => by
    have g := Small.push_good c zero x a L hx
    exact ⟨g.inv, hq.of_same g.same⟩
  pushAt := fun s i x L _ hx hq hi => by
    have g := Small.pushAt_good c zero x i L hx hi
    exact ⟨g.inv, hq.of_same g.same⟩
  resize := fun s n x L _ hx hq => by
    have g := Small.resize_good c zero x n L hx
    exact ⟨g.inv, hq.of_same g.same⟩
  write := fun s i a x L _ hx hq hi => by
    have g := Small.storeCell_good c x i (some a) L hx hi
    rw [← Small.write_eq_storeCell] at g
    exact ⟨g.inv, hq.of_same g.same⟩
  read := fun s i x L _ hx hq hi => by
    have hi' : i < x.size := hi
    show Ledger.Quiet (Small.read x i L).2
    cases ht : x.tagS with
    | true =>
      simp only [Small.read, ht, if_true]
      rw [SVec.read_led c _ i L (hx.1 ht) (by simpa [Small.size, ht] using hi')]; exact hq
    | false =>
      simp only [Small.read, ht, Bool.false_eq_true, if_false]
      exact hq.of_same (Vec.read_same _ i L (hx.2 ht) (by simpa [Small.size, ht] using hi'))
  destroy := fun s x L _ hx hq => by
    show Ledger.Quiet (Small.destroy x L)
    simp only [Small.destroy]; split
    · exact hq
    · exact hq.of_same (Vec.destroy_same _ _)

/-! ### exact allocator cost of the static → heap switch -/

/-- the allocator part of the ledger -/
def Ledger.fp (L : Ledger) : Nat × List Nat × List Nat := (L.allocs, L.freed, L.lost)

theorem Ledger.fp_flag (L : Ledger) (e : Event) : (L.flag e).fp = L.fp := rfl
theorem Ledger.fp_flagIf (L : Ledger) (b : Bool) (e : Event) : (L.flagIf b e).fp = L.fp := by cases b <;> rfl

namespace Vec
theorem copyFrom_fp (v o : Vec α) (L : Ledger) : (v.copyFrom o L).2.fp = L.fp := by
  simp only [copyFrom]; exact Ledger.fp_flagIf _ _ _

theorem copyFrom_allocs (v o : Vec α) (L : Ledger) : (v.copyFrom o L).2.allocs = L.allocs := congrArg Prod.fst (copyFrom_fp v o L)
theorem copyFrom_freed (v o : Vec α) (L : Ledger) : (v.copyFrom o L).2.freed = L.freed := congrArg (fun t => t.2.1) (copyFrom_fp v o L)
theorem copyFrom_lost (v o : Vec α) (L : Ledger) : (v.copyFrom o L).2.lost = L.lost := congrArg (fun t => t.2.2) (copyFrom_fp v o L)

theorem resize_fp_grow (zero : α) (v : Vec α) (n : Nat) (L : Ledger) (p : Nat) (hp : v.blk = some p) (hn : v.cap < n) :
    (v.resize zero n L).2.fp = (L.allocs + 1, p :: L.freed, L.lost) ∧ (v.resize zero n L).1.blk = some L.allocs := by
  unfold resize
  simp only [hp, hn, if_true]
  cases hd : decide (v.cells.length < v.size) <;> simp [Ledger.fp, Ledger.free, Ledger.flagIf, Ledger.alloc, Ledger.flag]

theorem resize_fp_keep (zero : α) (v : Vec α) (n : Nat) (L : Ledger) (p : Nat) (hp : v.blk = some p) (hn : ¬ v.cap < n) :
    (v.resize zero n L).2.fp = L.fp ∧ (v.resize zero n L).1.blk = some p := by
  unfold resize
  simp only [hp, hn, if_false]
  exact ⟨Ledger.fp_flagIf _ _ _, trivial⟩
end Vec

namespace Small

/-- cost of `small_vector(n)`, `n ≥ DIM`, `n ≥ 1`: the temporary default vector, its copy inside the union and (for
    `n > 4`) the reallocation by `resize(n)` -/
theorem mkSized_cost (c : Nat) (zero : α) (n : Nat) (L : Ledger) (hn : ¬ n < c) :
    (mkSized c zero n L).2.fp =
      (if 4 < n then (L.allocs + 3, (L.allocs + 1) :: L.allocs :: L.freed, L.lost) else (L.allocs + 2, L.allocs :: L.freed, L.lost)) ∧
    (mkSized c zero n L).1.dy.blk = some (if 4 < n then L.allocs + 2 else L.allocs + 1) ∧ (mkSized c zero n L).1.dy.size = n ∧
    (mkSized c zero n L).1.dy.cap = (if 4 < n then n else 4) := by
  by_cases h4 : 4 < n
  · simp [mkSized, hn, Vec.mkDefault, Vec.mkCopy, Vec.assign, Vec.resize, Ledger.alloc, Ledger.flag, Ledger.flagIf, Vec.copyFrom,
      Vec.destroy, Ledger.free, h4, Ledger.fp, initRange]
  · simp [mkSized, hn, Vec.mkDefault, Vec.mkCopy, Vec.assign, Vec.resize, Ledger.alloc, Ledger.flag, Ledger.flagIf, Vec.copyFrom,
      Vec.destroy, Ledger.free, h4, Ledger.fp, initRange]

/-- cost of the static → heap switch `resize(n)`, `n > DIM` (also taken by the `push_back` at size DIM): the temporary
    `small_vector(n)`, the copy construction of its vector inside the union (a block of 4, reallocated when `n > 4`)
    and the destruction of the temporary — every block but the final one is freed -/
theorem resize_switch_cost (c : Nat) (zero : α) (x : Small α) (n : Nat) (L : Ledger) (ht : x.tagS = true) (hn : c < n) :
    (resize c zero x n L).2.fp =
      (if 4 < n then (L.allocs + 5, (L.allocs + 2) :: (L.allocs + 3) :: (L.allocs + 1) :: L.allocs :: L.freed, L.lost)
       else (L.allocs + 3, (L.allocs + 1) :: L.allocs :: L.freed, L.lost)) ∧
    (resize c zero x n L).1.dy.blk = some (if 4 < n then L.allocs + 4 else L.allocs + 2) := by
  have hnc : ¬ n ≤ c := by omega
  obtain ⟨hfp, hb, hsz, _⟩ := mkSized_cost c zero n L (by omega)
  simp only [resize, ht, if_true, hnc, if_false]
  generalize mkSized c zero n L = nb at hfp hb hsz
  generalize hL2 : nb.2.flagIf (decide (x.st.cells.length < x.st.size ∨ nb.1.dy.cells.length < x.st.size)) Event.oob = L2
  have hL2fp : L2.fp = nb.2.fp := by rw [← hL2]; exact Ledger.fp_flagIf _ _ _
  by_cases h4 : 4 < n
  · simp only [h4, if_true] at hfp hb ⊢
    have hL2a : L2.allocs = L.allocs + 3 := congrArg Prod.fst (hL2fp.trans hfp)
    have hL2f : L2.freed = (L.allocs + 1) :: L.allocs :: L.freed := congrArg (fun t => t.2.1) (hL2fp.trans hfp)
    have hL2l : L2.lost = L.lost := congrArg (fun t => t.2.2) (hL2fp.trans hfp)
    obtain ⟨h1, h2⟩ := Vec.resize_fp_grow zero (Vec.mkDefault (α := α) L2).1 n (Vec.mkDefault (α := α) L2).2 L2.allocs
      (by simp [Vec.mkDefault, Ledger.alloc]) (by simpa [Vec.mkDefault] using h4)
    simp only [Vec.mkCopy, hsz, Vec.destroy, hb]
    refine ⟨?_, ?_⟩
    · simp only [Ledger.fp, Ledger.free, Prod.mk.injEq] at h1 ⊢
      simp only [Vec.copyFrom_allocs, Vec.copyFrom_freed, Vec.copyFrom_lost]
      rw [h1.1, h1.2.1, h1.2.2]
      simp [Vec.mkDefault, Ledger.alloc, hL2a, hL2f, hL2l]
    · simp only [Vec.copyFrom]; rw [h2]; simp [Vec.mkDefault, Ledger.alloc, hL2a]
  · simp only [h4, if_false] at hfp hb ⊢
    have hL2a : L2.allocs = L.allocs + 2 := congrArg Prod.fst (hL2fp.trans hfp)
    have hL2f : L2.freed = L.allocs :: L.freed := congrArg (fun t => t.2.1) (hL2fp.trans hfp)
    have hL2l : L2.lost = L.lost := congrArg (fun t => t.2.2) (hL2fp.trans hfp)
    obtain ⟨h1, h2⟩ := Vec.resize_fp_keep zero (Vec.mkDefault (α := α) L2).1 n (Vec.mkDefault (α := α) L2).2 L2.allocs
      (by simp [Vec.mkDefault, Ledger.alloc]) (by simpa [Vec.mkDefault] using h4)
    simp only [Vec.mkCopy, hsz, Vec.destroy, hb]
    refine ⟨?_, ?_⟩
    · simp only [Ledger.fp, Ledger.free, Prod.mk.injEq] at h1 ⊢
      simp only [Vec.copyFrom_allocs, Vec.copyFrom_freed, Vec.copyFrom_lost]
      rw [h1.1, h1.2.1, h1.2.2]
      simp [Vec.mkDefault, Ledger.alloc, hL2a, hL2f, hL2l]
    · simp only [Vec.copyFrom]; rw [h2]; simp [hL2a]

end Small
end NmVerif.Containers
