// C05 harness TU: dynamic (run-time list of either) encoding: shape_dynamic_slice / dynamic_slice / view::apply_slice
#include "c05_common.hpp"
using namespace c05;

std::string handle(const std::string& op, const Args& a) {
    if (op == "slice2")   // slice2 shape=<src> sl=<first index> sl2=<second index>: a[sl][sl2] through two nested views
        return run_slice2(nats(a, "shape"), parse_slices(get(a, "sl")), parse_slices(get(a, "sl2")));
    if (op != "slice") return "unknown-op";
    auto enc = get(a, "enc"); auto level = get(a, "level");
    auto src = nats(a, "shape"); auto es = parse_slices(get(a, "sl"));
    uvec at_v; if (has(a, "at")) { at_v = nats(a, "at"); at_arg() = &at_v; } else at_arg() = nullptr;
    if (enc == "dynA") return run_dynA(level, src, es);
    if (enc != "dynP") return "bad-args";
    // the None-pattern of the request = pattern of its first range entry that is not all-int (default: all-int tuple)
    int K = K_R3;
    for (auto& e : es) if (e.kind >= K_R3 && e.kind != K_R3) { K = e.kind; break; }
    switch (K) {
#define CASE(K) case K: return run_dynP<K>(level, src, es);
        CASE(2) CASE(3) CASE(4) CASE(5) CASE(6) CASE(7) CASE(8) CASE(9) CASE(10) CASE(11) CASE(12) CASE(13)
#undef CASE
    }
    return "bad-args";
}
