import NmVerif.Index.Tile
import NmVerif.Lemmas.Addressing
import NmVerif.Lemmas.SelUtil
/-
  SPEC of np.tile and proofs that the MODEL (Index/Tile.lean) meets it.
  NumPy doc: result rank = max(len reps, A.ndim); the shorter of shape / reps is promoted by prepending 1s;
  result extent = shape·reps; element `d` is the element of the (promoted) source at `d mod shape`.
-/
namespace NmVerif.Index

/-- prepend `x` until length `n` -/
def leftPad (n : Nat) (x : Nat) (l : List Nat) : List Nat := List.replicate (n - l.length) x ++ l

/-- NumPy: shape of `np.tile(A, reps)` -/
def tileShapeSpec (s r : List Nat) : Shape :=
  List.zipWith (· * ·) (leftPad (max s.length r.length) 1 s) (leftPad (max s.length r.length) 1 r)

/-- NumPy: source index of element `d` of `np.tile(A, reps)`: drop the prepended axes, reduce mod the extent -/
def tileIdxSpec (s : Shape) (d : Idx) : Idx :=
  List.zipWith (fun i a => i % a) (d.drop (d.length - s.length)) s

theorem shapeTileRev_length (s r : List Nat) : (shapeTileRev s r).length = max s.length r.length := by
  induction s generalizing r with
  | nil => simp [shapeTileRev]
  | cons a s ih =>
    cases r with
    | nil => simp [shapeTileRev]
    | cons b r => simp [shapeTileRev, ih]

theorem shapeTileRev_eq (s r : List Nat) :
    shapeTileRev s r = List.zipWith (· * ·) (s ++ List.replicate (max s.length r.length - s.length) 1)
      (r ++ List.replicate (max s.length r.length - r.length) 1) := by
  induction s generalizing r with
  | nil =>
    have : ∀ l : List Nat, List.zipWith (· * ·) (List.replicate l.length 1) l = l := by
      intro l; induction l with
      | nil => simp
      | cons x l ih => simp [List.replicate_succ, ih]
    simp [shapeTileRev, this]
  | cons a s ih =>
    cases r with
    | nil =>
      simp [shapeTileRev]
      have : ∀ l : List Nat, List.zipWith (· * ·) l (List.replicate l.length 1) = l := by
        intro l; induction l with
        | nil => simp
        | cons x l ih => simp [List.replicate_succ, ih]
      have h := this (a :: s)
      simp at h
      rw [h]
    | cons b r =>
      simp only [shapeTileRev, List.length_cons, List.cons_append, List.zipWith_cons_cons]
      rw [ih r]
      have h1 : max (s.length + 1) (r.length + 1) - (s.length + 1) = max s.length r.length - s.length := by omega
      have h2 : max (s.length + 1) (r.length + 1) - (r.length + 1) = max s.length r.length - r.length := by omega
      rw [h1, h2]

theorem leftPad_length (n x : Nat) (l : List Nat) (h : l.length ≤ n) : (leftPad n x l).length = n := by
  simp [leftPad]; omega

theorem leftPad_reverse (n x : Nat) (l : List Nat) :
    (leftPad n x l).reverse = l.reverse ++ List.replicate (n - l.length) x := by
  simp [leftPad]

/-- `shape_tile` computes NumPy's tile shape -/
theorem shapeTile_eq_spec (s r : List Nat) : shapeTile s r = tileShapeSpec s r := by
  unfold shapeTile tileShapeSpec
  rw [shapeTileRev_eq]
  have hl : (leftPad (max s.length r.length) 1 s).length = (leftPad (max s.length r.length) 1 r).length := by
    rw [leftPad_length _ _ _ (by omega), leftPad_length _ _ _ (by omega)]
  rw [← List.reverse_inj, List.reverse_reverse, List.reverse_zipWith hl, leftPad_reverse, leftPad_reverse]
  simp

theorem indexTileRev_eq (s d : List Nat) :
    indexTileRev s d = List.zipWith (fun i a => i % a) d s := by
  induction s generalizing d with
  | nil => cases d <;> simp [indexTileRev]
  | cons a s ih =>
    cases d with
    | nil => simp [indexTileRev]
    | cons i d => simp [indexTileRev, ih]

theorem zipWith_take_left {α β γ} (f : α → β → γ) (a : List α) (b : List β) (n : Nat) (h : b.length ≤ n) :
    List.zipWith f (a.take n) b = List.zipWith f a b := by
  induction a generalizing b n with
  | nil => simp
  | cons x a ih =>
    cases b with
    | nil => simp
    | cons y b =>
      cases n with
      | zero => simp at h
      | succ n => simp at h; simp [ih b n h]

/-- `index::tile` computes NumPy's source index -/
theorem indexTile_eq_spec (s : Shape) (d : Idx) (h : s.length ≤ d.length) :
    indexTile s d = tileIdxSpec s d := by
  unfold indexTile tileIdxSpec
  rw [indexTileRev_eq]
  have hl : (d.drop (d.length - s.length)).length = s.length := by simp; omega
  rw [← List.reverse_inj, List.reverse_reverse, List.reverse_zipWith hl]
  have : (d.drop (d.length - s.length)).reverse = d.reverse.take s.length := by
    rw [List.reverse_drop]; congr 1; omega
  rw [this, zipWith_take_left _ _ _ _ (by simp)]

end NmVerif.Index

namespace NmVerif.Index

theorem shapeTile_length (s r : List Nat) : (shapeTile s r).length = max s.length r.length := by
  simp [shapeTile, shapeTileRev_length]

theorem indexTile_inShape (s r : List Nat) (hs : Pos s) (d : Idx) (hd : InShape d (shapeTile s r)) :
    InShape (indexTile s d) s := by
  have hl := hd.length_eq
  rw [shapeTile_length] at hl
  rw [indexTile_eq_spec s d (by omega)]
  exact inShape_zipWith_mod _ _ (by simp; omega) hs

end NmVerif.Index
