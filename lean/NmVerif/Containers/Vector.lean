import NmVerif.Containers.Core
/-
  NmVerif.Containers.Vector — mirror of `utl::vector<T>` (include/nmtools/utl/vector.hpp:117-296).

    buffer_      ↦ `blk` (block id handed out by the ledger, `none` = null) + `cells` (contents of that block,
                   one `Cell` per element, `none` = indeterminate: malloc'ed and never written)
    size_        ↦ `size`
    buffer_size_ ↦ `cap`

  Mirrored behaviours (each checked against the header):
    * `vector()` allocates 4; `vector(N)` allocates exactly N — also for N = 0 —, starts from size 0 and
      `resize(N)` value-initialises the N elements; copy ctor allocates 4, `resize(other.size_)`, element loop
    * `~vector()` frees whenever `buffer_` is non-null (also a `malloc(0)` block)
    * variadic ctor allocates 4, `resize(n)`, element writes through `at(i)` (l.183-197)
    * `operator=` = `resize(other.size_)` + element loop (l.199-207)
    * `resize` (l.209-228): sets size_, reallocates to *exactly* `new_size` only when `buffer_size_ < new_size`
      (memcpy of `old_size` elements, free of the old block), never shrinks the block; finally the elements
      `old_size … new_size-1` are value-initialised (`buffer_[i] = T{}`)
    * `push_back`: the argument is copied first (`const T value = t` — it may alias an element), then
      `resize(size_+1)` when `buffer_size_ < size_+1` else `size_++`; then `buffer_[size_-1] = value`
  (state of the code after the `fix:` commits C19-vector-value-init / -zero-sized-free / -alias-push)
  Core Lean only.
-/
namespace NmVerif.Containers

structure Vec (α : Type) where
  blk : Option Nat
  cells : List (Cell α)
  size : Nat
  cap : Nat
  deriving Repr

namespace Vec
variable {α : Type}

/-- `buffer_[i] = c` -/
def store (v : Vec α) (i : Nat) (c : Cell α) (L : Ledger) : Vec α × Ledger :=
  if i < v.cells.length then ({ v with cells := v.cells.set i c }, L) else (v, L.flag .oob)

/-- `vector()` -/
def mkDefault (L : Ledger) : Vec α × Ledger :=
  let r := L.alloc
  ({ blk := some r.1, cells := List.replicate 4 none, size := 0, cap := 4 }, r.2)

/-- `resize(new_size)` -/
def resize (zero : α) (v : Vec α) (n : Nat) (L : Ledger) : Vec α × Ledger :=
  match v.blk with
  | none =>
    let r := L.alloc
    ({ blk := some r.1, cells := List.replicate n (some zero), size := n, cap := n }, r.2)
  | some p =>
    if v.cap < n then
      let r := L.alloc
      -- memcpy of old_size elements out of the old block
      let L' := r.2.flagIf (decide (v.cells.length < v.size)) .oob
      ({ blk := some r.1, cells := v.cells.take v.size ++ List.replicate (n - v.size) (some zero), size := n, cap := n },
       L'.free p)
    else ({ v with size := n, cells := initRange zero v.cells v.size n },
          L.flagIf (decide (v.size < n ∧ v.cells.length < n)) .oob)

/-- `vector(N)` -/
def mkSized (zero : α) (n : Nat) (L : Ledger) : Vec α × Ledger :=
  let r := L.alloc
  resize zero { blk := some r.1, cells := List.replicate n none, size := 0, cap := n } n r.2

/-- `for i < size_: buffer_[i] = other.buffer_[i]` -/
def copyFrom (v : Vec α) (o : Vec α) (L : Ledger) : Vec α × Ledger :=
  ({ v with cells := o.cells.take v.size ++ v.cells.drop v.size },
   L.flagIf (decide (o.cells.length < v.size ∨ v.cells.length < v.size)) .oob)

/-- `vector(const vector&)` -/
def mkCopy (zero : α) (o : Vec α) (L : Ledger) : Vec α × Ledger :=
  let r := mkDefault (α := α) L
  let r := r.1.resize zero o.size r.2
  r.1.copyFrom o r.2

/-- `operator=(other)`, `other` a different object -/
def assign (zero : α) (v o : Vec α) (L : Ledger) : Vec α × Ledger :=
  let r := v.resize zero o.size L
  r.1.copyFrom o r.2

/-- `x = x` -/
def assignSelf (zero : α) (v : Vec α) (L : Ledger) : Vec α × Ledger :=
  let r := v.resize zero v.size L
  r.1.copyFrom r.1 r.2

/-- element writes `at(i) = vᵢ` of the variadic constructor -/
def storeAll (v : Vec α) : Nat → List α → Ledger → Vec α × Ledger
  | _, [], L => (v, L)
  | i, a :: as, L => let r := v.store i (some a) L; storeAll r.1 (i + 1) as r.2

/-- `vector(a, b, ts…)` -/
def mkVariadic (zero : α) (vs : List α) (L : Ledger) : Vec α × Ledger :=
  let r := mkDefault (α := α) L
  let r := r.1.resize zero vs.length r.2
  storeAll r.1 0 vs r.2

/-- `push_back` of an already copied value (a cell) -/
def pushCell (zero : α) (v : Vec α) (c : Cell α) (L : Ledger) : Vec α × Ledger :=
  let r := if v.cap < v.size + 1 then v.resize zero (v.size + 1) L
           else ({ v with size := v.size + 1 }, L)
  r.1.store (r.1.size - 1) c r.2

/-- `push_back(t)` -/
def push (zero : α) (v : Vec α) (a : α) (L : Ledger) : Vec α × Ledger := pushCell zero v (some a) L

/-- `push_back(buffer_[i])`: the element is copied before anything else happens -/
def pushAt (zero : α) (v : Vec α) (i : Nat) (L : Ledger) : Vec α × Ledger :=
  match v.cells[i]? with
  | some c => pushCell zero v c L
  | none => pushCell zero v none (L.flag .oob)

def write (v : Vec α) (i : Nat) (a : α) (L : Ledger) : Vec α × Ledger := v.store i (some a) L

def read (v : Vec α) (i : Nat) (L : Ledger) : Cell α × Ledger :=
  match v.cells[i]? with
  | some c => (c, L)
  | none => (none, L.flag .oob)

/-- `~vector()` -/
def destroy (v : Vec α) (L : Ledger) : Ledger :=
  match v.blk with
  | some p => L.free p
  | none => L

def view (v : Vec α) : List (Cell α) := v.cells.take v.size

end Vec

def vecImpl (zero : α) : Impl (Vec α) α where
  mkDefault := Vec.mkDefault
  mkSized := Vec.mkSized zero
  mkVariadic := Vec.mkVariadic zero
  mkCopy := Vec.mkCopy zero
  assign := Vec.assign zero
  assignSelf := Vec.assignSelf zero
  push := Vec.push zero
  pushAt := Vec.pushAt zero
  resize := Vec.resize zero
  write := Vec.write
  read := Vec.read
  destroy := Vec.destroy
  size := Vec.size
  view := Vec.view

end NmVerif.Containers
