import NmVerif.Functional
import NmVerif.Lemmas.Functional
import NmVerif.Lemmas.Graph
import NmVerif.Lemmas.FunctionalMaybe
/-
  C14 — Functors, currying, composition and extraction are equivalent to direct views.
  Only property statements (+ non-vacuity examples, counterexamples of known findings) live here.

  `V` (operand values) and `A` (attributes) are arbitrary types and the functors arbitrary functions: every theorem
  holds for every functor of array/functional, present or future.
-/
namespace NmVerif.Props.C14
open NmVerif.Functional

variable {A V : Type}

/-! ### currying -/

/-- fewer operands than the remaining arity: the functor keeps them and stays a functor -/
theorem curry_partial (g : Fn A V) (xs : List V) (h : xs.length < g.arity) : applyFn g xs = .curried (g.bind xs) :=
  applyFn_lt g xs h

/-- exactly the remaining arity: the fmap is called with the attributes and all operands, in order -/
theorem curry_saturate (g : Fn A V) (xs : List V) (h : xs.length = g.arity) :
    applyFn g xs = .values (g.f.fmap g.attrs (g.held ++ xs)) := applyFn_eq g xs h

/-- more operands than the arity: applied to the first `arity`, the others are passed on behind the result -/
theorem curry_pass_rest (g : Fn A V) (xs : List V) (h : g.arity < xs.length) :
    applyFn g xs = .values (g.f.fmap g.attrs (g.held ++ xs.take g.arity) ++ xs.drop g.arity) := applyFn_gt g xs h

/-- giving `xs` first and `ys` later is giving `xs ++ ys` at once — for every split -/
theorem curry_any_split (g : Fn A V) (xs ys : List V) (h : xs.length < g.arity) :
    applyFn (g.bind xs) ys = applyFn g (xs ++ ys) := by
  have har := Fn.arity_bind g xs
  by_cases hy : ys = []
  · subst hy
    rw [List.append_nil, applyFn_lt g xs h, applyFn_lt (g.bind xs) [] (by rw [har]; simp; omega)]
    simp
  · have hyl : 0 < ys.length := List.length_pos_iff.mpr hy
    by_cases h1 : ys.length < g.arity - xs.length
    · rw [applyFn_lt (g.bind xs) ys (by rw [har]; exact h1),
          applyFn_lt g (xs ++ ys) (by simp; omega), Fn.bind_bind]
    · by_cases h2 : ys.length = g.arity - xs.length
      · rw [applyFn_eq (g.bind xs) ys (by rw [har]; exact h2),
            applyFn_eq g (xs ++ ys) (by simp; omega), Fn.call_bind]
      · have h3 : g.arity - xs.length < ys.length := by omega
        rw [applyFn_gt (g.bind xs) ys (by rw [har]; exact h3),
            applyFn_gt g (xs ++ ys) (by simp; omega), Fn.call_bind, har]
        have ht : (xs ++ ys).take g.arity = xs ++ ys.take (g.arity - xs.length) := by
          rw [List.take_append]; simp [List.take_of_length_le (Nat.le_of_lt h)]
        have hd : (xs ++ ys).drop g.arity = ys.drop (g.arity - xs.length) := by
          rw [List.drop_append]; simp [List.drop_of_length_le (Nat.le_of_lt h)]
        rw [ht, hd]

/-- operands handed over in ANY sequence of non-empty chunks (`f (a) (b, c) (d)`) = all at once -/
theorem curry_chunks : ∀ (chunks : List (List V)) (g : Fn A V), (∀ c ∈ chunks, c ≠ []) → chunks ≠ [] →
    chunks.flatten.length = g.arity →
    applyChunks g chunks = some (.values (g.f.fmap g.attrs (g.held ++ chunks.flatten)))
  | [], _, _, hne, _ => absurd rfl hne
  | c :: cs, g, hall, _, hlen => by
    have hc : c ≠ [] := hall c (by simp)
    have hcl : 0 < c.length := List.length_pos_iff.mpr hc
    simp only [List.flatten_cons, List.length_append] at hlen
    by_cases hcs : cs = []
    · subst hcs
      simp only [List.flatten_nil, List.length_nil, Nat.add_zero] at hlen
      simp [applyChunks, applyFn_eq g c hlen, Fn.call]
    · have hcsl : 0 < cs.flatten.length := by
        cases cs with
        | nil => exact absurd rfl hcs
        | cons d ds =>
          have : d ≠ [] := hall d (by simp)
          have := List.length_pos_iff.mpr this
          simp; omega
      have hlt : c.length < g.arity := by omega
      simp only [applyChunks, applyFn_lt g c hlt]
      rw [curry_chunks cs (g.bind c) (fun d hd => hall d (by simp [hd])) hcs (by rw [Fn.arity_bind]; omega)]
      simp [Fn.bind, List.append_assoc]

/-- attributes (`operator[]`) and operands may be bound in either order -/
theorem attr_bind_comm (g : Fn A V) (a : A) (xs : List V) :
    (g.withAttr a).bind xs = (g.bind xs).withAttr a ∧ (g.withAttr a).arity = g.arity := ⟨rfl, rfl⟩

/-! ### composition -/

/-- every `operator*` overload concatenates the functor lists -/
theorem mul_toList (a b : FC A V) : (a.mul b).toList = a.toList ++ b.toList := by
  cases a <;> cases b <;> simp [FC.mul, FC.toList]

/-- hence a chain is independent of how it is parenthesised -/
theorem comp_assoc (a b c : FC A V) : ((a.mul b).mul c).toList = (a.mul (b.mul c)).toList := by
  simp [mul_toList, List.append_assoc]

theorem comp_assoc_apply (a b c : FC A V) (ops : List V) :
    applyComp ⟨((a.mul b).mul c).toList, []⟩ ops = applyComp ⟨(a.mul (b.mul c)).toList, []⟩ ops := by
  rw [comp_assoc]

/-- `(… * g)(operands)`: `g` gets the first `arity g` operands, its result(s) go in front of the remaining operands,
    and the rest of the chain is applied to that -/
theorem comp_apply (fs : List (Fn A V)) (g : Fn A V) (ops : List V) (h : g.arity ≤ ops.length) :
    applyComp ⟨fs ++ [g], []⟩ ops = applyComp ⟨fs, []⟩ (g.f.fmap g.attrs (g.held ++ ops.take g.arity) ++ ops.drop g.arity) := by
  simp only [applyComp, List.reverse_append, List.reverse_cons, List.reverse_nil, List.nil_append, List.singleton_append]
  exact run_step g fs.reverse ops h

/-- `f * g` applied to operands equals `f` applied to the result of `g`, remaining operands passed on -/
theorem comp_two (f g : Fn A V) (ops : List V) (hg : g.arity ≤ ops.length)
    (hf : f.arity ≤ (g.call (ops.take g.arity) ++ ops.drop g.arity).length) :
    applyComp ⟨[f, g], []⟩ ops =
      some (.values (f.call ((g.call (ops.take g.arity) ++ ops.drop g.arity).take f.arity)
        ++ (g.call (ops.take g.arity) ++ ops.drop g.arity).drop f.arity)) := by
  have := comp_apply [f] g ops hg
  simp only [List.singleton_append] at this
  rw [this]
  simp only [applyComp, List.reverse_cons, List.reverse_nil, List.nil_append]
  show run [f] (g.call (ops.take g.arity) ++ ops.drop g.arity) = _
  rw [run_step f [] _ hf]
  rfl

/-- too few operands for the right-most functor: the composition keeps them (currying) as long as arity remains -/
theorem comp_curry (fs : List (Fn A V)) (g : Fn A V) (ops : List V) (h : ops.length < g.arity)
    (har : 0 < (Comp.arity ⟨fs ++ [g], ops⟩) - ops.length) :
    applyComp ⟨fs ++ [g], []⟩ ops = some (.curried ⟨fs ++ [g], ops⟩) := by
  have hn : ¬ g.arity ≤ ops.length := by omega
  simp only [applyComp, List.reverse_append, List.reverse_cons, List.reverse_nil, List.nil_append, List.singleton_append,
    run, hn, if_false]
  simp only [List.reverse_cons, List.reverse_reverse] at har ⊢
  have : (ops.length : Int) < (Comp.arity ⟨fs ++ [g], ops⟩) := by omega
  simp [this]

/-! ### combinators are operand permutations -/

theorem swap_spec (a b : V) (ats : List A) : (swapF (A := A)).fmap ats [a, b] = [b, a] := rfl
theorem dup_spec (n : Nat) (a : V) (ats : List A) : (dupF (A := A) n).fmap ats [a] = List.replicate n a := rfl
/-- dig n: operand n comes to the front, the others keep their order -/
theorem dig_spec (n : Nat) (xs : List V) (x : V) (ys : List V) (ats : List A) (h : xs.length = n) :
    (digF (A := A) n).fmap ats (xs ++ x :: ys) = x :: (xs ++ ys) := by
  subst h; simp [digF]
/-- bury n: the front operand goes behind the next n -/
theorem bury_spec (n : Nat) (x : V) (xs ys : List V) (ats : List A) (h : xs.length = n) :
    (buryF (A := A) n).fmap ats (x :: (xs ++ ys)) = xs ++ x :: ys := by
  subst h; simp [buryF]
/-- bury undoes dig -/
theorem bury_dig (n : Nat) (xs : List V) (ats : List A) (h : xs.length = n + 1) :
    (buryF (A := A) n).fmap ats ((digF (A := A) n).fmap ats xs) = xs := by
  have hx : n < xs.length := by omega
  obtain ⟨l, x, r, rfl, hl⟩ : ∃ l x r, xs = l ++ x :: r ∧ l.length = n :=
    ⟨xs.take n, xs[n], xs.drop (n + 1), by simp [List.take_append_drop], by simp; omega⟩
  have hr : r = [] := by
    simp only [List.length_append, List.length_cons] at h
    exact List.eq_nil_of_length_eq_zero (by omega)
  subst hr
  rw [dig_spec n l x [] ats hl]
  have := bury_spec (A := A) n x l [] ats hl
  simpa using this

/-! ### extraction -/

/-- compiler correctness: on a view tree in which only FIRST operands are themselves views, the extracted composition
    applied to the extracted operands reproduces the view (host evaluation).  The tree may contain every operand kind
    the extraction code distinguishes: host arrays, aliased arrays, number literals, array-valued views and NUMBER-valued
    views (`View.snode`: a reduction over all axes, a 0-d result that broadcasts like a scalar). -/
theorem compile_correct (env : Nat → V) (v : View A V) (h : v.leftLinear = true) :
    applyComp ⟨v.compile, []⟩ (v.operandsOf.map env) = some (.values [v.denote env]) := by
  have := View.run_compile env v [] [] h
  simpa [applyComp, run] using this

/-- … also in front of further operands and further code (what makes extraction compositional) -/
theorem compile_frame (env : Nat → V) (v : View A V) (K : List (Fn A V)) (rest : List V) (h : v.leftLinear = true) :
    run (v.compile.reverse ++ K) (v.operandsOf.map env ++ rest) = run K (v.denote env :: rest) :=
  View.run_compile env v K rest h

/-- `fn::apply(function, operands)` compiles (`static_assert(arity == n_operands)`, functor.hpp:833-835): the static arity of
    the extracted composition is the number of extracted operands — for EVERY view tree whose nodes have as many operands
    as their arity, sub-views in any position -/
theorem compile_arity (v : View A V) (h : v.wellFormed = true) :
    Comp.arity ⟨v.compile, []⟩ = (v.operandsOf.length : Int) := by
  rw [Comp.arity_eq]
  have := View.sumArity_compile v h
  omega

/-- the trees of `compile_correct` are among them -/
theorem leftLinear_wellFormed (v : View A V) (h : v.leftLinear = true) : v.wellFormed = true :=
  View.leftLinear_wellFormed v h

/-- the extracted operands are the leaf arrays in reading order, one entry per occurrence -/
theorem operandsOf_are_leaves (v : View A V) : v.operandsOf = v.leavesAcc [] := by
  rw [View.leavesAcc_eq]; simp

/-- the `if constexpr` chain every operand goes through (alias → finish; view → its composition; number or array that
    is not a view → nothing) never drops the composition of a view — in particular not that of a NUMBER-valued view, which
    satisfies `is_num_v` as well as `is_view_v`: whatever the operand kind, the chain yields the operand's own composition -/
theorem operand_dispatch (v : View A V) : v.operandKindOk = true ∧ v.dispatch v.compile = v.compile :=
  ⟨by cases v <;> rfl, View.dispatch_compile v⟩

/-- a number-valued view operand contributes its whole composition, a literal / host array / alias none -/
theorem operand_dispatch_kinds (f : VFun A V) (ats : List A) (args : Args A V) (i : Nat) (sub : List (Fn A V)) :
    (View.snode f ats args).dispatch sub = sub ∧ (View.node f ats args).dispatch sub = sub ∧
    (View.lit i : View A V).dispatch sub = [] ∧ (View.leaf i : View A V).dispatch sub = [] ∧ (View.alias i : View A V).dispatch sub = [] :=
  ⟨rfl, rfl, rfl, rfl, rfl⟩

/-- the extracted composition has exactly one functor per operation of the view tree (array- and number-valued views
    alike, sub-views in any position), none for host arrays, aliases and literals -/
theorem compile_one_functor_per_op (v : View A V) : v.compile.length = v.nOps := View.compile_length v

/-- extraction preserves the parameters: the extracted composition, read in execution order, consists of exactly the operations
    of the view tree in post-order, each functor carrying the attribute list of ITS view (`functor[view.attributes()]`: the
    run-time parameters of a ufunc's op — leaky_relu slope, elu / celu alpha, hardtanh bounds, softplus beta / threshold,
    hardshrink / softshrink lambda, prelu alpha — travel in there) and no operands.  Any view tree, sub-views in any position. -/
theorem compile_preserves_params (v : View A V) :
    v.compile.reverse = v.opsPost.map VFun.bindAttrs ∧
    v.compile.reverse.map (·.attrs) = v.opsPost.map (·.2) := by
  have h := View.compile_reverse v
  refine ⟨h, ?_⟩
  rw [h, List.map_map]
  rfl

/-! ### operands that are `nmtools_maybe<view>` (the result of a functor whose view validates its arguments at run time) -/

/-- the maybe branch of a view function applied to operands that all have a value is the view function applied to the unwrapped
    operands WITH THE SAME ATTRIBUTES, wrapped again (what seeded change C14-4 breaks for view::unary_ufunc) -/
theorem maybe_view_forwards_attrs (f : Functor A V) (ats : List A) (xs : List V) :
    f.liftMaybe.fmap ats (xs.map some) = (f.fmap ats xs).map some := by
  simp [Functor.liftMaybe, allSome_map_some]

/-- a Nothing operand makes the result Nothing -/
theorem maybe_nothing_propagates (f : Functor A V) (ats : List A) (xs : List (Option V)) (h : none ∈ xs) :
    f.liftMaybe.fmap ats xs = [none] := by
  simp [Functor.liftMaybe, allSome_none xs h]

/-- applying a composition to maybe operands commutes with unwrapping: whenever the composition over plain operands yields
    values, the same composition of the maybe-lifted functors (same attributes, same held operands) over the wrapped operands
    yields exactly those values, wrapped — any number of functors, any arities, results of inner functors being maybes -/
theorem maybe_comp_unwrap (fs : List (Fn A V)) (ops vs : List V) (h : applyComp ⟨fs, []⟩ ops = some (.values vs)) :
    applyComp ⟨fs.map Fn.liftMaybe, []⟩ (ops.map some) = some (.values (vs.map some)) := by
  simp only [applyComp, List.nil_append] at h ⊢
  rw [← List.map_reverse]
  exact run_liftMaybe fs.reverse ops vs h

private def addV : VFun Unit Nat := ⟨2, fun _ xs => match xs with | [a, b] => a + b | _ => 0⟩
private def mulV : VFun Unit Nat := ⟨2, fun _ xs => match xs with | [a, b] => a * b | _ => 0⟩
private def negV : VFun Unit Nat := ⟨1, fun _ xs => match xs with | [a] => 1000 - a | _ => 0⟩
private def envE : Nat → Nat := fun i => [2, 3, 5].getD i 0
private def valuesOf : Option (CRes Unit Nat) → List Nat
  | some (.values vs) => vs
  | _ => []

/-- KNOWN FINDING extract.nonfirst-view-operand: `add(a, multiply(b, c))` — a view operand that is not the first
    operand.  Host: 2 + 3*5 = 17; extracted composition on extracted operands: (2*3) + 5 = 11. -/
theorem compile_nonfirst_counterexample :
    let v : View Unit Nat := .node addV [] (.cons (.leaf 0) (.cons (.node mulV [] (.cons (.leaf 1) (.cons (.leaf 2) .nil))) .nil))
    v.denote envE = 17 ∧ valuesOf (applyComp ⟨v.compile, []⟩ (v.operandsOf.map envE)) = [11] ∧ v.leftLinear = false := by
  decide

private def sumAllV : VFun Unit Nat := ⟨1, fun _ xs => match xs with | [a] => 7 * a + 1 | _ => 0⟩
private def subV : VFun Unit Nat := ⟨2, fun _ xs => match xs with | [a, b] => 100 + a - b | _ => 0⟩

/-- KNOWN FINDING extract.nonfirst-view-operand with a NUMBER-valued view: `subtract(b, reduce_add(a, None))` — the 0-d
    reduction is not the first operand.  Host: 100 + 3 - (7*2+1) = 88; extraction computes `subtract(reduce_add(b, None), a)`:
    100 + (7*3+1) - 2 = 120 (in the C++ the result then has the shape of `a`, not of `b`). -/
theorem compile_nonfirst_scalar_counterexample :
    let v : View Unit Nat := .node subV [] (.cons (.leaf 1) (.cons (.snode sumAllV [] (.cons (.leaf 0) .nil)) .nil))
    v.denote envE = 88 ∧ valuesOf (applyComp ⟨v.compile, []⟩ (v.operandsOf.map envE)) = [120] ∧ v.leftLinear = false
      ∧ v.wellFormed = true := by
  decide

/-! ### compute graph (under the hypothesis that node ids are pairwise distinct — NOT a theorem of the code: ids are
    `generate_alias` hashes mod 1033 and per-sub-graph counters; checked per explored program by the correspondence run) -/

/-- one uniquely identified node per operand occurrence and per operation, in reading order, leaves labelled with their
    host array and operations with their inputs -/
theorem graph_nodes (t : IView) (h : t.allIds.Nodup) :
    ∃ g, t.graph = some g ∧ g.keys = t.allIds ∧ g.nodes = t.specNodes := by
  obtain ⟨g, h1, h2, h3, _⟩ := IView.graph_spec t h
  exact ⟨g, h1, h2, h3⟩

/-- edges exactly from each operation's inputs -/
theorem graph_edges (t : IView) (h : t.allIds.Nodup) :
    ∃ g, t.graph = some g ∧ ∀ e, e ∈ g.edges ↔ e ∈ t.specEdges := by
  obtain ⟨g, h1, _, _, h4⟩ := IView.graph_spec t h
  exact ⟨g, h1, h4⟩

/-- KNOWN FINDING graph.sibling-subviews-unaliased: add(multiply(x0,x1), multiply(x2,x3)) with the ids the C++ assigns
    (un-aliased leaves numbered 0,1 in every sub-graph; both multiply views hash to the same id 203, root 593):
    4 nodes instead of 7 — leaves x2, x3 and the second multiply are lost -/
theorem graph_collision_counterexample :
    let t : IView := .node 593 (.cons (.node 203 (.cons (.leaf 0 0) (.cons (.leaf 1 1) .nil)))
                               (.cons (.node 203 (.cons (.leaf 0 2) (.cons (.leaf 1 3) .nil))) .nil))
    (t.graph.map (·.keys)) = some [0, 1, 203, 593] ∧ t.specNodes.length = 7 ∧ ¬ t.allIds.Nodup := by
  decide

/-- the hash behind the ids is not injective: two different id sequences with the same alias -/
theorem generate_alias_collision : generateAlias [0, 0, 0] = generateAlias [0, 2, 9] ∧ ([0, 0, 0] : List Nat) ≠ [0, 2, 9] := by
  decide

/-! ### non-vacuity -/

-- add(multiply(a,b), subtract(c, negative(d))): sub-views in both positions, 4 functors, static arity 4 = 4 leaves
example :
    let v : View Unit Nat := .node addV [] (.cons (.node mulV [] (.cons (.leaf 0) (.cons (.leaf 1) .nil)))
      (.cons (.node mulV [] (.cons (.leaf 2) (.cons (.node negV [] (.cons (.leaf 0) .nil)) .nil))) .nil))
    v.wellFormed = true ∧ v.leftLinear = false ∧ Comp.arity ⟨v.compile, []⟩ = 4 ∧ v.operandsOf = [0, 1, 2, 0] := by decide

-- a depth-3 left-linear view: neg(add(mul(a,b), c))
example :
    let v : View Unit Nat := .node negV [] (.cons (.node addV [] (.cons (.node mulV [] (.cons (.leaf 0) (.cons (.leaf 1) .nil))) (.cons (.leaf 2) .nil))) .nil)
    v.leftLinear = true ∧ v.denote envE = 989 ∧ valuesOf (applyComp ⟨v.compile, []⟩ (v.operandsOf.map envE)) = [989]
      ∧ v.operandsOf = [0, 1, 2] := by decide
-- number-valued sub-views (0-d reductions) as FIRST operand of a binary ufunc: multiply(reduce_add_all(a), b), nested
-- negative(multiply(reduce_add_all(multiply(a,b)), c)) and with a repeated leaf subtract(reduce_add_all(a), a)
example :
    let v : View Unit Nat := .node mulV [] (.cons (.snode sumAllV [] (.cons (.leaf 0) .nil)) (.cons (.leaf 1) .nil))
    v.leftLinear = true ∧ v.denote envE = 45 ∧ valuesOf (applyComp ⟨v.compile, []⟩ (v.operandsOf.map envE)) = [45]
      ∧ v.operandsOf = [0, 1] ∧ v.compile.length = 2 ∧ v.nOps = 2 ∧ Comp.arity ⟨v.compile, []⟩ = 2 := by decide
example :
    let v : View Unit Nat := .node negV [] (.cons (.node mulV [] (.cons (.snode sumAllV []
      (.cons (.node mulV [] (.cons (.leaf 0) (.cons (.leaf 1) .nil))) .nil)) (.cons (.leaf 2) .nil))) .nil)
    v.leftLinear = true ∧ v.denote envE = 785 ∧ valuesOf (applyComp ⟨v.compile, []⟩ (v.operandsOf.map envE)) = [785]
      ∧ v.operandsOf = [0, 1, 2] ∧ v.compile.length = 4 := by decide
example :
    let v : View Unit Nat := .node subV [] (.cons (.snode sumAllV [] (.cons (.leaf 0) .nil)) (.cons (.leaf 0) .nil))
    v.leftLinear = true ∧ v.denote envE = 113 ∧ valuesOf (applyComp ⟨v.compile, []⟩ (v.operandsOf.map envE)) = [113]
      ∧ v.operandsOf = [0, 0] := by decide
-- literal operands in either position and an aliased leaf: add(a, 5), multiply(3, alias b): one functor, two operands
example :
    let v : View Unit Nat := .node addV [] (.cons (.leaf 0) (.cons (.lit 2) .nil))
    let w : View Unit Nat := .node mulV [] (.cons (.lit 1) (.cons (.alias 2) .nil))
    v.leftLinear = true ∧ valuesOf (applyComp ⟨v.compile, []⟩ (v.operandsOf.map envE)) = [7] ∧ v.denote envE = 7 ∧ v.compile.length = 1 ∧
    w.leftLinear = true ∧ valuesOf (applyComp ⟨w.compile, []⟩ (w.operandsOf.map envE)) = [15] ∧ w.operandsOf = [1, 2] := by decide
-- the operand dispatch on a number-valued view: its composition is kept (two functors would be one if it were dropped)
example :
    let s : View Unit Nat := .snode sumAllV [] (.cons (.leaf 0) .nil)
    s.isNum = true ∧ s.isView = true ∧ s.isAlias = false ∧ (s.dispatch s.compile).length = 1 := by decide
-- a parametrised unary op (value = slope * operand, the slope is an attribute; without one: the default slope 1) as outer
-- node, as inner node and twice with different parameters: the extracted functors carry 3 resp. 7, and re-application
-- computes with them — with the default it would give 30 / 1005 / 5 instead
example :
    let act : VFun Nat Nat := ⟨1, fun ats xs => match ats, xs with | [s], [a] => s * a | _, [a] => a | _, _ => 0⟩
    let add2 : VFun Nat Nat := ⟨2, fun _ xs => match xs with | [a, b] => a + b | _ => 0⟩
    let env : Nat → Nat := fun i => [2, 3, 5].getD i 0
    let v : View Nat Nat := .node act [3] (.cons (.node add2 [] (.cons (.leaf 0) (.cons (.leaf 1) .nil))) .nil)
    let w : View Nat Nat := .node add2 [] (.cons (.node act [7] (.cons (.leaf 0) .nil)) (.cons (.leaf 1) .nil))
    let u : View Nat Nat := .node act [3] (.cons (.node act [7] (.cons (.leaf 2) .nil)) .nil)
    let vals : Option (CRes Nat Nat) → List Nat := fun r => match r with | some (.values vs) => vs | _ => []
    v.denote env = 15 ∧ vals (applyComp ⟨v.compile, []⟩ (v.operandsOf.map env)) = [15] ∧ v.compile.reverse.map (·.attrs) = [[], [3]] ∧
    w.denote env = 17 ∧ vals (applyComp ⟨w.compile, []⟩ (w.operandsOf.map env)) = [17] ∧ w.compile.reverse.map (·.attrs) = [[7], []] ∧
    u.denote env = 105 ∧ vals (applyComp ⟨u.compile, []⟩ (u.operandsOf.map env)) = [105] ∧ u.opsPost.map (·.2) = [[7], [3]] := by decide
-- a parametrised unary functor (slope attribute) to the left of a shape-changing functor, over a maybe operand: the attribute
-- arrives (3 * (2 + 100) = 306, with the default slope 1 it would be 102); a Nothing operand gives Nothing
example :
    let act : Functor Nat Nat := ⟨1, fun ats xs => match ats, xs with | [s], [a] => [s * a] | _, [a] => [a] | _, _ => []⟩
    let rs : Functor Nat Nat := ⟨1, fun _ xs => xs.map (· + 100)⟩
    let f : Fn Nat Nat := (Fn.ofFunctor act).withAttr 3
    let g : Fn Nat Nat := .ofFunctor rs
    (match applyComp ⟨[f, g], []⟩ [2] with | some (.values vs) => vs | _ => []) = [306] ∧
    (match applyComp ⟨[f, g].map Fn.liftMaybe, []⟩ [some 2] with | some (.values vs) => vs | _ => []) = [some 306] ∧
    (match applyComp ⟨[f, g].map Fn.liftMaybe, []⟩ [none] with | some (.values vs) => vs | _ => []) = [none] ∧
    act.liftMaybe.fmap [3] [some 5] = [some 15] ∧ act.liftMaybe.fmap [3] [none] = [none] := by decide
-- leftLinear_wellFormed on that tree's shape: a left-linear depth-2 tree is well formed
example :
    let v : View Unit Nat := .node addV [] (.cons (.node mulV [] (.cons (.leaf 0) (.cons (.leaf 1) .nil))) (.cons (.leaf 2) .nil))
    v.leftLinear = true ∧ v.wellFormed = true := by decide
-- currying a ternary functor in the splits 1+2 and 2+1
example :
    let f : Fn Unit Nat := .ofFunctor ⟨3, fun _ xs => [xs.foldl (fun a b => 10 * a + b) 0]⟩
    (applyChunks f [[1], [2, 3]]).map (fun r => match r with | .values v => v | _ => []) = some [123] ∧
    (applyChunks f [[1, 2], [3]]).map (fun r => match r with | .values v => v | _ => []) = some [123] := by decide
example : (digF (A := Unit) 2).fmap [] [1, 2, 3] = [3, 1, 2] ∧ (buryF (A := Unit) 2).fmap [] [3, 1, 2] = [1, 2, 3] := by decide
-- tanh(add(multiply(x0,x1),x1)) with the ids the C++ assigns: distinct, 6 nodes, 5 edges
example :
    let t : IView := .node 830 (.cons (.node 782 (.cons (.node 203 (.cons (.leaf 0 0) (.cons (.leaf 1 1) .nil))) (.cons (.leaf 205 1) .nil))) .nil)
    t.allIds.Nodup ∧ (t.graph.map (·.edges)) = some [(0, 203), (1, 203), (203, 782), (205, 782), (782, 830)] := by decide

end NmVerif.Props.C14
