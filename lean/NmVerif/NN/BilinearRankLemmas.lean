import NmVerif.NN.BilinearLemmas
/-
  NN/BilinearRankLemmas — `view::bilinear` on rank-1 inputs `(I)`, `(J)` and on rank-3 inputs `(B0, B1, I)`, `(B0, B1, J)`
  (reshaped to `(B0, 1, B1, ·)`: the unit axis broadcasts against the out-features axis of the weight `(O, I, J)`).
-/
namespace NmVerif.NN
open NmVerif.Reduce NmVerif.Linalg
variable {α : Type}


theorem bilinearAt_eq_L (add mul : α → α → α) (x y w : Idx → α) (I J b o : Nat) :
    bilinearAt add mul x y w I J b o = bilinearAtL add mul x y w I J [b] o := rfl

/-- matmulv2 of a vector `(I)` with a `(O, I, J)` stack: shape `(O, J)`, element `[o, j]` adds `x[k] · w[o, k, j]` -/
theorem matmulV2_I_OIJ (I O J : Nat) (hI : 0 < I) (hO : 0 < O) (hJ : 0 < J) :
    ∃ r, matmulV2 [I] [O, I, J] = some r ∧ r.shape = [O, J] ∧
      ∀ o j, o < O → j < J → r.get [o, j] = (List.range I).map (fun k => ([k], [o, k, j])) := by
  have hacc : specMatmulShape [I] [O, I, J] = some [O, J] := by
    simp [specMatmulShape, batchOf, MB.broadcastShape, MB.bcRev]
  obtain ⟨r, h1, h2, h3⟩ := matmulV2_eq_spec [I] [O, I, J] [O, J] (by simp) (by simp)
    (by intro z hz; simp at hz; subst hz; assumption)
    (by intro z hz; simp at hz; rcases hz with rfl | rfl | rfl <;> assumption) hacc
  refine ⟨r, h1, h2, fun o j ho hj => ?_⟩
  rw [h3 [o, j] (by simp [InShape]; exact ⟨ho, hj⟩)]
  simp only [specMatmulTerms, List.getLast?_singleton, List.length_cons, List.length_nil]
  apply List.map_congr_left
  intro k _
  simp [batchOf, MB.bcIdx]
  omega


theorem bilinear_rank1 (add mul : α → α → α) (x y w : Arr α) (bias : Option (Arr α)) (I J O : Nat)
    (hx : x.shape = [I]) (hy : y.shape = [J]) (hw : w.shape = [O, I, J]) (hb : ∀ c, bias = some c → c.shape = [O])
    (hI : 0 < I) (hJ : 0 < J) (hO : 0 < O) :
    ∃ v, bilinear add mul x y w bias = some v ∧ v.shape = [O] ∧ ∀ o, o < O →
      v.get [o] = match bias with
        | none => bilinearAtL add mul x.get y.get w.get I J [] o
        | some c => (bilinearAtL add mul x.get y.get w.get I J [] o).map (fun S => add S (c.get [o])) := by
  obtain ⟨x', hx1, hx2, hx3⟩ := reshape_id x
  obtain ⟨y', hy1, hy2, hy3⟩ := reshape_id y
  obtain ⟨r, hr1, hr2, hr3⟩ := matmulV2_I_OIJ I O J hI hO hJ
  let T : Nat → Nat → Option α := fun o j =>
    foldFirst add none ((List.range I).map fun i => mul (x.get [i]) (w.get [o, i, j]))
  have hT : ∀ o j, ∃ S, T o j = some S := fun o j =>
    foldFirst_map_some add _ (l := List.range I) (by intro h; have := congrArg List.length h; simp at this; omega)
  have hpOJ : Pos [O, J] := by intro z hz; simp at hz; rcases hz with rfl | rfl <;> assumption
  have hpJ : Pos [J] := by intro z hz; simp at hz; subst hz; assumption
  have hpO : Pos [O] := by intro z hz; simp at hz; subst hz; assumption
  let a : OArr α := ⟨r.shape, fun d => foldFirst add none ((r.get d).map fun tm => mul (x'.get tm.1) (w.get tm.2))⟩
  have ha : matmulVal add mul x' w = some a := by
    simp only [matmulVal, hx2, hx, hw, hr1, Option.map_some]; rfl
  have haget : ∀ o j, o < O → j < J → a.get [o, j] = T o j := by
    intro o j ho hj
    show foldFirst add none ((r.get [o, j]).map _) = _
    rw [hr3 o j ho hj, List.map_map]
    show foldFirst add none ((List.range I).map _) = foldFirst add none ((List.range I).map _)
    congr 1
    apply List.map_congr_left
    intro i hi
    have hi' : i < I := List.mem_range.1 hi
    simp only [Function.comp]
    rw [hx3 [i] (by rw [hx]; simp [InShape]; exact hi')]
  obtain ⟨b1, hb1, hb2, hb3⟩ := bin_spec mul a (lift y') [O, J] (by show Pos r.shape; rw [hr2]; exact hpOJ)
    (by show Pos y'.shape; rw [hy2, hy]; exact hpJ)
    (by show broadcastShape2 r.shape y'.shape = _; rw [hr2, hy2, hy]; exact bshape_trailing [O, J] 1)
  have hden : Den b1 ([O] ++ [J]) (fun d => match d with
      | [o, j] => (match T o j with | some S => mul S (y.get [j]) | none => y.get [j])
      | _ => y.get d) := by
    refine ⟨hb2, fun d hd => ?_⟩
    match d, hd with
    | [o, j], hd =>
      simp only [List.cons_append, List.nil_append, InShape, and_true] at hd
      have hin : InShape [o, j] [O, J] := by simp [InShape]; exact hd
      rw [hb3 _ hin]
      show optOp mul (a.get (specBroadcastIdx r.shape [o, j])) (some (y'.get (specBroadcastIdx y'.shape [o, j]))) = _
      have hs2 : specBroadcastIdx [J] [o, j] = [j] := sbi_trailing [O, J] 1 [o, j] hin
      rw [hr2, sbi_self _ _ hin, hy2, hy, hs2, haget o j hd.1 hd.2,
        hy3 [j] (by rw [hy]; simp [InShape]; exact hd.2), optOp_some_right]
      obtain ⟨S, hS⟩ := hT o j
      simp only [hS, Option.map_some]
  obtain ⟨c, hc1, hc2, hc3⟩ := red_last add hden (by intro z hz; simp at hz; rcases hz with rfl | rfl <;> assumption) false
  simp only [Bool.false_eq_true, if_false] at hc2 hc3
  have htr : transpose c (bilinearResultTranspose c.shape.length) = some ⟨[O], fun d => c.get (scatter d [0])⟩ := by
    have : bilinearResultTranspose c.shape.length = [0] := by
      rw [hc2]; show bilinearResultTranspose 1 = [0]; decide
    rw [this]; simp [transpose, hc2]
  have hcget : ∀ o, o < O → c.get (scatter [o] [0]) = bilinearAtL add mul x.get y.get w.get I J [] o := by
    intro o ho
    have hsc : scatter [o] [0] = [o] := by simp [scatter]
    rw [hsc, hc3 [o] (by simp [InShape]; exact ho)]
    unfold bilinearAtL
    rw [mapM_range_some J _ (fun j => match T o j with | some S => mul S (y.get [j]) | none => y.get [j])]
    · rfl
    · intro j _
      obtain ⟨S, hS⟩ := hT o j
      show (T o j).map _ = _
      simp only [hS, Option.map_some, List.nil_append]
  let D : OArr α := ⟨[O], fun d => c.get (scatter d [0])⟩
  have hpre : ∀ (f : OArr α → Option (OArr α)),
      ((bilinearInputReshape x.shape).bind fun xs => (bilinearInputReshape y.shape).bind fun ys =>
        (reshape x xs).bind fun x' => (reshape y ys).bind fun y' => (matmulVal add mul x' w).bind fun a =>
        (bin mul a (lift y')).bind fun b => (red add b (some [-1]) false).bind fun c =>
        (transpose c (bilinearResultTranspose c.shape.length)).bind f) = f D := by
    intro f
    have e1 : bilinearInputReshape x.shape = some x.shape := by rw [hx]; rfl
    have e2 : bilinearInputReshape y.shape = some y.shape := by rw [hy]; rfl
    simp only [e1, e2, Option.bind_some, hx1, hy1, ha, hb1, hc1, htr]
    rfl
  cases bias with
  | none =>
    refine ⟨D, ?_, rfl, fun o ho => hcget o ho⟩
    exact hpre (fun d => some d)
  | some bb =>
    have hbs := hb bb rfl
    obtain ⟨v, hv1, hv2, hv3⟩ := bin_spec add D (lift bb) [O] hpO
      (by show Pos bb.shape; rw [hbs]; exact hpO)
      (by show broadcastShape2 [O] bb.shape = _; rw [hbs]; exact bshape_trailing [O] 0)
    refine ⟨v, ?_, hv2, fun o ho => ?_⟩
    · exact (hpre (fun d => bin add d (lift bb))).trans hv1
    · have hin : InShape [o] [O] := by simp [InShape]; exact ho
      rw [hv3 _ hin]
      show optOp add (c.get (scatter (specBroadcastIdx [O] [o]) [0])) (some (bb.get (specBroadcastIdx bb.shape [o]))) = _
      rw [sbi_self _ _ hin, hbs, sbi_self _ _ hin, hcget o ho, optOp_some_right]



/-- matmulv2 of a `(B0, 1, B1, I)` operand with a `(O, I, J)` stack: the unit axis broadcasts against `O`; shape
    `(B0, O, B1, J)`, element `[b0, o, b1, j]` adds `x[b0, 0, b1, k] · w[o, k, j]` -/
theorem matmulV2_B1BI_OIJ (B0 B1 I O J : Nat) (hB0 : 0 < B0) (hB1 : 0 < B1) (hI : 0 < I) (hO : 0 < O) (hJ : 0 < J) :
    ∃ r, matmulV2 [B0, 1, B1, I] [O, I, J] = some r ∧ r.shape = [B0, O, B1, J] ∧
      ∀ b0 o b1 j, b0 < B0 → o < O → b1 < B1 → j < J →
        r.get [b0, o, b1, j] = (List.range I).map (fun k => ([b0, 0, b1, k], [o, k, j])) := by
  have hacc : specMatmulShape [B0, 1, B1, I] [O, I, J] = some [B0, O, B1, J] := by
    have h1 : max 1 O = O := by omega
    simp [specMatmulShape, batchOf, MB.broadcastShape, MB.bcRev, MB.bc1, h1]
  obtain ⟨r, h1, h2, h3⟩ := matmulV2_eq_spec [B0, 1, B1, I] [O, I, J] [B0, O, B1, J] (by simp) (by simp)
    (by intro z hz; simp at hz; rcases hz with rfl | rfl | rfl | rfl <;> first | assumption | omega)
    (by intro z hz; simp at hz; rcases hz with rfl | rfl | rfl <;> assumption) hacc
  refine ⟨r, h1, h2, fun b0 o b1 j hb0 ho hb1 hj => ?_⟩
  rw [h3 [b0, o, b1, j] (by simp [InShape]; exact ⟨hb0, ho, hb1, hj⟩)]
  simp only [specMatmulTerms, List.getLast?_cons_cons, List.getLast?_singleton, List.length_cons, List.length_nil]
  apply List.map_congr_left
  intro k _
  simp [batchOf, MB.bcIdx]
  omega


theorem bshape_unit1 (B0 O B1 J : Nat) (hB0 : 0 < B0) (hO : 0 < O) (hB1 : 0 < B1) (hJ : 0 < J) :
    broadcastShape2 [B0, O, B1, J] [B0, 1, B1, J] = some [B0, O, B1, J] := by
  unfold broadcastShape2
  rw [bcRev_dom]
  · simp
  · simp
  · intro k x y h1 h2
    match k with
    | 0 => simp at h1 h2; subst h1; subst h2; exact ⟨hJ, Or.inl rfl⟩
    | 1 => simp at h1 h2; subst h1; subst h2; exact ⟨hB1, Or.inl rfl⟩
    | 2 => simp at h1 h2; subst h1; subst h2; exact ⟨hO, Or.inr rfl⟩
    | 3 => simp at h1 h2; subst h1; subst h2; exact ⟨hB0, Or.inl rfl⟩
    | k + 4 => simp at h2

theorem sbi_unit1 (B0 B1 J b0 o b1 j : Nat) (hb0 : b0 < B0) (hb1 : b1 < B1) (hj : j < J) :
    specBroadcastIdx [B0, 1, B1, J] [b0, o, b1, j] = [b0, 0, b1, j] := by
  simp [specBroadcastIdx]
  omega

/-- `(B0, B1, K)` seen as `(B0, 1, B1, K)` -/
theorem reshape_unit1 (x : Arr α) (B0 B1 K : Nat) (hx : x.shape = [B0, B1, K]) :
    ∃ x', reshape x [B0, 1, B1, K] = some x' ∧ x'.shape = [B0, 1, B1, K] ∧
      ∀ b0 b1 k, b0 < B0 → b1 < B1 → k < K → x'.get [b0, 0, b1, k] = x.get [b0, b1, k] := by
  obtain ⟨b, h1, h2, h3⟩ := reshape_insert_ones x [B0] [B1, K] 1 (by rw [hx]; rfl)
  refine ⟨b, h1, h2, fun b0 b1 k hb0 hb1 hk => ?_⟩
  exact h3 [b0] [b1, k] (by simp [InShape]; exact hb0) (by simp [InShape]; exact ⟨hb1, hk⟩)

theorem bilinear_rank3 (add mul : α → α → α) (x y w : Arr α) (bias : Option (Arr α)) (B0 B1 I J O : Nat)
    (hx : x.shape = [B0, B1, I]) (hy : y.shape = [B0, B1, J]) (hw : w.shape = [O, I, J]) (hb : ∀ c, bias = some c → c.shape = [O])
    (hB0 : 0 < B0) (hB1 : 0 < B1) (hI : 0 < I) (hJ : 0 < J) (hO : 0 < O) :
    ∃ v, bilinear add mul x y w bias = some v ∧ v.shape = [B0, B1, O] ∧ ∀ b0 b1 o, b0 < B0 → b1 < B1 → o < O →
      v.get [b0, b1, o] = match bias with
        | none => bilinearAtL add mul x.get y.get w.get I J [b0, b1] o
        | some c => (bilinearAtL add mul x.get y.get w.get I J [b0, b1] o).map (fun S => add S (c.get [o])) := by
  obtain ⟨x', hx1, hx2, hx3⟩ := reshape_unit1 x B0 B1 I hx
  obtain ⟨y', hy1, hy2, hy3⟩ := reshape_unit1 y B0 B1 J hy
  obtain ⟨r, hr1, hr2, hr3⟩ := matmulV2_B1BI_OIJ B0 B1 I O J hB0 hB1 hI hO hJ
  let T : Nat → Nat → Nat → Nat → Option α := fun b0 b1 o j =>
    foldFirst add none ((List.range I).map fun i => mul (x.get [b0, b1, i]) (w.get [o, i, j]))
  have hT : ∀ b0 b1 o j, ∃ S, T b0 b1 o j = some S := fun b0 b1 o j =>
    foldFirst_map_some add _ (l := List.range I) (by intro h; have := congrArg List.length h; simp at this; omega)
  have hpA : Pos [B0, O, B1, J] := by intro z hz; simp at hz; rcases hz with rfl | rfl | rfl | rfl <;> assumption
  have hpY : Pos [B0, 1, B1, J] := by intro z hz; simp at hz; rcases hz with rfl | rfl | rfl | rfl <;> first | assumption | omega
  have hpR : Pos [B0, B1, O] := by intro z hz; simp at hz; rcases hz with rfl | rfl | rfl <;> assumption
  let a : OArr α := ⟨r.shape, fun d => foldFirst add none ((r.get d).map fun tm => mul (x'.get tm.1) (w.get tm.2))⟩
  have ha : matmulVal add mul x' w = some a := by
    simp only [matmulVal, hx2, hw, hr1, Option.map_some]; rfl
  have haget : ∀ b0 o b1 j, b0 < B0 → o < O → b1 < B1 → j < J → a.get [b0, o, b1, j] = T b0 b1 o j := by
    intro b0 o b1 j hb0 ho hb1 hj
    show foldFirst add none ((r.get [b0, o, b1, j]).map _) = _
    rw [hr3 b0 o b1 j hb0 ho hb1 hj, List.map_map]
    show foldFirst add none ((List.range I).map _) = foldFirst add none ((List.range I).map _)
    congr 1
    apply List.map_congr_left
    intro i hi
    have hi' : i < I := List.mem_range.1 hi
    simp only [Function.comp]
    rw [hx3 b0 b1 i hb0 hb1 hi']
  obtain ⟨b1', hb1, hb2, hb3⟩ := bin_spec mul a (lift y') [B0, O, B1, J] (by show Pos r.shape; rw [hr2]; exact hpA)
    (by show Pos y'.shape; rw [hy2]; exact hpY)
    (by show broadcastShape2 r.shape y'.shape = _; rw [hr2, hy2]; exact bshape_unit1 B0 O B1 J hB0 hO hB1 hJ)
  have hden : Den b1' ([B0, O, B1] ++ [J]) (fun d => match d with
      | [b0, o, b1, j] => (match T b0 b1 o j with | some S => mul S (y.get [b0, b1, j]) | none => y.get [b0, b1, j])
      | _ => y.get d) := by
    refine ⟨hb2, fun d hd => ?_⟩
    match d, hd with
    | [b0, o, b1, j], hd =>
      simp only [List.cons_append, List.nil_append, InShape, and_true] at hd
      have hin : InShape [b0, o, b1, j] [B0, O, B1, J] := by simp [InShape]; exact hd
      rw [hb3 _ hin]
      show optOp mul (a.get (specBroadcastIdx r.shape [b0, o, b1, j])) (some (y'.get (specBroadcastIdx y'.shape [b0, o, b1, j]))) = _
      rw [hr2, sbi_self _ _ hin, hy2, sbi_unit1 B0 B1 J b0 o b1 j hd.1 hd.2.2.1 hd.2.2.2, haget b0 o b1 j hd.1 hd.2.1 hd.2.2.1 hd.2.2.2,
        hy3 b0 b1 j hd.1 hd.2.2.1 hd.2.2.2, optOp_some_right]
      obtain ⟨S, hS⟩ := hT b0 b1 o j
      simp only [hS, Option.map_some]
  obtain ⟨c, hc1, hc2, hc3⟩ := red_last add hden hpA false
  simp only [Bool.false_eq_true, if_false] at hc2 hc3
  have htr : transpose c (bilinearResultTranspose c.shape.length) = some ⟨[B0, B1, O], fun d => c.get (scatter d [0, 2, 1])⟩ := by
    have : bilinearResultTranspose c.shape.length = [0, 2, 1] := by
      rw [hc2]; show bilinearResultTranspose 3 = [0, 2, 1]; decide
    rw [this]; simp [transpose, hc2]
  have hcget : ∀ b0 b1 o, b0 < B0 → b1 < B1 → o < O →
      c.get (scatter [b0, b1, o] [0, 2, 1]) = bilinearAtL add mul x.get y.get w.get I J [b0, b1] o := by
    intro b0 b1 o hb0 hb1' ho
    have hsc : scatter [b0, b1, o] [0, 2, 1] = [b0, o, b1] := by simp [scatter]
    rw [hsc, hc3 [b0, o, b1] (by simp [InShape]; exact ⟨hb0, ho, hb1'⟩)]
    unfold bilinearAtL
    rw [mapM_range_some J _ (fun j => match T b0 b1 o j with | some S => mul S (y.get [b0, b1, j]) | none => y.get [b0, b1, j])]
    · rfl
    · intro j _
      obtain ⟨S, hS⟩ := hT b0 b1 o j
      show (T b0 b1 o j).map _ = _
      simp only [hS, Option.map_some, List.cons_append, List.nil_append]
  let D : OArr α := ⟨[B0, B1, O], fun d => c.get (scatter d [0, 2, 1])⟩
  have hpre : ∀ (f : OArr α → Option (OArr α)),
      ((bilinearInputReshape x.shape).bind fun xs => (bilinearInputReshape y.shape).bind fun ys =>
        (reshape x xs).bind fun x' => (reshape y ys).bind fun y' => (matmulVal add mul x' w).bind fun a =>
        (bin mul a (lift y')).bind fun b => (red add b (some [-1]) false).bind fun c =>
        (transpose c (bilinearResultTranspose c.shape.length)).bind f) = f D := by
    intro f
    have e1 : bilinearInputReshape x.shape = some [B0, 1, B1, I] := by rw [hx]; rfl
    have e2 : bilinearInputReshape y.shape = some [B0, 1, B1, J] := by rw [hy]; rfl
    simp only [e1, e2, Option.bind_some, hx1, hy1, ha, hb1, hc1, htr]
    rfl
  cases bias with
  | none =>
    refine ⟨D, ?_, rfl, fun b0 b1 o hb0 hb1' ho => hcget b0 b1 o hb0 hb1' ho⟩
    exact hpre (fun d => some d)
  | some bb =>
    have hbs := hb bb rfl
    obtain ⟨v, hv1, hv2, hv3⟩ := bin_spec add D (lift bb) [B0, B1, O] hpR
      (by show Pos bb.shape; rw [hbs]; intro z hz; simp at hz; subst hz; exact hO)
      (by show broadcastShape2 [B0, B1, O] bb.shape = _; rw [hbs]; exact bshape_trailing [B0, B1, O] 2)
    refine ⟨v, ?_, hv2, fun b0 b1 o hb0 hb1' ho => ?_⟩
    · exact (hpre (fun d => bin add d (lift bb))).trans hv1
    · have hin : InShape [b0, b1, o] [B0, B1, O] := by simp [InShape]; exact ⟨hb0, hb1', ho⟩
      rw [hv3 _ hin]
      show optOp add (c.get (scatter (specBroadcastIdx [B0, B1, O] [b0, b1, o]) [0, 2, 1])) (some (bb.get (specBroadcastIdx bb.shape [b0, b1, o]))) = _
      have hs2 : specBroadcastIdx [O] [b0, b1, o] = [o] := sbi_trailing [B0, B1, O] 2 [b0, b1, o] hin
      rw [sbi_self _ _ hin, hbs, hs2, hcget b0 b1 o hb0 hb1' ho, optOp_some_right]

end NmVerif.NN
