import NmVerif.Index.Repeat
import NmVerif.Lemmas.SelCommon
import NmVerif.Lemmas.Addressing
/-
  SPEC of np.repeat and proofs that the MODEL meets it on the domain "axis ≥ 0 or None".
  NumPy: `np.repeat(a, r, axis=k)`: every entry of axis `k` is repeated `r` times in place
         (`out[…, x, …] = a[…, x / r, …]`, extent `s[k]·r`); with one count per entry, entry `j` is repeated `rs[j]` times:
         the source positions along the axis are `np.repeat(arange(len rs), rs)` = `repeatSrc rs 0`, extent `sum rs`;
         axis None works on the flattened array.
-/
namespace NmVerif.Index

/-- shape with extent `k` replaced by `m` (written as NumPy documents it) -/
def replaceExtent (s : Shape) (k m : Nat) : Shape := s.take k ++ m :: s.drop (k + 1)

/-- `np.repeat(arange(len rs) + k0, rs)`: source position of every destination position along the axis -/
def repeatSrc : List Nat → Nat → List Nat
  | [], _ => []
  | r :: rs, k0 => List.replicate r k0 ++ repeatSrc rs (k0 + 1)

theorem replaceExtent_eq_set (s : Shape) (k m : Nat) (hk : k < s.length) : replaceExtent s k m = s.set k m := by
  simp [replaceExtent, List.set_eq_take_append_cons_drop, hk]

theorem shapeRepeat_eq_spec (s : Shape) (r k : Nat) (hk : k < s.length) :
    shapeRepeat s r (k : Int) = some (replaceExtent s k (s[k] * r)) := by
  simp [shapeRepeat, atPy_nat, setPy_nat, hk, replaceExtent_eq_set]

theorem shapeRepeatList_eq_spec (s : Shape) (rs : List Nat) (k : Nat) (hk : k < s.length) :
    shapeRepeatList s rs (k : Int) = some (replaceExtent s k (sum rs)) := by
  simp [shapeRepeatList, atPy_nat, setPy_nat, hk, replaceExtent_eq_set]

theorem indexRepeat_eq (s : Shape) (r k x : Nat) (d : Idx) (hx : d[k]? = some x) :
    indexRepeat s r (k : Int) d = d.set k (x / r) := by
  simp [indexRepeat, normAxis_nat, mapAt_nat, hx]

theorem indexRepeatList_eq (s : Shape) (rs : List Nat) (k x : Nat) (d : Idx) (hx : d[k]? = some x) :
    indexRepeatList s rs (k : Int) d = d.set k (firstAbove rs x) := by
  simp [indexRepeatList, normAxis_nat, mapAt_nat, hx]

/-- an accepted (possibly negative) axis behaves exactly like its normalised position -/
theorem repeatView_axis_normalize (s : Shape) (r : Nat) (axis : Int) (k : Nat)
    (hk : normalizeAxis1 axis s.length = some k) :
    repeatView s r (some axis) = repeatView s r (some (k : Int)) := by
  have hk' : normalizeAxis1 (k : Int) s.length = some k :=
    normalizeAxis1_nat k _ (normalizeAxis1_some axis _ k hk).1
  simp [repeatView, shapeRepeat, indexRepeat, atPy_of_normalizeAxis1 s axis k hk, setPy_of_normalizeAxis1 s axis k _ hk,
    atPy_of_normalizeAxis1 s (k : Int) k hk', setPy_of_normalizeAxis1 s (k : Int) k _ hk',
    normAxis_of_normalizeAxis1 axis _ k hk, normAxis_nat]

theorem repeatListView_axis_normalize (s : Shape) (rs : List Nat) (axis : Int) (k : Nat)
    (hk : normalizeAxis1 axis s.length = some k) :
    repeatListView s rs axis = repeatListView s rs (k : Int) := by
  have hk' : normalizeAxis1 (k : Int) s.length = some k :=
    normalizeAxis1_nat k _ (normalizeAxis1_some axis _ k hk).1
  simp [repeatListView, shapeRepeatList, indexRepeatList, atPy_of_normalizeAxis1 s axis k hk,
    setPy_of_normalizeAxis1 s axis k _ hk, atPy_of_normalizeAxis1 s (k : Int) k hk',
    setPy_of_normalizeAxis1 s (k : Int) k _ hk', normAxis_of_normalizeAxis1 axis _ k hk, normAxis_nat]

theorem repeatSrc_length (rs : List Nat) (k0 : Nat) : (repeatSrc rs k0).length = sum rs := by
  induction rs generalizing k0 with
  | nil => simp [repeatSrc, sum]
  | cons r rs ih => simp [repeatSrc, sum, ih]

theorem firstAbove_cons_lt (r : Nat) (rs : List Nat) (x : Nat) (h : x < r) : firstAbove (r :: rs) x = 0 := by
  simp [firstAbove, cumsum, List.findIdx_cons, h]

theorem firstAbove_cons_ge (r : Nat) (rs : List Nat) (x : Nat) (h : r ≤ x) :
    firstAbove (r :: rs) x = firstAbove rs (x - r) + 1 := by
  have h1 : ¬ x < r := by omega
  simp only [firstAbove, cumsum, List.findIdx_cons, h1, decide_false, cond_false]
  congr 1
  rw [List.findIdx_map] -- predicate composed with (r + ·)
  congr 1
  funext c
  simp only [Function.comp]
  congr 1
  apply propext
  omega

/-- the C++ search "first k with x < cumsum[k]" finds NumPy's source position -/
theorem repeatSrc_getElem (rs : List Nat) (k0 x : Nat) (h : x < sum rs) :
    (repeatSrc rs k0)[x]? = some (k0 + firstAbove rs x) ∧ firstAbove rs x < rs.length := by
  induction rs generalizing k0 x with
  | nil => simp [sum] at h
  | cons r rs ih =>
    by_cases hx : x < r
    · rw [firstAbove_cons_lt r rs x hx]
      simp [repeatSrc, List.getElem?_append_left, hx]
    · have hx' : r ≤ x := by omega
      rw [firstAbove_cons_ge r rs x hx']
      simp only [sum] at h
      have := ih (k0 + 1) (x - r) (by omega)
      refine ⟨?_, by simp; exact this.2⟩
      simp only [repeatSrc]
      rw [List.getElem?_append_right (by simpa using hx')]
      simp only [List.length_replicate]
      rw [this.1]
      congr 1
      omega

end NmVerif.Index
