// Line protocol of the correspondence harness (mirror of lean/NmVerif/Proto.lean).
//   request : op key=value key=value ...
//   value   : None | [] | 1,-2,3 | 1,2;3,4
//   answer  : exactly one line per request
// A crash (signal, sanitizer abort, assert) kills the process; lib/runner.py notices the
// missing answer, records `crash:<signal>` for that request and restarts after it.
#pragma once
#include <string>
#include <vector>
#include <map>
#include <sstream>
#include <iostream>
#include <cstdio>
#include <cstdlib>
#include <stdexcept>

namespace proto {
using Args = std::map<std::string,std::string>;
using ivec = std::vector<long long>;
using uvec = std::vector<size_t>;

inline std::vector<std::string> split(const std::string& s, char c) {
    std::vector<std::string> out; std::string cur;
    for (char ch : s) { if (ch==c) { out.push_back(cur); cur.clear(); } else cur.push_back(ch); }
    out.push_back(cur); return out;
}
struct bad_args : std::runtime_error { using std::runtime_error::runtime_error; };

inline const std::string& get(const Args& a, const std::string& k) {
    auto it = a.find(k); if (it==a.end()) throw bad_args("missing "+k); return it->second;
}
inline bool has(const Args& a, const std::string& k) { return a.count(k)>0; }
inline bool is_none(const Args& a, const std::string& k) { return get(a,k)=="None"; }
inline ivec parse_ints(const std::string& s) {
    ivec r; if (s=="[]" || s.empty()) return r;
    for (auto& t : split(s,',')) r.push_back(std::stoll(t));
    return r;
}
inline ivec ints(const Args& a, const std::string& k) { return parse_ints(get(a,k)); }
inline uvec nats(const Args& a, const std::string& k) { uvec r; for (auto v : ints(a,k)) r.push_back((size_t)v); return r; }
inline std::vector<int> intsi(const Args& a, const std::string& k) { std::vector<int> r; for (auto v : ints(a,k)) r.push_back((int)v); return r; }
inline long long integer(const Args& a, const std::string& k) { return std::stoll(get(a,k)); }
inline std::vector<ivec> int_lists(const Args& a, const std::string& k) {
    std::vector<ivec> r; const auto& s = get(a,k); if (s=="[]"||s.empty()) return r;
    for (auto& t : split(s,';')) r.push_back(parse_ints(t));
    return r;
}
template <typename V> std::string fmt(const V& v) {
    std::ostringstream o; bool first=true; size_t n=0;
    for (auto it=v.begin(); it!=v.end(); ++it, ++n) { if(!first) o<<','; first=false; o<<(long long)(*it); }
    if (n==0) return "[]"; return o.str();
}
// generic: anything with nmtools::len / at
template <typename V, typename L, typename A> std::string fmt_with(const V& v, L len, A at) {
    std::ostringstream o; size_t n=len(v); if (n==0) return "[]";
    for (size_t i=0;i<n;i++){ if(i) o<<','; o<<(long long)at(v,i);} return o.str();
}
} // namespace proto

// Opt-in hook events (DESIGN.md §8 Hooks): a harness compiled with -DPROTO_VERIF_EVENTS gets every
// NMTOOLS_VERIF_EVENT of the library appended to the answer line as ` events=<kind>:<count>,…`
#ifdef PROTO_VERIF_EVENTS
namespace proto { inline long long g_events[8] = {0,0,0,0,0,0,0,0}; }
extern "C" void nmtools_verif_event(int kind, long long, long long) { if (kind>=0 && kind<8) proto::g_events[kind]++; }
#endif

// each harness TU defines this; return "unknown-op" for ops it does not serve
std::string handle(const std::string& op, const proto::Args& a);

#ifndef PROTO_NO_MAIN
int main() {
    std::ios::sync_with_stdio(false);
    std::string line;
    while (std::getline(std::cin, line)) {
        std::istringstream is(line); std::string op; is >> op;
        if (op.empty()) { std::cout << "empty\n" << std::flush; continue; }
        proto::Args a; std::string kv;
        while (is >> kv) { auto p = kv.find('='); if (p!=std::string::npos) a[kv.substr(0,p)] = kv.substr(p+1); }
        std::string ans;
#ifdef PROTO_VERIF_EVENTS
        for (auto& e : proto::g_events) e = 0;
#endif
        try { ans = handle(op, a); }
        catch (const proto::bad_args& e) { ans = std::string("bad-args"); }
        catch (const std::exception& e) { ans = std::string("exception:") + e.what(); for (auto& c: ans) if (c==' '||c=='\n') c='_'; }
#ifdef PROTO_VERIF_EVENTS
        { std::string ev; for (int k=0;k<8;k++) if (proto::g_events[k]) { ev += (ev.empty()?"":",") + std::to_string(k) + ":" + std::to_string(proto::g_events[k]); }
          if (!ev.empty()) ans += " events=" + ev; }
#endif
        std::cout << ans << "\n" << std::flush;
    }
    return 0;
}
#endif
