import NmVerif.Basic
import NmVerif.NDA
import NmVerif.Lemmas.Addressing
import NmVerif.Index.MachineAddr
import NmVerif.Lemmas.MachineAddr
/-
  C01 — Multi-index <-> flat offset addressing is an order-preserving bijection.
  Only property statements (+ non-vacuity examples) live here.
-/
namespace NmVerif.Props.C01
open NmVerif

/-- strides are the products of the trailing extents -/
theorem strides_eq_suffixProd (s : Shape) (k : Nat) (hk : k < s.length) :
    (strides s)[k]? = some (prod (s.drop (k+1))) := by
  induction s generalizing k with
  | nil => simp at hk
  | cons a t ih =>
    cases k with
    | zero => simp [strides]
    | succ n => simp only [strides, List.getElem?_cons_succ, List.drop_succ_cons]; exact ih n (by simpa using hk)

/-- every multi-index produced lies inside the shape (for every offset, even ≥ prod) -/
theorem ndindex_inShape (s : Shape) (hs : Pos s) (off : Nat) : InShape (ndindex s off) s :=
  indices_inShape hs off

/-- flat → multi-index → flat is the identity -/
theorem offset_ndindex (s : Shape) (hs : Pos s) (off : Nat) (h : off < prod s) :
    computeOffset (ndindex s off) (strides s) = off :=
  offset_indices hs h

/-- multi-index → flat → multi-index is the identity -/
theorem ndindex_offset (s : Shape) (idx : Idx) (h : InShape idx s) :
    ndindex s (computeOffset idx (strides s)) = idx :=
  indices_offset h

/-- offsets of in-shape indices stay below the element count -/
theorem offset_lt_prod (s : Shape) (idx : Idx) (h : InShape idx s) :
    computeOffset idx (strides s) < prod s := offset_lt h

/-- enumerating all positions visits every multi-index exactly once in row-major order -/
theorem enumeration_eq_allIdx (s : Shape) (hs : Pos s) :
    (List.range (prod s)).map (ndindex s) = allIdx s := map_ndindex_range s hs

/-- `allIdx` really is "every in-shape multi-index" -/
theorem mem_allIdx_iff (s : Shape) (i : Idx) : i ∈ allIdx s ↔ InShape i s := by
  induction s generalizing i with
  | nil => cases i <;> simp [allIdx, InShape]
  | cons a t ih =>
    cases i with
    | nil => simp [allIdx, InShape]
    | cons x xs =>
      simp only [allIdx, List.mem_flatMap, List.mem_range, List.mem_map, InShape]
      constructor
      · rintro ⟨j, hj, y, hy, heq⟩
        simp only [List.cons.injEq] at heq
        obtain ⟨rfl, rfl⟩ := heq
        exact ⟨hj, (ih y).1 hy⟩
      · rintro ⟨h1, h2⟩
        exact ⟨x, h1, xs, (ih xs).2 h2, rfl⟩

/-- … exactly once -/
theorem enumeration_nodup (s : Shape) (hs : Pos s) :
    ((List.range (prod s)).map (ndindex s)).Nodup := by
  unfold List.Nodup
  rw [List.pairwise_map]
  refine List.Pairwise.imp_of_mem ?_ (List.nodup_range (n := prod s))
  intro a b ha hb hne hab
  simp only [List.mem_range] at ha hb
  apply hne
  rw [← offset_indices hs ha, ← offset_indices hs hb]
  unfold ndindex at hab
  rw [hab]

/-- column-major offsets also stay in the buffer and are injective -/
theorem colOffset_lt_prod (s : Shape) (idx : Idx) (h : InShape idx s) :
    computeOffset idx (colStrides s) < prod s := colOffset_lt h

theorem colOffset_inj (s : Shape) (i j : Idx) (hi : InShape i s) (hj : InShape j s)
    (h : computeOffset i (colStrides s) = computeOffset j (colStrides s)) : i = j :=
  colOffset_injective hi hj h

theorem offset_inj (s : Shape) (i j : Idx) (hi : InShape i s) (hj : InShape j s)
    (h : computeOffset i (strides s) = computeOffset j (strides s)) : i = j :=
  offset_injective hi hj h

/-- write then read the same logical element, either layout -/
theorem get_set_same {α} (a : NDA α) (hw : a.WF) (i : Idx) (hi : InShape i a.shape) (v : α) :
    (a.set i v).get? i = some v := by
  have hlt : a.offset i < a.data.length := by
    rw [hw]; unfold NDA.offset NDA.stridesOf
    split
    · exact colOffset_lt hi
    · exact offset_lt hi
  have : (a.set i v).offset i = a.offset i := rfl
  simp only [NDA.get?, this]
  simp [NDA.set, hlt]

/-- write one logical element, read another: unchanged, either layout -/
theorem get_set_other {α} (a : NDA α) (i j : Idx) (hi : InShape i a.shape) (hj : InShape j a.shape)
    (hne : i ≠ j) (v : α) : (a.set i v).get? j = a.get? j := by
  have hoff : a.offset i ≠ a.offset j := by
    unfold NDA.offset NDA.stridesOf
    split
    · intro h; exact hne (colOffset_injective hi hj h)
    · intro h; exact hne (offset_injective hi hj h)
  have : (a.set i v).offset j = a.offset j := rfl
  simp only [NDA.get?, this]
  simp only [NDA.set, List.getElem?_set]
  simp [hoff]

/-- reading `(i0,…,ik)` addresses the same logical element in both layouts -/
theorem layout_same_logical {α} (cm : Bool) (s : Shape) (f : Idx → α) (i : Idx) (hi : InShape i s) :
    (NDA.ofFn cm s f).get? i = some (f i) := by
  have hs : Pos s := pos_of_inShape hi
  cases cm with
  | false =>
    have hlt := offset_lt hi
    simp [NDA.ofFn, NDA.get?, NDA.offset, NDA.stridesOf, NDA.unoffset, hlt]
    rw [show ndindex s (computeOffset i (strides s)) = i from indices_offset hi]
  | true =>
    have hlt := colOffset_lt hi
    have hr := InShape_reverse hi
    simp [NDA.ofFn, NDA.get?, NDA.offset, NDA.stridesOf, NDA.unoffset, hlt]
    rw [colOffset_eq i s hi.length_eq]
    rw [show ndindex s.reverse (computeOffset i.reverse (strides s.reverse)) = i.reverse from indices_offset hr]
    simp

/-- both layouts keep the invariant `len data = prod shape` under writes -/
theorem set_WF {α} (a : NDA α) (hw : a.WF) (i : Idx) (v : α) : (a.set i v).WF := by
  simp [NDA.WF, NDA.set] at *; exact hw

/-- every intermediate value of the three functions is ≤ prod s (no machine wrap when prod s < 2^w) -/
theorem intermediates_le_prod (s : Shape) (hs : Pos s) (k : Nat) (hk : k < s.length) :
    ∃ v, (strides s)[k]? = some v ∧ v ≤ prod s := by
  refine ⟨prod (s.drop (k+1)), strides_eq_suffixProd s k hk, ?_⟩
  have h : prod s = prod (s.take (k+1)) * prod (s.drop (k+1)) := by
    rw [← prod_append, List.take_append_drop]
  rw [h]
  have hp : 0 < prod (s.take (k+1)) := prod_pos (fun x hx => hs x (List.mem_of_mem_take hx))
  exact Nat.le_mul_of_pos_left _ hp

/-! ### machine width: the element type of the index containers as a parameter (`NmVerif.Index.MachineAddr`)

  `t : ITy` is the element type (width, signedness) of the shape / strides / indices containers; `SZ = 2^64` is the
  range of `nm_size_t`.  `t.Fits n` (`n < 2^(w-1)` signed, `n < 2^w` unsigned) says that the container can hold `n`.
  Each theorem states the magnitude hypothesis under which the machine result IS the unbounded SPEC of the theorems above. -/

/-- `compute_strides` in the element type of the shape: exact as soon as the LEADING stride (the product of all
    extents but the first) fits that type — the element count itself may be far larger (e.g. `int` (3, 2^30)). -/
theorem mStrides_exact (t : ITy) (s : Shape) (hs : Pos s) (hf : t.Fits (prod s.tail)) :
    mStrides t s = some (strides s) := mStrides_exact' t s hs hf

/-- `compute_offset` widens every operand to `size_t` before multiplying: whatever the element types `ti`, `ts` (at
    most 64 bit) of the two containers are, if they can hold the operands and the true offset fits `size_t`,
    the machine result is the exact dot product. -/
theorem computeOffset_widened_exact (ti ts : ITy) (hti : ti.bits ≤ 64) (hts : ts.bits ≤ 64) (idx st : List Nat)
    (hi : ∀ x ∈ idx, ti.Fits x) (hst : ∀ x ∈ st, ts.Fits x) (h : computeOffset idx st < SZ) :
    mOffset idx st = computeOffset idx st := by
  unfold mOffset
  rw [mOffsetFrom_eq idx st 0 (by decide), Nat.zero_add, Nat.mod_eq_of_lt h]

/-- without the magnitude hypothesis the machine offset is the true one modulo `2^64` (nothing else is lost) -/
theorem computeOffset_widened_mod (idx st : List Nat) : mOffset idx st = computeOffset idx st % SZ := by
  unfold mOffset
  rw [mOffsetFrom_eq idx st 0 (by decide), Nat.zero_add]

/-- in-shape multi-index, row-major strides of a shape with at most `2^64` elements: the offset is exact and addresses
    inside the buffer, for every element type that can hold extents and strides — in particular for 32-bit containers
    and shapes with more than `2^31` / `2^32` elements. -/
theorem mOffset_inShape_exact (s : Shape) (idx : Idx) (h : InShape idx s) (hn : prod s ≤ SZ) :
    mOffset idx (strides s) = computeOffset idx (strides s) ∧ mOffset idx (strides s) < prod s := by
  have hlt := offset_lt h
  have e : mOffset idx (strides s) = computeOffset idx (strides s) := by
    rw [computeOffset_widened_mod, Nat.mod_eq_of_lt (Nat.lt_of_lt_of_le hlt hn)]
  exact ⟨e, e ▸ hlt⟩

/-- `compute_indices(offset, shape, strides)` with a `size_t` offset and containers of element type `t`: exact (no
    division by zero, no narrowing loss) when the extents and the leading stride fit `t`. -/
theorem mIndices_exact (t : ITy) (hb : t.bits ≤ 64) (s : Shape) (hs : Pos s) (hfit : ∀ x ∈ s, t.Fits x)
    (hf : t.Fits (prod s.tail)) (off : Nat) :
    mIndices t off s (strides s) = some (ndindex s off) := mIndices_exact' t hb s hs hfit hf off

/-- the two-argument form / `ndindex_t::operator[]` (strides computed in the same element type first) -/
theorem mNdindex_exact (t : ITy) (hb : t.bits ≤ 64) (s : Shape) (hs : Pos s) (hfit : ∀ x ∈ s, t.Fits x)
    (hf : t.Fits (prod s.tail)) (off : Nat) :
    mNdindex t s off = some (ndindex s off) := by
  unfold mNdindex
  rw [mStrides_exact' t s hs hf]
  exact mIndices_exact' t hb s hs hfit hf off

/-- machine-level round trip multi-index → offset → multi-index, every element type -/
theorem machine_ndindex_offset (t : ITy) (hb : t.bits ≤ 64) (s : Shape) (idx : Idx) (h : InShape idx s)
    (hfit : ∀ x ∈ s, t.Fits x) (hf : t.Fits (prod s.tail)) (hn : prod s ≤ SZ) :
    (mStrides t s).bind (fun st => mIndices t (mOffset idx st) s st) = some idx := by
  have hs := pos_of_inShape h
  rw [mStrides_exact' t s hs hf]
  simp only [Option.bind_some]
  rw [(mOffset_inShape_exact s idx h hn).1, mIndices_exact' t hb s hs hfit hf]
  exact congrArg some (indices_offset h)

/-- machine-level round trip offset → multi-index → offset, every element type -/
theorem machine_offset_ndindex (t : ITy) (hb : t.bits ≤ 64) (s : Shape) (hs : Pos s) (off : Nat) (ho : off < prod s)
    (hfit : ∀ x ∈ s, t.Fits x) (hf : t.Fits (prod s.tail)) (hn : prod s ≤ SZ) :
    (mNdindex t s off).map (fun idx => mOffset idx (strides s)) = some off := by
  rw [mNdindex_exact t hb s hs hfit hf off]
  simp only [Option.map_some]
  rw [(mOffset_inShape_exact s (ndindex s off) (indices_inShape hs off) hn).1]
  exact congrArg some (offset_indices hs ho)

/-- why the operands must be widened one by one: with the PRODUCT formed in the element type (the cast applied to
    `stride*index`), `int` containers hit signed overflow (UB) and `uint32_t` containers wrap on shapes the theorems
    above cover — `int` (3, 2^30) at (2,5); `uint32_t` (8,1,1024,1024,1,1024) at (5,0,3,2,0,1). -/
theorem narrow_product_counterexample :
    mOffsetNarrow ITy.i32 [2, 5] (strides [3, 1073741824]) = none
    ∧ mOffset [2, 5] (strides [3, 1073741824]) = 2147483653
    ∧ mOffsetNarrow ITy.u32 [5, 0, 3, 2, 0, 1] (strides [8, 1, 1024, 1024, 1, 1024]) = some 1076889601
    ∧ mOffset [5, 0, 3, 2, 0, 1] (strides [8, 1, 1024, 1024, 1, 1024]) = 5371856897 := by decide

/-- KNOWN FINDING strides.narrow-element-type (replayed on the real headers): the hypothesis of `mStrides_exact` is
    needed — `index::stride` forms the suffix product in the element type of the shape container, so with `uint32_t`
    extents (2,65537,65537) (every extent fits, 2^33 elements) the leading stride wraps, strides are not the products of
    the trailing extents and the offset → multi-index map is wrong ((1,0,0) has offset 4295098369). -/
theorem mStrides_unsigned_wrap_counterexample :
    mStrides ITy.u32 [2, 65537, 65537] = some [131073, 65537, 1]
    ∧ strides [2, 65537, 65537] = [4295098369, 65537, 1]
    ∧ (∀ x ∈ [2, 65537, 65537], ITy.u32.Fits x)
    ∧ mNdindex ITy.u32 [2, 65537, 65537] 4295098369 = some [0, 0, 0]
    ∧ ndindex [2, 65537, 65537] 4295098369 = [1, 0, 0] := by decide

/-- same class: a wrapped stride of 0 makes the two-argument `compute_indices` divide by zero, and with a signed element
    type the product overflows (undefined behaviour) -/
theorem mStrides_ub_counterexample :
    mStrides ITy.u32 [2, 65536, 65536] = some [0, 65536, 1] ∧ mNdindex ITy.u32 [2, 65536, 65536] 5 = none
    ∧ mStrides ITy.i32 [2, 65536, 65536] = none := by decide

/-! non-vacuity of the machine-width hypotheses: `int` containers, more than 2^31 elements -/
example : Pos [3, 1073741824] ∧ ITy.i32.Fits (prod [3, 1073741824].tail) ∧ (∀ x ∈ [3, 1073741824], ITy.i32.Fits x)
    ∧ ¬ ITy.i32.Fits (prod [3, 1073741824]) ∧ InShape [2, 5] [3, 1073741824] ∧ prod [3, 1073741824] ≤ SZ := by decide
example : mStrides ITy.i32 [3, 1073741824] = some [1073741824, 1] ∧ mNdindex ITy.i32 [3, 1073741824] 2147483653 = some [2, 5] := by decide
example : (∀ x ∈ [2, 5], ITy.i32.Fits x) ∧ (∀ x ∈ [1073741824, 1], ITy.i32.Fits x) ∧ computeOffset [2, 5] [1073741824, 1] < SZ
    ∧ ITy.i32.bits ≤ 64 := by decide
example : mOffset [1, 4294967295] [18446744069414584320, 1] = 18446744073709551615
    ∧ mOffset [2, 0] [9223372036854775808, 1] = 0 := by decide   -- the second wraps: hypothesis `< SZ` is needed

/-! non-vacuity: concrete instances of the hypotheses -/
example : Pos [2,3,4] ∧ InShape [1,2,3] [2,3,4] ∧ 23 < prod [2,3,4] := by decide
example : ndindex [2,3,4] 23 = [1,2,3] ∧ computeOffset [1,2,3] (strides [2,3,4]) = 23 := by decide
example : computeOffset [1,2,3] (colStrides [2,3,4]) = 23 ∧ computeOffset [1,0,0] (colStrides [2,3,4]) = 1 := by decide
example : (NDA.ofFn true [2,3] (fun i => i)).WF := by simp [NDA.WF, NDA.ofFn]

end NmVerif.Props.C01
