import NmVerif.Arr
import NmVerif.Lemmas.Addressing
import NmVerif.Props.C03
import NmVerif.Props.C04
import NmVerif.Props.C06
import NmVerif.Props.C07
import NmVerif.Props.C08
import NmVerif.Props.C17
import NmVerif.Lemmas.Capacity
/-
  C02 — Element access through arrays and views never leaves the operands' storage.

  General part (this file, top): in-bounds-ness composes through view chains of any depth and turns into
  "buffer position < buffer length" at the leaf for both layouts.  The per-view-kind obligations
  (`X_inBounds`) are proved next to each kind's model (Props.C03/C04/C06/C07/C08/C17 …) and re-exported below,
  one section per owning property (a further property module — C05 slice, C12 SIMD access intervals, C16 — adds
  its own section here and its names to `C02.expected`; nothing else changes).

  What is NOT in this file: the intra-object layout of the real buffers (`std::array` members, `static_vector`
  storage) and the real allocation sizes.  The theorems say "multi-index inside the shape" and "offset < length of
  the modelled buffer"; that the compiled code obeys them is observed by ASan/UBSan/_GLIBCXX_ASSERTIONS and by
  the NMTOOLS_VERIF hooks in the correspondence run (lib/props/c02.py).
-/
namespace NmVerif.Props.C02
open NmVerif

/-- a view of a view: if both stay inside their operand, so does the composition -/
theorem comp_inBounds (outer inner : IxView) (h : outer.src = inner.dst)
    (ho : outer.InBounds) (hi : inner.InBounds) : (outer.comp inner).InBounds := by
  intro d hd i hm
  simp only [IxView.comp] at hm hd
  cases hmo : outer.map d with
  | none => simp [hmo] at hm
  | some k =>
    simp only [hmo, Option.bind_some] at hm
    exact hi k (h ▸ ho d hd k hmo) i hm

/-- a chain of views, innermost last; `ChainOk` = consecutive shapes fit and every stage is in bounds -/
def ChainOk : List IxView → Prop
  | [] => True
  | [v] => v.InBounds
  | v :: w :: rest => v.InBounds ∧ v.src = w.dst ∧ ChainOk (w :: rest)

def compAll : IxView → List IxView → IxView
  | v, [] => v
  | v, w :: rest => compAll (v.comp w) rest

/-- compositions of ANY depth stay in bounds -/
theorem chain_inBounds (v : IxView) (rest : List IxView) (h : ChainOk (v :: rest)) : (compAll v rest).InBounds := by
  induction rest generalizing v with
  | nil => simpa [ChainOk, compAll] using h
  | cons w ws ih =>
    simp only [ChainOk] at h
    obtain ⟨hv, hsrc, hrest⟩ := h
    simp only [compAll]
    apply ih
    have hwb : w.InBounds := by
      cases ws with
      | nil => simpa [ChainOk] using hrest
      | cons x xs => simp only [ChainOk] at hrest; exact hrest.1
    have hc : (v.comp w).InBounds := comp_inBounds v w hsrc hv hwb
    cases ws with
    | nil => simpa [ChainOk] using hc
    | cons x xs =>
      simp only [ChainOk] at hrest ⊢
      exact ⟨hc, by simpa [IxView.comp] using hrest.2.1, hrest.2.2⟩

/-- at the leaf: an in-shape multi-index addresses a position below the buffer length, either layout -/
theorem buffer_access_in_bounds {α : Type} (a : NDA α) (hw : a.WF) (i : Idx) (hi : InShape i a.shape) :
    a.offset i < a.data.length := by
  rw [hw]
  unfold NDA.offset NDA.stridesOf
  split
  · exact colOffset_lt hi
  · exact offset_lt hi

/-- reading element `d` of an in-bounds view over a well-formed array touches a position inside its buffer -/
theorem view_read_in_buffer {α : Type} (v : IxView) (a : NDA α) (hw : a.WF) (hsrc : v.src = a.shape) (hb : v.InBounds)
    (d : Idx) (hd : InShape d v.dst) (i : Idx) (hm : v.map d = some i) : a.offset i < a.data.length :=
  buffer_access_in_bounds a hw i (hsrc ▸ hb d hd i hm)

/-- … and so does every element of a view chain of any depth over that array -/
theorem chain_read_in_buffer {α : Type} (v : IxView) (rest : List IxView) (h : ChainOk (v :: rest)) (a : NDA α) (hw : a.WF)
    (hsrc : (compAll v rest).src = a.shape) (d : Idx) (hd : InShape d (compAll v rest).dst) (i : Idx)
    (hm : (compAll v rest).map d = some i) : a.offset i < a.data.length :=
  view_read_in_buffer _ a hw hsrc (chain_inBounds v rest h) d hd i hm

/-- every multi-index the evaluators enumerate (ndindex of the view's shape, any flat position) is inside that shape -/
theorem eval_indices_inShape (s : Shape) (hs : Pos s) (k : Nat) : InShape (ndindex s k) s := indices_inShape hs k

/-- bounded result containers: the index functions produce exactly `len(shape)` entries, so a result container
    sized by the operand's bound is never asked to hold more -/
theorem strides_len_le_bound (s : Shape) (cap : Nat) (h : s.length ≤ cap) : (strides s).length ≤ cap := by
  rw [strides_length]; exact h

theorem computeIndices_length (off : Nat) (s st : List Nat) (hl : st.length = s.length) :
    (computeIndices off s st).length = s.length := by
  induction s generalizing st with
  | nil => cases st <;> simp [computeIndices]
  | cons a t ih =>
    cases st with
    | nil => simp at hl
    | cons b u => simp [computeIndices, ih u (by simpa using hl)]

theorem indices_len_le_bound (s : Shape) (off cap : Nat) (h : s.length ≤ cap) : (ndindex s off).length ≤ cap := by
  unfold ndindex
  rw [computeIndices_length off s _ (strides_length s)]; exact h


/-! ## trees: a two-operand view over two sub-views (concatenate / stack family over views) -/

/-- a two-operand view whose operands are themselves views -/
def comp2 (v : Index.IxView2) (va vb : IxView) : Index.IxView2 :=
  ⟨va.src, vb.src, v.dst, fun d => (v.map d).bind (fun p =>
    if p.1 then (vb.map p.2).map (fun i => (true, i)) else (va.map p.2).map (fun i => (false, i)))⟩

theorem comp2_inBounds (v : Index.IxView2) (va vb : IxView) (ha : v.srcA = va.dst) (hb : v.srcB = vb.dst)
    (hv : v.InBounds) (hva : va.InBounds) (hvb : vb.InBounds) : (comp2 v va vb).InBounds := by
  intro d hd b i hm
  simp only [comp2] at hm hd ⊢
  cases hmv : v.map d with
  | none => simp [hmv] at hm
  | some p =>
    obtain ⟨pb, pi⟩ := p
    have hp := hv d hd pb pi hmv
    simp only [hmv, Option.bind_some] at hm
    cases pb with
    | true =>
      simp only [if_true, Option.map_eq_some_iff, Prod.mk.injEq] at hm hp
      obtain ⟨j, hj, hbj, hij⟩ := hm
      subst hbj; subst hij
      simpa using hvb pi (hb ▸ hp) j hj
    | false =>
      simp only [Bool.false_eq_true, if_false, Option.map_eq_some_iff, Prod.mk.injEq] at hm hp
      obtain ⟨j, hj, hbj, hij⟩ := hm
      subst hbj; subst hij
      simpa using hva pi (ha ▸ hp) j hj

/-- an indexing view over a two-operand view -/
def compOver2 (outer : IxView) (v : Index.IxView2) : Index.IxView2 :=
  ⟨v.srcA, v.srcB, outer.dst, fun d => (outer.map d).bind v.map⟩

theorem compOver2_inBounds (outer : IxView) (v : Index.IxView2) (h : outer.src = v.dst)
    (ho : outer.InBounds) (hv : v.InBounds) : (compOver2 outer v).InBounds := by
  intro d hd b i hm
  simp only [compOver2] at hm hd ⊢
  cases hmo : outer.map d with
  | none => simp [hmo] at hm
  | some k =>
    simp only [hmo, Option.bind_some] at hm
    exact hv k (h ▸ ho d hd k hmo) b i hm

/-! ## per-view-kind obligations, re-exported from the owning property

Every theorem below has the statement of the theorem of the same name in the owning module and is closed by it. -/

section C03
open NmVerif

theorem transpose_inBounds (src : Shape) (ax : List Int) (p : List Nat) (v : IxView)
    (hn : normalizeAxes src.length ax = some p) (hperm : p.Perm (List.range src.length))
    (hv : transposeView src (some ax) = some v) : v.InBounds :=
  C03.transpose_inBounds src ax p v hn hperm hv

theorem transpose_default_inBounds (src : Shape) (v : IxView) (hv : transposeView src none = some v) :
    v.InBounds := C03.transpose_default_inBounds src v hv

theorem reshape_inBounds (src : Shape) (dst : List Int) (v : IxView) (hs : Pos src)
    (hv : reshapeView src dst = some v) : v.InBounds := C03.reshape_inBounds src dst v hs hv

theorem flatten_inBounds (src : Shape) (v : IxView) (hs : Pos src) (hv : flattenView src = some v) : v.InBounds :=
  C03.reshape_inBounds src _ v hs hv

theorem squeeze_inBounds (src : Shape) (v : IxView) (hs : Pos src) (hv : squeezeView src = some v) : v.InBounds :=
  C03.reshape_inBounds src _ v hs hv

theorem atleastNd_inBounds (src : Shape) (nd : Nat) (v : IxView) (hs : Pos src) (hv : atleastNdView src nd = some v) :
    v.InBounds := C03.reshape_inBounds src _ v hs hv

theorem expandDims_inBounds (src : Shape) (ax : List Int) (v : IxView) (hs : Pos src)
    (hv : expandDimsView src ax = some v) : v.InBounds := by
  simp only [expandDimsView, Option.bind_eq_some_iff] at hv
  obtain ⟨s, _, h⟩ := hv
  exact C03.reshape_inBounds src _ v hs h

theorem flip_inBounds (src : Shape) (axes : Option (List Int)) (v : IxView)
    (hv : flipView src axes = some v) : v.InBounds := C03.flip_inBounds src axes v hv

theorem swapaxes_inBounds (src : Shape) (a1 a2 : Int) (m1 m2 : Nat) (v : IxView)
    (h1 : normalizeAxis src.length a1 = some m1) (h2 : normalizeAxis src.length a2 = some m2) (hs : Pos src)
    (hv : swapaxesView src a1 a2 = some v) : v.InBounds := by
  obtain ⟨w, hw, _, _, _, _, hb, _⟩ := C03.swapaxes_eq_spec (⟨src, fun _ => 0⟩ : Arr Nat) 0 a1 a2 m1 m2 h1 h2 hs
  have hw' : swapaxesView src a1 a2 = some w := hw
  rw [hv] at hw'; cases hw'; exact hb

theorem moveaxis_inBounds (src : Shape) (source destination : List Int) (nsrc ndst : List Nat) (v : IxView)
    (hsn : normalizeAxes src.length source = some nsrc) (hdn : normalizeAxes src.length destination = some ndst)
    (hlen : nsrc.length = ndst.length) (hns : nsrc.Nodup) (hnd : ndst.Nodup) (hs : Pos src)
    (hv : moveaxisView src source destination = some v) : v.InBounds := by
  obtain ⟨_, w, hw, _, _, _, _, _, _, _, hb, _⟩ :=
    C03.moveaxis_eq_spec (⟨src, fun _ => 0⟩ : Arr Nat) 0 source destination nsrc ndst hsn hdn hlen hns hnd hs
  have hw' : moveaxisView src source destination = some w := hw
  rw [hv] at hw'; cases hw'; exact hb

end C03

section C04
open NmVerif NmVerif.Index

theorem tile_inBounds (s r : List Nat) (v : IxView) (hv : tileView s r = some v) (hs : Pos s) : v.InBounds :=
  C04.tile_inBounds s r v hv hs

theorem pad_inBounds (s before after : List Nat) (hb : before.length = s.length) (ha : after.length = s.length)
    (v : IxView) (hv : padView s (before ++ after) = some v) : v.InBounds :=
  C04.pad_inBounds s before after hb ha v hv

theorem take_inBounds (s : Shape) (ind : List Int) (axis : Int) (k : Nat) (hk : normalizeAxis1 axis s.length = some k)
    (n : Nat) (hn : s[k]? = some n) (hind : ∀ e ∈ ind, -(n : Int) ≤ e ∧ e < (n : Int)) (v : IxView)
    (hv : takeView s ind (some axis) = some v) : v.InBounds := C04.take_inBounds s ind axis k hk n hn hind v hv

theorem takeNone_inBounds (s : Shape) (hs : Pos s) (ind : List Int) (v : IxView) (hv : takeView s ind none = some v) :
    v.InBounds := C04.takeNone_inBounds s hs ind v hv

theorem repeat_inBounds (s : Shape) (r k : Nat) (hk : k < s.length) (v : IxView)
    (hv : repeatView s r (some (k : Int)) = some v) : v.InBounds := C04.repeat_inBounds s r k hk v hv

theorem repeatNone_inBounds (s : Shape) (hs : Pos s) (r : Nat) (v : IxView) (hv : repeatView s r none = some v) :
    v.InBounds := C04.repeatNone_inBounds s hs r v hv

theorem repeatList_inBounds (s : Shape) (rs : List Nat) (k : Nat) (hk : k < s.length) (hrs : rs.length = s[k])
    (v : IxView) (hv : repeatListView s rs (k : Int) = some v) : v.InBounds :=
  C04.repeatList_inBounds s rs k hk hrs v hv

theorem concatenate_inBounds (a b : Shape) (k : Nat) (h : ConcatCompatible a b k) (v : IxView2)
    (hv : concatenateView a b (some (k : Int)) = some v) : v.InBounds := C04.concatenate_inBounds a b k h v hv

theorem concatenateNone_inBounds (a b : Shape) (ha : Pos a) (hb : Pos b) (v : IxView2)
    (hv : concatenateView a b none = some v) : v.InBounds := C04.concatenateNone_inBounds a b ha hb v hv

theorem roll_inBounds (s : Shape) (shift axis : Int) (k : Nat) (hk : normalizeAxis1 axis s.length = some k)
    (v : IxView) (hv : rollView s shift axis = some v) : v.InBounds := C04.roll_inBounds s shift axis k hk v hv

theorem rollNone_inBounds (s : Shape) (hs : Pos s) (shift : Int)
    (v : IxView) (hv : rollNoneView s shift = some v) : v.InBounds := C04.rollNone_inBounds s hs shift v hv

theorem rollAxes_inBounds (s : Shape) (shifts axes : List Int) (ks : List Nat) (hk : AxesNorm s.length axes ks)
    (hlen : shifts.length = axes.length)
    (v : IxView) (hv : rollAxesView s shifts axes = some v) : v.InBounds :=
  C04.rollAxes_inBounds s shifts axes ks hk hlen v hv

theorem resize_inBounds (s t : Shape) (hs : Pos s) (v : IxView) (hv : resizeView s t = some v) : v.InBounds :=
  C04.resize_inBounds s t hs v hv

theorem compress_inBounds (s : Shape) (cond : List Int) (axis : Int) (k : Nat) (hk : normalizeAxis1 axis s.length = some k)
    (n : Nat) (hn : s[k]? = some n) (hc : cond.length ≤ n)
    (v : IxView) (hv : compressView s cond (some axis) = some v) : v.InBounds :=
  C04.compress_inBounds s cond axis k hk n hn hc v hv

theorem expand_inBounds (s : Shape) (axis : Int) (sp k : Nat) (hk : normalizeAxis1 axis s.length = some k)
    (v : IxView) (hv : expandView s [axis] [sp] = some v) : v.InBounds := C04.expand_inBounds s axis sp k hk v hv

theorem tril_inBounds (s : Shape) (k : Int) (v : IxView) (hv : trilView s k = some v) : v.InBounds :=
  C04.tril_inBounds s k v hv

theorem triu_inBounds (s : Shape) (k : Int) (v : IxView) (hv : triuView s k = some v) : v.InBounds :=
  C04.triu_inBounds s k v hv

theorem diagflat_inBounds (s : Shape) (hs : Pos s) (k : Int) (v : IxView) (hv : diagflatView s k = some v) :
    v.InBounds := C04.diagflat_inBounds s hs k v hv

theorem slidingWindow_inBounds (s : Shape) (w : Nat) (axis : Int) (k e : Nat) (hk : normalizeAxis1 axis s.length = some k)
    (he : s[k]? = some e) (hw1 : 1 ≤ w) (hw2 : w ≤ e)
    (v : IxView) (hv : slidingWindowView s [w] (some [axis]) true = some v) : v.InBounds :=
  C04.slidingWindow_inBounds s w axis k e hk he hw1 hw2 v hv

theorem split_inBounds (s : Shape) (N k n : Nat) (hn : s[k]? = some n) (hdiv : N ∣ n) (ps : List IxView)
    (hps : splitViews s (some N) [] (k : Int) = some ps) (i : Nat) (v : IxView) (hv : ps[i]? = some v) : v.InBounds :=
  C04.split_inBounds s N k n hn hdiv ps hps i v hv

/-- stack / hstack / vstack / dstack / column_stack: reshape both operands, then concatenate -/
theorem joinReshaped_inBounds (a b a' b' : Shape) (axis : Int) (ha : Pos a) (hb : Pos b)
    (v : IxView2) (hv : joinReshaped a b a' b' axis = some v) : v.InBounds :=
  C04.joinReshaped_inBounds a b a' b' axis ha hb v hv

/-- diagonal of any rank, any accepted axis pair (negative axes included), every offset -/
theorem diagonal_inBounds (s : Shape) (off axis1 axis2 : Int) (a1 a2 : Nat)
    (h1 : normalizeAxis1 axis1 s.length = some a1) (h2 : normalizeAxis1 axis2 s.length = some a2) (hne : a1 ≠ a2)
    (v : IxView) (hv : diagonalView s off axis1 axis2 = some v) : v.InBounds :=
  C04.diagonal_inBounds s off axis1 axis2 a1 a2 h1 h2 hne v hv

/-- expand over any accepted axis list (repeats included), one spacing per entry -/
theorem expandAxes_inBounds (s : Shape) (axes : List Int) (sps ks : List Nat) (hk : AxesNorm s.length axes ks)
    (hl : sps.length = axes.length) (v : IxView) (hv : expandView s axes sps = some v) : v.InBounds :=
  C04.expandAxes_inBounds s axes sps ks hk hl v hv

/-- sliding_window with a window list over an axis list (negative and repeated axes) on the no-wrap domain -/
theorem slidingWindowList_inBounds (s ws : List Nat) (axes : List Int) (ks : List Nat) (hk : AxesNorm s.length axes ks)
    (hw : ∀ w ∈ ws, 1 ≤ w) (hfit : ∀ p e, s[p]? = some e → winSum ks (ws.map (· - 1)) p ≤ e)
    (v : IxView) (hv : slidingWindowView s ws (some axes) false = some v) : v.InBounds :=
  C04.slidingWindowList_inBounds s ws axes ks hk hw hfit v hv

/-- sliding_window with a window list and axis None -/
theorem slidingWindowNone_inBounds (s ws : List Nat) (hl : ws.length = s.length) (hw : ∀ w ∈ ws, 1 ≤ w)
    (hfit : ∀ (p e w : Nat), s[p]? = some e → ws[p]? = some w → w ≤ e + 1) (v : IxView)
    (hv : slidingWindowView s ws none false = some v) : v.InBounds :=
  C04.slidingWindowNone_inBounds s ws hl hw hfit v hv

/-- split at a list of non-negative cut points (beyond the extent: clamped), any accepted axis: every part -/
theorem splitIdx_inBounds (s : Shape) (cuts : List Int) (axis : Int) (k : Nat)
    (hk : normalizeAxis1 axis s.length = some k) (hnn : ∀ c ∈ cuts, 0 ≤ c)
    (ps : List IxView) (hps : splitViews s none cuts axis = some ps) (i : Nat) (v : IxView) (hv : ps[i]? = some v) :
    v.InBounds :=
  C04.splitIdx_inBounds s cuts axis k hk hnn ps hps i v hv

/-- where(cond, x, y): the condition and the selected operand are read inside their shapes -/
theorem where_inBounds (c x y : Shape) (w : WhereView) (h : whereView c x y = some w) (cond : Idx → Int) (d : Idx)
    (hd : InShape d w.dst) :
    InShape (specBroadcastIdx c d) c ∧
      ∀ fl i, w.select cond d = some (fl, i) → InShape i (if fl then y else x) :=
  C04.where_inBounds c x y w h cond d hd

/-- diagonal, 2-d instance (kept under its old name; subsumed by `diagonal_inBounds`) -/
theorem diagonal2d_inBounds_partial (n1 n2 : Nat) (off : Int) (v : IxView)
    (hv : diagonalView [n1, n2] off 0 1 = some v) : v.InBounds :=
  C04.diagonal2d_inBounds_partial n1 n2 off v hv

end C04

section C06
open NmVerif

theorem broadcastTo_inBounds (src dst : Shape) (v : IxView) (h : broadcastToView src dst = some v) : v.InBounds :=
  C06.broadcastTo_inBounds src dst v h

private theorem mem_of_mapM {α β} (f : α → Option β) (l : List α) (vs : List β) (h : l.mapM f = some vs) :
    ∀ v ∈ vs, ∃ x ∈ l, f x = some v := by
  induction l generalizing vs with
  | nil => simp at h; subst h; simp
  | cons a t ih =>
    rw [mapM_cons_opt] at h
    cases hfa : f a with
    | none => simp [hfa] at h
    | some b =>
      cases ht : t.mapM f with
      | none => simp [hfa, ht] at h
      | some r =>
        simp [hfa, ht] at h
        subst h
        intro v hv
        simp only [List.mem_cons] at hv
        rcases hv with rfl | hv
        · exact ⟨a, by simp, hfa⟩
        · obtain ⟨x, hx, hfx⟩ := ih r ht v hv
          exact ⟨x, by simp [hx], hfx⟩

/-- every view produced by `broadcast_arrays` reads its own operand in bounds -/
theorem broadcastArrays_inBounds (ss : List Shape) (vs : List IxView) (h : broadcastArraysViews ss = some vs) :
    ∀ v ∈ vs, v.InBounds := by
  unfold broadcastArraysViews at h
  simp only [Option.bind_eq_some_iff] at h
  obtain ⟨r, _, hvs⟩ := h
  intro v hv
  obtain ⟨s, _, hs⟩ := mem_of_mapM _ _ _ hvs v hv
  exact C06.broadcastTo_inBounds s r v hs

end C06

section C07
open NmVerif NmVerif.Props.C06

/-- element-wise functions (any arity): every operand is read inside its own shape -/
theorem ufunc_reads_inBounds {α β : Type} (op : List α → β) (as : List (Arr α)) (u : Arr (Option β))
    (h : ufunc op as = some u) (d : Idx) (hd : InShape d u.shape) :
    ∀ a ∈ as, InShape (specBroadcastIdx a.shape d) a.shape := C07.ufunc_reads_inBounds op as u h d hd

end C07

section C08
open NmVerif

theorem reduce_inBounds (s : Shape) (hs : Pos s) (axis : Reduce.AxisArg) (keep : Bool)
    (hv : Reduce.ValidAxes s.length axis) (j : Idx)
    (hj : InShape j (Reduce.specShape s (Reduce.axisSet s.length axis) keep)) :
    ∃ r, Reduce.reduceReads s axis keep j = some r ∧ ∀ i ∈ r, InShape i s :=
  C08.reduce_inBounds s hs axis keep hv j hj

theorem accumulate_inBounds (s : Shape) (axis : Int) (hax : Reduce.ValidAxis s.length axis) (d : Idx) (hd : InShape d s) :
    ∃ r, Reduce.accumulateReads s axis d = some r ∧ ∀ i ∈ r, InShape i s :=
  C08.accumulate_inBounds s axis hax d hd

end C08

section C17
open NmVerif NmVerif.NN

/-- pooling windows (incl. the clipped overhang of ceil mode) stay inside the input -/
theorem pool_window_in_bounds (lead li : List Nat) (H W kh kw sh sw i j : Nat) (ceil : Bool)
    (hH : PoolDom H kh sh) (hW : PoolDom W kw sw)
    (hidx : InShape (li ++ [i, j]) (lead ++ [poolExtent H kh sh ceil, poolExtent W kw sw ceil]))
    (hli : InShape li lead) :
    ∃ win, poolWindow (lead ++ [H, W]) [kh, kw] [sh, sw] (li ++ [i, j]) = some win
      ∧ win ≠ [] ∧ ∀ x ∈ win, InShape x (lead ++ [H, W]) :=
  C17.pool_window_in_bounds lead li H W kh kw sh sw i j ceil hH hW hidx hli

end C17

section Chains
open NmVerif NmVerif.Index

/-! ## concrete chains (non-vacuity of `chain_read_in_buffer`) -/

/-- depth 3: `transpose(tile(reshape(a, tgt), reps), axes)` -/
theorem depth3_transpose_tile_reshape_in_buffer {α : Type} (s : Shape) (tgt : List Int) (reps : List Nat)
    (ax : List Int) (p : List Nat) (r t o : IxView) (hs : Pos s)
    (hr : reshapeView s tgt = some r) (ht : tileView r.dst reps = some t)
    (hn : normalizeAxes t.dst.length ax = some p) (hperm : p.Perm (List.range t.dst.length))
    (ho : transposeView t.dst (some ax) = some o)
    (a : NDA α) (hw : a.WF) (hsh : a.shape = s)
    (d : Idx) (hd : InShape d o.dst) (i : Idx) (hm : (compAll o [t, r]).map d = some i) :
    a.offset i < a.data.length := by
  have hrb := reshape_inBounds s tgt r hs hr
  have hrs : r.src = s := by
    simp only [reshapeView, Option.map_eq_some_iff] at hr
    obtain ⟨_, _, rfl⟩ := hr; rfl
  have hrpos : Pos r.dst := by
    simp only [reshapeView, Option.map_eq_some_iff] at hr
    obtain ⟨q, hq, rfl⟩ := hr
    exact pos_of_prod_pos q (by rw [shapeReshape_prod s tgt q hq]; exact prod_pos hs)
  have htb := tile_inBounds r.dst reps t ht hrpos
  have hts : t.src = r.dst := by
    simp only [tileView, Option.some.injEq] at ht; subst ht; rfl
  have hob := transpose_inBounds t.dst ax p o hn hperm ho
  have hos : o.src = t.dst := by
    obtain ⟨w, hw', hsrc, _⟩ := C03.transpose_eq_spec t.dst ax p hn hperm
    rw [ho] at hw'; cases hw'; exact hsrc
  have hc : ChainOk [o, t, r] := ⟨hob, hos, htb, hts, hrb⟩
  refine chain_read_in_buffer o [t, r] hc a hw ?_ d ?_ i hm
  · simp [compAll, IxView.comp, hrs, hsh]
  · simpa [compAll, IxView.comp] using hd

/-- depth 3 with a fill stage: `flip(pad(broadcast_to(a, shape), widths), axes)` — no positivity needed -/
theorem depth3_flip_pad_broadcast_in_buffer {α : Type} (s dst before after : List Nat) (axes : Option (List Int))
    (b p f : IxView) (hb : broadcastToView s dst = some b)
    (hbl : before.length = dst.length) (hal : after.length = dst.length)
    (hp : padView dst (before ++ after) = some p) (hf : flipView p.dst axes = some f)
    (a : NDA α) (hw : a.WF) (hsh : a.shape = s)
    (d : Idx) (hd : InShape d f.dst) (i : Idx) (hm : (compAll f [p, b]).map d = some i) :
    a.offset i < a.data.length := by
  have hbb := broadcastTo_inBounds s dst b hb
  obtain ⟨hbs, hbd⟩ : b.src = s ∧ b.dst = dst := by
    simp only [broadcastToView, Option.map_eq_some_iff] at hb
    obtain ⟨_, _, rfl⟩ := hb; exact ⟨rfl, rfl⟩
  have hpb := pad_inBounds dst before after hbl hal p hp
  have hps : p.src = dst := by
    simp only [padView, Option.map_eq_some_iff] at hp
    obtain ⟨_, _, rfl⟩ := hp; rfl
  have hfb := flip_inBounds p.dst axes f hf
  have hfs : f.src = p.dst := by
    simp only [flipView, Option.some.injEq] at hf; subst hf; rfl
  have hc : ChainOk [f, p, b] := ⟨hfb, hfs, hpb, by rw [hps, hbd], hbb⟩
  refine chain_read_in_buffer f [p, b] hc a hw ?_ d ?_ i hm
  · simp [compAll, IxView.comp, hbs, hsh]
  · simpa [compAll, IxView.comp] using hd

/-! non-vacuity: the hypotheses hold on concrete values and the chain really reads the claimed element -/
example : (do
    let r ← reshapeView [2,3] [3,-1]
    let t ← tileView r.dst [2,1,2]
    let o ← transposeView t.dst (some [2,0,-2])
    pure ((compAll o [t, r]).dst, (compAll o [t, r]).map [3,1,2])) = some ([4,2,3], some [1,2]) := by decide
example : normalizeAxes 3 [2,0,-2] = some [2,0,1] ∧ [2,0,1].Perm (List.range 3) := by decide
example : (do
    let b ← broadcastToView [3,1] [2,3,2]
    let p ← padView b.dst ([1,0,1] ++ [0,2,0])
    let f ← flipView p.dst (some [0,2])
    pure ((compAll f [p, b]).dst, (compAll f [p, b]).map [0,1,0], (compAll f [p, b]).map [2,0,0])) =
    some ([3,5,3], some [1,0], none) := by decide

/-! ## capacity: a result container sized by the operands' bound is never asked to hold more

The C++ result type of these index functions is, for bounded operands, `static_vector<_, B>` with `B` the bound
of the operand (resp. the larger of the two operands' bounds).  Each theorem: the number of entries the function
writes is at most that bound. -/

theorem shapeTranspose_len_le_cap (s : Shape) (axes : Option (List Int)) (r : Shape) (cap : Nat)
    (h : shapeTranspose s axes = some r) (hc : s.length ≤ cap) : r.length ≤ cap := by
  cases axes with
  | none => simp only [shapeTranspose, Option.some.injEq] at h; subst h; simpa using hc
  | some ax =>
    simp only [shapeTranspose] at h
    split at h
    · rename_i hl
      rw [mapM_some_length _ _ _ h, hl]; exact hc
    · cases h

theorem shapeReshape_len_le_cap (src : Shape) (dst : List Int) (r : Shape) (cap : Nat)
    (h : shapeReshape src dst = some r) (hc : dst.length ≤ cap) : r.length ≤ cap := by
  simp only [shapeReshape] at h
  split at h
  · cases h
  · split at h
    · cases h
    · split at h
      · cases h
      · split at h
        · cases h
        · simp only [Option.some.injEq] at h; subst h; simpa using hc

private theorem bcRev_length (a b r : List Nat) (h : bcRev a b = some r) : r.length = max a.length b.length := by
  induction a generalizing b r with
  | nil => simp only [bcRev, Option.some.injEq] at h; subst h; simp
  | cons x xs ih =>
    cases b with
    | nil => simp only [bcRev, Option.some.injEq] at h; subst h; simp
    | cons y ys =>
      simp only [bcRev] at h
      cases hb : bc1 x y with
      | none => simp [hb] at h
      | some z =>
        simp only [hb, Option.map_eq_some_iff] at h
        obtain ⟨q, hq, rfl⟩ := h
        simp only [List.length_cons, ih ys q hq]; omega

theorem broadcastShape_len_le_cap (a b r : Shape) (capA capB : Nat) (h : broadcastShape2 a b = some r)
    (ha : a.length ≤ capA) (hb : b.length ≤ capB) : r.length ≤ max capA capB := by
  simp only [broadcastShape2, Option.map_eq_some_iff] at h
  obtain ⟨q, hq, rfl⟩ := h
  have := bcRev_length _ _ _ hq
  simp only [List.length_reverse] at this ⊢
  omega

theorem shapeTile_len_le_cap (s reps : List Nat) (capS capR : Nat) (hs : s.length ≤ capS) (hr : reps.length ≤ capR) :
    (shapeTile s reps).length ≤ max capS capR := by
  rw [shapeTile_length]; omega

private theorem removeDimsLoop_length_le (p : Nat → Bool) (keep : Bool) (i : Nat) (s : Shape) :
    (Reduce.removeDimsLoop p keep i s).length ≤ s.length := by
  induction s generalizing i with
  | nil => simp [Reduce.removeDimsLoop]
  | cons a t ih =>
    simp only [Reduce.removeDimsLoop]
    split
    · have := ih (i+1); simp; omega
    · have := ih (i+1); simp; omega

theorem removeDims_len_le_cap (s : Shape) (axis : Reduce.AxisArg) (keep : Bool) (r : Shape) (cap : Nat)
    (h : Reduce.removeDims s axis keep = some r) (hc : s.length ≤ cap) : r.length ≤ cap := by
  unfold Reduce.removeDims at h
  have hl := removeDimsLoop_length_le
  cases hu : Reduce.unwrapAxes s.length axis with
  | none => simp [hu] at h
  | some ax =>
    by_cases hk : keep = true
    · simp [hu, hk] at h; subst h; exact Nat.le_trans (hl _ _ _ _) hc
    · simp [hu, hk] at h
      obtain ⟨_, rfl⟩ := h
      exact Nat.le_trans (hl _ _ _ _) hc

private theorem shapeConcatLoop_length_le (axis : Int) (i : Nat) (a b : Shape) :
    (shapeConcatLoop axis i a b).2.length ≤ a.length := by
  induction a generalizing i b with
  | nil => simp [shapeConcatLoop]
  | cons x xs ih =>
    cases b with
    | nil => simp [shapeConcatLoop]
    | cons y ys =>
      simp only [shapeConcatLoop]
      have := ih (i+1) ys
      split
      · simp; omega
      · split
        · simp; omega
        · simp

theorem shapeConcatenate_len_le_cap (a b : Shape) (axis : Int) (cap : Nat) (hc : a.length ≤ cap) :
    (shapeConcatenate a b axis).2.length ≤ cap := by
  simp only [shapeConcatenate]
  split
  · exact Nat.le_trans (shapeConcatLoop_length_le _ 0 a b) hc
  · simpa using hc

theorem shapePad_len_le_cap (s widths r : List Nat) (cap : Nat) (h : shapePad s widths = some r)
    (hc : s.length ≤ cap) : r.length ≤ cap := by
  simp only [shapePad] at h
  split at h
  · simp only [Option.some.injEq] at h; subst h
    simp only [List.length_zipWith, List.length_take, List.length_drop]; omega
  · cases h

private theorem setPy_length {α} (l : List α) (i : Int) (v : α) : (setPy l i v).length = l.length := by
  simp only [setPy]; split <;> simp

theorem shapeRepeat_len_le_cap (s : Shape) (r : Nat) (axis : Int) (t : Shape) (cap : Nat)
    (h : shapeRepeat s r axis = some t) (hc : s.length ≤ cap) : t.length ≤ cap := by
  simp only [shapeRepeat, Option.map_eq_some_iff] at h
  obtain ⟨_, _, rfl⟩ := h
  rw [setPy_length]; exact hc

theorem shapeRepeatList_len_le_cap (s : Shape) (rs : List Nat) (axis : Int) (t : Shape) (cap : Nat)
    (h : shapeRepeatList s rs axis = some t) (hc : s.length ≤ cap) : t.length ≤ cap := by
  simp only [shapeRepeatList, Option.map_eq_some_iff] at h
  obtain ⟨_, _, rfl⟩ := h
  rw [setPy_length]; exact hc


/-- known finding `eval.fixed-buffer-result`: an accepted view can have MORE elements than its operand, so a result
    container that keeps the operand's fixed capacity (what `eval()` resolves for `ndarray_t<std::array<T,N>,…>`)
    cannot hold the result: `repeat((2,3), 2, axis 1)` has 12 elements, the operand's buffer 6 -/
theorem eval_fixed_buffer_counterexample :
    ∃ t, shapeRepeat [2,3] 2 1 = some t ∧ ¬ (prod t ≤ prod [2,3]) := ⟨[2,6], by decide, by decide⟩

/-! non-vacuity: a rank-3 shape in a container bounded by 4, reps of length 5 in a container bounded by 8 -/
example : (shapeTile [2,3,4] [1,2,1,2,1]).length = 5 ∧ 5 ≤ max 4 8 := by decide
example : broadcastShape2 [3,1] [2,1,4] = some [2,3,4] := by decide
example : shapeTranspose [2,3,4] (some [2,0,1]) = some [4,2,3] ∧ shapeReshape [2,3,4] [4,-1] = some [4,6] := by decide
example : Reduce.removeDims [2,3,4] (some [0,-1]) false = some [3] ∧ shapePad [2,3] [1,0,0,2] = some [3,5] := by decide
example : shapeConcatenate [2,3] [2,1] 1 = (true, [2,4]) ∧ shapeRepeat [2,3] 2 (-1) = some [2,6] := by decide

end Chains

/-! ## capacity, second part: the remaining index functions with bounded results

The bound is the one the result-type metafunction picks (`NmVerif.Cap.*`, Index/Capacity.lean — compared with
`meta::bounded_size_v` of the real result type on every run by harness/h_c02cap.cpp); `bS`, `bA`, … are the capacities of
the operand containers.  Each theorem: whatever the function writes fits. -/
section Capacity2
open NmVerif NmVerif.Cap

/-- `index::shape_expand_dims`: `len(shape) + len(axes)` entries into `static_vector<_, B_N + B_M>` (an integer axis: `B_N + 1`) -/
theorem shapeExpandDims_len_le_cap (s : Shape) (axes : List Int) (r : Shape) (bS bA : Nat)
    (h : shapeExpandDims s axes = some r) (hs : s.length ≤ bS) (ha : axes.length ≤ bA) :
    r.length ≤ capExpandDims bS bA := by
  rw [CapL.shapeExpandDims_length s axes r h]; simp only [capExpandDims]; omega

/-- `index::shape_squeeze` -/
theorem shapeSqueeze_len_le_cap (s : Shape) (bS : Nat) (hs : s.length ≤ bS) : (shapeSqueeze s).length ≤ capSame bS :=
  Nat.le_trans (List.length_filter_le _ _) hs

/-- `index::remove_single_dims` -/
theorem removeSingleDims_len_le_cap (s : Shape) (bS : Nat) (hs : s.length ≤ bS) : (removeSingleDims s).length ≤ capSame bS :=
  Nat.le_trans (List.length_filter_le _ _) hs

/-- `index::shape_sliding_window`, every argument form (window list / scalar window = the one-element list with `bW = 1`;
    axis list, single axis, None): `len(shape) + len(window)` entries into `static_vector<_, src_b_dim + b_window_dim>` -/
theorem shapeSlidingWindow_len_le_cap (s ws : List Nat) (axes : Option (List Int)) (scalarW : Bool) (r : Shape) (bS bW : Nat)
    (h : Index.shapeSlidingWindow s ws axes scalarW = some r) (hs : s.length ≤ bS) (hw : ws.length ≤ bW) :
    r.length ≤ capSlidingWindow bS bW := by
  rw [CapL.shapeSlidingWindow_length s ws axes scalarW r h]; simp only [capSlidingWindow]; omega

/-- `index::shape_take` with an integer axis: the result container is the shape's own type -/
theorem shapeTake_len_le_cap (s : Shape) (nIdx : Nat) (axis : Int) (bS : Nat) (hs : s.length ≤ bS) :
    (Index.shapeTake s nIdx axis).length ≤ capSame bS := by
  simp only [Index.shapeTake, Index.mapAt_length]; exact hs

/-- `index::shape_slice` (packed slices): `dim - #integers` entries -/
theorem shapeSlice_len_le_cap (s : List Nat) (es : List Slice.Entry) (r : List Nat) (bS : Nat)
    (h : Slice.shapeSlice s es = some r) (hs : s.length ≤ bS) : r.length ≤ capSame bS :=
  Nat.le_trans (CapL.shapeSlice_length_le s es r h) hs

/-- `index::shape_dynamic_slice` (run-time list of slices) -/
theorem shapeDynamicSlice_len_le_cap (s : List Nat) (es : List Slice.Entry) (r : List Nat) (bS : Nat)
    (h : Slice.shapeDynamicSlice s es = some r) (hs : s.length ≤ bS) : r.length ≤ capSame bS :=
  Nat.le_trans (CapL.shapeDynamicSlice_length_le s es r h) hs

/-- `index::moveaxis_to_transpose`: `dim` entries into `static_vector<_, B_DIM>` (B_DIM the bound of the SHAPE) -/
theorem moveaxisToTranspose_len_le_cap (s : Shape) (source destination : List Int) (r : List Nat) (bS : Nat)
    (h : moveaxisToTranspose s.length source destination = some r) (hs : s.length ≤ bS) : r.length ≤ capSame bS := by
  rw [CapL.moveaxisToTranspose_length _ _ _ _ h]; exact hs

/-- `index::normalize_axis` on an axis list: one entry per axis into `static_vector<_, B_DIM>` (B_DIM the bound of the AXES) -/
theorem normalizeAxes_len_le_cap (ndim : Nat) (axes : List Int) (r : List Nat) (bA : Nat)
    (h : normalizeAxes ndim axes = some r) (ha : axes.length ≤ bA) : r.length ≤ capSame bA := by
  unfold normalizeAxes at h
  rw [mapM_some_length _ _ _ h]; exact ha

/-- `index::shape_roll` -/
theorem shapeRoll_len_le_cap (s : Shape) (axes : List Int) (r : Shape) (bS : Nat)
    (h : Index.shapeRoll s axes = some r) (hs : s.length ≤ bS) : r.length ≤ capSame bS := by
  simp only [Index.shapeRoll] at h
  split at h
  · simp only [Option.some.injEq] at h; subst h; exact hs
  · cases h

/-- `index::shape_resize`: the result is sized by the TARGET shape and bounded by the target's bound -/
theorem shapeResize_len_le_cap (s dst r : Shape) (bD : Nat)
    (h : Index.shapeResize s dst = some r) (hd : dst.length ≤ bD) : r.length ≤ capSame bD := by
  simp only [Index.shapeResize] at h
  split at h
  · simp only [Option.some.injEq] at h; subst h; exact hd
  · cases h

/-- `index::shape_expand` (view/expand.hpp), any axis / spacing lists -/
theorem shapeExpand_len_le_cap (s : Shape) (ks sps : List Nat) (bS : Nat) (hs : s.length ≤ bS) :
    (Index.shapeExpand s ks sps).length ≤ capSame bS := by
  rw [CapL.shapeExpand_length]; exact hs

/-- `index::shape_diagonal` (view/diagonal.hpp): `dim - 1` entries into `static_vector<_, B_DIM - 1>` for two DIFFERENT axes -/
theorem shapeDiagonal_len_le_cap (s : Shape) (off : Int) (a1 a2 : Nat) (r : Shape) (bS : Nat) (hne : a1 ≠ a2)
    (h : Index.shapeDiagonal s off a1 a2 = some r) (hs : s.length ≤ bS) : r.length ≤ capDiagonal bS := by
  have := CapL.shapeDiagonal_length s off a1 a2 r hne h
  simp only [capDiagonal]; omega

/-- known finding `diagonal.equal-axes`: the hypothesis `a1 ≠ a2` above is NOT checked by the code.  With both axes equal
    `shape_diagonal` skips one axis only and writes `dim` entries into a container sized (and, bounded, capped) for `dim - 1`:
    `view::diagonal(a(2,3), 0, 0, 0)` writes 2 entries where the bound of a rank-2 shape at full capacity allows 1 -/
theorem shapeDiagonal_equal_axes_counterexample :
    ∃ r, Index.shapeDiagonal [2,3] 0 0 0 = some r ∧ ¬ (r.length ≤ capDiagonal 2) := ⟨[3,2], by decide, by decide⟩

/-- `index::shape_matmul` (view/matmul.hpp): at most `max(len a, len b)` entries into `static_vector<_, max(B_a, B_b)>` -/
theorem shapeMatmul_len_le_cap (a b r : Shape) (bA bB : Nat) (h : shapeMatmul a b = some r)
    (ha : a.length ≤ bA) (hb : b.length ≤ bB) : r.length ≤ capMatmul bA bB := by
  have := CapL.shapeMatmul_length_le a b r h
  simp only [capMatmul]; omega

/-- `index::shape_pool2d` -/
theorem shapePool2d_len_le_cap (s k st : List Nat) (c : Bool) (r : Shape) (bS : Nat)
    (h : NN.shapePool2d s k st c = some r) (hs : s.length ≤ bS) : r.length ≤ capSame bS := by
  rw [CapL.shapePool2d_length s k st c r h]; exact hs

/-! ### index maps: the source index a view hands to its operand is held by a container bounded like the SOURCE shape
(`static_vector<_, bounded_size_v<src_shape_t>>` in `resolve_optype<sliding_window_t | roll_t | resize_t | expand_t |
diagonal_t | take_t>`): it never has more entries than the source has axes -/

theorem indexSlidingWindow_len_le_cap (d : Idx) (s : Shape) (axes : Option (List Int)) (r : Idx) (bS : Nat)
    (h : Index.indexSlidingWindow d s.length axes = some r) (hs : s.length ≤ bS) : r.length ≤ capSame bS :=
  Nat.le_trans (CapL.indexSlidingWindow_length_le d s.length axes r h) hs

theorem indexRoll_len_le_cap (s : Shape) (d : Idx) (shifts axes : List Int) (r : Idx) (bS : Nat)
    (h : Index.indexRollU s d shifts axes = some r) (hd : d.length = s.length) (hs : s.length ≤ bS) :
    r.length ≤ capSame bS := by
  rw [CapL.indexRollLoop_length s d axes shifts d r h, hd]; exact hs

theorem indexResize_len_le_cap (d : Idx) (s dst : Shape) (bS : Nat) (hs : s.length ≤ bS) :
    (Index.indexResize d s dst).length ≤ capSame bS :=
  Nat.le_trans (CapL.indexResize_length_le d s dst) hs

theorem indexExpand_len_le_cap (d : Idx) (s : Shape) (ks sps : List Nat) (r : Idx) (bS : Nat)
    (h : Index.indexExpand d ks sps = some r) (hd : d.length = s.length) (hs : s.length ≤ bS) : r.length ≤ capSame bS := by
  rw [CapL.indexExpand_length d ks sps r h, hd]; exact hs

theorem indexDiagonal_len_le_cap (s : Shape) (d : Idx) (off : Int) (a1 a2 : Nat) (r : Idx) (bS : Nat)
    (h : Index.indexDiagonal s d off a1 a2 = some r) (hs : s.length ≤ bS) : r.length ≤ capSame bS := by
  rw [CapL.indexDiagonal_length s d off a1 a2 r h]; exact hs

theorem indexTake_len_le_cap (d : Idx) (s : Shape) (indices : List Int) (axis : Int) (bS : Nat)
    (hd : d.length = s.length) (hs : s.length ≤ bS) : (Index.indexTake d s indices axis).length ≤ capSame bS := by
  simp only [Index.indexTake, Index.mapAt_length, hd]; exact hs

example : Index.indexSlidingWindow [1,0,2,1,1,0,1] 4 (some [0,-1,1]) = some [2,1,2,1] := by decide
example : Index.indexRollU [5,6,7,8] [0,1,2,3] [1,2,3] [0,-1,1] = some [4,4,2,1] := by decide
example : Index.indexResize [2,1,0,3] [5,6,7,8] [3,2,1,4] = [3,3,0,6] := by decide
example : Index.indexExpand [2,0,1,3] [0,3,1] [1,2,1] = some [1,0,1,1] := by decide
example : Index.indexDiagonal [5,6,7,8] [1,2,3] 1 0 3 = some [3,1,2,4] := by decide
example : Index.indexTake [1,2,0,3] [5,6,7,8] [2,-1,0] (-2) = [1,2,2,3] := by decide

/-! non-vacuity: every operand AT FULL CAPACITY (rank-4 shape in a container bounded by 4, three axes in a container bounded
    by 3) — the hypotheses hold and the result fills the bound exactly where the function adds axes -/
example : shapeExpandDims [2,3,4,5] [0,2,-1] = some [1,2,1,3,4,5,1] ∧ [1,2,1,3,4,5,1].length = capExpandDims 4 3 := by decide
example : shapeSqueeze [2,1,3,1] = [2,3] ∧ removeSingleDims [2,1,3,1] = [2,3] := by decide
example : Index.shapeSlidingWindow [5,6,7,8] [2,3,2] (some [0,-1,1]) false = some [4,5,7,6,2,3,2] ∧ 7 = capSlidingWindow 4 3 := by decide
example : Index.shapeSlidingWindow [5,6,7,8] [3] none true = some [3,4,5,6,3] ∧ 5 = capSlidingWindow 4 1 := by decide
example : Index.shapeTake [5,6,7,8] 3 (-2) = [5,6,3,8] := by decide
example : Slice.shapeDynamicSlice [5,6] [.range (some 0) (some 3) (some 1), .range (some 1) (some 6) (some 2)] = some [3,3] := by decide
example : Slice.shapeSlice [5,6,7] [.int 1, .ellipsis, .range (some 0) (some 4) (some 2)] = some [6,2] := by decide
example : moveaxisToTranspose 4 [0,1,-1] [2,0,1] = some [1,3,0,2] := by decide
example : normalizeAxes 4 [0,-1,2,1] = some [0,3,2,1] := by decide
example : Index.shapeRoll [5,6,7,8] [0,-1,1] = some [5,6,7,8] ∧ Index.shapeResize [5,6,7,8] [2,3,4,5] = some [2,3,4,5] := by decide
example : Index.shapeExpand [5,6,7,8] [0,3,1] [1,2,1] = [9,11,7,22] := by decide
example : Index.shapeDiagonal [5,6,7,8] 1 0 3 = some [6,7,5] ∧ 3 = capDiagonal 4 := by decide
example : shapeMatmul [5,6,7,8] [8,3] = some [5,6,7,3] ∧ shapeMatmul [8] [5,6,8,3] = some [5,6,3] ∧ 4 = capMatmul 4 2 := by decide
example : NN.shapePool2d [2,3,8,9] [2,3] [2,2] true = some [2,3,4,4] := by decide

end Capacity2

end NmVerif.Props.C02
