// C15 harness: invalid (and valid) arguments to checked operations; outcome = value | nothing | crash(kind, by the runner)
#include "nmtools/array/view/reshape.hpp"
#include "nmtools/array/view/transpose.hpp"
#include "nmtools/array/view/moveaxis.hpp"
#include "nmtools/array/view/swapaxes.hpp"
#include "nmtools/array/view/expand_dims.hpp"
#include "nmtools/array/view/squeeze.hpp"
#include "nmtools/array/view/broadcast_to.hpp"
#include "nmtools/array/view/broadcast_arrays.hpp"
#include "nmtools/array/view/concatenate.hpp"
#include "nmtools/array/view/matmul.hpp"
#include "nmtools/array/view/pad.hpp"
#include "nmtools/array/view/tile.hpp"
#include "nmtools/array/view/repeat.hpp"
#include "nmtools/array/view/roll.hpp"
#include "nmtools/array/view/sum.hpp"
#include "nmtools/array/view/ufuncs/add.hpp"
#include "nmtools/array/view/atleast_nd.hpp"
#include "nmtools/array/view/where.hpp"
#include "nmtools/array/view/flatten.hpp"
#include "c15_common.hpp"

std::string handle(const std::string& op, const Args& a) {
    auto shape = nats(a,"shape");
    nd_t x = iota(shape);
    if (op=="reshape")      { auto t = intsi(a,"to"); return outcome_eval(view::reshape(x, t)); }
    if (op=="transpose")    { auto ax = intsi(a,"axes"); return outcome_eval(view::transpose(x, ax)); }
    if (op=="moveaxis")     { auto s = intsi(a,"src"); auto d = intsi(a,"dst"); return outcome_eval(view::moveaxis(x, s, d)); }
    if (op=="swapaxes")     { int p = (int)integer(a,"a1"), q = (int)integer(a,"a2"); return outcome_eval(view::swapaxes(x, p, q)); }
    if (op=="expand_dims")  { auto ax = intsi(a,"axes"); return outcome_eval(view::expand_dims(x, ax)); }
    if (op=="squeeze")      { return outcome_eval(view::squeeze(x)); }
    if (op=="broadcast_to") { auto t = nats(a,"to"); return outcome_eval(view::broadcast_to(x, t)); }
    if (op=="add")          { nd_t y = iota(nats(a,"shape2"), 1000); return outcome_eval(view::add(x, y)); }
    if (op=="concatenate")  { nd_t y = iota(nats(a,"shape2"), 1000); int ax = (int)integer(a,"axis"); return outcome_eval(view::concatenate(x, y, ax)); }
    if (op=="matmul")       { nd_t y = iota(nats(a,"shape2"), 1); return outcome_eval(view::matmul(x, y)); }
    if (op=="pad")          { auto w = intsi(a,"width"); return outcome_eval(view::pad(x, w, -1)); }
    if (op=="tile")         { auto r = intsi(a,"reps"); return outcome_eval(view::tile(x, r)); }
    if (op=="repeat")       { int ax = (int)integer(a,"axis");
                              if (has(a,"counts")) { auto c = intsi(a,"counts"); return outcome_eval(view::repeat(x, c, ax)); }
                              int r = (int)integer(a,"repeats"); return outcome_eval(view::repeat(x, r, ax)); }
    if (op=="roll")         { int sh = (int)integer(a,"shift"); int ax = (int)integer(a,"axis"); return outcome_eval(view::roll(x, sh, ax)); }
    if (op=="sum")          { int ax = (int)integer(a,"axis"); return outcome_eval(view::sum(x, ax)); }
    if (op=="where3")       { nd_t y = iota(nats(a,"shape2"), 1000); nd_t z = iota(nats(a,"shape3"), 2000);
                              nd_t c = iota(shape); for (size_t k=0;k<(size_t)nm::size(c);k++) c.data()[k] = (int)(k%2);
                              return outcome_eval(view::where(c, y, z)); }
    // pipelines: a failing first stage must propagate (never be dereferenced)
    if (op=="pipe_reshape_transpose") { auto t = intsi(a,"to"); return outcome_eval(view::transpose(view::reshape(x, t))); }
    if (op=="pipe_reshape_sum")       { auto t = intsi(a,"to"); int ax = (int)integer(a,"axis"); return outcome_eval(view::sum(view::reshape(x, t), ax)); }
    if (op=="pipe_bcast_add_flatten") { auto t = nats(a,"to"); nd_t y = iota(nats(a,"shape2"), 1000); return outcome_eval(view::flatten(view::add(view::broadcast_to(x, t), y))); }
    if (op=="pipe_add_reshape")       { nd_t y = iota(nats(a,"shape2"), 1000); auto t = intsi(a,"to"); return outcome_eval(view::reshape(view::add(x, y), t)); }
    // depth 3, and stages that accept a maybe-typed operand after a stage that may have failed
    if (op=="pipe_reshape_transpose_reshape") { auto t = intsi(a,"to"); auto t2 = intsi(a,"to2"); return outcome_eval(view::reshape(view::transpose(view::reshape(x, t)), t2)); }
    if (op=="pipe_reshape_bcast_add")   { auto t = intsi(a,"to"); auto t2 = nats(a,"to2"); nd_t y = iota(nats(a,"shape2"), 1000); return outcome_eval(view::add(view::broadcast_to(view::reshape(x, t), t2), y)); }
    if (op=="pipe_add_reshape_sum")     { nd_t y = iota(nats(a,"shape2"), 1000); auto t = intsi(a,"to"); return outcome_eval(view::sum(view::reshape(view::add(x, y), t), 0)); }
    if (op=="pipe_reshape_repeat")      { auto t = intsi(a,"to"); int ax = (int)integer(a,"axis"); return outcome_eval(view::repeat(view::reshape(x, t), 2, ax)); }
    if (op=="pipe_reshape_tile")        { auto t = intsi(a,"to"); auto r = intsi(a,"reps"); return outcome_eval(view::tile(view::reshape(x, t), r)); }
    if (op=="pipe_reshape_concat")      { auto t = intsi(a,"to"); nd_t y = iota(nats(a,"shape2"), 1000); int ax = (int)integer(a,"axis"); return outcome_eval(view::concatenate(view::reshape(x, t), y, ax)); }
    if (op=="pipe_concat_reshape")      { nd_t y = iota(nats(a,"shape2"), 1000); int ax = (int)integer(a,"axis"); auto t = intsi(a,"to"); return outcome_eval(view::reshape(view::concatenate(x, y, ax), t)); }
    if (op=="pipe_bcast_transpose_flatten") { auto t = nats(a,"to"); auto ax = intsi(a,"axes"); return outcome_eval(view::flatten(view::transpose(view::broadcast_to(x, t), ax))); }
    return "unknown-op";
}
