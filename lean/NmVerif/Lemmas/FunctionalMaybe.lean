import NmVerif.Functional
/-
  C14 — operands that are `nmtools_maybe<view>` (the result of a view whose arguments are validated at run time).

  Every view function has a maybe branch `is_maybe_v<array_t> ? (has_value ? maybe{view(*array, attributes...)} : Nothing)`
  (view::unary_ufunc, view::reduce, view::transpose, …): `Functor.liftMaybe`.  A composition pushes the maybe result of g in
  front of the remaining operands (push_operands, functor.hpp:477-483) and hands it to the view function of f.
-/
namespace NmVerif.Functional

/-- all operands have a value → the unwrapped operands -/
def allSome {V : Type} : List (Option V) → Option (List V)
  | [] => some []
  | none :: _ => none
  | some x :: r => (allSome r).map (x :: ·)

theorem allSome_map_some {V : Type} (xs : List V) : allSome (xs.map some) = some xs := by
  induction xs with
  | nil => rfl
  | cons x r ih => simp [allSome, ih]

theorem allSome_none {V : Type} (xs : List (Option V)) (h : none ∈ xs) : allSome xs = none := by
  induction xs with
  | nil => cases h
  | cons x r ih =>
    cases x with
    | none => rfl
    | some v =>
      have : none ∈ r := by simpa using h
      simp [allSome, ih this]

/-- the maybe branch of a view function: unwrap when every operand has a value and FORWARD THE ATTRIBUTES, else Nothing -/
def Functor.liftMaybe {A V : Type} (f : Functor A V) : Functor A (Option V) :=
  ⟨f.arity, fun ats xs => match allSome xs with
    | some ys => (f.fmap ats ys).map some
    | none => [none]⟩

def Fn.liftMaybe {A V : Type} (g : Fn A V) : Fn A (Option V) := ⟨g.f.liftMaybe, g.attrs, g.held.map some⟩

theorem Fn.arity_liftMaybe {A V : Type} (g : Fn A V) : g.liftMaybe.arity = g.arity := by
  simp [Fn.liftMaybe, Fn.arity, Functor.liftMaybe]

theorem Fn.call_liftMaybe {A V : Type} (g : Fn A V) (xs : List V) :
    g.liftMaybe.call (xs.map some) = (g.call xs).map some := by
  simp only [Fn.call, Fn.liftMaybe, Functor.liftMaybe, ← List.map_append, allSome_map_some]

theorem run_liftMaybe {A V : Type} : ∀ (fs : List (Fn A V)) (ops vs : List V), run fs ops = some (.values vs) →
    run (fs.map Fn.liftMaybe) (ops.map some) = some (.values (vs.map some))
  | [], ops, vs, h => by
    simp only [run, Option.some.injEq, CRes.values.injEq] at h
    simp [run, h]
  | g :: rest, ops, vs, h => by
    by_cases hg : g.arity ≤ ops.length
    · simp only [run, hg, if_true] at h
      have ih := run_liftMaybe rest _ vs h
      simp only [List.map_cons, run, Fn.arity_liftMaybe, List.length_map, hg, if_true]
      rw [← List.map_take, ← List.map_drop, Fn.call_liftMaybe, ← List.map_append]
      exact ih
    · simp only [run, hg, if_false] at h
      split at h <;> simp at h

end NmVerif.Functional
