// C08 harness helpers: canonical printing of reduction / accumulation results (view, evaluated array, num, maybe, either)
#pragma once
#include "nmtools/meta.hpp"
#include "nmtools/utility/shape.hpp"
#include "nmtools/utility/at.hpp"
#include "nmtools/array/index/ndindex.hpp"
#include "proto.hpp"
#include <sstream>
#include <iomanip>
#include <cmath>
#include <type_traits>

namespace c08 {
namespace nm = nmtools; namespace meta = nmtools::meta;

template <typename T> inline void put(std::ostringstream& o, T v) {
    if constexpr (std::is_floating_point_v<T>) {
        if (std::isnan(v)) o << "nan"; else if (std::isinf(v)) o << (v < 0 ? "-inf" : "inf");
        else o << std::setprecision(17) << (double)v;
    } else if constexpr (std::is_same_v<T,bool>) o << (v ? 1 : 0);
    else if constexpr (std::is_unsigned_v<T>) o << (unsigned long long)v;
    else o << (long long)v;
}

// "ok shape=… data=…": elements read through apply_at(view, ndindex(shape)[k]) in C order
template <typename V> inline std::string emit(const V& v) {
    if constexpr (meta::is_maybe_v<V>) {
        if (!nm::has_value(v)) return "nothing";
        return emit(*v);
    } else if constexpr (meta::is_either_v<V>) {
        using L = meta::get_either_left_t<V>; using R = meta::get_either_right_t<V>;
        if (auto l = nm::get_if<L>(&v)) return emit(*l);
        return emit(*nm::get_if<R>(&v));
    } else if constexpr (meta::is_num_v<V>) {
        using T = meta::get_element_type_t<V>;
        std::ostringstream o; o << "ok shape=[] data="; put<T>(o, (T)v); return o.str();
    } else {
        using T = meta::remove_cvref_t<meta::get_element_type_t<V>>;
        auto s = nm::shape(v);
        std::vector<size_t> sv; for (size_t i = 0; i < (size_t)nm::len(s); i++) sv.push_back((size_t)nm::at(s, i));
        std::ostringstream o; o << "ok shape=" << proto::fmt(sv) << " data=";
        auto nd = nmtools::index::ndindex(sv);
        size_t n = nd.size();
        if (n == 0) o << "[]";
        for (size_t k = 0; k < n; k++) { if (k) o << ','; put<T>(o, (T)nm::apply_at(v, nd[k])); }
        return o.str();
    }
}
} // namespace c08
