import NmVerif.Eval.Eval
import NmVerif.Eval.Cast
import NmVerif.Lemmas.Addressing
import NmVerif.Props.C01
import NmVerif.Props.C07
import NmVerif.Props.C08
/-
  C10 — Eager evaluation returns exactly the lazy view; composition is unobservable.
-/
namespace NmVerif.Props.C10
open NmVerif NmVerif.Eval

variable {α : Type}

theorem copyStep_shape (v : Arr α) (s : Shape) (o : NDA α) (i : Nat) :
    (copyStep v s o i).shape = o.shape ∧ (copyStep v s o i).colMajor = o.colMajor ∧
    (copyStep v s o i).data.length = o.data.length := by
  simp [copyStep, NDA.set]

/-- loop invariant of the copy loop: after processing the flat positions in `l`, the logical element `j`
    holds the view's element if `j` was visited and its old value otherwise -/
theorem fold_copy_get (v : Arr α) (s : Shape) (hs : Pos s) (l : List Nat) (hl : ∀ i ∈ l, i < prod s)
    (o : NDA α) (hw : o.WF) (hsh : o.shape = s) (j : Idx) (hj : InShape j s) :
    let r := l.foldl (copyStep v s) o
    r.shape = s ∧ r.WF ∧
    r.get? j = if (∃ i ∈ l, ndindex s i = j) then some (v.get j) else o.get? j := by
  induction l generalizing o with
  | nil => simp [hsh, hw]
  | cons i is ih =>
    have hi : i < prod s := hl i (by simp)
    have hin : InShape (ndindex s i) s := indices_inShape hs i
    have hw' : (copyStep v s o i).WF := by
      unfold copyStep; exact C01.set_WF o hw _ _
    have hsh' : (copyStep v s o i).shape = s := by simp [copyStep, NDA.set, hsh]
    have := ih (fun k hk => hl k (by simp [hk])) (copyStep v s o i) hw' hsh'
    simp only [List.foldl_cons]
    obtain ⟨h1, h2, h3⟩ := this
    refine ⟨h1, h2, ?_⟩
    rw [h3]
    by_cases hex : ∃ k ∈ is, ndindex s k = j
    · have : ∃ k ∈ i :: is, ndindex s k = j := by obtain ⟨k, hk, e⟩ := hex; exact ⟨k, by simp [hk], e⟩
      simp [hex, this]
    · by_cases hij : ndindex s i = j
      · have : ∃ k ∈ i :: is, ndindex s k = j := ⟨i, by simp, hij⟩
        simp only [hex, this, if_true, if_false]
        unfold copyStep
        rw [hij]
        exact C01.get_set_same o hw j (hsh ▸ hj) _
      · have : ¬ ∃ k ∈ i :: is, ndindex s k = j := by
          rintro ⟨k, hk, e⟩
          simp at hk
          rcases hk with rfl | hk
          · exact hij e
          · exact hex ⟨k, hk, e⟩
        simp only [hex, this, if_false]
        unfold copyStep
        exact C01.get_set_other o (ndindex s i) j (hsh ▸ hin) (hsh ▸ hj) hij _

/-- evaluating into a supplied output of the right shape: every element equals the view's element at that
    index, for row-major and column-major outputs alike -/
theorem evalInto_eq_view (out : NDA α) (v : Arr α) (hw : out.WF) (hsh : out.shape = v.shape) (hs : Pos v.shape)
    (j : Idx) (hj : InShape j v.shape) :
    (evalInto out v).shape = v.shape ∧ (evalInto out v).get? j = some (v.get j) := by
  unfold evalInto
  simp only [hsh, if_true]
  have := fold_copy_get v v.shape hs (List.range (prod v.shape)) (fun i hi => by simpa using hi) out hw hsh j hj
  obtain ⟨h1, _, h3⟩ := this
  refine ⟨h1, ?_⟩
  rw [h3]
  have : ∃ i ∈ List.range (prod v.shape), ndindex v.shape i = j :=
    ⟨computeOffset j (strides v.shape), by simpa using offset_lt hj, indices_offset hj⟩
  rw [if_pos this]

/-- an output of the wrong shape is left untouched (the silent return of eval.hpp) -/
theorem evalInto_mismatch_unchanged (out : NDA α) (v : Arr α) (h : out.shape ≠ v.shape) : evalInto out v = out := by
  unfold evalInto; simp [h]

theorem evalFresh_eq_view [Inhabited α] (cm : Bool) (v : Arr α) (hs : Pos v.shape) (j : Idx) (hj : InShape j v.shape) :
    (evalFresh cm v).shape = v.shape ∧ (evalFresh cm v).get? j = some (v.get j) := by
  unfold evalFresh
  exact evalInto_eq_view _ v (by simp [NDA.WF]) rfl hs j hj

/-- array::fn(args) ≈ view::fn(args): the evaluated array denotes the view (either result layout) -/
theorem evalFresh_equiv [Inhabited α] (cm : Bool) (v : Arr α) (hs : Pos v.shape) :
    (evalFresh cm v).toArr.Equiv v := by
  refine ⟨(evalFresh_eq_view cm v hs (ndindex v.shape 0) (indices_inShape hs 0)).1, ?_⟩
  intro i hi
  have hsh := (evalFresh_eq_view cm v hs (ndindex v.shape 0) (indices_inShape hs 0)).1
  have hi' : InShape i v.shape := by simpa [NDA.toArr, hsh] using hi
  simp [NDA.toArr, (evalFresh_eq_view cm v hs i hi').2]

/-- row-major and column-major results denote the same array -/
theorem layouts_agree [Inhabited α] (v : Arr α) (hs : Pos v.shape) :
    (evalFresh false v).toArr.Equiv (evalFresh true v).toArr :=
  (evalFresh_equiv false v hs).trans (evalFresh_equiv true v hs).symm

/-- an indexing view only looks at in-shape elements of its operand: equivalent operands give equivalent views -/
theorem apply_congr (w : IxView) (a b : Arr α) (fill : α) (hab : a.Equiv b) (hsrc : w.src = a.shape) (hb : w.InBounds) :
    (w.apply a fill).Equiv (w.apply b fill) := by
  refine ⟨rfl, ?_⟩
  intro d hd
  simp only [IxView.apply] at *
  cases hm : w.map d with
  | none => rfl
  | some i => exact hab.2 i (hsrc ▸ hb d hd i hm)

/-- element-wise operations (ufuncs after broadcasting) respect equivalence -/
theorem map_congr (f : α → α) (a b : Arr α) (hab : a.Equiv b) : (a.map f).Equiv (b.map f) :=
  ⟨hab.1, fun i hi => by simp [Arr.map, hab.2 i hi]⟩

/-- COMPOSITION IS UNOBSERVABLE: an outer indexing view over a lazy inner view equals the outer view over the
    inner view evaluated to a concrete array first (any result layout) -/
theorem compose_unobservable [Inhabited α] (cm : Bool) (outer : IxView) (inner : Arr α) (fill : α)
    (hs : Pos inner.shape) (hsrc : outer.src = inner.shape) (hb : outer.InBounds) :
    (outer.apply (evalFresh cm inner).toArr fill).Equiv (outer.apply inner fill) := by
  have he := evalFresh_equiv cm inner hs
  exact apply_congr outer _ _ fill he (by rw [hsrc]; exact he.1.symm) hb

/-- … and evaluating the composed view gives the same array as evaluating in two steps -/
theorem eval_compose [Inhabited α] (cm cm' : Bool) (outer : IxView) (inner : Arr α) (fill : α)
    (hs : Pos inner.shape) (hd : Pos outer.dst) (hsrc : outer.src = inner.shape) (hb : outer.InBounds) :
    (evalFresh cm' (outer.apply (evalFresh cm inner).toArr fill)).toArr.Equiv (evalFresh cm' (outer.apply inner fill)).toArr := by
  have h1 := evalFresh_equiv cm' (outer.apply (evalFresh cm inner).toArr fill) hd
  have h2 := evalFresh_equiv cm' (outer.apply inner fill) hd
  exact h1.trans ((compose_unobservable cm outer inner fill hs hsrc hb).trans h2.symm)

/-- a supplied output of the right shape denotes the view afterwards, whatever its layout and previous contents -/
theorem evalInto_equiv [Inhabited α] (out : NDA α) (v : Arr α) (hw : out.WF) (hsh : out.shape = v.shape) (hs : Pos v.shape) :
    (evalInto out v).toArr.Equiv v := by
  have h0 := (evalInto_eq_view out v hw hsh hs (ndindex v.shape 0) (indices_inShape hs 0)).1
  refine ⟨h0, ?_⟩
  intro i hi
  have hi' : InShape i v.shape := by simpa [NDA.toArr, h0] using hi
  simp [NDA.toArr, (evalInto_eq_view out v hw hsh hs i hi').2]

theorem fold_copy_layout (v : Arr α) (s : Shape) (l : List Nat) (o : NDA α) :
    (l.foldl (copyStep v s) o).shape = o.shape ∧ (l.foldl (copyStep v s) o).colMajor = o.colMajor ∧
    (l.foldl (copyStep v s) o).data.length = o.data.length := by
  induction l generalizing o with
  | nil => simp
  | cons i is ih =>
    simp only [List.foldl_cons]
    have h := copyStep_shape v s o i
    have := ih (copyStep v s o i)
    exact ⟨this.1.trans h.1, this.2.1.trans h.2.1, this.2.2.trans h.2.2⟩

/-- the result keeps the layout and the element count of the output it was given: the buffer of a fixed / bounded /
    dynamic output is never re-allocated or clipped by the copy loop -/
theorem evalInto_layout (out : NDA α) (v : Arr α) :
    (evalInto out v).shape = out.shape ∧ (evalInto out v).colMajor = out.colMajor ∧
    (evalInto out v).data.length = out.data.length := by
  unfold evalInto
  split
  · exact fold_copy_layout v v.shape _ out
  · simp

/-- the library-allocated result is well formed (buffer length = product of the view's shape): nothing was clipped -/
theorem evalFresh_wf [Inhabited α] (cm : Bool) (v : Arr α) : (evalFresh cm v).WF ∧ (evalFresh cm v).colMajor = cm := by
  unfold evalFresh
  have h := evalInto_layout ({ shape := v.shape, colMajor := cm, data := List.replicate (prod v.shape) default } : NDA α) v
  simp only [NDA.WF]
  refine ⟨?_, h.2.1⟩
  rw [h.2.2, h.1]; simp

/-- maybe-typed views: the evaluation is empty exactly when the view is, and otherwise is the evaluation of the value -/
theorem eval_none_iff_view_none [Inhabited α] (cm : Bool) (ov : Option (Arr α)) :
    (evalMaybe cm ov = none ↔ ov = none) ∧ ∀ v, ov = some v → evalMaybe cm ov = some (evalFresh cm v) := by
  cases ov <;> simp [evalMaybe]

/-! ### congruence of the non-indexing view kinds (models of C07 / C08) -/

private theorem bav2_views {sa sb : Shape} {vs : List IxView} (h : broadcastArraysViews [sa, sb] = some vs) :
    ∃ r va vb, vs = [va, vb] ∧ broadcastToView sa r = some va ∧ broadcastToView sb r = some vb := by
  unfold broadcastArraysViews at h
  simp only [Option.bind_eq_some_iff] at h
  obtain ⟨r, _, hvs⟩ := h
  simp only [List.mapM_cons, List.mapM_nil, Option.bind_eq_bind, Option.bind_eq_some_iff, Option.pure_def,
    Option.some.injEq] at hvs
  obtain ⟨va, hva, ys, ⟨vb, hvb, zs, hzs, rfl⟩, rfl⟩ := hvs
  subst hzs
  exact ⟨r, va, vb, rfl, hva, hvb⟩

/-- a broadcasting binary ufunc reads each operand inside its own shape -/
theorem ufunc2_reads_inShape {β γ : Type} (op : α → β → γ) (a : Arr α) (b : Arr β) (u : Arr (Option γ))
    (h : ufunc2 op a b = some u) (d : Idx) (hd : InShape d u.shape) :
    InShape (specBroadcastIdx a.shape d) a.shape ∧ InShape (specBroadcastIdx b.shape d) b.shape := by
  unfold ufunc2 at h
  simp only [Option.bind_eq_some_iff] at h
  obtain ⟨vs, hvs, h⟩ := h
  obtain ⟨r, va, vb, rfl, hva, hvb⟩ := bav2_views hvs
  simp only [Option.some.injEq] at h
  subst h
  obtain ⟨hsa, hda⟩ := C06.broadcastTo_shape _ _ _ hva
  obtain ⟨hsb, hdb⟩ := C06.broadcastTo_shape _ _ _ hvb
  simp only at hd
  have hdr : InShape d r := hda ▸ hd
  constructor
  · have := C06.broadcastTo_inBounds _ _ _ hva d hd _ (C06.broadcastTo_index_eq_spec _ _ _ hva d hdr)
    rwa [hsa] at this
  · have := C06.broadcastTo_inBounds _ _ _ hvb d (hdb ▸ hdr) _ (C06.broadcastTo_index_eq_spec _ _ _ hvb d hdr)
    rwa [hsb] at this

/-- binary broadcasting ufunc (`view::add`, `multiply`, …): equivalent operands give the same Nothing-ness and
    equivalent results -/
theorem ufunc2_congr {β γ : Type} (op : α → β → γ) (a a' : Arr α) (b b' : Arr β) (ha : a.Equiv a') (hb : b.Equiv b') :
    (ufunc2 op a b = none ↔ ufunc2 op a' b' = none) ∧
    ∀ u u', ufunc2 op a b = some u → ufunc2 op a' b' = some u' → u.Equiv u' := by
  have hsa := ha.1
  have hsb := hb.1
  constructor
  · unfold ufunc2; rw [hsa, hsb]
    cases broadcastArraysViews [a'.shape, b'.shape] with
    | none => simp
    | some vs =>
      match vs with
      | [va, vb] => simp
      | [] => simp
      | [_] => simp
      | _ :: _ :: _ :: _ => simp
  · intro u u' hu hu'
    obtain ⟨h1, h2⟩ := C07.ufunc2_spec op a b u hu
    obtain ⟨h1', h2'⟩ := C07.ufunc2_spec op a' b' u' hu'
    rw [hsa, hsb, h1'] at h1
    have hsh : u.shape = u'.shape := (Option.some.inj h1).symm
    refine ⟨hsh, fun d hd => ?_⟩
    obtain ⟨hia, hib⟩ := ufunc2_reads_inShape op a b u hu d hd
    rw [h2 d hd, h2' d (hsh ▸ hd), ← hsa, ← hsb, ha.2 _ hia, hb.2 _ hib]

private theorem bav3_views {sa sb sc : Shape} {vs : List IxView} (h : broadcastArraysViews [sa, sb, sc] = some vs) :
    ∃ r va vb vc, vs = [va, vb, vc] ∧ broadcastToView sa r = some va ∧ broadcastToView sb r = some vb ∧
      broadcastToView sc r = some vc := by
  unfold broadcastArraysViews at h
  simp only [Option.bind_eq_some_iff] at h
  obtain ⟨r, _, hvs⟩ := h
  simp only [List.mapM_cons, List.mapM_nil, Option.bind_eq_bind, Option.bind_eq_some_iff, Option.pure_def,
    Option.some.injEq] at hvs
  obtain ⟨va, hva, ys, ⟨vb, hvb, zs, ⟨vc, hvc, ws, hws, rfl⟩, rfl⟩, rfl⟩ := hvs
  subst hws
  exact ⟨r, va, vb, vc, rfl, hva, hvb, hvc⟩

/-- a broadcasting ternary ufunc (`view::where`) reads each operand inside its own shape -/
theorem ufunc3_reads_inShape {β γ δ : Type} (op : α → β → γ → δ) (a : Arr α) (b : Arr β) (c : Arr γ) (u : Arr (Option δ))
    (h : ufunc3 op a b c = some u) (d : Idx) (hd : InShape d u.shape) :
    InShape (specBroadcastIdx a.shape d) a.shape ∧ InShape (specBroadcastIdx b.shape d) b.shape ∧
    InShape (specBroadcastIdx c.shape d) c.shape := by
  unfold ufunc3 at h
  simp only [Option.bind_eq_some_iff] at h
  obtain ⟨vs, hvs, h⟩ := h
  obtain ⟨r, va, vb, vc, rfl, hva, hvb, hvc⟩ := bav3_views hvs
  simp only [Option.some.injEq] at h
  subst h
  obtain ⟨hsa, hda⟩ := C06.broadcastTo_shape _ _ _ hva
  obtain ⟨hsb, hdb⟩ := C06.broadcastTo_shape _ _ _ hvb
  obtain ⟨hsc, hdc⟩ := C06.broadcastTo_shape _ _ _ hvc
  simp only at hd
  have hdr : InShape d r := hda ▸ hd
  refine ⟨?_, ?_, ?_⟩
  · have := C06.broadcastTo_inBounds _ _ _ hva d hd _ (C06.broadcastTo_index_eq_spec _ _ _ hva d hdr)
    rwa [hsa] at this
  · have := C06.broadcastTo_inBounds _ _ _ hvb d (hdb ▸ hdr) _ (C06.broadcastTo_index_eq_spec _ _ _ hvb d hdr)
    rwa [hsb] at this
  · have := C06.broadcastTo_inBounds _ _ _ hvc d (hdc ▸ hdr) _ (C06.broadcastTo_index_eq_spec _ _ _ hvc d hdr)
    rwa [hsc] at this

/-- ternary broadcasting ufunc (`view::where`): equivalent operands give the same Nothing-ness and equivalent results -/
theorem ufunc3_congr {β γ δ : Type} (op : α → β → γ → δ) (a a' : Arr α) (b b' : Arr β) (c c' : Arr γ)
    (ha : a.Equiv a') (hb : b.Equiv b') (hc : c.Equiv c') :
    (ufunc3 op a b c = none ↔ ufunc3 op a' b' c' = none) ∧
    ∀ u u', ufunc3 op a b c = some u → ufunc3 op a' b' c' = some u' → u.Equiv u' := by
  have hsa := ha.1
  have hsb := hb.1
  have hsc := hc.1
  constructor
  · unfold ufunc3; rw [hsa, hsb, hsc]
    cases broadcastArraysViews [a'.shape, b'.shape, c'.shape] with
    | none => simp
    | some vs =>
      match vs with
      | [va, vb, vc] => simp
      | [] => simp
      | [_] => simp
      | [_, _] => simp
      | _ :: _ :: _ :: _ :: _ => simp
  · intro u u' hu hu'
    obtain ⟨h1, h2⟩ := C07.ufunc3_spec op a b c u hu
    obtain ⟨h1', h2'⟩ := C07.ufunc3_spec op a' b' c' u' hu'
    rw [hsa, hsb, hsc, h1'] at h1
    have hsh : u.shape = u'.shape := (Option.some.inj h1).symm
    refine ⟨hsh, fun d hd => ?_⟩
    obtain ⟨hia, hib, hic⟩ := ufunc3_reads_inShape op a b c u hu d hd
    rw [h2 d hd, h2' d (hsh ▸ hd), ← hsa, ← hsb, ← hsc, ha.2 _ hia, hb.2 _ hib, hc.2 _ hic]

/-- reductions (`view::sum`, `prod`, `amax`, … = `reduce`): equivalent operands give equivalent results -/
theorem reduce_congr (op : α → α → α) (init : Option α) (a b : Arr α) (axis : Reduce.AxisArg) (keep : Bool)
    (hab : a.Equiv b) (hs : Pos a.shape) (hv : Reduce.ValidAxes a.shape.length axis) :
    ∃ u u', Reduce.reduce op init a axis keep = some u ∧ Reduce.reduce op init b axis keep = some u' ∧ u.Equiv u' := by
  have hsh := hab.1
  have hr := Reduce.removeDims_eq_spec a.shape axis keep hv
  refine ⟨⟨Reduce.specShape a.shape (Reduce.axisSet a.shape.length axis) keep, Reduce.reduceElem op init a axis keep⟩,
    ⟨Reduce.specShape a.shape (Reduce.axisSet a.shape.length axis) keep, Reduce.reduceElem op init b axis keep⟩,
    by simp only [Reduce.reduce, hr, Option.map_some], by simp only [Reduce.reduce, ← hsh, hr, Option.map_some], rfl, ?_⟩
  intro j hj
  simp only at hj ⊢
  rw [Reduce.reduceElem_eq_reads, Reduce.reduceElem_eq_reads, ← hsh]
  obtain ⟨r, hrd, hin⟩ := C08.reduce_inBounds a.shape hs axis keep hv j hj
  rw [hrd]
  simp only [Option.bind_some]
  congr 1
  exact List.map_congr_left (fun i hi => hab.2 i (hin i hi))

/-- accumulations (`view::cumsum`, `cumprod` = `accumulate`) along any axis NumPy accepts (`-dim ≤ axis < dim`,
    negative axes included): equivalent operands give equivalent results -/
theorem accumulate_congr (op : α → α → α) (a b : Arr α) (axis : Int) (hab : a.Equiv b)
    (hv : Reduce.ValidAxis a.shape.length axis) :
    (Reduce.accumulate op a axis).Equiv (Reduce.accumulate op b axis) := by
  refine ⟨hab.1, fun d hd => ?_⟩
  simp only [Reduce.accumulate] at hd ⊢
  rw [Reduce.accumulateElem_eq_reads, Reduce.accumulateElem_eq_reads, ← hab.1]
  obtain ⟨r, hrd, hin⟩ := C08.accumulate_inBounds a.shape axis hv d hd
  rw [hrd]
  simp only [Option.bind_some]
  congr 1
  exact List.map_congr_left (fun i hi => hab.2 i (hin i hi))

/-! ### compositions of any depth -/

/-- a well-formed composition has positive extents -/
theorem denote_pos (e : Expr α) (hw : e.WF) : Pos e.denote.shape := by
  induction e with
  | leaf a => exact hw
  | index w fill e _ => exact hw.2.2.2
  | map f e ih => exact ih hw
  | zip f e₁ e₂ ih₁ _ => exact ih₁ hw.1
  | gather s r g e _ => exact hw.2.1
  | gather2 s r₁ r₂ g e₁ e₂ _ _ => exact hw.2.2.1

/-- COMPOSITION IS UNOBSERVABLE, any depth, any tree: evaluating an arbitrary set of sub-views to concrete arrays first
    (any resolver layout) changes neither the shape nor any element of the composed view, and keeps it well formed -/
theorem mat_unobservable [Inhabited α] (cm : Bool) (e e' : Expr α) (hm : Mat cm e e') (hw : e.WF) :
    e'.denote.Equiv e.denote ∧ e'.WF := by
  induction hm with
  | leaf a => exact ⟨Arr.Equiv.refl _, hw⟩
  | index w fill _ ih =>
    obtain ⟨hwe, hsrc, hb, hp⟩ := hw
    obtain ⟨he, hwe'⟩ := ih hwe
    refine ⟨apply_congr w _ _ fill he (by rw [hsrc]; exact he.1.symm) hb, hwe', by rw [hsrc]; exact he.1.symm, hb, hp⟩
  | map f _ ih =>
    obtain ⟨he, hwe'⟩ := ih hw
    exact ⟨map_congr f _ _ he, hwe'⟩
  | zip f _ _ ih₁ ih₂ =>
    obtain ⟨hw₁, hw₂, hsh⟩ := hw
    obtain ⟨he₁, hw₁'⟩ := ih₁ hw₁
    obtain ⟨he₂, hw₂'⟩ := ih₂ hw₂
    refine ⟨⟨he₁.1, fun d hd => ?_⟩, hw₁', hw₂', by rw [he₁.1, he₂.1, hsh]⟩
    simp only [Expr.denote] at hd ⊢
    rw [he₁.2 d hd, he₂.2 d (by rw [he₂.1, ← hsh, ← he₁.1]; exact hd)]
  | gather s r g _ ih =>
    obtain ⟨hwe, hp, hin⟩ := hw
    obtain ⟨he, hwe'⟩ := ih hwe
    refine ⟨⟨rfl, fun d hd => ?_⟩, hwe', hp, fun d hd i hi => he.1 ▸ hin d hd i hi⟩
    simp only [Expr.denote] at hd ⊢
    congr 1
    exact List.map_congr_left (fun i hi => he.2 i (he.1 ▸ hin d hd i hi))
  | gather2 s r₁ r₂ g _ _ ih₁ ih₂ =>
    obtain ⟨hw₁, hw₂, hp, hin₁, hin₂⟩ := hw
    obtain ⟨he₁, hw₁'⟩ := ih₁ hw₁
    obtain ⟨he₂, hw₂'⟩ := ih₂ hw₂
    refine ⟨⟨rfl, fun d hd => ?_⟩, hw₁', hw₂', hp, fun d hd i hi => he₁.1 ▸ hin₁ d hd i hi,
      fun d hd i hi => he₂.1 ▸ hin₂ d hd i hi⟩
    simp only [Expr.denote] at hd ⊢
    congr 1
    · exact List.map_congr_left (fun i hi => he₁.2 i (he₁.1 ▸ hin₁ d hd i hi))
    · exact List.map_congr_left (fun i hi => he₂.2 i (he₂.1 ▸ hin₂ d hd i hi))
  | eval _ ih =>
    obtain ⟨he, hwe'⟩ := ih hw
    have hp := denote_pos _ hwe'
    have hq := evalFresh_equiv cm _ hp
    refine ⟨hq.trans he, ?_⟩
    show Pos (evalFresh cm _).toArr.shape
    rw [hq.1]; exact hp

/-- … hence every evaluation strategy of one composition returns the same array: evaluate the whole lazy view once,
    or evaluate any sub-views first and then the rest (resolver layouts `cm` for the inner, `cm'` for the final call) -/
theorem eval_any_strategy [Inhabited α] (cm cm' : Bool) (e e' : Expr α) (hm : Mat cm e e') (hw : e.WF) :
    (evalFresh cm' e'.denote).toArr.Equiv (evalFresh cm' e.denote).toArr := by
  obtain ⟨he, hw'⟩ := mat_unobservable cm e e' hm hw
  exact (evalFresh_equiv cm' _ (denote_pos _ hw')).trans (he.trans (evalFresh_equiv cm' _ (denote_pos _ hw)).symm)

/-! non-vacuity -/
example : (evalFresh true (Arr.iota [2,3])).data = [0,3,1,4,2,5] := by decide
example : (evalFresh false (Arr.iota [2,3])).data = [0,1,2,3,4,5] := by decide
example : (evalInto ({ shape := [3,2], colMajor := false, data := [9,9,9,9,9,9] } : NDA Nat) (Arr.iota [2,3])).data =
    [9,9,9,9,9,9] := by decide

example : (evalInto ({ shape := [2,3], colMajor := true, data := [9,9,9,9,9,9] } : NDA Nat) (Arr.iota [2,3])).data =
    [0,3,1,4,2,5] := by decide
example : evalMaybe true (none : Option (Arr Nat)) = none := rfl
example : (evalMaybe true (some (Arr.iota [2,3]))).map (·.data) = some [0,3,1,4,2,5] := by decide

/-- transpose of a (3,2) operand, as an indexing view -/
private def tr32 : IxView := ⟨[3,2], [2,3], fun d => match d with | [i, j] => some [j, i] | _ => none⟩
private theorem tr32_inBounds : tr32.InBounds := by
  intro d hd i hi
  match d, hd with
  | [x, y], hd =>
    simp only [tr32, Option.some.injEq] at hi
    subst hi
    simp only [tr32, InShape] at hd ⊢
    exact ⟨hd.2.1, hd.1, trivial⟩
/-- `sum(add(transpose(a), b), axis=1)` over provenance leaves: a depth-3 binary tree -/
private def demo : Expr Nat :=
  .gather [2] (fun d => match d with | [i] => [[i,0],[i,1],[i,2]] | _ => []) List.sum
    (.zip (· + ·) (.index tr32 0 (.leaf (Arr.iota [3,2]))) (.leaf ((Arr.iota [2,3]).map (· + 1000))))
private theorem demo_wf : demo.WF := by
  have h1 : Pos (Arr.iota [3,2]).shape := by decide
  have h2 : Pos ((Arr.iota [2,3]).map (· + 1000)).shape := by decide
  have h3 : Pos tr32.dst := by decide
  have h4 : Pos [2] := by decide
  refine ⟨⟨⟨h1, rfl, tr32_inBounds, h3⟩, h2, rfl⟩, h4, ?_⟩
  intro d hd i hi
  match d, hd with
  | [x], hd =>
    simp only [InShape] at hd
    have hx : x < 2 := hd.1
    simp only [List.mem_cons, List.not_mem_nil, or_false] at hi
    rcases hi with rfl | rfl | rfl <;>
      (simp only [Expr.denote, IxView.apply, tr32, InShape]; exact ⟨hx, by omega, trivial⟩)
example : demo.denote.flat = [3009, 3021] := by decide
/-- the same tree with the transpose evaluated to a column-major array first, then the sum evaluated -/
example : ((evalFresh false (Expr.gather [2] (fun d => match d with | [i] => [[i,0],[i,1],[i,2]] | _ => []) List.sum
    (.zip (· + ·) (.leaf (evalFresh true (Expr.index tr32 0 (.leaf (Arr.iota [3,2]))).denote).toArr)
      (.leaf ((Arr.iota [2,3]).map (· + 1000))))).denote).data) = [3009, 3021] := by decide
example : ∀ e', Mat true demo e' → (evalFresh false e'.denote).toArr.Equiv (evalFresh false demo.denote).toArr :=
  fun e' hm => eval_any_strategy true false demo e' hm demo_wf
example : (ufunc2 (· + ·) (Arr.iota [2,1]) (Arr.iota [3])).map (·.shape) = some [2,3] := by decide
example : (ufunc2 (· + ·) (Arr.iota [2,3]) (Arr.iota [2])).isNone := by decide
example : (Reduce.reduce (· + ·) none (Arr.iota [2,3]) (some [1]) true).map (fun u => (u.shape, u.get [1,0])) =
    some ([2,1], some 12) := by decide
example : Reduce.ValidAxes [2,3].length (some [1]) := by decide
example : Reduce.ValidAxis [2,3].length (-1) := by decide
example : (Reduce.accumulate (· + ·) (Arr.iota [2,3]) (-1)).get [1,2] = some 12 := by decide
example : (ufunc3 (fun c x y => if c = 0 then y else x) (Arr.iota [3]) (Arr.iota [2,3]) (Arr.iota [1])).map
    (fun u => (u.shape, u.get [1,0], u.get [1,2])) = some ([2,3], some 0, some 5) := by decide

/-! ## element types: evaluation into a container of another element type

  `evalIntoCast cast` / `evalFreshCast cast` (Eval/Cast.lean) mirror the copy loop when the result's element type is not
  the view's: the assignment is the implicit conversion `cast`.  The correspondence run (harness/h_c10mx.cpp: bare
  eval(view) with the older resolver and array::fn over every operand-kind pairing x element-type pairs) ties "the resolvers
  choose the view's element type" (`cast = id`) to the code; the seeded change C10-5 is an instance of `cast` = truncation. -/
section cast
variable {β : Type}

/-- the converting copy loop is the plain copy loop of the converted view -/
theorem evalIntoCast_eq_evalInto_map (cast : α → β) (out : NDA β) (v : Arr α) :
    evalIntoCast cast out v = evalInto out (v.map cast) := rfl

/-- evaluating into a supplied output of element type `β` and of the right shape: every element is EXACTLY the element-wise
    conversion of the view's element (both layouts) -/
theorem evalIntoCast_elem (cast : α → β) (out : NDA β) (v : Arr α) (hw : out.WF) (hsh : out.shape = v.shape)
    (hs : Pos v.shape) (j : Idx) (hj : InShape j v.shape) :
    (evalIntoCast cast out v).shape = v.shape ∧ (evalIntoCast cast out v).get? j = some (cast (v.get j)) :=
  evalInto_eq_view out (v.map cast) hw hsh hs j hj

/-- a wrong-shaped output of any element type is left untouched -/
theorem evalIntoCast_mismatch_unchanged (cast : α → β) (out : NDA β) (v : Arr α) (h : out.shape ≠ v.shape) :
    evalIntoCast cast out v = out :=
  evalInto_mismatch_unchanged out (v.map cast) h

/-- a library-allocated result of a (narrower or wider) element type `β` holds exactly the element-wise conversion -/
theorem evalFreshCast_elem [Inhabited β] (cast : α → β) (cm : Bool) (v : Arr α) (hs : Pos v.shape)
    (j : Idx) (hj : InShape j v.shape) :
    (evalFreshCast cast cm v).shape = v.shape ∧ (evalFreshCast cast cm v).get? j = some (cast (v.get j)) :=
  evalFresh_eq_view cm (v.map cast) hs j hj

/-- a result container of the view's own element type (what both resolvers build: `element_t = get_element_type_t<view>`)
    is cast-free: it is the plain evaluation … -/
theorem evalFreshCast_id [Inhabited α] (cm : Bool) (v : Arr α) : evalFreshCast id cm v = evalFresh cm v := rfl

/-- … so every element of the view is preserved -/
theorem eval_same_type_preserves [Inhabited α] (cm : Bool) (v : Arr α) (hs : Pos v.shape) (j : Idx) (hj : InShape j v.shape) :
    (evalFreshCast id cm v).shape = v.shape ∧ (evalFreshCast id cm v).get? j = some (v.get j) :=
  evalFreshCast_elem id cm v hs j hj

/-- the evaluated array equals the view at `j` iff the conversion fixes that element: a narrowing result type is
    observable exactly at the elements the conversion changes -/
theorem evalFreshCast_preserves_iff [Inhabited α] (cast : α → α) (cm : Bool) (v : Arr α) (hs : Pos v.shape)
    (j : Idx) (hj : InShape j v.shape) :
    (evalFreshCast cast cm v).get? j = some (v.get j) ↔ cast (v.get j) = v.get j := by
  rw [(evalFreshCast_elem cast cm v hs j hj).2]
  exact ⟨fun h => Option.some.inj h, fun h => by rw [h]⟩

/-- elements in quarter units (6 = 1.5): the view add(fixed double, dynamic int) of the seeded change C10-5 -/
private def quarters : Arr Int := ⟨[2,3], fun i => match i with | [a, b] => 6 + 4 * (3 * a + b) + b | _ => 0⟩
/-- double → int of a value given in quarter units, back in quarter units -/
private def truncQ (q : Int) : Int := 4 * (q.tdiv 4)

example : (evalFreshCast id false quarters).data = [6, 11, 16, 18, 23, 28] := by decide
example : (evalFreshCast truncQ false quarters).data = [4, 8, 16, 16, 20, 28] := by decide
example : (evalFreshCast truncQ true quarters).data = [4, 16, 8, 20, 16, 28] := by decide
example : (evalIntoCast truncQ ({ shape := [2,3], colMajor := false, data := [9,9,9,9,9,9] } : NDA Int) quarters).get? [1,1] =
    some (truncQ (quarters.get [1,1])) :=
  (evalIntoCast_elem truncQ _ quarters (by simp [NDA.WF, prod]) rfl (by decide) [1,1] (by decide)).2
example : (evalIntoCast truncQ ({ shape := [3,2], colMajor := false, data := [9,9,9,9,9,9] } : NDA Int) quarters).data =
    [9,9,9,9,9,9] := by decide
example : Pos quarters.shape ∧ InShape [1,2] quarters.shape := by decide
/-- the narrowed result differs from the view at [0,0] (1.5 → 1) and agrees at [0,2] (4.0) -/
example : ¬ (evalFreshCast truncQ false quarters).get? [0,0] = some (quarters.get [0,0]) := by decide
example : (evalFreshCast truncQ false quarters).get? [0,2] = some (quarters.get [0,2]) := by decide
end cast

end NmVerif.Props.C10
