#!/bin/sh
# usage: tools/run_all.sh [tier] ; runs every registered check sequentially, prints one summary line each
T="${1:-quick}"
cd "$(dirname "$0")/.."
for p in C01 C02 C03 C04 C05 C06 C07 C08 C09 C10 C11 C12 C13 C14 C15 C16 C17 C18 C19 C20; do
  s=$(date +%s)
  ./check $p --tier $T > /var/tmp/runall_$p.log 2>&1; rc=$?
  e=$(date +%s)
  echo "$p rc=$rc $(($e-$s))s viol=$(grep -c '^VIOLATION' /var/tmp/runall_$p.log) known=$(grep -c '^KNOWN-FINDING' /var/tmp/runall_$p.log) | $(tail -1 /var/tmp/runall_$p.log | cut -c1-110)"
done
