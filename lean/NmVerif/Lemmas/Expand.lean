import NmVerif.Index.Expand
import NmVerif.Lemmas.Roll
import NmVerif.Lemmas.SelCommon
import NmVerif.Lemmas.SelUtil
import Mathlib.Tactic.Ring
/-
  Lemmas for `view::expand` with SEVERAL axes and per-axis spacings (repeated axes included).

  SPEC (documented definition, composed per axis): a spacing insertion with spacing `p` puts source entry `q` of the axis
  at position `q·(p+1)`.  Insertions on the same axis compose, so with the (normalised) axis list `ks` and the
  spacing list `sps` source entry `q` of axis `j` lands on position `q · expandFactor ks sps j`, where
  `expandFactor ks sps j = ∏ { sps[i] + 1 | ks[i] = j }` (1 for an axis that is not listed, `sps[i] + 1` for an axis
  listed once); the extent becomes `n + (n - 1)·(factor - 1)`, every other position holds the fill value.
-/
namespace NmVerif.Index

/-- `∏ { sps[i] + 1 | ks[i] = j }` -/
def expandFactor : List Nat → List Nat → Nat → Nat
  | k :: ks, sp :: sps, j => (if k = j then sp + 1 else 1) * expandFactor ks sps j
  | _, _, _ => 1

theorem expandFactor_pos (ks sps : List Nat) (j : Nat) : 0 < expandFactor ks sps j := by
  induction ks generalizing sps with
  | nil => simp [expandFactor]
  | cons k ks ih =>
    cases sps with
    | nil => simp [expandFactor]
    | cons sp sps =>
      simp only [expandFactor]
      have := ih sps
      split <;> exact Nat.mul_pos (by omega) this

/-- an axis that is not listed keeps factor 1 -/
theorem expandFactor_not_mem (ks sps : List Nat) (j : Nat) (h : j ∉ ks) : expandFactor ks sps j = 1 := by
  induction ks generalizing sps with
  | nil => simp [expandFactor]
  | cons k ks ih =>
    cases sps with
    | nil => simp [expandFactor]
    | cons sp sps =>
      simp only [List.mem_cons, not_or] at h
      have hk : ¬ k = j := fun e => h.1 e.symm
      simp [expandFactor, hk, ih sps h.2]

/-- an axis listed once has the factor `spacing + 1` of its position -/
theorem expandFactor_nodup (ks sps : List Nat) (hn : ks.Nodup) (i : Nat) (k sp : Nat)
    (hk : ks[i]? = some k) (hs : sps[i]? = some sp) : expandFactor ks sps k = sp + 1 := by
  induction ks generalizing sps i with
  | nil => simp at hk
  | cons k0 ks ih =>
    cases sps with
    | nil => simp at hs
    | cons sp0 sps =>
      simp only [List.nodup_cons] at hn
      cases i with
      | zero =>
        simp only [List.getElem?_cons_zero, Option.some.injEq] at hk hs
        subst hk hs
        simp [expandFactor, expandFactor_not_mem ks sps k0 hn.1]
      | succ i =>
        simp only [List.getElem?_cons_succ] at hk hs
        have hmem : k ∈ ks := List.mem_of_getElem? hk
        have hne : ¬ k0 = k := fun e => hn.1 (e ▸ hmem)
        simp [expandFactor, hne, ih sps hn.2 i hk hs]

theorem AxesNorm.lt {n : Nat} {axes : List Int} {ks : List Nat} (h : AxesNorm n axes ks) : ∀ k ∈ ks, k < n := by
  induction h with
  | nil => simp
  | cons hk _ ih =>
    intro k hmem
    simp only [List.mem_cons] at hmem
    rcases hmem with rfl | hmem
    · exact (normalizeAxis1_some _ _ _ hk).1
    · exact ih k hmem

theorem normalizeAxes_of_axesNorm {n : Nat} {axes : List Int} {ks : List Nat} (h : AxesNorm n axes ks) :
    normalizeAxes axes n = some ks := by
  induction h with
  | nil => simp [normalizeAxes]
  | cons hk _ ih =>
    simp only [normalizeAxes] at ih
    simp [normalizeAxes, List.mapM_cons, hk, ih]

/-- the converse: an accepted axis list has normalised positions -/
theorem axesNorm_of_normalizeAxes {n : Nat} {axes : List Int} {ks : List Nat} (h : normalizeAxes axes n = some ks) :
    AxesNorm n axes ks := by
  induction axes generalizing ks with
  | nil => simp [normalizeAxes] at h; subst h; exact .nil
  | cons a axes ih =>
    simp only [normalizeAxes, List.mapM_cons, Option.bind_eq_bind, Option.bind_eq_some_iff, Option.pure_def,
      Option.some.injEq] at h
    obtain ⟨k, hk, ks', hks, rfl⟩ := h
    exact .cons hk (ih (by simpa [normalizeAxes] using hks))

private theorem extent_step (e sp F : Nat) (hF : 0 < F) :
    (e + (e - 1) * sp) + ((e + (e - 1) * sp) - 1) * (F - 1) = e + (e - 1) * ((sp + 1) * F - 1) := by
  cases e with
  | zero => simp
  | succ a =>
    obtain ⟨c, rfl⟩ : ∃ c, F = c + 1 := ⟨F - 1, by omega⟩
    have h1 : a + 1 + (a + 1 - 1) * sp - 1 = a * (sp + 1) := by
      simp only [Nat.add_sub_cancel]
      have : a + 1 + a * sp - 1 = a + a * sp := by omega
      rw [this]; ring
    have h2 : (sp + 1) * (c + 1) - 1 = sp + (sp + 1) * c := by
      have : (sp + 1) * (c + 1) = sp + (sp + 1) * c + 1 := by ring
      omega
    rw [h1, h2]
    simp only [Nat.add_sub_cancel]
    ring

/-- the shape loop: every axis `j` ends with extent `n + (n-1)·(factor j - 1)` -/
theorem shapeExpand_spec (ks sps : List Nat) (hl : ks.length = sps.length) (s : Shape) (hk : ∀ k ∈ ks, k < s.length) :
    (shapeExpand s ks sps).length = s.length ∧
      ∀ j (hj : j < s.length), (shapeExpand s ks sps)[j]? = some (s[j] + (s[j] - 1) * (expandFactor ks sps j - 1)) := by
  induction ks generalizing sps s with
  | nil =>
    cases sps with
    | nil => simp [shapeExpand, expandFactor]
    | cons _ _ => simp at hl
  | cons k ks ih =>
    cases sps with
    | nil => simp at hl
    | cons sp sps =>
      have hks : k < s.length := hk k (by simp)
      have he : s[k]? = some s[k] := by simp [hks]
      simp only [shapeExpand, he]
      obtain ⟨h1, h2⟩ := ih sps (by simpa using hl) (s.set k (s[k] + (s[k] - 1) * sp))
        (by intro k' hk'; simp only [List.length_set]; exact hk k' (by simp [hk']))
      simp only [List.length_set] at h1 h2
      refine ⟨h1, ?_⟩
      intro j hj
      rw [h2 j hj]
      congr 1
      by_cases hkj : k = j
      · subst hkj
        simp only [List.getElem_set_self, expandFactor, if_true]
        exact extent_step s[k] sp _ (expandFactor_pos ks sps k)
      · simp [List.getElem_set_ne hkj, expandFactor, hkj]

/-- the index loop: Nothing (fill) iff some coordinate is not a multiple of its factor, otherwise every coordinate is
    divided by its factor -/
theorem indexExpand_spec (ks sps : List Nat) (hl : ks.length = sps.length) (r : Idx) (hk : ∀ k ∈ ks, k < r.length) :
    ((∃ j x, r[j]? = some x ∧ x % expandFactor ks sps j ≠ 0) → indexExpand r ks sps = none) ∧
    ((∀ j x, r[j]? = some x → x % expandFactor ks sps j = 0) →
      ∃ q, indexExpand r ks sps = some q ∧ q.length = r.length ∧
        ∀ j x, r[j]? = some x → q[j]? = some (x / expandFactor ks sps j)) := by
  induction ks generalizing sps r with
  | nil =>
    cases sps with
    | nil =>
      refine ⟨?_, ?_⟩
      · rintro ⟨j, x, _, hx⟩
        simp [expandFactor, Nat.mod_one] at hx
      · intro _
        exact ⟨r, by simp [indexExpand], rfl, by intro j x hx; simp [expandFactor, hx]⟩
    | cons _ _ => simp at hl
  | cons k ks ih =>
    cases sps with
    | nil => simp at hl
    | cons sp sps =>
      have hkr : k < r.length := hk k (by simp)
      have he : r[k]? = some r[k] := by simp [hkr]
      obtain ⟨ih1, ih2⟩ := ih sps (by simpa using hl) (r.set k (r[k] / (sp + 1)))
        (by intro k' hk'; simp only [List.length_set]; exact hk k' (by simp [hk']))
      have hFpos := expandFactor_pos ks sps
      simp only [indexExpand, he]
      by_cases hdiv : r[k] % (sp + 1) = 0
      · -- the listed coordinate is a multiple: r[k] = (sp+1) * y
        have hnot : ¬ (r[k] % (sp + 1) > 0) := by omega
        simp only [hnot, if_false]
        obtain ⟨y, hy⟩ : ∃ y, r[k] = (sp + 1) * y := ⟨r[k] / (sp + 1), by
          have := Nat.div_add_mod r[k] (sp + 1); omega⟩
        have hyq : r[k] / (sp + 1) = y := by rw [hy]; exact Nat.mul_div_cancel_left y (by omega)
        have hmodk : ∀ F, 0 < F → (r[k] % ((sp + 1) * F) = 0 ↔ y % F = 0) := by
          intro F hF
          rw [hy, Nat.mul_mod_mul_left]
          constructor
          · intro h
            rcases Nat.mul_eq_zero.1 h with h | h
            · omega
            · exact h
          · intro h; simp [h]
        have hdivk : ∀ F, r[k] / ((sp + 1) * F) = y / F := by
          intro F
          rw [← Nat.div_div_eq_div_mul, hyq]
        refine ⟨?_, ?_⟩
        · rintro ⟨j, x, hjx, hx⟩
          apply ih1
          by_cases hkj : k = j
          · subst hkj
            have hxk : x = r[k] := by rw [he] at hjx; simpa using hjx.symm
            subst hxk
            refine ⟨k, y, by simp [hkr, hyq], ?_⟩
            simp only [expandFactor, if_true] at hx
            intro h
            exact hx ((hmodk _ (hFpos k)).2 h)
          · refine ⟨j, x, by simpa [List.getElem?_set, hkj] using hjx, ?_⟩
            simpa [expandFactor, hkj] using hx
        · intro hall
          have hall' : ∀ j x, (r.set k (r[k] / (sp + 1)))[j]? = some x → x % expandFactor ks sps j = 0 := by
            intro j x hjx
            by_cases hkj : k = j
            · subst hkj
              simp only [List.getElem?_set_self hkr, Option.some.injEq] at hjx
              subst hjx
              have := hall k r[k] he
              simp only [expandFactor, if_true] at this
              rw [hyq]
              exact (hmodk _ (hFpos k)).1 this
            · have hjx' : r[j]? = some x := by simpa [List.getElem?_set, hkj] using hjx
              have := hall j x hjx'
              simpa [expandFactor, hkj] using this
          obtain ⟨q, hq, hql, hqs⟩ := ih2 hall'
          refine ⟨q, hq, by simpa using hql, ?_⟩
          intro j x hjx
          by_cases hkj : k = j
          · subst hkj
            have hxk : x = r[k] := by rw [he] at hjx; simpa using hjx.symm
            subst hxk
            rw [hqs k (r[k] / (sp + 1)) (by simp [hkr])]
            simp only [expandFactor, if_true, hdivk, hyq]
          · rw [hqs j x (by simpa [List.getElem?_set, hkj] using hjx)]
            simp [expandFactor, hkj]
      · have hpos : r[k] % (sp + 1) > 0 := by omega
        simp only [hpos, if_true]
        refine ⟨fun _ => trivial, ?_⟩
        intro hall
        exfalso
        have := hall k r[k] he
        simp only [expandFactor, if_true] at this
        apply hdiv
        have hd : (sp + 1) ∣ r[k] := Nat.dvd_trans (Nat.dvd_mul_right _ _) (Nat.dvd_of_mod_eq_zero this)
        exact Nat.mod_eq_zero_of_dvd hd

/-- a multiple `x = q·F` below `n + (n-1)(F-1)` has `q < n` -/
theorem expand_quot_lt (n F x : Nat) (hF : 0 < F) (hx : x < n + (n - 1) * (F - 1)) (hm : x % F = 0) : x / F < n := by
  cases n with
  | zero => simp at hx
  | succ a =>
    obtain ⟨c, rfl⟩ : ∃ c, F = c + 1 := ⟨F - 1, by omega⟩
    simp only [Nat.add_sub_cancel] at hx
    have h1 : a + 1 + a * c = a * (c + 1) + 1 := by ring
    rw [h1] at hx
    have hxq : x = (c + 1) * (x / (c + 1)) := by
      have := Nat.div_add_mod x (c + 1); omega
    apply Classical.byContradiction
    intro hcon
    have hge : a + 1 ≤ x / (c + 1) := by omega
    have h3 : (c + 1) * (a + 1) ≤ (c + 1) * (x / (c + 1)) := Nat.mul_le_mul_left _ hge
    have h4 : (c + 1) * (a + 1) = a * (c + 1) + (c + 1) := by ring
    omega

end NmVerif.Index
