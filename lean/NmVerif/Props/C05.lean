import NmVerif.Lemmas.SliceDyn
import NmVerif.Lemmas.SliceLaws
/-
  C05 — Slicing follows Python/NumPy basic-indexing semantics.

  MODEL  NmVerif.Slice (Index/Slice.lean): slice_indices / compute_range / compute_step / compute_index, the integer
         ceiling length, the packed (shape_slice / slice) and dynamic (shape_dynamic_slice / dynamic_slice) loops with
         the trailing-axes copy, view::slice — the headers after the `fix:` commits fixes/C05-*.diff.
  SPEC   Python `slice.indices` (pyIndices/pyLen, transcribed from PySlice_AdjustIndices) per axis; NumPy basic indexing
         (specSlice: integers drop their axis, one ellipsis = the missing full slices, unaddressed trailing axes kept
         whole, element j ↦ start' + j*step).
  Dom    `domEntries` (Lemmas/SliceND.lean) = every valid basic index: at most one ellipsis, no more entries than axes,
         integers in [-n, n), step ≠ 0, extents below 2^62.  No off-domain classes are left.
-/
namespace NmVerif.Props.C05
open NmVerif NmVerif.Slice

/-! ## SPEC sanity (all inputs): Python's own rule never leaves the axis -/

/-- for every extent, every start/stop/step (step ≠ 0): the `j`-th selected element `start' + j*step`, `j < len`, lies in `[0, n)` -/
theorem python_range_inBounds (n : Nat) (a b c : Option Int) (l : Nat) (f k : Int)
    (h : pyAxis n a b c = some (l, f, k)) (j : Nat) (hj : j < l) : 0 ≤ f + j * k ∧ f + j * k < n := by
  have hk : stepVal c ≠ 0 := by
    intro h0
    rcases c with _ | c
    · simp [stepVal] at h0
    · simp only [stepVal] at h0; subst h0; simp [pyAxis, pyIndices] at h
  rw [pyAxis_eq n a b c hk] at h
  simp only [Option.some.injEq, Prod.mk.injEq] at h
  obtain ⟨rfl, rfl, rfl⟩ := h
  exact pyAxis_inBounds n a b c hk j hj

example : pyAxis 5 (some (-2)) none (some (-2)) = some (2, 3, -2) := by decide

/-! ## one range entry -/

/-- for every extent (a `size_t`) and every start/stop/step with step ≠ 0 — omitted, negative, out of range, empty
    included — the implementation's extent and every element equal Python's `slice.indices` rule, and elements stay
    inside the axis -/
theorem range_eq_python (n : Nat) (a b c : Option Int) (hn : n < 18446744073709551616) (hk : stepVal c ≠ 0) :
    ∃ l f k, pyAxis n a b c = some (l, f, k) ∧ sliceLen n a b c = some (l : Int) ∧
      ∀ j : Nat, j < l → computeIndex n a b c j = f + j * k ∧ 0 ≤ f + j * k ∧ f + j * k < n :=
  range_entry_all n a b c hn hk

/-- the normalisation itself: `slice_indices` = `PySlice_AdjustIndices`, for all inputs -/
theorem slice_indices_eq_python (n : Nat) (a b c : Option Int) :
    sliceIndices n a b c = (pyStart n a c, pyStop n b c, stepVal c) :=
  sliceIndices_eq_python n a b c

-- the formerly wrong classes: a[2:1] (empty), a[-6:2] (clamped), a[-1:], a[-2:1], a[3:1:-1], a[:] on 2^24+1
example : sliceLen 4 (some 2) (some 1) (some 1) = some 0 := by decide
example : sliceLen 4 (some (-6)) (some 2) (some 1) = some 2 ∧ computeIndex 4 (some (-6)) (some 2) (some 1) 1 = 1 := by decide
example : sliceLen 5 (some (-1)) none none = some 1 ∧ computeIndex 5 (some (-1)) none none 0 = 4 := by decide
example : computeIndex 2 (some (-2)) (some 1) (some 1) 0 = 0 := by decide
example : sliceLen 4 (some 3) (some 1) (some (-1)) = some 2 ∧ computeIndex 4 (some 3) (some 1) (some (-1)) 1 = 2 := by decide
example : sliceLen 16777217 none none none = some 16777217 := by decide

/-! ## a whole index: any rank, integers and one ellipsis in any position -/

/-- packed encoding (`shape_slice` / `slice`), every valid basic index: the shape is the reference shape (integers drop
    their axis, the ellipsis expands to the missing full slices, unaddressed trailing axes are kept) and every
    destination index maps to the reference source index, which lies inside the source shape -/
theorem slice_eq_python (shape : List Nat) (es : List Entry) (h : domEntries shape es = true) :
    ∃ sels, specSlice shape es = some sels ∧ shapeSlice shape es = some (specShape sels) ∧
      ∀ d, InShape d (specShape sels) →
        ∃ i, specIdx sels d = some i ∧ sliceIdx shape es d = some i ∧ InShape i shape :=
  slice_dom shape es h

-- non-vacuity: a[1, ..., ::-1] on (2,3,4);  a[-1, 0:2] on (3,4);  a[..., 1:3, -2] on (2,5,4,3);  a[1:4:2] on (5,2);
-- a[0, ...] on (2,);  a[7:-9:-2, -1:] on (5,3)
example : domEntries [2, 3, 4] [.int 1, .ellipsis, .range none none (some (-1))] = true := by decide
example : domEntries [3, 4] [.int (-1), .range2 (some 0) (some 2)] = true := by decide
example : domEntries [2, 5, 4, 3] [.ellipsis, .range (some 1) (some 3) none, .int (-2)] = true := by decide
example : domEntries [5, 2] [.range (some 1) (some 4) (some 2)] = true := by decide
example : domEntries [2] [.int 0, .ellipsis] = true := by decide
example : domEntries [5, 3] [.range (some 7) (some (-9)) (some (-2)), .range2 (some (-1)) none] = true := by decide
example : shapeSlice [5, 2] [.range (some 1) (some 4) (some 2)] = some [2, 2] := by decide
example : shapeSlice [2, 3, 4] [.int 1, .ellipsis, .range none none (some (-1))] = some [3, 4] := by decide
example : sliceIdx [2, 3, 4] [.int 1, .ellipsis, .range none none (some (-1))] [2, 0] = some [1, 2, 3] := by decide

/-- the two encodings agree: wherever the compile-time (packed) shape function has a value, the run-time (list of
    either) one returns the same -/
theorem packed_eq_dynamic_shape (shape : List Nat) (es : List Entry) (r : List Nat)
    (h : shapeSlice shape es = some r) : shapeDynamicSlice shape es = some r :=
  shape_packed_eq_dynamic shape es r h

/-- … and so does the index function, for every destination index -/
theorem packed_eq_dynamic_index (shape : List Nat) (es : List Entry) (d r : List Nat)
    (h : sliceIdx shape es d = some r) : dynamicSlice shape es d = some r :=
  idx_packed_eq_dynamic shape es d r h

example : shapeDynamicSlice [2, 3, 4] [.int 1, .ellipsis, .range none none (some (-1))] = some [3, 4] := by decide

/-- dynamic encoding: same statement as `slice_eq_python` -/
theorem dynamic_slice_eq_python (shape : List Nat) (es : List Entry) (h : domEntries shape es = true) :
    ∃ sels, specSlice shape es = some sels ∧ shapeDynamicSlice shape es = some (specShape sels) ∧
      ∀ d, InShape d (specShape sels) →
        ∃ i, specIdx sels d = some i ∧ dynamicSlice shape es d = some i ∧ InShape i shape := by
  obtain ⟨sels, h1, h2, h3⟩ := slice_dom shape es h
  refine ⟨sels, h1, shape_packed_eq_dynamic _ _ _ h2, ?_⟩
  intro d hd
  obtain ⟨i, a1, a2, a3⟩ := h3 d hd
  exact ⟨i, a1, idx_packed_eq_dynamic _ _ _ _ a2, a3⟩

/-! ## the reference itself: `pyLen` counts Python's `range`, a range never outgrows its axis -/

/-- the reference length is characterised, not only transcribed: position `j` is selected exactly when
    `start' + j*step` has not reached `stop'` in the direction of the step — the elements of `range(start', stop', step')` -/
theorem python_len_is_range_len (n : Nat) (a b c : Option Int) (st sp k : Int)
    (h : pyIndices n a b c = some (st, sp, k)) (j : Nat) :
    j < (pyLen st sp k).toNat ↔ (if 0 < k then st + j * k < sp else sp < st + j * k) := by
  have hk : k ≠ 0 := by
    intro hk0
    subst hk0
    rcases c with _ | c
    · simp [pyIndices] at h
    · by_cases hc : c = 0
      · subst hc; simp [pyIndices] at h
      · simp [pyIndices, hc] at h
  have hn := pyLen_nonneg st sp k hk
  have e : j < (pyLen st sp k).toNat ↔ (j : Int) < pyLen st sp k := by omega
  rw [e]
  by_cases hp : 0 < k
  · rw [if_pos hp]; exact pyLen_iff_pos st sp k hp j
  · rw [if_neg hp]; exact pyLen_iff_neg st sp k (by omega) j

example : pyIndices 5 (some (-2)) none (some (-2)) = some (3, -1, -2) := by decide

/-- a range selects at most as many elements as the axis has (so the sliced extent fits whatever held the source extent) -/
theorem range_len_le_extent (n : Nat) (a b c : Option Int) (l : Nat) (f k : Int)
    (h : pyAxis n a b c = some (l, f, k)) : l ≤ n := by
  have hk : stepVal c ≠ 0 := by
    intro h0
    rcases c with _ | c
    · simp [stepVal] at h0
    · simp only [stepVal] at h0; subst h0; simp [pyAxis, pyIndices] at h
  rw [pyAxis_eq n a b c hk] at h
  simp only [Option.some.injEq, Prod.mk.injEq] at h
  obtain ⟨rfl, _, _⟩ := h
  exact pyLen_le_extent n a b c hk

/-! ## one-axis algebra of the implementation's functions -/

/-- `a[:]` is the identity on an axis -/
theorem full_slice_identity (n : Nat) (hn : n < 18446744073709551616) :
    sliceLen n none none none = some (n : Int) ∧ ∀ j : Nat, j < n → computeIndex n none none none j = j := by
  obtain ⟨l, f, k, h1, h2, h3⟩ := range_entry_all n none none none hn (by simp [stepVal])
  have e : pyAxis n none none none = some (n, 0, 1) := by
    simp only [pyAxis, pyIndices, pyAdjust, pyLen]
    simp only [show ¬ ((1 : Int) = 0) by decide, show ¬ ((1 : Int) < 0) by decide, if_false]
    by_cases h0 : (0 : Int) < n
    · simp only [h0, if_true]; simp
    · simp only [h0, if_false]; simp; omega
  rw [e] at h1
  simp only [Option.some.injEq, Prod.mk.injEq] at h1
  obtain ⟨rfl, rfl, rfl⟩ := h1
  refine ⟨h2, fun j hj => ?_⟩
  have := (h3 j hj).1
  omega

/-- `a[::-1]` reverses an axis: same extent, element `j` is source element `n-1-j` -/
theorem reverse_slice (n : Nat) (hn : n < 18446744073709551616) :
    sliceLen n none none (some (-1)) = some (n : Int) ∧
      ∀ j : Nat, j < n → computeIndex n none none (some (-1)) j = (n : Int) - 1 - j := by
  obtain ⟨l, f, k, h1, h2, h3⟩ := range_entry_all n none none (some (-1)) hn (by simp [stepVal])
  have e : pyAxis n none none (some (-1)) = some (n, (n : Int) - 1, -1) := by
    simp only [pyAxis, pyIndices, pyAdjust, pyLen]
    simp only [show ¬ ((-1 : Int) = 0) by decide, show ((-1 : Int) < 0) by decide, if_true, if_false]
    by_cases h0 : (-1 : Int) < (n : Int) - 1
    · simp only [h0, if_true]; simp
    · simp only [h0, if_false]; simp <;> omega
  rw [e] at h1
  simp only [Option.some.injEq, Prod.mk.injEq] at h1
  obtain ⟨rfl, rfl, rfl⟩ := h1
  refine ⟨h2, fun j hj => ?_⟩
  have := (h3 j hj).1
  omega

/-- slice of a slice on one axis (`a[r1][r2]`): for every pair of ranges the implementation's composed element is the
    single walk with first element `f1 + f2*k1` and step `k1*k2`, and it stays inside the source axis — Python's
    `range(...)[r2]` law, for every extent and every start/stop/step -/
theorem slice_of_slice (n : Nat) (a1 b1 c1 a2 b2 c2 : Option Int) (hn : n < 18446744073709551616)
    (hk1 : stepVal c1 ≠ 0) (hk2 : stepVal c2 ≠ 0) :
    ∃ l1 f1 k1 l2 f2 k2, pyAxis n a1 b1 c1 = some (l1, f1, k1) ∧ pyAxis l1 a2 b2 c2 = some (l2, f2, k2) ∧
      sliceLen n a1 b1 c1 = some (l1 : Int) ∧ sliceLen l1 a2 b2 c2 = some (l2 : Int) ∧ l2 ≤ l1 ∧ l1 ≤ n ∧
      ∀ j : Nat, j < l2 →
        computeIndex n a1 b1 c1 (computeIndex l1 a2 b2 c2 j) = (f1 + f2 * k1) + j * (k1 * k2) ∧
        0 ≤ (f1 + f2 * k1) + j * (k1 * k2) ∧ (f1 + f2 * k1) + j * (k1 * k2) < n := by
  obtain ⟨l1, f1, k1, p1, s1, i1⟩ := range_entry_all n a1 b1 c1 hn hk1
  have hl1 : l1 ≤ n := range_len_le_extent n a1 b1 c1 l1 f1 k1 p1
  obtain ⟨l2, f2, k2, p2, s2, i2⟩ := range_entry_all l1 a2 b2 c2 (by omega) hk2
  have hl2 : l2 ≤ l1 := range_len_le_extent l1 a2 b2 c2 l2 f2 k2 p2
  refine ⟨l1, f1, k1, l2, f2, k2, p1, p2, s1, s2, hl2, hl1, ?_⟩
  intro j hj
  obtain ⟨e2, lo2, hi2⟩ := i2 j hj
  have hm : ((f2 + (j : Int) * k2).toNat : Int) = f2 + j * k2 := Int.toNat_of_nonneg lo2
  have hlt : (f2 + (j : Int) * k2).toNat < l1 := by omega
  obtain ⟨e1, lo1, hi1⟩ := i1 (f2 + (j : Int) * k2).toNat hlt
  rw [hm] at e1 lo1 hi1
  have er : f1 + (f2 + (j : Int) * k2) * k1 = (f1 + f2 * k1) + j * (k1 * k2) := by
    rw [Int.add_mul, Int.mul_assoc, Int.mul_comm k2 k1, Int.add_assoc]
  exact ⟨by rw [e2, e1, er], by rw [← er]; exact lo1, by rw [← er]; exact hi1⟩

-- a[1:9:2][::-1] on extent 10 = a[7::-2] restricted to 4 elements: 7, 5, 3, 1
example : pyAxis 10 (some 1) (some 9) (some 2) = some (4, 1, 2) ∧ pyAxis 4 none none (some (-1)) = some (4, 3, -1) := by decide
example : computeIndex 10 (some 1) (some 9) (some 2) (computeIndex 4 none none (some (-1)) 0) = 7 := by decide

/-- a slice view of a slice view (`a[es1][es2]`, any rank): for every pair of valid basic indices the inner result exists,
    every element of the outer result reads an element of the inner result that exists, and through it a source element
    inside the source shape, both given by the reference maps -/
theorem slice_of_slice_view (src : List Nat) (es1 es2 : List Entry) (h1 : domEntries src es1 = true)
    (mid : List Nat) (hm : shapeDynamicSlice src es1 = some mid) (h2 : domEntries mid es2 = true) :
    ∃ sels1 sels2, specSlice src es1 = some sels1 ∧ specSlice mid es2 = some sels2 ∧ mid = specShape sels1 ∧
      shapeDynamicSlice mid es2 = some (specShape sels2) ∧
      ∀ d, InShape d (specShape sels2) →
        ∃ m i, specIdx sels2 d = some m ∧ dynamicSlice mid es2 d = some m ∧ InShape m mid ∧
          specIdx sels1 m = some i ∧ dynamicSlice src es1 m = some i ∧ InShape i src := by
  obtain ⟨sels1, a1, a2, a3⟩ := dynamic_slice_eq_python src es1 h1
  obtain ⟨sels2, b1, b2, b3⟩ := dynamic_slice_eq_python mid es2 h2
  rw [a2] at hm
  cases hm
  refine ⟨sels1, sels2, a1, b1, rfl, b2, ?_⟩
  intro d hd
  obtain ⟨m, c1, c2, c3⟩ := b3 d hd
  obtain ⟨i, e1, e2, e3⟩ := a3 m c3
  exact ⟨m, i, c1, c2, c3, e1, e2, e3⟩

example : shapeDynamicSlice [4, 5] [.int 1, .range (some 0) (some 5) (some 2)] = some [3] ∧
    domEntries [3] [.range (some 2) (some 0) (some (-1))] = true := by decide

/-! ## no two result elements alias one source element (mutable_slice writes are independent) -/

/-- packed encoding: the element map of every valid basic index is injective on the result shape -/
theorem slice_injective (shape : List Nat) (es : List Entry) (h : domEntries shape es = true) (r : List Nat)
    (hr : shapeSlice shape es = some r) (d1 d2 : List Nat) (h1 : InShape d1 r) (h2 : InShape d2 r)
    (e : sliceIdx shape es d1 = sliceIdx shape es d2) : d1 = d2 := by
  obtain ⟨sels, a1, a2, a3⟩ := slice_dom shape es h
  rw [a2] at hr
  cases hr
  obtain ⟨i1, b1, c1, _⟩ := a3 d1 h1
  obtain ⟨i2, b2, c2, _⟩ := a3 d2 h2
  rw [c1, c2] at e
  cases e
  exact specIdx_injective sels (specSlice_walkOK shape es sels a1) d1 d2 i1 h1 h2 b1 b2

/-- dynamic encoding: the same -/
theorem dynamic_slice_injective (shape : List Nat) (es : List Entry) (h : domEntries shape es = true) (r : List Nat)
    (hr : shapeDynamicSlice shape es = some r) (d1 d2 : List Nat) (h1 : InShape d1 r) (h2 : InShape d2 r)
    (e : dynamicSlice shape es d1 = dynamicSlice shape es d2) : d1 = d2 := by
  obtain ⟨sels, a1, a2, a3⟩ := dynamic_slice_eq_python shape es h
  rw [a2] at hr
  cases hr
  obtain ⟨i1, b1, c1, _⟩ := a3 d1 h1
  obtain ⟨i2, b2, c2, _⟩ := a3 d2 h2
  rw [c1, c2] at e
  cases e
  exact specIdx_injective sels (specSlice_walkOK shape es sels a1) d1 d2 i1 h1 h2 b1 b2

example : shapeSlice [5, 3] [.range (some 7) (some (-9)) (some (-2)), .range2 (some (-1)) none] = some [3, 1] := by decide

/-! ## the slice view (for C02 / C10) -/

/-- `xView_shape` + `xView_elem`: for every valid basic index the slice view exists, has the reference shape and the reference element map -/
theorem sliceView_eq_spec (src : Shape) (es : List Entry) (h : domEntries src es = true) :
    ∃ v s, sliceView src es = some v ∧ specView src es = some s ∧ v.src = src ∧ v.dst = s.dst ∧
      ∀ d, InShape d v.dst → v.map d = s.map d := by
  obtain ⟨sels, h1, h2, h3⟩ := slice_dom src es h
  refine ⟨⟨src, specShape sels, fun d => sliceIdx src es d⟩, ⟨src, specShape sels, specIdx sels⟩, ?_, ?_, rfl, rfl, ?_⟩
  · simp [sliceView, h2]
  · simp [specView, h1]
  · intro d hd
    obtain ⟨i, a1, a2, _⟩ := h3 d hd
    simp [a1, a2]

/-- `xView_inBounds` (feeds C02): every access of the slice view stays inside the source shape -/
theorem slice_indices_inShape (src : Shape) (es : List Entry) (h : domEntries src es = true) (v : IxView)
    (hv : sliceView src es = some v) : v.InBounds := by
  obtain ⟨sels, _, h2, h3⟩ := slice_dom src es h
  simp only [sliceView, h2, Option.map_some, Option.some.injEq] at hv
  subst hv
  intro d hd i hi
  obtain ⟨i', _, a2, a3⟩ := h3 d hd
  simp only at hi
  rw [a2] at hi
  cases hi
  exact a3

/-- the same for the run-time encoding (`view::apply_slice` with a list of either) -/
theorem dynamic_slice_indices_inShape (src : Shape) (es : List Entry) (h : domEntries src es = true) (v : IxView)
    (hv : dynamicSliceView src es = some v) : v.InBounds := by
  obtain ⟨sels, _, h2, h3⟩ := dynamic_slice_eq_python src es h
  simp only [dynamicSliceView, h2, Option.map_some, Option.some.injEq] at hv
  subst hv
  intro d hd i hi
  obtain ⟨i', _, a2, a3⟩ := h3 d hd
  simp only at hi
  rw [a2] at hi
  cases hi
  exact a3

example : (sliceView [3, 4] [.int (-1), .range2 (some 0) (some 2)]).map (·.provenance) = some [8, 9] := by decide

end NmVerif.Props.C05
