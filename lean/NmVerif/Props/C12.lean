import NmVerif.Simd.Loop
import NmVerif.Simd.LoopLemmas
import NmVerif.Simd.ReduceLemmas
import NmVerif.Simd.EnumLemmas
import NmVerif.Simd.HorizLemmas
import NmVerif.Simd.VertLemmas
import NmVerif.Simd.OuterLemmas
import NmVerif.Simd.BinaryLemmas
import NmVerif.Simd.NdLemmas
import NmVerif.Simd.AxisLemmas
import NmVerif.Simd.OuterEvalLemmas
import NmVerif.Simd.MatmulLemmas
import NmVerif.Simd.IntLanesLemmas
import NmVerif.Simd.FloatLanes
/-
  C12 — SIMD evaluation equals scalar evaluation for every size, shape and layout.
  Only property statements (+ non-vacuity examples, counterexamples of known findings) live here.

  Assumption made explicit (never an axiom): the intrinsic wrappers are lane-wise,
  `LaneWise1 lanes packF f` / `LaneWise2 lanes packF f` — "`op.eval` on a register of `lanes`
  elements is the scalar functor applied to each lane".  It is validated on this CPU by the
  bit-identical differential run of ./check C12.
-/
namespace NmVerif.Props.C12
open NmVerif NmVerif.Simd

variable {α β : Type}

/-- `_mm256_sqrt_ps` & co.: a unary packed op is the scalar functor on each lane -/
def LaneWise1 (lanes : Nat) (packF : List α → List β) (f : α → β) : Prop :=
  ∀ xs, xs.length = lanes → packF xs = xs.map f

/-- `_mm256_add_ps` & co.: a binary packed op is the scalar functor on each pair of lanes -/
def LaneWise2 (lanes : Nat) (packF : List α → List α → List β) (f : α → α → β) : Prop :=
  ∀ xs ys, xs.length = lanes → ys.length = lanes → packF xs ys = List.zipWith f xs ys

/-! ## packed loop + scalar tail: index structure (all `n`, all `lanes > 0`) -/

/-- the packed loop visits exactly the chunk starts `0, N, …, (n/N − 1)·N` -/
theorem packedStarts_closed (lanes n : Nat) (hl : 0 < lanes) :
    packedStarts lanes n = (List.range (n / lanes)).map (· * lanes) := packedStarts_eq lanes n hl

/-- every packed access `[i, i+lanes)` lies inside `[0, n)` -/
theorem packed_access_in_bounds (lanes n : Nat) (hl : 0 < lanes) (i : Nat) (hi : i ∈ packedStarts lanes n) :
    i + lanes ≤ n := by
  rw [packedStarts_eq lanes n hl] at hi
  simp only [List.mem_map, List.mem_range] at hi
  obtain ⟨k, hk, rfl⟩ := hi
  have h1 : (k + 1) * lanes ≤ n / lanes * lanes := Nat.mul_le_mul_right lanes hk
  have h2 := Nat.div_mul_le_self n lanes
  rw [Nat.succ_mul] at h1
  omega

/-- packed chunks followed by the leftover loop enumerate `0 … n-1` in order:
    every output cell is written exactly once, none outside the buffer -/
theorem packed_tail_partition (lanes n : Nat) (hl : 0 < lanes) :
    (packedStarts lanes n).flatMap (fun i => List.range' i lanes) ++ tailIdx lanes n = List.range n := by
  rw [packedStarts_eq lanes n hl, tailIdx]
  have hM := Nat.div_mul_le_self n lanes
  have hn : n = n / lanes * lanes + (n - n / lanes * lanes) := by omega
  conv => rhs; rw [hn, List.range_eq_range', ← List.range'_append (step := 1)]
  congr 1
  · rw [← List.range_eq_range', range_mul_flatMap, List.flatMap_map]
    apply flatMap_congr'
    intro k _
    rw [List.range_eq_range', List.map_add_range']
    simp
  · simp

/-! ## eval_unary -/

/-- **SIMD unary = scalar evaluator**, every shape / element count, every `lanes > 0`,
    row-major operand (the layout the packed loop assumes), no access outside a buffer
    (the result is `some _`). -/
theorem simdUnary_eq_scalar (lanes : Nat) (hl : 0 < lanes) (packF : List α → List β) (f : α → β)
    (hpf : LaneWise1 lanes packF f)
    (a : NDA α) (hw : a.WF) (hr : a.colMajor = false) (hs : Pos a.shape)
    (out : List β) (ho : out.length = prod a.shape) :
    simdUnary lanes packF f a out = scalarUnary f a := by
  have hlog := logical_rowMajor a hw hr hs
  have hw' : a.data.length = prod a.shape := hw
  unfold scalarUnary
  rw [hlog]
  unfold simdUnary
  have hn : (a.data.map f).length = prod a.shape := by rw [List.length_map]; exact hw
  have := packed_then_tail (a.data.map f) out lanes (prod a.shape) hl
    (fun o i => do let r ← loadu a.data i lanes; storeu o i (packF r))
    (fun o i => do
      let v ← a.get? (ndindex a.shape i)
      writeAt o (computeOffset (ndindex a.shape i) (strides a.shape)) (f v))
    hn ho
    (by
      intro k o hk
      rw [loadu_eq (by rw [hw]; exact hk)]
      simp only [Option.bind_eq_bind, Option.bind_some]
      rw [hpf _ (by rw [List.length_take, List.length_drop]; omega)]
      simp [List.map_take, List.map_drop])
    (by
      intro i o v hv
      have hi : i < prod a.shape := by
        have := (List.getElem?_eq_some_iff.1 hv).1
        rw [List.length_map] at this; omega
      rw [get?_ndindex_rowMajor a hr hs i hi]
      rw [List.getElem?_map] at hv
      have hoff : computeOffset (ndindex a.shape i) (strides a.shape) = i := offset_indices hs hi
      rw [hoff]
      cases hd : a.data[i]? with
      | none => rw [hd] at hv; simp at hv
      | some x => rw [hd] at hv; simp at hv; simp [hv])
  simpa using this

/-- … and that common value is `f` mapped over the operand, in order -/
theorem simdUnary_eq_map (lanes : Nat) (hl : 0 < lanes) (packF : List α → List β) (f : α → β)
    (hpf : LaneWise1 lanes packF f)
    (a : NDA α) (hw : a.WF) (hr : a.colMajor = false) (hs : Pos a.shape)
    (out : List β) (ho : out.length = prod a.shape) :
    simdUnary lanes packF f a out = some (a.data.map f) := by
  rw [simdUnary_eq_scalar lanes hl packF f hpf a hw hr hs out ho, scalarUnary, logical_rowMajor a hw hr hs]
  rfl

/-- **`operator()` on a unary view, operand of either layout = scalar evaluator**: a column-major operand is handed to
    the scalar evaluator (the packed loop would read `data()` linearly), a row-major one goes through `simdUnary`. -/
theorem simdEvalUnary_eq_scalar (lanes : Nat) (hl : 0 < lanes) (packF : List α → List β) (f : α → β)
    (hpf : LaneWise1 lanes packF f) (a : NDA α) (hw : a.WF) (hs : Pos a.shape)
    (out : List β) (ho : out.length = prod a.shape) :
    simdEvalUnary lanes packF f a out = scalarUnary f a := by
  unfold simdEvalUnary
  cases hc : a.colMajor with
  | true => simp
  | false => simpa using simdUnary_eq_scalar lanes hl packF f hpf a hw hc hs out ho

/-! ## eval_binary, operands of equal shape -/

/-- **SIMD binary (same shape) = scalar evaluator**: every shape, every `lanes > 0`, row-major operands -/
theorem simdBinarySame_eq_scalar (lanes : Nat) (hl : 0 < lanes) (packF : List α → List α → List β) (f : α → α → β)
    (hpf : LaneWise2 lanes packF f)
    (a b : NDA α) (hwa : a.WF) (hwb : b.WF) (hra : a.colMajor = false) (hrb : b.colMajor = false)
    (hsh : b.shape = a.shape) (hs : Pos a.shape)
    (out : List β) (ho : out.length = prod a.shape) :
    simdBinarySame lanes packF f a b out = scalarBinarySame f a b := by
  have hwa' : a.data.length = prod a.shape := hwa
  have hwb' : b.data.length = prod a.shape := by rw [← hsh]; exact hwb
  unfold scalarBinarySame
  rw [logical_rowMajor a hwa hra hs, logical_rowMajor b hwb hrb (by rw [hsh]; exact hs)]
  unfold simdBinarySame
  have hn : (List.zipWith f a.data b.data).length = prod a.shape := by
    rw [List.length_zipWith, hwa', hwb', Nat.min_self]
  have := packed_then_tail (List.zipWith f a.data b.data) out lanes (prod a.shape) hl
    (fun o i => do let l ← loadu a.data i lanes; let r ← loadu b.data i lanes; storeu o i (packF l r))
    (fun o i => do
      let x ← a.get? (ndindex a.shape i)
      let y ← b.get? (ndindex a.shape i)
      writeAt o (computeOffset (ndindex a.shape i) (strides a.shape)) (f x y))
    hn ho
    (by
      intro k o hk
      rw [loadu_eq (by rw [hwa']; exact hk), loadu_eq (by rw [hwb']; exact hk)]
      simp only [Option.bind_eq_bind, Option.bind_some]
      rw [hpf _ _ (by rw [List.length_take, List.length_drop]; omega) (by rw [List.length_take, List.length_drop]; omega)]
      rw [List.drop_zipWith, List.take_zipWith])
    (by
      intro i o v hv
      have hi : i < prod a.shape := by
        have := (List.getElem?_eq_some_iff.1 hv).1
        rw [hn] at this; exact this
      rw [get?_ndindex_rowMajor a hra hs i hi]
      have hb := get?_ndindex_rowMajor b hrb (by rw [hsh]; exact hs) i (by rw [hsh]; exact hi)
      rw [hsh] at hb
      rw [hb]
      have hoff : computeOffset (ndindex a.shape i) (strides a.shape) = i := offset_indices hs hi
      rw [hoff]
      rw [List.getElem?_zipWith] at hv
      cases hx : a.data[i]? with
      | none => rw [hx] at hv; simp at hv
      | some x =>
        cases hy : b.data[i]? with
        | none => rw [hx, hy] at hv; simp at hv
        | some y => rw [hx, hy] at hv; simp at hv; simp [hv])
  simpa using this

/-- … and with operands of either layout (`operator()`: any column-major operand → scalar evaluator) -/
theorem simdEvalBinarySame_eq_scalar (lanes : Nat) (hl : 0 < lanes) (packF : List α → List α → List β) (f : α → α → β)
    (hpf : LaneWise2 lanes packF f)
    (a b : NDA α) (hwa : a.WF) (hwb : b.WF) (hsh : b.shape = a.shape) (hs : Pos a.shape)
    (out : List β) (ho : out.length = prod a.shape) :
    simdEvalBinarySame lanes packF f a b out = scalarBinarySame f a b := by
  unfold simdEvalBinarySame
  cases ha : a.colMajor with
  | true => simp
  | false =>
    cases hb : b.colMajor with
    | true => simp
    | false => simpa using simdBinarySame_eq_scalar lanes hl packF f hpf a b hwa hwb ha hb hsh hs out ho

/-! ## eval_reduction, one output element (axis = None, 1-d operands, …) -/

/-- **full SIMD reduction = scalar left fold** over a commutative monoid `(op, e)`, for every element
    count and every `lanes > 0`; the accumulator starts from `op.set1(view.op.identity())`, `e` being that identity
    (0 for add, 1 for multiply). -/
theorem simdReduceAll_eq_fold (lanes : Nat) (hl : 0 < lanes) (packOp : List α → List α → List α)
    (op : α → α → α) (zero : α) (hm : IsCommMonoid op zero)
    (hp : LaneWise2 lanes packOp op)
    (a : NDA α) (hw : a.WF) (hr : a.colMajor = false) (hs : Pos a.shape) :
    simdReduceAll lanes packOp op zero a = scalarReduceAll op a := by
  have hn : 0 < a.data.length := by rw [hw]; exact prod_pos hs
  unfold scalarReduceAll
  rw [logical_rowMajor a hw hr hs]
  unfold simdReduceAll
  dsimp only
  rw [packedStarts_eq lanes _ hl]
  obtain ⟨reg, hf, hlen, hsum⟩ := packed_reduce_fold hm packOp lanes hp a.data (a.data.length / lanes)
    (Nat.div_mul_le_self _ _)
  rw [hf]
  simp only [Option.bind_eq_bind, Option.bind_some]
  cases reg with
  | nil => simp at hlen; omega
  | cons r0 rs =>
    simp only
    have hM := Nat.div_mul_le_self a.data.length lanes
    have ht := tail_reduce_fold op a.data (a.data.length - a.data.length / lanes * lanes)
      (a.data.length / lanes * lanes) (rs.foldl op r0) (by omega)
    simp only [Option.bind_eq_bind] at ht
    rw [tailIdx, ht]
    have h1 : rs.foldl op r0 = IsCommMonoid.msum op zero (r0 :: rs) := by
      show rs.foldl op r0 = (r0 :: rs).foldl op zero
      rw [List.foldl_cons, hm.id_left]
    rw [h1, hsum, hm.foldl_eq, ← hm.msum_append, List.take_append_drop]
    cases hd : a.data with
    | nil => rw [hd] at hn; simp at hn
    | cons x xs =>
      simp only [Option.pure_def, Option.some.injEq]
      show (x :: xs).foldl op zero = xs.foldl op x
      rw [List.foldl_cons, hm.id_left]

/-- **`operator()` on a reduce view with `axis = None` = scalar left fold**, for operands of either layout and ops with or
    without `identity()`: column-major operands and identity-less ops (subtract) are handed to the scalar evaluator. -/
theorem simdEvalReduceAll_eq_fold (lanes : Nat) (hl : 0 < lanes) (packOp : List α → List α → List α)
    (op : α → α → α) (identity : Option α) (hm : ∀ e, identity = some e → IsCommMonoid op e)
    (hp : LaneWise2 lanes packOp op) (a : NDA α) (hw : a.WF) (hs : Pos a.shape) :
    simdEvalReduceAll lanes packOp op identity a = scalarReduceAll op a := by
  unfold simdEvalReduceAll
  cases hc : a.colMajor with
  | true => simp
  | false =>
    cases hi : identity with
    | none => simp
    | some e => simpa using simdReduceAll_eq_fold lanes hl packOp op e (hm e hi) hp a hw hc hs

/-! ## eval_binary, two 2-d operands with broadcasting: the enumerator -/

/-- **every output cell is written exactly once, in order**: the output blocks of the successive steps of
    `binary_2d_simd_enumerator` (a register for PACKED, one cell for SCALAR) concatenate to `0 … R·oc − 1`,
    for every lane count, every column count (also not a multiple of the lane count) and every row count. -/
theorem binary2d_covers_once (N oc lr lc rr rc : Nat) (hN : 0 < N) :
    (List.range (binary2dSize N oc lr rr)).flatMap (fun i =>
        List.range' (binary2dAt N oc lr lc rr rc i).1.off (stepLen N (binary2dAt N oc lr lc rr rc i).1))
      = List.range ((binary2dShape N oc lr rr).1 * oc) := by
  have h := (binary2d_contig N oc lr lc rr rc (binary2dShape N oc lr rr).1).blocks
  simp only [Nat.sub_zero] at h
  rw [List.range_eq_range' (n := (binary2dShape N oc lr rr).1 * oc), ← h]
  rfl

/-- **operand offsets are the ones NumPy broadcasting prescribes**: at every step and every lane of it, the lhs / rhs
    buffer element that is combined into output cell `o` is `bcastOff` of `o`, for operands `(R|1, oc|1)` other than
    (`OperandOK`, which includes a `(1,1)` operand under a multi-row result: it is read at element 0). -/
theorem binary2d_operand_offsets (N oc lr lc rr rc : Nat) (hN : 0 < N)
    (hl : OperandOK (binary2dShape N oc lr rr).1 oc lr lc) (hr : OperandOK (binary2dShape N oc lr rr).1 oc rr rc)
    (i : Nat) (hi : i < binary2dSize N oc lr rr) (j : Nat) (hj : j < stepLen N (binary2dAt N oc lr lc rr rc i).1) :
    laneOff (binary2dAt N oc lr lc rr rc i).2.1 j = bcastOff lr lc oc ((binary2dAt N oc lr lc rr rc i).1.off + j)
    ∧ laneOff (binary2dAt N oc lr lc rr rc i).2.2 j = bcastOff rr rc oc ((binary2dAt N oc lr lc rr rc i).1.off + j) :=
  binary2dAt_offsets N oc lr lc rr rc hN hl hr i hi j hj

/-- the broadcast-rule offsets lie inside the operand buffer, and the written cells inside the output:
    with `binary2d_covers_once` / `binary2d_operand_offsets`, no step of the enumerator leaves a buffer -/
theorem bcastOff_in_bounds (R oc rows cols o : Nat) (hoc : 0 < oc) (hok : OperandOK R oc rows cols)
    (hrows : 0 < rows) (ho : o < R * oc) : bcastOff rows cols oc o < rows * cols :=
  bcastOff_lt R oc rows cols o hoc hok hrows ho

/-- **SIMD binary with 2-d broadcasting = NumPy broadcasting by the scalar evaluator**, at evaluator level:
    every lane count, every shape pair `(R|1, C|1)` (`OperandOK`, the `(1,1)` operand included),
    row-major operands; the result is `some _`: no load or store leaves a buffer. -/
theorem simdBinary2d_eq_scalar (N : Nat) (hN : 0 < N) (packF : List α → List α → List β) (f : α → α → β)
    (hpf : LaneWise2 N packF f) (a b : NDA α) (lr lc rr rc : Nat)
    (ha : a.shape = [lr, lc]) (hb : b.shape = [rr, rc]) (hwa : a.WF) (hwb : b.WF)
    (hra : a.colMajor = false) (hrb : b.colMajor = false)
    (hlr : 0 < lr) (hlc : 0 < lc) (hrr : 0 < rr) (hrc : 0 < rc)
    (hl : OperandOK (max lr rr) (max lc rc) lr lc) (hr : OperandOK (max lr rr) (max lc rc) rr rc)
    (out : List β) (ho : out.length = max lr rr * max lc rc) :
    simdBinary2d N packF f a.data b.data lr lc rr rc (max lc rc) out = scalarBinary2d f a b lr lc rr rc := by
  have hR : (binary2dShape N (max lc rc) lr rr).1 = max lr rr := by
    unfold binary2dShape
    simp only
    by_cases h : rr = 1
    · rw [if_pos h, h]; omega
    · rw [if_neg h]
      rcases hr.2 with h' | h'
      · exact h'
      · exact absurd h' h
  have hoc : 0 < max lc rc := by omega
  have hla : a.data.length = lr * lc := by have : a.data.length = prod a.shape := hwa; rw [this, ha]; simp [prod]
  have hlb : b.data.length = rr * rc := by have : b.data.length = prod b.shape := hwb; rw [this, hb]; simp [prod]
  -- the scalar side: the list of broadcast cells
  have hcells : ∀ k, k < max lr rr * max lc rc →
      (bcastCell f a.data b.data lr lc rr rc (max lc rc) k).isSome := by
    intro k hk
    have h1 := bcastOff_lt (max lr rr) (max lc rc) lr lc k hoc hl hlr hk
    have h2 := bcastOff_lt (max lr rr) (max lc rc) rr rc k hoc hr hrr hk
    unfold bcastCell
    rw [List.getElem?_eq_getElem (by omega), List.getElem?_eq_getElem (by omega)]
    rfl
  obtain ⟨res, hres, hlen, hcell⟩ := allSome_range _ _ hcells
  have hscalar : scalarBinary2d f a b lr lc rr rc = some res := by
    rw [← hres]
    unfold scalarBinary2d
    simp only
    apply allSome_congr
    intro k _
    unfold bcastCell bcastOff NDA.get? NDA.offset NDA.stridesOf
    rw [hra, hrb, ha, hb]
    simp only [Bool.false_eq_true, if_false, strides, prod, computeOffset, Nat.mul_one, Nat.one_mul, Nat.add_zero]
    rw [Nat.mul_comm lc, Nat.mul_comm rc]
    cases a.data[(if lr = 1 then 0 else k / max lc rc) * lc + if lc = 1 then 0 else k % max lc rc]? <;>
      cases b.data[(if rr = 1 then 0 else k / max lc rc) * rc + if rc = 1 then 0 else k % max lc rc]? <;> rfl
  rw [hscalar]
  exact simdBinary2d_eq_cells N hN packF f hpf a.data b.data lr lc rr rc (max lc rc) hoc hlr hrr
    (by rw [hR]; exact hl) (by rw [hR]; exact hr) hla hlb res (by rw [hR]; exact hlen)
    (by rw [hR]; exact hcell) out (by rw [hR]; exact ho)

/-- … and with operands of either layout (`operator()`: any column-major operand → scalar evaluator) -/
theorem simdEvalBinary2d_eq_scalar (N : Nat) (hN : 0 < N) (packF : List α → List α → List β) (f : α → α → β)
    (hpf : LaneWise2 N packF f) (a b : NDA α) (lr lc rr rc : Nat)
    (ha : a.shape = [lr, lc]) (hb : b.shape = [rr, rc]) (hwa : a.WF) (hwb : b.WF)
    (hlr : 0 < lr) (hlc : 0 < lc) (hrr : 0 < rr) (hrc : 0 < rc)
    (hl : OperandOK (max lr rr) (max lc rc) lr lc) (hr : OperandOK (max lr rr) (max lc rc) rr rc)
    (out : List β) (ho : out.length = max lr rr * max lc rc) :
    simdEvalBinary2d N packF f a b lr lc rr rc (max lc rc) out = scalarBinary2d f a b lr lc rr rc := by
  unfold simdEvalBinary2d
  cases hca : a.colMajor with
  | true => simp
  | false =>
    cases hcb : b.colMajor with
    | true => simp
    | false => simpa using simdBinary2d_eq_scalar N hN packF f hpf a b lr lc rr rc ha hb hwa hwb hca hcb hlr hlc hrr hrc hl hr out ho

/-! ## eval_reduction along the last axis (HORIZONTAL, identity padding) -/

/-- **horizontal SIMD reduction = monoid sum of every row**, for every lane count, every row length `C`
    (also not a multiple of the lane count: the last register is padded with the identity `e`) and every
    number of rows `R`, where `(R, C)` is the 2-d form `reduction_nd_reshape` gives the n-d operand; over a
    commutative monoid `(op, e)` with `e` the value the code pads and resets with (`view.op.identity()`).
    The result is `some _`: no load or store leaves a buffer. -/
theorem simdReduceHorizontal_eq_fold (N : Nat) (hN : 0 < N) (packOp : List α → List α → List α)
    (op : α → α → α) (e : α) (hm : IsCommMonoid op e) (hp : LaneWise2 N packOp op)
    (inp : List α) (outShape inpShape : List Nat) (axis R C : Nat)
    (hRC : reductionNdReshape .horizontal inpShape axis = (R, C)) (hC : 0 < C)
    (hinp : inp.length = R * C) (out : List α) (hout : out.length = R) :
    simdReduceHorizontal N packOp op e inp outShape inpShape axis out
      = some ((List.range R).map (fun i => IsCommMonoid.msum op e (rowOf inp C i))) := by
  unfold simdReduceHorizontal reductionSize
  rw [hRC]
  show Option.map _ ((List.range (R * hCs N C)).foldlM _ _) = _
  rw [foldlM_range_mul]
  have key : ∀ m, m ≤ R →
      (List.range m).foldlM (fun s i => (List.range (hCs N C)).foldlM
          (fun s j => horizStep N packOp op e inp outShape inpShape axis s (i * hCs N C + j)) s)
          (out, List.replicate N e)
        = some (((List.range R).map (fun i => IsCommMonoid.msum op e (rowOf inp C i))).take m ++ out.drop m,
                List.replicate N e) := by
    intro m
    induction m with
    | zero => intro _; simp
    | succ m ih =>
      intro hmR
      rw [List.range_succ, List.foldlM_append, ih (by omega)]
      simp only [Option.bind_eq_bind, Option.bind_some, List.foldlM_cons, List.foldlM_nil]
      have hin : m * C + C ≤ inp.length := by
        have : (m + 1) * C ≤ R * C := Nat.mul_le_mul_right C hmR
        rw [Nat.succ_mul] at this; omega
      have hpre : (((List.range R).map (fun i => IsCommMonoid.msum op e (rowOf inp C i))).take m).length = m := by
        rw [List.length_take, List.length_map, List.length_range]; omega
      rw [horiz_row N packOp op e inp outShape inpShape axis R C hm hp hRC hN hC m hin _
            (by rw [List.length_append, hpre, List.length_drop]; omega)]
      simp only [Option.bind_some, Option.pure_def, Option.some.injEq, Prod.mk.injEq, and_true]
      have hw := writeAt_prefix (((List.range R).map (fun i => IsCommMonoid.msum op e (rowOf inp C i))).take m)
        (out.drop m) (IsCommMonoid.msum op e (rowOf inp C m)) m hpre (by rw [List.length_drop]; omega)
      unfold writeAt at hw
      rw [if_pos (by rw [List.length_append, hpre, List.length_drop]; omega)] at hw
      rw [Option.some.inj hw, List.drop_drop, List.take_add]
      congr 2
      rw [List.drop_eq_getElem_cons (by rw [List.length_map, List.length_range]; omega)]
      simp
  rw [key R (Nat.le_refl R)]
  simp only [Option.map_some, Option.some.injEq]
  rw [List.take_of_length_le (by simp), List.drop_of_length_le (by omega), List.append_nil]

/-- what `simdReduceAxis` does on a row-major operand with an op that has an identity, once the (possibly
    negative) axis is normalised to `axis < dim` -/
theorem simdReduceAxis_rowMajor (N : Nat) (packOp : List α → List α → List α) (op : α → α → α) (e : α)
    (a : NDA α) (hr : a.colMajor = false) (axisI : Int) (axis : Nat) (hlt : axis < a.shape.length)
    (hax : axisI = (axis : Int) ∨ axisI = (axis : Int) - (a.shape.length : Int)) :
    simdReduceAxis N packOp op (some e) a axisI =
      if prod (keepShape a.shape axis) = 1 then (simdReduceAll N packOp op e a).map (fun r => [r])
      else if axis = a.shape.length - 1 then
        simdReduceHorizontal N packOp op e a.data (keepShape a.shape axis) a.shape axis
          (List.replicate (prod (keepShape a.shape axis)) e)
      else
        simdReduceVertical N packOp op a.data (keepShape a.shape axis) a.shape axis
          (List.replicate (prod (keepShape a.shape axis)) e) := by
  have hn : (if axisI < 0 then axisI + (a.shape.length : Int) else axisI) = (axis : Int) := by
    rcases hax with h | h
    · have : ¬ (axisI < 0) := by omega
      rw [if_neg this, h]
    · have : axisI < 0 := by omega
      rw [if_pos this, h]; omega
  unfold simdReduceAxis
  simp only [hn, hr]
  have h1 : ¬ ((axis : Int) < 0 ∨ (axis : Int) ≥ (a.shape.length : Int)) := by omega
  rw [if_neg h1]
  simp

/-- **negative axes**: `axis = k − dim` is evaluated exactly as `axis = k` (any layout, any op) -/
theorem simdReduceAxis_negative_axis (N : Nat) (packOp : List α → List α → List α) (op : α → α → α)
    (identity : Option α) (a : NDA α) (k : Nat) (hk : k < a.shape.length) :
    simdReduceAxis N packOp op identity a ((k : Int) - (a.shape.length : Int))
      = simdReduceAxis N packOp op identity a (k : Int) := by
  unfold simdReduceAxis
  have h1 : (k : Int) - (a.shape.length : Int) < 0 := by omega
  have h2 : ¬ ((k : Int) < 0) := by omega
  simp only [h1, h2, if_true, if_false]
  have : (k : Int) - (a.shape.length : Int) + (a.shape.length : Int) = (k : Int) := by omega
  rw [this]
  simp [h2]

/-- **column-major operands and ops without `identity()` (subtract) take the scalar evaluator** -/
theorem simdReduceAxis_fallback_eq_scalar (N : Nat) (packOp : List α → List α → List α) (op : α → α → α)
    (identity : Option α) (a : NDA α) (axis : Nat) (hlt : axis < a.shape.length)
    (h : a.colMajor = true ∨ identity = none) :
    simdReduceAxis N packOp op identity a (axis : Int) = scalarReduceAxis op a axis := by
  unfold simdReduceAxis
  have h2 : ¬ ((axis : Int) < 0) := by omega
  have h1 : ¬ ((axis : Int) < 0 ∨ (axis : Int) ≥ (a.shape.length : Int)) := by omega
  simp only [h2, if_false, Int.toNat_natCast]
  have h1' : ¬ (False ∨ (axis : Int) ≥ (a.shape.length : Int)) := by
    intro h'; rcases h' with h' | h'
    · exact h'
    · omega
  rw [if_neg h1']
  rcases h with h | h
  · simp [h]
  · cases a.colMajor <;> simp [h]

/-- **n-d reduction over the last axis (written `dim−1` or `−1`): `eval_reduction` = the scalar reference**
    `scalarReduceAxis` on the n-d operand, for every rank, every extent `C` of the reduced axis and every lane count,
    over a commutative monoid whose identity is the one the code pads with; row-major operand with more than one
    output element (one output element is the `out_size == 1` path, `simdReduceAll_eq_fold`). -/
theorem simdReduceAxis_lastAxis_eq_scalar (N : Nat) (hN : 0 < N) (packOp : List α → List α → List α)
    (op : α → α → α) (e : α) (hm : IsCommMonoid op e) (hp : LaneWise2 N packOp op)
    (a : NDA α) (pre : List Nat) (C : Nat) (hsh : a.shape = pre ++ [C]) (hw : a.WF) (hr : a.colMajor = false)
    (hpos : Pos pre) (hC : 0 < C) (hout : prod pre ≠ 1)
    (axisI : Int) (hax : axisI = -1 ∨ axisI = (pre.length : Int)) :
    simdReduceAxis N packOp op (some e) a axisI = scalarReduceAxis op a pre.length := by
  have hlen : a.data.length = prod pre * C := by
    have : a.data.length = prod a.shape := hw
    rw [this, hsh, prod_snoc]
  have hdim : a.shape.length = pre.length + 1 := by rw [hsh]; simp
  have hkeep : keepShape a.shape pre.length = pre ++ [1] := by
    unfold keepShape; rw [hsh]; exact set_snoc pre C 1
  have hRC : reductionNdReshape .horizontal a.shape pre.length = (prod pre, C) := by
    unfold reductionNdReshape
    simp only [hdim, Nat.add_sub_cancel]
    rw [hsh]
    by_cases h1 : pre.length + 1 = 1
    · have : pre = [] := by cases pre with
        | nil => rfl
        | cons _ _ => simp at h1
      subst this; simp [prod]
    · rw [if_neg h1]; simp
  rw [simdReduceAxis_rowMajor N packOp op e a hr axisI pre.length (by omega)
        (by rcases hax with h | h
            · right; rw [h, hdim]; omega
            · left; exact h)]
  rw [hkeep, prod_snoc, Nat.mul_one, if_neg hout, if_pos (by omega)]
  rw [simdReduceHorizontal_eq_fold N hN packOp op e hm hp a.data (pre ++ [1]) a.shape pre.length (prod pre) C hRC hC hlen
        (List.replicate (prod pre) e) (by simp)]
  rw [scalarReduceAxis_lastAxis op e hm a pre C hsh hw hr hpos hC]

/-- the monoid sum of a non-empty row is the scalar evaluator's left fold from its first element -/
theorem msum_eq_scalar_fold (op : α → α → α) (e : α) (hm : IsCommMonoid op e) (x : α) (xs : List α) :
    IsCommMonoid.msum op e (x :: xs) = xs.foldl op x := by
  show (x :: xs).foldl op e = xs.foldl op x
  rw [List.foldl_cons, hm.id_left]

/-! ## eval_reduction along an axis other than the last (VERTICAL) -/

/-- **vertical SIMD reduction = the lane-free scalar accumulation loop** `for i < R: out_row(i / A) ⊕= inp_row(i)`,
    for every lane count, every row length `C` (registers, then `C mod N` single cells), every `Ro`, `A`;
    `(R, C)` / `(Ro, C)` are the 2-d forms `reduction_nd_reshape` gives operand and (keepdims-shaped) output,
    `R = Ro·A` with `A` the reduced extent.  Needs no algebraic law at all; the result is `some _`:
    no load or store leaves a buffer. -/
theorem simdReduceVertical_eq_loop (N : Nat) (hN : 0 < N) (packOp : List α → List α → List α)
    (op : α → α → α) (hp : LaneWise2 N packOp op)
    (inp : List α) (outShape inpShape : List Nat) (axis R C Ro A : Nat)
    (hA : 0 < A) (hRo : 0 < Ro) (hR : R = Ro * A)
    (hRC : reductionNdReshape .vertical inpShape axis = (R, C))
    (hOut : reductionNdReshape .vertical outShape axis = (Ro, C))
    (hinp : inp.length = R * C) (out : List α) (hout : out.length = Ro * C) :
    simdReduceVertical N packOp op inp outShape inpShape axis out = some (vloop op inp C A out R) := by
  unfold simdReduceVertical reductionSize
  rw [hRC]
  show (List.range (R * vCs N C)).foldlM _ _ = _
  rw [foldlM_range_mul]
  have key : ∀ m, m ≤ R →
      (List.range m).foldlM (fun s i => (List.range (vCs N C)).foldlM
          (fun s j => vertStep N packOp op inp outShape inpShape axis s (i * vCs N C + j)) s) out
        = some (vloop op inp C A out m) := by
    intro m
    induction m with
    | zero => intro _; simp [vloop]
    | succ m ih =>
      intro hm
      rw [List.range_succ, List.foldlM_append, ih (by omega)]
      simp only [Option.bind_eq_bind, Option.bind_some, List.foldlM_cons, List.foldlM_nil]
      rw [vert_row N packOp op inp outShape inpShape axis R C Ro A hp hN hA hRo hR hRC hOut m (by omega) hinp _
            (vloop_length op inp C A Ro R out hA hR hinp hout m (by omega))]
      simp [vloop_succ]
  exact key R (Nat.le_refl R)

/-- **… and every output row is the column-wise left fold of the `A` input rows it reduces**, starting from the
    row the output was pre-filled with (the identity): `simdReduce_eq_fold`, vertical case. -/
theorem simdReduceVertical_eq_fold (N : Nat) (hN : 0 < N) (packOp : List α → List α → List α)
    (op : α → α → α) (hp : LaneWise2 N packOp op)
    (inp : List α) (outShape inpShape : List Nat) (axis R C Ro A : Nat)
    (hA : 0 < A) (hRo : 0 < Ro) (hR : R = Ro * A)
    (hRC : reductionNdReshape .vertical inpShape axis = (R, C))
    (hOut : reductionNdReshape .vertical outShape axis = (Ro, C))
    (hinp : inp.length = R * C) (out : List α) (hout : out.length = Ro * C) :
    ∃ res, simdReduceVertical N packOp op inp outShape inpShape axis out = some res ∧ res.length = Ro * C ∧
      ∀ ρ, ρ < Ro → rowOf res C ρ
        = (List.range A).foldl (fun acc a => List.zipWith op acc (rowOf inp C (ρ * A + a))) (rowOf out C ρ) := by
  refine ⟨vloop op inp C A out R,
    simdReduceVertical_eq_loop N hN packOp op hp inp outShape inpShape axis R C Ro A hA hRo hR hRC hOut hinp out hout,
    vloop_length op inp C A Ro R out hA hR hinp hout R (Nat.le_refl R), ?_⟩
  intro ρ hρ
  rw [vloop_row op inp C A Ro R out hA hR hinp hout R (Nat.le_refl R) ρ hρ]
  have : min A (R - ρ * A) = A := by
    have h1 : (ρ + 1) * A ≤ Ro * A := Nat.mul_le_mul_right A hρ
    rw [Nat.succ_mul] at h1
    omega
  rw [this]

/-- a row pre-filled with a left identity absorbs the first input row unchanged: the fold above is then the scalar
    evaluator's "first element, then `op(acc, x)`" on every column -/
theorem zipWith_identity_row (op : α → α → α) (e : α) (hid : ∀ a, op e a = a) (row : List α) :
    List.zipWith op (List.replicate row.length e) row = row := by
  induction row with
  | nil => rfl
  | cons x xs ih => simp [List.replicate_succ, hid, ih]

/-- **n-d reduction over a non-last axis through `eval_reduction`**: for an operand of shape `pre ++ [A] ++ post`
    (`post ≠ []`, any ranks) reduced over the axis of extent `A`, the dispatcher takes the VERTICAL path with the 2-d forms
    `(prod pre · A, prod post)` / `(prod pre, prod post)`, never leaves a buffer, and row `ρ` of the result (row length
    `prod post`) is the column-wise left fold, from the identity row, of buffer rows `ρ·A … ρ·A + A − 1`. -/
theorem simdReduceAxis_nonLastAxis_eq_fold (N : Nat) (hN : 0 < N) (packOp : List α → List α → List α)
    (op : α → α → α) (e : α) (hp : LaneWise2 N packOp op)
    (a : NDA α) (pre post : List Nat) (A : Nat) (hsh : a.shape = pre ++ A :: post) (hpost : post ≠ []) (hw : a.WF)
    (hr : a.colMajor = false) (hA : 0 < A) (hpre : 0 < prod pre) (hout : prod pre * prod post ≠ 1) :
    ∃ res, simdReduceAxis N packOp op (some e) a (pre.length : Int) = some res ∧ res.length = prod pre * prod post ∧
      ∀ ρ, ρ < prod pre → rowOf res (prod post) ρ
        = (List.range A).foldl (fun acc k => List.zipWith op acc (rowOf a.data (prod post) (ρ * A + k)))
            (List.replicate (prod post) e) := by
  have hdim : a.shape.length = pre.length + 1 + post.length := by rw [hsh]; simp; omega
  have hpl : 0 < post.length := by cases post with
    | nil => exact absurd rfl hpost
    | cons _ _ => simp
  have hlen : a.data.length = (prod pre * A) * prod post := by
    have : a.data.length = prod a.shape := hw
    rw [this, hsh, prod_append]; simp [prod, Nat.mul_assoc]
  have hkeep : keepShape a.shape pre.length = pre ++ 1 :: post := by
    unfold keepShape; rw [hsh]; simp
  have hRC : reductionNdReshape .vertical a.shape pre.length = (prod pre * A, prod post) := by
    unfold reductionNdReshape
    have h1 : ¬ (a.shape.length = 1) := by omega
    simp only [h1, if_false]
    rw [hsh]
    have t1 : (pre ++ A :: post).take (pre.length + 1) = pre ++ [A] := by
      rw [List.take_append]; simp [List.take_of_length_le]
    have t2 : (pre ++ A :: post).drop (pre.length + 1) = post := by
      rw [List.drop_append]; simp
    rw [t1, t2, prod_snoc]
  have hOut : reductionNdReshape .vertical (pre ++ 1 :: post) pre.length = (prod pre, prod post) := by
    unfold reductionNdReshape
    have h1 : ¬ ((pre ++ 1 :: post).length = 1) := by simp; omega
    simp only [h1, if_false]
    have t1 : (pre ++ 1 :: post).take (pre.length + 1) = pre ++ [1] := by
      rw [List.take_append]; simp [List.take_of_length_le]
    have t2 : (pre ++ 1 :: post).drop (pre.length + 1) = post := by
      rw [List.drop_append]; simp
    rw [t1, t2, prod_snoc, Nat.mul_one]
  have hprodk : prod (pre ++ 1 :: post) = prod pre * prod post := by rw [prod_append]; simp [prod]
  obtain ⟨res, h1, h2, h3⟩ := simdReduceVertical_eq_fold N hN packOp op hp a.data (pre ++ 1 :: post) a.shape pre.length
    (prod pre * A) (prod post) (prod pre) A hA hpre rfl hRC hOut hlen
    (List.replicate (prod pre * prod post) e) (by simp)
  refine ⟨res, ?_, h2, ?_⟩
  · rw [simdReduceAxis_rowMajor N packOp op e a hr (pre.length : Int) pre.length (by omega) (Or.inl rfl)]
    rw [hkeep, hprodk, if_neg hout, if_neg (by omega)]
    exact h1
  · intro ρ hρ
    rw [h3 ρ hρ]
    congr 1
    unfold rowOf
    have hb : ρ * prod post + prod post ≤ prod pre * prod post := by
      have : (ρ + 1) * prod post ≤ prod pre * prod post := Nat.mul_le_mul_right _ hρ
      rw [Nat.succ_mul] at this; exact this
    rw [List.drop_replicate, List.take_replicate]
    congr 1
    omega

/-- **n-d reduction over a non-last axis: `eval_reduction` = the scalar reference** `scalarReduceAxis` on the n-d operand,
    cell by cell: the row-wise column fold of `simdReduceAxis_nonLastAxis_eq_fold` is, through the mixed-radix decomposition
    of `ndindex (pre ++ 1 :: post)`, the left fold of `a[I, 0..A-1, J]` from its first element.  No re-association happens on
    this path: only `e ⊕ x = x` is used (weaker than the commutative-monoid hypothesis of the last axis). -/
theorem simdReduceAxis_nonLastAxis_eq_scalar (N : Nat) (hN : 0 < N) (packOp : List α → List α → List α)
    (op : α → α → α) (e : α) (hid : ∀ x, op e x = x) (hp : LaneWise2 N packOp op)
    (a : NDA α) (pre post : List Nat) (A : Nat) (hsh : a.shape = pre ++ A :: post) (hpost : post ≠ []) (hw : a.WF)
    (hr : a.colMajor = false) (hposPre : Pos pre) (hposPost : Pos post) (hA : 0 < A) (hout : prod pre * prod post ≠ 1) :
    simdReduceAxis N packOp op (some e) a (pre.length : Int) = scalarReduceAxis op a pre.length := by
  obtain ⟨res, h1, h2, h3⟩ := simdReduceAxis_nonLastAxis_eq_fold N hN packOp op e hp a pre post A hsh hpost hw hr hA
    (prod_pos hposPre) hout
  have hlen : a.data.length = prod pre * A * prod post := by
    have : a.data.length = prod a.shape := hw
    rw [this, hsh, prod_mid]
  rw [h1, scalarReduceAxis_cells op a pre post A hsh hr hposPre hposPost]
  exact (axisCells_of_rowFold op e hid a.data res (prod pre) A (prod post) hA (prod_pos hposPost) hlen h2 h3).symm

/-- **SIMD reduction over ANY axis = the scalar reference**, for every rank, every shape with positive extents, every
    axis `0 ≤ axis < dim` written either way (`axis` or `axis − dim`), every lane count, operands of either layout, ops with
    or without `identity()`; where the op has an identity `e` (the value the code pads / pre-fills / starts with),
    `(op, e)` is a commutative monoid — "equal up to re-association of the reduction".  The buffer is the row-major
    keepdims-shaped result (the same buffer serves `keepdims=false`, see `simdReduceAxisK_eq_scalar`). -/
theorem simdReduceAxis_eq_scalar (N : Nat) (hN : 0 < N) (packOp : List α → List α → List α)
    (op : α → α → α) (identity : Option α) (hm : ∀ e, identity = some e → IsCommMonoid op e)
    (hp : LaneWise2 N packOp op) (a : NDA α) (hw : a.WF) (hs : Pos a.shape) (axis : Nat) (hlt : axis < a.shape.length)
    (axisI : Int) (hax : axisI = (axis : Int) ∨ axisI = (axis : Int) - (a.shape.length : Int)) :
    simdReduceAxis N packOp op identity a axisI = scalarReduceAxis op a axis := by
  -- the written axis
  have hnorm : simdReduceAxis N packOp op identity a axisI = simdReduceAxis N packOp op identity a (axis : Int) := by
    rcases hax with h | h
    · rw [h]
    · rw [h]; exact simdReduceAxis_negative_axis N packOp op identity a axis hlt
  rw [hnorm]
  cases hc : a.colMajor with
  | true => exact simdReduceAxis_fallback_eq_scalar N packOp op identity a axis hlt (Or.inl hc)
  | false =>
  cases hi : identity with
  | none => exact simdReduceAxis_fallback_eq_scalar N packOp op none a axis hlt (Or.inr rfl)
  | some e =>
  have hme := hm e hi
  obtain ⟨pre, A, post, hsh, hpl⟩ : ∃ pre A post, a.shape = pre ++ A :: post ∧ pre.length = axis :=
    ⟨a.shape.take axis, a.shape[axis], a.shape.drop (axis + 1),
     by rw [List.getElem_cons_drop, List.take_append_drop], by rw [List.length_take]; omega⟩
  subst hpl
  have hposPre : Pos pre := fun x hx => hs x (by rw [hsh]; simp [hx])
  have hposPost : Pos post := fun x hx => hs x (by rw [hsh]; simp [hx])
  have hA : 0 < A := hs A (by rw [hsh]; simp)
  by_cases hout : prod pre * prod post = 1
  · -- one output element
    rw [simdReduceAxis_rowMajor N packOp op e a hc (pre.length : Int) pre.length hlt (Or.inl rfl)]
    have hk : prod (keepShape a.shape pre.length) = 1 := by
      unfold keepShape; rw [hsh, shape_set_mid, prod_mid]; simpa using hout
    rw [if_pos hk, simdReduceAll_eq_fold N hN packOp op e hme hp a hw hc hs,
        scalarReduceAxis_outSize1 op a pre post A hsh hw hc hposPre hposPost hA hout]
  · by_cases hpost : post = []
    · subst hpost
      have hout' : prod pre ≠ 1 := by simpa [prod] using hout
      exact simdReduceAxis_lastAxis_eq_scalar N hN packOp op e hme hp a pre A hsh hw hc hposPre hA hout'
        (pre.length : Int) (Or.inr rfl)
    · exact simdReduceAxis_nonLastAxis_eq_scalar N hN packOp op e hme.id_left hp a pre post A hsh hpost hw hc
        hposPre hposPost hA hout

/-- **keepdims both ways**: what `eval_reduction` feeds the enumerators for `keepdims=false`,
    `insert_index(shape without axis, 1, axis)`, is the keepdims shape — the evaluator's loops do not depend on the flag -/
theorem reduce_keepdims_normalised (shape : List Nat) (axis : Nat) (h : axis < shape.length) (keep : Bool) :
    normOutShape (reduceOutShape shape axis keep) axis keep = keepShape shape axis :=
  normOutShape_reduceOutShape shape axis h keep

/-- … and the NumPy reference buffer does not depend on it either (operand of either layout) -/
theorem scalarReduce_keepdims_same_buffer (op : α → α → α) (a : NDA α) (axis : Nat) (h : axis < a.shape.length) (keep : Bool) :
    scalarReduceAxisK op a axis keep = scalarReduceAxis op a axis := scalarReduceAxisK_eq op a axis h keep

/-- **SIMD reduction over any axis, `keepdims` on or off = NumPy `op.reduce(a, axis, keepdims)`** as the scalar evaluator
    computes it: same shape (`reduceOutShape`), same row-major buffer; hypotheses as `simdReduceAxis_eq_scalar`. -/
theorem simdReduceAxisK_eq_scalar (N : Nat) (hN : 0 < N) (packOp : List α → List α → List α)
    (op : α → α → α) (identity : Option α) (hm : ∀ e, identity = some e → IsCommMonoid op e)
    (hp : LaneWise2 N packOp op) (a : NDA α) (hw : a.WF) (hs : Pos a.shape) (axis : Nat) (hlt : axis < a.shape.length)
    (axisI : Int) (hax : axisI = (axis : Int) ∨ axisI = (axis : Int) - (a.shape.length : Int)) (keep : Bool) :
    simdReduceAxisK N packOp op identity a axisI keep
      = (scalarReduceAxisK op a axis keep).map (fun b => (reduceOutShape a.shape axis keep, b)) := by
  rw [simdReduceAxisK_eq N packOp op identity a axis hlt axisI hax keep,
      simdReduceAxis_eq_scalar N hN packOp op identity hm hp a hw hs axis hlt axisI hax,
      scalarReduceAxisK_eq op a axis hlt keep]

/-! ## eval_outer: the enumerator, operands of any rank -/

/-- **every output cell of `op.outer(lhs, rhs)` is written exactly once, in order**: the blocks the successive steps of
    `outer_simd_enumerator` write (a register for PACKED, `N − k` scalars for `PAD_k`) concatenate to
    `0 … prod(lhs ++ rhs) − 1`, for operands of any rank and every last extent `n` (also not a multiple of `N`).
    (`lhs ++ rhs = pre ++ [n]` just names the last extent of the result.) -/
theorem outer_covers_once (N : Nat) (hN : 0 < N) (lhs rhs pre : List Nat) (n : Nat)
    (hsh : lhs ++ rhs = pre ++ [n]) (hpos : Pos pre) :
    (List.range (outerSize N (lhs ++ rhs) lhs rhs)).flatMap (fun i =>
        List.range' (outerAt N (lhs ++ rhs) lhs rhs i).1.off (outerLen N (outerAt N (lhs ++ rhs) lhs rhs i).1))
      = List.range (prod (lhs ++ rhs)) := by
  have hsz : outerSize N (lhs ++ rhs) lhs rhs = prod pre * oCs N n := by
    unfold outerSize; rw [outerSimdShape_eq N _ lhs rhs pre n hsh hsh, prod_snoc]
  have h := (outer_contig N (lhs ++ rhs) lhs rhs pre n hN hsh hsh hpos (prod pre) (Nat.le_refl _)).blocks
  simp only [Nat.sub_zero] at h
  rw [hsz, h, hsh, prod_snoc, ← List.range_eq_range']

/-- **the lhs / rhs offsets of every enumerator step are the outer-product operands**: lane `j` of step `i` writes output cell
    `o = out.off + j`; the (always broadcast) lhs element of the step is `lhs[o / |rhs|]` and the rhs element of that lane is
    `rhs[o % |rhs|]` — NumPy `op.outer` on row-major buffers — for operands of any rank (rhs of rank ≥ 1), every last extent
    (also not a multiple of `N`) and all three rank-dependent branches of `outer_simd` (`dim == 1`, `== 2`, general). -/
theorem outer_operand_offsets (N : Nat) (hN : 0 < N) (lhs rhs : List Nat) (hposL : Pos lhs) (hposR : Pos rhs) (hne : rhs ≠ [])
    (i : Nat) (hi : i < outerSize N (lhs ++ rhs) lhs rhs)
    (j : Nat) (hj : j < outerLen N (outerAt N (lhs ++ rhs) lhs rhs i).1) :
    (outerAt N (lhs ++ rhs) lhs rhs i).2.1.off = ((outerAt N (lhs ++ rhs) lhs rhs i).1.off + j) / prod rhs
    ∧ (outerAt N (lhs ++ rhs) lhs rhs i).2.2.off + j = ((outerAt N (lhs ++ rhs) lhs rhs i).1.off + j) % prod rhs := by
  obtain ⟨rpre, n, rfl⟩ : ∃ rpre n, rhs = rpre ++ [n] := ⟨rhs.dropLast, rhs.getLast hne, (List.dropLast_concat_getLast hne).symm⟩
  have hposR' : Pos rpre := fun x hx => hposR x (by simp [hx])
  have hsz : outerSize N (lhs ++ (rpre ++ [n])) lhs (rpre ++ [n]) = prod (lhs ++ rpre) * oCs N n := by
    unfold outerSize
    rw [outerSimdShape_eq N _ lhs (rpre ++ [n]) (lhs ++ rpre) n (by simp) (by simp), prod_snoc]
  rw [hsz] at hi
  exact outerAt_operand_lanes N hN lhs rpre n hposL hposR' i hi j hj

/-- **SIMD outer = the scalar evaluator's outer product** `out[i ++ j] = f(a[i], b[j])`, at evaluator level: every lane count,
    operands of any rank (`b` of rank ≥ 1) and any positive extents, row-major; the result is `some _`: no load or store
    leaves a buffer. -/
theorem simdOuter_eq_scalar (N : Nat) (hN : 0 < N) (packF : List α → List α → List β) (f : α → α → β)
    (hpf : LaneWise2 N packF f) (a b : NDA α) (hwa : a.WF) (hwb : b.WF)
    (hra : a.colMajor = false) (hrb : b.colMajor = false) (hsa : Pos a.shape) (hsb : Pos b.shape) (hne : b.shape ≠ [])
    (out : List β) (ho : out.length = prod (a.shape ++ b.shape)) :
    simdOuter N packF f a.data b.data (a.shape ++ b.shape) a.shape b.shape out = scalarOuter f a b := by
  obtain ⟨rpre, n, hb⟩ : ∃ rpre n, b.shape = rpre ++ [n] :=
    ⟨b.shape.dropLast, b.shape.getLast hne, (List.dropLast_concat_getLast hne).symm⟩
  have hposR : Pos rpre := fun x hx => hsb x (by rw [hb]; simp [hx])
  have hn : 0 < n := hsb n (by rw [hb]; simp)
  have hY : b.data.length = prod rpre * n := by
    have : b.data.length = prod b.shape := hwb
    rw [this, hb, prod_snoc]
  unfold scalarOuter
  rw [logical_rowMajor a hwa hra hsa, logical_rowMajor b hwb hrb hsb]
  rw [hb] at ho ⊢
  exact simdOuter_eq_cells N hN packF f hpf a.data b.data a.shape rpre n hsa hposR hn hwa hY out
    (by rw [ho, prod_append, prod_snoc])

/-- … and with operands of either layout (`operator()`: any column-major operand → scalar evaluator) -/
theorem simdEvalOuter_eq_scalar (N : Nat) (hN : 0 < N) (packF : List α → List α → List β) (f : α → α → β)
    (hpf : LaneWise2 N packF f) (a b : NDA α) (hwa : a.WF) (hwb : b.WF)
    (hsa : Pos a.shape) (hsb : Pos b.shape) (hne : b.shape ≠ [])
    (out : List β) (ho : out.length = prod (a.shape ++ b.shape)) :
    simdEvalOuter N packF f a b out = scalarOuter f a b := by
  unfold simdEvalOuter
  cases hca : a.colMajor with
  | true => simp
  | false =>
    cases hcb : b.colMajor with
    | true => simp
    | false => simpa using simdOuter_eq_scalar N hN packF f hpf a b hwa hwb hca hcb hsa hsb hne out ho

/-! ## eval_matmul: the inner enumerator -/

/-- **the inner steps of every output element read its lhs row and its rhs column exactly once**: for output offset
    `o` of the `(M, Nn)` result, the lhs blocks of the steps (a register for PACKED, `N − k` elements for `PAD_k`)
    concatenate to `[o/Nn·K, o/Nn·K + K)` (row `o/Nn` of the row-major lhs) and the rhs blocks to
    `[o%Nn·K, o%Nn·K + K)` (column `o%Nn` of the column-major rhs), for every inner extent `K` and lane count. -/
theorem matmul_inner_covers_once (N K Nn o : Nat) (hN : 0 < N) :
    (List.range (matmulInnerSize N K)).flatMap (fun s =>
        List.range' (matmulInner N o s Nn K).2.1.off (outerLen N (matmulInner N o s Nn K).2.1))
      = List.range' (o / Nn * K) K
    ∧ (List.range (matmulInnerSize N K)).flatMap (fun s =>
        List.range' (matmulInner N o s Nn K).2.2.off (outerLen N (matmulInner N o s Nn K).2.2))
      = List.range' (o % Nn * K) K := by
  constructor
  · have h := (padded_row_contig N K (o / Nn * K) hN (fun s => (matmulInner N o s Nn K).2.1)
      (fun s _ => by simp [matmulInner])).blocks
    simp only [Nat.add_sub_cancel_left] at h
    exact h
  · have h := (padded_row_contig N K (o % Nn * K) hN (fun s => (matmulInner N o s Nn K).2.2)
      (fun s _ => by simp [matmulInner])).blocks
    simp only [Nat.add_sub_cancel_left] at h
    exact h

/-- **the order / association of `eval_matmul`, stated explicitly, and no buffer left**: output element `o` of the
    `(M, Nn)` result is `matmulCell`: the left-to-right horizontal sum (`add`) of `N` lane accumulators, lane `l` being
    the chain `fma(row[sN+l], col[sN+l], ·)` over the registers `s = 0 … ⌈K/N⌉−1` of row `o / Nn` of the row-major lhs and
    column `o % Nn` of the column-major rhs, both zero-padded to a multiple of `N`, started from `0` — exactly the `K`
    elements of that row and column, for every `K > 0`, `M`, `Nn` and lane count.  No algebraic law is used: this is
    what the code computes also in floating point, PROVIDED the `fmadd` intrinsic is lane-wise `fma` (with its own,
    single rounding — the rounding itself is outside the model). -/
theorem simdMatmul_eq_laneSums (N : Nat) (hN : 0 < N) (fma : α → α → α → α) (add : α → α → α) (zero : α)
    (lhs rhs : List α) (M K Nn : Nat) (hK : 0 < K) (hl : lhs.length = M * K) (hr : rhs.length = Nn * K)
    (out : List α) (ho : out.length = M * Nn) :
    simdMatmul N fma add zero lhs rhs M K Nn out = matmulRef fma add zero N lhs rhs M K Nn
    ∧ (matmulRef fma add zero N lhs rhs M K Nn).isSome :=
  simdMatmul_eq_ref N hN fma add zero lhs rhs M K Nn hK hl hr out ho

/-- **SIMD matmul element `(i,j)` = Σ_{k<K} lhs[i,k]·rhs[k,j]** (the scalar reference `scalarMatmul`: the `K` products folded
    left to right from `0`), in exact arithmetic: `(add, 0)` a commutative monoid (the lane-strided re-association),
    `fma x y z = x·y + z` (a hardware `fmadd` rounds once instead of twice: outside the model) and `0·0 = 0` (padding lanes). -/
theorem simdMatmul_eq_scalar (N : Nat) (hN : 0 < N) (fma : α → α → α → α) (mul add : α → α → α) (zero : α)
    (hm : IsCommMonoid add zero) (hfma : ∀ x y z, fma x y z = add (mul x y) z) (hz : mul zero zero = zero)
    (lhs rhs : List α) (M K Nn : Nat) (hK : 0 < K) (hl : lhs.length = M * K) (hr : rhs.length = Nn * K)
    (out : List α) (ho : out.length = M * Nn) :
    simdMatmul N fma add zero lhs rhs M K Nn out = scalarMatmul mul add zero lhs rhs M K Nn :=
  simdMatmul_eq_scalar' hm fma mul hfma hz N hN lhs rhs M K Nn hK hl hr out ho

/-- **`operator()` on a matmul view, with an effective layout test on the lhs (the tree after
    fixes/C12-matmul-lhs-layout-fallback.diff) = the n-d reference** `out[m,n] = Σ_k a[m,k]·b[k,n]` for every operand pair that
    is a program: a column-major lhs (any rhs) is handed to the scalar evaluator, a row-major lhs with a column-major rhs
    goes through `eval_matmul` (a row-major rhs under a row-major lhs is rejected at compile time). -/
theorem simdEvalMatmul_repaired_eq_scalar (N : Nat) (hN : 0 < N) (fma : α → α → α → α) (mul add : α → α → α) (zero : α)
    (hm : IsCommMonoid add zero) (hfma : ∀ x y z, fma x y z = add (mul x y) z) (hz : mul zero zero = zero)
    (a b : NDA α) (M K Nn : Nat) (ha : a.shape = [M, K]) (hb : b.shape = [K, Nn]) (hwa : a.WF) (hwb : b.WF) (hK : 0 < K)
    (hprog : a.colMajor = true ∨ b.colMajor = true) (out : List α) (ho : out.length = M * Nn) :
    simdEvalMatmulWith true N fma mul add zero a b M K Nn out = scalarMatmulNDA mul add zero a b M K Nn := by
  unfold simdEvalMatmulWith
  cases hca : a.colMajor with
  | true => simp
  | false =>
    have hcb : b.colMajor = true := by
      rcases hprog with h | h
      · rw [hca] at h; cases h
      · exact h
    have hla : a.data.length = M * K := by
      have : a.data.length = prod a.shape := hwa
      rw [this, ha]; simp [prod]
    have hlb : b.data.length = Nn * K := by
      have : b.data.length = prod b.shape := hwb
      rw [this, hb]; simp [prod, Nat.mul_comm]
    simp only [hcb, Bool.and_false, Bool.false_eq_true, if_false, if_true]
    rw [simdMatmul_eq_scalar N hN fma mul add zero hm hfma hz a.data b.data M K Nn hK hla hlb out ho,
        scalarMatmulNDA_rowCol mul add zero a b M K Nn ha hb hca hcb]

/-- **`operator()` on a matmul view, the tree as it is = the n-d reference on the operand pair `eval_matmul` is written for**:
    row-major lhs, column-major rhs.  (For a column-major lhs the repaired `operator()` falls back to the scalar evaluator:
    `simdEvalMatmul_repaired_eq_scalar`, instance `simdEvalMatmul_colMajorLhs_regression`.) -/
theorem simdEvalMatmul_eq_scalar (N : Nat) (hN : 0 < N) (fma : α → α → α → α) (mul add : α → α → α) (zero : α)
    (hm : IsCommMonoid add zero) (hfma : ∀ x y z, fma x y z = add (mul x y) z) (hz : mul zero zero = zero)
    (a b : NDA α) (M K Nn : Nat) (ha : a.shape = [M, K]) (hb : b.shape = [K, Nn]) (hwa : a.WF) (hwb : b.WF) (hK : 0 < K)
    (hra : a.colMajor = false) (hcb : b.colMajor = true) (out : List α) (ho : out.length = M * Nn) :
    simdEvalMatmul N fma mul add zero a b M K Nn out = scalarMatmulNDA mul add zero a b M K Nn := by
  have hla : a.data.length = M * K := by
    have : a.data.length = prod a.shape := hwa
    rw [this, ha]; simp [prod]
  have hlb : b.data.length = Nn * K := by
    have : b.data.length = prod b.shape := hwb
    rw [this, hb]; simp [prod, Nat.mul_comm]
  unfold simdEvalMatmul simdEvalMatmulWith
  simp only [hra, hcb, Bool.and_false, Bool.false_eq_true, if_false, if_true]
  rw [simdMatmul_eq_scalar N hN fma mul add zero hm hfma hz a.data b.data M K Nn hK hla hlb out ho,
      scalarMatmulNDA_rowCol mul add zero a b M K Nn ha hb hra hcb]

/-- **regression guard for the repaired defect matmul.column-major-lhs** (fix commit 8eebbc3): with a column-major lhs
    `operator()` falls back to the scalar evaluator; both operands with buffer `1..6` in column-major layout
    (`a = [[1,3,5],[2,4,6]]`, `b = [[1,4],[2,5],[3,6]]`) give `a·b = [22,49,28,64]`.  Before the repair the layout test never
    fired (`simdEvalMatmulWith false`): `eval_matmul` read the lhs buffer as if it were row-major and gave `[14,32,32,77]`. -/
theorem simdEvalMatmul_colMajorLhs_regression :
    simdEvalMatmul 2 (fun x y z => x * y + z) (· * ·) (· + ·) (0 : Int) ⟨[2,3], true, [1,2,3,4,5,6]⟩ ⟨[3,2], true, [1,2,3,4,5,6]⟩
        2 3 2 [0,0,0,0]
      = scalarMatmulNDA (· * ·) (· + ·) (0 : Int) ⟨[2,3], true, [1,2,3,4,5,6]⟩ ⟨[3,2], true, [1,2,3,4,5,6]⟩ 2 3 2
    ∧ simdEvalMatmulWith false 2 (fun x y z => x * y + z) (· * ·) (· + ·) (0 : Int) ⟨[2,3], true, [1,2,3,4,5,6]⟩ ⟨[3,2], true, [1,2,3,4,5,6]⟩
        2 3 2 [0,0,0,0]
      ≠ scalarMatmulNDA (· * ·) (· + ·) (0 : Int) ⟨[2,3], true, [1,2,3,4,5,6]⟩ ⟨[3,2], true, [1,2,3,4,5,6]⟩ 2 3 2 := by decide

/-! non-vacuity -/
example : LaneWise1 4 (fun xs : List Nat => xs.map (· + 1)) (· + 1) := fun _ _ => rfl
example : (⟨[2,5], false, List.range 10⟩ : NDA Nat).WF ∧ Pos [2,5] := ⟨by simp [NDA.WF, prod], by decide⟩
example : simdUnary 4 (fun xs => xs.map (· + 1)) (· + 1) ⟨[2,5], false, List.range 10⟩ (List.replicate 10 0)
    = some ((List.range 10).map (· + 1)) := by decide
example : packedStarts 4 10 = [0,4] ∧ tailIdx 4 10 = [8,9] := by decide
example : IsCommMonoid (· + ·) (0 : Int) := ⟨Int.add_assoc, Int.add_comm, Int.zero_add⟩
example : IsCommMonoid (· * ·) (1 : Int) := ⟨Int.mul_assoc, Int.mul_comm, Int.one_mul⟩
example : LaneWise2 4 (List.zipWith (· + ·)) (fun a b : Int => a + b) := fun _ _ _ _ => rfl
example : reductionNdReshape .horizontal [2,3,5] 2 = (6, 5) ∧ reductionNdReshape .vertical [2,3,5] 1 = (6, 5)
    ∧ reductionNdReshape .vertical [2,1,5] 1 = (2, 5) := by decide
example : simdReduceHorizontal 4 (List.zipWith (· + ·)) (· + ·) (0 : Int) [1,2,3,4,5,6,7,8,9,10] [2,1] [2,5] 1 [0,0]
    = some [15, 40] := by decide
example : simdReduceVertical 4 (List.zipWith (· + ·)) (· + ·) [1,2,3,4,5,6,7,8,9,10,11,12] [1,6] [2,6] 0 (List.replicate 6 (0 : Int))
    = some [8,10,12,14,16,18] := by decide
example : outerSize 4 [2,3,6] [2] [3,6] = 12 ∧ (outerAt 4 [2,3,6] [2] [3,6] 3).1 = ⟨Tag.PAD 2, 10⟩ := by decide
example : OperandOK 3 5 1 5 ∧ OperandOK 3 5 3 1 ∧ OperandOK 3 5 1 1 :=
  ⟨⟨Or.inl rfl, Or.inr rfl⟩, ⟨Or.inr rfl, Or.inl rfl⟩, ⟨Or.inr rfl, Or.inr rfl⟩⟩
example : simdBinary2d 4 (List.zipWith (· + ·)) (· + ·) [1,2,3,4,5,6] [100] 3 2 1 1 2 (List.replicate 6 (0 : Int))
    = some [101,102,103,104,105,106] := by decide
example : simdEvalUnary 2 (fun xs => xs.map (· + 100)) (· + 100) ⟨[2,2], true, [0,1,2,3]⟩ [0,0,0,0]
    = some [100,102,101,103] := by decide
example : simdBinary2d 4 (List.zipWith (· + ·)) (· + ·) [1,2,3,4,5] [10,20,30] 1 5 3 1 5 (List.replicate 15 (0 : Int))
    = some [11,12,13,14,15,21,22,23,24,25,31,32,33,34,35] := by decide
example : simdReduceAxis 4 (List.zipWith (· + ·)) (· + ·) (some (0 : Int)) ⟨[2,5], false, [1,2,3,4,5,6,7,8,9,10]⟩ (-1) = some [15, 40]
    ∧ scalarReduceAxis (· + ·) (⟨[2,5], false, [1,2,3,4,5,6,7,8,9,10]⟩ : NDA Int) 1 = some [15, 40] := by decide
example : matmulInnerSize 4 6 = 2 ∧ (matmulInner 4 3 1 2 6).2.1 = ⟨Tag.PAD 2, 10⟩ ∧ (matmulInner 4 3 1 2 6).2.2 = ⟨Tag.PAD 2, 10⟩ := by decide
example : simdReduceAll 2 (List.zipWith (· * ·)) (· * ·) (1 : Int) ⟨[2,2], false, [1,2,3,4]⟩ = some 24 := by decide
example : simdReduceAxis 4 (List.zipWith (· - ·)) (· - ·) (none : Option Int) ⟨[2,3], false, [1,2,3,4,5,6]⟩ 0 = some [-3,-3,-3]
    ∧ simdReduceAxis 4 (List.zipWith (· + ·)) (· + ·) (some (0 : Int)) ⟨[2,3], false, [1,2,3,4,5,6]⟩ (-2) = some [5,7,9] := by decide
example : simdReduceAll 4 (List.zipWith (· + ·)) (· + ·) (0 : Int) ⟨[2,5], false, [1,2,3,4,5,6,7,8,9,10]⟩ = some 55 := by decide
example : simdReduceAxis 4 (List.zipWith (· + ·)) (· + ·) (some (0 : Int)) ⟨[2,3,2], false, [1,2,3,4,5,6,7,8,9,10,11,12]⟩ 1 = some [9,12,27,30]
    ∧ scalarReduceAxis (· + ·) (⟨[2,3,2], false, [1,2,3,4,5,6,7,8,9,10,11,12]⟩ : NDA Int) 1 = some [9,12,27,30]
    ∧ (⟨[2,3,2], false, [1,2,3,4,5,6,7,8,9,10,11,12]⟩ : NDA Int).WF ∧ Pos [2,3,2] :=
  ⟨by decide, by decide, by simp [NDA.WF, prod], by decide⟩
example : simdReduceAxisK 2 (List.zipWith (· * ·)) (· * ·) (some (1 : Int)) ⟨[2,3,2], false, [1,2,3,4,5,6,7,8,9,10,11,12]⟩ (-3) false
      = some ([3,2], [7,16,27,40,55,72])
    ∧ scalarReduceAxisK (· * ·) (⟨[2,3,2], false, [1,2,3,4,5,6,7,8,9,10,11,12]⟩ : NDA Int) 0 false = some [7,16,27,40,55,72]
    ∧ reduceOutShape [2,3,2] 0 false = [3,2] ∧ normOutShape [3,2] 0 false = [1,3,2] := by decide
example : axisCell (· + ·) ([1,2,3,4,5,6,7,8,9,10,11,12] : List Int) 3 2 3 = some 30 := by decide
example : simdOuter 4 (List.zipWith (· + ·)) (· + ·) [10,20] [1,2,3,4,5,6] [2,6] [2] [6] (List.replicate 12 (0 : Int))
      = some [11,12,13,14,15,16,21,22,23,24,25,26]
    ∧ scalarOuter (· + ·) (⟨[2], false, [10,20]⟩ : NDA Int) ⟨[6], false, [1,2,3,4,5,6]⟩ = some [11,12,13,14,15,16,21,22,23,24,25,26] := by decide
example : (outerAt 4 [2,3,6] [2] [3,6] 9).1 = ⟨Tag.PAD 2, 28⟩ ∧ (outerAt 4 [2,3,6] [2] [3,6] 9).2.1.off = (28 + 1) / 18
    ∧ (outerAt 4 [2,3,6] [2] [3,6] 9).2.2.off + 1 = (28 + 1) % 18 ∧ outerLen 4 (outerAt 4 [2,3,6] [2] [3,6] 9).1 = 2 := by decide
example : simdMatmul 4 (fun x y z => x * y + z) (· + ·) (0 : Int) [1,2,3,4,5,6, 7,8,9,10,11,12] [1,0,1,0,1,0, 2,2,2,2,2,2] 2 6 2 [0,0,0,0]
      = some [9, 42, 27, 114]
    ∧ scalarMatmul (· * ·) (· + ·) (0 : Int) [1,2,3,4,5,6, 7,8,9,10,11,12] [1,0,1,0,1,0, 2,2,2,2,2,2] 2 6 2 = some [9, 42, 27, 114]
    ∧ matmulRef (fun x y z => x * y + z) (· + ·) (0 : Int) 4 [1,2,3,4,5,6, 7,8,9,10,11,12] [1,0,1,0,1,0, 2,2,2,2,2,2] 2 6 2 = some [9, 42, 27, 114] := by decide
example : laneAccs (fun x y z => x * y + z) (0 : Int) 4 [1,2,3,4,5,6] [2,2,2,2,2,2] 2 = [12, 16, 6, 8]
    ∧ pchunk (0 : Int) 4 [1,2,3,4,5,6] 1 = [5,6,0,0] := by decide
example : simdEvalMatmulWith true 2 (fun x y z => x * y + z) (· * ·) (· + ·) (0 : Int) ⟨[2,3], true, [1,4,2,5,3,6]⟩ ⟨[3,2], false, [1,2,3,4,5,6]⟩ 2 3 2 [0,0,0,0]
      = some [22, 28, 49, 64]
    ∧ simdEvalMatmul 2 (fun x y z => x * y + z) (· * ·) (· + ·) (0 : Int) ⟨[2,3], false, [1,2,3,4,5,6]⟩ ⟨[3,2], true, [1,3,5,2,4,6]⟩ 2 3 2 [0,0,0,0]
      = some [22, 28, 49, 64]
    ∧ simdEvalMatmulWith false 2 (fun x y z => x * y + z) (· * ·) (· + ·) (0 : Int) ⟨[2,3], true, [1,2,3,4,5,6]⟩ ⟨[3,2], true, [1,2,3,4,5,6]⟩ 2 3 2 [0,0,0,0]
      = some [14, 32, 32, 77]
    ∧ simdEvalMatmul 2 (fun x y z => x * y + z) (· * ·) (· + ·) (0 : Int) ⟨[2,3], true, [1,2,3,4,5,6]⟩ ⟨[3,2], true, [1,2,3,4,5,6]⟩ 2 3 2 [0,0,0,0]
      = some [22, 49, 28, 64]
    ∧ scalarMatmulNDA (· * ·) (· + ·) (0 : Int) ⟨[2,3], true, [1,2,3,4,5,6]⟩ ⟨[3,2], true, [1,2,3,4,5,6]⟩ 2 3 2 = some [22, 49, 28, 64] := by decide

/-! ## integer element types (int8_t … uint64_t): the lane model of Simd/IntLanes.lean

  A register lane is a bit pattern `BitVec w`; the instruction behind `simd_op_t<tag,T>::add / sub / mul` is chosen by the
  width alone and is the modular operation `IOp.lane` on every lane (`packInt`, the assumption about padd* / psub* /
  pmullo* and about `x + y`, `x - y`, `x * y` on vector types that the differential run measures on boundary values of
  every type).  Everything else is proved: read as a number of `T` — signed or unsigned — a lane result is NumPy's
  wrap-around result; the scalar functor of the tail loops and of the default evaluator is the same function wherever
  C++ defines it; so the evaluators of the float theorems, instantiated at `BitVec w`, equal the scalar evaluator with
  NO lane-wise hypothesis left, and reductions are exact (modular `+` and `*` are commutative monoids). -/

/-- **one instruction serves `intN_t` and `uintN_t`**: a lane of padd / psub / pmullo, read as a number of `T`, is the exact
    result reduced modulo `2^w` into the range of `T` — NumPy's arithmetic in dtype `T` — for every width and both
    signednesses. -/
theorem intLane_eq_wrap (t : IntTy) (o : IOp) (a b : BitVec t.bits) :
    t.decode (o.lane a b) = t.wrap (o.exact (t.decode a) (t.decode b)) := decode_lane t o a b

/-- **`IntTy.wrap` is the wrap-around SPEC**: `wrap z` is representable in `T`, congruent to `z` modulo `2^w`, and the only
    such number. -/
theorem intWrap_spec (t : IntTy) (hb : 0 < t.bits) (z : Int) :
    t.InRange (t.wrap z) ∧ ((2 ^ t.bits : Nat) : Int) ∣ t.wrap z - z
      ∧ ∀ r, t.InRange r → ((2 ^ t.bits : Nat) : Int) ∣ r - z → r = t.wrap z :=
  ⟨wrap_inRange t hb z, wrap_dvd t z, fun r hr hd => wrap_unique t hb z r hr hd⟩

/-- **scalar functor = lane operation wherever C++ defines it**: `static_cast<T>(t op u)` (operands promoted to `int` when
    narrower, exact result, conversion keeps the low `w` bits) is the modular lane operation whenever the promoted
    arithmetic does not overflow a signed type. -/
theorem intScalarOp_eq_lane (t : IntTy) (o : IOp) (a b r : BitVec t.bits) (h : scalarOp t o a b = some r) :
    r = o.lane a b := scalarOp_eq_lane t o a b r h

/-- **where the scalar functor is defined for ALL operands**: add / subtract on types of at most 16 bits, multiply on
    types of at most 15 bits and on signed 16-bit, every op on unsigned types of at least 32 bits (modular by
    definition).  (Not: `uint16_t * uint16_t` — promoted to *signed* int — and signed 32/64-bit overflow, see the two
    `…_undefined` instances below.) -/
theorem intScalarOp_defined (t : IntTy) (hb : 0 < t.bits) (o : IOp) (a b : BitVec t.bits)
    (hd : (t.bits ≤ 16 ∧ o ≠ .mul) ∨ (o = .mul ∧ (t.bits ≤ 15 ∨ (t.bits ≤ 16 ∧ t.signed = true)))
          ∨ (t.signed = false ∧ 32 ≤ t.bits)) :
    scalarOp t o a b = some (o.lane a b) := by
  rcases hd with ⟨h16, hne⟩ | ⟨rfl, hm⟩ | ⟨hs, h32⟩
  · exact scalarOp_some_narrow_addsub t hb h16 o hne a b
  · exact scalarOp_some_narrow_mul t hb hm a b
  · exact scalarOp_some_unsigned_wide t hs h32 o a b

/-- `uint16_t(65535) * uint16_t(65535)`: both operands are promoted to (signed) `int`, the product 4294836225 overflows it -/
theorem intScalarOp_u16_mul_undefined : scalarOp ⟨16, false⟩ .mul 65535#16 65535#16 = none := by decide

/-- `int32_t(2147483647) + 1` overflows -/
theorem intScalarOp_i32_add_undefined : scalarOp ⟨32, true⟩ .add 2147483647#32 1#32 = none := by decide

/-- the packed integer instruction of the model is lane-wise by definition (this IS the assumption about the intrinsic) -/
theorem packInt_laneWise (w lanes : Nat) (o : IOp) : LaneWise2 lanes (packInt (w := w) o) o.lane :=
  fun _ _ _ _ => rfl

/-- **integer binary, same shape: SIMD = scalar evaluator** for every width, op, element count, lane count and either
    layout — no hypothesis on the packed op left. -/
theorem simdEvalBinarySame_int_eq_scalar (w lanes : Nat) (hl : 0 < lanes) (o : IOp)
    (a b : NDA (BitVec w)) (hwa : a.WF) (hwb : b.WF) (hsh : b.shape = a.shape) (hs : Pos a.shape)
    (out : List (BitVec w)) (ho : out.length = prod a.shape) :
    simdEvalBinarySame lanes (packInt o) o.lane a b out = scalarBinarySame o.lane a b :=
  simdEvalBinarySame_eq_scalar lanes hl (packInt o) o.lane (packInt_laneWise w lanes o) a b hwa hwb hsh hs out ho

/-- **integer binary with 2-d broadcasting: SIMD = NumPy broadcasting of the lane operation** -/
theorem simdEvalBinary2d_int_eq_scalar (w N : Nat) (hN : 0 < N) (o : IOp) (a b : NDA (BitVec w)) (lr lc rr rc : Nat)
    (ha : a.shape = [lr, lc]) (hb : b.shape = [rr, rc]) (hwa : a.WF) (hwb : b.WF)
    (hlr : 0 < lr) (hlc : 0 < lc) (hrr : 0 < rr) (hrc : 0 < rc)
    (hl : OperandOK (max lr rr) (max lc rc) lr lc) (hr : OperandOK (max lr rr) (max lc rc) rr rc)
    (out : List (BitVec w)) (ho : out.length = max lr rr * max lc rc) :
    simdEvalBinary2d N (packInt o) o.lane a b lr lc rr rc (max lc rc) out = scalarBinary2d o.lane a b lr lc rr rc :=
  simdEvalBinary2d_eq_scalar N hN (packInt o) o.lane (packInt_laneWise w N o) a b lr lc rr rc ha hb hwa hwb hlr hlc hrr hrc hl hr out ho

/-- **integer outer: SIMD = scalar outer product** -/
theorem simdEvalOuter_int_eq_scalar (w N : Nat) (hN : 0 < N) (o : IOp) (a b : NDA (BitVec w)) (hwa : a.WF) (hwb : b.WF)
    (hsa : Pos a.shape) (hsb : Pos b.shape) (hne : b.shape ≠ [])
    (out : List (BitVec w)) (ho : out.length = prod (a.shape ++ b.shape)) :
    simdEvalOuter N (packInt o) o.lane a b out = scalarOuter o.lane a b :=
  simdEvalOuter_eq_scalar N hN (packInt o) o.lane (packInt_laneWise w N o) a b hwa hwb hsa hsb hne out ho

/-- modular addition / multiplication with `view.op.identity()` is a commutative monoid on bit patterns -/
theorem intIdentity_monoid (w : Nat) (o : IOp) (e : BitVec w) (h : o.identity = some e) : IsCommMonoid (o.lane (w := w)) e := by
  cases o with
  | add => cases h; exact bv_add_monoid w
  | mul => cases h; exact bv_mul_monoid w
  | sub => cases h

/-- **integer reduction with `axis = None`: SIMD = scalar left fold, exactly** (no re-association error: the lanes are
    elements of a commutative monoid) -/
theorem simdEvalReduceAll_int_eq_fold (w lanes : Nat) (hl : 0 < lanes) (o : IOp) (a : NDA (BitVec w)) (hw : a.WF)
    (hs : Pos a.shape) :
    simdEvalReduceAll lanes (packInt o) o.lane o.identity a = scalarReduceAll o.lane a :=
  simdEvalReduceAll_eq_fold lanes hl (packInt o) o.lane o.identity (intIdentity_monoid w o) (packInt_laneWise w lanes o) a hw hs

/-- **integer reduction over any axis, keepdims on or off: SIMD = scalar evaluator, exactly** -/
theorem simdReduceAxisK_int_eq_scalar (w N : Nat) (hN : 0 < N) (o : IOp) (a : NDA (BitVec w)) (hw : a.WF) (hs : Pos a.shape)
    (axis : Nat) (hlt : axis < a.shape.length)
    (axisI : Int) (hax : axisI = (axis : Int) ∨ axisI = (axis : Int) - (a.shape.length : Int)) (keep : Bool) :
    simdReduceAxisK N (packInt o) o.lane o.identity a axisI keep
      = (scalarReduceAxisK o.lane a axis keep).map (fun b => (reduceOutShape a.shape axis keep, b)) :=
  simdReduceAxisK_eq_scalar N hN (packInt o) o.lane o.identity (intIdentity_monoid w o) (packInt_laneWise w N o) a hw hs axis hlt axisI hax keep

/-- **integer matmul: SIMD = Σ_k a[m,k]·b[k,n] in modular arithmetic, exactly**: on integer lanes `fmadd` is `mullo` then `add`
    (x86 SSE; `(a * b) + c` for the vector extensions), modular `+` is a commutative monoid, so the lane-strided
    association of `eval_matmul` and the scalar evaluator's left-to-right sum agree bit for bit (no rounding, unlike the
    floating-point statement `simdEvalMatmul_eq_scalar`). -/
theorem simdEvalMatmul_int_eq_scalar (w N : Nat) (hN : 0 < N) (a b : NDA (BitVec w)) (M K Nn : Nat)
    (ha : a.shape = [M, K]) (hb : b.shape = [K, Nn]) (hwa : a.WF) (hwb : b.WF) (hK : 0 < K)
    (hra : a.colMajor = false) (hcb : b.colMajor = true) (out : List (BitVec w)) (ho : out.length = M * Nn) :
    simdEvalMatmul N (fun x y z => x * y + z) (· * ·) (· + ·) (0 : BitVec w) a b M K Nn out
      = scalarMatmulNDA (· * ·) (· + ·) (0 : BitVec w) a b M K Nn :=
  simdEvalMatmul_eq_scalar N hN (fun x y z => x * y + z) (· * ·) (· + ·) (0 : BitVec w)
    ⟨BitVec.add_assoc, BitVec.add_comm, BitVec.zero_add⟩ (fun _ _ _ => rfl) (by simp) a b M K Nn ha hb hwa hwb hK hra hcb out ho

/-- **a saturating instruction is not lane-wise** (what `_mm_subs_epi16` in place of `_mm_sub_epi16` computes):
    30000 − (−10000) saturates to 32767, the scalar functor / NumPy give −25536 -/
theorem satSubS_not_laneWise : ¬ LaneWise2 8 (List.zipWith (satSubS (w := 16))) IOp.sub.lane := by
  intro h
  have := h (List.replicate 8 (BitVec.ofInt 16 30000)) (List.replicate 8 (BitVec.ofInt 16 (-10000))) rfl rfl
  revert this; decide

/-- … and `_mm256_adds_epu8` in place of `_mm256_add_epi8`: 200 + 100 saturates to 255, wrap-around gives 44 -/
theorem satAddU_not_laneWise : ¬ LaneWise2 32 (List.zipWith (satAddU (w := 8))) IOp.add.lane := by
  intro h
  have := h (List.replicate 32 200#8) (List.replicate 32 100#8) rfl rfl
  revert this; decide

/-- **repaired defect vector-extension.uninitialised-lanes** (fix commit 6098ed3: `vector_size(bit_width / 8)`; `vecExtTypeLanes` is the lane count of the declaration BEFORE the repair, kept as the regression witness): the register type of the vector-extension contexts is declared
    with `vector_size(bit_width / sizeof(T))` BYTES: for `vector_128` and `int16_t` that is 32 lanes of which 8 are ever
    loaded; the other 24 are indeterminate and are multiplied / added with the rest (UBSan: signed integer overflow on
    values that are not in the input).  Results are unaffected (only the filled lanes are stored). -/
theorem vectorExtension_lanes_counterexample :
    vecExtTypeLanes 128 2 = 32 ∧ vecExtUsedLanes 128 2 = 8 ∧ vecExtTypeLanes 512 1 = 512 ∧ vecExtUsedLanes 512 1 = 64 := by decide

/-- … the declared type has exactly the lanes in use only for 8-byte element types (`double`, `int64_t`, `uint64_t`) -/
theorem vectorExtension_lanes_exact_iff :
    ∀ bw ∈ [128, 256, 512], ∀ sz ∈ [1, 2, 4, 8], (vecExtTypeLanes bw sz = vecExtUsedLanes bw sz ↔ sz = 8) := by decide

/-- **repaired defect vector-extension.signed-lane-overflow** (fix commit 98bc9d0: the lanes now compute in the unsigned type of the same width, which is `IOp.lane`; `vecExtLane` is the lane arithmetic BEFORE the repair, kept as the regression witness): a vector-extension lane computes in `T` itself, the scalar functor
    in the promoted type: `int16_t(32767) + 1` is defined for the scalar evaluator (−32768, as NumPy) and signed overflow —
    undefined — on a `vector_128` lane.  (Values agree in practice: g++ wraps.) -/
theorem vecExtLane_signed_overflow_counterexample :
    vecExtLane ⟨16, true⟩ .add 32767#16 1#16 = none
      ∧ scalarOp ⟨16, true⟩ .add 32767#16 1#16 = some (BitVec.ofInt 16 (-32768)) := by decide

/-- … wherever the vector-extension lane is defined it is the modular lane operation; unsigned lanes always are -/
theorem vecExtLane_eq_lane (t : IntTy) (o : IOp) (a b r : BitVec t.bits) (h : vecExtLane t o a b = some r) :
    r = o.lane a b := by
  unfold vecExtLane at h
  split at h
  · cases h
  · exact (Option.some.inj h).symm

theorem vecExtLane_unsigned (t : IntTy) (hs : t.signed = false) (o : IOp) (a b : BitVec t.bits) :
    vecExtLane t o a b = some (o.lane a b) := by
  unfold vecExtLane; simp [hs]

-- non-vacuity / instances
example : vecExtLane ⟨16, true⟩ .add 32766#16 1#16 = some 32767#16 := by decide
example : (⟨16, true⟩ : IntTy).decode (IOp.sub.lane (BitVec.ofInt 16 30000) (BitVec.ofInt 16 (-10000))) = -25536 := by decide
example : (⟨16, false⟩ : IntTy).decode (IOp.sub.lane 40000#16 30000#16) = 10000 := by decide
example : (⟨16, false⟩ : IntTy).wrap (40000 * 3) = 54464 ∧ (⟨8, true⟩ : IntTy).wrap (100 + 100) = -56 := by decide
example : (⟨16, true⟩ : IntTy).InRange (-32768) ∧ ¬ (⟨16, true⟩ : IntTy).InRange 32768 := by decide
example : scalarOp ⟨16, true⟩ .sub (BitVec.ofInt 16 30000) (BitVec.ofInt 16 (-10000)) = some (BitVec.ofInt 16 (-25536)) := by decide
example : scalarOp ⟨8, false⟩ .mul 200#8 200#8 = some 64#8 := by decide
example : simdEvalBinarySame 8 (packInt .sub) IOp.sub.lane
    ⟨[9], false, (List.replicate 9 (BitVec.ofInt 16 30000))⟩ ⟨[9], false, (List.replicate 9 (BitVec.ofInt 16 (-10000)))⟩
    (List.replicate 9 0) = some (List.replicate 9 (BitVec.ofInt 16 (-25536))) := by decide
example : simdEvalReduceAll 4 (packInt .mul) IOp.mul.lane IOp.mul.identity ⟨[5], false, [65536#32, 65537#32, 3#32, 4#32, 5#32]⟩
    = some 3932160#32 := by decide
example : (IOp.sub.identity (w := 8)) = none ∧ (IOp.add.identity (w := 8)) = some 0 := by decide
example : satSubS (BitVec.ofInt 16 30000) (BitVec.ofInt 16 (-10000)) = BitVec.ofInt 16 32767 := by decide
example : satAddU 200#8 100#8 = 255#8 := by decide
example : simdEvalMatmul 8 (fun x y z => x * y + z) (· * ·) (· + ·) (0 : BitVec 16)
    ⟨[1,9], false, (List.replicate 9 (BitVec.ofInt 16 4000))⟩ ⟨[9,1], true, (List.replicate 9 (BitVec.ofInt 16 1000))⟩ 1 9 1 [0]
    = some [BitVec.ofInt 16 (9 * 4000 * 1000)] := by decide

/-! ## unary lanes at the element type's own precision (floating point)

  The packed loop applies `op.eval` to whole registers, the tail loop the scalar functor to single elements: they are the
  SAME function exactly when every lane of `op.eval` is the scalar functor.  For the vector-extension contexts
  `op.eval` is literally a loop over the lanes applying one builtin selected from the element type
  (Simd/FloatLanes.lean); for the intrinsic contexts that is the assumption. -/

/-- **a lane loop is lane-wise for `f` iff the function it applies to a lane IS `f`** (all lane counts > 0): the packed
    loop and the tail loop apply the same function, and nothing weaker suffices — one value on which the lane function
    differs (2.0000000001 through `ceilf`) already breaks `LaneWise1`. -/
theorem packLanes_laneWise_iff (lanes : Nat) (hl : 0 < lanes) (g f : α → β) :
    LaneWise1 lanes (packLanes g) f ↔ ∀ x, g x = f x := by
  constructor
  · intro h x
    have h1 := h (List.replicate lanes x) (by simp)
    simp only [packLanes, List.map_replicate] at h1
    rcases List.replicate_inj.1 h1 with ⟨_, h0 | h2⟩
    · omega
    · exact h2
  · intro h xs _
    simp only [packLanes]
    exact List.map_congr_left (fun x _ => h x)

/-- **own precision ⇒ lane-wise**: a register of doubles through the double builtin, a register of floats through the
    single-precision builtin (`selectsF32` = the test `is_same_v<data_t,float>` of the unchanged tree), is the scalar
    functor of that element type on every lane — for every builtin pair, every lane count. -/
theorem vecExtUnary_ownPrecision_laneWise {F D : Type} (b : Builtin F D) (lanes : Nat) :
    LaneWise1 lanes (vecExtUnaryD b (selectsF32 false)) b.fnD ∧ LaneWise1 lanes (vecExtUnaryF b (selectsF32 true)) b.fnF :=
  ⟨fun _ _ => rfl, fun _ _ => rfl⟩

/-- **double lanes through the single-precision builtin** (`is_floating_point_v<data_t>` in place of
    `is_same_v<data_t,float>`) are lane-wise iff narrowing the argument is invisible to the builtin on EVERY double —
    the exact condition under which such a selection goes unnoticed. -/
theorem vecExtUnaryD_narrowed_laneWise_iff {F D : Type} (b : Builtin F D) (lanes : Nat) (hl : 0 < lanes) :
    LaneWise1 lanes (vecExtUnaryD b true) b.fnD ↔ ∀ x, b.widen (b.fnF (b.narrow x)) = b.fnD x := by
  unfold vecExtUnaryD
  rw [packLanes_laneWise_iff lanes hl]
  simp [Builtin.laneD]

/-- … and float lanes through the double builtin iff computing in double and rounding the result is invisible -/
theorem vecExtUnaryF_widened_laneWise_iff {F D : Type} (b : Builtin F D) (lanes : Nat) (hl : 0 < lanes) :
    LaneWise1 lanes (vecExtUnaryF b false) b.fnF ↔ ∀ x, b.narrow (b.fnD (b.widen x)) = b.fnF x := by
  unfold vecExtUnaryF
  rw [packLanes_laneWise_iff lanes hl]
  simp [Builtin.laneF]

/-- **`ceil` of a narrowed lane is not lane-wise** (exact fixed-point instance: doubles = multiples of 1/4, floats =
    multiples of 1/2): 2.25 narrows to 2.0, whose ceiling is 2 where the scalar functor gives 3 — the shape of
    `ceilf(2.0000000001) = 2`. -/
theorem vecExtCeil_narrowed_not_laneWise : ¬ LaneWise1 2 (vecExtUnaryD fxCeil true) fxCeil.fnD := by
  intro h
  have := h [9, 9] rfl
  revert this; decide

/-- **vector-extension unary on doubles, `operator()` = scalar evaluator**: every shape, element count, lane count,
    either layout, every builtin pair — no lane-wise hypothesis left (the lane IS the builtin of the element type). -/
theorem simdEvalUnary_vecExtD_eq_scalar {F D : Type} (b : Builtin F D) (lanes : Nat) (hl : 0 < lanes)
    (a : NDA D) (hw : a.WF) (hs : Pos a.shape) (out : List D) (ho : out.length = prod a.shape) :
    simdEvalUnary lanes (vecExtUnaryD b (selectsF32 false)) b.fnD a out = scalarUnary b.fnD a :=
  simdEvalUnary_eq_scalar lanes hl _ b.fnD (vecExtUnary_ownPrecision_laneWise b lanes).1 a hw hs out ho

/-- … and on floats -/
theorem simdEvalUnary_vecExtF_eq_scalar {F D : Type} (b : Builtin F D) (lanes : Nat) (hl : 0 < lanes)
    (a : NDA F) (hw : a.WF) (hs : Pos a.shape) (out : List F) (ho : out.length = prod a.shape) :
    simdEvalUnary lanes (vecExtUnaryF b (selectsF32 true)) b.fnF a out = scalarUnary b.fnF a :=
  simdEvalUnary_eq_scalar lanes hl _ b.fnF (vecExtUnary_ownPrecision_laneWise b lanes).2 a hw hs out ho

-- non-vacuity / instances
example : LaneWise1 4 (packLanes (fun n : Int => n + 1)) (· + 1) := (packLanes_laneWise_iff 4 (by decide) _ _).2 (fun _ => rfl)
example : fxCeil.laneD false 9 = 12 ∧ fxCeil.laneD true 9 = 8 ∧ fxCeil.narrow 9 = 4 := by decide
example : fxCeil.laneF true 5 = 6 ∧ fxCeil.laneF false 5 = 6 := by decide
example : ¬ (∀ x, fxCeil.widen (fxCeil.fnF (fxCeil.narrow x)) = fxCeil.fnD x) :=
  fun h => absurd (h 9) (by decide)
example : ∀ x ∈ [(-7 : Int), -2, -1, 0, 1, 3, 5, 8], fxCeil.narrow (fxCeil.fnD (fxCeil.widen x)) = fxCeil.fnF x := by decide
example : simdEvalUnary 2 (vecExtUnaryD fxCeil (selectsF32 false)) fxCeil.fnD ⟨[5], false, [9, -9, 8, 1, 11]⟩ (List.replicate 5 0)
    = some [12, -8, 8, 4, 12] := by decide
example : simdEvalUnary 2 (vecExtUnaryD fxCeil true) fxCeil.fnD ⟨[5], false, [9, -9, 8, 1, 11]⟩ (List.replicate 5 0)
    = some [8, -8, 8, 0, 12] := by decide     -- packed lanes narrowed (9 ↦ 8, 1 ↦ 0), the tail element 11 is not

end NmVerif.Props.C12
