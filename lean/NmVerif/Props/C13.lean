import NmVerif.Kernel
import NmVerif.Lemmas.Kernel
/-
  C13 — Per-thread device kernel body reproduces host evaluation for any launch geometry.
  Only property statements (+ non-vacuity examples, counterexamples of known findings) live here.

  Reading guide.  `result : Arr α` is the denotation of `fn::apply(function, operands)` inside the kernel, `out : NDA α`
  the output `device_array` built by `create_mutable_array`, a schedule is the list of `(thread_id.x, block_id.x)` in
  execution order.  `GoodOut out` = row-major, `len data = prod shape`, positive extents (the host side refuses
  `out_size <= 0`, cuda/context.hpp:251).  `Covers bsz sched n` = "thread count at least the output size".
-/
namespace NmVerif.Props.C13
open NmVerif NmVerif.Kernel

variable {α : Type}

/-! ### rebuilding operands from raw (pointer, shape, dim) triples -/

/-- `create_vector` returns exactly the `dim` entries behind the pointer when `dim ≤ 8` -/
theorem createVector_roundtrip (s : Shape) (h : s.length ≤ maxDim) : createVector s s.length = some s := by
  simp [createVector, h]

/-- `create_array(data(), shape, dim)` of a row-major array shows the same shape and the same element at every index
    (and every read stays inside the buffer) -/
theorem createArray_roundtrip (a : NDA α) (hrow : a.colMajor = false) (hw : a.WF) (hdim : a.shape.length ≤ maxDim) :
    ∃ v, createArray a.data a.shape a.shape.length = some v ∧ v.shape = a.shape ∧
      ∀ i, InShape i a.shape → v.get? i = a.get? i ∧ ∃ x, a.get? i = some x := by
  refine ⟨⟨a.shape, refReshapeGet a.data a.shape⟩, by simp [createArray, createVector_roundtrip a.shape hdim], rfl, ?_⟩
  intro i hi
  have hlt : computeOffset i (strides a.shape) < prod a.shape := offset_lt hi
  have hget : a.get? i = a.data[computeOffset i (strides a.shape)]? := by
    simp [NDA.get?, NDA.offset, NDA.stridesOf, hrow]
  constructor
  · rw [hget]
    simp only [refReshapeGet, strides, computeIndices, prod, Nat.div_one, Nat.mul_one, Nat.mod_eq_of_lt hlt]
  · rw [hget]
    have : computeOffset i (strides a.shape) < a.data.length := by rw [hw]; exact hlt
    exact ⟨_, List.getElem?_eq_getElem this⟩

/-- the `device_array` a CUDA/HIP/SYCL kernel receives for a row-major host array is that array -/
theorem deviceOperand_roundtrip (a : NDA α) (hrow : a.colMajor = false) (hdim : a.shape.length ≤ maxDim) :
    deviceOperand a = some a := by
  cases a with
  | mk shape cm data =>
    simp only at hrow hdim
    subst hrow
    simp [deviceOperand, createMutableArray, createVector_roundtrip shape hdim]

/-- KNOWN FINDING kernel.colmajor-operand: the raw triple carries no layout, so a column-major host array is re-read
    row-major inside the kernel: logical element (0,1) of the 2x2 array [[0,1],[2,3]] (buffer 0,2,1,3) reads 2. -/
theorem deviceOperand_colMajor_counterexample :
    let a : NDA Nat := NDA.ofFn true [2,2] (fun i => computeOffset i (strides [2,2]))
    a.get? [0,1] = some 1 ∧ (deviceOperand a).bind (fun d => d.get? [0,1]) = some 2 := by decide

/-! ### the per-thread assignment -/

/-- global id of a thread = `block_id * block_size + thread_id` -/
theorem threadOffset_eq (bsz t b : Nat) : threadOffset bsz (t, b) = b * bsz + t := rfl

/-- threads whose global id is not below the output size write nothing -/
theorem kernel_guard (result : Arr α) (bsz : Nat) (out : NDA α) (t : Nat × Nat)
    (h : prod out.shape ≤ threadOffset bsz t) : assignResult result bsz out t = some out := by
  have : ¬ threadOffset bsz t < prod out.shape := by omega
  simp [assignResult, this]

/-- a thread below the output size writes exactly cell `idx` of the buffer with element `idx` of the flattened result
    (`mutable_flatten(output)(idx) = flatten(result)(idx)` through compute_indices / row-major offset), never out of bounds -/
theorem kernel_step (result : Arr α) (bsz : Nat) (out : NDA α) (t : Nat × Nat) (g : GoodOut out)
    (hsh : result.shape = out.shape) (h : threadOffset bsz t < prod out.shape) :
    ∃ v, result.flat[threadOffset bsz t]? = some v ∧
      assignResult result bsz out t = some { out with data := out.data.set (threadOffset bsz t) v } := by
  have hl : result.flat.length = out.data.length := by
    rw [flat_length result (hsh ▸ g.pos), hsh]; exact g.wf.symm
  have h' : threadOffset bsz t < out.data.length := by rw [g.wf]; exact h
  obtain ⟨v, hv, hk⟩ := kstep_of_lt result.flat bsz out.data t hl h'
  exact ⟨v, hv, by rw [assignResult_eq_kstep result bsz out t g hsh, hk]; rfl⟩

/-- ANY schedule (order, interleaving, duplication, block size, grid size): the launch never leaves the buffer, and
    afterwards a cell holds the host value iff some executed thread addressed it — otherwise it is untouched -/
theorem kernel_untouched_until_hit (result : Arr α) (bsz : Nat) (out : NDA α) (sched : List (Nat × Nat))
    (g : GoodOut out) (hsh : result.shape = out.shape) :
    ∃ d, runSchedule result bsz out sched = some { out with data := d } ∧ d.length = out.data.length ∧
      ∀ i, i < prod out.shape →
        (Hits bsz sched i → d[i]? = result.flat[i]?) ∧ (¬ Hits bsz sched i → d[i]? = out.data[i]?) := by
  have hl : result.flat.length = out.data.length := by
    rw [flat_length result (hsh ▸ g.pos), hsh]; exact g.wf.symm
  obtain ⟨d, hk, hdl, hs⟩ := kfold_spec result.flat bsz sched out.data hl
  refine ⟨d, ?_, hdl, ?_⟩
  · rw [runSchedule_eq_kfold result bsz sched out g hsh, hk]; rfl
  · intro i hi
    exact hs i (by rw [g.wf]; exact hi)

/-- the property: once for every thread of a 1-d launch whose thread count is at least the output size — in any order,
    for any block size, with any duplication and over-provisioning — the output buffer is the flattened host result -/
theorem kernel_any_schedule (result : Arr α) (bsz : Nat) (out : NDA α) (sched : List (Nat × Nat))
    (g : GoodOut out) (hsh : result.shape = out.shape) (cover : Covers bsz sched (prod out.shape)) :
    runSchedule result bsz out sched = some { out with data := result.flat } := by
  obtain ⟨d, hr, hdl, hs⟩ := kernel_untouched_until_hit result bsz out sched g hsh
  have hl : result.flat.length = out.data.length := by
    rw [flat_length result (hsh ▸ g.pos), hsh]; exact g.wf.symm
  have : d = result.flat := by
    apply List.ext_getElem?
    intro i
    by_cases hi : i < prod out.shape
    · exact (hs i hi).1 (cover i hi)
    · have hw : out.data.length = prod out.shape := g.wf
      rw [List.getElem?_eq_none (by omega), List.getElem?_eq_none (by omega)]
  rw [hr, this]

/-- two launches that address the same cells leave the same buffer (order / duplication / geometry are unobservable) -/
theorem kernel_schedule_irrelevant (result : Arr α) (b1 b2 : Nat) (out : NDA α) (s1 s2 : List (Nat × Nat))
    (g : GoodOut out) (hsh : result.shape = out.shape)
    (same : ∀ i, i < prod out.shape → (Hits b1 s1 i ↔ Hits b2 s2 i)) :
    runSchedule result b1 out s1 = runSchedule result b2 out s2 := by
  obtain ⟨d1, h1, l1, c1⟩ := kernel_untouched_until_hit result b1 out s1 g hsh
  obtain ⟨d2, h2, l2, c2⟩ := kernel_untouched_until_hit result b2 out s2 g hsh
  have : d1 = d2 := by
    apply List.ext_getElem?
    intro i
    by_cases hi : i < prod out.shape
    · by_cases hh : Hits b1 s1 i
      · rw [(c1 i hi).1 hh, (c2 i hi).1 ((same i hi).1 hh)]
      · rw [(c1 i hi).2 hh, (c2 i hi).2 (fun h => hh ((same i hi).2 h))]
    · have hw : out.data.length = prod out.shape := g.wf
      rw [List.getElem?_eq_none (by omega), List.getElem?_eq_none (by omega)]
  rw [h1, h2, this]

/-- the kernel's `result` need only be *equivalent* (same shape, same element at every in-shape index) to the host
    view — e.g. because its operands were rebuilt from raw triples (`createArray_roundtrip`) — for the launch to
    leave the flattened host evaluation -/
theorem kernel_eq_host (host dev : Arr α) (heq : dev.Equiv host) (bsz : Nat) (out : NDA α) (sched : List (Nat × Nat))
    (g : GoodOut out) (hsh : host.shape = out.shape) (cover : Covers bsz sched (prod out.shape)) :
    runSchedule dev bsz out sched = some { out with data := host.flat } := by
  rw [kernel_any_schedule dev bsz out sched g (heq.1.trans hsh) cover, flat_congr heq]

/-- an exactly covering or over-provisioned 1-d launch of `grid` blocks of `bsz` threads covers the output -/
theorem launch_covers (bsz grid n : Nat) (h : n ≤ grid * bsz) : Covers bsz (launchAsc bsz grid) n :=
  launchAsc_covers bsz grid n h

/-- … and so does any rearrangement / duplication of it -/
theorem covers_of_subset (bsz n : Nat) (s1 s2 : List (Nat × Nat)) (hsub : ∀ t ∈ s1, t ∈ s2)
    (h : Covers bsz s1 n) : Covers bsz s2 n := by
  intro i hi
  obtain ⟨t, ht, e⟩ := h i hi
  exact ⟨t, hsub t ht, e⟩

/-! ### non-vacuity -/

-- a 2x3 output, block size 4, grid 2 (8 threads for 6 cells): descending order with a duplicated thread
example :
    let res : Arr Nat := ⟨[2,3], fun i => 100 + computeOffset i (strides [2,3])⟩
    let out : NDA Nat := { shape := [2,3], colMajor := false, data := List.replicate 6 0 }
    let sched := (launchAsc 4 2).reverse ++ [(1, 0)]
    (runSchedule res 4 out sched).map (·.data) = some [100,101,102,103,104,105] := by decide
example : Covers 4 (launchAsc 4 2) 6 := launch_covers 4 2 6 (by decide)
example : GoodOut ({ shape := [2,3], colMajor := false, data := List.replicate 6 0 } : NDA Nat) :=
  ⟨rfl, by simp [NDA.WF, prod], by decide⟩
-- partial schedule: only thread (1,1) of block size 2 ran → only cell 3 is final
example :
    let res : Arr Nat := ⟨[2,3], fun i => 100 + computeOffset i (strides [2,3])⟩
    let out : NDA Nat := { shape := [2,3], colMajor := false, data := List.replicate 6 0 }
    (runSchedule res 2 out [(1,1), (1,7)]).map (·.data) = some [0,0,0,103,0,0] := by decide
example : (createArray [10,11,12,13,14,15] [2,3,9,9] 2).bind (fun v => v.get? [1,2]) = some 15 := by decide

end NmVerif.Props.C13
