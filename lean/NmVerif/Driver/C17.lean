import NmVerif.Proto
import NmVerif.NN.Conv
import NmVerif.NN.Pool
import NmVerif.NN.PoolReduce
import NmVerif.NN.F32
namespace NmVerif.Driver.C17
open NmVerif NmVerif.Proto NmVerif.NN

/-- array of the request: shape `<key>s`, integer data `<key>` (row-major) -/
def mkArr (a : Args) (key : String) : Option (Arr Int) := do
  let shape ← a.nats (key ++ "s")
  let data ← a.ints key
  if data.length ≠ prod shape then none
  let arr := data.toArray
  pure ⟨shape, fun i => arr.getD (computeOffset i (strides shape)) 0⟩

def pArg (a : Args) (key : String) : Option PArg :=
  match a.get? key with
  | none => none
  | some "None" => some .none
  | some s => match parseNats s with
    | some [v] => some (.int v)
    | some l => some (.arr l)
    | none => none

def fmtArr (r : Arr Int) : String :=
  s!"ok shape={fmtNats r.shape} data={fmtInts ((allIdx r.shape).map r.get)}"

def fmtRes : Res (Arr Int) → String
  | .ok r => fmtArr r
  | .nothing => "nothing"
  | .ub why => s!"ub:{why}"

def conv (n : Nat) (a : Args) : Option String := do
  let x ← mkArr a "x"
  let w ← mkArr a "w"
  let b ← (match a.get? "b" with
    | some "None" => some none
    | some _ => (mkArr a "b").map some
    | none => none)
  let s ← pArg a "stride"
  let p ← pArg a "padding"
  let d ← pArg a "dilation"
  let g ← a.nat "groups"
  pure (fmtRes (convnd n x w b s p d g))

def handle : Handler := fun op a =>
  match op with
  | "conv1d" => orBad (conv 1 a)
  | "conv2d" => orBad (conv 2 a)
  | "pool_shape" => orBad do
      let s ← a.nats "shape"; let k ← a.nats "kernel"; let st ← a.nats "stride"; let c ← a.nat "ceil"
      match shapePool2d s k st (c != 0) with
      | some r => pure s!"ok {fmtNats r}"
      | none => pure "ub:rank"
  | "pool_slice" => orBad do
      let i ← a.nats "idx"; let sh ← a.nats "shape"; let k ← a.nats "kernel"; let st ← a.nats "stride"
      match slicePool2d i sh k st with
      | some r => pure ("ok " ++ ";".intercalate (r.map fun t => s!"{t.1},{t.2.1},{t.2.2}"))
      | none => pure "ub:rank"
  | "pool_fold" => orBad do
      let s ← a.nats "xs"; let k ← a.nats "kernel"; let st ← a.nats "stride"; let c ← a.nat "ceil"
      match shapePool2d s k st (c != 0) with
      | none => pure "ub:rank"
      | some os =>
        match (allIdx os).mapM (poolFold s k st) with
        | some vals => pure s!"ok shape={fmtNats os} data={fmtNats vals}"
        | none => pure "ub:window"
  | "max_pool2d" => orBad do
      let k ← a.nats "kernel"; let st ← a.nats "stride"; let c ← a.nat "ceil"
      -- integer-valued data: evaluated over Int (exact); otherwise over Float32
      match mkArr a "x" with
      | some x =>
        match maxPool2d x k st (c != 0) with
        | none => pure "ub:rank"
        | some v =>
          match (allIdx v.shape).mapM v.get with
          | some vals => pure s!"ok shape={fmtNats v.shape} data={fmtInts vals}"
          | none => pure "ub:window"
      | none =>
        let x ← F32.mkArr a "x"
        pure (F32.fmtView (maxPool2d x k st (c != 0)))
  | "avg_pool2d" => orBad do
      -- avg_reducer_t: elements promoted to float32, summed from the first element, divided by the slice's element count
      let x ← F32.mkArr a "x"
      let k ← a.nats "kernel"; let st ← a.nats "stride"; let c ← a.nat "ceil"
      pure (F32.fmtView (avgPool2d (· + ·) (fun s n => s / n.toFloat32) x k st (c != 0)))
  | _ => none

end NmVerif.Driver.C17
