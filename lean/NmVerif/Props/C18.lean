import NmVerif.Utility.IsEqual
import NmVerif.Lemmas.Addressing
/-
  C18 — isequal / isclose are exact comparison oracles (shape-aware, symmetric, total).
-/
namespace NmVerif.Props.C18
open NmVerif NmVerif.IsEqual

theorem range_map_getElem? (d : List Int) : (List.range d.length).map (fun i => d[i]?) = d.map some := by
  apply List.ext_getElem?
  intro i
  by_cases h : i < d.length
  · simp [h]
  · simp [h]

/-- reading a well-formed ndarray operand through its own ndindex never leaves the buffer and yields the
    buffer in order (C01 round trip) -/
theorem flatRead_eq (s : Shape) (d : List Int) (hl : d.length = prod s) (hs : Pos s) :
    flatRead s d = d.map some := by
  unfold flatRead ndGet
  rw [← range_map_getElem? d, hl]
  apply List.map_congr_left
  intro i hi
  simp only [List.mem_range] at hi
  simp only [ndindex]
  rw [offset_indices hs hi]

theorem all_isSome_map_some (d : List Int) : (d.map some).all Option.isSome = true := by
  induction d with
  | nil => rfl
  | cons x xs ih => simp [ih]

theorem map_some_beq (a b : List Int) : ((a.map some) == (b.map some)) = decide (a = b) := by
  induction a generalizing b with
  | nil => cases b <;> simp
  | cons x xs ih =>
    cases b with
    | nil => simp
    | cons y ys =>
      have := ih ys
      simp only [List.map_cons, List.cons_beq_cons, this]
      by_cases hxy : x = y <;> simp [hxy]

/-- isequal on arrays = same dimension ∧ same shape ∧ all elements equal; total (never out of bounds) -/
theorem isequalNd_eq_spec (s1 : Shape) (d1 : List Int) (s2 : Shape) (d2 : List Int)
    (h1 : d1.length = prod s1) (p1 : Pos s1) (h2 : d2.length = prod s2) (p2 : Pos s2) :
    isequalNd s1 d1 s2 d2 = .val (specNd s1 d1 s2 d2) := by
  unfold isequalNd specNd
  by_cases hs : s1 = s2
  · subst hs
    simp only [ne_eq, not_true_eq_false, if_false]
    rw [flatRead_eq s1 d1 h1 p1, flatRead_eq s1 d2 h2 p1]
    simp [all_isSome_map_some, map_some_beq]
  · by_cases hl : s1.length = s2.length
    · simp [hs, hl]
    · simp [hs, hl]

/-- operands of different shape compare false whatever the buffers hold — no element is read -/
theorem isequalNd_diff_shape (s1 : Shape) (d1 : List Int) (s2 : Shape) (d2 : List Int) (h : s1 ≠ s2) :
    isequalNd s1 d1 s2 d2 = .val false := by
  unfold isequalNd
  by_cases hl : s1.length = s2.length <;> simp [h, hl]

theorem isequalIdx_eq_spec (a b : List Int) : isequalIdx a b = .val (specIdx a b) := by
  unfold isequalIdx specIdx
  by_cases hl : a.length = b.length
  · simp only [hl, ne_eq, not_true_eq_false, if_false]
    have ha : (List.range b.length).map (fun i => a[i]?) = a.map some := by rw [← hl]; exact range_map_getElem? a
    rw [ha, range_map_getElem? b]
    simp [all_isSome_map_some, map_some_beq]
  · have : a ≠ b := fun h => hl (by rw [h])
    simp [hl, this]

/-- index arrays of different length compare false without reading either -/
theorem isequalIdx_diff_length (a b : List Int) (h : a.length ≠ b.length) : isequalIdx a b = .val false := by
  unfold isequalIdx; simp [h]

theorem specNd_symm (s1 d1 s2 d2) : specNd s1 d1 s2 d2 = specNd s2 d2 s1 d1 := by
  unfold specNd
  by_cases h1 : s1 = s2 <;> by_cases h2 : d1 = d2 <;> simp [h1, h2, eq_comm]

theorem isequalNd_symm (s1 : Shape) (d1 : List Int) (s2 : Shape) (d2 : List Int)
    (h1 : d1.length = prod s1) (p1 : Pos s1) (h2 : d2.length = prod s2) (p2 : Pos s2) :
    isequalNd s1 d1 s2 d2 = isequalNd s2 d2 s1 d1 := by
  rw [isequalNd_eq_spec s1 d1 s2 d2 h1 p1 h2 p2, isequalNd_eq_spec s2 d2 s1 d1 h2 p2 h1 p1, specNd_symm]

theorem isequalIdx_symm (a b : List Int) : isequalIdx a b = isequalIdx b a := by
  rw [isequalIdx_eq_spec, isequalIdx_eq_spec]; unfold specIdx
  by_cases h : a = b <;> simp [h, eq_comm]

theorem isequalNd_refl (s : Shape) (d : List Int) (h : d.length = prod s) (p : Pos s) :
    isequalNd s d s d = .val true := by
  rw [isequalNd_eq_spec s d s d h p h p]; simp [specNd]

/-- optionals: two empties equal, empty vs non-empty different, non-empty compare their values -/
theorem maybe_cases (a b : Val) :
    isequal .nothing .nothing = .val true ∧ isequal .nothing (.just a) = .val false ∧
    isequal (.just a) .nothing = .val false ∧ isequal (.just a) (.just b) = isequal a b := by
  simp [isequal]

/-- either: alternative-by-alternative -/
theorem either_cases (a b : Val) :
    isequal (.left a) (.left b) = isequal a b ∧ isequal (.right a) (.right b) = isequal a b ∧
    isequal (.left a) (.right b) = .val false ∧ isequal (.right a) (.left b) = .val false := by
  simp [isequal]

/-- tuples: component-wise conjunction -/
theorem tuple_cases (a b as bs : Val) :
    isequal (.pair a as) (.pair b bs) = (isequal a b).and (isequal as bs) ∧ isequal .unit .unit = .val true := by
  simp [isequal]

/-- reflexive on well-formed values -/
theorem isequal_refl (a : Val) (h : WF a) : isequal a a = .val true := by
  induction a with
  | num n => simp [isequal]
  | idx l => simp only [isequal]; rw [isequalIdx_eq_spec]; simp [specIdx]
  | nd s d => simp only [isequal]; exact isequalNd_refl s d h.1 h.2
  | nothing => simp [isequal]
  | lit => exact absurd h (by simp [WF])
  | just v ih => simp only [isequal]; exact ih h
  | left v ih => simp only [isequal]; exact ih h
  | right v ih => simp only [isequal]; exact ih h
  | unit => simp [isequal]
  | pair a b iha ihb => simp only [isequal]; rw [iha h.1, ihb h.2]; rfl

theorem and_ne_oob {x y : Res} (hx : x ≠ .oob) (hy : y ≠ .oob) : x.and y ≠ .oob := by
  cases x <;> cases y <;> simp_all [Res.and]

theorem nd_ne_oob (s1 d1 s2 d2) (h1 : d1.length = prod s1 ∧ Pos s1) (h2 : d2.length = prod s2 ∧ Pos s2) :
    isequalNd s1 d1 s2 d2 ≠ .oob := by
  rw [isequalNd_eq_spec s1 d1 s2 d2 h1.1 h1.2 h2.1 h2.2]; simp

/-- TOTAL: for every pairing the API accepts and every well-formed operands (any shapes, equal or not),
    isequal answers without reading outside either operand -/
theorem isequal_never_oob (a b : Val) (ha : WF a) (hb : WF b) : isequal a b ≠ .oob := by
  fun_induction isequal a b <;> simp_all [WF, isequalIdx_eq_spec, nd_ne_oob, and_ne_oob]

theorem sameConcept0_comm (a b : Val) : sameConcept0 a b = sameConcept0 b a := by cases a <;> cases b <;> rfl
theorem sameConcept_comm (a b : Val) : sameConcept a b = sameConcept b a := by unfold sameConcept; exact sameConcept0_comm _ _

/-- SYMMETRIC on every accepted pairing (optionals, eithers, tuples, arrays, index arrays, numbers) -/
theorem isequal_symm (a b : Val) (ha : WF a) (hb : WF b) : isequal a b = isequal b a := by
  fun_induction isequal a b <;> (try cases ‹Val›) <;> simp_all [isequal, WF, isequalIdx_symm, sameConcept_comm]
  · exact BEq.comm
  · exact isequalNd_symm _ _ _ _ ha.1 ha.2 hb.1 hb.2

/-- isclose on arrays: shapes match ∧ every element difference below eps; total -/
theorem iscloseNd_eq_spec (eps : Int) (s1 : Shape) (d1 : List Int) (s2 : Shape) (d2 : List Int)
    (h1 : d1.length = prod s1) (p1 : Pos s1) (h2 : d2.length = prod s2) (p2 : Pos s2) :
    iscloseNd eps s1 d1 s2 d2 = .val (specCloseNd eps s1 d1 s2 d2) := by
  unfold iscloseNd specCloseNd
  by_cases hs : s1 = s2
  · subst hs
    simp only [ne_eq, not_true_eq_false, if_false]
    rw [flatRead_eq s1 d1 h1 p1, flatRead_eq s1 d2 h2 p1]
    simp only [all_isSome_map_some, Bool.and_self, if_true, decide_true, Bool.true_and]
    congr 1
    rw [List.zipWith_map_left, List.zipWith_map_right]
    rfl
  · simp [hs]

theorem iscloseNd_diff_shape (eps : Int) (s1 : Shape) (d1 : List Int) (s2 : Shape) (d2 : List Int) (h : s1 ≠ s2) :
    iscloseNd eps s1 d1 s2 d2 = .val false := by
  unfold iscloseNd; simp [h]

/-! non-vacuity and the behaviours the property singles out -/
example : WF (.nd [2,3] [0,1,2,3,4,5]) ∧ WF (.nd [3,2] [0,1,2,3,4,5]) := by
  refine ⟨⟨by decide, by decide⟩, ⟨by decide, by decide⟩⟩
example : isequal (.nd [2,3] [0,1,2,3,4,5]) (.nd [3,2] [0,1,2,3,4,5]) = .val false := by
  simp [isequal, isequalNd]
example : isequal (.nd [2,3] [0,1,2,3,4,5]) (.nd [2,3] [0,1,2,3,4,5]) = .val true := by
  rw [isequal, isequalNd_eq_spec _ _ _ _ (by decide) (by decide) (by decide) (by decide)]; decide
example : isequal (.idx [2,3]) (.idx [2,3,4]) = .val false ∧ isequal (.idx [2,3]) (.idx [2]) = .val false := by
  simp [isequal, isequalIdx]
example : isequal (.just (.nd [2] [1,2])) (.nd [2] [1,2]) = .val true := by
  simp only [isequal]
  rw [isequalNd_eq_spec _ _ _ _ (by decide) (by decide) (by decide) (by decide)]; decide
example : isequal (.pair (.num 1) (.pair (.idx [1,2]) .unit)) (.pair (.num 1) (.pair (.idx [1,3]) .unit)) = .val false := by
  simp [isequal, isequalIdx_eq_spec, specIdx, Res.and]

end NmVerif.Props.C18
