import Mathlib.Data.List.Nodup
import Mathlib.Data.List.Perm.Subperm
import NmVerif.Lemmas.Rearrange
import NmVerif.Props.C01
/-
  Permutation lemmas for C03 (proof side only: imports two Mathlib list modules; never imported by the driver).
-/
namespace NmVerif

theorem allIdx_nodup (s : Shape) (hs : Pos s) : (allIdx s).Nodup := by
  rw [← map_ndindex_range s hs]
  exact Props.C01.enumeration_nodup s hs

/-- a duplicate-free list of `n` numbers below `n` is a permutation of `0..n-1` -/
theorem perm_range_of_nodup (l : List Nat) (n : Nat) (hnd : l.Nodup) (hlt : ∀ x ∈ l, x < n) (hlen : l.length = n) :
    l.Perm (List.range n) :=
  (List.subperm_of_subset hnd (fun x hx => by simpa using hlt x hx)).perm_of_length_le (by simp [hlen])

/-- an index map that is a bijection between the in-shape indices of `dst` and of the source (inverse `g`)
    makes the C-order element list of the view a permutation of the source's -/
theorem flat_perm_of_bij {α : Type} (a : Arr α) (dst : Shape) (f g : Idx → Idx)
    (hposd : Pos dst) (hposs : Pos a.shape)
    (hf : ∀ d, InShape d dst → InShape (f d) a.shape ∧ g (f d) = d)
    (hg : ∀ i, InShape i a.shape → InShape (g i) dst ∧ f (g i) = i) :
    ((allIdx dst).map (fun d => a.get (f d))).Perm a.flat := by
  have hperm : ((allIdx dst).map f).Perm (allIdx a.shape) := by
    rw [List.perm_ext_iff_of_nodup]
    · intro x
      simp only [List.mem_map, Props.C01.mem_allIdx_iff]
      constructor
      · rintro ⟨d, hd, rfl⟩; exact (hf d hd).1
      · intro hx; exact ⟨g x, (hg x hx).1, (hg x hx).2⟩
    · apply List.Nodup.map_on _ (allIdx_nodup dst hposd)
      intro x hx y hy hxy
      rw [Props.C01.mem_allIdx_iff] at hx hy
      rw [← (hf x hx).2, ← (hf y hy).2, hxy]
    · exact allIdx_nodup _ hposs
  have := hperm.map a.get
  rw [List.map_map] at this
  exact this

/-- inverse of `scatter · p`: `(gather i p)[k] = i[p[k]]` -/
def gatherIdx (i p : List Nat) : List Nat := p.map (fun a => i.getD a 0)

theorem gather_scatter (d p : List Nat) (n : Nat) (hp : p.Perm (List.range n)) (hd : d.length = n) :
    gatherIdx (scatter d p) p = d := by
  obtain ⟨hlen, hnd, hlt, _⟩ := perm_range_facts p _ hp
  apply List.ext_getElem?
  intro k
  simp only [gatherIdx, List.getElem?_map]
  by_cases hk : k < n
  · have hk' : k < p.length := by omega
    rw [List.getElem?_eq_getElem hk']
    have := scatter_get d p hnd (by simpa [hd] using hlt) (by omega) k p[k] (by simp [hk'])
    simp only [Option.map_some, List.getD_eq_getElem?_getD, this]
    have hkd : k < d.length := by omega
    simp [List.getElem?_eq_getElem hkd]
  · rw [List.getElem?_eq_none (by omega), List.getElem?_eq_none (by omega)]; rfl

theorem scatter_gather (i p : List Nat) (n : Nat) (hp : p.Perm (List.range n)) (hi : i.length = n) :
    scatter (gatherIdx i p) p = i := by
  obtain ⟨hlen, hnd, hlt, hsurj⟩ := perm_range_facts p _ hp
  have hgl : (gatherIdx i p).length = n := by simp [gatherIdx, hlen]
  apply List.ext_getElem?
  intro a
  by_cases ha : a < n
  · obtain ⟨k, hk⟩ := hsurj a ha
    rw [scatter_get (gatherIdx i p) p hnd (by simpa [hgl] using hlt) (by omega) k a hk]
    simp only [gatherIdx, List.getElem?_map, hk, Option.map_some, List.getD_eq_getElem?_getD]
    have hai : a < i.length := by omega
    simp [List.getElem?_eq_getElem hai]
  · rw [List.getElem?_eq_none (by simp [scatter_length, hgl]; omega), List.getElem?_eq_none (by omega)]

theorem gather_inShape (src dst i p : List Nat) (hp : p.Perm (List.range src.length))
    (hdst : p.mapM (fun k => src[k]?) = some dst) (hi : InShape i src) : InShape (gatherIdx i p) dst := by
  obtain ⟨hlen, hnd, hlt, _⟩ := perm_range_facts p _ hp
  have hdl : dst.length = p.length := mapM_some_length _ _ _ hdst
  rw [inShape_iff_getElem?] at hi ⊢
  refine ⟨by simp [gatherIdx, hdl], ?_⟩
  intro k x e hx he
  simp only [gatherIdx, List.getElem?_map] at hx
  cases hpk : p[k]? with
  | none => simp [hpk] at hx
  | some a =>
    simp only [hpk, Option.map_some, Option.some.injEq] at hx
    have h1 := (mapM_some_get _ _ _ hdst k a hpk).1
    rw [he] at h1
    have ha : a < i.length := by
      rw [hi.1]; exact hlt a (List.mem_of_getElem? hpk)
    have hia : i[a]? = some x := by
      rw [List.getD_eq_getElem?_getD, List.getElem?_eq_getElem ha] at hx
      simp at hx
      rw [List.getElem?_eq_getElem ha, hx]
    exact hi.2 a x e hia h1

theorem pos_of_mapM_getElem? (src dst p : List Nat) (hs : Pos src) (h : p.mapM (fun k => src[k]?) = some dst) :
    Pos dst := by
  intro x hx
  obtain ⟨k, hk, rfl⟩ := List.mem_iff_getElem.1 hx
  have hl := mapM_some_length _ _ _ h
  have hk' : k < p.length := by omega
  have := (mapM_some_get _ _ _ h k p[k] (by simp [hk'])).1
  rw [List.getElem?_eq_getElem hk] at this
  exact hs _ (List.mem_of_getElem? this)

/-! ### swapaxes -/
/-- SPEC: the axis permutation of `np.swapaxes(a, m1, m2)` — identity with `m1` and `m2` exchanged -/
def swapPos (m1 m2 k : Nat) : Nat := if k = m1 then m2 else if k = m2 then m1 else k

theorem swapPos_invol (m1 m2 k : Nat) : swapPos m1 m2 (swapPos m1 m2 k) = k := by
  unfold swapPos; split <;> split <;> (try split) <;> omega

theorem swapPos_lt (m1 m2 k n : Nat) (h1 : m1 < n) (h2 : m2 < n) (hk : k < n) : swapPos m1 m2 k < n := by
  unfold swapPos; split <;> (try split) <;> omega

theorem swap_order_eq (n m1 m2 : Nat) (h1 : m1 < n) (h2 : m2 < n) :
    ((List.range n).set m1 m2).set m2 m1 = (List.range n).map (swapPos m1 m2) := by
  apply List.ext_getElem?
  intro k
  simp only [List.getElem?_set, List.getElem?_map, List.length_set, List.length_range]
  by_cases hk : k < n
  · simp only [List.getElem?_range hk, Option.map_some, swapPos]
    by_cases hk2 : m2 = k
    · subst hk2
      by_cases hk1 : m1 = m2
      · subst hk1; simp [h2]
      · have : ¬ m2 = m1 := fun h => hk1 h.symm
        simp [h2, this]
    · by_cases hk1 : m1 = k
      · subst hk1; simp [hk2, h1]
      · have e1 : ¬ k = m1 := fun h => hk1 h.symm
        have e2 : ¬ k = m2 := fun h => hk2 h.symm
        simp [hk1, hk2, e1, e2]
  · have e1 : ¬ m1 = k := by omega
    have e2 : ¬ m2 = k := by omega
    simp [e1, e2, List.getElem?_eq_none (show (List.range n).length ≤ k by simp; omega)]

theorem swap_order_perm (n m1 m2 : Nat) (h1 : m1 < n) (h2 : m2 < n) :
    ((List.range n).map (swapPos m1 m2)).Perm (List.range n) := by
  apply perm_range_of_nodup
  · apply List.Nodup.map _ List.nodup_range
    intro x y hxy
    have := congrArg (swapPos m1 m2) hxy
    simpa [swapPos_invol] using this
  · intro x hx
    simp only [List.mem_map, List.mem_range] at hx
    obtain ⟨k, hk, rfl⟩ := hx
    exact swapPos_lt m1 m2 k n h1 h2 hk
  · simp

theorem normalizeAxis_ofNat (n k : Nat) (h : k < n) : normalizeAxis n (Int.ofNat k) = some k := by
  unfold normalizeAxis
  simp only [Int.ofNat_eq_natCast]
  have h1 : -(n:Int) ≤ (k:Int) ∧ (k:Int) < (n:Int) := by omega
  have h2 : ¬ ((k:Int) < 0) := by omega
  simp only [h1, h2, and_self, if_true, if_false, Int.toNat_natCast]

theorem normalizeAxes_ofNat (n : Nat) (p : List Nat) (h : ∀ a ∈ p, a < n) :
    normalizeAxes n (p.map Int.ofNat) = some p := by
  induction p with
  | nil => simp [normalizeAxes]
  | cons a p ih =>
    have := ih (fun b hb => h b (by simp [hb]))
    unfold normalizeAxes at this ⊢
    rw [List.map_cons, mapM_cons_opt, normalizeAxis_ofNat n a (h a (by simp)), this]
    rfl

/-! ### moveaxis -/
/-- the moveaxis insertion loop over (destination, source) pairs sorted strictly by destination:
    the zero-padded fixed-length array of the C++ and NumPy's `list.insert` agree, and the result has every
    source at its destination, the other entries in their original order, and is a permutation of pairs ++ rest -/
theorem moveaxis_fold (ps : List (Nat × Nat)) (L : List Nat)
    (hs : (ps.map Prod.fst).Pairwise (· < ·)) (hB : ∀ p ∈ ps, p.1 < L.length + ps.length) :
    ps.foldl (fun o p => insertShift p.1 p.2 o) (L ++ List.replicate ps.length 0)
        = ps.foldl (fun o p => o.insertIdx p.1 p.2) L ∧
    (∀ k : Nat, (∀ p ∈ ps, k < p.1) → (ps.foldl (fun o p => o.insertIdx p.1 p.2) L)[k]? = L[k]?) ∧
    (∀ p ∈ ps, (ps.foldl (fun o p => o.insertIdx p.1 p.2) L)[p.1]? = some p.2) ∧
    (∀ P : Nat → Bool, (∀ p ∈ ps, P p.2 = false) →
        (ps.foldl (fun o p => o.insertIdx p.1 p.2) L).filter P = L.filter P) ∧
    (ps.foldl (fun o p => o.insertIdx p.1 p.2) L).Perm (ps.map Prod.snd ++ L) := by
  induction ps generalizing L with
  | nil => simp
  | cons p ps ih =>
    obtain ⟨d, s⟩ := p
    have hs' := List.pairwise_cons.1 (show List.Pairwise (· < ·) (d :: ps.map Prod.fst) from hs)
    have hd : d ≤ L.length := by
      have := head_le_of_strictMono ((((d, s) :: ps).map Prod.fst)) (L.length + (ps.length + 1)) hs
        (fun x hx => by
          simp only [List.mem_map] at hx
          obtain ⟨q, hq, rfl⟩ := hx
          simpa using hB q hq) d (by simp)
      simp at this; omega
    have hlen : (L.insertIdx d s).length = L.length + 1 := by simp [List.length_insertIdx, hd]
    have hB' : ∀ q ∈ ps, q.1 < (L.insertIdx d s).length + ps.length := by
      intro q hq
      have := hB q (by simp [hq])
      simp only [List.length_cons] at this
      omega
    obtain ⟨i1, i2, i3, i4, i5⟩ := ih (L.insertIdx d s) hs'.2 hB'
    have hgt : ∀ q ∈ ps, d < q.1 := fun q hq => hs'.1 q.1 (List.mem_map_of_mem hq)
    simp only [List.foldl_cons, List.length_cons]
    refine ⟨?_, ?_, ?_, ?_, ?_⟩
    · rw [insertShift_padded L ps.length d s hd]; exact i1
    · intro k hk
      rw [i2 k (fun q hq => hk q (by simp [hq]))]
      exact List.getElem?_insertIdx_of_lt (hk (d, s) (by simp))
    · intro q hq
      simp only [List.mem_cons] at hq
      rcases hq with rfl | hq
      · rw [i2 d hgt]; simp [List.getElem?_insertIdx_self, hd]
      · exact i3 q hq
    · intro P hP
      rw [i4 P (fun q hq => hP q (by simp [hq]))]
      exact filter_insertIdx_of_neg L d s P (hP (d, s) (by simp))
    · refine i5.trans ?_
      simp only [List.map_cons]
      have h1 : (L.insertIdx d s).Perm (s :: L) := List.perm_insertIdx s L hd
      have h2 := h1.append_left (ps.map Prod.snd)
      exact h2.trans (List.perm_middle)

theorem argsortInsert_perm (key : Nat → Nat) (acc : List Nat) (x : Nat) :
    (argsortInsert key acc x).Perm (x :: acc) := by
  induction acc with
  | nil => simp [argsortInsert]
  | cons y ys ih =>
    simp only [argsortInsert]
    split
    · exact (ih.cons y).trans (List.Perm.swap x y ys)
    · exact List.Perm.refl _

theorem argsortInsert_sorted (key : Nat → Nat) (acc : List Nat) (x : Nat)
    (h : acc.Pairwise (fun a b => key b ≤ key a)) :
    (argsortInsert key acc x).Pairwise (fun a b => key b ≤ key a) := by
  induction acc with
  | nil => simp [argsortInsert]
  | cons y ys ih =>
    have h' := List.pairwise_cons.1 h
    simp only [argsortInsert]
    split
    · rename_i hgt
      refine List.pairwise_cons.2 ⟨?_, ih h'.2⟩
      intro b hb
      have := (argsortInsert_perm key ys x).mem_iff.1 hb
      simp only [List.mem_cons] at this
      rcases this with rfl | hb'
      · omega
      · exact h'.1 b hb'
    · rename_i hle
      refine List.pairwise_cons.2 ⟨?_, h⟩
      intro b hb
      simp only [List.mem_cons] at hb
      rcases hb with rfl | hb'
      · omega
      · have := h'.1 b hb'; omega

theorem argsortFold (key : Nat → Nat) (l acc : List Nat) (h : acc.Pairwise (fun a b => key b ≤ key a)) :
    (l.foldl (argsortInsert key) acc).Perm (l ++ acc) ∧
    (l.foldl (argsortInsert key) acc).Pairwise (fun a b => key b ≤ key a) := by
  induction l generalizing acc with
  | nil => exact ⟨List.Perm.refl _, h⟩
  | cons x l ih =>
    obtain ⟨h1, h2⟩ := ih (argsortInsert key acc x) (argsortInsert_sorted key acc x h)
    refine ⟨?_, h2⟩
    simp only [List.foldl_cons]
    refine h1.trans ?_
    refine ((argsortInsert_perm key acc x).append_left l).trans ?_
    exact List.perm_middle

/-- `index::argsort` returns a permutation of the positions that sorts the keys (non-strictly) increasingly -/
theorem argsort_spec (l : List Nat) :
    (argsort l).Perm (List.range l.length) ∧ (argsort l).Pairwise (fun a b => l.getD a 0 ≤ l.getD b 0) := by
  obtain ⟨h1, h2⟩ := argsortFold (fun i => l.getD i 0) (List.range l.length) [] List.Pairwise.nil
  constructor
  · unfold argsort
    exact (List.reverse_perm _).trans (by simpa using h1)
  · unfold argsort
    rw [List.pairwise_reverse]
    exact h2

theorem normalizeAxes_lt (n : Nat) (ax : List Int) (p : List Nat) (h : normalizeAxes n ax = some p) :
    ∀ a ∈ p, a < n := by
  intro a ha
  obtain ⟨k, hk, rfl⟩ := List.mem_iff_getElem.1 ha
  have hl := mapM_some_length _ _ _ h
  have hk' : k < ax.length := by omega
  have := (mapM_some_get _ _ _ h k ax[k] (by simp [hk'])).1
  rw [List.getElem?_eq_getElem hk] at this
  exact normalizeAxis_lt _ _ _ this

theorem map_getD_range (l : List Nat) : (List.range l.length).map (fun i => l.getD i 0) = l := by
  apply List.ext_getElem?
  intro k
  simp only [List.getElem?_map]
  by_cases hk : k < l.length
  · simp [List.getElem?_range hk, List.getElem?_eq_getElem hk]
  · rw [List.getElem?_eq_none (by simp; omega), List.getElem?_eq_none (by omega)]; rfl

/-- **moveaxis_to_transpose = NumPy's moveaxis order** (declaratively): for duplicate-free, equally long, in-range
    source / destination lists the order is a permutation of the axes, has every source axis at its destination,
    and keeps the other axes in their original order. -/
theorem moveaxisToTranspose_spec (dim : Nat) (source destination : List Int) (nsrc ndst : List Nat)
    (hs : normalizeAxes dim source = some nsrc) (hd : normalizeAxes dim destination = some ndst)
    (hlen : nsrc.length = ndst.length) (hns : nsrc.Nodup) (hnd : ndst.Nodup) :
    ∃ o, moveaxisToTranspose dim source destination = some o ∧
      o.Perm (List.range dim) ∧
      (∀ (j s d : Nat), nsrc[j]? = some s → ndst[j]? = some d → o[d]? = some s) ∧
      o.filter (fun i => !nsrc.contains i) = (List.range dim).filter (fun i => !nsrc.contains i) := by
  have hlt_s := normalizeAxes_lt dim source nsrc hs
  have hlt_d := normalizeAxes_lt dim destination ndst hd
  have hcnt := count_free (List.range dim) nsrc List.nodup_range hns (fun a ha => by simpa using hlt_s a ha)
  simp only [List.length_range] at hcnt
  obtain ⟨hperm, hsorted⟩ := argsort_spec ndst
  have hargn : (argsort ndst).Nodup := hperm.nodup_iff.2 List.nodup_range
  have harglen : (argsort ndst).length = ndst.length := by simpa using hperm.length_eq
  have hmem : ∀ i ∈ argsort ndst, i < ndst.length := fun i hi => by simpa using hperm.mem_iff.1 hi
  have hstrict : (argsort ndst).Pairwise (fun a b => ndst.getD a 0 < ndst.getD b 0) := by
    refine List.Pairwise.imp_of_mem ?_ (hsorted.and hargn)
    intro a b ha hb hab
    have ha' := hmem a ha
    have hb' := hmem b hb
    have hne : ndst.getD a 0 ≠ ndst.getD b 0 := by
      simp only [List.getD_eq_getElem?_getD, List.getElem?_eq_getElem ha', List.getElem?_eq_getElem hb',
        Option.getD_some]
      intro h
      exact hab.2 ((hnd.getElem_inj_iff).1 h)
    omega
  let ps := (argsort ndst).map (fun i => (ndst.getD i 0, nsrc.getD i 0))
  have hpslen : ps.length = ndst.length := by simp [ps, harglen]
  have hB : ∀ p ∈ ps, p.1 < ((List.range dim).filter (fun i => !nsrc.contains i)).length + ps.length := by
    intro p hp
    simp only [ps, List.mem_map] at hp
    obtain ⟨i, hi, rfl⟩ := hp
    have hi' := hmem i hi
    have : ndst.getD i 0 < dim := by
      rw [List.getD_eq_getElem?_getD, List.getElem?_eq_getElem hi']
      exact hlt_d _ (List.getElem_mem hi')
    simp only [hpslen]
    omega
  have hpsfst : (ps.map Prod.fst).Pairwise (· < ·) := by
    simp only [ps, List.map_map, List.pairwise_map, Function.comp]
    exact hstrict
  obtain ⟨f1, _, f3, f4, f5⟩ := moveaxis_fold ps _ hpsfst hB
  refine ⟨ps.foldl (fun o p => o.insertIdx p.1 p.2) ((List.range dim).filter (fun i => !nsrc.contains i)), ?_, ?_, ?_, ?_⟩
  · simp only [moveaxisToTranspose, hs, hd]
    rw [if_neg (by simpa using hlen)]
    simp only [Option.some.injEq]
    have hz : dim - ((List.range dim).filter (fun i => !nsrc.contains i)).length = ps.length := by
      rw [hpslen]; omega
    rw [← f1, List.foldl_map, hz]
  · refine f5.trans ?_
    have h1 : (ps.map Prod.snd).Perm nsrc := by
      simp only [ps, List.map_map, Function.comp]
      have := hperm.map (fun i => nsrc.getD i 0)
      rw [← hlen, map_getD_range] at this
      exact this
    have h2 : ((List.range dim).filter (fun i => nsrc.contains i)).Perm nsrc := by
      rw [List.perm_ext_iff_of_nodup (List.nodup_range.filter _) hns]
      intro a
      simp only [List.mem_filter, List.mem_range, List.contains_iff_mem]
      exact ⟨fun h => h.2, fun h => ⟨hlt_s a h, h⟩⟩
    refine (h1.append_right _).trans ((h2.symm.append_right _).trans ?_)
    exact List.filter_append_perm (fun i => nsrc.contains i) (List.range dim)
  · intro j s d hjs hjd
    have hj : j < ndst.length := (List.getElem?_eq_some_iff.1 hjd).1
    have hjarg : j ∈ argsort ndst := hperm.mem_iff.2 (by simpa using hj)
    have hp : (d, s) ∈ ps := by
      simp only [ps, List.mem_map]
      exact ⟨j, hjarg, by simp [List.getD_eq_getElem?_getD, hjs, hjd]⟩
    exact f3 (d, s) hp
  · rw [f4 (fun i => !nsrc.contains i)]
    · rw [List.filter_filter]; simp
    · intro p hp
      simp only [ps, List.mem_map] at hp
      obtain ⟨i, hi, rfl⟩ := hp
      have hi' : i < nsrc.length := by rw [hlen]; exact hmem i hi
      simp only [List.getD_eq_getElem?_getD, List.getElem?_eq_getElem hi', Option.getD_some]
      simp

end NmVerif
