import NmVerif.NN.Compose
import NmVerif.NN.Spec
import NmVerif.Lemmas.Reduce
import NmVerif.Props.C06
import NmVerif.Props.C07
import NmVerif.Props.C08
/-
  NN/ComposeLemmas — plumbing for the composed routines: which elements a keepdims reduction folds (`groupL`, `lineOf`,
  `blockOf`), how its result is broadcast back (`specBroadcastIdx` of the keepdims shape = `proj`), spec lemmas of the
  combinators `bin` / `un` / `red`.
-/
namespace NmVerif.NN
open NmVerif.Reduce

variable {α : Type}

/-! ### the group of a source index under a keepdims reduction -/

theorem projL_cons_true (p : Nat → Bool) (o k : Nat) (x : Idx) (h : p o = true) :
    projL p true o (k :: x) = 0 :: projL p true (o + 1) x := by simp [projL, h]

theorem projL_cons_false (p : Nat → Bool) (keep : Bool) (o k : Nat) (x : Idx) (h : p o = false) :
    projL p keep o (k :: x) = k :: projL p keep (o + 1) x := by simp [projL, h]

/-- the source indices sharing the keepdims projection of `i` are exactly `groupL`, in C order -/
theorem filter_projL_eq_groupL (p : Nat → Bool) : ∀ (s : Shape) (o : Nat) (i : Idx), InShape i s →
    (allIdx s).filter (fun x => projL p true o x == projL p true o i) = groupL p o s i := by
  intro s
  induction s with
  | nil =>
    intro o i hi
    cases i with
    | nil => simp [allIdx, groupL]
    | cons _ _ => simp [InShape] at hi
  | cons a t ih =>
    intro o i hi
    cases i with
    | nil => simp [InShape] at hi
    | cons i0 it =>
      simp only [InShape] at hi
      simp only [allIdx, groupL, List.filter_flatMap, List.filter_map]
      cases hp : p o with
      | true =>
        simp only [if_true]
        apply flatMap_congr'
        intro k _
        rw [← ih (o + 1) it hi.2]
        congr 1
        apply List.filter_congr
        intro x _
        simp only [Function.comp, projL_cons_true p o _ _ hp]
        simp
      | false =>
        simp only [Bool.false_eq_true, if_false]
        rw [flatMap_eq_single _ i0 (List.range a) List.nodup_range (by simpa using hi.1)]
        · rw [← ih (o + 1) it hi.2]
          congr 1
          apply List.filter_congr
          intro x _
          simp only [Function.comp, projL_cons_false p true o _ _ hp]
          simp
        · intro k _ hk
          have : (allIdx t).filter ((fun x => projL p true o x == projL p true o (i0 :: it)) ∘ fun x => k :: x) = [] := by
            apply List.filter_eq_nil_iff.2
            intro x _
            simp only [Function.comp, projL_cons_false p true o _ _ hp]
            simp [hk]
          rw [this]; rfl

theorem groupL_congr (p q : Nat → Bool) : ∀ (s : Shape) (o : Nat) (i : Idx),
    (∀ k, o ≤ k → k < o + s.length → p k = q k) → groupL p o s i = groupL q o s i := by
  intro s
  induction s with
  | nil => intro o i _; cases i <;> rfl
  | cons a t ih =>
    intro o i h
    cases i with
    | nil => rfl
    | cons i0 it =>
      have h0 := h o (Nat.le_refl _) (by simp)
      have ih' := ih (o + 1) it (fun k h1 h2 => h k (by omega) (by simp; omega))
      simp only [groupL, h0, ih']

/-- no reduced axis: the group is the index itself -/
theorem groupL_none (p : Nat → Bool) : ∀ (s : Shape) (o : Nat) (i : Idx), InShape i s →
    (∀ k, o ≤ k → k < o + s.length → p k = false) → groupL p o s i = [i] := by
  intro s
  induction s with
  | nil => intro o i hi _; cases i with
    | nil => rfl
    | cons _ _ => simp [InShape] at hi
  | cons a t ih =>
    intro o i hi h
    cases i with
    | nil => simp [InShape] at hi
    | cons i0 it =>
      simp only [InShape] at hi
      have h0 := h o (Nat.le_refl _) (by simp)
      simp [groupL, h0, ih (o + 1) it hi.2 (fun k h1 h2 => h k (by omega) (by simp; omega))]

/-- every axis reduced: the group is the whole index space -/
theorem groupL_all (p : Nat → Bool) : ∀ (s : Shape) (o : Nat) (i : Idx), i.length = s.length →
    (∀ k, o ≤ k → k < o + s.length → p k = true) → groupL p o s i = allIdx s := by
  intro s
  induction s with
  | nil => intro o i _ _; cases i <;> rfl
  | cons a t ih =>
    intro o i hi h
    cases i with
    | nil => simp at hi
    | cons i0 it =>
      have h0 := h o (Nat.le_refl _) (by simp)
      simp [groupL, allIdx, h0, ih (o + 1) it (by simpa using hi) (fun k h1 h2 => h k (by omega) (by simp; omega))]

/-- one reduced axis: the group is the line through `i` along that axis -/
theorem groupL_single : ∀ (s : Shape) (o ax : Nat) (i : Idx), InShape i s → ax < s.length →
    groupL (fun k => decide (k = o + ax)) o s i = lineOf s ax i := by
  intro s
  induction s with
  | nil => intro o ax i _ h; simp at h
  | cons a t ih =>
    intro o ax i hi hax
    cases i with
    | nil => simp [InShape] at hi
    | cons i0 it =>
      simp only [InShape] at hi
      cases ax with
      | zero =>
        have hn := groupL_none (fun k => decide (k = o)) t (o + 1) it hi.2
          (by intro k h1 _; simp; omega)
        have hfm : ∀ (l : List Nat), l.flatMap (fun k => [k :: it]) = l.map (fun k => k :: it) := by
          intro l; induction l with
          | nil => rfl
          | cons x xs ihx => simp [List.flatMap_cons, ihx]
        simp [groupL, lineOf, hn, hfm]
      | succ m =>
        have hm : m < t.length := by simpa using hax
        have hc := groupL_congr (fun k => decide (k = o + (m + 1))) (fun k => decide (k = o + 1 + m)) t (o + 1) it
          (by intro k _ _; simp; omega)
        have hf : (decide (o = o + (m + 1))) = false := by simp
        simp only [groupL, hf, Bool.false_eq_true, if_false, hc, ih (o + 1) m it hi.2 hm]
        simp only [lineOf, List.getElem?_cons_succ]
        cases t[m]? with
        | none => rfl
        | some n => simp [List.map_map, Function.comp_def]

/-- the trailing axes `m ..` reduced: the group is the block of `i` -/
theorem groupL_trailing : ∀ (m : Nat) (s : Shape) (o : Nat) (i : Idx), InShape i s → m ≤ s.length →
    groupL (fun k => decide (o + m ≤ k)) o s i = blockOf s m i := by
  intro m
  induction m with
  | zero =>
    intro s o i hi _
    rw [groupL_all _ s o i hi.length_eq (by intro k h1 _; simp; omega)]
    simp [blockOf]
  | succ m ih =>
    intro s o i hi hm
    cases s with
    | nil => simp at hm
    | cons a t =>
      cases i with
      | nil => simp [InShape] at hi
      | cons i0 it =>
        simp only [InShape] at hi
        have hc := groupL_congr (fun k => decide (o + (m + 1) ≤ k)) (fun k => decide (o + 1 + m ≤ k)) t (o + 1) it
          (by intro k _ _; simp; omega)
        have hf : (decide (o + (m + 1) ≤ o)) = false := by simp
        simp only [groupL, hf, Bool.false_eq_true, if_false, hc, ih t (o + 1) it hi.2 (by simpa using hm)]
        simp [blockOf, List.map_map, Function.comp_def]

/-- the elements a keepdims reduction over the axis set `R` folds for the result index `proj R true i` -/
theorem addressed_keep_eq_groupL (s : Shape) (R : List Nat) (i : Idx) (hi : InShape i s) :
    addressed s R true (proj R true i) = groupL (fun k => decide (k ∈ R)) 0 s i := by
  rw [← filter_projL_eq_groupL _ s 0 i hi]
  unfold addressed
  apply List.filter_congr
  intro x hx
  rw [proj_eq_loop (fun k => decide (k ∈ R)) R true x s.length (mem_allIdx_length hx) (fun _ _ => rfl),
      proj_eq_loop (fun k => decide (k ∈ R)) R true i s.length hi.length_eq (fun _ _ => rfl)]

/-! ### broadcasting a keepdims result (or an operand of the same shape) back against the source -/

theorem specBroadcastIdx_same_len (src : Shape) (d : Idx) (h : d.length = src.length) :
    specBroadcastIdx src d = List.zipWith (fun e x => if e = 1 then 0 else x) src d := by
  unfold specBroadcastIdx
  rw [h, Nat.sub_self, List.drop_zero]

theorem zipWith_sbi_loop (p : Nat → Bool) : ∀ (s : Shape) (o : Nat) (i : Idx), InShape i s →
    List.zipWith (fun e x => if e = 1 then 0 else x) (removeDimsLoop p true o s) i = projL p true o i := by
  intro s
  induction s with
  | nil => intro o i hi; cases i with
    | nil => rfl
    | cons _ _ => simp [InShape] at hi
  | cons a t ih =>
    intro o i hi
    cases i with
    | nil => simp [InShape] at hi
    | cons i0 it =>
      simp only [InShape] at hi
      cases hp : p o with
      | true => simp [removeDimsLoop, projL, hp, ih (o + 1) it hi.2]
      | false =>
        simp only [removeDimsLoop, projL, hp, Bool.false_and, Bool.false_eq_true, if_false, List.zipWith_cons_cons,
          ih (o + 1) it hi.2]
        congr 1
        split <;> omega

theorem removeDimsLoop_keep_length (p : Nat → Bool) : ∀ (s : Shape) (o : Nat), (removeDimsLoop p true o s).length = s.length := by
  intro s
  induction s with
  | nil => intro o; rfl
  | cons a t ih => intro o; simp [removeDimsLoop, ih]

/-- the keepdims result read at the broadcast position of source index `i` is the result element of `i`'s group -/
theorem sbi_keep (s : Shape) (R : List Nat) (i : Idx) (hi : InShape i s) :
    specBroadcastIdx (specShape s R true) i = proj R true i := by
  rw [specShape_eq_loop (fun k => decide (k ∈ R)) R true s (fun _ _ => rfl),
      proj_eq_loop (fun k => decide (k ∈ R)) R true i s.length hi.length_eq (fun _ _ => rfl),
      specBroadcastIdx_same_len _ _ (by rw [removeDimsLoop_keep_length]; exact hi.length_eq)]
  exact zipWith_sbi_loop _ s 0 i hi

theorem zipWith_sbi_self : ∀ (s : Shape) (i : Idx), InShape i s →
    List.zipWith (fun e x => if e = 1 then 0 else x) s i = i := by
  intro s
  induction s with
  | nil => intro i hi; cases i with
    | nil => rfl
    | cons _ _ => simp [InShape] at hi
  | cons a t ih =>
    intro i hi
    cases i with
    | nil => simp [InShape] at hi
    | cons i0 it =>
      simp only [InShape] at hi
      simp only [List.zipWith_cons_cons, ih it hi.2]
      congr 1
      split <;> omega

/-- an operand of the full shape is read at the same index -/
theorem sbi_self (s : Shape) (i : Idx) (hi : InShape i s) : specBroadcastIdx s i = i := by
  rw [specBroadcastIdx_same_len _ _ hi.length_eq]
  exact zipWith_sbi_self s i hi

/-- `bcRev` of a shape with a pointwise "equal or 1" partner of the same length -/
theorem bcRev_dom : ∀ (a b : List Nat), a.length = b.length →
    (∀ (k x y : Nat), a[k]? = some x → b[k]? = some y → 0 < x ∧ (y = x ∨ y = 1)) → bcRev a b = some a := by
  intro a
  induction a with
  | nil => intro b hl _; cases b with
    | nil => rfl
    | cons _ _ => simp at hl
  | cons x xs ih =>
    intro b hl h
    cases b with
    | nil => simp at hl
    | cons y ys =>
      obtain ⟨hx, hy⟩ := h 0 x y rfl rfl
      have hb : bc1 x y = some x := by
        unfold bc1
        rcases hy with rfl | rfl
        · simp
        · by_cases h1 : x = 1
          · subst h1; simp
          · have : x > 1 := by omega
            simp [this]
      simp only [bcRev, hb]
      rw [ih ys (by simpa using hl) (fun k x' y' h1 h2 => h (k + 1) x' y' (by simpa using h1) (by simpa using h2))]
      rfl

theorem removeDimsLoop_keep_getElem? (p : Nat → Bool) : ∀ (s : Shape) (o k : Nat),
    (removeDimsLoop p true o s)[k]? = (s[k]?).map (fun x => if p (o + k) then 1 else x) := by
  intro s
  induction s with
  | nil => intro o k; simp [removeDimsLoop]
  | cons a t ih =>
    intro o k
    cases k with
    | zero => simp [removeDimsLoop]
    | succ k =>
      simp only [removeDimsLoop, Bool.not_true, Bool.and_false, Bool.false_eq_true, if_false,
        List.getElem?_cons_succ, ih (o + 1) k]
      have : o + 1 + k = o + (k + 1) := by omega
      rw [this]

/-- source shape against its keepdims-reduced shape broadcasts to the source shape -/
theorem bshape_keep (s : Shape) (R : List Nat) (hs : Pos s) :
    broadcastShape2 s (specShape s R true) = some s := by
  rw [specShape_eq_loop (fun k => decide (k ∈ R)) R true s (fun _ _ => rfl)]
  unfold broadcastShape2
  rw [bcRev_dom s.reverse _ (by simp [removeDimsLoop_keep_length])]
  · simp
  · intro k x y h1 h2
    have hk : k < s.length := by
      rcases Nat.lt_or_ge k s.length with hk | hk
      · exact hk
      · rw [List.getElem?_eq_none (by simpa using hk)] at h1
        cases h1
    rw [List.getElem?_reverse (by simpa using hk)] at h1
    rw [List.getElem?_reverse (by simpa [removeDimsLoop_keep_length] using hk), removeDimsLoop_keep_length,
      removeDimsLoop_keep_getElem?, h1] at h2
    simp only [Option.map_some, Option.some.injEq] at h2
    refine ⟨hs x (List.mem_of_getElem? h1), ?_⟩
    subst h2
    split <;> simp

theorem broadcastShape2_self (s : Shape) : broadcastShape2 s s = some s := by
  unfold broadcastShape2
  rw [bcRev_self]; simp

theorem pos_specShape_keep (s : Shape) (R : List Nat) (hs : Pos s) : Pos (specShape s R true) := by
  rw [specShape_eq_loop (fun k => decide (k ∈ R)) R true s (fun _ _ => rfl)]
  intro x hx
  obtain ⟨k, hk⟩ := List.mem_iff_getElem?.1 hx
  rw [removeDimsLoop_keep_getElem?] at hk
  cases hsk : s[k]? with
  | none => rw [hsk] at hk; cases hk
  | some y =>
    rw [hsk] at hk
    simp only [Option.map_some, Option.some.injEq] at hk
    subst hk
    split
    · omega
    · exact hs y (List.mem_of_getElem? hsk)

/-! ### spec lemmas of the combinators -/

/-- `bin` on broadcast-compatible operands: the result exists, has the broadcast shape, and element `d` combines
    the operand elements at the NumPy broadcast positions (C06/C07) -/
theorem bin_spec (f : α → α → α) (a b : OArr α) (r : Shape) (ha : Pos a.shape) (hb : Pos b.shape)
    (hr : broadcastShape2 a.shape b.shape = some r) :
    ∃ u, bin f a b = some u ∧ u.shape = r ∧ ∀ d, InShape d r →
      u.get d = optOp f (a.get (specBroadcastIdx a.shape d)) (b.get (specBroadcastIdx b.shape d)) := by
  cases h : ufunc2 (optOp f) a b with
  | none =>
    have h1 := (NmVerif.Props.C07.ufunc2_none_iff_incompatible (optOp f) a b ha hb).1 h
    exact absurd ((NmVerif.Props.C06.broadcast2_eq_some_iff a.shape b.shape ha hb r).1 hr).1 h1
  | some u =>
    obtain ⟨h1, h2⟩ := NmVerif.Props.C07.ufunc2_spec (optOp f) a b u h
    rw [hr, Option.some.injEq] at h1
    refine ⟨joinA u, by simp [bin, h], h1.symm, ?_⟩
    intro d hd
    show (u.get d).join = _
    rw [h2 d (h1 ▸ hd)]
    rfl

/-- `red` on an accepted axis argument: NumPy shape, and element `j` is the fold (from the first element) of the
    addressed source elements in C order (C08) -/
theorem red_spec (op : α → α → α) (a : OArr α) (axis : AxisArg) (keep : Bool) (hs : Pos a.shape)
    (hv : ValidAxes a.shape.length axis) :
    ∃ v, red op a axis keep = some v ∧ v.shape = specShape a.shape (axisSet a.shape.length axis) keep ∧
      ∀ j, InShape j v.shape →
        v.get j = (foldFirst (optOp op) none ((addressed a.shape (axisSet a.shape.length axis) keep j).map a.get)).join := by
  refine ⟨joinA ⟨specShape a.shape (axisSet a.shape.length axis) keep, reduceElem (optOp op) none a axis keep⟩, ?_, rfl, ?_⟩
  · simp [red, reduce, removeDims_eq_spec a.shape axis keep hv]
  · intro j hj
    show (reduceElem (optOp op) none a axis keep j).join = _
    rw [NmVerif.Props.C08.reduce_elem_eq_foldl (optOp op) none a axis keep hs hv j hj]
    rfl

/-- fold of defined elements -/
theorem foldFirst_optOp_map_some {β : Type} (f : α → α → α) (g : β → α) (l : List β) :
    (foldFirst (optOp f) none (l.map (fun i => some (g i)))).join = foldFirst f none (l.map g) :=
  foldFirst_optOp_some f g l

/-! ### keepdims reduction read back through the broadcast -/

/-- the group of a source index under a keepdims reduction over the axis set `R` -/
def grp (s : Shape) (R : List Nat) (d : Idx) : List Idx := addressed s R true (proj R true d)

theorem grp_self {s : Shape} {R : List Nat} {d : Idx} (hd : InShape d s) : d ∈ grp s R d := by
  unfold grp addressed
  exact List.mem_filter.2 ⟨(NmVerif.Props.C01.mem_allIdx_iff s d).2 hd, by simp⟩

theorem grp_inShape {s : Shape} {R : List Nat} {d k : Idx} (hk : k ∈ grp s R d) : InShape k s :=
  mem_allIdx_inShape (List.mem_filter.1 hk).1

theorem grp_same {s : Shape} {R : List Nat} {d k : Idx} (hk : k ∈ grp s R d) : grp s R k = grp s R d := by
  have := (List.mem_filter.1 hk).2
  simp only [beq_iff_eq] at this
  unfold grp
  rw [this]

theorem grp_ne_nil {s : Shape} {R : List Nat} {d : Idx} (hd : InShape d s) : grp s R d ≠ [] :=
  List.ne_nil_of_mem (grp_self hd)

theorem grp_eq_groupL (s : Shape) (R : List Nat) (d : Idx) (hd : InShape d s) :
    grp s R d = groupL (fun k => decide (k ∈ R)) 0 s d := addressed_keep_eq_groupL s R d hd

/-- `a` denotes the total function `g` on the shape `s` -/
def Den (a : OArr α) (s : Shape) (g : Idx → α) : Prop := a.shape = s ∧ ∀ i, InShape i s → a.get i = some (g i)

theorem den_lift (x : Arr α) : Den (lift x) x.shape x.get := ⟨rfl, fun _ _ => rfl⟩

theorem den_un (f : α → α) {a : OArr α} {s : Shape} {g : Idx → α} (h : Den a s g) : Den (un f a) s (fun i => f (g i)) :=
  ⟨h.1, fun i hi => by show (a.get i).map f = _; rw [h.2 i hi]; rfl⟩

/-- keepdims reduction of a defined array: exists, broadcasts back against the source shape, and the element read
    back at the position of source index `d` is the fold over the group of `d` -/
theorem red_keep_back (op : α → α → α) {a : OArr α} {s : Shape} {g : Idx → α} (h : Den a s g) (hs : Pos s)
    (axis : AxisArg) (hv : ValidAxes s.length axis) :
    ∃ v, red op a axis true = some v ∧ Pos v.shape ∧ broadcastShape2 s v.shape = some s ∧
      ∀ d, InShape d s → v.get (specBroadcastIdx v.shape d) =
        foldFirst op none ((grp s (axisSet s.length axis) d).map g) := by
  obtain ⟨hsh, hg⟩ := h
  subst hsh
  obtain ⟨v, h1, h2, h3⟩ := red_spec op a axis true hs hv
  refine ⟨v, h1, by rw [h2]; exact pos_specShape_keep _ _ hs, by rw [h2]; exact bshape_keep _ _ hs, ?_⟩
  intro d hd
  rw [h2, sbi_keep _ _ d hd, h3 _ (by rw [h2]; exact proj_true_inShape _ _ d hd)]
  have : (addressed a.shape (axisSet a.shape.length axis) true (proj (axisSet a.shape.length axis) true d)).map a.get
      = (grp a.shape (axisSet a.shape.length axis) d).map (fun i => some (g i)) := by
    apply List.map_congr_left
    intro k hk
    exact hg k (grp_inShape hk)
  rw [this, foldFirst_optOp_some]

/-- binary ufunc of a defined array of the full shape with a keepdims result `v` read back -/
theorem bin_back (f : α → α → α) {a v : OArr α} {s : Shape} {g : Idx → α} (h : Den a s g) (hs : Pos s)
    (hpv : Pos v.shape) (hb : broadcastShape2 s v.shape = some s) :
    ∃ u, bin f a v = some u ∧ u.shape = s ∧ ∀ d, InShape d s →
      u.get d = optOp f (some (g d)) (v.get (specBroadcastIdx v.shape d)) := by
  obtain ⟨hsh, hg⟩ := h
  subst hsh
  obtain ⟨u, h1, h2, h3⟩ := bin_spec f a v a.shape hs hpv hb
  refine ⟨u, h1, h2, fun d hd => ?_⟩
  rw [h3 d hd, sbi_self _ d hd, hg d hd]

theorem validAxes_single {n : Nat} {axis : Int} (hv : ValidAxis n axis) : ValidAxes n (some [axis]) :=
  ⟨by intro a ha; simp at ha; subst ha; exact hv, by simp⟩

theorem optOp_some_left (f : α → α → α) (x : α) (o : Option α) : optOp f (some x) o = o.map (f x) := by
  cases o <;> rfl

/-- `view::softmax` on an array that denotes `g`: shape kept, and each element is
    `exp(g i − M) / Σ_{k ∈ group} exp(g k − M)` with `M` the fold of `mx` over the group of `i` -/
theorem softmax_core (mx sub add div : α → α → α) (exp : α → α) {a : OArr α} {s : Shape} {g : Idx → α}
    (h : Den a s g) (hs : Pos s) (axis : Int) (hv : ValidAxis s.length axis) :
    ∃ v, softmax mx sub add div exp a axis = some v ∧ v.shape = s ∧ ∀ i, InShape i s →
      v.get i = (foldFirst mx none ((grp s [normAxis s.length axis] i).map g)).bind fun M =>
        (foldFirst add none ((grp s [normAxis s.length axis] i).map fun k => exp (sub (g k) M))).map fun S =>
          div (exp (sub (g i) M)) S := by
  have hva := validAxes_single hv
  have hR : axisSet s.length (some [axis]) = [normAxis s.length axis] := rfl
  -- a = reduce_maximum(x, axis, keepdims)
  obtain ⟨va, ha1, ha2, ha3, ha4⟩ := red_keep_back mx h hs (some [axis]) hva
  -- b = subtract(x, a)
  obtain ⟨vb, hb1, hb2, hb3⟩ := bin_back sub h hs ha2 ha3
  -- every element of b (hence of c = exp(b)) is defined: the group is never empty
  have hM : ∀ d, InShape d s → ∃ M, foldFirst mx none ((grp s [normAxis s.length axis] d).map g) = some M := by
    intro d hd
    exact foldFirst_none_cons mx _ (by simpa using grp_ne_nil (R := [normAxis s.length axis]) hd)
  -- choose the maxima as a function of the index
  have hc : Den (un exp vb) s (fun d => match foldFirst mx none ((grp s [normAxis s.length axis] d).map g) with
      | some M => exp (sub (g d) M) | none => exp (g d)) := by
    refine ⟨hb2, fun d hd => ?_⟩
    show (vb.get d).map exp = _
    obtain ⟨M, hMd⟩ := hM d hd
    rw [hb3 d hd, ha4 d hd, hR]
    simp only [hMd]
    rfl
  -- d = reduce_add(c, axis, keepdims)
  obtain ⟨vd, hd1, hd2, hd3, hd4⟩ := red_keep_back add hc hs (some [axis]) hva
  -- divide(c, d)
  obtain ⟨v, hv1, hv2, hv3⟩ := bin_back div hc hs hd2 hd3
  refine ⟨v, by simp only [softmax, ha1, hb1, hd1, hv1, Option.bind_some], hv2, fun i hi => ?_⟩
  obtain ⟨M, hMi⟩ := hM i hi
  rw [hv3 i hi, hd4 i hi, hR, hMi]
  simp only [Option.bind_some]
  have hgrp : (grp s [normAxis s.length axis] i).map (fun d =>
        match foldFirst mx none ((grp s [normAxis s.length axis] d).map g) with
        | some M => exp (sub (g d) M) | none => exp (g d))
      = (grp s [normAxis s.length axis] i).map (fun k => exp (sub (g k) M)) := by
    apply List.map_congr_left
    intro k hk
    rw [grp_same hk, hMi]
  rw [hgrp, optOp_some_left]

/-- one reduced axis: the group is the line through the index -/
theorem grp_single_eq_lineOf {s : Shape} {ax : Nat} {i : Idx} (hi : InShape i s) (hax : ax < s.length) :
    grp s [ax] i = lineOf s ax i := by
  rw [grp_eq_groupL s [ax] i hi, ← groupL_single s 0 ax i hi hax]
  apply groupL_congr
  intro k _ _
  simp

/-- folds over a non-empty list are defined -/
theorem foldFirst_map_some {β : Type} (f : α → α → α) (g : β → α) {l : List β} (h : l ≠ []) :
    ∃ y, foldFirst f none (l.map g) = some y :=
  foldFirst_none_cons f _ (by simpa using h)

/-- distributing a common divisor over a fold of sums: `Σ (e_k / c) = (Σ e_k) / c` for operations with
    `a/c + b/c = (a+b)/c` -/
theorem foldl_div_distrib (add div : α → α → α) (c : α) (hlaw : ∀ a b, add (div a c) (div b c) = div (add a b) c)
    (l : List α) (a : α) : (l.map (div · c)).foldl add (div a c) = div (l.foldl add a) c := by
  induction l generalizing a with
  | nil => rfl
  | cons b t ih => simp only [List.map_cons, List.foldl_cons, hlaw, ih]

theorem foldFirst_div_distrib (add div : α → α → α) (c : α) (hlaw : ∀ a b, add (div a c) (div b c) = div (add a b) c)
    (l : List α) : foldFirst add none (l.map (div · c)) = (foldFirst add none l).map (div · c) := by
  cases l with
  | nil => rfl
  | cons a t => simp only [List.map_cons, foldFirst, foldl_div_distrib add div c hlaw, Option.map_some]

end NmVerif.NN
