import NmVerif.Lemmas.LinalgList
import NmVerif.Lemmas.Addressing
/-
  Lemmas about the view combinators of NmVerif/Linalg.lean (reshape, tile, transpose/scatter, broadcasting multiply,
  sum over the last axes) on shapes / indices written as `prefix ++ suffix`.
-/
namespace NmVerif
open NmVerif.MB
open Linalg

/-! ### offsets of appended indices; reshape -/

theorem strides_append (s t : List Nat) : strides (s ++ t) = (strides s).map (· * prod t) ++ strides t := by
  induction s with
  | nil => simp [strides]
  | cons a s ih => simp [strides, ih, prod_append]

theorem computeOffset_map_mul (p st : List Nat) (c : Nat) :
    computeOffset p (st.map (· * c)) = computeOffset p st * c := by
  induction p generalizing st with
  | nil => cases st <;> simp [computeOffset]
  | cons x p ih =>
    cases st with
    | nil => simp [computeOffset]
    | cons y st =>
      simp only [List.map_cons, computeOffset, ih, Nat.add_mul]
      congr 1
      rw [Nat.mul_assoc, Nat.mul_comm c x, ← Nat.mul_assoc]

theorem computeOffset_append (p q st1 st2 : List Nat) (h : p.length = st1.length) :
    computeOffset (p ++ q) (st1 ++ st2) = computeOffset p st1 + computeOffset q st2 := by
  induction p generalizing st1 with
  | nil =>
    cases st1 with
    | nil => simp [computeOffset]
    | cons _ _ => simp at h
  | cons x p ih =>
    cases st1 with
    | nil => simp at h
    | cons y st1 =>
      simp only [List.cons_append, computeOffset, ih st1 (by simpa using h)]
      omega

/-- offset of `p ++ q` in shape `s ++ t` -/
theorem offset_append (p q s t : List Nat) (h : p.length = s.length) :
    computeOffset (p ++ q) (strides (s ++ t)) = computeOffset p (strides s) * prod t + computeOffset q (strides t) := by
  rw [strides_append, computeOffset_append _ _ _ _ (by simp [strides_length, h]), computeOffset_map_mul]

theorem reshape_some {α : Type} (a : Arr α) (t : Shape) (h : prod a.shape = prod t) :
    reshape a t = some ⟨t, fun d => a.get (ndindex a.shape (computeOffset d (strides t)))⟩ := by
  simp [reshape, h]

/-- a reshape reads the source element with the same flat position -/
theorem ndindex_of_offset_eq {i s : List Nat} {off : Nat} (hi : InShape i s) (h : computeOffset i (strides s) = off) :
    ndindex s off = i := by
  subst h; exact indices_offset hi

/-! ### tile -/

theorem zipWith_mul_replicate_one (s : List Nat) : List.zipWith (· * ·) s (List.replicate s.length 1) = s := by
  induction s with
  | nil => rfl
  | cons a s ih => simp [List.replicate_succ, ih]

theorem shapeTile_eq_length (s r : List Nat) (h : s.length = r.length) : shapeTile s r = List.zipWith (· * ·) s r := by
  simp [shapeTile, h]

theorem tileIdx_self {d s : List Nat} (h : InShape d s) : tileIdx d s = d := by
  have hl := h.length_eq
  unfold tileIdx
  rw [hl, Nat.sub_self, List.drop_zero]
  induction s generalizing d with
  | nil => cases d <;> simp_all
  | cons a s ih =>
    cases d with
    | nil => simp at hl
    | cons x d =>
      simp only [InShape] at h
      simp only [List.zipWith_cons_cons]
      rw [ih h.2 (by simpa using hl), Nat.mod_eq_of_lt h.1]

theorem tileIdx_append {β τ s t : List Nat} (h1 : τ.length = t.length) (h2 : s.length ≤ β.length) :
    tileIdx (β ++ τ) (s ++ t) = tileIdx β s ++ tileIdx τ t := by
  unfold tileIdx
  have e1 : (β ++ τ).length - (s ++ t).length = β.length - s.length := by simp; omega
  rw [e1, List.drop_append_of_le_length (by omega)]
  have e2 : τ.length - t.length = 0 := by omega
  rw [e2, List.drop_zero]
  rw [List.zipWith_append (by simp; omega)]

/-! ### scatter / transpose -/

/-- the fold of `scatter` -/
def scatterFold (acc : List Nat) (ps : List (Nat × Nat)) : List Nat := ps.foldl (fun acc p => acc.set p.2 p.1) acc

theorem scatter_eq (d axes : List Nat) : scatter d axes = scatterFold (List.replicate d.length 0) (d.zip axes) := rfl

theorem scatterFold_append (acc : List Nat) (p q : List (Nat × Nat)) :
    scatterFold acc (p ++ q) = scatterFold (scatterFold acc p) q := by simp [scatterFold, List.foldl_append]

/-- writing `γ` onto the positions `s, s+1, …` -/
theorem scatterFold_range' (pre γ rest : List Nat) (zs : List Nat) (hz : zs.length = γ.length) :
    scatterFold (pre ++ zs ++ rest) (γ.zip (List.range' pre.length γ.length)) = pre ++ γ ++ rest := by
  induction γ generalizing pre zs with
  | nil => cases zs <;> simp_all [scatterFold]
  | cons x γ ih =>
    cases zs with
    | nil => simp at hz
    | cons z zs =>
      simp only [List.length_cons, List.range'_succ, List.zip_cons_cons, scatterFold, List.foldl_cons]
      have : (pre ++ z :: zs ++ rest).set pre.length x = (pre ++ [x]) ++ zs ++ rest := by
        simp [List.set_append_right]
      rw [this]
      have := ih (pre ++ [x]) zs (by simpa using hz)
      simp only [scatterFold, List.length_append, List.length_cons, List.length_nil] at this
      rw [this]; simp

/-- a fold that only touches positions ≥ `γ.length` leaves the prefix alone -/
theorem scatterFold_shift (γ acc : List Nat) (ps : List (Nat × Nat)) :
    scatterFold (γ ++ acc) (ps.map (fun p => (p.1, p.2 + γ.length))) = γ ++ scatterFold acc ps := by
  induction ps generalizing acc with
  | nil => simp [scatterFold]
  | cons p ps ih =>
    simp only [List.map_cons, scatterFold, List.foldl_cons]
    have : (γ ++ acc).set (p.2 + γ.length) p.1 = γ ++ acc.set p.2 p.1 := by
      rw [List.set_append_right _ _ (by omega)]; simp
    rw [this]
    exact ih _

/-- identity prefix followed by a permutation of the trailing axes -/
theorem scatter_append_range (γ δ σ : List Nat) (h : δ.length = σ.length) :
    scatter (γ ++ δ) (List.range γ.length ++ σ.map (· + γ.length)) = γ ++ scatter δ σ := by
  rw [scatter_eq, List.zip_append (by simp), scatterFold_append]
  have h1 : List.replicate (γ ++ δ).length 0 = [] ++ List.replicate γ.length 0 ++ List.replicate δ.length 0 := by
    simp [List.replicate_append_replicate]
  rw [h1, List.range_eq_range']
  have := scatterFold_range' [] γ (List.replicate δ.length 0) (List.replicate γ.length 0) (by simp)
  simp only [List.length_nil] at this
  rw [this]
  have h2 : δ.zip (σ.map (· + γ.length)) = (δ.zip σ).map (fun p => (p.1, p.2 + γ.length)) := by
    rw [List.zip_map_right]; simp [Prod.map]
  rw [h2]
  simp only [List.nil_append]
  rw [scatterFold_shift]
  rfl

theorem scatter_swap_last2 (γ : List Nat) (x y : Nat) :
    scatter (γ ++ [x, y]) (List.range γ.length ++ [γ.length + 1, γ.length]) = γ ++ [y, x] := by
  have := scatter_append_range γ [x, y] [1, 0] rfl
  simp only [List.map_cons, List.map_nil, Nat.zero_add] at this
  rw [show (1 + γ.length) = γ.length + 1 by omega] at this
  rw [this]; rfl

theorem scatter_range (γ : List Nat) : scatter γ (List.range γ.length) = γ := by
  have := scatter_append_range γ [] [] rfl
  simpa [scatter] using this

theorem range_add_two (n : Nat) : List.range (n + 2) = List.range n ++ [n, n + 1] := by
  rw [List.range_succ, List.range_succ]; simp

theorem swapLast2_range (n : Nat) : swapLast2 (List.range (n + 2)) = List.range n ++ [n + 1, n] := by
  rw [range_add_two, swapLast2_append]

theorem mapM_getElem?_range (s : List Nat) : (List.range s.length).mapM (fun k => s[k]?) = some s := by
  rw [mapM_range_some s.length (fun k => s[k]?) (fun k => s.getD k 0)]
  · congr 1
    apply List.ext_getElem
    · simp
    · intro i h1 h2; simp at h1; simp [List.getElem?_eq_getElem h1]
  · intro i hi; simp [List.getD_eq_getElem?_getD, List.getElem?_eq_getElem hi]

/-- `transpose` by "identity, last two axes swapped" -/
theorem transpose_swap_last2 {α : Type} (a : Arr α) (b : Shape) (x y : Nat) (h : a.shape = b ++ [x, y]) :
    transpose a (List.range b.length ++ [b.length + 1, b.length]) =
      some ⟨b ++ [y, x], fun d => a.get (scatter d (List.range b.length ++ [b.length + 1, b.length]))⟩ := by
  unfold transpose
  have : (List.range b.length ++ [b.length + 1, b.length]).mapM (fun k => a.shape[k]?) = some (b ++ [y, x]) := by
    rw [List.mapM_append, h]
    have h1 : (List.range b.length).mapM (fun k => (b ++ [x, y])[k]?) = some b := by
      rw [mapM_range_some b.length _ (fun k => b.getD k 0)]
      · congr 1
        apply List.ext_getElem
        · simp
        · intro i h1 h2; simp at h1; simp [List.getElem?_eq_getElem h1]
      · intro i hi
        rw [List.getElem?_append_left hi]; simp [List.getElem?_eq_getElem hi]
    rw [h1]
    simp
  rw [this]

theorem transpose_range {α : Type} (a : Arr α) : transpose a (List.range a.shape.length) = some ⟨a.shape, fun d => a.get (scatter d (List.range a.shape.length))⟩ := by
  unfold transpose
  rw [mapM_getElem?_range]

theorem allIdx_one (k : Nat) : allIdx [k] = (List.range k).map (fun i => [i]) := by
  simp only [allIdx, List.map_cons, List.map_nil]
  induction (List.range k) with
  | nil => rfl
  | cons a t ih => simp [List.flatMap_cons, ih]

theorem sumLast_one_shape {α : Type} (m : Arr α) (S : Shape) (K : Nat) (h : m.shape = S ++ [K]) :
    (sumLast 1 m).shape = S := by simp [sumLast, h]

theorem sumLast_one_get {α : Type} (m : Arr α) (S : Shape) (K : Nat) (h : m.shape = S ++ [K]) (d : Idx) :
    (sumLast 1 m).get d = (List.range K).map (fun kk => m.get (d ++ [kk])) := by
  simp [sumLast, h, allIdx_one]

theorem bcIdx_single {kk k : Nat} (h : kk < k) : bcIdx [kk] [k] = [kk] := bcIdx_self (by simpa [InShape] using h)

/-- `sum(multiply(a, c), -1)` when both operands end in the same extent `K`: the leading axes broadcast and the terms
    are the pairs along the last axis, `k = 0 … K-1` in order -/
theorem contract_last (a c : Arr Idx) (X Y bs : Shape) (K : Nat) (ha : a.shape = X ++ [K]) (hc : c.shape = Y ++ [K])
    (hbs : broadcastShape X Y = some bs) :
    ∃ r, (mulT a c).map (sumLast 1) = some r ∧ r.shape = bs ∧
      ∀ d, d.length = bs.length →
        r.get d = (List.range K).map (fun kk => (a.get (bcIdx d X ++ [kk]), c.get (bcIdx d Y ++ [kk]))) := by
  have hlen := broadcastShape_length hbs
  have hsh : broadcastShape a.shape c.shape = some (bs ++ [K]) := by
    rw [ha, hc, broadcastShape_append_one, bc1_self]; simp [hbs]
  simp only [mulT, bcast2, hsh, Option.map_some]
  refine ⟨_, rfl, ?_, ?_⟩
  · rw [sumLast_one_shape _ bs K rfl]
  · intro d hd
    rw [sumLast_one_get _ bs K rfl]
    apply List.map_congr_left
    intro kk hkk
    have hkk' := List.mem_range.1 hkk
    simp only [ha, hc]
    rw [bcIdx_append (β := d) (τ := [kk]) (s := X) (t := [K]) (by simp) (by omega),
        bcIdx_append (β := d) (τ := [kk]) (s := Y) (t := [K]) (by simp) (by omega), bcIdx_single hkk']

end NmVerif
