// C16 harness helpers: operand construction, canonical printing of a (maybe-)view via element access AND eval.
#pragma once
#include "nmtools/array/ndarray.hpp"
#include "nmtools/array/eval.hpp"
#include "nmtools/utility/at.hpp"
#include "nmtools/array/index/ndindex.hpp"
#include "proto.hpp"
#include <vector>
#include <string>
#include <sstream>
#include <stdexcept>

namespace c16 {
namespace nm = nmtools; namespace na = nmtools::array; namespace meta = nmtools::meta;
using namespace proto;
using elem_t = long long;
using arr_t = na::ndarray_t<std::vector<elem_t>, std::vector<size_t>>;

// operand data: `lin`  a[k] = k+1, b[k] = 2k+3 ; `mix` a pseudo-random small positive integer per (operand, k)
inline elem_t val(const std::string& mode, int operand, size_t k) {
    if (mode == "lin") return operand == 0 ? (elem_t)k + 1 : 2 * (elem_t)k + 3;
    unsigned long long x = ((unsigned long long)k + 1 + 17ull * (unsigned)operand) * 2654435761ull;
    x &= 0xffffffffull;
    return (elem_t)(1 + x % 9973ull);
}
inline arr_t make(const uvec& shape, const std::string& mode, int operand) {
    arr_t a; a.resize(shape);
    size_t n = 1; for (auto e : shape) n *= e;
    for (size_t k = 0; k < n; k++) a.data()[k] = val(mode, operand, k);
    return a;
}
template <typename S> inline uvec to_uvec(const S& s) {
    uvec r; size_t n = nm::len(s); for (size_t i = 0; i < n; i++) r.push_back((size_t)nm::at(s, i)); return r;
}
inline std::string fmtv(const std::vector<elem_t>& v) {
    if (v.empty()) return "[]"; std::ostringstream o; for (size_t i = 0; i < v.size(); i++) { if (i) o << ','; o << v[i]; } return o.str();
}
inline std::vector<uvec> all_idx(const uvec& s) {
    std::vector<uvec> out; size_t n = 1; for (auto e : s) n *= e;
    for (size_t k = 0; k < n; k++) { uvec i(s.size()); size_t r = k; for (size_t d = s.size(); d-- > 0;) { i[d] = r % s[d]; r /= s[d]; } out.push_back(i); }
    return out;
}

// `ok shape=… data=… eval=same|DIFF(...)`: data read through the view's element access in row-major order,
// then the evaluated array (shape + buffer) compared with it.
// one element through the view's own element access; a range-checked container throwing = `X`
template <typename V> std::string elem(const V& v, const uvec& i) {
    try { return std::to_string((elem_t)nm::apply_at(v, i)); } catch (const std::out_of_range&) { return "X"; }
}
template <typename V> std::string show1(const V& v) {
    if constexpr (meta::is_num_v<V>) {
        return "ok shape=[] data=" + std::to_string((elem_t)v) + " eval=same";
    } else {
        uvec shape = to_uvec(nm::shape(v));
        std::string data;
        if (shape.empty()) data = elem(v, uvec{});
        else { bool first = true; for (auto& i : all_idx(shape)) { if (!first) data += ','; first = false; data += elem(v, i); } if (first) data = "[]"; }
        std::string ev = "same";
        try {
            auto e = na::eval(v);
            using E = decltype(e);
            if constexpr (meta::is_num_v<E>) {
                if (!(shape.empty() && data == std::to_string((elem_t)e))) ev = "DIFF(num=" + std::to_string((elem_t)e) + ")";
            } else {
                uvec es = to_uvec(nm::shape(e));
                std::vector<elem_t> ed; size_t n = nm::size(e); for (size_t k = 0; k < n; k++) ed.push_back((elem_t)e.data()[k]);
                if (es != shape || fmtv(ed) != data) ev = "DIFF(shape=" + fmt(es) + ";data=" + fmtv(ed) + ")";
            }
        } catch (const std::out_of_range&) { ev = "crash"; }
        return "ok shape=" + fmt(shape) + " data=" + data + " eval=" + ev;
    }
}
template <typename V> std::string show(const V& v) {
    try {
        if constexpr (meta::is_maybe_v<V>) {
            if (!nm::has_value(v)) return "nothing";
            return show1(*v);
        } else return show1(v);
    } catch (const std::out_of_range&) { return "crash:out_of_range"; }
}
} // namespace c16
