// C10 harness (chains and binary trees): eager evaluation = lazy view, composition unobservable.  Built several times
// with different op masks (C10_MASK0/1/2 = ops compiled at depth 0/1/2 of the main chain over leaf a, C10_BMASK0/1 =
// ops of the chain that builds the right operand of binary operations from leaf b; see lib/props/c10.py).
//
//   comp a=<shape> [la=row|col] [b=<shape>] [bops=<op;…>] [bmat=<bits>] [c=<shape>] ops=<op;op;…> mat=<bits>
//        builds the composition (bit i of mat: step i through array::fn instead of view::fn, i.e. its result is a
//        concrete ndarray before the next step is applied), then
//          B  reads the resulting view element by element (shape + apply_at at every index),
//          A  evaluates it: na::eval(v, None, None, RowMajorResolver) (= what array::fn does), ColumnMajorResolver,
//             and (C10_OLD_RESOLVER) the old default resolver na::eval(v);
//        all must agree in shape and in every element; the row-major buffer must be the C-order element list.
//        answer: ok shape=… data=… col=<buffer of the column-major result>     (or `nothing`)
//                view-eval-differ …   when A and B differ (never equal to any expected answer)
//   into a=… ops=… mat=… oshape=<shape> olayout=row|col
//        evaluates the composition into a caller-supplied ndarray pre-filled with -7: eval(v, None, out);
//        answer: ok shape=<out shape> buf=<raw buffer of out>   [+ events=3:1 appended by proto.hpp on the silent return]
// Floats are printed as bit patterns (f<hex> / d<hex>).
#include "c10_ops.hpp"
using namespace c10;

template <typename X> static std::string finish_comp(const X& x) {
    Obs B = observe(x);
    if (!B.err.empty()) return B.err;
    std::string col = "-";
    if constexpr (meta::is_num_v<X>) {
        if constexpr (meta::is_view_v<X>) {
            auto e = na::eval(x, nm::None, nm::None, na::RowMajorResolver);
            auto ec = na::eval(x, nm::None, nm::None, na::ColumnMajorResolver);
            Obs A = observe(e), AC = observe(ec);
            if (!same(A, B) || !same(AC, B)) return "view-eval-differ view{" + show(B) + "} eval{" + show(A) + "} eval-col{" + show(AC) + "}";
            col = AC.data;
        }
    } else if constexpr (meta::is_view_v<X>) {
        auto e = na::eval(x, nm::None, nm::None, na::RowMajorResolver);
        Obs A = observe(e);
        if (!same(A, B)) return "view-eval-differ view{" + show(B) + "} eval{" + show(A) + "}";
        if (buffer_of(e) != B.data) return "view-eval-differ row-major-buffer{" + buffer_of(e) + "} view{" + show(B) + "}";
        auto ec = na::eval(x, nm::None, nm::None, na::ColumnMajorResolver);
        Obs AC = observe(ec);
        if (!same(AC, B)) return "view-eval-differ view{" + show(B) + "} eval-col{" + show(AC) + "}";
        col = buffer_of(ec);
#ifdef C10_OLD_RESOLVER
        auto eo = na::eval(x);
        Obs AO = observe(eo);
        if (!same(AO, B)) return "view-eval-differ view{" + show(B) + "} eval-default{" + show(AO) + "}";
#endif
    }
    return "ok " + show(B) + " col=" + col;
}

template <typename O, typename X> static std::string into_with(const X& x, const uvec& oshape) {
    if constexpr (meta::is_num_v<X> || !meta::is_view_v<X>) return "not-a-view";
    else {
        O out; out.resize(oshape);
        size_t n = nm::size(out);
        for (size_t k = 0; k < n; k++) out.data()[k] = (elem_t)-7;
        na::eval(x, nm::None, out);
        return "ok shape=" + fmt(to_uvec(nm::shape(out))) + " buf=" + buffer_of(out);
    }
}

template <typename L> static std::string serve(const std::string& op, const Args& a, const L& leaf) {
    auto ops = parse_ops(get(a, "ops"));
    unsigned mat = has(a, "mat") ? (unsigned)integer(a, "mat") : 0u;
    auto bops = has(a, "bops") ? parse_ops(get(a, "bops")) : std::vector<Op>{};
    unsigned bmat = has(a, "bmat") ? (unsigned)integer(a, "bmat") : 0u;
    arr_t bleaf = has(a, "b") ? mk(nats(a, "b"), 1000) : arr_t{};
    arr_t cleaf = has(a, "c") ? mk_cond(nats(a, "c")) : arr_t{};
    uvec oshape; bool col = false;
    if (op == "into") { oshape = nats(a, "oshape"); col = has(a, "olayout") && get(a, "olayout") == "col"; }
    auto fin = [&](const auto& x) -> std::string {
        if (op == "comp") return finish_comp(x);
#ifndef C10_NO_INTO
        return col ? into_with<carr_t>(x, oshape) : into_with<arr_t>(x, oshape);
#else
        return "unknown-op";
#endif
    };
    // right operand first (its type is part of the type of everything built on it), then the main chain
    Prog<arr_t> pb{bops, bmat, bleaf, cleaf};
    return run<1, 0>(bleaf, pb, 0, [&](const auto& bv) -> std::string {
        using B = meta::remove_cvref_t<decltype(bv)>;
        if constexpr (meta::is_num_v<B>) return "num-operand";
        else {
            Prog<B> p{ops, mat, bv, cleaf};
            return run<0, 0>(leaf, p, 0, fin);
        }
    });
}

std::string handle(const std::string& op, const Args& a) {
    if (op != "comp" && op != "into") return "unknown-op";
    auto s = nats(a, "a");
#ifdef C10_COL_LEAF
    if (has(a, "la") && get(a, "la") == "col") return serve(op, a, mk<carr_t>(s));
#endif
    return serve(op, a, mk<arr_t>(s));
}
