"""C20 — array objects keep their invariants under resize / write / copy / cast and writes through mutable views."""
import itertools, json, os, re
from runner import Case
from shapes import shapes, prod, fmt, all_idx

ID = 'C20'
LEVEL = 'proof'
RULE = ('(1) operation sequences over {resize(shape), fill, write(index,v), copy} of length <= L on 12 array kinds (ndarray_t with dynamic / fixed / '
        'bounded shape and buffer, row and column major, hybrid_ndarray, dynamic_ndarray): every sequence of resize targets drawn from rank 1..3 '
        'shapes incl. dimension-changing and over-capacity ones (exhaustive over a fixed target set for length <= 3, random longer); '
        '(2) extended sequences of <= 6 operations over {resize, write, copy, probe, cast(kind), cast(dtype)} on 14 kinds (the 12 plus two clipped-shape '
        'kinds) held in a variant so that the KIND changes with a cast: every castable (source kind, destination kind) pair x 4 shapes, every '
        '(kind, element type) pair, random longer sequences incl. casts the destination refuses; (3) cast(a, kind) for all 18 kind tags from 5 '
        'compile-time-shaped sources; after every step shape / strides() / addressing strides / element count / contents are compared with the Lean '
        'state machine and checked against the invariants and cast preservation directly; '
        '(4) mutable views: for every source shape (rank 1..3, extents 1..E) in both layouts, every view in scope (ref, flatten, every same-size '
        'reshape target, slices: rank 1 every start/stop in [-n-1, n+1] or None x every step in {None, +-1, +-2, +-3}, integers, ellipsis; rank 2..3 '
        'products of an entry pool incl. negative steps, sampled) and EVERY destination index: a marker is written through the view on the real code '
        'and the WHOLE source buffer compared with the model and with NumPy. non-trivial = sequence contains a refused resize or a dimension change, '
        'a write or a cast; a view with at least one destination index')
EXHAUSTIVE = {'quick': False, 'thorough': False}
ANCHORS = {'NmVerif.NDObj.resize/accepts': 'array::ndarray_t::resize (ndarray.hpp), hybrid_ndarray::resize, dynamic_ndarray::resize',
           'NmVerif.NDObj.write/read?': 'base_ndarray_t::operator()', 'NmVerif.NDObj.init': 'ndarray_t() default constructor',
           'NmVerif.NDObj.castInto/castStep': 'nmtools::cast<dst_t>(a), cast(a, as_value<dst_t>), detail::cast_impl (utility/cast.hpp)',
           'NmVerif.NDObj.kindCfg': 'meta::resolve_optype<void, cast_kind_t, src_t, kind_t> (utility/cast.hpp, array/ndarray/ndarray.hpp)',
           'NmVerif.NDObj.convTo': 'static_cast<element_t> in detail::cast_impl',
           'St.strides (astrides=)': 'row_major_offset_t / column_major_offset_t::strides_ (base_ndarray.hpp)',
           'Driver.C20 mview / mviewall': 'view::mutable_reshape / mutable_flatten / mutable_ref / mutable_slice / apply_mutable_slice, mutable_indexing_t::operator()',
           'NmVerif.reshapeView / flattenView / Slice.sliceView / Slice.dynamicSliceView': 'view::reshaper / view::slicer indexers'}
MANIFEST = dict(
    text='Proof: the class invariant (element count = product of shape, addressing strides match shape and layout for row- AND column-major arrays, kind constraints) holds in EVERY reachable state of the array-object state machine (induction over arbitrary operation sequences, also with casts that change the kind), a refused resize leaves the state unchanged, an accepted one installs exactly the request and keeps the buffer prefix, distinct indices address distinct in-buffer cells; cast to any kind/layout that can take the shape and cast to another element type preserve shape and every (converted) LOGICAL element, all 18 kind tags always fit; a write through mutable_ref / mutable_reshape / mutable_flatten / mutable_slice (every Python-valid index, negative steps included) changes exactly the designated source element and buffer cell. The model is tied to ndarray_t / hybrid_ndarray / dynamic_ndarray / cast / the mutable views by step-by-step differential runs, plus direct invariant, cast-preservation and NumPy checks on the real objects.',
    note='Lean kernel + propext/Classical.choice/Quot.sound. The 15 shape-x-buffer kinds are abstracted to (shape kind, buffer kind, layout). Contents of cells created by a growing resize are unspecified by the property and not compared. strides() of column-major arrays, casts into a kind that refuses the shape and the default state of clipped-shape/fixed-buffer arrays are known findings.',
    technique='Lean 4 invariant induction over operation histories + differential correspondence of operation sequences, casts and view writes')
ASSUMPTIONS = ['cells created by a growing resize are not compared (std::vector zero-fills, static_vector keeps stale values)',
               'fixed_ndarray has no resize; its addressing is C01',
               'element values stay inside int32; element types exercised for cast(dtype): int8, uint8, int16, int64, double (g++ modular conversion)',
               'cast<T> does not compile for static_vector buffers and cast to hybrid_ndarray<T,8,2> only from sources whose shape has compile-time length 2: those pairs are not callable',
               'the default state of hybrid_ndarray / dynamic_ndarray is not modelled (their sequences start with an accepted resize or a cast)']
PARTIAL = []

KINDS = ['dd', 'ddc', 'fd6', 'fd6c', 'df2', 'df3c', 'bb', 'db3', 'b8d', 'ff', 'hyb', 'dyn']
COLMAJOR = {'ddc', 'fd6c', 'df3c', 'lfc'}

# ---- python description of the kinds (independent of the Lean model): used to GENERATE meaningful sequences and to
# classify known findings; (shape kind, buffer kind)
XKINDS = KINDS + ['lf', 'lfc']
SPEC = {'dd': (('dyn',), ('dyn',)), 'ddc': (('dyn',), ('dyn',)), 'fd6': (('dyn',), ('fixed', 6)), 'fd6c': (('dyn',), ('fixed', 6)),
        'df2': (('dim', 2), ('dyn',)), 'df3c': (('dim', 3), ('dyn',)), 'bb': (('maxdim', 3), ('cap', 8)), 'db3': (('maxdim', 3), ('dyn',)),
        'b8d': (('dyn',), ('cap', 8)), 'ff': (('dim', 2), ('fixed', 6)), 'hyb': (('dim', 2), ('cap', 8)), 'dyn': (('dyn',), ('dyn',)),
        'lf': (('clip', (2, 3)), ('fixed', 6)), 'lfc': (('clip', (2, 3)), ('fixed', 6))}
GROUP = {'dd': 0, 'fd6c': 0, 'bb': 0, 'lf': 0, 'ddc': 1, 'df2': 1, 'hyb': 1,
         'fd6': 2, 'db3': 2, 'ff': 2, 'lfc': 2, 'df3c': 3, 'b8d': 3, 'dyn': 3}       # which TU serves a cast target
DTYPES = {'i8': 0, 'f64': 1, 'i64': 1, 'u8': 2, 'i16': 3}
LEN2 = {'df2', 'ff', 'hyb', 'lf', 'lfc'}          # shape type of compile-time length 2: the only sources castable to hyb
NO_DCAST = {'bb', 'b8d'}                          # cast<T> does not compile for static_vector buffers
# destinations never asked to take a shape they refuse: the default state of hybrid_ndarray is not modelled; a refused cast
# into a clipped-shape kind unwraps the Nothing that mutable_flatten returns for the inconsistent default state (assert /
# undefined behaviour, replayed: part of the class of C20.cast-refused-resize)
NO_REFUSED = {'hyb', 'lf', 'lfc'}


def default_shape(kind):
    sk, bk = SPEC[kind]
    n = bk[1] if bk[0] == 'fixed' else 1
    if sk[0] == 'dim':
        return [1] * (sk[1] - 1) + [n]
    if sk[0] == 'clip':
        return [1] * (len(sk[1]) - 1) + [min(n, sk[1][-1])]
    return [n]


def accepts(kind, cur_shape, new):
    """does resize(new) succeed on an array of this kind whose shape is cur_shape (ndarray.hpp:61-147, hybrid.hpp:198)"""
    sk, bk = SPEC[kind]
    if sk[0] == 'dim' and len(new) != sk[1]:
        return False
    if sk[0] == 'maxdim' and len(new) > sk[1]:
        return False
    if sk[0] == 'clip' and (len(new) != len(sk[1]) or any(a > b for a, b in zip(new, sk[1]))):
        return False
    if bk[0] == 'fixed' and prod(new) != bk[1]:
        return False
    if bk[0] == 'cap' and prod(new) > bk[1]:
        return False
    return True


def cast_fits(kind, shape):
    return accepts(kind, default_shape(kind), shape)


def castable(src, dst):
    return dst != 'hyb' or src in LEN2


def harness_specs(tier):
    # -g0: the sanitizer flavour without debug info (halves the build time; crash kinds are read from the report text)
    sp = [dict(name='h_c20_san', src='h_c20.cpp', flavour='san-dbg', extra=['-g0']), dict(name='h_c20', src='h_c20.cpp', flavour='fast')]
    for g in range(4):
        sp.append(dict(name='h_c20c%d_san' % g, src='h_c20c.cpp', flavour='san-dbg', extra=['-DC20_GROUP=%d' % g, '-g0']))
    for g in range(4):
        sp.append(dict(name='h_c20c%d' % g, src='h_c20c.cpp', flavour='fast', extra=['-DC20_GROUP=%d' % g]))
    for l in (0, 1):
        sp.append(dict(name='h_c20m%d_san' % l, src='h_c20m.cpp', flavour='san-dbg', extra=['-DC20_LAY=%d' % l, '-g0']))
        sp.append(dict(name='h_c20k%d_san' % l, src='h_c20k.cpp', flavour='san-dbg', extra=['-DC20_KSRC=%d' % l, '-g0']))
    for l in (0, 1):
        sp.append(dict(name='h_c20m%d' % l, src='h_c20m.cpp', flavour='fast', extra=['-DC20_LAY=%d' % l]))
        sp.append(dict(name='h_c20k%d' % l, src='h_c20k.cpp', flavour='fast', extra=['-DC20_KSRC=%d' % l]))
    return sp


def col_strides(s):
    r = s[::-1]
    st = [prod(r[k + 1:]) for k in range(len(r))]
    return st[::-1]


def row_strides(s):
    return [prod(s[k + 1:]) for k in range(len(s))]


def lay_strides(kind_or_cm, s):
    cm = kind_or_cm if isinstance(kind_or_cm, bool) else (kind_or_cm in COLMAJOR)
    return col_strides(s) if cm else row_strides(s)


def mk(kind, ops, h, tags=()):
    nt = True
    return Case('ndobj kind=%s ops=%s' % (kind, ';'.join(ops)), h, nontrivial=nt, tags=['ndobj', 'kind=' + kind] + list(tags))


def idx_of(s, k):
    out = []
    for e in reversed(s):
        out.append(k % e); k //= e
    return out[::-1]


def gen_classic(tier, rng):
    targets = [[6], [2, 3], [3, 2], [1, 6], [2, 2], [4, 2], [2, 2, 2], [3, 3], [1, 2, 3], [8], [2], [3, 1, 2], [9], [1, 1]]
    hs = ['h_c20', 'h_c20_san']
    L = 3 if tier == 'quick' else 4
    n = 0
    for kind in KINDS:
        tg = targets if kind not in ('hyb',) else [t for t in targets if len(t) == 2]
        for ln in range(1, L + 1):
            seqs = list(itertools.product(range(len(tg)), repeat=ln))
            cap = (200 if ln <= 2 else 120) if tier == 'quick' else 1500   # all ordered pairs of targets are always covered
            if len(seqs) > cap:
                seqs = rng.sample(seqs, cap)
            for sq in seqs:
                if kind == 'hyb' and prod(tg[sq[0]]) > 8:
                    continue      # start legacy classes from an accepted resize (their default state is not modelled)
                ops = []
                for j, ti in enumerate(sq):
                    t = tg[ti]
                    ops.append('resize:' + fmt(t))
                    ops.append('fill:%d' % (10 * (j + 1)))
                # a write at a pseudo-random in-shape index of the last *accepted* target is unknowable here, so write
                # only when the last target is surely accepted: dynamic kinds
                if kind in ('dd', 'ddc', 'dyn'):
                    t = tg[sq[-1]]
                    k = (n * 7) % prod(t)
                    ops.append('write:%s:%d' % (fmt(idx_of(t, k)), 99))
                    ops.append('copy' if kind != 'dyn' else 'fill:1')
                elif kind not in ('hyb',):
                    ops.append('copy')
                if kind not in ('hyb', 'dyn'):
                    ops.append('probe')
                n += 1
                yield mk(kind, ops, hs[n % 2], tags=['len=%d' % ln])
    # writes at every index for kinds where the target is accepted from the initial state
    for kind, tg in [('dd', [[2, 3], [3, 2, 2], [4]]), ('ddc', [[2, 3], [3, 2, 2], [2, 2]]), ('fd6', [[2, 3], [6], [1, 2, 3]]), ('fd6c', [[2, 3], [3, 2]]),
                     ('df2', [[2, 3], [3, 1]]), ('df3c', [[2, 3, 2], [2, 1, 3]]), ('bb', [[2, 3], [2, 2, 2]]), ('ff', [[2, 3], [3, 2]]), ('hyb', [[2, 3], [4, 2]]), ('dyn', [[2, 3], [2, 2, 2]])]:
        for t in tg:
            for i in all_idx(t):
                n += 1
                yield mk(kind, ['resize:' + fmt(t), 'fill:1', 'write:%s:%d' % (fmt(i), 77)], hs[n % 2], tags=['write-every-index'])
    # mutable views: every index of every small shape (and every reshape target)
    E = 3 if tier == 'quick' else 4
    for s in shapes(3, E, min_rank=1):
        N = prod(s)
        for i in all_idx(s):
            n += 1
            yield Case('mview kind=ref shape=%s idx=%s v=-7' % (fmt(s), fmt(i)), hs[n % 2], tags=['mview', 'ref'],
                       oracle='ok data=' + fmt([(-7 if k == sum(a * b for a, b in zip(i, row_strides(s))) else k) for k in range(N)]))
        for k in range(N):
            n += 1
            yield Case('mview kind=flatten shape=%s idx=%d v=-7' % (fmt(s), k), hs[n % 2], tags=['mview', 'flatten'],
                       oracle='ok data=' + fmt([(-7 if j == k else j) for j in range(N)]))
        for to in shapes(3, E, min_rank=1):
            if prod(to) != N or to == s:
                continue
            for i in all_idx(to)[::max(1, N // 4)]:
                n += 1
                k = sum(a * b for a, b in zip(i, row_strides(to)))
                yield Case('mview kind=reshape shape=%s to=%s idx=%s v=-7' % (fmt(s), fmt(to), fmt(i)), hs[n % 2], tags=['mview', 'reshape'],
                           oracle='ok data=' + fmt([(-7 if j == k else j) for j in range(N)]))



# ---- (2) extended sequences: the kind changes with a cast ---------------------------------------------------------

XTARGETS = [[6], [2, 3], [3, 2], [1, 6], [2, 2], [4, 2], [2, 2, 2], [3, 3], [1, 2, 3], [8], [2], [3, 1, 2], [1, 1], [1, 3], [2, 1]]


def kinds_along(kind, ops):
    out = []
    for op in ops:
        if op.startswith('cast:'):
            kind = op.split(':')[1]
        out.append(kind)
    return out


def clipped_colmajor_state(kind, shape):
    """input class of C20.clipped-colmajor-strides: column-major array with a clipped shape whose column-major strides
    are not all <= 1 (with the (2,3) maxima and 6 cells of kind lfc: exactly the shape (2,3))"""
    return kind == 'lfc' and any(x > 1 for x in col_strides(shape))


def make_cmp(kind, ops):
    """IMPL vs MODEL for a sequence: string equality — except that from the first step in the clipped column-major
    state on (known finding C20.clipped-colmajor-strides; the MODEL follows the repaired code) only result, shape,
    strides() and element count are compared; post() judges the rest"""
    ks = kinds_along(kind, ops)

    def cmp(a, b):
        if a == b:
            return True
        if not (a.startswith('ok ') and b.startswith('ok ')):
            return False
        sa, sb = a[3:].split(' | '), b[3:].split(' | ')
        if len(sa) != len(sb) or len(sa) != len(ks):
            return False
        tainted = False
        for k, x, y in zip(ks, sa, sb):
            mx, my = SEG.match(x), SEG.match(y)
            if not mx or not my:
                return False
            if clipped_colmajor_state(k, parse_list(mx.group(2))) or clipped_colmajor_state(k, parse_list(my.group(2))):
                tainted = True
            if tainted:
                if mx.group(1, 2, 3, 4) != my.group(1, 2, 3, 4):
                    return False
            elif x != y:
                return False
        return tainted
    return cmp


def mkx(kind, ops, group, n, tags=()):
    h = 'h_c20c%d%s' % (group, '_san' if n % 2 else '')
    lfc = 'lfc' in kinds_along(kind, ops)
    return Case('ndobj kind=%s x=1 ops=%s' % (kind, ';'.join(ops)), h, nontrivial=True, tags=['ndobjx', 'kind=' + kind] + list(tags),
                cmp=make_cmp(kind, ops) if lfc else None)


def gen_x(tier, rng):
    n = 0
    shapes4 = [[2, 3], [6], [2, 2, 2], [3, 2]]
    # every castable (source, destination) pair x 4 shapes (accepted or refused by either side)
    for src in XKINDS:
        for dst in XKINDS:
            if not castable(src, dst):
                continue
            for sh in shapes4:
                if not accepts(src, default_shape(src), sh):
                    continue
                if dst in NO_REFUSED and not cast_fits(dst, sh):
                    continue          # see NO_REFUSED
                n += 1
                tags = ['cast-pair', 'cast-fits' if cast_fits(dst, sh) else 'cast-refused']
                yield mkx(src, ['resize:' + fmt(sh), 'fill:%d' % (100 + 7 * n % 50), 'cast:' + dst, 'probe'], GROUP[dst], n, tags)
    # every (kind, element type) pair; values around the wrap points of int8 / uint8 / int16
    for k in XKINDS:
        if k in NO_DCAST:
            continue
        for t, g in DTYPES.items():
            for sh, base in [([2, 3], 125), ([3, 2], -130), ([6], 32765), ([2, 3], 253), ([2, 3], -32770), ([1, 2, 3], 126), ([2, 3], 70000)]:
                if not accepts(k, default_shape(k), sh):
                    continue
                n += 1
                yield mkx(k, ['resize:' + fmt(sh), 'fill:%d' % base, 'dcast:' + t, 'copy'], g, n, ['dcast', 'dtype=' + t])
    # random sequences of <= 6 operations (fills after a resize are not counted)
    count = 1500 if tier == 'quick' else 30000
    for _ in range(count):
        g = rng.randint(0, 3)
        kind = rng.choice(XKINDS)
        start = kind
        shape = default_shape(kind)
        ops, tags = [], set()
        L = rng.randint(2, 6)
        fresh = kind in ('hyb', 'dyn')       # legacy default state not modelled: first an accepted resize
        for j in range(L):
            r = rng.random()
            if fresh or r < 0.30:
                cand = [t for t in XTARGETS if accepts(kind, shape, t)] if (fresh or rng.random() < 0.7) else XTARGETS
                t = rng.choice(cand)
                ops += ['resize:' + fmt(t), 'fill:%d' % rng.choice([1, 50, 120, 250, 300, 32760, -140])]
                if accepts(kind, shape, t):
                    if len(t) != len(shape):
                        tags.add('dim-change')
                    shape = t
                else:
                    tags.add('resize-refused')
                fresh = False
            elif r < 0.45:
                ops.append('write:%s:%d' % (fmt(idx_of(shape, rng.randrange(prod(shape)))), rng.choice([99, -3, 1000])))
                tags.add('write')
            elif r < 0.55:
                ops.append('copy')
            elif r < 0.62:
                ops.append('probe')
            elif kind in ('lf', 'lfc') and prod(shape) != 6:
                # the inconsistent default state of the clipped kinds (C20.clipped-default-shape) cannot be cast: flatten()
                # of it is Nothing and cast unwraps it (assertion / undefined behaviour, replayed)
                ops.append('copy')
            elif r < 0.88:
                cand = [d for d in XKINDS if GROUP[d] == g and castable(kind, d)]
                fit = [d for d in cand if cast_fits(d, shape)]
                if fit and rng.random() < 0.85:
                    d = rng.choice(fit)
                else:
                    cand = [d for d in cand if d not in NO_REFUSED or cast_fits(d, shape)]
                    d = rng.choice(cand)
                ops.append('cast:' + d)
                if cast_fits(d, shape):
                    tags.add('cast')
                else:
                    tags.add('cast-refused'); shape = default_shape(d)
                if (d in COLMAJOR) != (kind in COLMAJOR):
                    tags.add('cast-layout-change')
                kind = d
            else:
                ts = [t for t, tg in DTYPES.items() if tg == g]
                if kind in NO_DCAST:
                    ops.append('copy')
                else:
                    ops.append('dcast:' + rng.choice(ts)); tags.add('dcast')
        n += 1
        yield mkx(start, ops, g, n, sorted(tags) + ['random', 'len=%d' % L])


# ---- (3) cast(a, kind) ---------------------------------------------------------------------------------------------

KTAGS = ['fixed', 'hybrid', 'dynamic'] + [a + '_' + b for a in 'cfhdl' for b in 'fhd']
KSOURCES = [('fx', [4]), ('fx', [2, 3]), ('cf', [2, 3]), ('cfc', [3, 2]), ('cfc', [2, 1, 3])]


def gen_kind(tier, rng):
    import numpy as np
    n = 0
    for src, sh in KSOURCES:
        for t in KTAGS:
            for base in (0, 300) if tier == 'quick' else (0, 300, -7, 1000):
                N = prod(sh)
                logical = np.arange(base, base + N).reshape(sh, order='F' if src == 'cfc' else 'C')
                want = 'ok shape=%s strides=%s astrides=%s n=%d data=%s' % (fmt(sh), fmt(row_strides(sh)), fmt(row_strides(sh)), N,
                                                                           fmt(logical.flatten(order='C')))
                n += 1
                yield Case('castkind src=%s shape=%s tag=%s base=%d' % (src, fmt(sh), t, base), 'h_c20k%d' % (src == 'cfc') + ('_san' if n % 2 else ''),
                           oracle=want, tags=['castkind', 'tag=' + t, 'src=' + src])


# ---- (4) mutable views: every destination index of every view in scope ---------------------------------------------

def fmt_part(v):
    return 'N' if v is None else str(v)


def entry_str(e):
    if e == 'e':
        return 'e'
    if isinstance(e, int):
        return 'i%d' % e
    return ':'.join(fmt_part(v) for v in e)


def entry_py(e):
    if e == 'e':
        return Ellipsis
    if isinstance(e, int):
        return e
    return slice(*e) if len(e) == 3 else slice(e[0], e[1])


def none_pattern(e):
    """None-pattern of a range entry (None for integers / ellipsis); all-int triples have pattern 'A'"""
    if e == 'e' or isinstance(e, int):
        return None
    pat = (len(e),) + tuple(v is None for v in e)
    return 'A' if pat == (3, False, False, False) else pat


def encodings(es):
    """encodings of the C++ API that can express this index (as in the C05 harness)"""
    pats = {none_pattern(e) for e in es} - {None}
    enc = []
    if pats <= {'A'}:
        enc += ['dynA', 'dynP']
    elif len(pats - {'A'}) == 1:
        enc.append('dynP')
    if len(es) == 1:
        enc.append('packed')
    elif len(es) == 2 and all(none_pattern(e) in (None, 'A', (3, True, True, False)) for e in es):
        enc.append('packed')
    return enc


def mview_oracle(s, cm, view):
    """NumPy: `view` maps the array of logical ranks to the destination; None = NumPy rejects the view"""
    import numpy as np
    N = prod(s)
    ranks = np.arange(N).reshape(s)
    try:
        v = np.asarray(view(ranks))
    except (ValueError, IndexError):
        return None
    st = lay_strides(cm, s)
    bufs = []
    for d in np.ndindex(*v.shape):
        r = int(v[d])
        off = sum(a * b for a, b in zip(idx_of(s, r), st))
        bufs.append(fmt([(-7 if k == off else k) for k in range(N)]))
    return 'ok shape=%s bufs=%s' % (fmt(v.shape), ';'.join(bufs) if bufs else '[]')


def gen_mviewall(tier, rng):
    n = 0
    E = 3 if tier == 'quick' else 4

    def case(req, oracle, tags, nontrivial=True):
        nonlocal n
        n += 1
        h = 'h_c20m%d%s' % (1 if ' lay=c ' in req else 0, '_san' if n % 2 else '')
        return Case(req, h, oracle=oracle, tags=['mviewall'] + tags, nontrivial=nontrivial)

    all_shapes = list(shapes(3, E, min_rank=1))
    for s in all_shapes:
        for lay in 'rc':
            cm = lay == 'c'
            base = 'lay=%s shape=%s' % (lay, fmt(s))
            yield case('mviewall kind=ref %s v=-7' % base, mview_oracle(s, cm, lambda a: a), ['ref', 'lay=' + lay])
            yield case('mviewall kind=flatten %s v=-7' % base, mview_oracle(s, cm, lambda a: a.reshape(-1)), ['flatten', 'lay=' + lay])
            for to in all_shapes:
                if prod(to) != prod(s) or to == s:
                    continue
                yield case('mviewall kind=reshape %s to=%s v=-7' % (base, fmt(to)), mview_oracle(s, cm, lambda a: a.reshape(to)), ['reshape', 'lay=' + lay])
                if len(to) >= 2 and (n % 3 == 0):
                    k = n % len(to)
                    to1 = to[:k] + [-1] + to[k + 1:]
                    yield case('mviewall kind=reshape %s to=%s v=-7' % (base, fmt(to1)), mview_oracle(s, cm, lambda a: a.reshape(to1)), ['reshape', 'reshape-infer', 'lay=' + lay])
    # slices, rank 1: every start / stop in [-n-1, n+1] or None, every step in {None, +-1, +-2, +-3}; integers; ellipsis
    for nn in range(1, E + 1):
        bounds = [None] + list(range(-nn - 1, nn + 2))
        for lay in 'rc':
            base = 'lay=%s shape=%d' % (lay, nn)
            singles = [(a, b, c) for a in bounds for b in bounds for c in (None, 1, -1, 2, -2, 3, -3)]
            singles += [(a, b) for a in bounds for b in bounds if (a is None or b is None or (a + b) % 3 == 0)]
            singles += list(range(-nn, nn)) + ['e']
            for e in singles:
                es = [e]
                encs = encodings(es)
                enc = encs[n % len(encs)]
                o = mview_oracle([nn], lay == 'c', lambda a: a[entry_py(e)])
                # an integer on a rank-1 source gives a rank-0 view: one destination index, the empty one
                yield case('mviewall kind=slice %s sl=%s enc=%s v=-7' % (base, entry_str(e), enc), o, ['slice', 'rank1', 'enc=' + enc, 'lay=' + lay]
                           + (['neg-step'] if (not isinstance(e, int) and e != 'e' and len(e) == 3 and e[2] is not None and e[2] < 0) else []))
    # slices, rank 2..3: products of an entry pool, sampled
    def pool(nn, pat):
        """range entries for an axis of extent nn: all-int triples and entries with the request's None-pattern"""
        ints = [(0, nn, 1), (nn - 1, -nn - 1, -1), (1, nn, 2), (nn, 0, -2), (-1, 0, -1), (0, nn + 1, 1), (1, 1, 1), (-nn - 1, nn, 3), (nn - 1, 0, -1)]
        out = list(ints)
        if pat is not None:
            vals = [0, 1, -1, nn, -nn, nn - 1, 2, -2]
            for _ in range(6):
                e = tuple(None if isnone else rng.choice(vals if k < 2 else [1, -1, 2, -2, 3, -3]) for k, isnone in enumerate(pat[1:]))
                if len(e) == 3 and e[2] == 0:
                    continue
                out.append(e)
        return out
    pats = [None] + [(3,) + m for m in itertools.product([False, True], repeat=3) if any(m)] + [(2,) + m for m in itertools.product([False, True], repeat=2)]
    per = {2: (40 if tier == 'quick' else 200), 3: (14 if tier == 'quick' else 100)}
    for s in all_shapes:
        if len(s) < 2:
            continue
        for lay in 'rc':
            seen = set()
            for _ in range(per[len(s)]):
                pat = rng.choice(pats)
                k = rng.randint(1, len(s))
                es, ax, ell = [], 0, False
                while ax < len(s) and len(es) < k + (1 if ell else 0):
                    r = rng.random()
                    if r < 0.15 and not ell:
                        ell = True; es.append('e')
                        ax += rng.randint(0, len(s) - ax - (k - len(es) + 1)) if (len(s) - ax - (k - len(es) + 1)) > 0 else 0
                        continue
                    if r < 0.35:
                        es.append(rng.randrange(-s[ax], s[ax]))
                    else:
                        es.append(rng.choice(pool(s[ax], pat)))
                    ax += 1
                encs = encodings(es)
                if not encs:
                    continue
                key = tuple(entry_str(e) for e in es)
                if key in seen:
                    continue
                seen.add(key)
                enc = encs[n % len(encs)]
                idx = tuple(entry_py(e) for e in es)
                o = mview_oracle(s, lay == 'c', lambda a: a[idx])
                if o is None:
                    continue
                neg = any((not isinstance(e, int)) and e != 'e' and len(e) == 3 and e[2] is not None and e[2] < 0 for e in es)
                yield case('mviewall kind=slice lay=%s shape=%s sl=%s enc=%s v=-7' % (lay, fmt(s), ';'.join(key), enc), o,
                           ['slice', 'rank%d' % len(s), 'enc=' + enc, 'lay=' + lay] + (['neg-step'] if neg else []) + (['ellipsis'] if ell else []),
                           nontrivial=' bufs=[]' not in o)


def gen(tier, rng):
    yield from gen_classic(tier, rng)
    yield from gen_x(tier, rng)
    yield from gen_kind(tier, rng)
    yield from gen_mviewall(tier, rng)


SEG = re.compile(r'r=(\d) shape=(\S+) strides=(\S+) n=(\d+) data=(\S+)(?: astrides=(\S+))?(?: via=(\S+))?')


def parse_list(s):
    return [] if s == '[]' else [int(x) for x in s.split(',')]


def wrap_signed(v, bits):
    return (v + (1 << (bits - 1))) % (1 << bits) - (1 << (bits - 1))


CONV = {'i8': lambda v: wrap_signed(v, 8), 'u8': lambda v: v % 256, 'i16': lambda v: wrap_signed(v, 16), 'i64': lambda v: v, 'f64': lambda v: v}


def logical(data, shape, kind):
    """row-major list of the logical elements of a buffer under the layout of `kind`"""
    st = lay_strides(kind, shape)
    return [data[sum(a * b for a, b in zip(i, st))] for i in all_idx(shape)]


def own_known(predicate):
    """open known findings of this property (the fragment known/C20.json is the source of known_findings.json)"""
    import runner
    out = [e for e in runner.load_known(ID) if e.get('predicate') == predicate]
    if not out:
        frag = os.path.join(os.path.dirname(os.path.dirname(os.path.dirname(os.path.abspath(__file__)))), 'known', 'C20.json')
        if os.path.exists(frag):
            out = [e for e in json.load(open(frag)) if e.get('predicate') == predicate and e.get('status', 'open') == 'open']
    return out


# input classes of the known findings (decided from the request alone; `at` = position of the operation)
def colmajor_reported_strides(kind, shape):
    return kind in COLMAJOR and len(shape) >= 2 and row_strides(shape) != col_strides(shape)


def cast_refused_kind(dst, src_shape):
    return not cast_fits(dst, src_shape)


def clipped_default_state(kind, default_derived):
    return kind in ('lf', 'lfc') and default_derived


KNOWN_PREDICATES = {}     # all three classes are decided inside post() (they need the position inside the sequence)


def post(cases, tier):
    """direct checks on the IMPL answers (independent of the Lean model): class invariant after every step, refused
    resize leaves everything unchanged, cast / dcast preserve shape and (converted) logical values"""
    bad = []
    hits = {'colmajor_reported_strides': [], 'cast_refused_kind': [], 'clipped_default_state': [], 'clipped_colmajor_state': []}

    def hit(pred, c):
        if not hits[pred] or hits[pred][-1] is not c:
            hits[pred].append(c)

    for c in cases:
        if not c.req.startswith('ndobj') or not (c.impl or '').startswith('ok '):
            continue
        kind = re.search(r'kind=(\S+)', c.req).group(1)
        ops = re.search(r'ops=(\S+)', c.req).group(1).split(';')
        segs = c.impl[3:].split(' | ')
        prev = None
        default_derived = True         # no accepted resize / fitting cast since the (default) construction
        tainted = False                # the sequence has been in the clipped column-major state (aliased cells)
        for op, seg in zip(ops, segs):
            m = SEG.match(seg)
            if not m:
                bad.append((c, 'unparsable segment ' + seg)); break
            r, shape, strides, n, data = int(m.group(1)), parse_list(m.group(2)), parse_list(m.group(3)), int(m.group(4)), parse_list(m.group(5))
            astrides = parse_list(m.group(6)) if m.group(6) else None
            src_kind = kind
            refused_cast = False
            if op.startswith('cast:'):
                kind = op.split(':')[1]
                refused_cast = prev is not None and cast_refused_kind(kind, prev[0])
                default_derived = refused_cast
            if op.startswith('resize:') and r == 1:
                default_derived = False
            if n != prod(shape):
                if clipped_default_state(kind, default_derived):
                    hit('clipped_default_state', c)
                else:
                    bad.append((c, 'element count %d != product of shape %s after %s' % (n, shape, op)))
            want = lay_strides(kind, shape)
            if strides != want:
                if colmajor_reported_strides(kind, shape) and strides == row_strides(shape):
                    hit('colmajor_reported_strides', c)
                else:
                    bad.append((c, 'strides %s do not match shape %s / layout after %s' % (strides, shape, op)))
            if astrides is not None and astrides != want:
                if clipped_colmajor_state(kind, shape) and astrides == [min(x, 1) for x in want]:
                    hit('clipped_colmajor_state', c)
                    tainted = True         # cells alias from here on: values are judged by this finding
                else:
                    bad.append((c, 'addressing strides %s do not match shape %s / layout of kind %s after %s' % (astrides, shape, kind, op)))
            if op.startswith('resize:'):
                req = parse_list(op.split(':')[1])
                if r == 1 and shape != req:
                    bad.append((c, 'accepted resize to %s left shape %s' % (req, shape)))
                if r == 0 and prev is not None and (shape, strides, n) != prev[:3]:
                    bad.append((c, 'refused resize to %s changed the array: %s -> %s' % (req, prev[:3], (shape, strides, n))))
                if r == 0 and prev is not None and prev[3] is not None and data != prev[3]:
                    bad.append((c, 'refused resize to %s changed the contents' % req))
            full = data if len(data) == n else None
            if op.startswith('cast:') and prev is not None and prev[3] is not None:
                ok = shape == prev[0] and full is not None and n == prod(shape) and \
                    logical(full, shape, kind) == logical(prev[3], prev[0], src_kind)
                if not ok:
                    if tainted:
                        hit('clipped_colmajor_state', c)
                    elif refused_cast:
                        hit('cast_refused_kind', c)
                    else:
                        bad.append((c, 'cast %s -> %s does not preserve shape / logical values: %s %s -> %s %s' % (src_kind, kind, prev[0], prev[3], shape, data)))
            if op.startswith('dcast:') and prev is not None and prev[3] is not None:
                f = CONV[op.split(':')[1]]
                via = (m.group(7) or '').split('/')
                ok = shape == prev[0] and full == [f(v) for v in prev[3]] and len(via) == 4 and parse_list(via[0]) == shape and \
                    parse_list(via[3]) == full and parse_list(via[2]) == (astrides if astrides is not None else parse_list(via[2]))
                if not ok and tainted:
                    hit('clipped_colmajor_state', c)
                elif not ok and not (n != prod(shape) and clipped_default_state(kind, default_derived)):
                    bad.append((c, 'cast to element type %s does not preserve shape / converted values: %s %s -> %s %s (%s)' % (op, prev[0], prev[3], shape, data, m.group(7))))
            prev = (shape, strides, n, full)
    out = []
    for pred, cs in hits.items():
        if not cs:
            continue
        c = min(cs, key=lambda c: (len(c.req), c.req))
        known = own_known(pred)
        if known:
            print('KNOWN-FINDING: property=C20 id=%s site=%s class="%s" cases=%d e.g. "%s" impl="%s"' % (
                known[0]['id'], known[0].get('call_site'), known[0].get('class'), len(cs), c.req, c.impl[:160]))
        else:
            out.append(('property-fails', 'the property fails on the input class %s (no open known finding): %s -> %s' % (pred, c.req, c.impl[:300]),
                        {'cases': [{'req': c.req, 'harness': c.harness, 'impl_answer': c.impl, 'dom': True}]}, False))
    if bad:
        c, why = min(bad, key=lambda t: (len(t[0].req), t[0].req))
        out.append(('property-fails', 'invariant broken on the real object: %s (%d cases), e.g. %s -> %s' % (why, len(bad), c.req, c.impl[:300]),
                    {'cases': [{'req': b[0].req, 'harness': b[0].harness, 'impl_answer': b[0].impl, 'why': b[1], 'model': b[0].model, 'dom': True} for b in bad[:20]]}, False))
    return out
