import NmVerif.NN.PoolLemmas
import NmVerif.NN.PoolReduceLemmas
import NmVerif.NN.ConvLemmas
import NmVerif.NN.Conv2dLemmas
import NmVerif.NN.ComposeLemmas
import NmVerif.NN.LinearLemmas
import NmVerif.NN.LinearTensordot
import NmVerif.NN.NormLemmas
import NmVerif.NN.BatchNormLemmas
import NmVerif.NN.AxisLemmas
import NmVerif.NN.ChanLemmas
import NmVerif.NN.GroupNormLemmas
import NmVerif.NN.CosineLemmas
import NmVerif.NN.BilinearLemmas
import NmVerif.NN.BilinearRankLemmas
/-
  C17 — neural-network routines equal their reference (PyTorch) definitions.

  MODEL  NmVerif.NN.Conv (view::convnd pipeline), NmVerif.NN.Pool (index::shape_pool2d, slice_pool2d, pool2d window)
         — the code of /repo with the fixes C17-conv-batch, C17-conv2d-dilation-pair, C17-pool-ceil-window,
         C17-max-pool-initial, C17-conv-groups-interleaved and C17-batch-norm-rank applied
  SPEC   NmVerif.NN.Spec (`outSize`, `poolOutSpec`, `specWindow`, `conv1dLoop`, `conv2dLoop` with `grpSpec`)
  Floating-point tolerance is the harness's business; these theorems are about shapes and about which source
  elements are combined.
-/
namespace NmVerif.Props.C17
open NmVerif NmVerif.NN

/-! ## pooling -/

/-- `index::shape_pool2d` gives the PyTorch extents on both pooled axes, for any number of leading axes, in floor mode
    (`⌊(n−k)/s⌋+1`) and in ceil mode (`⌈(n−k)/s⌉+1`, minus one when that last window would start at or beyond the end
    of the input), for every positive kernel that fits and every positive stride. -/
theorem pool_out_shape_eq_formula (lead : List Nat) (H W kh kw sh sw : Nat) (ceil : Bool)
    (hH : PoolDom H kh sh) (hW : PoolDom W kw sw) :
    shapePool2d (lead ++ [H, W]) [kh, kw] [sh, sw] ceil
      = some (lead ++ [poolOutSpec H kh sh ceil, poolOutSpec W kw sw ceil]) := by
  rw [shapePool2d_append, poolExtent_eq_spec ceil hH, poolExtent_eq_spec ceil hW]

example : shapePool2d [2, 3, 5, 7] [2, 3] [2, 2] true = some [2, 3, 3, 3] := by decide
/-- the last-window rule fires: extent 4, kernel 1, stride 2, ceil mode gives 2 windows (starts 0, 2), not 3 -/
example : shapePool2d [4, 4] [1, 1] [2, 2] true = some [2, 2] ∧ PoolDom 4 1 2 := by decide

/-- floor mode is exactly `⌊(n + 2·0 − 1·(k−1) − 1)/s⌋ + 1` -/
theorem pool_out_shape_floor (n k s : Nat) : poolOutSpec n k s false = outSize n k s 0 1 := rfl

private theorem inShape_last2 {lead li : List Nat} (hli : InShape li lead) {i j a b : Nat}
    (h : InShape (li ++ [i, j]) (lead ++ [a, b])) : i < a ∧ j < b := by
  induction lead generalizing li with
  | nil =>
    cases li with
    | nil => simp only [List.nil_append, InShape] at h; exact ⟨h.1, h.2.1⟩
    | cons x xs => simp [InShape] at hli
  | cons x xs ih =>
    cases li with
    | nil => simp [InShape] at hli
    | cons y ys =>
      simp only [InShape] at hli
      simp only [List.cons_append, InShape] at h
      exact ih hli.2 h.2

/-- the source elements `pool2d_t::operator()` hands to the reducer for output index `li ++ [i, j]` are exactly the
    reference window (rows `s_h·i ≤ a < min(s_h·i + k_h, H)`, columns likewise — overhang clipped), in row-major order. -/
theorem pool_elem_eq_window_reduce (lead li : List Nat) (H W kh kw sh sw i j : Nat) (ceil : Bool)
    (hH : PoolDom H kh sh) (hW : PoolDom W kw sw)
    (hidx : InShape (li ++ [i, j]) (lead ++ [poolExtent H kh sh ceil, poolExtent W kw sw ceil]))
    (hli : InShape li lead) :
    poolWindow (lead ++ [H, W]) [kh, kw] [sh, sw] (li ++ [i, j]) = some (specWindow li H W kh kw sh sw i j) := by
  have hij := inShape_last2 hli hidx
  exact poolWindow_eq_spec hli hH.1 hW.1 (pool_start_lt hH hij.1) (pool_start_lt hW hij.2)

example : poolWindow [2, 5, 5] [2, 2] [2, 2] [1, 2, 1] = some [[1, 4, 2], [1, 4, 3]] := by decide

/-- every index of every window lies inside the input (the overhang of ceil mode is clipped, nothing is read
    outside) and the window is non-empty -/
theorem pool_window_in_bounds (lead li : List Nat) (H W kh kw sh sw i j : Nat) (ceil : Bool)
    (hH : PoolDom H kh sh) (hW : PoolDom W kw sw)
    (hidx : InShape (li ++ [i, j]) (lead ++ [poolExtent H kh sh ceil, poolExtent W kw sw ceil]))
    (hli : InShape li lead) :
    ∃ win, poolWindow (lead ++ [H, W]) [kh, kw] [sh, sw] (li ++ [i, j]) = some win
      ∧ win ≠ [] ∧ ∀ x ∈ win, InShape x (lead ++ [H, W]) := by
  refine ⟨_, pool_elem_eq_window_reduce lead li H W kh kw sh sw i j ceil hH hW hidx hli, ?_, specWindow_inShape hli⟩
  have hij := inShape_last2 hli hidx
  have h1 := pool_start_lt hH hij.1
  have h2 := pool_start_lt hW hij.2
  intro hnil
  have hmem : li ++ [sh * i, sw * j] ∈ specWindow li H W kh kw sh sw i j := by
    unfold specWindow
    simp only [List.mem_flatMap, List.mem_map, mem_rangeFrom]
    exact ⟨sh * i, ⟨Nat.le_refl _, by have := hH.1; omega⟩, sw * j, ⟨Nat.le_refl _, by have := hW.1; omega⟩, rfl⟩
  rw [hnil] at hmem
  simp at hmem

example : PoolDom 5 3 2 ∧ poolExtent 5 3 2 true = 2 := by decide

/-! ## pooling: the result (reducer applied to the window) -/

open NmVerif.Reduce in
/-- **max_pool2d = left fold of `maximum` over exactly the window, first element as the initial value.**
    For an input `lead ++ [H, W]` of ANY element type with a `<`, every kernel that fits, every stride, floor and ceil
    mode: the view exists, has the PyTorch shape, and the element at `li ++ [i, j]` is
    `foldl maximum w₀ [w₁, …]` over the values at the reference (clipped) window `specWindow` in row-major order
    (`maximum t u = t > u ? t : u`, `foldFirst … none` = start from the first element — no initial value enters, which
    is what fixes/C17-max-pool-initial repaired) — and it is defined (the window is never empty). -/
theorem max_pool_eq_window_fold {α : Type} [LT α] [DecidableRel (α := α) (· < ·)] (x : Arr α) (lead li : List Nat)
    (H W kh kw sh sw i j : Nat) (ceil : Bool) (hx : x.shape = lead ++ [H, W])
    (hH : PoolDom H kh sh) (hW : PoolDom W kw sw)
    (hidx : InShape (li ++ [i, j]) (lead ++ [poolExtent H kh sh ceil, poolExtent W kw sw ceil]))
    (hli : InShape li lead) :
    ∃ v, maxPool2d x [kh, kw] [sh, sw] ceil = some v ∧
      v.shape = lead ++ [poolOutSpec H kh sh ceil, poolOutSpec W kw sw ceil] ∧
      v.get (li ++ [i, j]) = foldFirst maximum none ((specWindow li H W kh kw sh sw i j).map x.get) ∧
      ∃ y, v.get (li ++ [i, j]) = some y := by
  have hij := inShape_last2 hli hidx
  have h1 := pool_start_lt hH hij.1
  have h2 := pool_start_lt hW hij.2
  have hel := maxPoolElem_eq hli hH.1 hW.1 h1 h2 x hx
  refine ⟨⟨lead ++ [poolOutSpec H kh sh ceil, poolOutSpec W kw sw ceil], maxPoolElem x [kh, kw] [sh, sw]⟩, ?_, rfl, hel, ?_⟩
  · simp only [maxPool2d, hx, pool_out_shape_eq_formula lead H W kh kw sh sw ceil hH hW, Option.map_some]
  · show ∃ y, maxPoolElem x [kh, kw] [sh, sw] (li ++ [i, j]) = some y
    rw [hel]
    obtain ⟨win, hw, hne, _⟩ := pool_window_in_bounds lead li H W kh kw sh sw i j ceil hH hW hidx hli
    rw [pool_elem_eq_window_reduce lead li H W kh kw sh sw i j ceil hH hW hidx hli, Option.some.injEq] at hw
    exact foldFirst_some_of_ne _ (by rw [hw]; simpa using hne)

/-- non-vacuity: 3×3 input `[[-5,-7,-6],[-9,-8,-4],[-3,-2,-1]]` (all negative: an initial value 0 would win), kernel 2,
    stride 2, ceil mode: windows overhang, output 2×2 = `[[-5,-4],[-2,-1]]` -/
example :
    let x : Arr Int := ⟨[3, 3], fun d => match d with | [a, b] => [-5, -7, -6, -9, -8, -4, -3, -2, -1].getD (3 * a + b) 0 | _ => 0⟩
    (maxPool2d x [2, 2] [2, 2] true).map (fun v => (v.shape, (allIdx v.shape).map v.get))
      = some ([2, 2], [some (-5), some (-4), some (-2), some (-1)]) := by decide

open NmVerif.Reduce in
/-- over the integers (and so for integer-valued data) that fold is the greatest element of the window -/
theorem max_pool_int_is_greatest (x : Arr Int) (lead li : List Nat)
    (H W kh kw sh sw i j : Nat) (ceil : Bool) (hx : x.shape = lead ++ [H, W])
    (hH : PoolDom H kh sh) (hW : PoolDom W kw sw)
    (hidx : InShape (li ++ [i, j]) (lead ++ [poolExtent H kh sh ceil, poolExtent W kw sw ceil]))
    (hli : InShape li lead) :
    ∃ v m, maxPool2d x [kh, kw] [sh, sw] ceil = some v ∧ v.get (li ++ [i, j]) = some m ∧
      (∃ p ∈ specWindow li H W kh kw sh sw i j, x.get p = m) ∧
      ∀ p ∈ specWindow li H W kh kw sh sw i j, x.get p ≤ m := by
  obtain ⟨v, hv, _, hel, _⟩ := max_pool_eq_window_fold x lead li H W kh kw sh sw i j ceil hx hH hW hidx hli
  cases hwin : specWindow li H W kh kw sh sw i j with
  | nil =>
    obtain ⟨win, hw, hne, _⟩ := pool_window_in_bounds lead li H W kh kw sh sw i j ceil hH hW hidx hli
    rw [pool_elem_eq_window_reduce lead li H W kh kw sh sw i j ceil hH hW hidx hli, Option.some.injEq] at hw
    exact absurd (hw ▸ hwin) hne
  | cons p0 rest =>
    rw [hwin] at hel
    obtain ⟨hmem, hge⟩ := foldl_maximum_int (rest.map x.get) (x.get p0)
    refine ⟨v, _, hv, hel, ?_, ?_⟩
    · have : (rest.map x.get).foldl maximum (x.get p0) ∈ (p0 :: rest).map x.get := by simpa using hmem
      obtain ⟨p, hp, hpe⟩ := List.mem_map.1 this
      exact ⟨p, hp, hpe⟩
    · intro p hp
      exact hge (x.get p) (by simpa using List.mem_map_of_mem (f := x.get) hp)

example : PoolDom 3 2 2 ∧ InShape ([] ++ [1, 1]) ([] ++ [poolExtent 3 2 2 true, poolExtent 3 2 2 true]) := by decide

open NmVerif.Reduce in
/-- **avg_pool2d = (sum of the window, folded from its first element in row-major order) / (number of window
    elements).**  `add` and `divn` (division by a count) are abstract operations of the promoted element type.  The
    divisor the code uses (`index::product` of the shape of the *clipped* slice) is the number of elements actually
    inside the input: `(min(s_h·i + k_h, H) − s_h·i) · (min(s_w·j + k_w, W) − s_w·j)` — under ceil-mode overhang it is
    smaller than `k_h·k_w`. -/
theorem avg_pool_eq_window_mean {α : Type} (add : α → α → α) (divn : α → Nat → α) (x : Arr α) (lead li : List Nat)
    (H W kh kw sh sw i j : Nat) (ceil : Bool) (hx : x.shape = lead ++ [H, W])
    (hH : PoolDom H kh sh) (hW : PoolDom W kw sw)
    (hidx : InShape (li ++ [i, j]) (lead ++ [poolExtent H kh sh ceil, poolExtent W kw sw ceil]))
    (hli : InShape li lead) :
    ∃ v, avgPool2d add divn x [kh, kw] [sh, sw] ceil = some v ∧
      v.shape = lead ++ [poolOutSpec H kh sh ceil, poolOutSpec W kw sw ceil] ∧
      v.get (li ++ [i, j]) = (foldFirst add none ((specWindow li H W kh kw sh sw i j).map x.get)).map
        (fun S => divn S ((min (sh * i + kh) H - sh * i) * (min (sw * j + kw) W - sw * j))) ∧
      (specWindow li H W kh kw sh sw i j).length = (min (sh * i + kh) H - sh * i) * (min (sw * j + kw) W - sw * j) ∧
      ∃ y, v.get (li ++ [i, j]) = some y := by
  have hij := inShape_last2 hli hidx
  have h1 := pool_start_lt hH hij.1
  have h2 := pool_start_lt hW hij.2
  have hel := avgPoolElem_eq add divn hli hH.1 hW.1 h1 h2 x hx
  rw [specWindow_length] at hel
  refine ⟨⟨lead ++ [poolOutSpec H kh sh ceil, poolOutSpec W kw sw ceil], avgPoolElem add divn x [kh, kw] [sh, sw]⟩,
    ?_, rfl, hel, specWindow_length .., ?_⟩
  · simp only [avgPool2d, hx, pool_out_shape_eq_formula lead H W kh kw sh sw ceil hH hW, Option.map_some]
  · show ∃ y, avgPoolElem add divn x [kh, kw] [sh, sw] (li ++ [i, j]) = some y
    rw [hel]
    obtain ⟨win, hw, hne, _⟩ := pool_window_in_bounds lead li H W kh kw sh sw i j ceil hH hW hidx hli
    rw [pool_elem_eq_window_reduce lead li H W kh kw sh sw i j ceil hH hW hidx hli, Option.some.injEq] at hw
    obtain ⟨S, hS⟩ := foldFirst_some_of_ne add (l := (specWindow li H W kh kw sh sw i j).map x.get) (by rw [hw]; simpa using hne)
    exact ⟨_, by rw [hS]; rfl⟩

/-- non-vacuity: 3×3 input `1..9`, kernel 2, stride 2, ceil mode, rational pairs `(numerator, denominator)` as the
    promoted type: the overhanging windows are divided by 2, 2 and 1, not by 4 -/
example :
    let x : Arr (Int × Nat) := ⟨[3, 3], fun d => match d with | [a, b] => ((3 * a + b + 1 : Nat), 1) | _ => (0, 1)⟩
    (avgPool2d (fun p q => (p.1 + q.1, 1)) (fun p n => (p.1, n)) x [2, 2] [2, 2] true).map
        (fun v => (v.shape, (allIdx v.shape).map v.get))
      = some ([2, 2], [some (12, 4), some (9, 2), some (15, 2), some (9, 1)]) := by decide

/-- **the divisor agrees with PyTorch's** (`avg_pool2d` without padding — nmtools has no padding argument): ATen divides
    by `pool_size = (min(h₀ + k_h, H + p) − h₀)(min(w₀ + k_w, W + p) − w₀)` when `count_include_pad`, and by the clipped
    window size otherwise; at `p = 0` both are the number of window elements the code divides by. -/
theorem avg_pool_divisor_eq_torch (li : Idx) (H W kh kw sh sw i j : Nat) (hi : sh * i < H) (hj : sw * j < W) :
    ((specWindow li H W kh kw sh sw i j).length : Int) = torchCountIncl H kh sh 0 i * torchCountIncl W kw sw 0 j ∧
    ((specWindow li H W kh kw sh sw i j).length : Int) = torchCountExcl H kh sh 0 i * torchCountExcl W kw sw 0 j := by
  rw [specWindow_length, Int.natCast_mul]
  have a1 : ((min (sh * i + kh) H - sh * i : Nat) : Int) = torchCountIncl H kh sh 0 i := by unfold torchCountIncl; omega
  have a2 : ((min (sw * j + kw) W - sw * j : Nat) : Int) = torchCountIncl W kw sw 0 j := by unfold torchCountIncl; omega
  have b1 : ((min (sh * i + kh) H - sh * i : Nat) : Int) = torchCountExcl H kh sh 0 i := by unfold torchCountExcl; omega
  have b2 : ((min (sw * j + kw) W - sw * j : Nat) : Int) = torchCountExcl W kw sw 0 j := by unfold torchCountExcl; omega
  exact ⟨by rw [a1, a2], by rw [b1, b2]⟩

example : ((specWindow [] 3 3 2 2 2 2 1 0).length : Int) = 2 ∧ torchCountIncl 3 2 2 0 1 * torchCountIncl 3 2 2 0 0 = 2 := by decide

/-! ## softmax / softmin (plumbing over an abstract element type with opaque `exp`, `max`, `−`, `+`, `/`) -/

open NmVerif.Reduce in
/-- **softmax over any axis** (negative axes count from the end), any rank, any positive extents, ANY element type and
    element operations: the `view::softmax` composition (`reduce_maximum` keepdims → `subtract` → `exp` → `reduce_add`
    keepdims → `divide`, both keepdims results broadcast back over the axis) exists, has the shape of the input, and the
    element at `i` is `exp(x[i] − M) / S` where, with `L = lineOf shape axis i` = the indices sharing every coordinate
    of `i` except the one on the axis (that coordinate running `0 .. n−1`, in this order),
    `M` is the left fold of `max` over `x[L]` and `S` the left fold of `+` over `exp(x[k] − M)`, `k ∈ L` — exactly those
    elements enter the normalising sum, each once.  Every element is defined. -/
theorem softmax_eq_def {α : Type} (mx sub add div : α → α → α) (exp : α → α) (x : Arr α) (axis : Int)
    (hs : Pos x.shape) (hv : ValidAxis x.shape.length axis) :
    ∃ v, softmax mx sub add div exp (lift x) axis = some v ∧ v.shape = x.shape ∧
      ∀ i, InShape i x.shape →
        (v.get i = (foldFirst mx none ((lineOf x.shape (normAxis x.shape.length axis) i).map x.get)).bind fun M =>
          (foldFirst add none ((lineOf x.shape (normAxis x.shape.length axis) i).map fun k => exp (sub (x.get k) M))).map
            fun S => div (exp (sub (x.get i) M)) S) ∧
        ∃ y, v.get i = some y := by
  obtain ⟨v, h1, h2, h3⟩ := softmax_core mx sub add div exp (den_lift x) hs axis hv
  refine ⟨v, h1, h2, fun i hi => ?_⟩
  have hL := grp_single_eq_lineOf hi (NmVerif.Reduce.normAxis_lt hv)
  have he := h3 i hi
  rw [hL] at he
  refine ⟨he, ?_⟩
  have hne : lineOf x.shape (normAxis x.shape.length axis) i ≠ [] := by rw [← hL]; exact grp_ne_nil hi
  obtain ⟨M, hM⟩ := foldFirst_map_some mx x.get hne
  obtain ⟨S, hS⟩ := foldFirst_map_some add (fun k => exp (sub (x.get k) M)) hne
  exact ⟨_, by rw [he, hM, Option.bind_some, hS]; rfl⟩

/-- non-vacuity: shape (2,3), axis −1 (= 1), index (1,2): the line is `[(1,0), (1,1), (1,2)]` -/
example : Pos [2, 3] ∧ Reduce.ValidAxis 2 (-1) ∧ Reduce.normAxis 2 (-1) = 1 ∧ InShape [1, 2] [2, 3] ∧
    lineOf [2, 3] 1 [1, 2] = [[1, 0], [1, 1], [1, 2]] ∧ lineOf [2, 3] 0 [1, 2] = [[0, 2], [1, 2]] := by decide

/-- the composition evaluated on integers with `exp = id`, `/ = Int division`: row `[1, 5, 2]`, axis −1 → `M = 5`,
    terms `[-4, 0, -3]`, `S = -7`, quotients `(-4)/(-7), 0/(-7), (-3)/(-7)` -/
example :
    let x : Arr Int := ⟨[1, 3], fun d => match d with | [_, b] => [1, 5, 2].getD b 0 | _ => 0⟩
    (softmax Reduce.maximum (· - ·) (· + ·) (· / ·) id (lift x) (-1)).map (fun v => (v.shape, (allIdx v.shape).map v.get))
      = some ([1, 3], [some ((-4) / (-7)), some (0 / (-7)), some ((-3) / (-7))]) := by decide

open NmVerif.Reduce in
/-- **softmin over any axis** = `softmax(negative(x))`: the same statement with every `x[k]` replaced by `neg x[k]` -/
theorem softmin_eq_def {α : Type} (mx sub add div : α → α → α) (exp neg : α → α) (x : Arr α) (axis : Int)
    (hs : Pos x.shape) (hv : ValidAxis x.shape.length axis) :
    ∃ v, softmin mx sub add div exp neg (lift x) axis = some v ∧ v.shape = x.shape ∧
      ∀ i, InShape i x.shape →
        (v.get i = (foldFirst mx none ((lineOf x.shape (normAxis x.shape.length axis) i).map fun k => neg (x.get k))).bind fun M =>
          (foldFirst add none ((lineOf x.shape (normAxis x.shape.length axis) i).map fun k => exp (sub (neg (x.get k)) M))).map
            fun S => div (exp (sub (neg (x.get i)) M)) S) ∧
        ∃ y, v.get i = some y := by
  obtain ⟨v, h1, h2, h3⟩ := softmax_core mx sub add div exp (den_un neg (den_lift x)) hs axis hv
  refine ⟨v, h1, h2, fun i hi => ?_⟩
  have hL := grp_single_eq_lineOf hi (NmVerif.Reduce.normAxis_lt hv)
  have he := h3 i hi
  rw [hL] at he
  refine ⟨he, ?_⟩
  have hne : lineOf x.shape (normAxis x.shape.length axis) i ≠ [] := by rw [← hL]; exact grp_ne_nil hi
  obtain ⟨M, hM⟩ := foldFirst_map_some mx (fun k => neg (x.get k)) hne
  obtain ⟨S, hS⟩ := foldFirst_map_some add (fun k => exp (sub (neg (x.get k)) M)) hne
  exact ⟨_, by rw [he, hM, Option.bind_some, hS]; rfl⟩

example : Pos [2, 2, 2] ∧ Reduce.ValidAxis 3 (-3) ∧ Reduce.normAxis 3 (-3) = 0 ∧
    lineOf [2, 2, 2] 0 [1, 0, 1] = [[0, 0, 1], [1, 0, 1]] := by decide

open NmVerif.Reduce in
/-- **the stabilised form is the textbook formula** `exp(x[i]) / Σ_{k ∈ L} exp(x[k])` for any element operations that
    satisfy the three laws real arithmetic has: `exp(a − m) = exp(a)/exp(m)`, `a/c + b/c = (a+b)/c`,
    `(a/c)/(b/c) = a/b`.  (Floating-point arithmetic satisfies them only approximately: that is the harness's tolerance.) -/
theorem softmax_eq_textbook {α : Type} (mx sub add div : α → α → α) (exp : α → α) (x : Arr α) (axis : Int)
    (hs : Pos x.shape) (hv : ValidAxis x.shape.length axis)
    (hexp : ∀ a m, exp (sub a m) = div (exp a) (exp m))
    (hadd : ∀ a b c, add (div a c) (div b c) = div (add a b) c)
    (hdiv : ∀ a b c, div (div a c) (div b c) = div a b) :
    ∃ v, softmax mx sub add div exp (lift x) axis = some v ∧ v.shape = x.shape ∧
      ∀ i, InShape i x.shape →
        v.get i = (foldFirst add none ((lineOf x.shape (normAxis x.shape.length axis) i).map fun k => exp (x.get k))).map
          fun S => div (exp (x.get i)) S := by
  obtain ⟨v, h1, h2, h3⟩ := softmax_eq_def mx sub add div exp x axis hs hv
  refine ⟨v, h1, h2, fun i hi => ?_⟩
  obtain ⟨he, _⟩ := h3 i hi
  have hL := grp_single_eq_lineOf (s := x.shape) hi (NmVerif.Reduce.normAxis_lt hv)
  have hne : lineOf x.shape (normAxis x.shape.length axis) i ≠ [] := by rw [← hL]; exact grp_ne_nil hi
  obtain ⟨M, hM⟩ := foldFirst_map_some mx x.get hne
  rw [he, hM, Option.bind_some]
  have hmap : (lineOf x.shape (normAxis x.shape.length axis) i).map (fun k => exp (sub (x.get k) M))
      = ((lineOf x.shape (normAxis x.shape.length axis) i).map (fun k => exp (x.get k))).map (div · (exp M)) := by
    rw [List.map_map]; apply List.map_congr_left; intro k _; exact hexp _ _
  rw [hmap, foldFirst_div_distrib add div (exp M) (fun a b => hadd a b (exp M)), Option.map_map]
  congr 1
  funext S
  simp only [Function.comp, hexp, hdiv]

/-! ## linear -/

/-- **linear: `y[p, o] = Σ_i x[p, i] · w[o, i] (+ b[o])`** for an input `lead ++ [I]` of any rank, a weight `[O, I]` and an
    optional bias `[O]`, any positive extents, abstract `add` / `mul`: `view::linear` = `tensordot(input, weight,
    ((-1),(-1)))` (C16 model: transpose, reshape, broadcast multiply, `sum` over the last axis) `+ bias` (C06/C07
    broadcast) exists, has the shape `lead ++ [O]`, and the element at `p ++ [o]` is the left fold of `add`, from the
    first product, over exactly the products `x[p, i] · w[o, i]`, `i = 0 .. I−1` in this order, with `b[o]` added to the
    finished sum. -/
theorem linear_eq_def {α : Type} (add mul : α → α → α) (x w : Arr α) (bias : Option (Arr α)) (lead : Shape)
    (I O : Nat) (hx : x.shape = lead ++ [I]) (hw : w.shape = [O, I]) (hb : ∀ b, bias = some b → b.shape = [O])
    (hp : Pos (lead ++ [O])) :
    ∃ v, linear add mul x w bias = some v ∧ v.shape = lead ++ [O] ∧ ∀ p o, InShape p lead → o < O →
      v.get (p ++ [o]) = match bias with
        | none => Reduce.foldFirst add none ((List.range I).map fun i => mul (x.get (p ++ [i])) (w.get [o, i]))
        | some b => (Reduce.foldFirst add none ((List.range I).map fun i => mul (x.get (p ++ [i])) (w.get [o, i]))).map
                      (fun S => add S (b.get [o])) := by
  obtain ⟨r, hr1, hr2, hr3⟩ := tensordot_last_terms lead I O (hp O (by simp))
  rw [← hx, ← hw] at hr1
  cases bias with
  | none =>
    obtain ⟨v, h1, h2, h3⟩ := linear_rel_nobias add mul x w r hr1
    refine ⟨v, h1, h2.trans hr2, fun p o hpi ho => ?_⟩
    rw [h3, hr3 p o hpi ho, List.map_map]
    rfl
  | some b =>
    obtain ⟨v, h1, h2, h3⟩ := linear_rel_bias add mul x w b r lead O hr1 hr2 hp (hb b rfl)
    refine ⟨v, h1, h2, fun p o hpi ho => ?_⟩
    rw [h3 p o hpi ho, hr3 p o hpi ho, List.map_map]
    rfl

/-- when the contracted extent is positive every element is defined -/
theorem linear_defined {α : Type} (add mul : α → α → α) (x w : Arr α) (bias : Option (Arr α)) (lead : Shape)
    (I O : Nat) (hx : x.shape = lead ++ [I]) (hw : w.shape = [O, I]) (hb : ∀ b, bias = some b → b.shape = [O])
    (hp : Pos (lead ++ [O])) (hI : 0 < I) :
    ∃ v, linear add mul x w bias = some v ∧ ∀ p o, InShape p lead → o < O → ∃ y, v.get (p ++ [o]) = some y := by
  obtain ⟨v, h1, _, h3⟩ := linear_eq_def add mul x w bias lead I O hx hw hb hp
  refine ⟨v, h1, fun p o hpi ho => ?_⟩
  obtain ⟨S, hS⟩ := foldFirst_map_some add (fun i => mul (x.get (p ++ [i])) (w.get [o, i]))
    (l := List.range I) (by intro h; have := congrArg List.length h; simp at this; omega)
  rw [h3 p o hpi ho]
  cases bias with
  | none => exact ⟨S, hS⟩
  | some b => exact ⟨add S (b.get [o]), by simp only [hS]; rfl⟩

/-- non-vacuity: input (2,3), weight (2,3), bias (2): `y[1,0] = (x[1,0]·w[0,0] + x[1,1]·w[0,1] + x[1,2]·w[0,2]) + b[0]`
    = `(4·1 + 5·2 + 6·3) + 10` -/
example :
    let x : Arr Int := ⟨[2, 3], fun d => match d with | [a, b] => (3 * a + b + 1 : Nat) | _ => 0⟩
    let w : Arr Int := ⟨[2, 3], fun d => match d with | [a, b] => (3 * a + b + 1 : Nat) | _ => 0⟩
    let b : Arr Int := ⟨[2], fun d => match d with | [a] => (10 * (a + 1) : Nat) | _ => 0⟩
    (linear (· + ·) (· * ·) x w (some b)).map (fun v => (v.shape, v.get [1, 0])) = some ([2, 2], some 42) := by decide

/-! ## normalisations -/

open NmVerif.Reduce in
/-- **layer_norm: which elements enter the mean and the variance, and what is done with them.**  Input `lead ++ ns`
    of any rank, weight and bias of shape `ns` (the normalised trailing axes, any number of them), abstract element
    operations.  The `view::layer_norm` composition (`mean` and `var` over the axes `−k .. −1` with keepdims, both
    broadcast back, `sqrt(var + eps)`, divide, weight, bias) exists, keeps the shape, and the element at `p ++ q` is
    `((x[p,q] − μ) / sqrt(V/n + eps)) · w[q] + b[q]` where the statistics are taken over exactly the `n = ∏ ns` elements
    `x[p, r]`, `r` running over all of `ns` in row-major order: `μ = (Σ x[p,r]) / n`, `V = Σ |x[p,r] − μ|²`
    (`normAt`).  Every element is defined. -/
theorem layer_norm_eq_def {α : Type} (add sub mul div : α → α → α) (sqabs sqrt : α → α) (divn : α → Nat → α) (eps : α)
    (x w b : Arr α) (lead ns : Shape) (hx : x.shape = lead ++ ns) (hw : w.shape = ns) (hb : b.shape = ns)
    (hp : Pos (lead ++ ns)) :
    ∃ v, layerNorm add sub mul div sqabs sqrt divn eps x w b = some v ∧ v.shape = lead ++ ns ∧
      ∀ p q, InShape p lead → InShape q ns →
        (v.get (p ++ q) = (normAt add sub div sqabs sqrt divn eps x.get ((allIdx ns).map (p ++ ·)) (p ++ q)).map
          fun y => add (mul y (w.get q)) (b.get q)) ∧
        ∃ y, v.get (p ++ q) = some y := by
  have hlen : x.shape.length = lead.length + ns.length := by rw [hx]; simp
  have hpx : Pos x.shape := by rw [hx]; exact hp
  have hva : ValidAxes x.shape.length (some (trailingAxes w.shape.length)) := by
    rw [hlen, hw]; exact validAxes_trailing _ _
  obtain ⟨nrm, hn1, hn2, hn3⟩ := normCore_spec add sub div sqabs sqrt divn eps x (trailingAxes w.shape.length) hpx hva
  have hdrop : (lead ++ ns).drop lead.length = ns := List.drop_left
  have hbr : broadcastShape2 (lead ++ ns) ns = some (lead ++ ns) := by
    have := bshape_trailing (lead ++ ns) lead.length; rwa [hdrop] at this
  have hpn : Pos ns := by have := pos_drop hp lead.length; rwa [hdrop] at this
  obtain ⟨pm, hm1, hm2, hm3⟩ := bin_spec mul nrm (lift w) (lead ++ ns) (by rw [hn2]; exact hpx)
    (by show Pos w.shape; rw [hw]; exact hpn) (by show broadcastShape2 nrm.shape w.shape = _; rw [hn2, hx, hw]; exact hbr)
  obtain ⟨v, ha1, ha2, ha3⟩ := bin_spec add pm (lift b) (lead ++ ns) (by rw [hm2]; exact hp)
    (by show Pos b.shape; rw [hb]; exact hpn) (by show broadcastShape2 pm.shape b.shape = _; rw [hm2, hb]; exact hbr)
  refine ⟨v, by simp only [layerNorm, hn1, hm1, Option.bind_some]; exact ha1, ha2, fun p q hpi hq => ?_⟩
  have hin : InShape (p ++ q) (lead ++ ns) := NN.inShape_append hpi hq
  have hsb : specBroadcastIdx ns (p ++ q) = q := by
    have := sbi_trailing (lead ++ ns) lead.length (p ++ q) hin
    rw [hdrop] at this
    rw [this, ← hpi.length_eq, List.drop_left]
  have hG : grp x.shape (axisSet x.shape.length (some (trailingAxes w.shape.length))) (p ++ q) = (allIdx ns).map (p ++ ·) := by
    rw [hw, grp_trailing x.shape lead.length ns.length hlen (p ++ q) (by rw [hx]; exact hin), hx,
      blockOf_append lead ns p q hpi.length_eq]
  have hval : v.get (p ++ q) = (normAt add sub div sqabs sqrt divn eps x.get ((allIdx ns).map (p ++ ·)) (p ++ q)).map
      fun y => add (mul y (w.get q)) (b.get q) := by
    rw [ha3 _ hin, hm2, sbi_self _ _ hin, hm3 _ hin, hn2, hx, sbi_self _ _ hin, hn3 _ (by rw [hx]; exact hin), hG]
    show optOp add (optOp mul _ (some (w.get (specBroadcastIdx w.shape (p ++ q))))) (some (b.get (specBroadcastIdx b.shape (p ++ q)))) = _
    rw [hw, hb, hsb, optOp_some_right, optOp_some_right, Option.map_map]
    rfl
  refine ⟨hval, ?_⟩
  have hne : (allIdx ns).map (p ++ ·) ≠ [] := by
    rw [← hG]; exact grp_ne_nil (by rw [hx]; exact hin)
  obtain ⟨y, hy⟩ := normAt_defined add sub div sqabs sqrt divn eps x.get (p ++ q) hne
  exact ⟨_, by rw [hval, hy]; rfl⟩

/-- non-vacuity: input (2,2,3), normalised shape (2,3): the block of `[1] ++ [0,2]` is all six `[1, r₀, r₁]` -/
example : Pos ([2] ++ [2, 3]) ∧ InShape [1] [2] ∧ InShape [0, 2] [2, 3] ∧
    (allIdx [2, 3]).map ([1] ++ ·) = [[1, 0, 0], [1, 0, 1], [1, 0, 2], [1, 1, 0], [1, 1, 1], [1, 1, 2]] := by decide

/-- the composition evaluated on rationals-as-pairs is heavy for the kernel; on integers with `divn = Int division`,
    `sqrt = id`, `eps = 1`: row `[1, 2, 6]` → `μ = 3`, `V = 4+1+9 = 14`, `V/3 + 1 = 5`, `(x − 3)/5·w + b` -/
example :
    let x : Arr Int := ⟨[1, 3], fun d => match d with | [_, b] => [1, 2, 6].getD b 0 | _ => 0⟩
    let w : Arr Int := ⟨[3], fun _ => 10⟩
    let b : Arr Int := ⟨[3], fun d => match d with | [a] => (a : Int) | _ => 0⟩
    (layerNorm (· + ·) (· - ·) (· * ·) (· / ·) (fun t => t * t) id (fun (s : Int) (n : Nat) => s / (n : Int)) 1 x w b).map
        (fun v => (v.shape, (allIdx v.shape).map v.get))
      = some ([1, 3], [some ((1 - 3) / 5 * 10 + 0), some ((2 - 3) / 5 * 10 + 1), some ((6 - 3) / 5 * 10 + 2)]) := by decide

/-- **batch_norm (inference form) on an input `(N, C) ++ sp` of ANY rank ≥ 2** (`sp` = no, one, two, … spatial axes) with
    per-channel `mean`, `var`, `weight`, `bias` of shape `(C)`: the composition (each parameter through
    `atleast_nd(·, dim(input) − 1)` and `moveaxis(·, −1, 0)`, i.e. shape `(C, 1, …, 1)`, then element-wise with
    broadcasting) exists, keeps the shape, and
    `out[n, c, q] = ((x[n, c, q] − mean[c]) / sqrt(var[c] + eps)) · weight[c] + bias[c]` — the parameters of the element's
    own channel (axis 1, as PyTorch's `batch_norm`), abstract element operations. -/
theorem batch_norm_eq_def {α : Type} (add sub mul div : α → α → α) (sqrt : α → α) (eps : α) (x m v w b : Arr α)
    (N C : Nat) (sp : Shape) (hx : x.shape = [N, C] ++ sp) (hm : m.shape = [C]) (hv : v.shape = [C]) (hw : w.shape = [C])
    (hb : b.shape = [C]) (hp : Pos ([N, C] ++ sp)) :
    ∃ r, batchNorm add sub mul div sqrt eps x m v w b = some r ∧ r.shape = [N, C] ++ sp ∧
      ∀ n c q, n < N → c < C → InShape q sp →
        r.get ([n, c] ++ q) = some (add (mul (div (sub (x.get ([n, c] ++ q)) (m.get [c])) (sqrt (add (v.get [c]) eps)))
          (w.get [c])) (b.get [c])) := by
  have hnd : batchNormNd x.shape.length = sp.length + 1 := by
    have hl : ([N, C] ++ sp).length = 2 + sp.length := by simp; omega
    rw [hx, hl]; exact batchNormNd_eq sp.length
  obtain ⟨w', hw1, hw2, hw3⟩ := chanParam_spec w C sp.length hw
  obtain ⟨b', hb1, hb2, hb3⟩ := chanParam_spec b C sp.length hb
  obtain ⟨m', hm1, hm2, hm3⟩ := chanParam_spec m C sp.length hm
  obtain ⟨v', hv1, hv2, hv3⟩ := chanParam_spec v C sp.length hv
  rw [← chanParamFront_eq _ C _ hw] at hw1
  rw [← chanParamFront_eq _ C _ hb] at hb1
  rw [← chanParamFront_eq _ C _ hm] at hm1
  rw [← chanParamFront_eq _ C _ hv] at hv1
  have hsd : ∀ c, c < C → (un (fun t => sqrt (add t eps)) v').get (c :: List.replicate sp.length 0) = some (sqrt (add (v.get [c]) eps)) := by
    intro c hc; show (v'.get _).map _ = _; rw [hv3 c hc]; rfl
  obtain ⟨s1, hs1, hs2, hs3⟩ := bin_chanN sub (lift x) m' (fun c => m.get [c]) N C sp hp hx hm2 hm3
  obtain ⟨d1, hd1, hd2, hd3⟩ := bin_chanN div s1 (un (fun t => sqrt (add t eps)) v') (fun c => sqrt (add (v.get [c]) eps))
    N C sp hp hs2 hv2 hsd
  obtain ⟨p1, hp1, hp2, hp3⟩ := bin_chanN mul d1 w' (fun c => w.get [c]) N C sp hp hd2 hw2 hw3
  obtain ⟨r, hr1, hr2, hr3⟩ := bin_chanN add p1 b' (fun c => b.get [c]) N C sp hp hp2 hb2 hb3
  refine ⟨r, by simp only [batchNorm, hnd, hw1, hb1, hm1, hv1, hs1, hd1, hp1, Option.bind_some]; exact hr1, hr2,
    fun n c q hn hc hq => ?_⟩
  rw [hr3 n c q hn hc hq, hp3 n c q hn hc hq, hd3 n c q hn hc hq, hs3 n c q hn hc hq]
  rfl

/-- non-vacuity: a `(N, C)` input, a `(N, C, L)` input and a `(N, C, D, H, W)` input -/
example : Pos ([2, 3] ++ []) ∧ Pos ([2, 3] ++ [4]) ∧ Pos ([1, 2] ++ [2, 1, 3]) ∧ InShape [1, 0, 2] [2, 1, 3] := by decide

/-- the rank-4 form `(N, C, H, W)` (the statement this theorem had before the repair of batch_norm.rank-not-4) -/
theorem batch_norm_nchw_eq_def {α : Type} (add sub mul div : α → α → α) (sqrt : α → α) (eps : α) (x m v w b : Arr α)
    (N C H W : Nat) (hx : x.shape = [N, C, H, W]) (hm : m.shape = [C]) (hv : v.shape = [C]) (hw : w.shape = [C])
    (hb : b.shape = [C]) (hN : 0 < N) (hC : 0 < C) (hH : 0 < H) (hW : 0 < W) :
    ∃ r, batchNorm add sub mul div sqrt eps x m v w b = some r ∧ r.shape = [N, C, H, W] ∧
      ∀ n c h w', n < N → c < C → h < H → w' < W →
        r.get [n, c, h, w'] = some (add (mul (div (sub (x.get [n, c, h, w']) (m.get [c])) (sqrt (add (v.get [c]) eps)))
          (w.get [c])) (b.get [c])) := by
  have hp : Pos ([N, C] ++ [H, W]) := by
    intro z hz; simp at hz; rcases hz with rfl | rfl | rfl | rfl <;> assumption
  obtain ⟨r, h1, h2, h3⟩ := batch_norm_eq_def add sub mul div sqrt eps x m v w b N C [H, W] hx hm hv hw hb hp
  exact ⟨r, h1, h2, fun n c h w' hn hc hh hw'' => h3 n c [h, w'] hn hc (by simp [InShape]; exact ⟨hh, hw''⟩)⟩

example : ([1, 2, 2, 3] : Shape) = [1, 2, 2, 3] ∧ (0 < 1 ∧ 0 < 2 ∧ 0 < 2 ∧ 0 < 3) := by decide

/-- regression instance for the repaired defect batch_norm.rank-not-4 (fixes/C17-batch-norm-rank): on a `(N, C) = (1, 2)`
    input `x = [[1, 2]]` with `mean = (0, 10)`, `var + eps` and `weight` 1, `bias = (0, 100)` the result keeps the shape
    `(1, 2)` and element `[0, 1]` is `(2 − 10)/1·1 + 100 = 92` — the parameters of channel 1.  Before the repair
    (`batchNormOld`: parameters always moved to axis −3 of three, i.e. `(2, 1, 1)`) the result had the shape `(2, 1, 2)`. -/
theorem batch_norm_rank2_regression :
    let x : Arr Int := ⟨[1, 2], fun d => match d with | [_, c] => (c + 1 : Nat) | _ => 0⟩
    let one : Arr Int := ⟨[2], fun _ => 1⟩
    let mean : Arr Int := ⟨[2], fun d => match d with | [c] => (10 * c : Nat) | _ => 0⟩
    let bias : Arr Int := ⟨[2], fun d => match d with | [c] => (100 * c : Nat) | _ => 0⟩
    (batchNorm (· + ·) (· - ·) (· * ·) (· / ·) id 0 x mean one one bias).map (fun r => (r.shape, (allIdx r.shape).map r.get))
        = some ([1, 2], [some 1, some 92])
      ∧ (batchNormOld (· + ·) (· - ·) (· * ·) (· / ·) id 0 x mean one one bias).map (fun r => r.shape) = some [2, 1, 2]
      ∧ x.shape = [1, 2] := by
  decide

/-- … and on a `(N, C, L) = (1, 2, 2)` input: element `[0, 1, 0]` takes the parameters of channel 1 -/
example :
    let x : Arr Int := ⟨[1, 2, 2], fun d => match d with | [_, c, l] => (2 * c + l + 1 : Nat) | _ => 0⟩
    let one : Arr Int := ⟨[2], fun _ => 1⟩
    let mean : Arr Int := ⟨[2], fun d => match d with | [c] => (10 * c : Nat) | _ => 0⟩
    let bias : Arr Int := ⟨[2], fun d => match d with | [c] => (100 * c : Nat) | _ => 0⟩
    (batchNorm (· + ·) (· - ·) (· * ·) (· / ·) id 0 x mean one one bias).map (fun r => (r.shape, (allIdx r.shape).map r.get))
        = some ([1, 2, 2], [some 1, some 2, some 93, some 94]) := by
  decide

/-! ## pairwise_distance -/

open NmVerif.Reduce in
/-- **pairwise_distance = ‖a − b + eps‖ over the last axis** (`vector_norm` with `pre x = |x|^ord`, `post y = y^(1/ord)`,
    both abstract), operands of any ranks that broadcast to `lead ++ [D]`, keepdims either way: the composition exists,
    has the shape `lead` (resp. `lead ++ [1]`), and the element at `p` (resp. `p ++ [0]`) is
    `post (Σ_{k < D} pre ((a[p,k] − b[p,k]) + eps))` — a left fold from the first term, `k` increasing, each operand
    read at its NumPy broadcast position. -/
theorem pairwise_distance_eq_def {α : Type} (add sub : α → α → α) (pre post : α → α) (eps : α) (a b : Arr α)
    (lead : Shape) (D : Nat) (keep : Bool) (hpa : Pos a.shape) (hpb : Pos b.shape)
    (hbr : broadcastShape2 a.shape b.shape = some (lead ++ [D])) :
    ∃ v, pairwiseDistance add sub pre post eps a b keep = some v ∧ v.shape = (if keep then lead ++ [1] else lead) ∧
      ∀ p, InShape p lead →
        v.get (if keep then p ++ [0] else p) =
          (foldFirst add none ((List.range D).map fun k =>
            pre (add (sub (a.get (specBroadcastIdx a.shape (p ++ [k]))) (b.get (specBroadcastIdx b.shape (p ++ [k])))) eps))).map post := by
  have hpr : Pos (lead ++ [D]) := by
    apply NmVerif.Props.C06.broadcast_pos [a.shape, b.shape] (by simp)
      (by intro s hs; simp at hs; rcases hs with rfl | rfl <;> assumption) _
    rw [NmVerif.Props.C06.broadcast_pair]; exact hbr
  obtain ⟨d, hd1, hd2, hd3⟩ := bin_spec sub (lift a) (lift b) (lead ++ [D]) hpa hpb hbr
  have hden : Den (un pre (un (fun t => add t eps) d)) (lead ++ [D]) (fun i =>
      pre (add (sub (a.get (specBroadcastIdx a.shape i)) (b.get (specBroadcastIdx b.shape i))) eps)) := by
    refine ⟨hd2, fun i hi => ?_⟩
    show ((d.get i).map _).map pre = _
    rw [hd3 i hi]
    rfl
  obtain ⟨v, hv1, hv2, hv3⟩ := red_last add hden hpr keep
  refine ⟨un post v, by simp only [pairwiseDistance, hd1, Option.bind_some, vectorNormO, hv1, Option.map_some], hv2, fun p hp => ?_⟩
  show (v.get _).map post = _
  rw [hv3 p hp]

/-- non-vacuity: `(2,3)` against `(3)` broadcasts to `[2] ++ [3]`; row 1 of the first operand against the second -/
example : Pos [2, 3] ∧ Pos [3] ∧ broadcastShape2 [2, 3] [3] = some ([2] ++ [3]) ∧
    specBroadcastIdx [2, 3] ([1] ++ [2]) = [1, 2] ∧ specBroadcastIdx [3] ([1] ++ [2]) = [2] := by decide

example :
    let a : Arr Int := ⟨[2, 3], fun d => match d with | [r, c] => (3 * r + c : Nat) | _ => 0⟩
    let b : Arr Int := ⟨[3], fun _ => 1⟩
    (pairwiseDistance (· + ·) (· - ·) (fun t => t * t) id 0 a b false).map (fun v => (v.shape, (allIdx v.shape).map v.get))
      = some ([2], [some ((0-1)*(0-1) + (1-1)*(1-1) + (2-1)*(2-1)), some ((3-1)*(3-1) + (4-1)*(4-1) + (5-1)*(5-1))]) := by decide

/-- **instance_norm** (1d / 2d / 3d are `ND = |sp|` = 1, 2, 3; the statement holds for every number of spatial axes):
    input `(N, C) ++ sp`, weight and bias `(C)`.  The statistics of the element `[n, c] ++ q` are taken over exactly the
    spatial block of its own sample and channel — the `∏ sp` elements `x[n, c, r]`, `r` over all of `sp` in row-major
    order — and the affine parameters are those of channel `c` (moved to axis `−ND−1` by `atleast_nd` + `moveaxis`):
    `((x[n,c,q] − μ) / sqrt(V/|sp| + eps)) · w[c] + b[c]`. -/
theorem instance_norm_eq_def {α : Type} (add sub mul div : α → α → α) (sqabs sqrt : α → α) (divn : α → Nat → α) (eps : α)
    (x w b : Arr α) (N C : Nat) (sp : Shape) (hx : x.shape = [N, C] ++ sp) (hw : w.shape = [C]) (hb : b.shape = [C])
    (hp : Pos ([N, C] ++ sp)) :
    ∃ v, instanceNorm add sub mul div sqabs sqrt divn eps x w b sp.length = some v ∧ v.shape = [N, C] ++ sp ∧
      ∀ n c q, n < N → c < C → InShape q sp →
        (v.get ([n, c] ++ q) = (normAt add sub div sqabs sqrt divn eps x.get ((allIdx sp).map ([n, c] ++ ·)) ([n, c] ++ q)).map
          fun y => add (mul y (w.get [c])) (b.get [c])) ∧
        ∃ y, v.get ([n, c] ++ q) = some y := by
  obtain ⟨w', hw1, hw2, hw3⟩ := chanParam_spec w C sp.length hw
  obtain ⟨b', hb1, hb2, hb3⟩ := chanParam_spec b C sp.length hb
  obtain ⟨nrm, hn1, hn2, hn3⟩ := normCore_trailing add sub div sqabs sqrt divn eps x [N, C] sp hx hp
  obtain ⟨pm, hm1, hm2, hm3⟩ := bin_chanN mul nrm w' (fun c => w.get [c]) N C sp hp hn2 hw2 hw3
  obtain ⟨v, ha1, ha2, ha3⟩ := bin_chanN add pm b' (fun c => b.get [c]) N C sp hp hm2 hb2 hb3
  refine ⟨v, by simp only [instanceNorm, hw1, hb1, hn1, hm1, Option.bind_some]; exact ha1, ha2, fun n c q hn hc hq => ?_⟩
  have hnc : InShape [n, c] [N, C] := by simp [InShape]; exact ⟨hn, hc⟩
  have hval : v.get ([n, c] ++ q) = (normAt add sub div sqabs sqrt divn eps x.get ((allIdx sp).map ([n, c] ++ ·)) ([n, c] ++ q)).map
      fun y => add (mul y (w.get [c])) (b.get [c]) := by
    rw [ha3 n c q hn hc hq, hm3 n c q hn hc hq, hn3 [n, c] q hnc hq, Option.map_map]
    rfl
  refine ⟨hval, ?_⟩
  have hne : (allIdx sp).map ([n, c] ++ ·) ≠ [] := by
    have hq' := (NmVerif.Props.C01.mem_allIdx_iff sp q).2 hq
    intro h
    have := List.mem_map_of_mem (f := ([n, c] ++ ·)) hq'
    rw [h] at this
    simp at this
  obtain ⟨y, hy⟩ := normAt_defined add sub div sqabs sqrt divn eps x.get ([n, c] ++ q) hne
  exact ⟨_, by rw [hval, hy]; rfl⟩

/-- non-vacuity (2d): input (2,3,2,2), element `[1,2] ++ [0,1]` takes its statistics over the four `[1,2,r₀,r₁]` -/
example : Pos ([2, 3] ++ [2, 2]) ∧ InShape [0, 1] [2, 2] ∧
    (allIdx [2, 2]).map ([1, 2] ++ ·) = [[1, 2, 0, 0], [1, 2, 0, 1], [1, 2, 1, 0], [1, 2, 1, 1]] := by decide

/-- the channel-splitting index map of `group_norm`'s reshape: `[n, g, j] ++ r ↦ [n, g·cg + j] ++ r` -/
def mergeChan (cg : Nat) : Idx → Idx
  | n :: g :: j :: r => [n, g * cg + j] ++ r
  | d => d

/-- **group_norm**: input `(N, G·cg) ++ sp` (`G` groups of `cg` consecutive channels, any spatial axes, possibly none),
    weight and bias `(G·cg)`.  The composition (reshape to `(N, G, cg) ++ sp`, mean / var over the axes `2 ..` with
    keepdims, normalise, reshape back, per-channel weight and bias reshaped to `(1, C, 1, …, 1)`) exists, keeps the
    shape, and the element `[n, c] ++ q` is `((x[n,c,q] − μ) / sqrt(V/m + eps)) · w[c] + b[c]` with the statistics taken
    over exactly the `m = cg · ∏ sp` elements `x[n, (c / cg)·cg + j, r]`, `j < cg`, `r` over `sp` — the channels of the
    group `c / cg` of sample `n`, in row-major order (PyTorch's consecutive-channel groups). -/
theorem group_norm_eq_def {α : Type} (add sub mul div : α → α → α) (sqabs sqrt : α → α) (divn : α → Nat → α) (eps : α)
    (x w b : Arr α) (N G cg : Nat) (sp : Shape) (hx : x.shape = [N, G * cg] ++ sp) (hw : w.shape = [G * cg])
    (hb : b.shape = [G * cg]) (hp : Pos ([N, G * cg] ++ sp)) :
    ∃ v, groupNorm add sub mul div sqabs sqrt divn eps x w b G = some v ∧ v.shape = [N, G * cg] ++ sp ∧
      ∀ n c q, n < N → c < G * cg → InShape q sp →
        (v.get ([n, c] ++ q) = (normAt add sub div sqabs sqrt divn eps x.get
            ((List.range cg).flatMap fun j => (allIdx sp).map fun r => [n, c / cg * cg + j] ++ r) ([n, c] ++ q)).map
          fun y => add (mul y (w.get [c])) (b.get [c])) ∧
        ∃ y, v.get ([n, c] ++ q) = some y := by
  have hC : 0 < G * cg := hp _ (by simp)
  have hG : 0 < G := Nat.pos_of_mul_pos_right hC
  have hcg : 0 < cg := Nat.pos_of_mul_pos_left hC
  have hN : 0 < N := hp _ (by simp)
  have hpsp : Pos sp := fun z hz => hp z (by simp [hz])
  have hxl : x.shape.length = 2 + sp.length := by rw [hx]; simp; omega
  -- the reshapes
  obtain ⟨xg, hg1, hg2, hg3⟩ := reshape_split x N G cg sp hx
  obtain ⟨w', hw1, hw2, hw3⟩ := reshape_1C w (G * cg) sp.length hw
  obtain ⟨b', hb1, hb2, hb3⟩ := reshape_1C b (G * cg) sp.length hb
  have hgs : groupNormReshape x.shape G = some ([N, G, cg] ++ sp) := by
    rw [hx]
    simp only [List.cons_append, List.nil_append, groupNormReshape, if_neg (Nat.pos_iff_ne_zero.1 hG),
      Nat.mul_div_cancel_left cg hG]
  have hws : groupNormArgsReshape x.shape w.shape = some ((List.replicate (2 + sp.length) 1).set 1 (prod w.shape)) := by
    simp only [groupNormArgsReshape, hxl]; rw [if_neg (by omega)]
  have hbs : groupNormArgsReshape x.shape w.shape = some ((List.replicate (2 + sp.length) 1).set 1 (prod b.shape)) := by
    rw [hws, hw, hb]
  -- statistics over the axes 2.. of the reshaped input
  have hax : groupNormAxis x.shape = (List.range (1 + sp.length)).map fun (i : Nat) => ((i + 2 : Nat) : Int) := by
    simp only [groupNormAxis, hxl]; congr 2; omega
  have hpg : Pos ([N, G] ++ cg :: sp) := by
    intro z hz
    simp only [List.cons_append, List.nil_append, List.mem_cons] at hz
    rcases hz with rfl | rfl | rfl | hz
    · exact hN
    · exact hG
    · exact hcg
    · exact hpsp z hz
  have hgl : xg.shape.length = 3 + sp.length := by rw [hg2]; simp; omega
  obtain ⟨hva, hR⟩ := groupNormAxis_valid sp.length
  obtain ⟨nrm, hn1, hn2, hn3⟩ := normCore_block add sub div sqabs sqrt divn eps xg [N, G] (cg :: sp) (groupNormAxis x.shape)
    hg2 hpg (by rw [hgl, hax]; exact hva) (by rw [hgl, hax, hR]; simp [Nat.add_comm])
  obtain ⟨nr, hr1, hr2, hr3⟩ := reshape_merge nrm N G cg sp hn2 hcg
  obtain ⟨pm, hm1, hm2, hm3⟩ := bin_1C mul nr w' (fun c => w.get [c]) N (G * cg) sp hp hr2 hw2 hw3
  obtain ⟨v, ha1, ha2, ha3⟩ := bin_1C add pm b' (fun c => b.get [c]) N (G * cg) sp hp hm2 hb2 hb3
  refine ⟨v, ?_, ha2, fun n c q hn hc hq => ?_⟩
  · simp only [groupNorm, hgs, hws, Option.bind_some, hg1, hw1]
    rw [show (List.replicate (2 + sp.length) 1).set 1 (prod w.shape) = (List.replicate (2 + sp.length) 1).set 1 (prod b.shape) by rw [hw, hb],
      hb1]
    simp only [Option.bind_some, hn1]
    rw [← hx] at hr1
    simp only [hr1, Option.bind_some, hm1]
    exact ha1
  · have hgc : c / cg < G := by apply Nat.div_lt_of_lt_mul; rw [Nat.mul_comm]; exact hc
    have hjc : c % cg < cg := Nat.mod_lt _ hcg
    have hc' : c / cg * cg + c % cg = c := by rw [Nat.mul_comm]; exact Nat.div_add_mod c cg
    have hng : InShape [n, c / cg] [N, G] := by simp [InShape]; exact ⟨hn, hgc⟩
    have hjq : InShape (c % cg :: q) (cg :: sp) := ⟨hjc, hq⟩
    have hnorm := hn3 [n, c / cg] (c % cg :: q) hng hjq
    -- translate the statistics of the reshaped input back to `x`
    have htr := normAt_congr add sub div sqabs sqrt divn eps xg.get x.get (mergeChan cg)
      ((allIdx (cg :: sp)).map ([n, c / cg] ++ ·)) ([n, c / cg] ++ c % cg :: q)
      (by
        intro k hk
        simp only [List.mem_map] at hk
        obtain ⟨jr, hjr, rfl⟩ := hk
        have hjr' := (NmVerif.Props.C01.mem_allIdx_iff (cg :: sp) jr).1 hjr
        cases jr with
        | nil => simp [InShape] at hjr'
        | cons j r => exact hg3 n (c / cg) j r hn hgc hjr'.1 hjr'.2)
      (hg3 n (c / cg) (c % cg) q hn hgc hjc hq)
    have hmapG : ((allIdx (cg :: sp)).map ([n, c / cg] ++ ·)).map (mergeChan cg)
        = (List.range cg).flatMap fun j => (allIdx sp).map fun r => [n, c / cg * cg + j] ++ r := by
      simp only [allIdx, List.map_flatMap, List.map_map]
      rfl
    have hτi : mergeChan cg ([n, c / cg] ++ c % cg :: q) = [n, c] ++ q := by
      show [n, c / cg * cg + c % cg] ++ q = _
      rw [hc']
    rw [htr, hmapG, hτi] at hnorm
    have hval : v.get ([n, c] ++ q) = (normAt add sub div sqabs sqrt divn eps x.get
        ((List.range cg).flatMap fun j => (allIdx sp).map fun r => [n, c / cg * cg + j] ++ r) ([n, c] ++ q)).map
          fun y => add (mul y (w.get [c])) (b.get [c]) := by
      rw [ha3 n c q hn hc hq, hm3 n c q hn hc hq, hr3 n c q hn hc hq]
      show ((nrm.get ([n, c / cg] ++ c % cg :: q)).map _).map _ = _
      rw [hnorm, Option.map_map]
      rfl
    refine ⟨hval, ?_⟩
    have hne : ((List.range cg).flatMap fun j => (allIdx sp).map fun r => [n, c / cg * cg + j] ++ r) ≠ [] := by
      rw [← hmapG]
      have hq' := (NmVerif.Props.C01.mem_allIdx_iff (cg :: sp) (c % cg :: q)).2 hjq
      intro h
      have := List.mem_map_of_mem (f := mergeChan cg) (List.mem_map_of_mem (f := ([n, c / cg] ++ ·)) hq')
      rw [h] at this
      simp at this
    obtain ⟨y, hy⟩ := normAt_defined add sub div sqabs sqrt divn eps x.get ([n, c] ++ q) hne
    exact ⟨_, by rw [hval, hy]; rfl⟩

/-- non-vacuity: C = 4 = 2·2, spatial (2): element `[0, 3] ++ [1]` (group 1) takes its statistics over
    `x[0,2,·]` and `x[0,3,·]` -/
example : Pos ([1, 2 * 2] ++ [2]) ∧ 3 < 2 * 2 ∧ InShape [1] [2] ∧
    ((List.range 2).flatMap fun j => (allIdx [2]).map fun r => [0, 3 / 2 * 2 + j] ++ r) = [[0, 2, 0], [0, 2, 1], [0, 3, 0], [0, 3, 1]] := by
  decide

/-! ## cosine_similarity -/

open NmVerif.Reduce in
/-- **cosine_similarity over any axis** (negative included) of operands that broadcast to `r`: the composition
    (`broadcast_arrays`, two keepdims `vector_norm`s clamped by `maximum(·, eps)`, `multiply`, `divide`, `sum` over the
    axis) exists, has the shape `r` without the axis, and the element at `j` is
    `Σ_{i ∈ L} (a[i]·b[i]) / (max(‖a‖_L, eps) · max(‖b‖_L, eps))`, where `L` is `j` with the coordinate `0 .. n−1`
    inserted at the axis (exactly the line of `j`, in order) and `‖a‖_L = post(Σ_{i ∈ L} pre(a[i]))` is taken over that
    same line (`pre x = |x|²`, `post = sqrt`, abstract here); operands read at their NumPy broadcast positions. -/
theorem cosine_similarity_eq_def {α : Type} (add mul div mx : α → α → α) (pre post : α → α) (eps : α) (x y : Arr α)
    (r : Shape) (axis : Int) (n : Nat) (hx : Pos x.shape) (hy : Pos y.shape)
    (hr : broadcastShape2 x.shape y.shape = some r) (hv : ValidAxis r.length axis)
    (hn : r[normAxis r.length axis]? = some n) :
    ∃ v, cosineSimilarity add mul div mx pre post eps x y axis = some v ∧
      v.shape = specShape r [normAxis r.length axis] false ∧
      ∀ j, InShape j (specShape r [normAxis r.length axis] false) →
        v.get j =
          (foldFirst add none (((List.range n).map (insAt j (normAxis r.length axis) ·)).map fun i =>
              pre (x.get (specBroadcastIdx x.shape i)))).bind fun SA =>
          (foldFirst add none (((List.range n).map (insAt j (normAxis r.length axis) ·)).map fun i =>
              pre (y.get (specBroadcastIdx y.shape i)))).bind fun SB =>
          foldFirst add none (((List.range n).map (insAt j (normAxis r.length axis) ·)).map fun i =>
            div (mul (x.get (specBroadcastIdx x.shape i)) (y.get (specBroadcastIdx y.shape i)))
              (mul (mx (post SA) eps) (mx (post SB) eps))) :=
  cosine_core add mul div mx pre post eps x y r axis n hx hy hr hv hn

/-- non-vacuity: `(2,3)` with `(3)` (broadcast), axis −1: result shape `(2)`, the line of `[1]` is `[1,0], [1,1], [1,2]` -/
example : Pos [2, 3] ∧ Pos [3] ∧ broadcastShape2 [2, 3] [3] = some [2, 3] ∧ Reduce.ValidAxis 2 (-1) ∧
    [2, 3][Reduce.normAxis 2 (-1)]? = some 3 ∧ Reduce.specShape [2, 3] [Reduce.normAxis 2 (-1)] false = [2] ∧
    (List.range 3).map (insAt [1] (Reduce.normAxis 2 (-1)) ·) = [[1, 0], [1, 1], [1, 2]] := by decide

/-- … and axis 0 of a `(2,3)` pair: the line of `[2]` is `[0,2], [1,2]` -/
example : Reduce.specShape [2, 3] [Reduce.normAxis 2 0] false = [3] ∧
    (List.range 2).map (insAt [2] (Reduce.normAxis 2 0) ·) = [[0, 2], [1, 2]] := by decide

example :
    let a : Arr Int := ⟨[2, 2], fun d => match d with | [r, c] => (2 * r + c + 1 : Nat) | _ => 0⟩
    (cosineSimilarity (· + ·) (· * ·) (· / ·) Reduce.maximum (fun t => t * t) id 1 a a 1).map
        (fun v => (v.shape, (allIdx v.shape).map v.get))
      = some ([2], [some (1 * 1 / (5 * 5) + 2 * 2 / (5 * 5)), some (3 * 3 / (25 * 25) + 4 * 4 / (25 * 25))]) := by decide

open NmVerif.Reduce in
/-- for element operations with `a/c + b/c = (a+b)/c` (real arithmetic) this is PyTorch's
    `(Σ_L a·b) / (max(‖a‖, eps) · max(‖b‖, eps))` -/
theorem cosine_similarity_eq_textbook {α : Type} (add mul div mx : α → α → α) (pre post : α → α) (eps : α) (x y : Arr α)
    (r : Shape) (axis : Int) (n : Nat) (hx : Pos x.shape) (hy : Pos y.shape)
    (hr : broadcastShape2 x.shape y.shape = some r) (hv : ValidAxis r.length axis)
    (hn : r[normAxis r.length axis]? = some n)
    (hadd : ∀ a b c, add (div a c) (div b c) = div (add a b) c) :
    ∃ v, cosineSimilarity add mul div mx pre post eps x y axis = some v ∧
      ∀ j, InShape j (specShape r [normAxis r.length axis] false) →
        v.get j =
          (foldFirst add none (((List.range n).map (insAt j (normAxis r.length axis) ·)).map fun i =>
              pre (x.get (specBroadcastIdx x.shape i)))).bind fun SA =>
          (foldFirst add none (((List.range n).map (insAt j (normAxis r.length axis) ·)).map fun i =>
              pre (y.get (specBroadcastIdx y.shape i)))).bind fun SB =>
          (foldFirst add none (((List.range n).map (insAt j (normAxis r.length axis) ·)).map fun i =>
            mul (x.get (specBroadcastIdx x.shape i)) (y.get (specBroadcastIdx y.shape i)))).map
              (div · (mul (mx (post SA) eps) (mx (post SB) eps))) := by
  obtain ⟨v, h1, _, h3⟩ := cosine_core add mul div mx pre post eps x y r axis n hx hy hr hv hn
  refine ⟨v, h1, fun j hj => ?_⟩
  rw [h3 j hj]
  congr 1; funext SA; congr 1; funext SB
  rw [← foldFirst_div_distrib add div _ (fun a b => hadd a b _)]
  simp only [List.map_map]
  rfl

/-! ## bilinear -/

/-- regression guard for the repaired defect bilinear.lead-axes (fix commit 908c6a6): inputs `(2,2,2,2)`
    (`a[k] = b[k] = k+1` row-major), weight `(2,2,2)` (`w[k] = k+1`).  `bilinear_input_reshape` gives `(2,2,1,2,2)` — the
    unit axis right before the last two axes — the result has PyTorch's shape `(2,2,2,2)` and its second element is
    `y[0,0,0,1] = Σ_ij a[0,0,0,i]·w[1,i,j]·b[0,0,0,j] = 63`.  Before the repair the unit axis went after the first axis
    (`bilinearInputReshapeOld`: `(2,1,2,2,2)`), the second batch axis was broadcast against `out_features` and the
    result had the shape `(2,1,2,2)` with `803` in that place; both forms agree up to rank 3. -/
theorem bilinear_rank4_regression :
    let a : Arr Int := ⟨[2, 2, 2, 2], fun d => (computeOffset d (strides [2, 2, 2, 2]) + 1 : Nat)⟩
    let w : Arr Int := ⟨[2, 2, 2], fun d => (computeOffset d (strides [2, 2, 2]) + 1 : Nat)⟩
    (bilinear (· + ·) (· * ·) a a w none).map (fun v => (v.shape, v.get [0, 0, 0, 1])) = some ([2, 2, 2, 2], some 63)
      ∧ (1 * 5 * 1 + 1 * 6 * 2 + 2 * 7 * 1 + 2 * 8 * 2 : Int) = 63
      ∧ bilinearInputReshape [2, 2, 2, 2] = some [2, 2, 1, 2, 2]
      ∧ bilinearInputReshapeOld [2, 2, 2, 2] = some [2, 1, 2, 2, 2]
      ∧ (∀ s ∈ [[3], [2, 3], [4, 2, 3], [1, 1, 1]], bilinearInputReshape s = bilinearInputReshapeOld s) := by
  decide

/-- positive instance (rank 3, bias): `y[1,0,1] = Σ_ij a[1,0,i]·w[1,i,j]·b[1,0,j] + c[1]` -/
example :
    let a : Arr Int := ⟨[2, 1, 2], fun d => (computeOffset d (strides [2, 1, 2]) + 1 : Nat)⟩
    let w : Arr Int := ⟨[2, 2, 2], fun d => (computeOffset d (strides [2, 2, 2]) + 1 : Nat)⟩
    let c : Arr Int := ⟨[2], fun d => match d with | [o] => (100 * (o + 1) : Nat) | _ => 0⟩
    (bilinear (· + ·) (· * ·) a a w (some c)).map (fun v => (v.shape, v.get [1, 0, 1]))
      = some ([2, 1, 2], some (3 * 5 * 3 + 3 * 6 * 4 + 4 * 7 * 3 + 4 * 8 * 4 + 200)) := by
  decide

/-- **bilinear on rank-2 inputs** `x : (B, I)`, `y : (B, J)`, weight `(O, I, J)`, optional bias `(O)`, any positive extents,
    abstract `add` / `mul`: the composition (`matmulv2` of `x` with the weight stack — C16 model —, broadcast `multiply`
    with `y`, `sum` over the last axis, `transpose`, bias) exists, has the shape `(B, O)`, and
    `out[b, o] = Σ_j (Σ_i x[b,i]·w[o,i,j]) · y[b,j] (+ c[o])` — `bilinearAt`: every inner sum is a left fold over
    `i = 0 .. I−1` from its first product, the outer one over `j = 0 .. J−1`; the bias is added to the finished sum.
    (Rank 1 and rank 3: `bilinear_rank1_eq_def`, `bilinear_rank3_eq_def`; rank ≥ 4: compared with the real code and the
    oracle on every run, instance `bilinear_rank4_regression`.) -/
theorem bilinear_rank2_eq_def {α : Type} (add mul : α → α → α) (x y w : Arr α) (bias : Option (Arr α)) (B I J O : Nat)
    (hx : x.shape = [B, I]) (hy : y.shape = [B, J]) (hw : w.shape = [O, I, J]) (hb : ∀ c, bias = some c → c.shape = [O])
    (hB : 0 < B) (hI : 0 < I) (hJ : 0 < J) (hO : 0 < O) :
    ∃ v, bilinear add mul x y w bias = some v ∧ v.shape = [B, O] ∧ ∀ b o, b < B → o < O →
      v.get [b, o] = match bias with
        | none => bilinearAt add mul x.get y.get w.get I J b o
        | some c => (bilinearAt add mul x.get y.get w.get I J b o).map (fun S => add S (c.get [o])) :=
  bilinear_rank2 add mul x y w bias B I J O hx hy hw hb hB hI hJ hO

/-- non-vacuity: `x = [[1,2]]`, `y = [[3,4,5]]`, `w[o,i,j] = 1`: `out[0,0] = (1+2)·3 + (1+2)·4 + (1+2)·5` -/
example :
    bilinearAt (· + ·) (· * ·) (fun d => match d with | [_, i] => ((i + 1 : Nat) : Int) | _ => 0)
      (fun d => match d with | [_, j] => ((j + 3 : Nat) : Int) | _ => 0) (fun _ => 1) 2 3 0 0 = some 36 := by decide

/-- **bilinear on rank-1 inputs** `x : (I)`, `y : (J)` (no batch axis), weight `(O, I, J)`, optional bias `(O)`: the composition
    (`matmulv2` of the vector with the weight stack, broadcast `multiply` with `y`, `sum` over the last axis, the
    identity `transpose` of a rank-1 result, bias) exists, has the shape `(O)`, and
    `out[o] = Σ_j (Σ_i x[i]·w[o,i,j]) · y[j] (+ c[o])` (`bilinearAtL` with no leading index). -/
theorem bilinear_rank1_eq_def {α : Type} (add mul : α → α → α) (x y w : Arr α) (bias : Option (Arr α)) (I J O : Nat)
    (hx : x.shape = [I]) (hy : y.shape = [J]) (hw : w.shape = [O, I, J]) (hb : ∀ c, bias = some c → c.shape = [O])
    (hI : 0 < I) (hJ : 0 < J) (hO : 0 < O) :
    ∃ v, bilinear add mul x y w bias = some v ∧ v.shape = [O] ∧ ∀ o, o < O →
      v.get [o] = match bias with
        | none => bilinearAtL add mul x.get y.get w.get I J [] o
        | some c => (bilinearAtL add mul x.get y.get w.get I J [] o).map (fun S => add S (c.get [o])) :=
  bilinear_rank1 add mul x y w bias I J O hx hy hw hb hI hJ hO

/-- non-vacuity: `x = (1, 2)`, `y = (3, 4, 5)`, `w[o,i,j] = o + 1`, bias `(100, 200)`:
    `out[1] = (1·2 + 2·2)·3 + 6·4 + 6·5 + 200 = 272` -/
example :
    let x : Arr Int := ⟨[2], fun d => match d with | [i] => (i + 1 : Nat) | _ => 0⟩
    let y : Arr Int := ⟨[3], fun d => match d with | [j] => (j + 3 : Nat) | _ => 0⟩
    let w : Arr Int := ⟨[2, 2, 3], fun d => match d with | [o, _, _] => (o + 1 : Nat) | _ => 0⟩
    let c : Arr Int := ⟨[2], fun d => match d with | [o] => (100 * (o + 1) : Nat) | _ => 0⟩
    (bilinear (· + ·) (· * ·) x y w (some c)).map (fun v => (v.shape, v.get [1])) = some ([2], some 272)
      ∧ bilinearAtL (· + ·) (· * ·) x.get y.get w.get 2 3 [] 1 = some 72 := by decide

/-- **bilinear on rank-3 inputs** `x : (B0, B1, I)`, `y : (B0, B1, J)`, weight `(O, I, J)`, optional bias `(O)`, any positive
    extents: both inputs are reshaped to `(B0, 1, B1, ·)` (`bilinear_input_reshape`: the unit axis broadcasts against the
    out-features axis), `matmulv2` gives `(B0, O, B1, J)`, the product with `y` is summed over the last axis and the last
    two axes are swapped: the result has the shape `(B0, B1, O)` and
    `out[b0, b1, o] = Σ_j (Σ_i x[b0,b1,i]·w[o,i,j]) · y[b0,b1,j] (+ c[o])`. -/
theorem bilinear_rank3_eq_def {α : Type} (add mul : α → α → α) (x y w : Arr α) (bias : Option (Arr α)) (B0 B1 I J O : Nat)
    (hx : x.shape = [B0, B1, I]) (hy : y.shape = [B0, B1, J]) (hw : w.shape = [O, I, J]) (hb : ∀ c, bias = some c → c.shape = [O])
    (hB0 : 0 < B0) (hB1 : 0 < B1) (hI : 0 < I) (hJ : 0 < J) (hO : 0 < O) :
    ∃ v, bilinear add mul x y w bias = some v ∧ v.shape = [B0, B1, O] ∧ ∀ b0 b1 o, b0 < B0 → b1 < B1 → o < O →
      v.get [b0, b1, o] = match bias with
        | none => bilinearAtL add mul x.get y.get w.get I J [b0, b1] o
        | some c => (bilinearAtL add mul x.get y.get w.get I J [b0, b1] o).map (fun S => add S (c.get [o])) :=
  bilinear_rank3 add mul x y w bias B0 B1 I J O hx hy hw hb hB0 hB1 hI hJ hO

/-- non-vacuity: the rank-3 instance above (`a = b`, `(2,1,2)`, row-major `k+1`; `w` `(2,2,2)` row-major `k+1`; bias):
    `bilinearAtL` at `[1, 0]`, `o = 1` is `3·5·3 + 3·6·4 + 4·7·3 + 4·8·4` grouped as `(3·5 + 4·7)·3 + (3·6 + 4·8)·4` -/
example :
    let a : Arr Int := ⟨[2, 1, 2], fun d => (computeOffset d (strides [2, 1, 2]) + 1 : Nat)⟩
    let w : Arr Int := ⟨[2, 2, 2], fun d => (computeOffset d (strides [2, 2, 2]) + 1 : Nat)⟩
    bilinearAtL (· + ·) (· * ·) a.get a.get w.get 2 2 [1, 0] 1 = some ((3 * 5 + 4 * 7) * 3 + (3 * 6 + 4 * 8) * 4)
      ∧ (3 * 5 * 3 + 3 * 6 * 4 + 4 * 7 * 3 + 4 * 8 * 4 : Int) = (3 * 5 + 4 * 7) * 3 + (3 * 6 + 4 * 8) * 4 := by decide

/-! ## convolution -/

/-- an optional integer argument as the C++ receives it: `None` or an `int` -/
def form : Option Nat → PArg
  | none => .none
  | some v => .int v

theorem strideVal_form (s : Option Nat) : strideVal (form s) = strideOf s := by cases s <;> rfl
theorem padVal_form (p : Option Nat) : padVal (form p) = paddingOf p := by cases p <;> rfl
theorem dilV_form (d : Option Nat) : dilV (form d) = dilationOf d := by cases d <;> rfl

theorem posForm_form {s : Option Nat} (h : ∀ v, s = some v → 0 < v) : PosForm (form s) := by
  cases s with
  | none => exact Or.inl rfl
  | some v => exact Or.inr (Or.inl ⟨v, h v rfl, rfl⟩)

theorem intForm_form (p : Option Nat) : IntForm (form p) := by
  cases p with
  | none => exact Or.inl rfl
  | some v => exact Or.inr (Or.inl ⟨v, rfl⟩)

/-- **conv1d, any batch / stride / zero padding / dilation / groups / optional bias, each option passed as `None` or as an
    integer.**  For an input `(N, g·Cg, L)`, a weight `(Og·g, Cg, K)` (so `groups = g` is any common divisor of the
    channel counts) and an optional bias `(Og·g)`, with the dilated kernel fitting the padded input, the
    `view::convnd` pipeline (reshape by groups → pad → sliding_window of input and of the dilation-expanded weight →
    multiply → sum → reshape → bias → strided slice) is defined, has the extent `⌊(L + 2p − d(K−1) − 1)/s⌋ + 1`, and
    every element is the nested loop `bias[o] + Σ_c Σ_k xpad[n, grp(o)·Cg + c, l·s + k·d] · w[o,c,k]` — with the group of
    output channel `o` being `o / Og` (`grpCode`: the weight is laid out as `(g, Og, Cg, K)`), which is what the code
    does.  Quantified over all integer `x`, `w`, so the equality of the two sums is an identity of the
    (input index, weight index) term sets. -/
theorem conv1d_eq_code_loop (x w : Arr Int) (bias : Option (Arr Int)) (N Og g Cg L K : Nat) (stride padding dilation : Option Nat)
    (hx : x.shape = [N, g * Cg, L]) (hw : w.shape = [Og * g, Cg, K]) (hb : ∀ b, bias = some b → b.shape = [Og * g])
    (hOg : 0 < Og) (hg : 0 < g) (hK : 0 < K)
    (hs : ∀ v, stride = some v → 0 < v) (hd : ∀ v, dilation = some v → 0 < v)
    (hfit : Fits L K (paddingOf padding) (dilationOf dilation)) :
    ∃ r, convnd 1 x w bias (form stride) (form padding) (form dilation) g = .ok r ∧
      r.shape = [N, Og * g, outSize L K (strideOf stride) (paddingOf padding) (dilationOf dilation)] ∧
      ∀ n o l, n < N → o < Og * g → l < outSize L K (strideOf stride) (paddingOf padding) (dilationOf dilation) →
        r.get [n, o, l] = conv1dLoop (grpCode Og) x w bias L Cg K (strideOf stride) (paddingOf padding) (dilationOf dilation) n o l := by
  have hfit' : (K - 1) * dilV (form dilation) + 1 ≤ L + 2 * padVal (form padding) := by
    rw [dilV_form, padVal_form, Nat.mul_comm]; exact hfit
  have := convnd1_eq_codeLoop (bias := bias) hx hw hb hOg hg hK (posForm_form hs) (intForm_form padding) (posForm_form hd) hfit'
  simpa only [strideVal_form, padVal_form, dilV_form] using this

/-- output shape of conv1d = the standard formula, for every batch and every `groups` (corollary; the shape does not
    depend on the group assignment) -/
theorem conv_out_shape_eq_formula (x w : Arr Int) (bias : Option (Arr Int)) (N Og g Cg L K : Nat) (stride padding dilation : Option Nat)
    (hx : x.shape = [N, g * Cg, L]) (hw : w.shape = [Og * g, Cg, K]) (hb : ∀ b, bias = some b → b.shape = [Og * g])
    (hOg : 0 < Og) (hg : 0 < g) (hK : 0 < K)
    (hs : ∀ v, stride = some v → 0 < v) (hd : ∀ v, dilation = some v → 0 < v)
    (hfit : Fits L K (paddingOf padding) (dilationOf dilation)) :
    ∃ r, convnd 1 x w bias (form stride) (form padding) (form dilation) g = .ok r ∧
      r.shape = [N, Og * g, outSize L K (strideOf stride) (paddingOf padding) (dilationOf dilation)] := by
  obtain ⟨r, h1, h2, _⟩ := conv1d_eq_code_loop x w bias N Og g Cg L K stride padding dilation hx hw hb hOg hg hK hs hd hfit
  exact ⟨r, h1, h2⟩

/-- **conv1d = the PyTorch nested loop** (group of output channel `o` is `o / (O/groups)`), for any batch, stride,
    padding, dilation, bias and EVERY `groups` (any common divisor `g` of the channel counts, any number `Og` of output
    channels per group).  (Before fixes/C17-conv-groups-interleaved this held for `groups = 1` or `O = groups` only:
    `conv1d_groups_regression`.) -/
theorem conv1d_eq_nested_loop (x w : Arr Int) (bias : Option (Arr Int)) (N Og g Cg L K : Nat) (stride padding dilation : Option Nat)
    (hx : x.shape = [N, g * Cg, L]) (hw : w.shape = [Og * g, Cg, K]) (hb : ∀ b, bias = some b → b.shape = [Og * g])
    (hOg : 0 < Og) (hg : 0 < g) (hK : 0 < K)
    (hs : ∀ v, stride = some v → 0 < v) (hd : ∀ v, dilation = some v → 0 < v)
    (hfit : Fits L K (paddingOf padding) (dilationOf dilation)) :
    ∃ r, convnd 1 x w bias (form stride) (form padding) (form dilation) g = .ok r ∧
      r.shape = [N, Og * g, outSize L K (strideOf stride) (paddingOf padding) (dilationOf dilation)] ∧
      ∀ n o l, n < N → o < Og * g → l < outSize L K (strideOf stride) (paddingOf padding) (dilationOf dilation) →
        r.get [n, o, l] = conv1dLoop (grpSpec (Og * g) g) x w bias L Cg K (strideOf stride) (paddingOf padding) (dilationOf dilation) n o l := by
  obtain ⟨r, h1, h2, h3⟩ := conv1d_eq_code_loop x w bias N Og g Cg L K stride padding dilation hx hw hb hOg hg hK hs hd hfit
  refine ⟨r, h1, h2, fun n o l hn ho hl => ?_⟩
  rw [h3 n o l hn ho hl]
  exact conv1dLoop_congr_grp (grpCode_eq_grpSpec hg o) x w bias L Cg K _ _ _ n l

/-- **conv1d, every argument form the C++ accepts**: stride, padding and dilation each given as `None`, as an integer, or
    as a one-element index array `[v]` (`conv_slices`, `conv_pad`, `conv_expand_spacing` read `at(arg, 0)`), independently
    of each other — 27 combinations, of which `conv1d_eq_code_loop` covers the 8 without arrays.  Values: `strideVal`,
    `padVal`, `dilV` (`None` ↦ 1 / 0 / 1).  Same conclusion: defined, the standard extent, every element the nested loop
    with the code's group assignment. -/
theorem conv1d_forms_eq_code_loop (x w : Arr Int) (bias : Option (Arr Int)) (N Og g Cg L K : Nat) (stride padding dilation : PArg)
    (hx : x.shape = [N, g * Cg, L]) (hw : w.shape = [Og * g, Cg, K]) (hb : ∀ b, bias = some b → b.shape = [Og * g])
    (hOg : 0 < Og) (hg : 0 < g) (hK : 0 < K) (hs : PosForm stride) (hp : IntForm padding) (hd : PosForm dilation)
    (hfit : Fits L K (padVal padding) (dilV dilation)) :
    ∃ r, convnd 1 x w bias stride padding dilation g = .ok r ∧
      r.shape = [N, Og * g, outSize L K (strideVal stride) (padVal padding) (dilV dilation)] ∧
      ∀ n o l, n < N → o < Og * g → l < outSize L K (strideVal stride) (padVal padding) (dilV dilation) →
        r.get [n, o, l] = conv1dLoop (grpCode Og) x w bias L Cg K (strideVal stride) (padVal padding) (dilV dilation) n o l := by
  have hfit' : (K - 1) * dilV dilation + 1 ≤ L + 2 * padVal padding := by rw [Nat.mul_comm]; exact hfit
  exact convnd1_eq_codeLoop (bias := bias) hx hw hb hOg hg hK hs hp hd hfit'

/-- … and equal to the PyTorch nested loop, for every `groups` -/
theorem conv1d_forms_eq_nested_loop (x w : Arr Int) (bias : Option (Arr Int)) (N Og g Cg L K : Nat) (stride padding dilation : PArg)
    (hx : x.shape = [N, g * Cg, L]) (hw : w.shape = [Og * g, Cg, K]) (hb : ∀ b, bias = some b → b.shape = [Og * g])
    (hOg : 0 < Og) (hg : 0 < g) (hK : 0 < K) (hs : PosForm stride) (hp : IntForm padding) (hd : PosForm dilation)
    (hfit : Fits L K (padVal padding) (dilV dilation)) :
    ∃ r, convnd 1 x w bias stride padding dilation g = .ok r ∧
      r.shape = [N, Og * g, outSize L K (strideVal stride) (padVal padding) (dilV dilation)] ∧
      ∀ n o l, n < N → o < Og * g → l < outSize L K (strideVal stride) (padVal padding) (dilV dilation) →
        r.get [n, o, l] = conv1dLoop (grpSpec (Og * g) g) x w bias L Cg K (strideVal stride) (padVal padding) (dilV dilation) n o l := by
  obtain ⟨r, h1, h2, h3⟩ := conv1d_forms_eq_code_loop x w bias N Og g Cg L K stride padding dilation hx hw hb hOg hg hK hs hp hd hfit
  refine ⟨r, h1, h2, fun n o l hn ho hl => ?_⟩
  rw [h3 n o l hn ho hl]
  exact conv1dLoop_congr_grp (grpCode_eq_grpSpec hg o) x w bias L Cg K _ _ _ n l

/-- non-vacuity: stride `[2]` (array), padding `1` (integer), dilation `[2]` (array) on `(1, 2, 5)` with a `(3, 2, 2)` weight:
    defined, extent ⌊(5 + 2 − 2 − 1)/2⌋ + 1 = 3 -/
example : ∃ r, convnd 1 ⟨[1, 2, 5], fun _ => 1⟩ ⟨[3, 2, 2], fun _ => 1⟩ none (.arr [2]) (.int 1) (.arr [2]) 1 = .ok r ∧ r.shape = [1, 3, 3] := by
  obtain ⟨r, h1, h2, _⟩ := conv1d_forms_eq_nested_loop ⟨[1, 2, 5], fun _ => 1⟩ ⟨[3, 2, 2], fun _ => 1⟩ none 1 3 1 2 5 2 (.arr [2]) (.int 1) (.arr [2])
    rfl rfl (by intro b h; cases h) (by decide) (by decide) (by decide) (Or.inr (Or.inr ⟨2, by decide, rfl⟩)) (Or.inr (Or.inl ⟨1, rfl⟩))
    (Or.inr (Or.inr ⟨2, by decide, rfl⟩)) (by decide)
  exact ⟨r, h1, h2⟩

/-- witnesses used by the examples: `x[n,c,j] = 100·n + 10·c + j + 1`, `w[o,c,k] = 100·o + 10·c + k + 1` -/
def xW (shape : Shape) : Arr Int := ⟨shape, fun i => match i with | [n, c, j] => (100 * n + 10 * c + j + 1 : Nat) | _ => 0⟩
def wW (shape : Shape) : Arr Int := ⟨shape, fun i => match i with | [o, c, k] => (100 * o + 10 * c + k + 1 : Nat) | _ => 0⟩

/-- non-vacuity: batch 2, C = 4, groups = 2, O = 6 (three output channels per group), L = 5, K = 2, stride 2, padding 1,
    dilation 2 — defined, shape (2,6,3), and element (1,4,2) (group 4 / 3 = 1) is the PyTorch nested loop -/
example : ∃ r, convnd 1 (xW [2, 4, 5]) (wW [6, 2, 2]) none (form (some 2)) (form (some 1)) (form (some 2)) 2 = .ok r ∧
    r.shape = [2, 6, 3] ∧ r.get [1, 4, 2] = conv1dLoop (grpSpec 6 2) (xW [2, 4, 5]) (wW [6, 2, 2]) none 5 2 2 2 1 2 1 4 2 := by
  obtain ⟨r, h1, h2, h3⟩ := conv1d_eq_nested_loop (xW [2, 4, 5]) (wW [6, 2, 2]) none 2 3 2 2 5 2 (some 2) (some 1) (some 2)
    rfl rfl (by intro b h; cases h) (by decide) (by decide) (by decide) (by intro v h; cases h; decide) (by intro v h; cases h; decide)
    (by decide)
  exact ⟨r, h1, h2, h3 1 4 2 (by decide) (by decide) (by decide)⟩

/-- element read from an evaluation (0 when undefined) -/
def Res.getD (r : Res (Arr Int)) (i : Idx) : Int := match r with | .ok a => a.get i | _ => 0
def Res.shapeD (r : Res (Arr Int)) : Shape := match r with | .ok a => a.shape | _ => []

/-- regression instance for the repaired defect conv.groups-interleaved (fixes/C17-conv-groups-interleaved): C = 2,
    O = 4, groups = 2, K = L = 1, weights all 1, `x = (1, 2)`.  Output channel 1 belongs to group 0 and reads
    `x[0] = 1`: the whole output is `(1, 1, 2, 2)`.  Before the repair the weight was laid out `(O/g, g, …)` and channel
    1 was computed from group `1 % 2 = 1` (`grpInterleaved`: reads `x[1] = 2`, output `(1, 2, 1, 2)`). -/
theorem conv1d_groups_regression :
    let x : Arr Int := ⟨[1, 2, 1], fun i => match i with | [_, c, _] => (c + 1 : Nat) | _ => 0⟩
    let w : Arr Int := ⟨[4, 1, 1], fun _ => 1⟩
    (List.range 4).map (fun o => Res.getD (convnd 1 x w none .none .none .none 2) [0, o, 0]) = [1, 1, 2, 2]
      ∧ conv1dLoop (grpSpec 4 2) x w none 1 1 1 1 0 1 0 1 0 = 1
      ∧ conv1dLoop (grpCode 2) x w none 1 1 1 1 0 1 0 1 0 = 1
      ∧ conv1dLoop (grpInterleaved 2) x w none 1 1 1 1 0 1 0 1 0 = 2 := by
  decide

/-- regression instance for conv.unbatched-groups (repaired by the same diff): an UNBATCHED input `(C, L) = (2, 4)`,
    `x = 1..8`, weight `(4, 1, 2) = 1..8`, groups = 2 gives PyTorch's `(O, L_out) = (4, 3)` result
    `5 8 11 | 11 18 25 | 61 72 83 | 83 98 113`; `conv_reshape_reduce` merges `(g, O/g)` at axis 0 when there is no batch
    axis.  Before, axis 0 of the summed `(g, O/g, L_out)` array was taken for a batch axis (`convReshapeReduceOld`: shape
    `(2, 6)`); with groups = 1 the old form on the old layout `(O/g, g, L_out) = (3, 1, 3)` and the new form on the new
    layout `(g, O/g, L_out) = (1, 3, 3)` both give `(O, L_out) = (3, 3)`. -/
theorem conv1d_unbatched_regression :
    let x : Arr Int := ⟨[2, 4], fun i => (computeOffset i (strides [2, 4]) + 1 : Nat)⟩
    let w : Arr Int := ⟨[4, 1, 2], fun i => (computeOffset i (strides [4, 1, 2]) + 1 : Nat)⟩
    Res.shapeD (convnd 1 x w none .none .none .none 2) = [4, 3]
      ∧ (allIdx [4, 3]).map (Res.getD (convnd 1 x w none .none .none .none 2)) = [5, 8, 11, 11, 18, 25, 61, 72, 83, 83, 98, 113]
      ∧ convReshapeReduce [2, 2, 3] 1 = [4, 3] ∧ convReshapeReduceOld [2, 2, 3] 1 = [2, 6]
      ∧ convReshapeReduce [1, 3, 3] 1 = [3, 3] ∧ convReshapeReduceOld [3, 1, 3] 1 = [3, 3] := by
  decide

/-- the repaired batch handling as a positive instance: a batch of 2 is defined and keeps its extent -/
example : Res.shapeD (convnd 1 (xW [2, 1, 2]) (wW [1, 1, 1]) none .none (.int 0) .none 1) = [2, 1, 2] := by decide

/-- **conv2d** (input `(N, g·Cg, H, W)`, weight `(Og·g, Cg, KH, KW)`, optional bias) for stride, padding and dilation each
    given as `None`, one integer, or a pair `(h, w)` — per-plane values `(sH,sW)`, `(pH,pW)`, `(dH,dW)` =
    `vals2 default arg`: the pipeline with `n_planes = 2` is defined, has the extents
    `⌊(H + 2pH − dH(KH−1) − 1)/sH⌋ + 1`, `⌊(W + 2pW − dW(KW−1) − 1)/sW⌋ + 1`, and every element is
    `bias[o] + Σ_c Σ_kh Σ_kw xpad[n, grp(o)·Cg + c, i·sH + kh·dH, j·sW + kw·dW] · w[o,c,kh,kw]` with `grp(o) = o / Og`
    (the code's assignment: weight laid out as `(g, Og, Cg, KH, KW)`), for every `groups`. -/
theorem conv2d_eq_code_loop (x w : Arr Int) (bias : Option (Arr Int)) (N Og g Cg H W KH KW : Nat) (stride padding dilation : PArg)
    (hx : x.shape = [N, g * Cg, H, W]) (hw : w.shape = [Og * g, Cg, KH, KW]) (hb : ∀ b, bias = some b → b.shape = [Og * g])
    (hOg : 0 < Og) (hg : 0 < g) (hKH : 0 < KH) (hKW : 0 < KW)
    (hs : PosForm2 stride) (hp : Form2 padding) (hd : PosForm2 dilation)
    (hfH : Fits H KH (vals2 0 padding).1 (vals2 1 dilation).1) (hfW : Fits W KW (vals2 0 padding).2 (vals2 1 dilation).2) :
    ∃ r, convnd 2 x w bias stride padding dilation g = .ok r ∧
      r.shape = [N, Og * g, outSize H KH (vals2 1 stride).1 (vals2 0 padding).1 (vals2 1 dilation).1,
                 outSize W KW (vals2 1 stride).2 (vals2 0 padding).2 (vals2 1 dilation).2] ∧
      ∀ n o i j, n < N → o < Og * g → i < outSize H KH (vals2 1 stride).1 (vals2 0 padding).1 (vals2 1 dilation).1 →
        j < outSize W KW (vals2 1 stride).2 (vals2 0 padding).2 (vals2 1 dilation).2 →
        r.get [n, o, i, j] = conv2dLoop (grpCode Og) x w bias H W Cg KH KW (vals2 1 stride).1 (vals2 1 stride).2
          (vals2 0 padding).1 (vals2 0 padding).2 (vals2 1 dilation).1 (vals2 1 dilation).2 n o i j := by
  have hfH' : (KH - 1) * (vals2 1 dilation).1 + 1 ≤ H + 2 * (vals2 0 padding).1 := by rw [Nat.mul_comm]; exact hfH
  have hfW' : (KW - 1) * (vals2 1 dilation).2 + 1 ≤ W + 2 * (vals2 0 padding).2 := by rw [Nat.mul_comm]; exact hfW
  exact convnd2_eq_codeLoop (bias := bias) hx hw hb hOg hg hKH hKW hs hp hd hfH' hfW'

/-- conv2d output shape = the standard formula on both planes, every batch, every `groups` (corollary) -/
theorem conv2d_out_shape_eq_formula (x w : Arr Int) (bias : Option (Arr Int)) (N Og g Cg H W KH KW : Nat) (stride padding dilation : PArg)
    (hx : x.shape = [N, g * Cg, H, W]) (hw : w.shape = [Og * g, Cg, KH, KW]) (hb : ∀ b, bias = some b → b.shape = [Og * g])
    (hOg : 0 < Og) (hg : 0 < g) (hKH : 0 < KH) (hKW : 0 < KW)
    (hs : PosForm2 stride) (hp : Form2 padding) (hd : PosForm2 dilation)
    (hfH : Fits H KH (vals2 0 padding).1 (vals2 1 dilation).1) (hfW : Fits W KW (vals2 0 padding).2 (vals2 1 dilation).2) :
    ∃ r, convnd 2 x w bias stride padding dilation g = .ok r ∧
      r.shape = [N, Og * g, outSize H KH (vals2 1 stride).1 (vals2 0 padding).1 (vals2 1 dilation).1,
                 outSize W KW (vals2 1 stride).2 (vals2 0 padding).2 (vals2 1 dilation).2] := by
  obtain ⟨r, h1, h2, _⟩ := conv2d_eq_code_loop x w bias N Og g Cg H W KH KW stride padding dilation hx hw hb hOg hg hKH hKW hs hp hd hfH hfW
  exact ⟨r, h1, h2⟩

/-- **conv2d = the PyTorch nested loop** for EVERY `groups` (and any number of output channels per group), any batch,
    None / int / pair forms of stride, padding, dilation.  (Before fixes/C17-conv-groups-interleaved: `groups = 1` or
    `O = groups` only, `conv2d_groups_regression`.) -/
theorem conv2d_eq_nested_loop (x w : Arr Int) (bias : Option (Arr Int)) (N Og g Cg H W KH KW : Nat) (stride padding dilation : PArg)
    (hx : x.shape = [N, g * Cg, H, W]) (hw : w.shape = [Og * g, Cg, KH, KW]) (hb : ∀ b, bias = some b → b.shape = [Og * g])
    (hOg : 0 < Og) (hg : 0 < g) (hKH : 0 < KH) (hKW : 0 < KW)
    (hs : PosForm2 stride) (hp : Form2 padding) (hd : PosForm2 dilation)
    (hfH : Fits H KH (vals2 0 padding).1 (vals2 1 dilation).1) (hfW : Fits W KW (vals2 0 padding).2 (vals2 1 dilation).2) :
    ∃ r, convnd 2 x w bias stride padding dilation g = .ok r ∧
      r.shape = [N, Og * g, outSize H KH (vals2 1 stride).1 (vals2 0 padding).1 (vals2 1 dilation).1,
                 outSize W KW (vals2 1 stride).2 (vals2 0 padding).2 (vals2 1 dilation).2] ∧
      ∀ n o i j, n < N → o < Og * g → i < outSize H KH (vals2 1 stride).1 (vals2 0 padding).1 (vals2 1 dilation).1 →
        j < outSize W KW (vals2 1 stride).2 (vals2 0 padding).2 (vals2 1 dilation).2 →
        r.get [n, o, i, j] = conv2dLoop (grpSpec (Og * g) g) x w bias H W Cg KH KW (vals2 1 stride).1 (vals2 1 stride).2
          (vals2 0 padding).1 (vals2 0 padding).2 (vals2 1 dilation).1 (vals2 1 dilation).2 n o i j := by
  obtain ⟨r, h1, h2, h3⟩ := conv2d_eq_code_loop x w bias N Og g Cg H W KH KW stride padding dilation hx hw hb hOg hg hKH hKW hs hp hd hfH hfW
  refine ⟨r, h1, h2, fun n o i j hn ho hi hj => ?_⟩
  rw [h3 n o i j hn ho hi hj]
  exact conv2dLoop_congr_grp (grpCode_eq_grpSpec hg o) x w bias H W Cg KH KW _ _ _ _ _ _ n i j

/-- non-vacuity for conv2d, with pair forms: batch 2, C = 2 (groups 2, depthwise), 4×5 input, 2×3 kernel, stride (2,1),
    padding (1,0), dilation (1,2) — extents ⌊(4+2−1−1)/2⌋+1 = 3 and ⌊(5+0−4−1)/1⌋+1 = 1 -/
example : ∃ r, convnd 2 ⟨[2, 2, 4, 5], fun _ => 1⟩ ⟨[2, 1, 2, 3], fun _ => 1⟩ none (.arr [2, 1]) (.arr [1, 0]) (.arr [1, 2]) 2 = .ok r ∧
    r.shape = [2, 2, 3, 1] := by
  obtain ⟨r, h1, h2⟩ := conv2d_out_shape_eq_formula ⟨[2, 2, 4, 5], fun _ => 1⟩ ⟨[2, 1, 2, 3], fun _ => 1⟩ none 2 1 2 1 4 5 2 3
    (.arr [2, 1]) (.arr [1, 0]) (.arr [1, 2])
    rfl rfl (by intro b h; cases h) (by decide) (by decide) (by decide) (by decide)
    (Or.inr (Or.inr ⟨2, 1, by decide, by decide, rfl⟩)) (Or.inr (Or.inr ⟨1, 0, rfl⟩)) (Or.inr (Or.inr ⟨1, 2, by decide, by decide, rfl⟩))
    (by decide) (by decide)
  exact ⟨r, h1, h2⟩

/-- non-vacuity of `conv2d_eq_nested_loop` with two groups of two output channels each (C = 2, O = 4, groups = 2), 2×2
    input, 1×2 kernel: defined, shape (1,4,2,1), element (0,2,1,0) (group 2 / 2 = 1) is the PyTorch nested loop -/
example : ∃ r, convnd 2 ⟨[1, 2, 2, 2], fun _ => 1⟩ ⟨[4, 1, 1, 2], fun _ => 1⟩ none .none .none .none 2 = .ok r ∧ r.shape = [1, 4, 2, 1] ∧
    r.get [0, 2, 1, 0] = conv2dLoop (grpSpec 4 2) ⟨[1, 2, 2, 2], fun _ => 1⟩ ⟨[4, 1, 1, 2], fun _ => 1⟩ none 2 2 1 1 2 1 1 0 0 1 1 0 2 1 0 := by
  obtain ⟨r, h1, h2, h3⟩ := conv2d_eq_nested_loop ⟨[1, 2, 2, 2], fun _ => 1⟩ ⟨[4, 1, 1, 2], fun _ => 1⟩ none 1 2 2 1 2 2 1 2 .none .none .none
    rfl rfl (by intro b h; cases h) (by decide) (by decide) (by decide) (by decide) (Or.inl rfl) (Or.inl rfl) (Or.inl rfl)
    (by decide) (by decide)
  exact ⟨r, h1, h2, h3 0 2 1 0 (by decide) (by decide) (by decide) (by decide)⟩

/-- regression instance for the repaired defect conv.groups-interleaved, conv2d: C = 2, O = 4, groups = 2, 1×1 input and
    kernel, weights all 1, `x = (1, 2)`: output channel 1 reads input channel 0 (value 1), the output is `(1, 1, 2, 2)`;
    the interleaved assignment read channel 1 (value 2). -/
theorem conv2d_groups_regression :
    let x : Arr Int := ⟨[1, 2, 1, 1], fun i => match i with | [_, c, _, _] => (c + 1 : Nat) | _ => 0⟩
    let w : Arr Int := ⟨[4, 1, 1, 1], fun _ => 1⟩
    (List.range 4).map (fun o => Res.getD (convnd 2 x w none .none .none .none 2) [0, o, 0, 0]) = [1, 1, 2, 2]
      ∧ conv2dLoop (grpSpec 4 2) x w none 1 1 1 1 1 1 1 0 0 1 1 0 1 0 0 = 1
      ∧ conv2dLoop (grpInterleaved 2) x w none 1 1 1 1 1 1 1 0 0 1 1 0 1 0 0 = 2 := by
  decide

/-- the repaired dilation pair as a positive instance: input (1,1,1,3), kernel (1,2), dilation pair (d_h, d_w) = (2, 1)
    gives the extent (1, 2) -/
example :
    let x : Arr Int := ⟨[1, 1, 1, 3], fun _ => 1⟩
    let w : Arr Int := ⟨[1, 1, 1, 2], fun _ => 1⟩
    Res.shapeD (convnd 2 x w none .none .none (.arr [2, 1]) 1) = [1, 1, 1, 2] := by
  decide

end NmVerif.Props.C17
