// C11 support for the GENERATED translation units (harness/gen_c11.py writes them into .build/gen_c11/).
// Prints, for one view object: the compile-time knowledge the library reports about its TYPE
//   sk  kind of the type returned by nmtools::shape(view):  c:<extents> constant | l:<per-axis max> clipped |
//       f:<dim> fixed-length run-time array | b:<max dim> bounded run-time array | d dynamic | ?:...
//   fs fd fz bd bz   meta::fixed_shape_v / fixed_dim_v / fixed_size_v / bounded_dim_v / bounded_size_v  ("-" = fail type)
// next to the run-time facts of the OBJECT (shape= dim= size=), then evaluates the view with the default
// resolver (the one array::X(...) uses) and reports whether the result container held the whole result:
//   ev=ok | ev=shape:<result shape> | ev=elem:<flat index of first differing element>
//   hk=<number of NMTOOLS_VERIF events 1 (capacity ignored) / 2 (clamp) / 3 (evaluator skipped) during the request>
#pragma once
#include "nmtools/array/ndarray.hpp"
#include "nmtools/array/eval.hpp"
#include "nmtools/array/index/ndindex.hpp"
#include "nmtools/utility/at.hpp"
#include "nmtools/utility/shape.hpp"
#include "nmtools/constants.hpp"
#include "proto.hpp"
#include <array>
#include <vector>
#include <string>

namespace nm = nmtools; namespace na = nmtools::array; namespace meta = nmtools::meta;
namespace view = nmtools::view; namespace ix = nmtools::index;
using namespace nmtools::literals;

static long long c11_events[4] = {0,0,0,0};
extern "C" void nmtools_verif_event(int kind, long long, long long) { if (kind>=1 && kind<=3) c11_events[kind]++; }

namespace c11 {
using proto::ivec; using proto::uvec;
using Shapes = std::vector<ivec>;

inline void reset_events() { c11_events[1]=c11_events[2]=c11_events[3]=0; }
inline std::string events() {
    long long n = c11_events[1]+c11_events[2]+c11_events[3];
    if (n==0) return "0";
    return std::to_string(c11_events[1])+"/"+std::to_string(c11_events[2])+"/"+std::to_string(c11_events[3]);
}

template <typename V> std::string fmtv(const V& v) {
    std::string s; size_t n = (size_t)nm::len(v);
    if (n==0) return "[]";
    for (size_t i=0;i<n;i++){ if(i) s+=","; s+=std::to_string((long long)nm::at(v,i)); }
    return s;
}
template <typename T> std::string fmt_any(const T& x) {
    if constexpr (meta::is_fail_v<T>) return "-";
    else if constexpr (meta::is_num_v<T>) return std::to_string((long long)x);
    else if constexpr (meta::is_constant_index_array_v<T>) return fmtv(meta::to_value_v<T>);
    else return fmtv(x);
}
template <typename S> std::string shape_kind() {
    using T = meta::remove_cvref_t<S>;
    if constexpr (meta::is_constant_index_array_v<T>) return "c:" + fmtv(meta::to_value_v<T>);
    else if constexpr (meta::is_clipped_index_array_v<T>) return "l:" + fmt_any(meta::to_value_v<T>);
    else if constexpr (meta::is_fixed_index_array_v<T>) return "f:" + std::to_string((long long)meta::len_v<T>);
    else if constexpr (meta::is_index_array_v<T> && !meta::is_fail_v<decltype(meta::bounded_size_v<T>)>)
        return "b:" + std::to_string((long long)meta::bounded_size_v<T>);
    else if constexpr (meta::is_index_array_v<T>) return "d";
    else return "?";
}
template <typename T> std::string statics() {
    using U = meta::remove_cvref_t<T>;
    std::string s;
    s += "fs=" + fmt_any(meta::fixed_shape_v<U>);
    s += " fd=" + fmt_any(meta::fixed_dim_v<U>);
    s += " fz=" + fmt_any(meta::fixed_size_v<U>);
    s += " bd=" + fmt_any(meta::bounded_dim_v<U>);
    s += " bz=" + fmt_any(meta::bounded_size_v<U>);
    return s;
}
template <typename V> std::vector<long long> elems(const V& v) {
    std::vector<long long> out;
    auto shp = nm::shape(v);
    auto nd = ix::ndindex(shp);
    size_t n = nd.size();
    out.reserve(n);
    for (size_t i=0;i<n;i++) out.push_back((long long)nm::apply_at(v, nd[i]));
    return out;
}
template <typename A> void fill(A& a, long long base) {
    auto shp = nm::shape(a);
    auto nd = ix::ndindex(shp);
    size_t n = nd.size();
    for (size_t i=0;i<n;i++) nm::apply_at(a, nd[i]) = (int)(base + (long long)i);
}
inline uvec to_u(const ivec& s) { uvec r; for (auto v : s) r.push_back((size_t)v); return r; }

// leaf construction: constant-shape kinds accept only their own shape, the others are resized
template <typename A> bool make_leaf(A& a, const ivec& shape, long long base) {
    using shape_t = decltype(nm::shape(a));
    if constexpr (meta::is_constant_index_array_v<meta::remove_cvref_t<shape_t>> || !meta::is_resizable_v<A> && meta::is_fixed_shape_v<A>) {
        const auto s = nm::shape(a);
        if ((size_t)nm::len(s) != shape.size()) return false;
        for (size_t i=0;i<shape.size();i++) if ((long long)nm::at(s,i) != shape[i]) return false;
    } else {
        auto u = to_u(shape);
        if (!a.resize(u)) return false;
        const auto s = nm::shape(a);
        if ((size_t)nm::len(s) != shape.size()) return false;
        for (size_t i=0;i<shape.size();i++) if ((long long)nm::at(s,i) != shape[i]) return false;
    }
    fill(a, base);
    return true;
}
template <size_t N> std::array<int,N> to_arr(const ivec& v) { std::array<int,N> r{}; for (size_t i=0;i<N && i<v.size();i++) r[i]=(int)v[i]; return r; }
template <size_t N> std::array<size_t,N> to_uarr(const ivec& v) { std::array<size_t,N> r{}; for (size_t i=0;i<N && i<v.size();i++) r[i]=(size_t)v[i]; return r; }
inline std::vector<int> to_vec(const ivec& v) { std::vector<int> r; for (auto x : v) r.push_back((int)x); return r; }
template <size_t B> nmtools_static_vector<int,B> to_sv(const ivec& v) { nmtools_static_vector<int,B> r; r.resize(v.size()); for (size_t i=0;i<v.size();i++) r[i]=(int)v[i]; return r; }

template <typename M> bool has(const M& m) { if constexpr (meta::is_maybe_v<M>) return (bool)nm::has_value(m); else return true; }
template <typename M> auto get(const M& m) { if constexpr (meta::is_maybe_v<M>) return *m; else return m; }

// first view of the tuple returned by view::broadcast_arrays (possibly inside a maybe)
template <typename M> auto first(const M& m) {
    if constexpr (meta::is_maybe_v<M>) {
        using T = meta::remove_cvref_t<decltype(nm::get<0>(*m))>;
        using R = nmtools_maybe<T>;
        if (nm::has_value(m)) return R{nm::get<0>(*m)};
        else return R{meta::Nothing};
    } else return nm::get<0>(m);
}

template <typename V> std::string report(const V& v) {
    if constexpr (meta::is_maybe_v<V>) {
        if (!nm::has_value(v)) return "nothing";
        return report(*v);
    } else if constexpr (meta::is_num_v<V>) {
        return "ok num";
    } else {
        using shape_t = decltype(nm::shape(v));
        std::string s = "ok sk=" + shape_kind<shape_t>() + " " + statics<V>();
        auto shp = nm::shape(v);
        s += " shape=" + fmtv(shp) + " dim=" + std::to_string((long long)nm::dim(v)) + " size=" + std::to_string((long long)nm::size(v));
        auto ve = elems(v);
        auto r = na::eval(v, nm::None, nm::None, na::RowMajorResolver);
        using R = decltype(r);
        auto rshp = nm::shape(r);
        std::string ev = "ok";
        if (fmtv(rshp) != fmtv(shp)) ev = "shape:" + fmtv(rshp);
        else {
            auto re = elems(r);
            if (re.size() != ve.size()) ev = "count:" + std::to_string(re.size());
            else for (size_t i=0;i<re.size();i++) if (re[i]!=ve[i]) { ev = "elem:" + std::to_string(i); break; }
        }
        using rshape_t = decltype(nm::shape(r));
        s += " ev=" + ev + " rk=" + shape_kind<rshape_t>() + " rfz=" + fmt_any(meta::fixed_size_v<R>) + " rbz=" + fmt_any(meta::bounded_size_v<R>);
        long long cs = 0; for (auto x : ve) cs = (((cs*31 + x) % 1000000007LL) + 1000000007LL) % 1000000007LL;
        s += " n=" + std::to_string(ve.size()) + " h=" + std::to_string(cs);
        s += " hk=" + events();
        return s;
    }
}
} // namespace c11
