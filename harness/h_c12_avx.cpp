// C12 harness, x86 AVX context (256 bit); build with -mavx2 -mfma
#include "nmtools/array/eval/simd/x86_avx.hpp"
#define C12_CTX  nmtools::array::simd::x86_AVX
#define C12_BITS 256
#include "h_c12_common.hpp"
