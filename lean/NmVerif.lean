import NmVerif.Basic
import NmVerif.Lemmas.Addressing
