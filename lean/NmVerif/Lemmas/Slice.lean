import NmVerif.Index.Slice
import Mathlib.Tactic.SplitIfs
/-
  Helper lemmas for C05 (slicing), per axis: the implementation's normalisation `slice_indices` is Python's
  `slice.indices` for every extent and every start/stop/step; length and element map follow.
  Property statements live in NmVerif/Props/C05.lean.
-/
namespace NmVerif.Slice

theorem u64_small (x : Int) (h1 : 0 ≤ x) (h2 : x < 18446744073709551616) : u64 x = x := by unfold u64; omega

/-! ### Python side in normal form -/

def stepVal : Option Int → Int
  | none => 1
  | some k => k

def pyStart (n : Int) (a c : Option Int) : Int := pyAdjust n (stepVal c) (n - 1) 0 a
def pyStop (n : Int) (b c : Option Int) : Int := pyAdjust n (stepVal c) (-1) n b

/-- `|stop' - start'|` when the range is non-empty in the direction of the step, else 0 -/
def pyRange (st sp k : Int) : Int :=
  if k < 0 then (if sp < st then st - sp else 0) else (if st < sp then sp - st else 0)

theorem pyLen_eq (st sp k : Int) :
    pyLen st sp k = if pyRange st sp k = 0 then 0 else (pyRange st sp k - 1) / absI k + 1 := by
  unfold pyLen pyRange absI
  split_ifs <;> first | rfl | omega

theorem pyAxis_eq (n : Nat) (a b c : Option Int) (hk : stepVal c ≠ 0) :
    pyAxis n a b c = some ((pyLen (pyStart n a c) (pyStop n b c) (stepVal c)).toNat, pyStart n a c, stepVal c) := by
  unfold pyAxis pyIndices pyStart pyStop
  rcases c with _ | c
  · simp [stepVal]
  · simp only [stepVal] at hk ⊢
    simp [hk]

theorem pyStart_bounds (n : Nat) (a c : Option Int) :
    (0 < stepVal c → 0 ≤ pyStart n a c ∧ pyStart n a c ≤ n) ∧
    (stepVal c < 0 → -1 ≤ pyStart n a c ∧ pyStart n a c ≤ (n : Int) - 1) := by
  unfold pyStart pyAdjust
  rcases a with _ | a <;> simp only <;> constructor <;> intro h <;> split_ifs <;> omega

theorem pyStop_bounds (n : Nat) (b c : Option Int) :
    (0 < stepVal c → 0 ≤ pyStop n b c ∧ pyStop n b c ≤ n) ∧
    (stepVal c < 0 → -1 ≤ pyStop n b c ∧ pyStop n b c ≤ (n : Int) - 1) := by
  unfold pyStop pyAdjust
  rcases b with _ | b <;> simp only <;> constructor <;> intro h <;> split_ifs <;> omega

theorem pyRange_bounds (n : Nat) (a b c : Option Int) (hk : stepVal c ≠ 0) :
    0 ≤ pyRange (pyStart n a c) (pyStop n b c) (stepVal c) ∧ pyRange (pyStart n a c) (pyStop n b c) (stepVal c) ≤ n := by
  have h1 := pyStart_bounds n a c
  have h2 := pyStop_bounds n b c
  unfold pyRange
  split_ifs <;> omega

theorem pyLen_nonneg (st sp k : Int) (hk : k ≠ 0) : 0 ≤ pyLen st sp k := by
  unfold pyLen
  split_ifs with h1 h2 h2
  · have : 0 ≤ (st - sp - 1) / -k := Int.ediv_nonneg (by omega) (by omega)
    omega
  · omega
  · have : 0 ≤ (sp - st - 1) / k := Int.ediv_nonneg (by omega) (by omega)
    omega
  · omega

/-- `j < len` means `j * |k| ≤ range - 1` -/
theorem mul_le_of_lt_pyLen (st sp k : Int) (hk : k ≠ 0) (j : Nat) (hj : j < (pyLen st sp k).toNat) :
    0 < pyRange st sp k ∧ (j : Int) * absI k ≤ pyRange st sp k - 1 := by
  have hn := pyLen_nonneg st sp k hk
  have hj' : (j : Int) < pyLen st sp k := by omega
  rw [pyLen_eq] at hj'
  have hak : 0 < absI k := by unfold absI; split_ifs <;> omega
  split_ifs at hj' with h0
  · omega
  · have hr : 0 ≤ pyRange st sp k := by unfold pyRange; split_ifs <;> omega
    refine ⟨by omega, ?_⟩
    have h1 : (j : Int) ≤ (pyRange st sp k - 1) / absI k := by omega
    have h2 : (j : Int) * absI k ≤ (pyRange st sp k - 1) / absI k * absI k := Int.mul_le_mul_of_nonneg_right h1 (by omega)
    have h3 := Int.ediv_mul_le (pyRange st sp k - 1) (b := absI k) (by omega)
    omega

/-- SPEC sanity, for every input: the elements Python selects lie inside the axis -/
theorem pyAxis_inBounds (n : Nat) (a b c : Option Int) (hk : stepVal c ≠ 0) (j : Nat)
    (hj : j < (pyLen (pyStart n a c) (pyStop n b c) (stepVal c)).toNat) :
    0 ≤ pyStart n a c + j * stepVal c ∧ pyStart n a c + j * stepVal c < n := by
  obtain ⟨hpos, hmul⟩ := mul_le_of_lt_pyLen _ _ _ hk j hj
  have h1 := pyStart_bounds n a c
  have h2 := pyStop_bounds n b c
  by_cases hneg : stepVal c < 0
  · have e1 : absI (stepVal c) = -stepVal c := by unfold absI; rw [if_pos hneg]
    have e2 : (j : Int) * -stepVal c = -((j : Int) * stepVal c) := by rw [Int.mul_neg]
    have e3 : 0 ≤ (j : Int) * -stepVal c := Int.mul_nonneg (by omega) (by omega)
    rw [e1] at hmul
    unfold pyRange at hpos hmul
    rw [if_pos hneg] at hpos hmul
    split_ifs at hpos hmul <;> omega
  · have e1 : absI (stepVal c) = stepVal c := by unfold absI; rw [if_neg hneg]
    have e3 : 0 ≤ (j : Int) * stepVal c := Int.mul_nonneg (by omega) (by omega)
    rw [e1] at hmul
    unfold pyRange at hpos hmul
    rw [if_neg hneg] at hpos hmul
    split_ifs at hpos hmul <;> omega

/-! ### the implementation's normalisation is Python's -/

/-- `slice_indices` (clamp formulation) = `PySlice_AdjustIndices`, for every extent and every start/stop/step -/
theorem sliceIndices_eq_python (n : Nat) (a b c : Option Int) :
    sliceIndices n a b c = (pyStart n a c, pyStop n b c, stepVal c) := by
  unfold sliceIndices pyStart pyStop pyAdjust
  rcases a with _ | a <;> rcases b with _ | b <;> rcases c with _ | c <;>
  simp only [stepVal] <;>
  (apply Prod.ext
   · simp only; split_ifs <;> omega
   · apply Prod.ext
     · simp only; split_ifs <;> omega
     · rfl)

theorem computeRange_eq_python (n : Nat) (a b c : Option Int) :
    computeRange n a b c = pyRange (pyStart n a c) (pyStop n b c) (stepVal c) := by
  unfold computeRange
  rw [sliceIndices_eq_python]
  simp only [pyRange]
  split_ifs <;> omega

theorem computeStep_eq (c : Option Int) : computeStep c = absI (stepVal c) := by
  rcases c with _ | c <;> (first | rfl | simp [computeStep, stepVal, absI])

/-- integer ceiling `(r + k - 1) / k` in the form CPython computes the length -/
theorem ceil_eq (r k : Int) (hr : 0 ≤ r) (hk : 0 < k) :
    (r + k - 1) / k = if r = 0 then 0 else (r - 1) / k + 1 := by
  split_ifs with h0
  · subst h0
    exact Int.ediv_eq_zero_of_lt (by omega) (by omega)
  · have : r + k - 1 = (r - 1) + k := by omega
    have h1 : (r - 1 + k) = (r - 1) + 1 * k := by omega
    rw [this, h1, Int.add_mul_ediv_right _ _ (by omega)]

theorem stepVal_abs_pos (c : Option Int) (hk : stepVal c ≠ 0) : 0 < absI (stepVal c) := by
  unfold absI; split_ifs <;> omega

/-- per-axis agreement, for every extent below 2^64 and every start/stop/step with step ≠ 0: same length, and every
    element `j` below it is Python's `start' + j*step` -/
theorem range_all (n : Nat) (a b c : Option Int) (hn : n < 18446744073709551616) (hk : stepVal c ≠ 0) :
    sliceLen n a b c = some (pyLen (pyStart n a c) (pyStop n b c) (stepVal c)) ∧
    ∀ j : Nat, j < (pyLen (pyStart n a c) (pyStop n b c) (stepVal c)).toNat →
      computeIndex n a b c j = pyStart n a c + j * stepVal c := by
  have hak := stepVal_abs_pos c hk
  have hrb := pyRange_bounds n a b c hk
  constructor
  · unfold sliceLen lengthOf
    rw [computeRange_eq_python, computeStep_eq, if_neg (by omega), ceil_eq _ _ hrb.1 hak, pyLen_eq]
  · intro j hj
    have hin := pyAxis_inBounds n a b c hk j hj
    unfold computeIndex
    rw [sliceIndices_eq_python]
    simp only
    exact u64_small _ hin.1 (by omega)

/-- the goal of the per-entry step, for a range entry -/
theorem range_entry_all (n : Nat) (a b c : Option Int) (hn : n < 18446744073709551616) (hk : stepVal c ≠ 0) :
    ∃ l f k, pyAxis n a b c = some (l, f, k) ∧ sliceLen n a b c = some (l : Int) ∧
      ∀ j : Nat, j < l → computeIndex n a b c j = f + j * k ∧ 0 ≤ f + j * k ∧ f + j * k < n := by
  obtain ⟨hl, hi⟩ := range_all n a b c hn hk
  refine ⟨_, _, _, pyAxis_eq n a b c hk, ?_, ?_⟩
  · rw [hl, Int.toNat_of_nonneg (pyLen_nonneg _ _ _ hk)]
  · intro j hj
    exact ⟨hi j hj, pyAxis_inBounds n a b c hk j hj⟩

theorem intIndex_dom (n : Nat) (k : Int) (h1 : -(n : Int) ≤ k) (h2 : k < n) (h3 : n < 4611686018427387904) :
    intIndex n k = (if k < 0 then k + n else k) ∧ 0 ≤ intIndex n k ∧ intIndex n k < n := by
  unfold intIndex u64 absI
  split_ifs <;> omega

end NmVerif.Slice
