import NmVerif.Index.Slice
import Mathlib.Tactic.SplitIfs
/-
  Helper lemmas for C05 (slicing): exactness of the binary32 length computation below 2^24, the decidable domain `Dom`
  on which the implementation's case analysis agrees with Python, and the per-axis agreement lemmas.
  Property statements live in NmVerif/Props/C05.lean.
-/
namespace NmVerif.Slice

/-! ### binary32: `ceil(float(s)/step)` is exact for `s < 2^24` -/


theorem findT_spec (x k : Nat) (hx : 0 < x) (hk : 0 < k) (hk2 : k < 16777216) :
    ∀ fuel t, 47 ≤ t + fuel → 8388608 ≤ x * 2 ^ (findT x k fuel t) / k := by
  intro fuel
  induction fuel with
  | zero =>
    intro t ht
    simp only [findT]
    have h47 : 2 ^ 47 ≤ 2 ^ t := Nat.pow_le_pow_right (by decide) (by omega)
    have h1 : 2 ^ t ≤ x * 2 ^ t := Nat.le_mul_of_pos_left _ hx
    rw [Nat.le_div_iff_mul_le hk]
    have : 8388608 * k ≤ 8388608 * 16777216 := Nat.mul_le_mul_left _ (by omega)
    have e : (2:Nat) ^ 47 = 8388608 * 16777216 := by decide
    omega
  | succ f ih =>
    intro t ht
    simp only [findT]
    split
    · assumption
    · exact ih (t + 1) (by omega)

theorem div_eq_of_bounds (a b q : Nat) (hb : 0 < b) (h1 : q * b ≤ a) (h2 : a < (q + 1) * b) : a / b = q := by
  apply Nat.div_eq_of_lt_le
  · simpa [Nat.mul_comm] using h1
  · simpa [Nat.mul_comm] using h2

theorem rhe_ceil (x k P : Nat) (hk : 0 < k) (hP : 0 < P) (hx : x < 16777216)
    (hN : 8388608 ≤ x * P / k) :
    (rhe (x * P / k) (x * P % k) k + P - 1) / P = (x + k - 1) / k := by
  have hxk := Nat.div_add_mod x k
  generalize hc : x / k = c at *
  generalize hr0 : x % k = r0 at *
  have hr0k : r0 < k := by rw [← hr0]; exact Nat.mod_lt _ hk
  have hM : x * P = k * (c * P) + r0 * P := by
    rw [← hxk, Nat.add_mul, Nat.mul_assoc]
  have hm : x * P / k = c * P + r0 * P / k := by
    rw [hM, Nat.mul_add_div hk]
  have hr : x * P % k = r0 * P % k := by
    rw [hM, Nat.mul_add_mod]
  rw [hm] at hN
  rw [hm, hr]
  have hw := Nat.div_add_mod (r0 * P) k
  generalize hu : r0 * P / k = u at *
  generalize hv : r0 * P % k = v at *
  have hvk : v < k := by rw [← hv]; exact Nat.mod_lt _ hk
  by_cases h0 : r0 = 0
  · subst h0
    simp only [Nat.zero_mul] at hw
    have hu0 : u = 0 := by
      rcases Nat.eq_zero_or_pos u with h | h
      · exact h
      · have : k * 1 ≤ k * u := Nat.mul_le_mul_left _ h
        omega
    have hv0 : v = 0 := by subst hu0; simpa using hw
    subst hu0; subst hv0
    have : rhe (c * P + 0) 0 k = c * P := by simp [rhe]; omega
    rw [this]
    have e1 : (c * P + P - 1) / P = c := div_eq_of_bounds _ _ _ hP (by omega) (by rw [Nat.add_mul]; omega)
    have e2 : (x + k - 1) / k = c := by
      apply div_eq_of_bounds _ _ _ hk
      · rw [Nat.mul_comm]; omega
      · rw [Nat.add_mul, Nat.mul_comm c k]; omega
    rw [e1, e2]
  · have hr0p : 1 ≤ r0 := by omega
    -- u < P
    have huP : u < P := by
      have : r0 * P < k * P := Nat.mul_lt_mul_of_pos_right hr0k hP
      rcases Nat.lt_or_ge u P with h | h
      · exact h
      · have : k * P ≤ k * u := Nat.mul_le_mul_left _ h
        omega
    have e2 : (x + k - 1) / k = c + 1 := by
      apply div_eq_of_bounds _ _ _ hk
      · rw [Nat.add_mul, Nat.mul_comm c k]; omega
      · rw [Nat.add_mul, Nat.add_mul, Nat.mul_comm c k]; omega
    rw [e2]
    have hle : rhe (c * P + u) v k ≤ c * P + u + 1 := by unfold rhe; split <;> omega
    have hge : c * P + 1 ≤ rhe (c * P + u) v k := by
      by_cases hu0 : u = 0
      · subst hu0
        -- v = r0 * P, c*P ≥ 2^23, k < 2P
        have hvw : v = r0 * P := by simpa using hw
        have hck : c * k ≤ x := by rw [Nat.mul_comm]; omega
        have h1 : (c * P) * k = (c * k) * P := Nat.mul_right_comm c P k
        have h2 : (c * k) * P ≤ x * P := Nat.mul_le_mul_right _ hck
        have h3 : x * P < 16777216 * P := Nat.mul_lt_mul_of_pos_right hx hP
        have h4 : 8388608 * k ≤ (c * P) * k := Nat.mul_le_mul_right _ (by simpa using hN)
        have h5 : P ≤ r0 * P := Nat.le_mul_of_pos_left _ hr0p
        have : 2 * v > k := by omega
        unfold rhe
        rw [if_pos (Or.inl this)]
        omega
      · have : 1 ≤ u := by omega
        unfold rhe; split <;> omega
    apply div_eq_of_bounds _ _ _ hP
    · rw [Nat.add_mul]; omega
    · rw [Nat.add_mul, Nat.add_mul]; omega

theorem f32DivCeil_exact (x k : Nat) (hx : x < 16777216) (hk : 0 < k) (hk2 : k < 16777216) :
    f32DivCeil x k = (x + k - 1) / k := by
  unfold f32DivCeil
  by_cases h0 : x = 0
  · subst h0
    simp
    exact (Nat.div_eq_of_lt (by omega)).symm
  · rw [if_neg h0]
    have : x / k < 16777216 := Nat.lt_of_le_of_lt (Nat.div_le_self _ _) hx
    rw [if_pos this]
    simp only [f32DivSmall]
    exact rhe_ceil x k _ hk (Nat.pow_pos (by decide)) hx (findT_spec x k (by omega) hk hk2 64 0 (by omega))


theorem ceilDiv_le_self (x k : Nat) (hk : 0 < k) : (x + k - 1) / k ≤ x := by
  rcases Nat.eq_zero_or_pos x with h | h
  · subst h
    have : (0 + k - 1) / k = 0 := Nat.div_eq_of_lt (by omega)
    omega
  · apply Nat.div_le_of_le_mul
    obtain ⟨y, rfl⟩ : ∃ y, x = y + 1 := ⟨x - 1, by omega⟩
    obtain ⟨z, rfl⟩ : ∃ z, k = z + 1 := ⟨k - 1, by omega⟩
    simp only [Nat.add_mul, Nat.mul_add, Nat.mul_one, Nat.one_mul]
    omega

/-- the length computation is the exact ceiling division for ranges below 2^24 -/
theorem lengthOf_exact (s k : Int) (hs : 0 ≤ s) (hs2 : s < 16777216) (hk : 0 < k) (hk2 : k < 16777216) :
    lengthOf s k = some (if s = 0 then 0 else (s - 1) / k + 1) := by
  obtain ⟨x, rfl⟩ := Int.eq_ofNat_of_zero_le hs
  obtain ⟨y, rfl⟩ := Int.eq_ofNat_of_zero_le (Int.le_of_lt hk)
  have hx : x < 16777216 := by omega
  have hy : 0 < y := by omega
  have hy2 : y < 16777216 := by omega
  unfold lengthOf
  rw [if_neg (by omega), if_pos hs]
  simp only [Int.toNat_natCast]
  have hf : f32OfNat x = x := by unfold f32OfNat; rw [if_pos hx]
  rw [hf, f32DivCeil_exact x y hx hy hy2]
  have hle := ceilDiv_le_self x y hy
  rw [if_pos (by omega)]
  congr 1
  by_cases h0 : x = 0
  · subst h0
    have : (0 + y - 1) / y = 0 := Nat.div_eq_of_lt (by omega)
    rw [this]; simp
  · rw [if_neg (by omega)]
    have : x + y - 1 = (x - 1) + y := by omega
    rw [this, Nat.add_div_right _ hy]
    have h1 : ((x : Int) - 1) = ((x - 1 : Nat) : Int) := by omega
    rw [h1, ← Int.natCast_ediv]
    omega






/-! ### Dom — the region on which the implementation agrees with Python (per range entry) -/

def boundOk : Option Int → Bool
  | none => true
  | some v => decide (-2147483648 ≤ v) && decide (v < 2147483648)

def stepOk : Option Int → Bool
  | none => true
  | some k => decide (k ≠ 0) && decide (-16777216 < k) && decide (k < 16777216)

def isFwd : Option Int → Bool
  | none => true
  | some k => decide (0 < k)

def isZero (n : Nat) (v : Int) : Bool := decide (v = 0) || decide (v = -(n : Int))

/-- ranges whose Python result is empty and for which the implementation computes a zero range too -/
def emptyForm (n : Nat) (a b c : Option Int) : Bool :=
  match a, b with
  | some a, some b => (decide (a = b) && decide (b ≤ n)) || (isZero n a && isZero n b) || (decide (a = n) && decide (b ≥ n))
  | none, some b => isZero n b && isFwd c
  | some a, none => decide (a = n) && isFwd c
  | none, none => false

/-- step > 0 or omitted, non-empty result: start omitted or in `[-n, n)`, stop omitted / `≥ n` / in range, except
    negative start with omitted or positive in-range stop -/
def fwdForm (n : Nat) (a b : Option Int) : Bool :=
  match a, b with
  | none, none => true
  | none, some b => decide (b ≥ n) || decide (0 < b) || (decide (-(n : Int) < b) && decide (b < 0))
  | some a, none => decide (0 ≤ a) && decide (a < n)
  | some a, some b =>
    if 0 ≤ a ∧ a < n then
      decide (b ≥ n) || (decide (a < b) && decide (b < n)) || (decide (-(n : Int) < b) && decide (b < 0) && decide (a < b + n))
    else if -(n : Int) ≤ a ∧ a < 0 then
      decide (b ≥ n) || (decide (-(n : Int) < b) && decide (b < 0) && decide (a < b))
    else false

/-- step < 0: start omitted or in `[0, n)` with omitted stop; or `0 < start < n` with stop `0` -/
def bwdForm (n : Nat) (a b : Option Int) : Bool :=
  match a, b with
  | none, none => true
  | some a, none => decide (0 ≤ a) && decide (a < n)
  | some a, some b => decide (b = 0) && decide (0 < a) && decide (a < n)
  | none, some _ => false

/-- `Dom` for one range entry on an axis of extent `n` -/
def domRange (n : Nat) (a b c : Option Int) : Bool :=
  decide (0 < n) && decide (n < 16777216) && stepOk c && boundOk a && boundOk b &&
  (emptyForm n a b c || (if isFwd c then fwdForm n a b else bwdForm n a b))

/-! ### Python side in normal form -/

def stepVal : Option Int → Int
  | none => 1
  | some k => k

def pyStart (n : Int) (a c : Option Int) : Int := pyAdjust n (stepVal c) (n - 1) 0 a
def pyStop (n : Int) (b c : Option Int) : Int := pyAdjust n (stepVal c) (-1) n b

/-- `|stop' - start'|` when the range is non-empty in the direction of the step, else 0 -/
def pyRange (st sp k : Int) : Int :=
  if k < 0 then (if sp < st then st - sp else 0) else (if st < sp then sp - st else 0)

theorem pyLen_eq (st sp k : Int) :
    pyLen st sp k = if pyRange st sp k = 0 then 0 else (pyRange st sp k - 1) / absI k + 1 := by
  unfold pyLen pyRange absI
  split_ifs <;> first | rfl | omega | (congr 2; omega)

macro "dom_unpack" h:ident : tactic => `(tactic| (
  simp only [emptyForm, fwdForm, bwdForm, isFwd, isZero, stepOk, boundOk, Bool.and_eq_true, Bool.or_eq_true,
    decide_eq_true_eq, Bool.false_eq_true, or_false, false_or, ite_true, if_true, Bool.and_true, Bool.true_and, and_true, true_and] at $h:ident))
macro "dom_bools" h:ident : tactic => `(tactic| (
  try simp only [Bool.and_eq_true, Bool.or_eq_true, decide_eq_true_eq, Bool.false_eq_true, or_false, false_or, and_false, false_and] at $h:ident))


theorem i32_small (x : Int) (h1 : -2147483648 ≤ x) (h2 : x < 2147483648) : i32 x = x := by unfold i32; omega
theorem u64_small (x : Int) (h1 : 0 ≤ x) (h2 : x < 18446744073709551616) : u64 x = x := by unfold u64; omega


macro "dom_fin" : tactic => `(tactic| (
  (try simp (disch := omega) only [if_pos, if_neg]) <;>
  (try (unfold i32)) <;> (try (unfold u64)) <;> (try split_ifs) <;> omega))

macro "or_split" h:ident : tactic => `(tactic| (refine Or.elim $h ?_ ?_ <;> clear $h <;> intro $h:ident))
macro "dom_split" h:ident : tactic => `(tactic| (
  (try split_ifs at $h:ident) <;> dom_bools $h <;> (repeat' (or_split $h))))

/-- the non-empty forms of Dom -/
def walkForm (n : Nat) (a b c : Option Int) : Bool := if isFwd c then fwdForm n a b else bwdForm n a b
def baseOk (n : Nat) (a b c : Option Int) : Bool :=
  decide (0 < n) && decide (n < 16777216) && stepOk c && boundOk a && boundOk b

theorem domRange_iff (n : Nat) (a b c : Option Int) :
    domRange n a b c = true ↔ baseOk n a b c = true ∧ (emptyForm n a b c = true ∨ walkForm n a b c = true) := by
  simp [domRange, baseOk, walkForm]

macro "dom_unpack2" h:ident : tactic => `(tactic| (
  simp only [baseOk, walkForm, emptyForm, fwdForm, bwdForm, isFwd, isZero, stepOk, boundOk, Bool.and_eq_true, Bool.or_eq_true,
    decide_eq_true_eq, Bool.false_eq_true, or_false, false_or, ite_true, if_true, Bool.and_true, Bool.true_and, and_true, true_and] at $h:ident))

theorem computeIndex_walk_nn (n : Nat) (c : Option Int) (hbase : baseOk n none none c = true)
    (h : walkForm n none none c = true) (j : Int) :
    computeIndex n none none c j = u64 (pyStart n none c + j * stepVal c) := by
  rcases c with _ | c <;>
  dom_unpack2 hbase <;> dom_unpack2 h <;>
  have hi : i32 (n : Int) = n := i32_small _ (by omega) (by omega) <;>
  have hi' : i32 (-(n : Int)) = -n := i32_small _ (by omega) (by omega) <;>
  simp only [computeIndex, stopForIndex, pyStart, pyAdjust, stepVal, hi, hi'] <;>
  dom_split h <;> dom_fin

theorem computeIndex_walk_ns (n : Nat) (b : Int) (c : Option Int) (hbase : baseOk n none (some b) c = true)
    (h : walkForm n none (some b) c = true) (j : Int) :
    computeIndex n none (some b) c j = u64 (pyStart n none c + j * stepVal c) := by
  rcases c with _ | c <;>
  dom_unpack2 hbase <;> dom_unpack2 h <;>
  have hi : i32 (n : Int) = n := i32_small _ (by omega) (by omega) <;>
  have hi' : i32 (-(n : Int)) = -n := i32_small _ (by omega) (by omega) <;>
  simp only [computeIndex, stopForIndex, pyStart, pyAdjust, stepVal, hi, hi'] <;>
  dom_split h <;> dom_fin

theorem computeIndex_walk_sn (n : Nat) (a : Int) (c : Option Int) (hbase : baseOk n (some a) none c = true)
    (h : walkForm n (some a) none c = true) (j : Int) :
    computeIndex n (some a) none c j = u64 (pyStart n (some a) c + j * stepVal c) := by
  rcases c with _ | c <;>
  dom_unpack2 hbase <;> dom_unpack2 h <;>
  have hi : i32 (n : Int) = n := i32_small _ (by omega) (by omega) <;>
  have hi' : i32 (-(n : Int)) = -n := i32_small _ (by omega) (by omega) <;>
  simp only [computeIndex, stopForIndex, pyStart, pyAdjust, stepVal, hi, hi'] <;>
  dom_split h <;> dom_fin

theorem computeIndex_walk_ss (n : Nat) (a b : Int) (c : Option Int) (hbase : baseOk n (some a) (some b) c = true)
    (h : walkForm n (some a) (some b) c = true) (j : Int) :
    computeIndex n (some a) (some b) c j = u64 (pyStart n (some a) c + j * stepVal c) := by
  rcases c with _ | c <;>
  dom_unpack2 hbase <;> dom_unpack2 h <;>
  have hi : i32 (n : Int) = n := i32_small _ (by omega) (by omega) <;>
  have hi' : i32 (-(n : Int)) = -n := i32_small _ (by omega) (by omega) <;>
  simp only [computeIndex, stopForIndex, pyStart, pyAdjust, stepVal, hi, hi'] <;>
  dom_split h <;> dom_fin


/-! ### computeRange on Dom -/

theorem computeRange_dom_nn (n : Nat) (c : Option Int) (h : domRange n none none c = true) :
    computeRange n none none c = pyRange (pyStart n none c) (pyStop n none c) (stepVal c) := by
  unfold domRange at h
  rcases c with _ | c <;>
  dom_unpack h <;>
  obtain ⟨hbase, h⟩ := h <;>
  have hi : i32 (n : Int) = n := i32_small _ (by omega) (by omega) <;>
  simp only [computeRange, stopForRange, pyRange, pyStart, pyStop, pyAdjust, stepVal, absI, hi] <;>
  dom_split h <;> dom_fin

theorem computeRange_dom_ns (n : Nat) (b : Int) (c : Option Int) (h : domRange n none (some b) c = true) :
    computeRange n none (some b) c = pyRange (pyStart n none c) (pyStop n (some b) c) (stepVal c) := by
  unfold domRange at h
  rcases c with _ | c <;>
  dom_unpack h <;>
  obtain ⟨hbase, h⟩ := h <;>
  have hi : i32 (n : Int) = n := i32_small _ (by omega) (by omega) <;>
  simp only [computeRange, stopForRange, pyRange, pyStart, pyStop, pyAdjust, stepVal, absI, hi] <;>
  dom_split h <;> dom_fin

theorem computeRange_dom_sn (n : Nat) (a : Int) (c : Option Int) (h : domRange n (some a) none c = true) :
    computeRange n (some a) none c = pyRange (pyStart n (some a) c) (pyStop n none c) (stepVal c) := by
  unfold domRange at h
  rcases c with _ | c <;>
  dom_unpack h <;>
  obtain ⟨hbase, h⟩ := h <;>
  have hi : i32 (n : Int) = n := i32_small _ (by omega) (by omega) <;>
  simp only [computeRange, stopForRange, pyRange, pyStart, pyStop, pyAdjust, stepVal, absI, hi] <;>
  dom_split h <;> dom_fin

theorem computeRange_dom_ss (n : Nat) (a b : Int) (c : Option Int) (h : domRange n (some a) (some b) c = true) :
    computeRange n (some a) (some b) c = pyRange (pyStart n (some a) c) (pyStop n (some b) c) (stepVal c) := by
  unfold domRange at h
  rcases c with _ | c <;>
  dom_unpack h <;>
  obtain ⟨hbase, h⟩ := h <;>
  have hi : i32 (n : Int) = n := i32_small _ (by omega) (by omega) <;>
  simp only [computeRange, stopForRange, pyRange, pyStart, pyStop, pyAdjust, stepVal, absI, hi] <;>
  dom_split h <;> dom_fin

theorem computeRange_dom (n : Nat) (a b c : Option Int) (h : domRange n a b c = true) :
    computeRange n a b c = pyRange (pyStart n a c) (pyStop n b c) (stepVal c) := by
  rcases a with _ | a <;> rcases b with _ | b
  · exact computeRange_dom_nn n c h
  · exact computeRange_dom_ns n b c h
  · exact computeRange_dom_sn n a c h
  · exact computeRange_dom_ss n a b c h

theorem computeIndex_walk (n : Nat) (a b c : Option Int) (hbase : baseOk n a b c = true)
    (h : walkForm n a b c = true) (j : Int) :
    computeIndex n a b c j = u64 (pyStart n a c + j * stepVal c) := by
  rcases a with _ | a <;> rcases b with _ | b
  · exact computeIndex_walk_nn n c hbase h j
  · exact computeIndex_walk_ns n b c hbase h j
  · exact computeIndex_walk_sn n a c hbase h j
  · exact computeIndex_walk_ss n a b c hbase h j


/-! ### Python side: bounds -/

theorem pyAxis_eq (n : Nat) (a b c : Option Int) (hk : stepVal c ≠ 0) :
    pyAxis n a b c = some ((pyLen (pyStart n a c) (pyStop n b c) (stepVal c)).toNat, pyStart n a c, stepVal c) := by
  unfold pyAxis pyIndices pyStart pyStop
  rcases c with _ | c
  · simp [stepVal]
  · simp only [stepVal] at hk ⊢
    simp [hk]

theorem pyStart_bounds (n : Nat) (a c : Option Int) :
    (0 < stepVal c → 0 ≤ pyStart n a c ∧ pyStart n a c ≤ n) ∧
    (stepVal c < 0 → -1 ≤ pyStart n a c ∧ pyStart n a c ≤ (n : Int) - 1) := by
  unfold pyStart pyAdjust
  rcases a with _ | a <;> simp only <;> constructor <;> intro h <;> split_ifs <;> omega

theorem pyStop_bounds (n : Nat) (b c : Option Int) :
    (0 < stepVal c → 0 ≤ pyStop n b c ∧ pyStop n b c ≤ n) ∧
    (stepVal c < 0 → -1 ≤ pyStop n b c ∧ pyStop n b c ≤ (n : Int) - 1) := by
  unfold pyStop pyAdjust
  rcases b with _ | b <;> simp only <;> constructor <;> intro h <;> split_ifs <;> omega

theorem pyRange_bounds (n : Nat) (a b c : Option Int) (hk : stepVal c ≠ 0) :
    0 ≤ pyRange (pyStart n a c) (pyStop n b c) (stepVal c) ∧ pyRange (pyStart n a c) (pyStop n b c) (stepVal c) ≤ n := by
  have h1 := pyStart_bounds n a c
  have h2 := pyStop_bounds n b c
  unfold pyRange
  split_ifs <;> omega

theorem pyLen_nonneg (st sp k : Int) (hk : k ≠ 0) : 0 ≤ pyLen st sp k := by
  unfold pyLen
  split_ifs with h1 h2 h2
  · have : 0 ≤ (st - sp - 1) / -k := Int.ediv_nonneg (by omega) (by omega)
    omega
  · omega
  · have : 0 ≤ (sp - st - 1) / k := Int.ediv_nonneg (by omega) (by omega)
    omega
  · omega

/-- `j < len` means `j * |k| ≤ range - 1` -/
theorem mul_le_of_lt_pyLen (st sp k : Int) (hk : k ≠ 0) (j : Nat) (hj : j < (pyLen st sp k).toNat) :
    0 < pyRange st sp k ∧ (j : Int) * absI k ≤ pyRange st sp k - 1 := by
  have hn := pyLen_nonneg st sp k hk
  have hj' : (j : Int) < pyLen st sp k := by omega
  rw [pyLen_eq] at hj'
  have hak : 0 < absI k := by unfold absI; split_ifs <;> omega
  split_ifs at hj' with h0
  · omega
  · have hr : 0 ≤ pyRange st sp k := by unfold pyRange; split_ifs <;> omega
    refine ⟨by omega, ?_⟩
    have h1 : (j : Int) ≤ (pyRange st sp k - 1) / absI k := by omega
    have h2 : (j : Int) * absI k ≤ (pyRange st sp k - 1) / absI k * absI k := Int.mul_le_mul_of_nonneg_right h1 (by omega)
    have h3 := Int.ediv_mul_le (pyRange st sp k - 1) (b := absI k) (by omega)
    omega

/-- SPEC sanity, for every input: the elements Python selects lie inside the axis -/
theorem pyAxis_inBounds (n : Nat) (a b c : Option Int) (hk : stepVal c ≠ 0) (j : Nat)
    (hj : j < (pyLen (pyStart n a c) (pyStop n b c) (stepVal c)).toNat) :
    0 ≤ pyStart n a c + j * stepVal c ∧ pyStart n a c + j * stepVal c < n := by
  obtain ⟨hpos, hmul⟩ := mul_le_of_lt_pyLen _ _ _ hk j hj
  have h1 := pyStart_bounds n a c
  have h2 := pyStop_bounds n b c
  by_cases hneg : stepVal c < 0
  · have e1 : absI (stepVal c) = -stepVal c := by unfold absI; rw [if_pos hneg]
    have e2 : (j : Int) * -stepVal c = -((j : Int) * stepVal c) := by rw [Int.mul_neg]
    have e3 : 0 ≤ (j : Int) * -stepVal c := Int.mul_nonneg (by omega) (by omega)
    rw [e1] at hmul
    unfold pyRange at hpos hmul
    rw [if_pos hneg] at hpos hmul
    split_ifs at hpos hmul <;> omega
  · have e1 : absI (stepVal c) = stepVal c := by unfold absI; rw [if_neg hneg]
    have e3 : 0 ≤ (j : Int) * stepVal c := Int.mul_nonneg (by omega) (by omega)
    rw [e1] at hmul
    unfold pyRange at hpos hmul
    rw [if_neg hneg] at hpos hmul
    split_ifs at hpos hmul <;> omega

theorem computeStep_eq (c : Option Int) : computeStep c = absI (stepVal c) := by
  rcases c with _ | c <;> (first | rfl | simp [computeStep, stepVal, absI])

theorem emptyForm_range (n : Nat) (a b c : Option Int) (hbase : baseOk n a b c = true) (h : emptyForm n a b c = true) :
    pyRange (pyStart n a c) (pyStop n b c) (stepVal c) = 0 := by
  rcases a with _ | a <;> rcases b with _ | b <;> rcases c with _ | c <;>
  dom_unpack2 hbase <;> dom_unpack2 h <;>
  simp only [pyRange, pyStart, pyStop, pyAdjust, stepVal] <;>
  dom_split h <;> dom_fin

/-- per-axis agreement on Dom: same length, and every element `j` below it is Python's `start' + j*step`, inside the axis -/
theorem range_dom (n : Nat) (a b c : Option Int) (h : domRange n a b c = true) :
    sliceLen n a b c = some (pyLen (pyStart n a c) (pyStop n b c) (stepVal c)) ∧
    ∀ j : Nat, j < (pyLen (pyStart n a c) (pyStop n b c) (stepVal c)).toNat →
      computeIndex n a b c j = pyStart n a c + j * stepVal c := by
  have hR := computeRange_dom n a b c h
  obtain ⟨hbase, hform⟩ := (domRange_iff n a b c).1 h
  have hk : stepVal c ≠ 0 ∧ absI (stepVal c) < 16777216 ∧ n < 16777216 := by
    rcases c with _ | c <;> dom_unpack2 hbase <;> simp only [stepVal, absI] <;> split_ifs <;> omega
  have hak : 0 < absI (stepVal c) := by unfold absI; split_ifs <;> omega
  have hrb := pyRange_bounds n a b c hk.1
  constructor
  · unfold sliceLen
    rw [hR, computeStep_eq, lengthOf_exact _ _ hrb.1 (by omega) hak hk.2.1, pyLen_eq]
  · intro j hj
    have hin := pyAxis_inBounds n a b c hk.1 j hj
    rcases hform with he | hw
    · have := emptyForm_range n a b c hbase he
      have := (mul_le_of_lt_pyLen _ _ _ hk.1 j hj).1
      omega
    · rw [computeIndex_walk n a b c hbase hw j]
      exact u64_small _ hin.1 (by omega)


end NmVerif.Slice
