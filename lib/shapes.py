"""shape / argument enumerators shared by the property generators"""
import itertools


def shapes(max_rank, max_extent, min_rank=0, min_extent=1):
    for r in range(min_rank, max_rank + 1):
        for s in itertools.product(range(min_extent, max_extent + 1), repeat=r):
            yield list(s)


def prod(s):
    p = 1
    for x in s:
        p *= x
    return p


def fmt(l):
    l = list(l)
    return '[]' if not l else ','.join(str(int(x)) for x in l)


def fmt_lists(ll):
    ll = list(ll)
    return '[]' if not ll else ';'.join(fmt(l) for l in ll)


def all_idx(s):
    return [list(i) for i in itertools.product(*[range(e) for e in s])]


def rand_shape(rng, max_rank, max_extent, min_rank=1):
    r = rng.randint(min_rank, max_rank)
    return [rng.randint(1, max_extent) for _ in range(r)]
