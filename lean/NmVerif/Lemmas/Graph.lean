import NmVerif.Functional
/-
  Helper lemmas for the compute-graph clauses of C14: ct_map / ct_digraph operations and the merge of sub-graphs.
-/
namespace NmVerif.Functional
namespace Graph
variable {L : Type}

theorem hasNode_iff (g : Graph L) (k : Nat) : g.hasNode k = true ↔ k ∈ g.keys := by
  simp [hasNode]

theorem keys_addNode_fresh (g : Graph L) (k : Nat) (l : L) (h : k ∉ g.keys) :
    (g.addNode k l).keys = g.keys ++ [k] := by
  have : g.hasNode k = false := by
    cases hh : g.hasNode k with
    | false => rfl
    | true => exact absurd ((hasNode_iff g k).1 hh) h
  simp [addNode, this, keys]

theorem edges_addNode_fresh (g : Graph L) (k : Nat) (l : L) (h : k ∉ g.keys) :
    (g.addNode k l).edges = g.edges := by
  have : g.hasNode k = false := by
    cases hh : g.hasNode k with
    | false => rfl
    | true => exact absurd ((hasNode_iff g k).1 hh) h
  simp [addNode, this, edges, entryEdges]

theorem mem_edges (g : Graph L) (e : Nat × Nat) :
    e ∈ g.edges ↔ ∃ x ∈ g.entries, x.1 = e.1 ∧ e.2 ∈ x.2.2 := by
  simp only [edges, entryEdges, List.mem_flatMap, List.mem_map]
  constructor
  · rintro ⟨x, hx, d, hd, rfl⟩; exact ⟨x, hx, rfl, hd⟩
  · rintro ⟨x, hx, h1, h2⟩; exact ⟨x, hx, e.2, h2, by rw [h1]⟩

/-- `add_edge` on an existing node: same nodes, exactly one more edge (as a set) -/
theorem addEdge_spec (g : Graph L) (src dst : Nat) (h : src ∈ g.keys) :
    ∃ g', g.addEdge src dst = some g' ∧ g'.keys = g.keys ∧ g'.nodes = g.nodes ∧
      ∀ e, e ∈ g'.edges ↔ e ∈ g.edges ∨ e = (src, dst) := by
  have hn : g.hasNode src = true := (hasNode_iff g src).2 h
  refine ⟨⟨g.entries.map fun e => if e.1 == src && !e.2.2.contains dst then (e.1, e.2.1, e.2.2 ++ [dst]) else e⟩,
    by unfold addEdge; rw [if_pos hn], ?_, ?_, ?_⟩
  · simp only [keys, List.map_map]
    apply List.map_congr_left
    intro x _
    simp only [Function.comp]
    split <;> rfl
  · simp only [nodes, List.map_map]
    apply List.map_congr_left
    intro x _
    simp only [Function.comp]
    split <;> rfl
  · intro e
    rw [mem_edges, mem_edges]
    simp only [List.mem_map]
    constructor
    · rintro ⟨x, ⟨y, hy, rfl⟩, h1, h2⟩
      by_cases hc : (y.1 == src && !y.2.2.contains dst) = true
      · simp only [hc, if_true] at h1 h2
        simp only [List.mem_append, List.mem_singleton] at h2
        rcases h2 with h2 | h2
        · exact Or.inl ⟨y, hy, h1, h2⟩
        · right
          simp only [Bool.and_eq_true, beq_iff_eq] at hc
          ext
          · simp [← h1, hc.1]
          · simp [h2]
      · simp only [hc] at h1 h2
        exact Or.inl ⟨y, hy, h1, h2⟩
    · rintro (⟨y, hy, h1, h2⟩ | rfl)
      · refine ⟨_, ⟨y, hy, rfl⟩, ?_, ?_⟩
        · split <;> simpa using h1
        · split
          · simp [h2]
          · exact h2
      · obtain ⟨y, hy, hk⟩ : ∃ y ∈ g.entries, y.1 = src := by
          simp only [keys, List.mem_map] at h
          obtain ⟨y, hy, hk⟩ := h; exact ⟨y, hy, hk⟩
        refine ⟨_, ⟨y, hy, rfl⟩, ?_, ?_⟩
        · split <;> simpa using hk
        · by_cases hc : dst ∈ y.2.2
          · have : (y.1 == src && !y.2.2.contains dst) = false := by simp [hc]
            simp only [this]
            exact hc
          · have : (y.1 == src && !y.2.2.contains dst) = true := by simp [hk, hc]
            simp only [this, if_true]
            simp

/-- a run of `add_edge(src, d)` for d in `outs` -/
theorem addEdges_spec (src : Nat) : ∀ (outs : List Nat) (g : Graph L), src ∈ g.keys →
    ∃ g', outs.foldlM (fun a d => a.addEdge src d) g = some g' ∧ g'.keys = g.keys ∧ g'.nodes = g.nodes ∧
      ∀ e, e ∈ g'.edges ↔ e ∈ g.edges ∨ e ∈ outs.map (fun d => (src, d))
  | [], g, _ => ⟨g, rfl, rfl, rfl, by simp⟩
  | d :: ds, g, h => by
    obtain ⟨g1, h1, k1, n1, e1⟩ := addEdge_spec g src d h
    obtain ⟨g2, h2, k2, n2, e2⟩ := addEdges_spec src ds g1 (k1 ▸ h)
    refine ⟨g2, by simp [List.foldlM_cons, h1, h2], k2.trans k1, n2.trans n1, ?_⟩
    intro e
    rw [e2, e1]
    simp only [List.map_cons, List.mem_cons]
    constructor
    · rintro ((h | h) | h)
      · exact Or.inl h
      · exact Or.inr (Or.inl h)
      · exact Or.inr (Or.inr h)
    · rintro (h | h | h)
      · exact Or.inl (Or.inl h)
      · exact Or.inl (Or.inr h)
      · exact Or.inr h

/-- a run of `add_edge(s, dst)` for s in `srcs` (the inputs of an operation) -/
theorem addInEdges_spec (dst : Nat) : ∀ (srcs : List Nat) (g : Graph L), (∀ s ∈ srcs, s ∈ g.keys) →
    ∃ g', srcs.foldlM (fun a s => a.addEdge s dst) g = some g' ∧ g'.keys = g.keys ∧ g'.nodes = g.nodes ∧
      ∀ e, e ∈ g'.edges ↔ e ∈ g.edges ∨ e ∈ srcs.map (fun s => (s, dst))
  | [], g, _ => ⟨g, rfl, rfl, rfl, by simp⟩
  | s :: ss, g, h => by
    obtain ⟨g1, h1, k1, n1, e1⟩ := addEdge_spec g s dst (h s (by simp))
    obtain ⟨g2, h2, k2, n2, e2⟩ := addInEdges_spec dst ss g1 (fun x hx => k1 ▸ h x (by simp [hx]))
    refine ⟨g2, by simp [List.foldlM_cons, h1, h2], k2.trans k1, n2.trans n1, ?_⟩
    intro e
    rw [e2, e1]
    simp only [List.map_cons, List.mem_cons]
    constructor
    · rintro ((h | h) | h)
      · exact Or.inl h
      · exact Or.inr (Or.inl h)
      · exact Or.inr (Or.inr h)
    · rintro (h | h | h)
      · exact Or.inl (Or.inl h)
      · exact Or.inl (Or.inr h)
      · exact Or.inr h

/-- merging entries with fresh, pairwise distinct keys: nodes appended in order, edges united -/
theorem mergeEntries_spec : ∀ (es : List (Nat × L × List Nat)) (g : Graph L),
    (g.keys ++ es.map (·.1)).Nodup →
    ∃ g', es.foldlM mergeEntry g = some g' ∧ g'.keys = g.keys ++ es.map (·.1) ∧
      g'.nodes = g.nodes ++ es.map (fun e => (e.1, e.2.1)) ∧
      ∀ e, e ∈ g'.edges ↔ e ∈ g.edges ∨ e ∈ es.flatMap entryEdges
  | [], g, _ => ⟨g, rfl, by simp, by simp, by simp⟩
  | x :: xs, g, hnd => by
    have hx : x.1 ∉ g.keys := by
      intro hmem
      have := List.nodup_append.1 hnd
      exact this.2.2 x.1 hmem x.1 (by simp) rfl
    have hk1 := keys_addNode_fresh g x.1 x.2.1 hx
    have he1 := edges_addNode_fresh g x.1 x.2.1 hx
    have hn1 : (g.addNode x.1 x.2.1).nodes = g.nodes ++ [(x.1, x.2.1)] := by
      have : g.hasNode x.1 = false := by
        cases hh : g.hasNode x.1 with
        | false => rfl
        | true => exact absurd ((hasNode_iff g x.1).1 hh) hx
      simp [addNode, this, nodes]
    obtain ⟨g2, h2, k2, n2, e2⟩ := addEdges_spec x.1 x.2.2 (g.addNode x.1 x.2.1) (by rw [hk1]; simp)
    have hnd2 : (g2.keys ++ xs.map (·.1)).Nodup := by
      rw [k2, hk1, List.append_assoc]; simpa using hnd
    obtain ⟨g3, h3, k3, n3, e3⟩ := mergeEntries_spec xs g2 hnd2
    refine ⟨g3, ?_, ?_, ?_, ?_⟩
    · simp only [List.foldlM_cons, mergeEntry, h2]; exact h3
    · rw [k3, k2, hk1]; simp
    · rw [n3, n2, hn1]; simp
    · intro e
      rw [e3, e2, he1]
      simp only [List.flatMap_cons, List.mem_append, entryEdges]
      constructor
      · rintro ((h | h) | h)
        · exact Or.inl h
        · exact Or.inr (Or.inl h)
        · exact Or.inr (Or.inr h)
      · rintro (h | h | h)
        · exact Or.inl (Or.inl h)
        · exact Or.inl (Or.inr h)
        · exact Or.inr h

end Graph

/-! ### decorated trees -/

theorem IView.nid_mem_allIds : ∀ (v : IView), v.nid ∈ v.allIds
  | .leaf n _ => by simp [IView.nid, IView.allIds]
  | .node n _ => by simp [IView.nid, IView.allIds]

theorem IArgs.ids_subset_allIds : ∀ (a : IArgs) (x : Nat), x ∈ a.ids → x ∈ a.allIds
  | .nil, x, h => by simp [IArgs.ids] at h
  | .cons v r, x, h => by
    simp only [IArgs.ids, List.mem_cons] at h
    simp only [IArgs.allIds, List.mem_append]
    rcases h with rfl | h
    · exact Or.inl (IView.nid_mem_allIds v)
    · exact Or.inr (IArgs.ids_subset_allIds r x h)

theorem Graph.keys_eq_nodes_fst {L : Type} (g : Graph L) : g.keys = g.nodes.map (·.1) := by
  simp [Graph.keys, Graph.nodes]

mutual
/-- `get_compute_graph` under pairwise distinct node ids: the nodes are exactly the spec nodes (reading order),
    the edges exactly the spec edges -/
theorem IView.graph_spec : ∀ (t : IView), t.allIds.Nodup →
    ∃ g, t.graph = some g ∧ g.keys = t.allIds ∧ g.nodes = t.specNodes ∧ ∀ e, e ∈ g.edges ↔ e ∈ t.specEdges
  | .leaf n i, _ => by
    refine ⟨Graph.empty.addNode n (.leaf i), rfl, ?_, ?_, ?_⟩
    · simp [Graph.addNode, Graph.hasNode, Graph.keys, Graph.empty, IView.allIds]
    · simp [Graph.addNode, Graph.hasNode, Graph.keys, Graph.empty, Graph.nodes, IView.specNodes]
    · simp [Graph.addNode, Graph.hasNode, Graph.keys, Graph.empty, Graph.edges, Graph.entryEdges, IView.specEdges]
  | .node n args, h => by
    simp only [IView.allIds] at h
    have hnd := List.nodup_append.1 h
    obtain ⟨g, hg, hk, hn, he⟩ := IArgs.graph_spec args Graph.empty (by simpa [Graph.empty, Graph.keys] using hnd.1)
    have hk' : g.keys = args.allIds := by simpa [Graph.empty, Graph.keys] using hk
    have hfresh : n ∉ g.keys := by
      rw [hk']; intro hm; exact hnd.2.2 n hm n (by simp) rfl
    have hk1 := Graph.keys_addNode_fresh g n (.op args.ids) hfresh
    have he1 := Graph.edges_addNode_fresh g n (.op args.ids) hfresh
    have hn1 : (g.addNode n (.op args.ids)).nodes = g.nodes ++ [(n, .op args.ids)] := by
      have : g.hasNode n = false := by
        cases hh : g.hasNode n with
        | false => rfl
        | true => exact absurd ((Graph.hasNode_iff g n).1 hh) hfresh
      simp [Graph.addNode, this, Graph.nodes]
    obtain ⟨g2, h2, k2, n2, e2⟩ := Graph.addInEdges_spec n args.ids (g.addNode n (.op args.ids))
      (fun s hs => by rw [hk1, hk']; simp [IArgs.ids_subset_allIds args s hs])
    refine ⟨g2, ?_, ?_, ?_, ?_⟩
    · simp only [IView.graph, hg, Option.bind_eq_bind, Option.bind_some]; exact h2
    · rw [k2, hk1, hk']; simp [IView.allIds]
    · rw [n2, hn1, hn]; simp [IView.specNodes, Graph.empty, Graph.nodes]
    · intro e
      rw [e2, he1, he]
      simp [IView.specEdges, Graph.empty, Graph.edges]
theorem IArgs.graph_spec : ∀ (a : IArgs) (g0 : Graph GLabel), (g0.keys ++ a.allIds).Nodup →
    ∃ g, IArgs.graph a g0 = some g ∧ g.keys = g0.keys ++ a.allIds ∧ g.nodes = g0.nodes ++ a.specNodes ∧
      ∀ e, e ∈ g.edges ↔ e ∈ g0.edges ∨ e ∈ a.specEdges
  | .nil, g0, _ => ⟨g0, rfl, by simp [IArgs.allIds], by simp [IArgs.specNodes], by simp [IArgs.specEdges]⟩
  | .cons v r, g0, h => by
    simp only [IArgs.allIds] at h
    have hv : v.allIds.Nodup := by
      have := List.nodup_append.1 h
      exact (List.nodup_append.1 this.2.1).1
    obtain ⟨sub, hs, ks, ns, es⟩ := IView.graph_spec v hv
    have hkeys : sub.entries.map (·.1) = v.allIds := ks
    have hnd1 : (g0.keys ++ sub.entries.map (·.1)).Nodup := by
      rw [hkeys]
      rw [← List.append_assoc] at h
      exact (List.nodup_append.1 h).1
    obtain ⟨g1, h1, k1, n1, e1⟩ := Graph.mergeEntries_spec sub.entries g0 hnd1
    have hnd2 : (g1.keys ++ r.allIds).Nodup := by
      rw [k1, hkeys, List.append_assoc]; exact h
    obtain ⟨g2, h2, k2, n2, e2⟩ := IArgs.graph_spec r g1 hnd2
    refine ⟨g2, ?_, ?_, ?_, ?_⟩
    · simp only [IArgs.graph, hs, Option.bind_eq_bind, Option.bind_some, Graph.merge, h1]; exact h2
    · rw [k2, k1, hkeys]; simp [IArgs.allIds]
    · rw [n2, n1]
      have : sub.entries.map (fun e => (e.1, e.2.1)) = v.specNodes := ns
      rw [this]; simp [IArgs.specNodes]
    · intro e
      rw [e2, e1]
      have : e ∈ sub.entries.flatMap Graph.entryEdges ↔ e ∈ v.specEdges := es e
      rw [this]
      simp only [IArgs.specEdges, List.mem_append]
      constructor
      · rintro ((h | h) | h)
        · exact Or.inl h
        · exact Or.inr (Or.inl h)
        · exact Or.inr (Or.inr h)
      · rintro (h | h | h)
        · exact Or.inl (Or.inl h)
        · exact Or.inl (Or.inr h)
        · exact Or.inr h
end

end NmVerif.Functional
