/-
  Helper lemmas for property C09: the simulation between the bounded vector and the list.
-/
import NmVerif.Basic
import NmVerif.Containers.Kinds
import NmVerif.Containers.KindRefs
namespace NmVerif.Kinds

/-- simulation relation: the buffer has `cap` cells, the first `l.length` hold `l`, the others are still zero -/
def Rel (cap : Nat) (b : BVec cap) (l : List Nat) : Prop :=
  b.buf.length = cap ∧ b.size = l.length ∧ l.length ≤ cap ∧
  ∀ i, b.buf[i]? = if i < l.length then l[i]? else if i < cap then some 0 else none

theorem rel_empty (cap : Nat) : Rel cap (BVec.empty cap) [] := by
  refine ⟨by simp [BVec.empty], rfl, Nat.zero_le _, ?_⟩
  intro i
  simp only [BVec.empty, List.length_nil, Nat.not_lt_zero, if_false]
  by_cases h : i < cap
  · simp [h, List.getElem?_replicate]
  · simp [h, List.getElem?_replicate]

theorem rel_toList {cap : Nat} {b : BVec cap} {l : List Nat} (h : Rel cap b l) : b.toList = l := by
  obtain ⟨hlen, hsz, hcap, hget⟩ := h
  apply List.ext_getElem?
  intro i
  unfold BVec.toList
  rw [List.getElem?_take, hsz, hget i]
  by_cases hi : i < l.length
  · simp [hi]
  · simp [hi]

theorem rel_resize {cap : Nat} {b : BVec cap} {l : List Nat} (h : Rel cap b l) (n : Nat)
    (h1 : l.length ≤ n) (h2 : n ≤ cap) :
    Rel cap (b.resize n) (stepList l (.resize n)) := by
  obtain ⟨hlen, hsz, hcap, hget⟩ := h
  have htake : l.take n = l := List.take_of_length_le h1
  have hl' : (stepList l (.resize n)).length = n := by
    simp only [stepList, htake, List.length_append, List.length_replicate]; omega
  refine ⟨?_, ?_, ?_, ?_⟩
  · simp [BVec.resize, h2, hlen]
  · simp [BVec.resize, h2, hl']
  · omega
  · intro i
    rw [hl']
    have hb : (b.resize n).buf = b.buf := by simp [BVec.resize, h2]
    rw [hb, hget i]
    simp only [stepList, htake]
    by_cases hi : i < l.length
    · have : i < n := by omega
      simp [hi, this, List.getElem?_append_left hi]
    · by_cases hin : i < n
      · have hic : i < cap := by omega
        have hr : i - l.length < n - l.length := by omega
        simp [hi, hin, hic, List.getElem?_append_right (Nat.le_of_not_lt hi), List.getElem?_replicate, hr]
      · simp [hi, hin]

theorem rel_set {cap : Nat} {b : BVec cap} {l : List Nat} (h : Rel cap b l) (i v : Nat) (hi : i < l.length) :
    Rel cap (b.set i v) (stepList l (.set i v)) := by
  obtain ⟨hlen, hsz, hcap, hget⟩ := h
  refine ⟨by simp [BVec.set, hlen], by simp [BVec.set, stepList, hsz], by simp [stepList]; exact hcap, ?_⟩
  intro j
  simp only [BVec.set, stepList, List.length_set, List.getElem?_set]
  by_cases hij : i = j
  · subst hij
    have h1 : i < b.buf.length := by omega
    simp [hi, h1]
  · simp [hij, hget j]

theorem rel_push {cap : Nat} {b : BVec cap} {l : List Nat} (h : Rel cap b l) (v : Nat) (hc : l.length + 1 ≤ cap) :
    Rel cap (b.push v) (stepList l (.push v)) := by
  obtain ⟨hlen, hsz, hcap, hget⟩ := h
  have hp : b.push v = ⟨b.buf.set b.size v, b.size + 1⟩ := by
    simp [BVec.push, hsz, hc]
  rw [hp]
  refine ⟨by simp [hlen], by simp [stepList, hsz], by simp [stepList]; omega, ?_⟩
  intro j
  simp only [stepList, List.length_append, List.length_singleton, List.getElem?_set, hsz]
  by_cases hj : l.length = j
  · subst hj
    have h1 : l.length < b.buf.length := by omega
    simp [h1]
  · simp only [hj, if_false, hget j]
    by_cases hjl : j < l.length
    · have : j < l.length + 1 := by omega
      simp [hjl, this, List.getElem?_append_left hjl]
    · have : ¬ j < l.length + 1 := by omega
      simp [hjl, this]

theorem rel_run {cap : Nat} (ops : List VOp) :
    ∀ (b : BVec cap) (l : List Nat), Rel cap b l → Fits cap ops l.length →
      Rel cap (runBVec ops b) (runList ops l) := by
  induction ops with
  | nil => intro b l h _; exact h
  | cons op ops ih =>
    intro b l h hf
    cases op with
    | resize n =>
      simp only [Fits] at hf
      have h' := rel_resize h n hf.1 hf.2.1
      have hl : (stepList l (.resize n)).length = n := by
        simp only [stepList, List.length_append, List.length_replicate, List.length_take]; omega
      have := ih _ _ h' (by rw [hl]; exact hf.2.2)
      simpa [runBVec, runList, stepBVec] using this
    | set i v =>
      simp only [Fits] at hf
      have h' := rel_set h i v hf.1
      have hl : (stepList l (.set i v)).length = l.length := by simp [stepList]
      have := ih _ _ h' (by rw [hl]; exact hf.2)
      simpa [runBVec, runList, stepBVec] using this
    | push v =>
      simp only [Fits] at hf
      have h' := rel_push h v hf.1
      have hl : (stepList l (.push v)).length = l.length + 1 := by simp [stepList]
      have := ih _ _ h' (by rw [hl]; exact hf.2)
      simpa [runBVec, runList, stepBVec] using this

end NmVerif.Kinds

namespace NmVerif.Kinds

theorem fits_sets (cap len : Nat) (f : Nat → Nat) (is : List Nat) (h : ∀ i ∈ is, i < len) :
    Fits cap (is.map (fun i => VOp.set i (f i))) len := by
  induction is with
  | nil => trivial
  | cons a t ih =>
    simp only [List.map_cons, Fits]
    exact ⟨h a (by simp), ih (fun i hi => h i (by simp [hi]))⟩

theorem fits_fillOps (cap : Nat) (l : List Nat) (h : l.length ≤ cap) : Fits cap (fillOps l) 0 := by
  unfold fillOps
  simp only [Fits]
  refine ⟨Nat.zero_le _, h, fits_sets cap l.length _ _ ?_⟩
  intro i hi
  exact List.mem_range.mp hi

theorem fill_sets (l : List Nat) (k : Nat) (hk : k ≤ l.length) :
    runList ((List.range k).map (fun i => VOp.set i (l.getD i 0))) (List.replicate l.length 0)
      = l.take k ++ List.replicate (l.length - k) 0 := by
  induction k with
  | zero => simp [runList]
  | succ k ih =>
    have ih' := ih (by omega)
    rw [List.range_succ, List.map_append, runList, List.foldl_append]
    have : List.foldl stepList (List.replicate l.length 0) (List.map (fun i => VOp.set i (l.getD i 0)) (List.range k))
        = l.take k ++ List.replicate (l.length - k) 0 := ih'
    rw [this]
    simp only [List.map_cons, List.map_nil, List.foldl_cons, List.foldl_nil, stepList]
    apply List.ext_getElem?
    intro j
    have hkl : k < l.length := by omega
    have htk : (l.take k).length = k := by simp; omega
    rw [List.getElem?_set]
    by_cases hjk : k = j
    · subst hjk
      have h1 : k < (l.take k ++ List.replicate (l.length - k) 0).length := by
        simp; omega
      have h2 : k < (l.take (k + 1)).length := by simp; omega
      simp only [if_true]
      rw [if_pos h1, List.getElem?_append_left h2, List.getElem?_take]
      simp [hkl, List.getD_eq_getElem?_getD]
    · simp only [hjk, if_false]
      by_cases hj : j < k
      · have h2 : j < (l.take (k + 1)).length := by simp; omega
        rw [List.getElem?_append_left (by omega), List.getElem?_append_left h2]
        simp [List.getElem?_take, hj]
        intro h; omega
      · have hj' : k + 1 ≤ j := by omega
        have h3 : (l.take (k + 1)).length = k + 1 := by simp; omega
        rw [List.getElem?_append_right (by omega), List.getElem?_append_right (by omega)]
        simp only [htk, h3, List.getElem?_replicate]
        by_cases hjn : j < l.length
        · have a1 : j - k < l.length - k := by omega
          have a2 : j - (k + 1) < l.length - (k + 1) := by omega
          simp [a1, a2]
        · have a1 : ¬ j - k < l.length - k := by omega
          have a2 : ¬ j - (k + 1) < l.length - (k + 1) := by omega
          simp [a1, a2]

theorem runList_fillOps (l : List Nat) : runList (fillOps l) [] = l := by
  unfold fillOps
  have h := fill_sets l l.length (Nat.le_refl _)
  simp only [runList, List.foldl_cons, stepList, List.take_nil, List.length_nil, Nat.sub_zero, List.nil_append] at *
  rw [h]
  simp

end NmVerif.Kinds

namespace NmVerif.Kinds
open NmVerif NmVerif.KindRefs

theorem leList_length {a b : List Nat} (h : LeList a b) : a.length = b.length := by
  induction a generalizing b with
  | nil => cases b <;> simp_all [LeList]
  | cons x xs ih =>
    cases b with
    | nil => simp [LeList] at h
    | cons y ys => simp only [LeList] at h; simp [ih h.2]

theorem prod_mono {a b : List Nat} (h : LeList a b) : prod a ≤ prod b := by
  induction a generalizing b with
  | nil => cases b <;> simp_all [LeList, prod]
  | cons x xs ih =>
    cases b with
    | nil => simp [LeList] at h
    | cons y ys =>
      simp only [LeList] at h
      simp only [prod]
      exact Nat.mul_le_mul h.1 (ih h.2)

theorem bshapeRev_length (a b r : List Nat) (h : bshapeRev a b = some r) : r.length = max a.length b.length := by
  induction a generalizing b r with
  | nil => simp [bshapeRev] at h; subst h; simp
  | cons x xs ih =>
    cases b with
    | nil => simp [bshapeRev] at h; subst h; simp
    | cons y ys =>
      simp only [bshapeRev] at h
      cases hd : bdim x y with
      | none => simp [hd] at h
      | some d =>
        cases hr : bshapeRev xs ys with
        | none => simp [hd, hr] at h
        | some r' =>
          simp [hd, hr] at h
          subst h
          have := ih ys r' hr
          simp [this]

end NmVerif.Kinds
