import NmVerif.Index.Concatenate
import NmVerif.Index.Roll
/-
  NmVerif.Index.Stack — MODEL of view/stack.hpp, hstack.hpp, vstack.hpp, dstack.hpp, column_stack.hpp.
  All five are `concatenate(reshape(lhs, a'), reshape(rhs, b'), axis)` for a routine-specific promotion `s ↦ s'`.

  Stable names:
    `Index.joinReshaped a b a' b' axis : Option IxView2`   concatenate of the two reshaped operands, read back to `a`, `b`
    `Index.shapeExpandDims s axis : Option Shape`          index::shape_expand_dims (one axis, normalised against dim+1)
    `Index.stackView a b axis`      view::stack   — `expand_dims` normalises `axis` against dim+1, the same raw axis goes to
                                                    concatenate, which normalises it against the promoted rank dim+1 as well
    `Index.hstackView a b`          view::hstack  — axis = 0 if rank(lhs) = 1 else 1, no promotion
    `Index.vstackView a b`          view::vstack  — (n) ↦ (1,n); axis 0
    `Index.dstackView a b`          view::dstack  — (n) ↦ (1,n,1), (m,n) ↦ (m,n,1); axis 2
    `Index.columnStackView a b`     view::column_stack — (n) ↦ (n,1); axis 1
  Core Lean only.
-/
namespace NmVerif.Index

def joinReshaped (a b a' b' : Shape) (axis : Int) : Option IxView2 :=
  (concatenateView a' b' (some axis)).map (fun c =>
    ⟨a, b, c.dst, fun d => (c.map d).map (fun p => (p.1, if p.1 then reshapeIdx b b' p.2 else reshapeIdx a a' p.2))⟩)

/-- `index::shape_expand_dims(shape, axis)` for one axis: a 1 inserted at the axis normalised against `dim + 1`;
    `none` = `unwrap` of a failed `normalize_axis` (UB, C15) -/
def shapeExpandDims (s : Shape) (axis : Int) : Option Shape :=
  (normalizeAxis1 axis (s.length + 1)).map (fun k => s.take k ++ 1 :: s.drop k)

def stackView (a b : Shape) (axis : Int) : Option IxView2 :=
  match shapeExpandDims a axis, shapeExpandDims b axis with
  | some a', some b' => joinReshaped a b a' b' axis
  | _, _ => none

def hstackView (a b : Shape) : Option IxView2 := joinReshaped a b a b (if a.length = 1 then 0 else 1)

def promoteV : Shape → Shape
  | [n] => [1, n]
  | s => s

def promoteD : Shape → Shape
  | [n] => [1, n, 1]
  | [m, n] => [m, n, 1]
  | s => s

def promoteC : Shape → Shape
  | [n] => [n, 1]
  | s => s

def vstackView (a b : Shape) : Option IxView2 := joinReshaped a b (promoteV a) (promoteV b) 0
def dstackView (a b : Shape) : Option IxView2 := joinReshaped a b (promoteD a) (promoteD b) 2
def columnStackView (a b : Shape) : Option IxView2 := joinReshaped a b (promoteC a) (promoteC b) 1

end NmVerif.Index
