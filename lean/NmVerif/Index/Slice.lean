import NmVerif.Basic
import NmVerif.Arr
/-
  NmVerif.Index.Slice — MODEL of include/nmtools/array/index/slice.hpp and SPEC (Python / NumPy basic indexing).

  MODEL (mirrors the C++ branch for branch; state of the headers after the `fix:` commits C05-slice-indices,
  C05-length-integer-ceil, C05-trailing-axes, C05-trailing-empty-ellipsis, C05-single-range-ctad):
    slice_indices                  `sliceIndices`   normalised (start, stop, step): None ↦ default for the sign of step,
                                                    negative ↦ +n, clamp into [lower, upper]
    compute_range / compute_step   `computeRange`, `computeStep`
    (s + step - 1) / step          `lengthOf`       integer ceiling
    compute_index                  `computeIndex`   start + i*step
    shape_slice / slice            `shapeSlice` / `sliceIdx`               (packed: variadic / tuple of typed parts)
    shape_dynamic_slice / dynamic_slice   `shapeDynamicSlice` / `dynamicSlice`   (list of either / array<int,3>)
    view::slice / apply_slice      `sliceView`, `dynamicSliceView`

  Machine arithmetic.  The harness instantiates the functions as the views do: shape and indices are `size_t`
  containers, slice parts are `int`.  `slice_indices` works in `make_signed_t<size_t>` (64 bit); values are modelled as
  unbounded `Int`, which is the C++ value as long as extents stay below 2^62 (part of `Dom`) and slice parts are `int`.
  `u64` is the conversion to `size_t`.  `none` = the C++ has undefined behaviour or throws (division by zero for step 0,
  reading past the shape, negative resize); everything else is the value the code computes.

  Core Lean only (linked into the driver).
-/
namespace NmVerif.Slice

/-- one part of a basic index.  `range2` is the two-part tuple `{start, stop}` (its step is `None`). -/
inductive Entry where
  | int (k : Int)
  | ellipsis
  | range (start stop step : Option Int)
  | range2 (start stop : Option Int)
  deriving Repr, DecidableEq, Inhabited

/-! ### machine integers -/

def u64 (x : Int) : Int := x % 18446744073709551616
def absI (x : Int) : Int := if x < 0 then -x else x

/-! ### slice_indices / compute_range / compute_step / compute_index -/

/-- `slice_indices(si, start, stop, step)`: normalised `(start, stop, step)` -/
def sliceIndices (n : Int) (a b c : Option Int) : Int × Int × Int :=
  let step : Int := match c with | none => 1 | some k => k
  let lower : Int := if step < 0 then -1 else 0
  let upper : Int := if step < 0 then n - 1 else n
  let adjust : Int → Int := fun v =>
    let b := if v < 0 then v + n else v
    if b < lower then lower else if b > upper then upper else b
  let start := match a with | none => (if step < 0 then upper else lower) | some v => adjust v
  let stop := match b with | none => (if step < 0 then lower else upper) | some v => adjust v
  (start, stop, step)

/-- `compute_range`: distance walked from start to stop, 0 when the slice is empty (a `size_t`) -/
def computeRange (si : Int) (start stop step : Option Int) : Int :=
  let s := sliceIndices si start stop step
  let r := if s.2.2 < 0 then s.1 - s.2.1 else s.2.1 - s.1
  if r < 0 then 0 else r

/-- `compute_step`: `None ↦ 1`, else `|step|` -/
def computeStep : Option Int → Int
  | none => 1
  | some k => absI k

/-- `static_cast<size_type>((s + step - 1) / step)`; `none`: division by zero -/
def lengthOf (s : Int) (k : Int) : Option Int :=
  if k ≤ 0 then none else some ((s + k - 1) / k)

/-- extent of the sliced axis as `shape_slice` / `shape_dynamic_slice` compute it -/
def sliceLen (si : Int) (start stop step : Option Int) : Option Int :=
  lengthOf (computeRange si start stop step) (computeStep step)

/-- `compute_index`: `(result_t)(start + index * step)` with `size_t` indices -/
def computeIndex (si : Int) (start stop step : Option Int) (i : Int) : Int :=
  let s := sliceIndices si start stop step
  u64 (s.1 + i * s.2.2)

/-- integer entry: `slice < 0 ? si - abs(slice) : slice` in `size_t` -/
def intIndex (si : Int) (k : Int) : Int := u64 (if k < 0 then si - absI k else k)

/-! ### per-entry helpers -/

def Entry.isInt : Entry → Bool
  | .int _ => true
  | _ => false

def Entry.isEllipsis : Entry → Bool
  | .ellipsis => true
  | _ => false

def numInt (es : List Entry) : Nat := (es.filter Entry.isInt).length

/-- extent produced by a range entry -/
def Entry.len (si : Nat) : Entry → Option Int
  | .range a b c => sliceLen si a b c
  | .range2 a b => sliceLen si a b none
  | _ => none

/-- source index produced by a range entry -/
def Entry.idx (si : Nat) (i : Nat) : Entry → Int
  | .range a b c => computeIndex si a b c i
  | .range2 a b => computeIndex si a b none i
  | _ => 0

/-- pad a computed prefix with the value-initialised (zero) tail of the result container; `none` when the prefix is
    longer than the container (the C++ wrote past the end) -/
def padZeros (len : Nat) (l : List Nat) : Option (List Nat) :=
  if l.length ≤ len then some (l ++ List.replicate (len - l.length) 0) else none

/-! ### packed encoding: shape_slice / slice -/

/-- the `template_for` loop of `shape_slice` followed by the loop that keeps the unaddressed trailing axes whole;
    `nEll` = number of axes an ellipsis takes, `sh` = shape from the active shape index on -/
def shapeGo (nEll : Nat) : List Nat → List Entry → Option (List Nat)
  | sh, [] => some sh
  | sh, .ellipsis :: es =>
    if nEll ≤ sh.length then (shapeGo nEll (sh.drop nEll) es).map (sh.take nEll ++ ·) else none
  | [], _ :: _ => none      -- an integer or range entry without an axis (reads past the shape / the result)
  | _ :: t, .int _ :: es => shapeGo nEll t es
  | si :: t, e :: es =>
    match e.len si with
    | some l => (shapeGo nEll t es).map (l.toNat :: ·)
    | none => none

/-- `index::shape_slice(shape, slices...)` -/
def shapeSlice (shape : List Nat) (es : List Entry) : Option (List Nat) :=
  let dim := shape.length
  if numInt es > dim then none                        -- res.resize(dim - N_INT) with a wrapped size: length_error
  else if es.length - 1 > dim then none               -- ellipsis count dim-(N-1) wraps
  else (shapeGo (dim - (es.length - 1)) shape es).bind (padZeros (dim - numInt es))

/-- the `template_for` loop of `slice` followed by the copy of the remaining destination indices -/
def idxGo (nEll : Nat) : List Nat → List Nat → List Entry → Option (List Nat)
  | sh, ix, [] => some (ix.take sh.length)
  | sh, ix, .ellipsis :: es =>
    if nEll ≤ sh.length ∧ nEll ≤ ix.length then
      (idxGo nEll (sh.drop nEll) (ix.drop nEll) es).map (ix.take nEll ++ ·)
    else none
  | [], _, _ :: _ => none
  | si :: t, ix, .int k :: es => (idxGo nEll t ix es).map ((intIndex si k).toNat :: ·)
  | _ :: _, [], _ :: _ => none
  | si :: t, i :: ix, e :: es => (idxGo nEll t ix es).map ((e.idx si i).toNat :: ·)

/-- `index::slice(indices, shape, slices...)` -/
def sliceIdx (shape : List Nat) (es : List Entry) (ix : List Nat) : Option (List Nat) :=
  let dim := shape.length
  if es.length - 1 > dim then none
  else (idxGo (dim - (es.length - 1)) shape ix es).bind (padZeros dim)

/-! ### dynamic encoding: shape_dynamic_slice / dynamic_slice (counter based loops over a run-time list) -/

structure ShapeSt where
  res : List Nat      -- entries written so far (res_i = res.length)
  shp : Nat           -- shp_i
  deriving Repr

/-- one iteration of the `for slc_i` loop of `shape_dynamic_slice` -/
def shapeDynStep (shape : List Nat) (nEll : Nat) (st : Option ShapeSt) (e : Entry) : Option ShapeSt :=
  match st with
  | none => none
  | some s =>
    match e with
    | .ellipsis =>
      if s.shp + nEll ≤ shape.length then some ⟨s.res ++ (shape.drop s.shp).take nEll, s.shp + nEll⟩ else none
    | .int _ => some ⟨s.res, s.shp + 1⟩
    | e =>
      match shape[s.shp]? with
      | none => none
      | some si =>
        match e.len si with
        | some l => some ⟨s.res ++ [l.toNat], s.shp + 1⟩
        | none => none

/-- `index::shape_dynamic_slice(shape, slices)` -/
def shapeDynamicSlice (shape : List Nat) (es : List Entry) : Option (List Nat) :=
  let dim := shape.length
  if numInt es > dim then none
  else if es.length - 1 > dim then none
  else ((es.foldl (shapeDynStep shape (dim - (es.length - 1))) (some ⟨[], 0⟩)).map
          (fun st => st.res ++ (shape.drop st.shp).take (dim - numInt es - st.res.length))).bind   -- trailing axes kept whole
        (padZeros (dim - numInt es))

structure IdxSt where
  res : List Nat
  shp : Nat
  ind : Nat
  deriving Repr

/-- one iteration of the loop of `dynamic_slice` -/
def idxDynStep (shape ix : List Nat) (nEll : Nat) (st : Option IdxSt) (e : Entry) : Option IdxSt :=
  match st with
  | none => none
  | some s =>
    match e with
    | .ellipsis =>
      if s.shp + nEll ≤ shape.length ∧ s.ind + nEll ≤ ix.length then
        some ⟨s.res ++ (ix.drop s.ind).take nEll, s.shp + nEll, s.ind + nEll⟩
      else none
    | .int k =>
      match shape[s.shp]? with
      | none => none
      | some si => some ⟨s.res ++ [(intIndex si k).toNat], s.shp + 1, s.ind⟩
    | e =>
      match shape[s.shp]?, ix[s.ind]? with
      | some si, some i => some ⟨s.res ++ [(e.idx si i).toNat], s.shp + 1, s.ind + 1⟩
      | _, _ => none

/-- `index::dynamic_slice(indices, shape, slices)` -/
def dynamicSlice (shape : List Nat) (es : List Entry) (ix : List Nat) : Option (List Nat) :=
  let dim := shape.length
  if es.length - 1 > dim then none
  else ((es.foldl (idxDynStep shape ix (dim - (es.length - 1))) (some ⟨[], 0, 0⟩)).map
          (fun st => st.res ++ (ix.drop st.ind).take (dim - st.res.length))).bind   -- remaining destination indices copied
        (padZeros dim)

/-! ### view level -/

/-- the slice indexing view (`view::slice_t`): `none` = construction fails (UB / exception in the shape function) -/
def sliceView (src : Shape) (es : List Entry) : Option IxView :=
  (shapeSlice src es).map (fun dst => ⟨src, dst, fun d => sliceIdx src es d⟩)

def dynamicSliceView (src : Shape) (es : List Entry) : Option IxView :=
  (shapeDynamicSlice src es).map (fun dst => ⟨src, dst, fun d => dynamicSlice src es d⟩)

/-! ## SPEC — Python `slice.indices` (CPython `PySlice_Unpack` + `PySlice_AdjustIndices`) and NumPy basic indexing -/

/-- one bound after `PySlice_AdjustIndices`; `none` (omitted) adjusts to what the ±PY_SSIZE_T_MAX default clamps to -/
def pyAdjust (n step : Int) (dfltNeg dfltPos : Int) : Option Int → Int
  | none => if step < 0 then dfltNeg else dfltPos
  | some b =>
    if b < 0 then
      (if b + n < 0 then (if step < 0 then -1 else 0) else b + n)
    else if b ≥ n then (if step < 0 then n - 1 else n)
    else b

/-- `slice(start, stop, step).indices(n)`: `(start', stop', step')`; `none` = ValueError (step 0) -/
def pyIndices (n : Int) (start stop step : Option Int) : Option (Int × Int × Int) :=
  let k : Int := match step with | none => 1 | some k => k
  if k = 0 then none
  else some (pyAdjust n k (n - 1) 0 start, pyAdjust n k (-1) n stop, k)

/-- `len(range(start', stop', step'))` as `PySlice_AdjustIndices` returns it -/
def pyLen (st sp k : Int) : Int :=
  if k < 0 then (if sp < st then (st - sp - 1) / (-k) + 1 else 0)
  else (if st < sp then (sp - st - 1) / k + 1 else 0)

/-- reference for one range on an axis of extent `n`: `(length, first, step)`; element `j` is `first + j*step` -/
def pyAxis (n : Nat) (start stop step : Option Int) : Option (Nat × Int × Int) :=
  match pyIndices n start stop step with
  | none => none
  | some (st, sp, k) => some ((pyLen st sp k).toNat, st, k)

/-- what one entry means on its axis: NumPy -/
inductive AxisSel where
  | pick (i : Nat)                      -- integer: axis dropped, source index i
  | walk (len : Nat) (first step : Int) -- range: axis kept
  deriving Repr, DecidableEq

def specEntry (n : Nat) : Entry → Option AxisSel
  | .int k => if -(n : Int) ≤ k ∧ k < n then some (.pick (if k < 0 then k + n else k).toNat) else none   -- IndexError otherwise
  | .range a b c => (pyAxis n a b c).map fun (l, f, k) => .walk l f k
  | .range2 a b => (pyAxis n a b none).map fun (l, f, k) => .walk l f k
  | .ellipsis => none

/-- a full slice `:` of an axis of extent `n` -/
def fullSel (n : Nat) : AxisSel := .walk n 0 1

/-- entries against axes, left to right: the ellipsis stands for `nEll` full slices, axes left over at the end are
    kept whole (NumPy appends `:`), an entry without an axis is an IndexError -/
def specGo (nEll : Nat) : List Nat → List Entry → Option (List AxisSel)
  | sh, [] => some (sh.map fullSel)
  | sh, .ellipsis :: es =>
    if nEll ≤ sh.length then (specGo nEll (sh.drop nEll) es).map ((sh.take nEll).map fullSel ++ ·) else none
  | [], _ :: _ => none
  | n :: t, e :: es =>
    match specEntry n e with
    | some s => (specGo nEll t es).map (s :: ·)
    | none => none

def numEllipsis (es : List Entry) : Nat := (es.filter Entry.isEllipsis).length

/-- NumPy basic indexing `a[es]` on shape `shape`: per-axis selections.  `none`: more than one ellipsis or too many
    indices (IndexError).  The ellipsis expands to `dim - (number of other entries)` full slices. -/
def specSlice (shape : List Nat) (es : List Entry) : Option (List AxisSel) :=
  let nAx := es.length - numEllipsis es
  if numEllipsis es > 1 ∨ nAx > shape.length then none
  else specGo (shape.length - nAx) shape es

def specShape : List AxisSel → List Nat
  | [] => []
  | .pick _ :: t => specShape t
  | .walk l _ _ :: t => l :: specShape t

/-- source multi-index of destination multi-index `d` (in the reference shape) -/
def specIdx : List AxisSel → List Nat → Option (List Nat)
  | [], [] => some []
  | .pick i :: t, d => (specIdx t d).map (i :: ·)
  | .walk _ f k :: t, j :: d => (specIdx t d).map ((f + j * k).toNat :: ·)
  | _, _ => none

/-- the reference as an indexing view -/
def specView (src : Shape) (es : List Entry) : Option IxView :=
  (specSlice src es).map fun sels => ⟨src, specShape sels, specIdx sels⟩

end NmVerif.Slice
