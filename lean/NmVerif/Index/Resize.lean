import NmVerif.Index.SelCommon
/-
  NmVerif.Index.Resize — MODEL of include/nmtools/array/index/resize.hpp (+ view/resize.hpp): nearest-neighbour sampling.

  Stable names:
    `Index.shapeResize src dst : Option Shape`   index::shape_resize (Nothing unless equal rank and every target extent > 0)
    `Index.indexResize d src dst : Idx`          index::resize: `res[i] = (src[i] * d[i]) / dst[i]` (integer division; the
                                                 `float(...)` round trip applied afterwards is exact below 2^24)
    `Index.resizeView src dst : Option IxView`   view::resize(a, dst)
  Core Lean only.
-/
namespace NmVerif.Index

def shapeResize (src : Shape) (dst : List Nat) : Option Shape :=
  if src.length = dst.length ∧ dst.all (fun e => decide (0 < e)) then some dst else none

def indexResize : Idx → Shape → Shape → Idx
  | i :: d, s :: src, t :: dst => (s * i / t) :: indexResize d src dst
  | _, _, _ => []

def resizeView (src : Shape) (dst : List Nat) : Option IxView :=
  (shapeResize src dst).map (fun t => ⟨src, t, fun d => some (indexResize d src t)⟩)

end NmVerif.Index
