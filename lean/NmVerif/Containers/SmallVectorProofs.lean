import NmVerif.Containers.Spec
import NmVerif.Containers.SmallVector
import NmVerif.Containers.VectorProofs
import NmVerif.Containers.StaticVectorProofs
/-
  Proofs about the `small_vector` mirror: it holds exactly what `std::vector` holds on the histories that never
  rely on value-initialisation of heap cells (`smallOk`), across the static ↔ dynamic switch.
-/
namespace NmVerif.Containers
variable {α : Type}

/-- refinement relation: the active part refines the list -/
def RSmall (c : Nat) (x : Small α) (l : List α) : Prop :=
  if x.tagS then RSVec c x.st l else RVec x.dy l

/-- sized construction only below DIM (static, value-initialised), `resize` only down to at most the current size,
    no `push_back(x[i])` -/
def smallOk (c : Nat) : Option (List α) → Op α → Prop
  | _, .ctorN _ n => n < c
  | some l, .resize _ n => n ≤ l.length
  | _, .pushAt _ _ => False
  | _, _ => True

namespace Small

theorem rawAssign_spec (o : Vec α) (L : Ledger) (ho : o.Inv) :
    (Vec.assign rawVec o L).1.Inv ∧ (Vec.assign rawVec o L).1.view = o.view := by
  have h1 : (Vec.resize (rawVec (α := α)) o.size L).1.Inv := by
    simp only [Vec.resize, rawVec, Ledger.alloc]
    exact ⟨by simp, by simp, by simp⟩
  have h2 : (Vec.resize (rawVec (α := α)) o.size L).1.size = o.size := by simp [Vec.resize, rawVec]
  exact ⟨Vec.copyFrom_inv _ o _ h1 ho h2, Vec.copyFrom_view _ o _ ho h2⟩

/-- `small_vector(n)` for `n ≥ DIM`: a heap vector of `n` indeterminate cells -/
theorem mkSized_dyn (c : Nat) (zero : α) (n : Nat) (L : Ledger) (hn : ¬ n < c) :
    (mkSized c zero n L).1.tagS = false ∧ (mkSized c zero n L).1.dy.Inv ∧
    (mkSized c zero n L).1.dy.cells = List.replicate n none ∧ (mkSized c zero n L).1.dy.size = n := by
  simp only [mkSized, hn, if_false]
  have hd := Vec.mkDefault_inv (α := α) L
  have ha := rawAssign_spec (Vec.mkDefault (α := α) L).1 ((Vec.mkDefault (α := α) L).2.flag .uninitAssign) hd
  have hcells : (Vec.assign rawVec (Vec.mkDefault (α := α) L).1 ((Vec.mkDefault (α := α) L).2.flag .uninitAssign)).1.cells = [] := by
    simp [Vec.assign, Vec.resize, rawVec, Vec.copyFrom, Vec.mkDefault]
  have hsz : (Vec.assign rawVec (Vec.mkDefault (α := α) L).1 ((Vec.mkDefault (α := α) L).2.flag .uninitAssign)).1.size = 0 := by
    simp [Vec.assign, Vec.resize, rawVec, Vec.copyFrom, Vec.mkDefault]
  have hcap : (Vec.assign rawVec (Vec.mkDefault (α := α) L).1 ((Vec.mkDefault (α := α) L).2.flag .uninitAssign)).1.cap = 0 := by
    simp [Vec.assign, Vec.resize, rawVec, Vec.copyFrom, Vec.mkDefault]
  generalize (Vec.assign rawVec (Vec.mkDefault (α := α) L).1 ((Vec.mkDefault (α := α) L).2.flag .uninitAssign)) = r at ha hcells hsz hcap
  generalize Vec.destroy (Vec.mkDefault (α := α) L).1 r.2 = L3
  refine ⟨trivial, Vec.resize_inv _ n L3 ha.1, ?_, Vec.resize_size _ n L3 ha.1⟩
  obtain ⟨p, hp⟩ := Option.isSome_iff_exists.mp ha.1.blk
  unfold Vec.resize
  simp only [hp, hcap, hcells, hsz]
  by_cases h0 : 0 < n
  · simp [h0]
  · have : n = 0 := by omega
    subst this; simp

/-- static → dynamic `resize(n)`, `n > DIM`: the old elements followed by indeterminate cells -/
theorem resize_grow_dyn (c : Nat) (zero : α) (x : Small α) (n : Nat) (L : Ledger) (ht : x.tagS = true)
    (hlen : x.st.cells.length = c) (hsz : x.st.size ≤ c) (hn : c < n) :
    (resize c zero x n L).1.tagS = false ∧ (resize c zero x n L).1.dy.Inv ∧
    (resize c zero x n L).1.dy.view = x.st.view ++ List.replicate (n - x.st.size) none := by
  have hnc : ¬ n ≤ c := by omega
  have hnc' : ¬ n < c := by omega
  obtain ⟨_, hinv, hcells, hsize⟩ := mkSized_dyn c zero n L hnc'
  simp only [resize, ht, if_true, hnc, if_false]
  generalize mkSized c zero n L = nb at hinv hcells hsize
  -- the block the temporary owns, with the copied prefix
  have hnbinv : ({ nb.1.dy with cells := x.st.cells.take x.st.size ++ nb.1.dy.cells.drop x.st.size } : Vec α).Inv := by
    refine ⟨hinv.blk, ?_, hinv.le⟩
    have := hinv.len
    simp [List.length_take, hcells] at *
    omega
  generalize hL2 : nb.2.flagIf (decide (x.st.cells.length < x.st.size ∨ nb.1.dy.cells.length < x.st.size)) Event.oob = L2
  have hv0 := Vec.mkDefault_inv (α := α) L2
  have ha := Vec.assign_spec (Vec.mkDefault (α := α) L2).1 _ (Vec.mkDefault (α := α) L2).2 hv0 hnbinv
  refine ⟨trivial, ha.1, ?_⟩
  rw [ha.2]
  simp only [Vec.view, hsize, hcells, SVec.view]
  rw [List.take_of_length_le]
  · simp
  · simp [List.length_take]; omega

theorem view_dyn (x : Small α) (ht : x.tagS = false) : x.view = x.dy.view := by simp [view, ht]
theorem view_st (x : Small α) (ht : x.tagS = true) : x.view = x.st.view := by simp [view, ht]

theorem storeAll_dyn (x : Small α) (ht : x.tagS = false) (i : Nat) (as : List α) (L : Ledger)
    (h : i + as.length ≤ x.dy.cells.length) :
    storeAll x i as L =
      ({ x with dy := { x.dy with cells := x.dy.cells.take i ++ as.map some ++ x.dy.cells.drop (i + as.length) } }, L) := by
  induction as generalizing x i L with
  | nil => simp [storeAll]
  | cons a as ih =>
    simp only [List.length_cons] at h
    have hi : i < x.dy.cells.length := by omega
    simp only [storeAll, write, ht, Bool.false_eq_true, if_false, Vec.write, Vec.store, hi, if_true]
    rw [ih]
    · simp only [List.length_cons, List.map_cons]
      congr 3
      have e1 : (x.dy.cells.set i (some a)).take (i + 1) = x.dy.cells.take i ++ [some a] := take_succ_set _ _ _ hi
      have e2 : (x.dy.cells.set i (some a)).drop (i + 1 + as.length) = x.dy.cells.drop (i + (as.length + 1)) := by
        rw [List.drop_set]
        have : i < i + 1 + as.length := by omega
        simp only [this, if_true]; congr 1; omega
      rw [e1, e2]; simp
    · rfl
    · simp; omega

theorem storeAll_st (x : Small α) (ht : x.tagS = true) (i : Nat) (as : List α) (L : Ledger)
    (h : i + as.length ≤ x.st.cells.length) :
    storeAll x i as L =
      ({ x with st := { x.st with cells := x.st.cells.take i ++ as.map some ++ x.st.cells.drop (i + as.length) } }, L) := by
  induction as generalizing x i L with
  | nil => simp [storeAll]
  | cons a as ih =>
    simp only [List.length_cons] at h
    have hi : i < x.st.cells.length := by omega
    simp only [storeAll, write, ht, if_true, SVec.write, SVec.store, hi]
    rw [ih]
    · simp only [List.length_cons, List.map_cons]
      congr 3
      have e1 : (x.st.cells.set i (some a)).take (i + 1) = x.st.cells.take i ++ [some a] := take_succ_set _ _ _ hi
      have e2 : (x.st.cells.set i (some a)).drop (i + 1 + as.length) = x.st.cells.drop (i + (as.length + 1)) := by
        rw [List.drop_set]
        have : i < i + 1 + as.length := by omega
        simp only [this, if_true]; congr 1; omega
      rw [e1, e2]; simp
    · rfl
    · simp; omega

theorem mkVariadic_spec (c : Nat) (zero : α) (vs : List α) (L : Ledger) :
    RSmall c (mkVariadic c zero vs L).1 vs := by
  unfold mkVariadic
  simp only []
  by_cases hn : vs.length ≤ c
  · -- stays static
    have hr : resize c zero (mkDefault c zero L).1 vs.length (mkDefault c zero L).2 =
        ({ (mkDefault c zero L).1 with st := { (freshSt c zero) with size := vs.length } }, L) := by
      simp [resize, mkDefault, SVec.resize, hn, freshSt]
    rw [hr, storeAll_st _ (by simp [mkDefault]) 0 vs L (by simp [mkDefault, freshSt]; exact hn)]
    simp only [RSmall, mkDefault, if_true]
    refine ⟨?_, hn, ?_⟩
    · simp [freshSt, List.length_take]; omega
    · simp only [SVec.view, List.take_zero, List.nil_append, Nat.zero_add]
      rw [List.take_left']; simp
  · have hc : c < vs.length := by omega
    obtain ⟨htag, hinv, hview⟩ := resize_grow_dyn c zero (mkDefault c zero L).1 vs.length (mkDefault c zero L).2
      (by simp [mkDefault]) (by simp [mkDefault, freshSt]) (by simp [mkDefault, freshSt]) hc
    generalize resize c zero (mkDefault c zero L).1 vs.length (mkDefault c zero L).2 = r at htag hinv hview
    have hsz : r.1.dy.size = vs.length := by
      have := Vec.view_length _ hinv
      rw [hview] at this
      simp [mkDefault, freshSt, SVec.view] at this
      omega
    have hl := hinv.len; have hle := hinv.le
    rw [storeAll_dyn _ htag 0 vs r.2 (by omega)]
    simp only [RSmall, htag, Bool.false_eq_true, if_false]
    refine ⟨⟨hinv.blk, ?_, hinv.le⟩, ?_⟩
    · simp [List.length_take]; omega
    · simp only [Vec.view, hsz, List.take_zero, List.nil_append, Nat.zero_add]
      rw [List.take_left']; simp

end Small

theorem RSmall.size_eq {c : Nat} {x : Small α} {l : List α} (h : RSmall c x l) : x.size = l.length := by
  unfold RSmall at h
  cases ht : x.tagS with
  | true => simp only [ht, if_true] at h; simpa [Small.size, ht] using h.size_eq
  | false => simp only [ht, Bool.false_eq_true, if_false] at h; simpa [Small.size, ht] using h.size_eq

theorem rsmall_st {c : Nat} {x : Small α} {l : List α} (ht : x.tagS = true) : RSmall c x l ↔ RSVec c x.st l := by
  simp [RSmall, ht]
theorem rsmall_dy {c : Nat} {x : Small α} {l : List α} (ht : x.tagS = false) : RSmall c x l ↔ RVec x.dy l := by
  simp [RSmall, ht]

theorem rsvec_fresh (c : Nat) (zero : α) : RSVec c (Small.freshSt c zero) ([] : List α) :=
  ⟨by simp [Small.freshSt], by simp [Small.freshSt], by simp [Small.freshSt, SVec.view]⟩

theorem Vec.push_eq_resize_store (v : Vec α) (a : α) (L : Ledger) (h : v.Inv) :
    Vec.push v a L = (let r := v.resize (v.size + 1) L; r.1.store (r.1.size - 1) (some a) r.2) := by
  obtain ⟨p, hp⟩ := Option.isSome_iff_exists.mp h.blk
  unfold Vec.push
  by_cases hc : v.cap < v.size + 1
  · simp only [hc, if_true]
  · simp only [hc, if_false, Vec.resize, hp]

theorem small_sim (c : Nat) (zero : α) : Sim (smallImpl c zero) (stdSpec zero) (RSmall c) (smallOk c) where
  size_eq := fun x y h => h.size_eq
  mkDefault := fun s L M _ => by
    show RSmall c (Small.mkDefault c zero L).1 []
    simpa [RSmall, Small.mkDefault] using rsvec_fresh c zero
  mkSized := fun s n L M hok => by
    simp only [smallOk] at hok
    have hle : n ≤ c := by omega
    show RSmall c (Small.mkSized c zero n L).1 (List.replicate n zero)
    simp only [Small.mkSized, hok, if_true, RSmall]
    simp only [SVec.assign, SVec.resize, Small.freshSt, Nat.zero_le, if_true, SVec.copyFrom, List.take_zero,
      List.drop_zero, List.nil_append, hle]
    exact ⟨by simp, hle, by simp [SVec.view, List.take_replicate, Nat.min_eq_left hle]⟩
  mkVariadic := fun s vs L M _ => Small.mkVariadic_spec c zero vs L
  mkCopy := fun d s x y L M _ h => by
    show RSmall c (Small.mkCopy c zero x L).1 y
    cases ht : x.tagS with
    | true =>
      simp only [Small.mkCopy, ht, if_true, RSmall]
      exact (svec_sim c zero).assign d s _ _ _ _ L M trivial (rsvec_fresh c zero) ((rsmall_st ht).mp h)
    | false =>
      have hx := (rsmall_dy ht).mp h
      simp only [Small.mkCopy, ht, Bool.false_eq_true, if_false, RSmall]
      have := Small.rawAssign_spec x.dy (L.flag .uninitAssign) hx.1
      exact ⟨this.1, by rw [this.2]; exact hx.2⟩
  assign := fun d s x y x' y' L M _ h h' => by
    show RSmall c (Small.assign c zero x x' L).1 y'
    cases ht : x.tagS <;> cases ht' : x'.tagS
    · -- both dynamic
      simp only [Small.assign, ht, ht', bne_self_eq_false, Bool.false_eq_true, if_false, RSmall]
      exact (vec_sim zero).assign d s _ _ _ _ L M trivial ((rsmall_dy ht).mp h) ((rsmall_dy ht').mp h')
    · -- dynamic := static
      simp only [Small.assign, ht, ht', Bool.bne_true, Bool.not_false, if_true, RSmall]
      exact (svec_sim c zero).assign d s _ _ _ _ _ M trivial (rsvec_fresh c zero) ((rsmall_st ht').mp h')
    · -- static := dynamic
      have hx' := (rsmall_dy ht').mp h'
      simp only [Small.assign, ht, ht', Bool.bne_false, if_true, Bool.false_eq_true, if_false, RSmall]
      have := Vec.assign_spec (Vec.mkDefault (α := α) L).1 x'.dy (Vec.mkDefault (α := α) L).2 (Vec.mkDefault_inv L) hx'.1
      exact ⟨this.1, by rw [this.2]; exact hx'.2⟩
    · -- both static
      simp only [Small.assign, ht, ht', bne_self_eq_false, Bool.false_eq_true, if_false, if_true, RSmall]
      exact (svec_sim c zero).assign d s _ _ _ _ L M trivial ((rsmall_st ht).mp h) ((rsmall_st ht').mp h')
  assignSelf := fun d x y L M _ h => by
    show RSmall c (Small.assignSelf c x L).1 y
    cases ht : x.tagS with
    | true =>
      simp only [Small.assignSelf, ht, if_true, RSmall]
      exact (svec_sim c zero).assignSelf d _ _ L M trivial ((rsmall_st ht).mp h)
    | false =>
      simp only [Small.assignSelf, ht, Bool.false_eq_true, if_false, RSmall]
      exact (vec_sim zero).assignSelf d _ _ L M trivial ((rsmall_dy ht).mp h)
  push := fun s a x y L M _ h => by
    show RSmall c (Small.push c zero x a L).1 (y ++ [a])
    have hsz := h.size_eq
    cases ht : x.tagS with
    | true =>
      have hx := (rsmall_st ht).mp h
      have hxs : x.size = x.st.size := by simp [Small.size, ht]
      by_cases hc : x.size = c
      · -- static and full: switch to the heap
        simp only [Small.push, hc, if_true]
        obtain ⟨htag, hinv, hview⟩ := Small.resize_grow_dyn c zero x (c + 1) L ht hx.len hx.le (by omega)
        generalize Small.resize c zero x (c + 1) L = r at htag hinv hview
        have hrs : r.1.dy.size = c + 1 := by
          have := Vec.view_length _ hinv
          rw [hview] at this
          have h2 := congrArg List.length hx.view
          simp at this h2; omega
        have hw := Vec.write_spec r.1.dy c a r.2 hinv (by omega)
        simp only [Small.write, htag, Bool.false_eq_true, if_false, RSmall]
        refine ⟨hw.1, ?_⟩
        rw [hw.2, hview, hx.view]
        have : x.st.size = c := by omega
        have hyl : y.length = c := by omega
        simp only [this, Nat.add_sub_cancel_left, List.replicate_one]
        rw [List.set_append_right _ _ (by simp [hyl])]
        simp [hyl]
      · have hlt : y.length + 1 ≤ c := by have := hx.le; omega
        simp only [Small.push, hc, if_false, ht, if_true, RSmall]
        have := (svec_sim c zero).push s a _ _ L M trivial hx
        simpa [boundedSpec, hlt, svecImpl] using this
    | false =>
      have hx := (rsmall_dy ht).mp h
      have hxs : x.size = x.dy.size := by simp [Small.size, ht]
      have hp := (vec_sim zero).push s a _ _ L M trivial hx
      by_cases hc : x.size = c
      · simp only [Small.push, hc, if_true, Small.resize, ht, Bool.false_eq_true, if_false, Small.write, RSmall]
        have he := Vec.push_eq_resize_store x.dy a L hx.1
        have hrs := Vec.resize_size x.dy (c + 1) L hx.1
        have hcs : x.dy.size = c := by omega
        simp only [hcs] at he
        simp only [hrs, Nat.add_sub_cancel] at he
        have hw : Vec.write (x.dy.resize (c + 1) L).1 c a (x.dy.resize (c + 1) L).2 = Vec.push x.dy a L := by
          rw [he]; rfl
        rw [hw]
        exact hp
      · simp only [Small.push, hc, if_false, ht, Bool.false_eq_true, RSmall]
        exact hp
  pushAt := fun s i x y L M hok _ _ => by simp [smallOk] at hok
  resize := fun s n x y L M hok h => by
    simp only [smallOk] at hok
    show RSmall c (Small.resize c zero x n L).1 (listResize zero y n)
    cases ht : x.tagS with
    | true =>
      have hx := (rsmall_st ht).mp h
      have hnc : n ≤ c := by have := hx.le; have := hx.size_eq; omega
      simp only [Small.resize, ht, if_true, hnc, RSmall]
      have := (svec_sim c zero).resize s n _ _ L M (Or.inl hok) hx
      simpa [boundedSpec, hnc, svecImpl] using this
    | false =>
      simp only [Small.resize, ht, Bool.false_eq_true, if_false, RSmall]
      exact (vec_sim zero).resize s n _ _ L M hok ((rsmall_dy ht).mp h)
  write := fun s i a x y L M _ h hi => by
    show RSmall c (Small.write x i a L).1 (y.set i a)
    cases ht : x.tagS with
    | true =>
      simp only [Small.write, ht, if_true, RSmall]
      exact (svec_sim c zero).write s i a _ _ L M trivial ((rsmall_st ht).mp h) hi
    | false =>
      simp only [Small.write, ht, Bool.false_eq_true, if_false, RSmall]
      exact (vec_sim zero).write s i a _ _ L M trivial ((rsmall_dy ht).mp h) hi

end NmVerif.Containers
