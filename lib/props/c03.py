"""C03 — rearranging views equal NumPy's result.
IMPL: view::reshape / flatten / transpose / moveaxis / swapaxes / expand_dims / squeeze / atleast_{1d,2d,nd} / flip
(and array::<fn> evaluated) over ndarray_t<vector<int>, vector<size_t>> filled with data[k]=k.
ORACLE: the NumPy function of the same name on np.arange(n).reshape(shape); shape AND elements are compared."""
import itertools
import numpy as np
from runner import Case
from shapes import shapes, prod, fmt

ID = 'C03'
LEVEL = 'proof'
RULE = ('exhaustive over source shapes of rank 0..R with extents 1..E (quick R=3,E=3; thorough R=4,E=4): reshape to every '
        'target of rank <= 4 with the same element count, plain and with -1 at every position; flatten; transpose default + every '
        'permutation, every permutation also in every negative-index spelling (rank<=3) ; transpose followed by the inverse permutation; '
        'moveaxis int form all (src,dst) in [-r,r)^2, list form all pairs of duplicate-free equally long axis lists (non-negative, '
        'all-negative and one seeded mixed spelling); swapaxes all (a1,a2) in [-r,r)^2; expand_dims int form all axes in [-(r+1),r+1), '
        'list form every ordered duplicate-free list of 1..2 (thorough 3) positions in three spellings; squeeze; atleast_1d/2d and '
        'atleast_nd nd=0..r+2; flip None / int all axes in [-r,r) / every subset of axes (sorted and one shuffled order; non-negative, '
        'all-negative, mixed); flip twice. Plus seeded random sources of rank <= 6 (<= 4096 elements). Every request is answered '
        'by the lazy view; a third of them also by the eager array::<fn>. non-trivial = the result differs from the source in '
        'shape or element order, or is `nothing`. distinct = distinct request lines.')
EXHAUSTIVE = {'quick': True, 'thorough': True}
ANCHORS = {
    'NmVerif.shapeReshape / countNegativeReshape': 'index::shape_reshape, index::count_negative_reshape (index/reshape.hpp)',
    'NmVerif.reshapeView / flattenView': 'view::reshape_t::indices, view::reshape, view::flatten',
    'NmVerif.shapeTranspose / scatter / transposeView': 'index::shape_transpose, index::scatter, index::reverse, view::transpose_t::indices',
    'NmVerif.moveaxisToTranspose / argsort / insertShift': 'index::moveaxis_to_transpose, index::argsort',
    'NmVerif.swapaxesToTranspose': 'index::swapaxes_to_transpose (view/swapaxes.hpp)',
    'NmVerif.shapeExpandDims / expandGo': 'index::shape_expand_dims',
    'NmVerif.shapeSqueeze': 'index::shape_squeeze',
    'NmVerif.shapeAtleastNd': 'index::shape_atleast_nd',
    'NmVerif.flipView / flipInAxis': 'index::flip_slices + view::apply_slice with (None,None,-1)',
    'NmVerif.normalizeAxis / atPos': 'index::normalize_axis, nmtools::at with a signed index',
}
ASSUMPTIONS = [
    'extents >= 1 and valid arguments only (invalid arguments are property C15)',
    'size_t / int arithmetic does not wrap: element counts explored are < 2^13; the model uses unbounded Nat',
    'flip is modelled directly (i -> n-1-i on the flipped axes), not through a model of the slice machinery (C05); the tie to the headers is the correspondence run',
    'dynamic containers only (std::vector shape/axes, int axis); compile-time / clipped / fixed kinds are C09/C11',
]
PARTIAL = []
MANIFEST = dict(
    text='Proof: 27 Lean theorems, each for every rank/extent/argument: reshape (accepted shape, one inferred -1 at any position, C order kept, in bounds), flatten, transpose (NumPy shape and element equations for every permutation incl. negative spellings and the default; transpose then inverse = identity), swapaxes and moveaxis (the mirrored argsort/insertion loop yields NumPy\'s axis order for any duplicate-free source/destination lists), expand_dims (any duplicate-free axis tuple), squeeze, atleast_nd, flip (element equations for any valid axis list incl. negative entries, flip twice = identity), and for every op: result is a permutation of the source elements (identity permutation for the reshape family). Tied to the headers by an exhaustive small-scope differential run comparing shape AND every element of the lazy view and of the eager array:: function, also against real NumPy.',
    note='Lean kernel + propext/Classical.choice/Quot.sound; model hand-written, fidelity rests on the correspondence run; flip is modelled directly (i -> n-1-i), not through the slice machinery; results of rank 0 (reshape to (), squeeze of all-ones, ...) and negative flip axes were defects of the original tree, repaired by fixes/C03-reshape-rank0.diff and fixes/C03-flip-negative-axis.diff; model and theorems follow the repaired code; only dynamic (std::vector) shape/axes kinds are run here.',
    technique='Lean 4 induction proofs over List Nat shapes + differential correspondence (exhaustive small scope) + NumPy oracle')


def harness_specs(tier):
    return [dict(name='h_c03', src='h_c03.cpp', flavour='fast'),
            dict(name='h_c03_eval', src='h_c03.cpp', flavour='fast', extra=('-DC03_EVAL',))]


# ------------------------------------------------------------------------------------------------
# oracle: NumPy
# ------------------------------------------------------------------------------------------------

def show(r):
    r = np.asarray(r)
    return 'ok shape=%s data=%s' % (fmt(r.shape), fmt(r.flatten(order='C')))


def src_array(s):
    return np.arange(prod(s), dtype=np.int64).reshape(tuple(s))


def oracle(op, s, **kw):
    """the NumPy answer, or 'nothing' when NumPy rejects the arguments"""
    a = src_array(s)
    try:
        if op == 'reshape':
            return show(np.reshape(a, tuple(kw['to'])))
        if op == 'flatten':
            return show(a.flatten())
        if op == 'transpose':
            return show(np.transpose(a, None if kw['axes'] is None else tuple(kw['axes'])))
        if op == 'moveaxis':
            if kw['kind'] == 'int':
                return show(np.moveaxis(a, kw['src'][0], kw['dst'][0]))
            return show(np.moveaxis(a, list(kw['src']), list(kw['dst'])))
        if op == 'swapaxes':
            return show(np.swapaxes(a, kw['a1'], kw['a2']))
        if op == 'expand_dims':
            return show(np.expand_dims(a, kw['axis'][0] if kw['kind'] == 'int' else tuple(kw['axis'])))
        if op == 'squeeze':
            return show(np.squeeze(a))
        if op == 'atleast':
            if kw['kind'] == '1d':
                return show(np.atleast_1d(a))
            if kw['kind'] == '2d':
                return show(np.atleast_2d(a))
            # NumPy has no atleast_nd; prepending axes up to nd is `ndmin` of np.array
            return show(np.array(a, ndmin=kw['nd']))
        if op == 'flip':
            ax = kw['axis']
            return show(np.flip(a, None if ax is None else (ax[0] if kw['kind'] == 'int' else tuple(ax))))
        if op == 'transpose2':
            return show(np.transpose(np.transpose(a, tuple(kw['axes'])), tuple(kw['axes2'])))
        if op == 'flip2':
            return show(np.flip(np.flip(a, tuple(kw['axis'])), tuple(kw['axis2'])))
    except Exception:
        return 'nothing'
    raise KeyError(op)


def req_line(op, s, **kw):
    parts = [op, 'shape=' + fmt(s)]
    for k in ('to', 'axes', 'axes2', 'src', 'dst', 'axis', 'axis2'):
        if k in kw:
            parts.append('%s=%s' % (k, 'None' if kw[k] is None else fmt(kw[k])))
    for k in ('a1', 'a2', 'nd', 'kind'):
        if k in kw:
            parts.append('%s=%s' % (k, kw[k]))
    return ' '.join(parts)


# ------------------------------------------------------------------------------------------------
# known findings: none (reshape.rank0-result and flip.negative-axis were repaired by fixes/C03-*.diff)
# ------------------------------------------------------------------------------------------------

def parse_req(req):
    t = req.split()
    d = {'op': t[0]}
    for kv in t[1:]:
        k, v = kv.split('=', 1)
        d[k] = v
    return d


def _ints(v):
    return [] if v in ('[]', '') else [int(x) for x in v.split(',')]


def result_is_rank0(case):
    """the NumPy result has rank 0 (shape ()): reshape to (), squeeze of an all-ones (or rank-0) shape,
    atleast_nd(rank-0, 0), expand_dims(rank-0, ()) — only used to tag the input distribution"""
    d = parse_req(case.req)
    s = _ints(d.get('shape', '[]'))
    if d['op'] == 'reshape':
        return d.get('to') == '[]'
    if d['op'] == 'squeeze':
        return all(e == 1 for e in s)
    if d['op'] == 'atleast':
        return s == [] and d.get('kind') == 'nd' and d.get('nd') == '0'
    if d['op'] == 'expand_dims':
        return s == [] and d.get('axis') == '[]'
    return False


KNOWN_PREDICATES = {}


# ------------------------------------------------------------------------------------------------
# generator
# ------------------------------------------------------------------------------------------------

def factorizations(n, rank):
    """all ordered `rank`-tuples of positive integers with product n"""
    if rank == 0:
        if n == 1:
            yield []
        return
    for d in range(1, n + 1):
        if n % d == 0:
            for rest in factorizations(n // d, rank - 1):
                yield [d] + rest


def spellings(axes, n, rng, all_variants=False):
    """ways of writing the (normalised) axis list with negative indices: as is, all negative, and mixed"""
    axes = list(axes)
    if not axes:
        return [axes]
    if all_variants:
        out = []
        for mask in itertools.product((0, 1), repeat=len(axes)):
            out.append([a - n if m else a for a, m in zip(axes, mask)])
        return out
    out = [axes, [a - n for a in axes]]
    if len(axes) > 1:
        mask = [rng.randint(0, 1) for _ in axes]
        if all(mask) or not any(mask):
            mask[0] ^= 1
        out.append([a - n if m else a for a, m in zip(axes, mask)])
    return out


class Gen:
    def __init__(self, tier, rng):
        self.tier = tier
        self.rng = rng
        self.k = 0

    def case(self, op, s, **kw):
        """yields the lazy-view case and, for every third request, the eager one"""
        exp = oracle(op, s, **kw)
        line = req_line(op, s, **kw)
        c = Case(line, 'h_c03', oracle=exp, tags=[op, 'rank=%d' % len(s)])
        src = show(src_array(s))
        c.nontrivial = (exp != src)
        tags = list(c.tags)
        if result_is_rank0(c):
            tags.append('rank0-result')
        if exp == 'nothing':
            tags.append('numpy-rejects')
        for k in ('axes', 'axis', 'src', 'dst', 'axis2', 'axes2'):
            if kw.get(k) is not None and any(x < 0 for x in kw[k]):
                tags.append('negative-axis')
                break
        if any(k in kw and kw[k] < 0 for k in ('a1', 'a2')):
            tags.append('negative-axis')
        if op == 'reshape' and -1 in kw['to']:
            tags.append('reshape-infer')
        if any(e == 1 for e in s):
            tags.append('size-1-axis')
        c.tags = tuple(tags)
        yield c
        self.k += 1
        if self.k % 3 == 0 and op not in ('transpose2', 'flip2'):
            e = Case(line, 'h_c03_eval', oracle=exp, dom=c.dom, model=False, nontrivial=c.nontrivial, tags=tuple(tags) + ('eval',))
            yield e

    def for_shape(self, s, full=True):
        rng = self.rng
        r = len(s)
        n = prod(s)
        thorough = self.tier == 'thorough'
        # reshape -----------------------------------------------------------------------------
        max_trank = 4 if full else min(6, r + 1)
        targets = []
        if full:
            for tr in range(0, max_trank + 1):
                targets += list(factorizations(n, tr))
        else:
            for _ in range(4):
                tr = rng.randint(1, max_trank)
                t = []
                rem = n
                for k in range(tr - 1):
                    divs = [d for d in range(1, rem + 1) if rem % d == 0]
                    d = rng.choice(divs)
                    t.append(d)
                    rem //= d
                t.append(rem)
                rng.shuffle(t)
                targets.append(t)
        for t in targets:
            yield from self.case('reshape', s, to=t)
            for k in range(len(t)):
                yield from self.case('reshape', s, to=t[:k] + [-1] + t[k + 1:])
        yield from self.case('flatten', s)
        # transpose ---------------------------------------------------------------------------
        yield from self.case('transpose', s, axes=None)
        if full:
            perms = [list(p) for p in itertools.permutations(range(r))]
        else:
            perms = []
            for _ in range(3):
                p = list(range(r))
                rng.shuffle(p)
                perms.append(p)
        for p in perms:
            for sp in spellings(p, r, rng, all_variants=(full and r <= 3)):
                yield from self.case('transpose', s, axes=sp)
            inv = [p.index(j) for j in range(r)]
            yield from self.case('transpose2', s, axes=p, axes2=inv)
        if full and r >= 2:
            for _ in range(2):
                p, q = rng.choice(perms), rng.choice(perms)
                yield from self.case('transpose2', s, axes=p, axes2=q)
        # moveaxis / swapaxes -----------------------------------------------------------------
        if full:
            for a in range(-r, r):
                for b in range(-r, r):
                    yield from self.case('moveaxis', s, src=[a], dst=[b], kind='int')
                    yield from self.case('swapaxes', s, a1=a, a2=b)
            for m in range(0, r + 1):
                subs = [list(p) for p in itertools.permutations(range(r), m)]
                for sa in subs:
                    for da in subs:
                        sps = spellings(sa, r, rng)
                        dps = spellings(da, r, rng)
                        for i in range(len(sps)):
                            yield from self.case('moveaxis', s, src=sps[i], dst=dps[i], kind='list')
        elif r >= 1:
            for _ in range(3):
                a, b = rng.randrange(-r, r), rng.randrange(-r, r)
                yield from self.case('moveaxis', s, src=[a], dst=[b], kind='int')
                yield from self.case('swapaxes', s, a1=a, a2=b)
                m = rng.randint(1, r)
                sa = rng.sample(range(r), m)
                da = rng.sample(range(r), m)
                yield from self.case('moveaxis', s, src=spellings(sa, r, rng)[-1], dst=spellings(da, r, rng)[-1], kind='list')
        # expand_dims -------------------------------------------------------------------------
        if full:
            for a in range(-(r + 1), r + 1):
                yield from self.case('expand_dims', s, axis=[a], kind='int')
            yield from self.case('expand_dims', s, axis=[], kind='list')
            for m in range(1, (3 if thorough else 2) + 1):
                if r + m > 6:
                    continue
                for ax in itertools.permutations(range(r + m), m):
                    for sp in spellings(ax, r + m, rng):
                        yield from self.case('expand_dims', s, axis=sp, kind='list')
        else:
            for _ in range(3):
                m = rng.randint(1, 2)
                ax = rng.sample(range(r + m), m)
                yield from self.case('expand_dims', s, axis=spellings(ax, r + m, rng)[-1], kind='list')
            yield from self.case('expand_dims', s, axis=[rng.randrange(-(r + 1), r + 1)], kind='int')
        # squeeze / atleast -------------------------------------------------------------------
        yield from self.case('squeeze', s)
        yield from self.case('atleast', s, kind='1d')
        yield from self.case('atleast', s, kind='2d')
        for nd in range(0, r + 3):
            yield from self.case('atleast', s, kind='nd', nd=nd)
        # flip --------------------------------------------------------------------------------
        yield from self.case('flip', s, axis=None, kind='none')
        if full:
            for a in range(-r, r):
                yield from self.case('flip', s, axis=[a], kind='int')
            for m in range(0, r + 1):
                for ax in itertools.combinations(range(r), m):
                    ax = list(ax)
                    for sp in spellings(ax, r, rng):
                        yield from self.case('flip', s, axis=sp, kind='list')
                    if m >= 2:
                        sh = ax[:]
                        rng.shuffle(sh)
                        yield from self.case('flip', s, axis=sh, kind='list')
                    yield from self.case('flip2', s, axis=ax, axis2=ax)
            if r >= 2:
                yield from self.case('flip2', s, axis=[0], axis2=[r - 1])
        elif r >= 1:
            for _ in range(3):
                m = rng.randint(1, r)
                ax = sorted(rng.sample(range(r), m))
                yield from self.case('flip', s, axis=ax, kind='list')
                yield from self.case('flip', s, axis=spellings(ax, r, rng)[-1], kind='list')
                yield from self.case('flip2', s, axis=ax, axis2=ax)
            yield from self.case('flip', s, axis=[rng.randrange(-r, r)], kind='int')


def witnesses():
    """the inputs on which the two repaired defects showed (regression cases, run first)"""
    return [('reshape', [1, 1], dict(to=[])), ('squeeze', [1, 1], {}), ('flip', [2, 3], dict(axis=[-1], kind='int'))]


def gen(tier, rng):
    g = Gen(tier, rng)
    for op, s, kw in witnesses():
        yield from g.case(op, s, **kw)
    R, E = (3, 3) if tier == 'quick' else (4, 4)
    for s in shapes(R, E):
        yield from g.for_shape(s, full=True)
    # seeded random larger sources
    nrand = 150 if tier == 'quick' else 3000
    for _ in range(nrand):
        r = rng.randint(1, 6)
        while True:
            s = [rng.randint(1, 6) for _ in range(r)]
            if prod(s) <= 4096:
                break
        yield from g.for_shape(s, full=False)
