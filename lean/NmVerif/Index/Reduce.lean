import NmVerif.Basic
import NmVerif.Arr
/-
  NmVerif.Index.Reduce — MODEL and SPEC of reductions / accumulations (property C08; reused by C10/C12/C16/C17).

  MODEL mirrors, loop for loop (`List Nat` for every index container kind, `Option` = the C++ has UB here):
    include/nmtools/array/index/normalize_axis.hpp     normalize_axis           → normalizeAxis / normalizeAxes
    include/nmtools/array/index/remove_dims.hpp        remove_dims              → removeDimsLoop / removeDims
    include/nmtools/array/index/reduce.hpp             reduction_slices         → reductionSlicesLoop / reductionSlices
    include/nmtools/array/view/ufunc/reduce.hpp        reducer_t, reduce_t::operator(), reduce_t<None>
                                                                                → reducer / reduceElem / reduce
    include/nmtools/array/view/ufunc/accumulate.hpp    accumulate_t::operator() → accumulateSlices / accumulateElem / accumulate
    include/nmtools/array/view/ufunc.hpp               view::reduce with a run-time keepdims → the same function
                                                       (either<reduce(True), reduce(False)>, selected by the value)
  `apply_slice(array, {start,stop} pairs)` followed by `view::flatten` is modelled on the pairs reduction_slices
  produces (0 ≤ start < stop ≤ extent): shape `stop - start`, element `d ↦ start + d`, flat position k ↦ ndindex.

  SPEC: NumPy `ufunc.reduce` / `ufunc.accumulate`: result shape, and per result index the left fold of exactly
  the source elements whose non-reduced coordinates match, in increasing C order.

  Core Lean only (linked into the `driver` executable).
-/
namespace NmVerif.Reduce
open NmVerif

/-! ## MODEL -/

/-- axis argument of reduce: `none` = `None` (reduce everything); a single integer axis `k` is `some [k]` -/
abbrev AxisArg := Option (List Int)

/-- `index::normalize_axis(axis, ndim)` on one entry: Nothing unless `-ndim ≤ a < ndim`; negative ⇒ `ndim + a` -/
def normalizeAxis (ndim : Nat) (a : Int) : Option Nat :=
  if -(ndim : Int) ≤ a ∧ a < (ndim : Int) then
    some (if a < 0 then ((ndim : Int) + a).toNat else a.toNat)
  else none

/-- `index::normalize_axis` on an index array: element-wise, Nothing when any entry is invalid; no duplicate check -/
def normalizeAxes (ndim : Nat) : List Int → Option (List Nat)
  | [] => some []
  | a :: as =>
    match normalizeAxis ndim a, normalizeAxes ndim as with
    | some x, some xs => some (x :: xs)
    | _, _ => none

/-- `unwrap(normalize_axis(m_axis, dim))` as written in remove_dims / reduction_slices:
    outer `none` = an empty optional is dereferenced (UB, DESIGN F4); inner `none` = axis None -/
def unwrapAxes (ndim : Nat) : AxisArg → Option (Option (List Nat))
  | none => some none
  | some l => (normalizeAxes ndim l).map some

/-- the `in_axis(i)` lambda: None ⇒ true; index array ⇒ `len(where(== i, axis)) > 0` -/
def inAxis : Option (List Nat) → Nat → Bool
  | none, _ => true
  | some l, i => l.contains i

/-- the `for (i = 0; i < dim; i++)` loop of `remove_dims`, from position `i`, `p = in_axis` -/
def removeDimsLoop (p : Nat → Bool) (keep : Bool) : Nat → Shape → Shape
  | _, [] => []
  | i, s :: ss =>
    if p i && !keep then removeDimsLoop p keep (i+1) ss
    else (if p i then 1 else s) :: removeDimsLoop p keep (i+1) ss

/-- `index::remove_dims(shape, axis, keepdims)` for a resizable result.
    The result is first resized to `dim` (keepdims) or `dim - len(axis)`, then the loop writes one entry per
    surviving axis: with duplicated axes the loop writes past the end (UB → `none`). -/
def removeDims (shape : Shape) (axis : AxisArg) (keep : Bool) : Option Shape :=
  match unwrapAxes shape.length axis with
  | none => none
  | some ax =>
    let res := removeDimsLoop (inAxis ax) keep 0 shape
    let n := match ax with | none => shape.length | some l => l.length
    if keep then some res
    else if n ≤ shape.length ∧ res.length = shape.length - n then some res else none

/-- loop of `index::reduction_slices(indices, src_shape, axis, keepdims)`: position `i`, counter `ii` into
    `indices`; `none` = `at(indices, ii)` out of range -/
def reductionSlicesLoop (p : Nat → Bool) (keep : Bool) (d : Idx) : Nat → Nat → Shape → Option (List (Nat × Nat))
  | _, _, [] => some []
  | i, ii, s :: ss =>
    if p i then
      (reductionSlicesLoop p keep d (i+1) (if keep then ii+1 else ii) ss).map ((0, s) :: ·)
    else
      match d[ii]? with
      | none => none
      | some x => (reductionSlicesLoop p keep d (i+1) (ii+1) ss).map ((x, x+1) :: ·)

def reductionSlices (d : Idx) (shape : Shape) (axis : AxisArg) (keep : Bool) : Option (List (Nat × Nat)) :=
  match unwrapAxes shape.length axis with
  | none => none
  | some ax => reductionSlicesLoop (inAxis ax) keep d 0 0 shape

/-- shape of `apply_slice(array, pairs)` -/
def sliceShape (sl : List (Nat × Nat)) : Shape := sl.map (fun p => p.2 - p.1)

/-- source index read by `apply_slice(array, pairs)` at `d` -/
def sliceIndex : List (Nat × Nat) → Idx → Idx
  | p :: ps, x :: xs => (p.1 + x) :: sliceIndex ps xs
  | _, _ => []

/-- `reducer_t::operator()`: without initial `acc = at(array,0); for i in 1..size-1: acc = op(acc, at(array,i))`
    (`none`: `at(array,0)` of an empty array), with initial `acc = init; for i in 0..size-1` -/
def reducer {α : Type} (op : α → α → α) (init : Option α) (n : Nat) (elem : Nat → α) : Option α :=
  match init with
  | some i0 => some ((List.range n).foldl (fun acc i => op acc (elem i)) i0)
  | none =>
    if n = 0 then none
    else some ((List.range' 1 (n-1)).foldl (fun acc i => op acc (elem i)) (elem 0))

/-- `reducer_t::empty<result_t>(initial)`: the value of a reduction over no element — the initial value, else the
    identity of the op (`ident` = `op_type::identity()` when the functor has one: add 0, multiply 1), else an assert
    and, with NDEBUG, a value-initialised result (`none`) -/
def emptyFold {α : Type} (ident init : Option α) : Option α :=
  match init with
  | some i => some i
  | none => ident

/-- the fold of an `x` of `n` elements (`elem` = its elements in C order) as `reduce_t` / `accumulate_t` do it:
    nothing to fold (`n = 0`: some reduced axis has extent 0) → `reducer_t::empty`; else `unwrap(view::flatten(x))`
    (defined for `n > 0`) followed by `reducer_t::operator()` -/
def flattenReduce {α : Type} (ident : Option α) (op : α → α → α) (init : Option α) (n : Nat) (elem : Nat → α) : Option α :=
  if n = 0 then emptyFold ident init else reducer op init n elem

/-- element of `flatten(apply_slice(array, sl))` at flat position `k` -/
def slicedFlatElem {α : Type} (a : Arr α) (sl : List (Nat × Nat)) (k : Nat) : α :=
  a.get (sliceIndex sl (ndindex (sliceShape sl) k))

/-- `reduce_t::operator()(indices…)`: slice → (empty? →) flatten → reducer.
    `reduce_t<axis = None>` ignores the indices and folds `flatten(array)`.  `ident` = the identity of the functor, if it
    declares one. -/
def reduceElemId {α : Type} (ident : Option α) (op : α → α → α) (init : Option α) (a : Arr α) (axis : AxisArg) (keep : Bool)
    (d : Idx) : Option α :=
  match axis with
  | none => flattenReduce ident op init (prod a.shape) (fun k => a.get (ndindex a.shape k))
  | some _ =>
    match reductionSlices d a.shape axis keep with
    | none => none
    | some sl => flattenReduce ident op init (prod (sliceShape sl)) (slicedFlatElem a sl)

/-- the reduce view: shape (`none` = UB while computing it) and element function (`none` = UB) -/
def reduceId {α : Type} (ident : Option α) (op : α → α → α) (init : Option α) (a : Arr α) (axis : AxisArg) (keep : Bool) :
    Option (Arr (Option α)) :=
  (removeDims a.shape axis keep).map (fun s => ⟨s, reduceElemId ident op init a axis keep⟩)

/-- a functor without `identity()` (the order-revealing functor of the protocol, maximum, minimum, subtract, …) -/
def reduceElem {α : Type} (op : α → α → α) (init : Option α) (a : Arr α) (axis : AxisArg) (keep : Bool) :
    Idx → Option α := reduceElemId none op init a axis keep

def reduce {α : Type} (op : α → α → α) (init : Option α) (a : Arr α) (axis : AxisArg) (keep : Bool) :
    Option (Arr (Option α)) :=
  (removeDims a.shape axis keep).map (fun s => ⟨s, reduceElem op init a axis keep⟩)

theorem reduce_eq_reduceId {α : Type} (op : α → α → α) (init : Option α) (a : Arr α) (axis : AxisArg) (keep : Bool) :
    reduce op init a axis keep = reduceId none op init a axis keep := rfl

/-- `accumulate_t::operator()`: `m_axis = axis; if (m_axis < 0) m_axis += dim` (NumPy's meaning of a negative axis;
    an axis outside `[-dim, dim)` is left as it is and matches no position) -/
def accumulateAxis (dim : Nat) (axis : Int) : Int := if axis < 0 then axis + (dim : Int) else axis

/-- loop of `accumulate_t::operator()`: `start = (i == m_axis) ? 0 : s; stop = s + 1` with `s = at(indices, i)`;
    the comparison is made in the signed common index type -/
def accumulateSlices (axis : Int) (d : Idx) : Nat → Shape → Option (List (Nat × Nat))
  | _, [] => some []
  | i, _ :: ss =>
    match d[i]? with
    | none => none
    | some s => (accumulateSlices axis d (i+1) ss).map ((if (i : Int) = axis then 0 else s, s+1) :: ·)

def accumulateElem {α : Type} (op : α → α → α) (a : Arr α) (axis : Int) (d : Idx) : Option α :=
  match accumulateSlices (accumulateAxis a.shape.length axis) d 0 a.shape with
  | none => none
  | some sl => flattenReduce none op none (prod (sliceShape sl)) (slicedFlatElem a sl)

/-- the accumulate view: source shape, running fold per element -/
def accumulate {α : Type} (op : α → α → α) (a : Arr α) (axis : Int) : Arr (Option α) :=
  ⟨a.shape, accumulateElem op a axis⟩

/-- the source multi-indices `flatten(apply_slice(a, sl))` reads at flat positions `0 .. size-1`, in that order -/
def slicedReads (sl : List (Nat × Nat)) : List Idx :=
  (List.range (prod (sliceShape sl))).map (fun k => sliceIndex sl (ndindex (sliceShape sl) k))

/-- the source multi-indices `reduce_t::operator()(d…)` reads, in fold order (`none` = UB before any read) -/
def reduceReads (s : Shape) (axis : AxisArg) (keep : Bool) (d : Idx) : Option (List Idx) :=
  match axis with
  | none => some ((List.range (prod s)).map (ndindex s))
  | some _ => (reductionSlices d s axis keep).map slicedReads

/-- the source multi-indices `accumulate_t::operator()(d…)` reads, in fold order -/
def accumulateReads (s : Shape) (axis : Int) (d : Idx) : Option (List Idx) :=
  (accumulateSlices (accumulateAxis s.length axis) d 0 s).map slicedReads

/-- `index::mean_divisor(shape, normalised axis)`: product of the reduced extents (`none`: `at` out of range) -/
def meanDivisor (shape : Shape) : Option (List Nat) → Option Nat
  | none => some (prod shape)
  | some l => l.foldl (fun acc k => match acc, shape[k]? with
      | some d, some e => some (d * e)
      | _, _ => none) (some 1)

/-! ### the named routines as the C++ composes them -/

/-- `view::maximum_t`: `t > u ? t : u` -/
def maximum {α : Type} [LT α] [DecidableRel (α := α) (· < ·)] (t u : α) : α := if u < t then t else u
/-- `view::minimum_t`: `t < u ? t : u` -/
def minimum {α : Type} [LT α] [DecidableRel (α := α) (· < ·)] (t u : α) : α := if t < u then t else u

/-- `view::sum(a, axis, dtype, initial, keepdims)` = `reduce(add_t{}, …)`; `add_t::identity()` = 0 -/
def sum {α : Type} [Add α] [OfNat α 0] (init : Option α) (a : Arr α) (axis : AxisArg) (keep : Bool) :=
  reduceId (some 0) (· + ·) init a axis keep
/-- `view::prod` = `reduce(multiply_t{}, …)`; `multiply_t::identity()` = 1 -/
def prodReduce {α : Type} [Mul α] [OfNat α 1] (init : Option α) (a : Arr α) (axis : AxisArg) (keep : Bool) :=
  reduceId (some 1) (· * ·) init a axis keep
/-- `view::amax` = `reduce_maximum` = `reduce(maximum_t{}, …)` -/
def amax {α : Type} [LT α] [DecidableRel (α := α) (· < ·)] (init : Option α) (a : Arr α) (axis : AxisArg) (keep : Bool) :=
  reduce maximum init a axis keep
/-- `view::amin` = `reduce_minimum` = `reduce(minimum_t{}, …)` -/
def amin {α : Type} [LT α] [DecidableRel (α := α) (· < ·)] (init : Option α) (a : Arr α) (axis : AxisArg) (keep : Bool) :=
  reduce minimum init a axis keep
/-- `view::cumsum(a, axis)` = `accumulate(add_t{}, a, axis)` -/
def cumsum {α : Type} [Add α] (a : Arr α) (axis : Int) := accumulate (· + ·) a axis
/-- `view::cumprod(a, axis)` = `accumulate(multiply_t{}, a, axis)` -/
def cumprod {α : Type} [Mul α] (a : Arr α) (axis : Int) := accumulate (· * ·) a axis

/-- `view::mean(array, axis, dtype, keepdims)` over abstract element operations:
    `m_axis = unwrap(normalize_axis(axis, dim))`, `divisor = mean_divisor(shape, m_axis)`,
    `divide(reduce_add(array, m_axis, dtype, None, keepdims), divisor)` (the normalised axis is normalised again
    inside reduce).  `divn x n` stands for `x / n` in the promoted element type. -/
def mean {α : Type} (add : α → α → α) (divn : α → Nat → α) (a : Arr α) (axis : AxisArg) (keep : Bool) :
    Option (Arr (Option α)) :=
  match unwrapAxes a.shape.length axis with
  | none => none
  | some ax =>
    match meanDivisor a.shape ax, reduce add none a (ax.map (fun l => l.map Int.ofNat)) keep with
    | some n, some v => some ⟨v.shape, fun j => (v.get j).map (fun x => divn x n)⟩
    | _, _ => none

/-- `view::vector_norm(array, axis, keepdims, ord)` over abstract element operations:
    `power(sum(power(fabs(array), ord), axis, None, None, keepdims), 1/ord)`;
    `pre = x ↦ |x|^ord`, `post = y ↦ y^(1/ord)` -/
def vectorNorm {α : Type} (add : α → α → α) (pre post : α → α) (a : Arr α) (axis : AxisArg) (keep : Bool) :
    Option (Arr (Option α)) :=
  (reduce add none (a.map pre) axis keep).map (fun v => ⟨v.shape, fun j => (v.get j).map post⟩)

/-! ## SPEC (NumPy) -/

/-- NumPy accepts axis entry `a` for rank `ndim` -/
def ValidAxis (ndim : Nat) (a : Int) : Prop := -(ndim : Int) ≤ a ∧ a < (ndim : Int)

instance (ndim : Nat) (a : Int) : Decidable (ValidAxis ndim a) := by unfold ValidAxis; exact inferInstance

/-- NumPy's normalisation of a valid axis: `a mod ndim` -/
def normAxis (ndim : Nat) (a : Int) : Nat := (a % (ndim : Int)).toNat

/-- the set of reduced axes -/
def axisSet (ndim : Nat) : AxisArg → List Nat
  | none => List.range ndim
  | some l => l.map (normAxis ndim)

/-- NumPy accepts the axis argument: entries in range, no axis named twice ("duplicate value in 'axis'") -/
def ValidAxes (ndim : Nat) : AxisArg → Prop
  | none => True
  | some l => (∀ a ∈ l, ValidAxis ndim a) ∧ (l.map (normAxis ndim)).Nodup

instance (ndim : Nat) (ax : AxisArg) : Decidable (ValidAxes ndim ax) := by
  unfold ValidAxes; cases ax <;> exact inferInstance

/-- every reduced axis has a positive extent (the other extents are unconstrained: they may be 0) -/
def PosAxes (s : Shape) (R : List Nat) : Prop := ∀ k ∈ R, ∀ e, s[k]? = some e → 0 < e

instance (s : Shape) (R : List Nat) : Decidable (PosAxes s R) :=
  decidable_of_iff (∀ k ∈ R, (s[k]?).all (0 < ·) = true) (by
    unfold PosAxes
    constructor
    · intro h k hk e he; have := h k hk; rw [he] at this; simpa using this
    · intro h k hk
      cases he : s[k]? with
      | none => rfl
      | some e => simpa using h k hk e he)

/-- NumPy result shape of a reduction over the axis set `R` -/
def specShape (s : Shape) (R : List Nat) (keep : Bool) : Shape :=
  if keep then s.zipIdx.map (fun q => if q.2 ∈ R then 1 else q.1)
  else (s.zipIdx.filter (fun q => !decide (q.2 ∈ R))).map (·.1)

/-- result index to which source index `i` contributes -/
def proj (R : List Nat) (keep : Bool) (i : Idx) : Idx :=
  if keep then i.zipIdx.map (fun q => if q.2 ∈ R then 0 else q.1)
  else (i.zipIdx.filter (fun q => !decide (q.2 ∈ R))).map (·.1)

/-- left fold starting from `init`, or from the first element when there is none
    (`none`: NumPy raises "zero-size array to reduction operation which has no identity") -/
def foldFirst {α : Type} (op : α → α → α) : Option α → List α → Option α
  | some i0, xs => some (xs.foldl op i0)
  | none, x :: xs => some (xs.foldl op x)
  | none, [] => none

/-- NumPy `ufunc.reduce` over a list of elements: a non-empty list is folded from the initial value or from its first
    element; the empty list gives the initial value, else the identity of the ufunc, else
    "zero-size array to reduction operation which has no identity" (`none`) -/
def foldNumpy {α : Type} (ident : Option α) (op : α → α → α) (init : Option α) : List α → Option α
  | [] => (match init with | some i => some i | none => ident)
  | x :: xs => foldFirst op init (x :: xs)

/-- the source multi-indices feeding result index `j`, in increasing C order -/
def addressed (s : Shape) (R : List Nat) (keep : Bool) (j : Idx) : List Idx :=
  (allIdx s).filter (fun i => proj R keep i == j)

/-- NumPy `op.reduce(a, axis, initial=init, keepdims=keep)[j]` -/
def specReduceElem {α : Type} (op : α → α → α) (init : Option α) (a : Arr α) (R : List Nat) (keep : Bool)
    (j : Idx) : Option α :=
  foldFirst op init ((addressed a.shape R keep j).map a.get)

/-- … of a ufunc with identity `ident` (`none`: it has none), for every shape, extents 0 included -/
def specReduceElemId {α : Type} (ident : Option α) (op : α → α → α) (init : Option α) (a : Arr α) (R : List Nat) (keep : Bool)
    (j : Idx) : Option α :=
  foldNumpy ident op init ((addressed a.shape R keep j).map a.get)

/-- NumPy `var(a, axis, ddof, keepdims)[j]`: with `G` the addressed elements, `μ = (Σ G) / |G|`,
    `(Σ_{x ∈ G} |x - μ|²) / (|G| - ddof)`; abstract element operations -/
def specVarElem {α : Type} (add sub : α → α → α) (sqabs : α → α) (divn : α → Nat → α) (a : Arr α) (R : List Nat)
    (keep : Bool) (ddof : Nat) (j : Idx) : Option α :=
  let G := addressed a.shape R keep j
  (foldFirst add none (G.map a.get)).bind (fun S =>
    (foldFirst add none (G.map (fun i => sqabs (sub (a.get i) (divn S G.length))))).map
      (fun x => divn x (G.length - ddof)))

/-- the source multi-indices feeding `accumulate(a, ax)[d]`: `d` with coordinate `ax` running over `0..d[ax]` -/
def accumAddressed (ax : Nat) (d : Idx) : Option (List Idx) :=
  match d[ax]? with
  | none => none
  | some m => some ((List.range (m+1)).map (fun x => d.set ax x))

/-- NumPy `op.accumulate(a, ax)[d]` = fold of `a[.., 0..d[ax], ..]` -/
def specAccumElem {α : Type} (op : α → α → α) (a : Arr α) (ax : Nat) (d : Idx) : Option α :=
  match accumAddressed ax d with
  | none => none
  | some l => foldFirst op none (l.map a.get)

/-! ## var / stddev: compositions that use the broadcasting index map (stated with `proj`) -/

/-- binary op on possibly-undefined operands (an undefined operand makes the result undefined) -/
def optOp {α : Type} (f : α → α → α) : Option α → Option α → Option α
  | some x, some y => some (f x y)
  | _, _ => none

/-- `view::var(array, axis, dtype, ddof, keepdims)` over abstract element operations:
    `a = mean(input, m_axis, dtype, True)`, `d = square(fabs(subtract(input, a)))`,
    `e = sum(d, m_axis, dtype, None, keepdims)`, `divide(e, mean_divisor(shape, m_axis) - ddof)`.
    `subtract(input, a)` broadcasts the keepdims mean against the input: the element at `i` reads the mean at `i`
    with every reduced coordinate set to 0 (that is what C06 proves of broadcast_to); `sqabs x = |x|²`. -/
def var {α : Type} (add sub : α → α → α) (sqabs : α → α) (divn : α → Nat → α) (a : Arr α) (axis : AxisArg)
    (ddof : Nat) (keep : Bool) : Option (Arr (Option α)) :=
  match unwrapAxes a.shape.length axis with
  | none => none
  | some ax =>
    let axis' : AxisArg := ax.map (fun l => l.map Int.ofNat)
    match mean add divn a axis' true, meanDivisor a.shape ax with
    | some m, some n =>
      let d : Arr (Option α) :=
        ⟨a.shape, fun i => (m.get (proj (axisSet a.shape.length axis') true i)).map (fun mu => sqabs (sub (a.get i) mu))⟩
      match reduce (optOp add) none d axis' keep with
      | none => none
      | some e => some ⟨e.shape, fun j => ((e.get j).join).map (fun x => divn x (n - ddof))⟩
    | _, _ => none

/-- `view::stddev` = `sqrt(var(…))` -/
def stddev {α : Type} (add sub : α → α → α) (sqabs sqrt : α → α) (divn : α → Nat → α) (a : Arr α) (axis : AxisArg)
    (ddof : Nat) (keep : Bool) : Option (Arr (Option α)) :=
  (var add sub sqabs divn a axis ddof keep).map (fun v => ⟨v.shape, fun j => (v.get j).map sqrt⟩)

/-! ## executable helpers for the driver -/

/-- array over an explicit row-major buffer (element `0` outside the buffer: never read on in-shape indices) -/
def arrOfData (s : Shape) (data : List Int) : Arr Int :=
  ⟨s, fun i => data.getD (computeOffset i (strides s)) 0⟩

/-- evaluate a view `Arr (Option α)` in C order; `none` if any element is UB -/
def evalFlat {α : Type} (v : Arr (Option α)) : Option (List α) :=
  (allIdx v.shape).mapM v.get

end NmVerif.Reduce
