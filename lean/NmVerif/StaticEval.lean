import NmVerif.Static
/-
  NmVerif.StaticEval — C11: which result container `array::eval` chooses from the compile-time knowledge of the view type
  (core Lean only: linked into the driver).

  Mirrors `resolve_optype<eval_type_resolver_t<default_type_resolver_t<Layout>>, view_t, none_t>` (array/eval.hpp:706-879):
  five candidate shape buffers and three candidate data buffers are derived from the five traits and from the type of
  `nmtools::shape(view)`, and the first available pair in a fixed priority list is taken.

    shape buffer   c  tuple of constants            <- fixed_shape_v
                   l  the clipped shape type itself <- is_clipped_index_array_v<decltype(shape(view))>
                   f  array<size_t, dim>            <- fixed_dim_v
                   b  static_vector<size_t, b_dim>  <- bounded_dim_v
                   d  vector<size_t>
    data buffer    f  array<T, size>                <- fixed_size_v
                   b  static_vector<T, N>           <- N = product of the clipped maxima when the shape is clipped, else bounded_size_v
                   d  vector<T>
    priority       (c,f) (c,b) (l,f) (l,b) (f,f) (f,b) (b,f) (b,b) (d,f) (d,b) (c,d) (l,d) (f,d) (b,d) (d,d)

  `resolveEval` walks the same list.  A fixed buffer (array<T,n>) holds exactly n elements and a bounded one at most n
  (utl::static_vector ignores a larger resize request): `BufK.fits`.
-/
namespace NmVerif.Static
open NmVerif

inductive BufK where
  | fixed (n : Nat)     -- array<T,n>: holds exactly n elements
  | bounded (n : Nat)   -- static_vector<T,n>: at most n; a larger resize request is silently ignored
  | dyn
  deriving DecidableEq, Repr

structure ResK where
  shape : ShapeK
  buf : BufK
  deriving DecidableEq, Repr

/-- the data buffer holds a result of `m` elements -/
def BufK.fits : BufK → Nat → Prop
  | .fixed n, m => m = n
  | .bounded n, m => m ≤ n
  | .dyn, _ => True

instance (b : BufK) (m : Nat) : Decidable (b.fits m) := by
  cases b <;> simp only [BufK.fits] <;> exact inferInstance

/-- capacity of the data buffer (`none` = unbounded) -/
def BufK.capacity : BufK → Option Nat
  | .fixed n => some n
  | .bounded n => some n
  | .dyn => none

/-- the result container can be given the run-time shape `s` and holds all its elements -/
def ResK.admits (r : ResK) (s : Shape) : Prop := r.shape.γ s ∧ r.buf.fits (prod s)

instance (r : ResK) (s : Shape) : Decidable (r.admits s) := by unfold ResK.admits; exact inferInstance

/-! ### candidates -/

inductive ShapeC where | c | l | f | b | d deriving DecidableEq, Repr
inductive BufC where | f | b | d deriving DecidableEq, Repr

def shapeCand (i : SInfo) : ShapeC → Option ShapeK
  | .c => i.fixedShape.map .const
  | .l => match i.shape with | .clipped b => some (.clipped b) | _ => none
  | .f => i.fixedDim.map .fixedDim
  | .b => i.boundedDim.map .boundedDim
  | .d => some .dyn

def bufCand (i : SInfo) : BufC → Option BufK
  | .f => i.fixedSize.map .fixed
  | .b => match i.shape with
    | .clipped b => some (.bounded (prod b))
    | _ => i.boundedSize.map .bounded
  | .d => some .dyn

/-- the `if constexpr` chain of eval.hpp:806-876 -/
def evalPriority : List (ShapeC × BufC) :=
  [(.c, .f), (.c, .b), (.l, .f), (.l, .b), (.f, .f), (.f, .b), (.b, .f), (.b, .b), (.d, .f), (.d, .b),
   (.c, .d), (.l, .d), (.f, .d), (.b, .d), (.d, .d)]

def firstAvailable (i : SInfo) : List (ShapeC × BufC) → Option ResK
  | [] => none
  | (sc, bc) :: rest =>
    match shapeCand i sc, bufCand i bc with
    | some s, some b => some ⟨s, b⟩
    | _, _ => firstAvailable i rest

/-- the container the default resolver chooses for a view type with knowledge `i` -/
def resolveEval (i : SInfo) : Option ResK := firstAvailable i evalPriority

/-- compile-time knowledge of the RESULT type (`ndarray_t<buffer, shape buffer>`, ndarray.hpp:238-388) -/
def ResK.info (r : ResK) : SInfo :=
  ⟨r.shape, match r.shape, r.buf with
    | .const l, _ => .known (prod l)
    | _, .fixed n => .known n
    | _, .bounded n => .atMost n
    | _, .dyn => .any⟩

/-! ### the OLDER resolver `resolve_optype<array::eval_t, view_t, none_t>` (array/eval.hpp:888-948, resolve_unary_array_type
    :422-590, resolve_binary_array_type :604-688) — the DEFAULT `resolver_t` of `array::eval(view)`.

  It classifies types as fixed-size / hybrid / dynamic ndarray through `fixed_ndarray_shape` and `hybrid_ndarray_max_size`.
  Neither is specialised for `decorator_t` views (only for `view::where`), so EVERY other view is "dynamic"; an
  `array::ndarray_t` operand is "fixed-size" exactly when its shape type is a tuple of constants and "dynamic" otherwise.
  For a dynamic view over dynamic operand(s) the result type is the OPERAND's type with the element type replaced
  (`replace_element_type_t<array_t, element_t>`): the operand's shape container and data buffer are reused, whatever the
  view does to rank and size.  `is_fixed_dim_ndarray_v` of operand and view only decide between that and `vector/vector`. -/

/-- what the older resolver sees of an operand: the kind of its shape container and of its data buffer -/
structure OperK where
  shape : ShapeK
  buf : BufK
  deriving DecidableEq, Repr

/-- `replace_element_type_t<ndarray_t<buffer, shape>, T>`: not defined for a `static_vector` buffer (does not compile) -/
def OperK.reuse (a : OperK) : Option ResK :=
  match a.buf with
  | .bounded _ => none
  | b => some ⟨a.shape, b⟩

def dynRes : ResK := ⟨.dyn, .dyn⟩

/-- one array operand (`resolve_unary_array_type`), `v` = knowledge of the view type (not `view::where`, not a number) -/
def resolveEvalOld1 (a : OperK) (v : SInfo) : Option ResK :=
  if a.shape.isConst then some dynRes                 -- fixed-size operand under a dynamic view (:571-576)
  else match a.shape.len?, v.fixedDim with
    | none, none => a.reuse                            -- :524-538
    | some n, some m => if n = m then a.reuse else some dynRes   -- :539-554
    | _, _ => some dynRes                              -- :555-562

/-- two array operands (`resolve_binary_array_type`): the left operand's type when it is dynamic, else the right one's -/
def resolveEvalOld2 (a b : OperK) (_v : SInfo) : Option ResK :=
  if !a.shape.isConst then a.reuse
  else if !b.shape.isConst then b.reuse
  else some dynRes

/-- sufficient static condition for the reused operand container to hold every instance of the view type -/
def ShapeK.covers : ShapeK → ShapeK → Bool
  | .dyn, _ => true
  | .boundedDim b, v => (match v with
      | .boundedDim m => m ≤ b
      | w => match w.len? with | some m => m ≤ b | none => false)
  | .fixedDim n, v => v.len? == some n
  | .clipped mx, .clipped m => decide (LeAll m mx)
  | .clipped mx, .const l => decide (LeAll l mx)
  | .const l, .const l' => l == l'
  | _, _ => false

def BufK.covers : BufK → SizeK → Bool
  | .dyn, _ => true
  | .fixed n, .known m => n == m
  | .fixed n, .knownB m _ => n == m
  | .bounded n, z => (match z.bound? with | some m => m ≤ n | none => false)
  | _, _ => false

def ResK.covers (r : ResK) (v : SInfo) : Bool := r.shape.covers v.shape && r.buf.covers v.size

end NmVerif.Static
