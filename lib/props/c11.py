"""C11 — statically inferred shape / dim / size / bounds agree with every run-time instance of the type.

IMPL: generated TUs (harness/gen_c11.py -> .build/gen_c11/*.cpp) print meta::fixed_shape_v / fixed_dim_v / fixed_size_v /
bounded_dim_v / bounded_size_v<decltype(view)> and the type kind of nmtools::shape(view) next to the run-time
shape/dim/size of the object and the outcome of evaluating it with the default resolver.
ORACLE: NumPy evaluates the same program on the same leaf shapes -> reference run-time shape (and data hash).
MODEL: Lean `NmVerif.Static` transfer functions predict the static knowledge of the view type (driver op `c11`).
"""
import os, sys, re, time
from concurrent.futures import ThreadPoolExecutor
import runner
from runner import Case

sys.path.insert(0, os.path.join(runner.ROOT, 'harness'))
import gen_c11 as G

ID = 'C11'
LEVEL = 'proof'
GEN_DIR = os.path.join(runner.BUILD, 'gen_c11')
C11_JOBS = int(os.environ.get('VERIF_C11_JOBS', os.environ.get('VERIF_JOBS', '10')))

RULE = ('programs = view expression trees of depth 1..2 (quick) / 1..3 (thorough) over leaves of every static-knowledge kind '
        '(constant shape cs/fx, clipped shape cl/cld/cla, fixed dim fd/fdf/fdh, bounded dim bd, dynamic dy): depth 1 = every operation '
        'variant (compile-time / clipped / fixed-length run-time / dynamic run-time arguments) x every leaf kind, depth 2..3 = fixed-seed sample over the 23 view functions of the first two groups; '
        'instances = every run-time shape admitted by the leaf types when that set is small (all shapes under a clipped bound, all factorisations '
        'of a fixed buffer), VERIF_SEED-sampled shapes for fixed-dim / bounded-dim / dynamic leaves, run-time arguments derived from the instance; '
        'second group of TUs: index-array arguments in a bounded container (nmtools_static_vector<int,CAP>, run-time length BELOW and AT the capacity, '
        'longer than the operand rank) for tile / reshape / broadcast_to / transpose / pad over every leaf kind, outer products of fixed-buffer operands; '
        'older resolver (bare array::eval(view)): negative / transpose / tile / expand_dims / add over 7 leaf kinds, fixed + VERIF_SEED-sampled shapes; '
        'only instances NumPy accepts. non-trivial = the run-time shape of the instance differs from the nominal shape of the program or the program has depth >= 2')
EXHAUSTIVE = {'quick': False, 'thorough': False}
ANCHORS = {
    'NmVerif.Static.leafInfo': 'meta::fixed_shape/fixed_dim/fixed_size/bounded_dim/bounded_size<array::ndarray_t<...>> (ndarray.hpp:238-388)',
    'NmVerif.Static.SInfo.traits': 'decorator_t / indexing_t specialisations of the five traits (decorator.hpp:1067-1225, indexing.hpp:418-477)',
    'NmVerif.Static.transfer*': 'resolve_optype of index::shape_transpose / shape_reshape / shape_flatten / shape_broadcast_to / broadcast_shape / '
                                'shape_tile / shape_expand_dims / shape_squeeze / remove_dims / shape_concatenate, ufunc_t / reduce_t size types',
    'NmVerif.Static.transfer* (StaticMore.lean)': 'resolve_optype of index::shape_repeat / shape_pad / shape_roll / shape_slice / shape_dynamic_slice / '
                                'moveaxis_to_transpose / shape_take / shape_atleast_nd / shape_matmul / broadcast_size, accumulate_t shape_/size_, '
                                'take_t and matmul_t fixed_size / bounded_size, decorator default over a tuple of operands (where)',
    'NmVerif.Static.transfer* (StaticGen.lean)': 'view::eye / view::tri (dst_shape construction), resolve_optype of index::shape_tril / shape_pool2d / shape_resize / '
                                'shape_sliding_window / shape_compress / shape_outer / size_outer, pool2d_t and compress_t fixed_size / bounded_size, '
                                'outer_t bounded_size + decorator default fixed_size from the type of size()',
    'NmVerif.Static.resolveEval': 'resolve_optype<eval_type_resolver_t<default_type_resolver_t<Layout>>, view_t, none_t> (eval.hpp:706-879): candidate '
                                'shape / data buffers and the priority chain; compared as rk / rfz / rbz of the result type on every modelled program',
    'NmVerif.Static.resolveEvalOld1/2': 'resolve_optype<array::eval_t, view_t, none_t> (eval.hpp:888-948) with resolve_unary_array_type (:422-590) and '
                                'resolve_binary_array_type (:604-688): the default resolver_t of array::eval(view); compared as ork / orfz / orbz and the '
                                'predicted fits / does-not-fit of every request of harness/h_c11_old.cpp',
    'eval result': 'evaluator_t::operator() on the container the resolver chose: result shape and every element compared with the view',
}
ASSUMPTIONS = ['which static kind a composed view type gets is decided by C++ metafunctions; the Lean transfer functions are a hand-written mirror, '
               'tied to them by comparing the predicted with the printed static knowledge for every generated program of the modelled operations',
               'instances are restricted to positive extents and to arguments NumPy accepts (invalid arguments are C15)',
               'kind combinations the unchanged library cannot compile are excluded (harness/c11_uncompilable.txt)']
PARTIAL = ['bounded-container (static_vector) arguments are modelled and generated for tile, reshape, broadcast_to, transpose, pad; not for expand_dims axes and '
           'repeat counts (AxisK / NumK have no bounded kind; array-valued repeats have no transfer function)',
           'sliding_window: (integer window, one axis) and (window per axis, axis None) are modelled; a list of axes is not (no Lean transfer, not generated)',
           'where: fixed / bounded size of the view are those of ONE broadcast operand since fix commit 9f8dcf6 (before it the decorator default tripled them: former known finding C11.where-tripled-fixed-size)',
           'the older resolver of a bare array::eval(view) (eval.hpp:888-948) is modelled for views over ONE or TWO array::ndarray_t operands '
           '(resolveEvalOld1/2; views with three or more operands, view::where, creation routines without an array operand and nested views are not) '
           'and compared with the real result types on a hand-written scope (harness/h_c11_old.cpp: negative, transpose, tile, expand_dims, add over '
           '7 leaf kinds); its result-fits statement holds only where the reused operand container covers the view (old_eval_result_buffer_fits) — '
           'elsewhere it FAILS: open finding C11.old-resolver-operand-container (old_eval_counterexample, fixes/C11-old-resolver-operand-container.diff)']
MANIFEST = dict(
    text=('Proof: the compile-time knowledge nmtools attaches to an array / view type is modelled as an abstract value (shape-type kind: '
          'constant / clipped / fixed dim / bounded dim / dynamic; size: known / at most / unknown) with concretisation gamma; Lean theorems show that the '
          'five traits are true of every instance (traits_sound), that the transfer function of each of 33 view functions (transpose, reshape, flatten, '
          'broadcast_to, tile, expand_dims, squeeze, reductions, unary and binary ufuncs, concatenate; repeat, pad, cumsum/accumulate, roll, flip, slice, '
          'moveaxis, take, atleast_nd, ufunc with a number, where, matmul; eye, tri, tril, triu, max_pool2d, avg_pool2d, resize, sliding_window, compress, '
          'outer) is sound for ALL shapes, ranks and arguments, that soundness composes over '
          'arbitrary view expression trees (static_sound), that a buffer of bounded_size elements holds every result (result_buffer_fits) and that the '
          'container the default eval resolver chooses from the five traits can be given the run-time shape and holds every element of every instance '
          '(eval_result_buffer_fits, composed_eval_result_fits; for the older resolver of a bare array::eval(view) under the explicit condition that '
          'the reused operand container covers the view: old_eval_result_buffer_fits). The transfer functions and the resolver model are tied to the real metafunctions by '
          'generated translation units: for every program (depth 1..3 over 10 leaf kinds) the printed fixed_shape/fixed_dim/fixed_size/bounded_dim/'
          'bounded_size, the shape-type kind and the kind / fixed_size / bounded_size of the eval result type must equal the Lean prediction, and for every '
          'run-time shape the type admits they must agree with the object and with NumPy, and eval must return the whole result.'),
    note=('Lean kernel + propext/Classical.choice/Quot.sound. The C++ template level itself is not verified: the transfer functions are a hand-written mirror, '
          'compared with the compiler-computed traits on every generated program. Open finding C11.where-tripled-fixed-size: view::where inherits the decorator '
          'default that ADDS the sizes of its three broadcast operands; when the broadcast size is a compile-time constant but the shape is not, fixed_size_v is '
          '3x the real size and eval returns garbage (where_counterexample; repair in fixes/C11-where-size-of-broadcast-operand.diff); where_static_sound holds '
          'outside that class. matmul of two constant-shape operands reports fixed_size 4 next to bounded_size 36 (sound; SizeK.knownB). '
          'Three metafunctions that read the maxima of a clipped shape as its extents '
          '(broadcast_shape, shape_take, shape_squeeze) were found earlier and repaired (fixes/C11-*.diff). Kind combinations that do not compile are excluded '
          '(harness/c11_uncompilable.txt). Open finding C11.old-resolver-operand-container: a bare array::eval(view) (older resolver eval_t, the default '
          'resolver_t) takes the operand type for the result; a view of higher rank / larger size than the operand container admits comes back as a '
          'default-constructed array (old_eval_counterexample; repair proposal fixes/C11-old-resolver-operand-container.diff, not applied).'),
    technique='Lean 4 soundness proof of an abstract interpretation + differential correspondence on generated kind-matrix translation units')

_cache = {}
OLD_HARNESS = 'h_c11_old'


def _setup(tier):
    if tier in _cache:
        return _cache[tier]
    progs = G.build_programs(tier)
    tus = G.write_tus(progs, tier, GEN_DIR)
    _cache[tier] = (progs, tus)
    return _cache[tier]


def harness_specs(tier):
    progs, tus = _setup(tier)
    specs = [dict(name=name, src=path, flavour='fast') for name, path, ids in tus]
    specs.append(dict(name=OLD_HARNESS, src=os.path.join(runner.ROOT, 'harness', 'h_c11_old.cpp'), flavour='fast'))
    specs.append(dict(name='h_c16_bd', src=os.path.join(runner.ROOT, 'harness', 'h_c16_bd.cpp'), flavour='fast'))
    # compile-heavy: build here with bounded parallelism; the runner's own (16-way) build then only finds cache hits
    t0 = time.time()
    with ThreadPoolExecutor(max_workers=C11_JOBS) as ex:
        list(ex.map(lambda s: runner.harness_build(s['name'], s['src'], s['flavour']), specs))
    return specs


# ------------------------------------------------------------------------------------------------
# answers:   impl   ok sk=.. fs=.. fd=.. fz=.. bd=.. bz=.. shape=.. dim=.. size=.. ev=.. rk=.. rfz=.. rbz=.. n=.. h=.. hk=..
#            oracle T shape=.. h=..
#            model  M sk=.. fs=.. fd=.. fz=.. bd=.. bz=.. shape=..
# ------------------------------------------------------------------------------------------------

def fields(ans):
    return dict(kv.split('=', 1) for kv in ans.split(' ')[1:] if '=' in kv)


def ints(s):
    return [] if s in ('[]', '') else [int(x) for x in s.split(',')]


def sound(st, T):
    """the static knowledge `st` (dict with sk fs fd fz bd bz) is true of the run-time shape T; returns list of complaints."""
    bad = []
    n = G.prod(T)
    if st['fs'] != '-' and ints(st['fs']) != T:
        bad.append('fixed_shape=%s but run-time shape=%s' % (st['fs'], G.fmt(T)))
    if st['fd'] != '-' and int(st['fd']) != len(T):
        bad.append('fixed_dim=%s but run-time dim=%d' % (st['fd'], len(T)))
    if st['fz'] != '-' and int(st['fz']) != n:
        bad.append('fixed_size=%s but run-time size=%d' % (st['fz'], n))
    if st['bd'] != '-' and len(T) > int(st['bd']):
        bad.append('bounded_dim=%s < run-time dim=%d' % (st['bd'], len(T)))
    if st['bz'] != '-' and n > int(st['bz']):
        bad.append('bounded_size=%s < run-time size=%d' % (st['bz'], n))
    sk = st.get('sk', 'd')
    if sk.startswith('c:') and ints(sk[2:]) != T:
        bad.append('constant shape type %s but run-time shape=%s' % (sk, G.fmt(T)))
    if sk.startswith('l:'):
        b = ints(sk[2:])
        if len(b) != len(T) or any(t > m for t, m in zip(T, b)):
            bad.append('clipped shape type %s does not admit run-time shape=%s' % (sk, G.fmt(T)))
    if sk.startswith('f:') and int(sk[2:]) != len(T):
        bad.append('fixed-length shape type %s but run-time dim=%d' % (sk, len(T)))
    if sk.startswith('b:') and len(T) > int(sk[2:]):
        bad.append('bounded shape type %s < run-time dim=%d' % (sk, len(T)))
    return bad


def judge_impl_oracle(impl, oracle):
    """everything the property demands of IMPL on this instance, given the reference run-time shape."""
    if impl == 'nothing':
        return ['refused']          # no object exists: nothing to agree with (counted, see post)
    if not impl.startswith('ok '):
        return ['impl answered ' + impl]
    f = fields(impl); T = ints(fields(oracle)['shape'])
    bad = []
    if ints(f['shape']) != T or int(f['dim']) != len(T) or int(f['size']) != G.prod(T):
        bad.append('run-time shape/dim/size %s/%s/%s differ from reference %s' % (f['shape'], f['dim'], f['size'], G.fmt(T)))
    bad += sound(f, T)
    if f['ev'] != 'ok':
        bad.append('evaluation lost part of the result: ev=' + f['ev'])
    if f['hk'] != '0':
        # kind 2 (clamp) also fires while a result array with clipped shape is default-constructed (transient state, C20);
        # a clamp that changes a result shows as a shape difference above.  Kinds 1 and 3 never happen on a sound run.
        e = f['hk'].split('/')
        if e[0] != '0' or e[2] != '0':
            bad.append('over-capacity request ignored / evaluator skipped the output: hk=' + f['hk'])
    return bad


STATIC_KEYS = ('sk', 'fs', 'fd', 'fz', 'bd', 'bz')
RESULT_KEYS = ('rk', 'rfz', 'rbz')


def _who(a):
    return 'T' if a.startswith('T ') else ('M' if a.startswith('M ') else 'I')


def cmp(a, b):
    ka, kb = _who(a), _who(b)
    if (ka, kb) == ('I', 'T'):
        return judge_impl_oracle(a, b) in ([], ['refused'])
    if (ka, kb) == ('I', 'M'):
        if a == 'nothing':
            return True
        if not a.startswith('ok ') or not b.startswith('M sk='):
            return False
        fa, fb = fields(a), fields(b)
        # static knowledge of the view type, run-time shape, and the container chosen by the eval resolver
        return all(fa[k] == fb[k] for k in STATIC_KEYS) and fa['shape'] == fb['shape'] and all(fa[k] == fb[k] for k in RESULT_KEYS)
    if (ka, kb) == ('M', 'T'):
        if not a.startswith('M sk='):
            return False
        fa, fb = fields(a), fields(b)
        return fa['shape'] == fb['shape'] and sound(fa, ints(fb['shape'])) == []
    return a == b


def gen(tier, rng):
    progs, tus = _setup(tier)
    home = {}
    for name, path, ids in tus:
        for i in ids:
            home[i] = name
    many = tier != 'quick'
    cap = 10 if tier == 'quick' else 24
    for p in progs:
        nominal = None
        for k, (shapes, rargs, r) in enumerate(G.instances(p, rng, many, cap)):
            T = list(r.shape)
            if nominal is None:
                nominal = T
            req = 'prog id=%d e=%s shapes=%s' % (p.id, p.text(), ';'.join(G.fmt(s) for s in shapes))
            if rargs:
                req += ' rargs=' + ';'.join(G.fmt(x) for x in rargs)
            oracle = 'T shape=%s h=%d' % (G.fmt(T), G.data_hash(r))
            tags = ['depth=%d' % p.depth, 'root=' + p.root.name] + ['leaf=' + l.kind for l in p.leaves] + (['modelled'] if p.modelled() else ['unmodelled'])
            modelled = p.modelled()
            mreq = 'c11 rpn=%s shapes=%s' % (p.rpn(), ';'.join(G.fmt(s) for s in shapes))
            if rargs:
                mreq += ' rargs=' + ';'.join(G.fmt(x) for x in rargs)
            c = Case(req, home[p.id], dom=True, oracle=oracle, model=modelled, mreq=mreq, nontrivial=(T != nominal or p.depth >= 2), tags=tags, cmp=cmp)
            if where_tripled_fixed_size(c):
                c.dom = False       # known-defect region: the model mirrors the unsound trait, NumPy is the judge
            yield c
    for c in gen_old(tier, rng):
        yield c
    # dot / matmul / inner / kron / tensordot over operands whose rank is only bounded (the grammar above has no linalg
    # nodes): the rank bound of the result type and of the helper index results must cover the run-time rank (C16's unit)
    import props.c16 as c16
    for c in c16.bounded_rank_cases(tier, scale=2):
        c.tags = tuple(c.tags) + ('linalg-bounded-rank',)
        yield c


# ------------------------------------------------------------------------------------------------
# the OLDER resolver: a bare array::eval(view) (harness/h_c11_old.cpp, driver op c11old)
#   impl   ok shape=.. ork=.. orfz=.. orbz=.. oev=ok|shape:..|elem:..|count:.. hk=..
#   model  M shape=.. ork=.. orfz=.. orbz=.. covers=0|1 fits=0|1
#   oracle T shape=..
# ------------------------------------------------------------------------------------------------

# leaf kind -> (shape container, data buffer) as the older resolver sees them
OLD_LEAF = {'fd2': (('f', 2), 'd'), 'fd3': (('f', 3), 'd'), 'bd3': (('b', 3), 'd'), 'dy': (('d',), 'd'),
            'cs23': (('c', (2, 3)), ('F', 6)), 'fdf23': (('f', 2), ('F', 6)), 'cld23': (('l', (2, 3)), 'd')}
OLD_SHAPES = {'fd2': [(2, 3), (1, 4), (3, 1)], 'bd3': [(3,), (2, 3), (2, 3, 2), (1, 1, 1)], 'dy': [(3,), (2, 3), (2, 1, 2, 3)],
              'cs23': [(2, 3)], 'fdf23': [(2, 3), (3, 2), (6, 1), (1, 6)], 'cld23': [(2, 3), (1, 3), (2, 1), (1, 1)]}
OLD_PAIRS = [('fd2', 'fd2', (2, 3), (1, 3)), ('bd3', 'dy', (3,), (2, 2, 2, 3)), ('bd3', 'dy', (2, 3), (2, 3)), ('bd3', 'dy', (2, 3), (4, 2, 3)),
             ('bd3', 'dy', (1, 3), (2, 1, 2, 1)), ('dy', 'bd3', (2, 2, 2, 3), (3,)), ('dy', 'bd3', (2, 3), (2, 3)), ('cs23', 'dy', (2, 3), (4, 2, 3)),
             ('cs23', 'fd2', (2, 3), (1, 3)), ('dy', 'dy', (2, 1), (4, 1, 3))]


def _old_np(op, a, b=None):
    import numpy as np
    if op == 'neg':
        return -a
    if op == 'tr':
        return np.transpose(a)
    if op == 'tile2':
        return np.tile(a, [2] * (a.ndim + 1))
    if op == 'tileN':
        return np.tile(a, [1] * (a.ndim - 1) + [2])
    if op == 'exp0':
        return np.expand_dims(a, 0)
    if op == 'add':
        return a + b
    raise ValueError(op)


def _old_container(op, kind, kind2=None):
    """mirror of NmVerif.Static.resolveEvalOld1/2: the (shape container, buffer) the older resolver picks; None = vector/vector"""
    if op == 'add':
        for k in (kind, kind2):
            if OLD_LEAF[k][0][0] != 'c':
                return OLD_LEAF[k]
        return None
    sh, buf = OLD_LEAF[kind]
    if sh[0] == 'c':
        return None
    op_fd = sh[1] if sh[0] == 'f' else (len(sh[1]) if sh[0] == 'l' else None)
    view_fd = None if (op_fd is None or op == 'tile2') else (op_fd + 1 if op == 'exp0' else op_fd)
    if (op_fd is None and view_fd is None) or (op_fd is not None and op_fd == view_fd):
        return (sh, buf)
    return None


def _old_fits(cont, T):
    if cont is None:
        return True
    sh, buf = cont
    ok = {'d': lambda: True, 'f': lambda: len(T) == sh[1], 'b': lambda: len(T) <= sh[1],
          'l': lambda: len(T) == len(sh[1]) and all(t <= m for t, m in zip(T, sh[1])), 'c': lambda: tuple(T) == tuple(sh[1])}[sh[0]]()
    return ok and (buf == 'd' or G.prod(T) == buf[1])


def _old_parse(req):
    a = dict(kv.split('=', 1) for kv in req.split(' ')[1:] if '=' in kv)
    return a


def old_resolver_operand_container(case):
    """input class of C11.old-resolver-operand-container: requests to the bare array::eval(view) whose result type is the
    operand's own type (older resolver: dynamic view over a non-constant-shape operand, fixed-dim flags agreeing) while the
    run-time result shape / size is not admitted by that operand container (rank above the capacity of its shape container,
    an extent above a clipped maximum, a size different from its fixed buffer)."""
    if not case.req.startswith('old '):
        return False
    a = _old_parse(case.req)
    import numpy as np
    try:
        x = np.zeros(ints(a['shape']), dtype=np.int64)
        y = np.zeros(ints(a['shape2']), dtype=np.int64) if 'shape2' in a else None
        T = list(_old_np(a['op'], x, y).shape)
    except Exception:
        return False
    return not _old_fits(_old_container(a['op'], a['kind'], a.get('kind2')), T)


def cmp_old(a, b):
    ka, kb = _who(a), _who(b)
    if (ka, kb) == ('I', 'T'):
        if not a.startswith('ok '):
            return False
        f = fields(a)
        return f['shape'] == fields(b)['shape'] and f['oev'] == 'ok' and f['hk'].split('/')[0] == '0'
    if (ka, kb) == ('I', 'M'):
        if not a.startswith('ok ') or not b.startswith('M shape='):
            return False
        fa, fb = fields(a), fields(b)
        return all(fa[k] == fb[k] for k in ('shape', 'ork', 'orfz', 'orbz')) and (fa['oev'] == 'ok') == (fb['fits'] == '1')
    if (ka, kb) == ('M', 'T'):
        if not a.startswith('M shape='):
            return False
        fa = fields(a)
        return fa['shape'] == fields(b)['shape'] and fa['fits'] == '1'
    return a == b


def gen_old(tier, rng):
    import numpy as np
    reqs = []
    for kind, shapes in OLD_SHAPES.items():
        shapes = list(shapes)
        if kind in ('dy', 'bd3'):
            shapes += [tuple(rng.randint(1, 3) for _ in range(rng.randint(1, 3))) for _ in range(2 if tier == 'quick' else 6)]
        if kind == 'fd2':
            shapes += [tuple(rng.randint(1, 4) for _ in range(2)) for _ in range(2 if tier == 'quick' else 6)]
        for op in ('neg', 'tr', 'tile2', 'exp0', 'tileN'):
            if op == 'tileN' and kind in ('bd3', 'dy'):
                continue
            for s in shapes:
                reqs.append((op, kind, s, None, None))
    for k1, k2, s1, s2 in OLD_PAIRS:
        reqs.append(('add', k1, s1, k2, s2))
    seen = set()
    for op, kind, s, k2, s2 in reqs:
        if (op, kind, s, k2, s2) in seen:
            continue
        seen.add((op, kind, s, k2, s2))
        x = np.zeros(s, dtype=np.int64); y = np.zeros(s2, dtype=np.int64) if s2 is not None else None
        T = list(_old_np(op, x, y).shape)
        tail = 'op=%s kind=%s shape=%s' % (op, kind, G.fmt(s)) + ('' if k2 is None else ' kind2=%s shape2=%s' % (k2, G.fmt(s2)))
        c = Case('old ' + tail, OLD_HARNESS, dom=True, oracle='T shape=%s' % G.fmt(T), model=True, mreq='c11old ' + tail,
                 nontrivial=(T != list(s)), tags=['old-resolver', 'root=' + op, 'leaf=' + kind], cmp=cmp_old)
        if old_resolver_operand_container(c):
            c.dom = False       # known-defect region: the model mirrors the resolver, NumPy is the judge
        yield c


def post(cases, tier):
    """guards of the machinery itself: a refusal (`nothing`) is no disagreement, but wholesale refusal would empty the check"""
    out = []
    ran = [c for c in cases if c.impl not in (None, 'no-harness') and 'kind-slice' not in c.tags and 'refused-by-numpy' not in c.tags]     # the kind slice contains refused requests on purpose
    refused = [c for c in ran if c.impl == 'nothing']
    if ran and len(refused) * 20 > len(ran):
        out.append(('refusals', 'IMPL refused (Nothing) %d of %d instances NumPy accepts, e.g. %s: the static knowledge of those types is not exercised' % (
            len(refused), len(ran), refused[0].req), {'cases': [c.req for c in refused[:20]], 'count': len(refused)}, False))
    return out


def coverage_extra(cases, tier):
    refused = sum(1 for c in cases if c.impl == 'nothing' and 'kind-slice' not in c.tags and 'refused-by-numpy' not in c.tags)
    agree = total = 0
    for c in cases:
        if c.impl and c.impl.startswith('ok ') and c.oracle:
            total += 1
            if fields(c.impl).get('h') == fields(c.oracle).get('h'):
                agree += 1
    progs, tus = _setup(tier)
    clamp = sum(1 for c in cases if c.impl and c.impl.startswith('ok ') and fields(c.impl).get('hk', '0').split('/')[1:2] not in ([], ['0']))
    return {'programs_by_depth': {str(d): sum(1 for p in progs if p.depth == d) for d in (1, 2, 3)},
            'programs_with_lean_transfer': sum(1 for p in progs if p.modelled()),
            'instances_with_clamp_events(kind 2, informational)': clamp,
            'programs': len(progs), 'translation_units': len(tus), 'instances_refused_by_impl(nothing)': refused,
            'view_data_equal_numpy': '%d/%d' % (agree, total), 'uncompilable_programs_excluded': len(G.load_skip())}


# the three findings of round 1 (broadcast_shape / shape_take / shape_squeeze over clipped shapes) are repaired in /repo
# (fixes/C11-*.diff).  Open: the decorator default ADDS the sizes of the three broadcast operands of view::where.
_WHERE_LEAVES = re.compile(r'^where\(([a-z]+)\[([0-9,]+)\](?:,([a-z]+)\[([0-9,]+)\])?;([abs]{3})\)$')
_CONST_KINDS = ('cs', 'fx')
_CLIPPED_KINDS = ('cl', 'cld', 'cla')


def _size_kind(kind, P):
    """size type of `size<true>(leaf)`: ('known', n) | ('atMost', n) | ('any',)"""
    if kind in ('cs', 'fx', 'fdf'):
        return ('known', G.prod(P))
    if kind in ('cl', 'cld', 'fdh'):
        return ('atMost', G.prod(P))
    if kind == 'cla':
        return ('atMost', max(P) ** len(P))
    return ('any',)


def _bsize_step(z1, z2):
    """mirror of NmVerif.Static.bsizeStep (broadcast_shape.hpp:544-556)"""
    if z1 == ('known', 1) and z2[0] in ('known', 'atMost'):
        return z2
    if z1[0] in ('known', 'atMost') and z2 == ('known', 1):
        return z1
    return ('any',)


def where_tripled_fixed_size(case):
    """input class of C11.where-tripled-fixed-size for depth-1 programs `where(c, x, y)` over leaf arrays and number literals
    (mirror of NmVerif.Static.whereTripled): the broadcast shape type is not a tuple of constants / clipped integers (some
    array operand has a run-time shape) while the fold of index::broadcast_size over the operands' size types ends in a
    compile-time constant - all operands but one have size type ct<1> (number literals, one-element fixed arrays) and that one
    has a fixed-size buffer.  fixed_size_v of the view is then 3 x that constant."""
    m = re.search(r' e=(\S+) shapes=', case.req)
    if not m:
        return False
    w = _WHERE_LEAVES.match(m.group(1))
    if not w:
        return False
    leaves = {'a': (w.group(1), ints(w.group(2)))}
    if w.group(3):
        leaves['b'] = (w.group(3), ints(w.group(4)))
    ops = [leaves.get(ch) for ch in w.group(5)]          # None = number literal
    if any(ch != 's' and leaves.get(ch) is None for ch in w.group(5)):
        return False
    arrays = [o for o in ops if o is not None]
    if all(k in _CONST_KINDS + _CLIPPED_KINDS for k, _ in arrays):
        return False            # constant or clipped broadcast shape: the size comes from the shape type
    z = None
    for o in ops:
        zo = ('known', 1) if o is None else _size_kind(*o)
        z = zo if z is None else _bsize_step(z, zo)
    return z[0] == 'known'


KNOWN_PREDICATES = {'where_tripled_fixed_size': where_tripled_fixed_size,
                    'old_resolver_operand_container': old_resolver_operand_container}
