#!/bin/sh
# usage: validate_suite.sh <tree> <log-prefix> [jobs]
# configures (same options as /repo/_build), builds and runs the baseline test-suite of <tree>; prints doctest summaries
T="$1"; L="$2"; J="${3:-8}"
ARGS=$(grep -E "^(NMTOOLS_[A-Z_]+|CMAKE_BUILD_TYPE|CMAKE_CXX_FLAGS|BUILD_[A-Z_]+):" /repo/_build/CMakeCache.txt | sed -E 's/^([^:]+):([A-Z]+)=(.*)$/-D\1:\2=\3/' | grep -v INSTALL_DIR | tr '\n' ' ')
cmake -G Ninja -S "$T" -B "$T/_build" $ARGS > "$L.cmake.log" 2>&1 || { echo CONFIGURE_FAILED; exit 2; }
# ninja stops at the first failure; an OOM-killed compiler is not a real error: retry (incremental) a few times
for try in 1 2 3 4; do
  nice -n 10 cmake --build "$T/_build" -j"$J" > "$L.build.log" 2>&1; rc=$?
  [ $rc -eq 0 ] && break
  grep -q "Killed signal" "$L.build.log" || break
  sleep 60
done
echo "BUILD_EXIT=$rc" >> "$L.build.log"
ctest --test-dir "$T/_build" -j8 --timeout 900 > "$L.ctest.log" 2>&1; echo "CTEST_EXIT=$?" >> "$L.ctest.log"
for b in tests/array/numeric-tests-doctest tests/meta/numeric-tests-doctest-meta tests/utility/numeric-tests-utility-doctest tests/utl/utl/numeric-tests-utl; do
  echo "$b: $("$T/_build/$b" 2>&1 | grep 'test cases' | tr -s ' ')" >> "$L.ctest.log"; done
tail -12 "$L.ctest.log"
