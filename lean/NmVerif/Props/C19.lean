import NmVerif.Containers.Core
import NmVerif.Containers.Spec
import NmVerif.Containers.Vector
namespace NmVerif.Props.C19
open NmVerif NmVerif.Containers

/-- operations on other slots leave an object untouched -/
theorem frame (I : Impl σ α) (w : World σ) (h : List (Op α)) (k : Nat) (hk : ∀ op ∈ h, op.target ≠ k) :
    (run I w h).objs k = w.objs k := run_frame I w h k hk

end NmVerif.Props.C19
