import NmVerif.Index.Roll
import NmVerif.Lemmas.SelCommon
import NmVerif.Lemmas.Addressing
/-
  SPEC of np.roll and proofs that the MODEL meets it for every shift (positive extents).
  NumPy: `np.roll(a, shift, axis=k)[…, x, …] = a[…, (x - shift) mod n, …]` (`n` the extent; Python's non-negative mod);
         axis None rolls the flattened array and restores the shape.
-/
namespace NmVerif.Index

/-- NumPy: source position of destination position `x` on an axis of extent `n` rolled by `shift` -/
def rollSrc (n x : Nat) (shift : Int) : Nat := (((x : Int) - shift) % (n : Int)).toNat

theorem rollSrc_lt (n x : Nat) (shift : Int) (hn : 0 < n) : rollSrc n x shift < n := by
  unfold rollSrc
  have h1 := Int.emod_nonneg ((x : Int) - shift) (by omega : (n : Int) ≠ 0)
  have h2 := Int.emod_lt_of_pos ((x : Int) - shift) (by omega : (0 : Int) < n)
  omega

/-- C++ `%` followed by the sign correction is the mathematical modulo, for every shift (extent positive) -/
theorem normalizeRollIndex_eq (n : Nat) (a : Int) (hn : 0 < n) :
    normalizeRollIndex a n = a % (n : Int) := by
  have hpos : (0 : Int) < n := by omega
  have h1 := Int.emod_nonneg a (by omega : (n : Int) ≠ 0)
  have h2 := Int.emod_lt_of_pos a hpos
  have h := @Int.tmod_eq_emod a (n : Int)
  simp only [normalizeRollIndex]
  by_cases hc : 0 ≤ a ∨ (n : Int) ∣ a
  · rw [if_pos hc] at h
    rw [h]
    split <;> omega
  · rw [if_neg hc] at h
    have habs : (n : Int).natAbs = n := by omega
    rw [habs] at h
    rw [h]
    split <;> omega

theorem i2u_normalizeRollIndex (n x : Nat) (shift : Int) (hn : 0 < n) :
    i2u (normalizeRollIndex ((x : Int) - shift) n) = rollSrc n x shift := by
  rw [normalizeRollIndex_eq n _ hn, i2u_of_nonneg _ (Int.emod_nonneg _ (by omega))]
  rfl

theorem normalizeAxis1_some (axis : Int) (n k : Nat) (h : normalizeAxis1 axis n = some k) :
    k < n ∧ posPy n axis = some k := by
  unfold normalizeAxis1 at h
  split at h
  · simp at h
  · rename_i hr
    split at h
    · rename_i hneg
      simp only [Option.some.injEq] at h
      subst h
      refine ⟨by omega, ?_⟩
      rw [posPy_neg n axis hneg (by omega)]
    · rename_i hneg
      simp only [Option.some.injEq] at h
      subst h
      refine ⟨by omega, ?_⟩
      have : ¬ axis < 0 := hneg
      simp [posPy, this]

theorem normalizeAxis1_none (axis : Int) (n : Nat) (h : axis < -(n : Int) ∨ (n : Int) ≤ axis) :
    normalizeAxis1 axis n = none := by
  simp [normalizeAxis1, h]

/-- one accepted axis: the loop writes `rollSrc` at the normalised position -/
theorem indexRollU_single (s : Shape) (d : Idx) (shift axis : Int) (k : Nat)
    (hk : normalizeAxis1 axis s.length = some k) (hd : InShape d s) :
    indexRollU s d [shift] [axis] = some (d.set k (rollSrc (s[k]'(normalizeAxis1_some axis _ k hk).1) (d[k]'(by
      have := hd.length_eq; have := (normalizeAxis1_some axis _ k hk).1; omega)) shift)) := by
  obtain ⟨hkn, hpos⟩ := normalizeAxis1_some axis _ k hk
  have hl := hd.length_eq
  have hkd : k < d.length := by omega
  have hxk : d[k] < s[k] := ((inShape_iff_forall _ _).1 hd).2 k hkd hkn
  simp only [indexRollU, indexRollLoop, atPy, hpos, hl, Option.bind_some]
  simp only [List.getElem?_eq_getElem hkn, List.getElem?_eq_getElem hkd, setPy, hl, hpos]
  rw [i2u_normalizeRollIndex s[k] d[k] shift (by omega)]

end NmVerif.Index

namespace NmVerif.Index

/-- `ks` are the normalised (`normalize_axis`) positions of the accepted axis list `axes` of an array of rank `n` -/
inductive AxesNorm (n : Nat) : List Int → List Nat → Prop
  | nil : AxesNorm n [] []
  | cons {ax : Int} {k : Nat} {axes : List Int} {ks : List Nat} :
      normalizeAxis1 ax n = some k → AxesNorm n axes ks → AxesNorm n (ax :: axes) (k :: ks)

/-- one step of the axis loop on accepted arguments -/
theorem indexRollLoop_cons (s : Shape) (d : Idx) (hd : InShape d s) (ax : Int) (axes : List Int) (sh : Int) (shifts : List Int)
    (res : Idx) (hres : res.length = d.length) (k : Nat) (hk : normalizeAxis1 ax s.length = some k)
    (n x : Nat) (hn : s[k]? = some n) (hx : d[k]? = some x) :
    indexRollLoop s d (ax :: axes) (sh :: shifts) res =
      indexRollLoop s d axes shifts (res.set k (rollSrc n x sh)) := by
  obtain ⟨hkn, hpos⟩ := normalizeAxis1_some ax _ k hk
  have hl := hd.length_eq
  have hkd : k < d.length := by omega
  have e1 : s[k] = n := by simpa [hkn] using hn
  have e2 : d[k] = x := by simpa [hkd] using hx
  have hxk : x < n := by
    have := ((inShape_iff_forall _ _).1 hd).2 k hkd hkn
    omega
  simp only [indexRollLoop, atPy, hpos, hl, Option.bind_some, hn, hx, setPy, hres]
  rw [i2u_normalizeRollIndex n x sh (by omega)]

/-- the axis loop with pairwise distinct accepted axes: every listed axis gets NumPy's source position, the others are copied -/
theorem indexRollLoop_spec (s : Shape) (d : Idx) (hd : InShape d s) :
    ∀ (axes : List Int) (ks : List Nat) (shifts : List Int) (res : Idx),
      AxesNorm s.length axes ks →
      shifts.length = axes.length →
      res.length = d.length →
      ∃ r, indexRollLoop s d axes shifts res = some r ∧ r.length = d.length ∧
        ∀ j, (j ∉ ks → r[j]? = res[j]?) ∧
          (ks.Nodup → ∀ (i : Nat) (sh : Int), ks[i]? = some j → shifts[i]? = some sh →
            ∃ n x : Nat, s[j]? = some n ∧ d[j]? = some x ∧ r[j]? = some (rollSrc n x sh)) := by
  intro axes
  induction axes with
  | nil =>
    intro ks shifts res hf _ hres
    cases hf
    exact ⟨res, by simp [indexRollLoop], hres, fun j => ⟨fun _ => rfl, fun _ i sh hi => by simp at hi⟩⟩
  | cons ax axes ih =>
    intro ks shifts res hf hlen hres
    cases hf with
    | cons hk hf' =>
      rename_i k ks'
      cases shifts with
      | nil => simp at hlen
      | cons sh shifts' =>
        obtain ⟨hkn, _⟩ := normalizeAxis1_some ax _ k hk
        have hn : s[k]? = some s[k] := by simp [hkn]
        have hl := hd.length_eq
        have hkd : k < d.length := by omega
        have hx : d[k]? = some d[k] := by simp [hkd]
        rw [indexRollLoop_cons s d hd ax axes sh shifts' res hres k hk s[k] d[k] hn hx]
        obtain ⟨r, hr, hrl, hspec⟩ := ih ks' shifts' (res.set k (rollSrc s[k] d[k] sh)) hf' (by simpa using hlen) (by simpa using hres)
        refine ⟨r, hr, hrl, fun j => ⟨?_, ?_⟩⟩
        · intro hj
          simp only [List.mem_cons, not_or] at hj
          rw [(hspec j).1 hj.2, List.getElem?_set]
          simp [Ne.symm hj.1]
        · intro hnd i sh'' hi hs
          simp only [List.nodup_cons] at hnd
          cases i with
          | zero =>
            simp only [List.getElem?_cons_zero, Option.some.injEq] at hi hs
            subst hi hs
            refine ⟨s[k], d[k], hn, hx, ?_⟩
            rw [(hspec k).1 hnd.1, List.getElem?_set]
            simp [hres, hkd]
          | succ i =>
            exact (hspec j).2 hnd.2 i sh'' (by simpa using hi) (by simpa using hs)

end NmVerif.Index

namespace NmVerif.Index

theorem AxesNorm.length_eq {n : Nat} {axes : List Int} {ks : List Nat} (h : AxesNorm n axes ks) : ks.length = axes.length := by
  induction h with
  | nil => rfl
  | cons _ _ ih => simp [ih]

theorem shapeRoll_of_axesNorm (s : Shape) (axes : List Int) (ks : List Nat) (h : AxesNorm s.length axes ks) :
    shapeRoll s axes = some s := by
  have : axes.all (fun a => (normalizeAxis1 a s.length).isSome) = true := by
    induction h with
    | nil => rfl
    | cons hk _ ih => simp [hk, ih]
  simp [shapeRoll, this]

end NmVerif.Index
