import NmVerif.Proto
import NmVerif.Containers.NDArrayObj
import NmVerif.Arr
namespace NmVerif.Driver.C20
open NmVerif NmVerif.Proto NmVerif.NDObj

def cfgOf : String → Option Cfg
  | "dd" => some ⟨.dyn, .dyn, false⟩
  | "ddc" => some ⟨.dyn, .dyn, true⟩
  | "fd6" => some ⟨.dyn, .fixed 6, false⟩
  | "fd6c" => some ⟨.dyn, .fixed 6, true⟩
  | "df2" => some ⟨.fixedDim 2, .dyn, false⟩
  | "df3c" => some ⟨.fixedDim 3, .dyn, true⟩
  | "bb" => some ⟨.bounded 3, .bounded 8, false⟩
  | "db3" => some ⟨.bounded 3, .dyn, false⟩
  | "b8d" => some ⟨.dyn, .bounded 8, false⟩
  | "ff" => some ⟨.fixedDim 2, .fixed 6, false⟩
  | "hyb" => some ⟨.fixedDim 2, .bounded 8, false⟩     -- hybrid_ndarray<int,8,2>
  | "dyn" => some ⟨.dyn, .dyn, false⟩                   -- dynamic_ndarray<int>
  | _ => none

def parseOp (s : String) : Option Op :=
  match s.splitOn ":" with
  | ["resize", a] => (parseNats a).map Op.resize
  | ["fill", a] => a.toInt?.map Op.fill
  | ["write", a, b] => do let i ← parseNats a; let v ← b.toInt?; pure (Op.write i v)
  | _ => none

def fmtState (st : St) (r : Bool) (nd : Nat) : String :=
  s!"r={if r then 1 else 0} shape={fmtNats st.shape} strides={fmtNats (reportedStrides st)} n={st.data.length} data={fmtInts (st.data.take nd)}"

def handle : Handler := fun op a =>
  match op with
  | "ndobj" => orBad do
      let kind ← a.get? "kind"
      let c ← cfgOf kind
      let legacy := kind == "hyb" || kind == "dyn"
      let opss ← a.get? "ops"
      let segs := opss.splitOn ";"
      let rec go (st : St) (tracked : Nat) (l : List String) (acc : List String) : Option (List String) :=
        match l with
        | [] => some acc.reverse
        | "copy" :: rest => go st tracked rest (fmtState st true st.data.length :: acc)
        | "probe" :: rest =>
            -- write 100+k at the k-th multi-index (row-major enumeration) over a buffer of -1
            let blank : St := { st with data := List.replicate st.data.length (-1) }
            let st' := (List.range (prod st.shape)).foldl (fun s k => write s (ndindex st.shape k) (100 + (k : Int))) blank
            go st' st'.data.length rest (fmtState st' true st'.data.length :: acc)
        | s :: rest => do
            let o ← parseOp s
            let (st', r) := step c st o
            let nd := match o with
              | .resize _ => if r then min tracked st'.data.length else st'.data.length
              | _ => st'.data.length
            go st' st'.data.length rest (fmtState st' r nd :: acc)
      let out ← go (init c) (if legacy then 0 else (init c).data.length) segs []
      pure ("ok " ++ " | ".intercalate out)
  | "mview" => orBad do
      -- write through a mutable view (source data[k]=k, row-major); report the source buffer afterwards
      let kind ← a.get? "kind"
      let s ← a.nats "shape"
      let i ← a.nats "idx"
      let v ← a.int "v"
      let n := prod s
      let src : St := { shape := s, strides := strides s, data := (List.range n).map (fun (k : Nat) => (k : Int)) }
      -- destination index -> source index: both reshape and flatten keep the flat position (ref: identity)
      let srcIdx ← match kind with
        | "ref" => some i
        | "flatten" => (match i with | [k] => some (ndindex s k) | _ => none)
        | "reshape" => do
            let to ← a.nats "to"
            if prod to ≠ n then none else some (ndindex s (computeOffset i (strides to)))
        | _ => none
      pure s!"ok data={fmtInts (write src srcIdx v).data}"
  | _ => none

end NmVerif.Driver.C20
