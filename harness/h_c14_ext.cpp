// C14 harness (c): extraction on views of depth 1..4.
//   c14_extract prog=<name> shapes=<s0;s1;..> <attributes>
//     -> ok leaves=<for every extracted operand: index of the host leaf array with the same ADDRESS, -1 if none>
//           nfun=<number of functors in get_function_composition(view)>  arity=<its static arity>
//           shape= data=      host evaluation of the view
//           ashape= adata=    evaluation of fn::apply(get_function_composition(view), get_function_operands(view))
//     a NUMBER literal operand (held by value in the operand tuple) is identified by its value: index `litidx` of the request
//   c14_graph prog=<name> shapes=..   -> ok nodes=<id:L<leaf index> | id:F<arity>[operand ids]>,... edges=<src>dst>,...
//   c14_alias ids=<list>              -> ok <index::generate_alias(ids)>
// One source, several TUs (-DC14_GROUP=n); graph extraction is compiled only for the programs marked GRAPH.
#include "c13_kernel.hpp"
#include "nmtools/array/view/cumsum.hpp"
#include "nmtools/array/view/vstack.hpp"
#include "nmtools/array/view/alias.hpp"
#include "nmtools/array/index/alias.hpp"
#include "nmtools/array/view/activations/leaky_relu.hpp"
#include "nmtools/array/view/activations/elu.hpp"
#include "nmtools/array/view/activations/celu.hpp"
#include "nmtools/array/view/activations/hardtanh.hpp"
#include "nmtools/array/view/activations/softplus.hpp"
#include "nmtools/array/view/activations/hardshrink.hpp"
#include "nmtools/array/view/activations/softshrink.hpp"
#include "nmtools/array/view/activations/prelu.hpp"
using namespace c13;
using namespace nmtools::literals;

#ifndef C14_GROUP
#error "C14_GROUP not set"
#endif

template <typename T> struct is_node : std::false_type {};
template <typename F, typename O, typename S, typename E> struct is_node<fn::node_t<F,O,S,E>> : std::true_type {};

template <typename tuple_t> static std::string ct_ids(const tuple_t& t) {
    std::string s;
    meta::template_for<meta::len_v<tuple_t>>([&](auto i){
        auto e = nm::get<decltype(i)::value>(t);
        s += (s.empty() ? "" : "/") + std::to_string((long long)decltype(e)::value);
    });
    return s;
}

template <typename graph_t> static std::string show_graph(const graph_t& g, const std::vector<const void*>& leaves) {
    auto keys = g.digraph.keys();
    constexpr auto N = meta::len_v<decltype(keys)>;
    std::string nodes, edges;
    meta::template_for<N>([&](auto i){
        auto key = nm::get<decltype(i)::value>(keys);
        constexpr long long K = decltype(key)::value;
        auto node = g.nodes(key);
        using node_t = meta::remove_cvref_t<decltype(node)>;
        std::string lab;
        if constexpr (is_node<node_t>::value) {
            lab = "F" + std::to_string((int)meta::len_v<decltype(node.operands)>) + "[" + ct_ids(node.operands) + "]";
        } else if constexpr (meta::is_pointer_v<node_t>) {
            lab = "L-1"; for (size_t j = 0; j < leaves.size(); j++) if ((const void*)node == leaves[j]) lab = "L" + std::to_string(j);
        } else lab = "V";
        nodes += (nodes.empty() ? "" : ",") + std::to_string(K) + ":" + lab;
        auto outs = g.out_edges(key);
        meta::template_for<meta::len_v<decltype(outs)>>([&](auto j){
            auto d = nm::get<decltype(j)::value>(outs);
            edges += (edges.empty() ? "" : ",") + std::to_string(K) + ">" + std::to_string((long long)decltype(d)::value);
        });
    });
    return "ok nodes=" + nodes + " edges=" + (edges.empty() ? "[]" : edges);
}

template <typename T, typename = void> struct has_functors : std::false_type {};
template <typename T> struct has_functors<T, std::void_t<decltype(std::declval<T>().functors)>> : std::true_type {};

template <typename T> static const void* addr_of(const T& op) {
    if constexpr (meta::is_pointer_v<T>) return (const void*)op; else return (const void*)&op;
}

// the number literal of the current program (operand index, value); index -1 = the program has none
static long long g_lit_index = -1, g_lit_value = 0;

template <typename view_t> static std::string extract_(const view_t& v, const std::vector<const void*>& leaves) {
    uvec hshape; std::vector<long long> hdata;
    if (!host_eval(v, hshape, hdata)) return "nothing-eval";
    auto f = fn::get_function_composition(v);
    const auto& operands = fn::get_function_operands(v);
    constexpr auto N = meta::len_v<meta::remove_cvref_t<decltype(operands)>>;
    std::vector<long long> idx;
    meta::template_for<N>([&](auto i){
        const auto& o = nm::get<decltype(i)::value>(operands);
        long long j = -1;
        if constexpr (meta::is_num_v<meta::remove_cvref_t<decltype(o)>>) { if (g_lit_index >= 0 && (long long)o == g_lit_value) j = g_lit_index; }
        else { const void* p = addr_of(o); for (size_t k = 0; k < leaves.size(); k++) if (leaves[k] == p) j = (long long)k; }
        idx.push_back(j);
    });
    size_t nfun = 1;
    using f_t = meta::remove_cvref_t<decltype(f)>;
    if constexpr (has_functors<f_t>::value) nfun = meta::len_v<meta::remove_cvref_t<decltype(f.functors)>>;
    // arity of the extracted function (fn::apply demands arity == number of extracted operands)
    std::string ans = "ok leaves=" + fmt(idx) + " nfun=" + std::to_string(nfun) + " arity=" + std::to_string((long long)f_t::arity)
                    + " shape=" + fmt(hshape) + " data=" + fmt(hdata);
    auto r = fn::apply(f, operands);
    uvec ashape; std::vector<long long> adata;
    if constexpr (meta::is_maybe_v<decltype(r)>) {
        if (!nm::has_value(r)) return ans + " ashape=nothing adata=nothing";
        if (!host_eval(*r, ashape, adata)) return ans + " ashape=nothing adata=nothing";
    } else { if (!host_eval(r, ashape, adata)) return ans + " ashape=nothing adata=nothing"; }
    return ans + " ashape=" + fmt(ashape) + " adata=" + fmt(adata);
}
template <typename view_t> static std::string extract(const view_t& v, const std::vector<const void*>& leaves) {
    if constexpr (meta::is_maybe_v<view_t>) { if (!nm::has_value(v)) return "nothing"; return extract_(*v, leaves); }
    else return extract_(v, leaves);
}
template <typename view_t> static std::string graph(const view_t& v, const std::vector<const void*>& leaves) {
    if constexpr (meta::is_maybe_v<view_t>) { if (!nm::has_value(v)) return "nothing"; return show_graph(fn::get_compute_graph(*v), leaves); }
    else return show_graph(fn::get_compute_graph(v), leaves);
}

#define AXIS ((int)integer(a,"axis"))
#define AXES (intsi(a,"axes"))
#define KEEP nm::None, nm::None, nm::True
#define DROP nm::None, nm::None, nm::False
// number-valued sub-views: a reduction over ALL axes (axis None, keepdims false) is a 0-d, `is_num_v` view
#define SUMALL(x) view::reduce_add(x, nm::None)
#define MAXALL(x) view::reduce_maximum(x, nm::None)
#define x0 L.r(0)
#define x1 L.r(1)
#define x2 L.r(2)
#define x3 L.r(3)
// PROG: extraction only; GRAPH: extraction and compute graph
#define PROG(name, expr)  if (prog == name) { if (op == "c14_extract") return extract(expr, leaves); return "no-graph-compiled"; }
#define GRAPH(name, expr) if (prog == name) { if (op == "c14_extract") return extract(expr, leaves); return graph(expr, leaves); }

// run-time parameter i of a parametrised activation: request pq=<ints>, in quarter units (exact in binary32)
#define PQ(i) (0.25f * (float)par_q(a, i))
static int par_q(const Args& a, size_t i) { auto v = intsi(a, "pq"); if (i >= v.size()) throw bad_args("pq"); return v[i]; }

std::string handle(const std::string& op, const Args& a) {
#if C14_GROUP == 1
    if (op == "c14_alias") { auto ids = nats(a, "ids"); return "ok " + std::to_string((long long)ix::generate_alias(ids)); }
#endif
    if (op != "c14_extract" && op != "c14_graph") return "unknown-op";
    auto prog = get(a, "prog");
    auto L = make_leaves(a);
    std::vector<const void*> leaves; for (auto& r : L.row) leaves.push_back((const void*)&r);
#if C14_GROUP == 1
    GRAPH("transpose",  view::transpose(x0, AXES))
    GRAPH("reduce_add", view::reduce_add(x0, AXIS, DROP))
    GRAPH("add",        view::add(x0, x1))
    PROG("negative",    view::negative(x0))
    PROG("matmul",      view::matmul(x0, x1))
    PROG("concatenate", view::concatenate(x0, x1, AXIS))
    if (prog == "raw_matmul") {
        // bounded C arrays as leaves (kept by reference in the operand tuple: get_function_operands_t, functor.hpp:805-807)
        int ra[2][3] = {{0,1,2},{3,4,5}}; int rb[3][2] = {{1000,1001},{1002,1003},{1004,1005}};
        leaves = {(const void*)&ra, (const void*)&rb};
        PROG("raw_matmul", view::matmul(ra, rb))
    }
#elif C14_GROUP == 2
    PROG("where",       view::where(x0, x1, x2))
    PROG("vstack",      view::vstack(x0, x1))
    GRAPH("neg_add",    view::negative(view::add(x0, x1)))
    PROG("sum_mul",     view::reduce_add(view::multiply(x0, x1), AXIS, DROP))
    GRAPH("tr_add",     view::transpose(view::add(x0, x1), AXES))
    PROG("cumsum_tr",   view::accumulate_add(view::transpose(x0, AXES), AXIS))
#elif C14_GROUP == 3
    PROG("add_tr",      view::add(view::transpose(x0, AXES), x1))
    GRAPH("add_mul2",   view::add(x0, view::multiply(x1, x2)))
    GRAPH("neg_add_mul",view::negative(view::add(view::multiply(x0, x1), x2)))
    PROG("tr_neg_add",  view::transpose(view::negative(view::add(x0, x1)), AXES))
    PROG("sum_tr_mul",  view::reduce_add(view::transpose(view::multiply(x0, x1), AXES), AXIS, DROP))
#elif C14_GROUP == 4
    PROG("flip_tile_tr",view::flip(view::tile(view::transpose(x0, AXES), nats(a,"reps")), AXIS))
    PROG("neg_sub_max", view::negative(view::subtract(x0, view::reduce_maximum(x0, AXIS, KEEP))))
    GRAPH("add_mm",     view::add(view::multiply(x0, x1), view::multiply(x2, x3)))
    GRAPH("add_ms",     view::add(view::multiply(x0, x1), view::subtract(x2, x3)))
#elif C14_GROUP == 5
    // depth 4
    GRAPH("d4_neg_tr_neg_add", view::negative(view::transpose(view::negative(view::add(x0, x1)), AXES)))
    PROG("d4_sum_tr_neg_mul",  view::reduce_add(view::transpose(view::negative(view::multiply(x0, x1)), AXES), AXIS, DROP))
    PROG("d4_flip_tile_tr_neg",view::flip(view::tile(view::transpose(view::negative(x0), AXES), nats(a,"reps")), AXIS))
    PROG("d4_cumsum_neg_tr_add", view::accumulate_add(view::negative(view::transpose(view::add(x0, x1), AXES)), AXIS))
#elif C14_GROUP == 6
    // repeated leaf: negative(add(multiply(x0,x1),x1)); aliased leaves (view::alias gives the leaves explicit node ids)
    GRAPH("rep_neg_add_mul",   view::negative(view::add(view::multiply(x0, x1), x1)))
    if (prog == "al_neg_sq") { auto a0 = view::alias(x0, 0_ct);
        GRAPH("al_neg_sq",      view::negative(view::multiply(a0, a0))) }
    if (prog == "al_add_mul2") { auto a0 = view::alias(x0, 0_ct); auto a1 = view::alias(x1, 1_ct); auto a2 = view::alias(x2, 2_ct);
        GRAPH("al_add_mul2",    view::add(a0, view::multiply(a1, a2))) }
#elif C14_GROUP == 7
    if (prog == "al_add_mm" || prog == "al_neg_add_mul") {
        auto a0 = view::alias(x0, 0_ct); auto a1 = view::alias(x1, 1_ct); auto a2 = view::alias(x2, 2_ct);
        GRAPH("al_add_mm",      view::add(view::multiply(a0, a1), view::multiply(a1, a2)))
        GRAPH("al_neg_add_mul", view::negative(view::add(view::multiply(a0, a1), a1)))
    }
#elif C14_GROUP == 8
    // depth 2, the sub-view in either operand position of a binary node (ufunc / matmul / concatenate)
    GRAPH("sub_x_neg",     view::subtract(x0, view::negative(x1)))
    PROG("matmul_x_tr",    view::matmul(x0, view::transpose(x1, AXES)))
    PROG("matmul_tr_x",    view::matmul(view::transpose(x0, AXES), x1))
    PROG("concat_x_flip",  view::concatenate(x0, view::flip(x1, AXIS), AXIS))
    PROG("concat_flip_x",  view::concatenate(view::flip(x0, AXIS), x1, AXIS))
#elif C14_GROUP == 9
    // ternary node with the sub-view in each position; depth 3 with nested non-first positions
    PROG("where_v0",       view::where(view::negative(x0), x1, x2))
    PROG("where_v1",       view::where(x0, view::negative(x1), x2))
    PROG("where_v2",       view::where(x0, x1, view::negative(x2)))
    PROG("add_x_mul_x_neg",view::add(x0, view::multiply(x1, view::negative(x2))))
    PROG("mul_add_x_neg_x",view::multiply(view::add(x0, view::negative(x1)), x2))
#elif C14_GROUP == 10
    // depth 3 / 4 with sub-views in non-first positions, and a depth 4 chain of binary ufuncs in first positions
    PROG("sub_x_neg_tr",   view::subtract(x0, view::negative(view::transpose(x1, AXES))))
    PROG("d4_neg_add_x_mul_neg", view::negative(view::add(x0, view::multiply(view::negative(x1), x2))))
    PROG("d4_add_nmn_sxn", view::add(view::negative(view::multiply(view::negative(x0), x1)), view::subtract(x2, view::negative(x3))))
    PROG("d4_sum_add_x_tr_neg", view::reduce_add(view::add(x0, view::transpose(view::negative(x1), AXES)), AXIS, DROP))
    PROG("d4_neg_sub_mul_neg", view::negative(view::subtract(view::multiply(view::negative(x0), x1), x2)))
#elif C14_GROUP == 11
    // a NUMBER-valued view (reduction over all axes) as an operand of a broadcasting binary ufunc, first / non-first position
    GRAPH("mul_sumall_x",    view::multiply(SUMALL(x0), x1))
    PROG("sub_maxall_x",     view::subtract(MAXALL(x0), x1))
    PROG("mul_vsumall_x",    view::multiply(view::sum(x0, nm::None), x1))
    PROG("add_x_maxall",     view::add(x0, MAXALL(x1)))
    PROG("sub_sumall_x_rep", view::subtract(SUMALL(x0), x0))
    PROG("sub_x_sumall_rep", view::subtract(x0, SUMALL(x0)))
    PROG("mul_sumall_neg_x", view::multiply(SUMALL(view::negative(x0)), x1))
    PROG("mul_sumall_sum_x", view::multiply(SUMALL(view::reduce_add(x0, AXIS, DROP)), x1))
#elif C14_GROUP == 12
    // nested: the number-valued view over a binary node / under further nodes, depth 3 and 4
    PROG("neg_mul_sumall_mul_x", view::negative(view::multiply(SUMALL(view::multiply(x0, x1)), x2)))
    PROG("add_mul_sumall_x_x",   view::add(view::multiply(SUMALL(x0), x1), x2))
    PROG("tr_add_maxall_x",      view::transpose(view::add(MAXALL(x0), x1), AXES))
    PROG("mul_x_sumall_mul",     view::multiply(x0, SUMALL(view::multiply(x1, x2))))
    PROG("sum_mul_maxall_x",     view::reduce_add(view::multiply(MAXALL(x0), x1), AXIS, DROP))
    if (prog == "al_mul_sumall") { auto a0 = view::alias(x0, 0_ct); auto a1 = view::alias(x1, 1_ct);
        GRAPH("al_mul_sumall",   view::multiply(SUMALL(a0), a1)) }
#elif C14_GROUP == 13
    // number LITERAL operands of binary ufuncs in either position (operand index `litidx`, value `lit`; its entry in shapes= is a dummy),
    // and ternary where with a number-valued condition (a 0-d view / a literal)
    g_lit_index = has(a, "litidx") ? integer(a, "litidx") : -1; g_lit_value = has(a, "lit") ? integer(a, "lit") : 0;
    const int LIT = (int)g_lit_value;
    PROG("add_x_lit",         view::add(x0, LIT))
    PROG("mul_lit_x",         view::multiply(LIT, x1))
    PROG("neg_add_mul_x_lit_x", view::negative(view::add(view::multiply(x0, LIT), x2)))
    PROG("add_sum_lit",       view::add(view::reduce_add(x0, AXIS, DROP), LIT))
    PROG("sub_lit_neg_x",     view::subtract(LIT, view::negative(x1)))
    PROG("where_maxall",      view::where(MAXALL(x0), x1, x2))
    PROG("where_lit",         view::where(LIT, x1, x2))
#elif C14_GROUP == 14
    // (float leaves, -DC13_ELEM_FLOAT; elements printed as binary32 bit patterns) a unary ufunc whose op carries RUN-TIME PARAMETERS:
    // the extracted functor gets the op through ufunc_t::attributes() only
    GRAPH("act_leaky",     view::leaky_relu(x0, PQ(0)))
    PROG("act_elu",        view::elu(x0, PQ(0)))
    PROG("act_celu",       view::celu(x0, PQ(0)))
    PROG("act_hardtanh",   view::hardtanh(x0, PQ(0), PQ(1)))
    PROG("act_softplus",   view::softplus(x0, PQ(0), PQ(1)))
    PROG("act_hardshrink", view::hardshrink(x0, PQ(0)))
    PROG("act_softshrink", view::softshrink(x0, PQ(0)))
    PROG("act_prelu",      view::prelu(x0, PQ(0)))
#elif C14_GROUP == 15
    // … as inner / outer node of a chain, first / non-first operand position, two parametrised ops in one chain
    PROG("neg_leaky",      view::negative(view::leaky_relu(x0, PQ(0))))
    PROG("leaky_add",      view::leaky_relu(view::add(x0, x1), PQ(0)))
    PROG("add_leaky_x",    view::add(view::leaky_relu(x0, PQ(0)), x1))
    PROG("add_x_leaky",    view::add(x0, view::leaky_relu(x1, PQ(0))))
    PROG("mul_x_hardshrink", view::multiply(x0, view::hardshrink(x1, PQ(0))))
    PROG("hardtanh_mul_elu_x", view::hardtanh(view::multiply(view::elu(x0, PQ(0)), x1), PQ(1), PQ(2)))
    PROG("sum_softshrink", view::reduce_add(view::softshrink(x0, PQ(0)), AXIS, DROP))
    PROG("prelu_tr",       view::prelu(view::transpose(x0, AXES), PQ(0)))
    PROG("celu_neg_softplus", view::celu(view::negative(view::softplus(x0, PQ(0), PQ(1))), PQ(2)))
#endif
    return "unknown-prog";
}
