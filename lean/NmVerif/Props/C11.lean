namespace NmVerif.Props.C11
end NmVerif.Props.C11
