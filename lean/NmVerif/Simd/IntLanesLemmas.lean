import NmVerif.Simd.IntLanes
import NmVerif.Simd.ReduceLemmas
/-
  NmVerif.Simd.IntLanesLemmas — facts about the integer lane model of Simd/IntLanes.lean:
  encode/decode round trips, the lane operation = `static_cast<T>` of the exact result, `IntTy.wrap` is THE representable
  value congruent to the exact result (NumPy's wrap-around arithmetic), when the scalar functor is defined, and the
  commutative-monoid structure of modular addition / multiplication (integer reductions are re-association exact).
-/
namespace NmVerif.Simd
open IntTy
theorem ofInt_sub' (w : Nat) (x y : Int) : BitVec.ofInt w (x - y) = BitVec.ofInt w x - BitVec.ofInt w y := by
  apply BitVec.eq_of_toInt_eq
  rw [BitVec.toInt_sub]
  simp only [BitVec.toInt_ofInt]
  simp

theorem encode_decode (t : IntTy) (a : BitVec t.bits) : t.encode (t.decode a) = a := by
  unfold encode decode
  split
  · exact BitVec.ofInt_toInt
  · rw [BitVec.ofInt_natCast]; simp

theorem decode_encode (t : IntTy) (z : Int) : t.decode (t.encode z) = t.wrap z := by
  unfold encode decode wrap
  split
  · exact BitVec.toInt_ofInt z
  · rw [BitVec.toNat_ofInt]
    exact Int.toNat_of_nonneg (Int.emod_nonneg _ (by
      have : 0 < 2 ^ t.bits := Nat.pow_pos (by decide)
      omega))

theorem lane_eq_encode (t : IntTy) (o : IOp) (a b : BitVec t.bits) :
    o.lane a b = t.encode (o.exact (t.decode a) (t.decode b)) := by
  conv => lhs; rw [← encode_decode t a, ← encode_decode t b]
  cases o
  · exact (BitVec.ofInt_add _ _).symm
  · exact (ofInt_sub' _ _ _).symm
  · exact (BitVec.ofInt_mul _ _).symm

theorem decode_lane (t : IntTy) (o : IOp) (a b : BitVec t.bits) :
    t.decode (o.lane a b) = t.wrap (o.exact (t.decode a) (t.decode b)) := by
  rw [lane_eq_encode t o a b, decode_encode]
theorem two_pow_split (w : Nat) (hw : 0 < w) : (2 ^ w : Nat) = 2 * 2 ^ (w - 1) := by
  cases w with
  | zero => omega
  | succ k => simp [Nat.pow_succ, Nat.mul_comm]

theorem wrap_inRange (t : IntTy) (hb : 0 < t.bits) (z : Int) : t.InRange (t.wrap z) := by
  have hpos : 0 < 2 ^ t.bits := Nat.pow_pos (by decide)
  unfold InRange wrap
  split
  · have h1 := @Int.le_bmod z (2 ^ t.bits) hpos
    have h2 := @Int.bmod_lt z (2 ^ t.bits) hpos
    have hs := two_pow_split t.bits hb
    have hc : ((2 ^ t.bits : Nat) : Int) = 2 * (2 : Int) ^ (t.bits - 1) := by
      rw [hs]; push_cast; rfl
    rw [hc] at h1 h2
    constructor <;> omega
  · have hc : ((2 ^ t.bits : Nat) : Int) = (2 : Int) ^ t.bits := by push_cast; rfl
    rw [hc]
    have hp : (0 : Int) < 2 ^ t.bits := by rw [← hc]; omega
    exact ⟨Int.emod_nonneg _ (by omega), Int.emod_lt_of_pos _ hp⟩

theorem wrap_dvd (t : IntTy) (z : Int) : ((2 ^ t.bits : Nat) : Int) ∣ t.wrap z - z := by
  unfold wrap
  split
  · exact Int.dvd_bmod_sub_self
  · have := Int.emod_add_mul_ediv z ((2 ^ t.bits : Nat) : Int)
    exact ⟨-(z / ((2 ^ t.bits : Nat) : Int)), by rw [Int.mul_neg]; omega⟩

theorem wrap_eq_of_dvd (t : IntTy) (x y : Int) (h : ((2 ^ t.bits : Nat) : Int) ∣ x - y) : t.wrap x = t.wrap y := by
  have he : x % ((2 ^ t.bits : Nat) : Int) = y % ((2 ^ t.bits : Nat) : Int) :=
    Int.emod_eq_emod_iff_emod_sub_eq_zero.2 (Int.emod_eq_zero_of_dvd h)
  unfold wrap
  split
  · rw [Int.bmod_def, Int.bmod_def, he]
  · exact he

theorem wrap_eq_self (t : IntTy) (hb : 0 < t.bits) (x : Int) (h : t.InRange x) : t.wrap x = x := by
  unfold InRange at h
  unfold wrap
  split
  · rename_i hs
    rw [if_pos hs] at h
    have hsp := two_pow_split t.bits hb
    have hc : ((2 ^ t.bits : Nat) : Int) = 2 * (2 : Int) ^ (t.bits - 1) := by
      rw [hsp]; push_cast; rfl
    apply Int.bmod_eq_of_le <;> rw [hc] <;> omega
  · rename_i hs
    rw [if_neg hs] at h
    have hc : ((2 ^ t.bits : Nat) : Int) = (2 : Int) ^ t.bits := by push_cast; rfl
    exact Int.emod_eq_of_lt h.1 (by rw [hc]; exact h.2)

/-- `wrap z` is THE representable number congruent to `z` modulo `2^bits` -/
theorem wrap_unique (t : IntTy) (hb : 0 < t.bits) (z r : Int) (hr : t.InRange r)
    (hd : ((2 ^ t.bits : Nat) : Int) ∣ r - z) : r = t.wrap z := by
  rw [← wrap_eq_self t hb r hr]
  exact wrap_eq_of_dvd t r z hd

theorem decode_inRange (t : IntTy) (hb : 0 < t.bits) (a : BitVec t.bits) : t.InRange (t.decode a) := by
  have h : t.decode a = t.wrap (t.decode a) := by
    conv => lhs; rw [← encode_decode t a]
    exact decode_encode t _
  rw [h]; exact wrap_inRange t hb _

/-- coarse bound valid for both signednesses -/
theorem inRange_bound (t : IntTy) (x : Int) (h : t.InRange x) (B : Nat) (hB : t.bits ≤ B) :
    -((2 ^ B : Nat) : Int) ≤ x ∧ x < ((2 ^ B : Nat) : Int) := by
  have h1 : 2 ^ t.bits ≤ 2 ^ B := Nat.pow_le_pow_right (by decide) hB
  have h2 : 2 ^ (t.bits - 1) ≤ 2 ^ t.bits := Nat.pow_le_pow_right (by decide) (by omega)
  have c1 : ((2 ^ t.bits : Nat) : Int) = (2 : Int) ^ t.bits := by push_cast; rfl
  have c2 : ((2 ^ (t.bits - 1) : Nat) : Int) = (2 : Int) ^ (t.bits - 1) := by push_cast; rfl
  unfold InRange at h
  split at h
  · rw [← c2] at h; omega
  · rw [← c1] at h; omega

theorem scalarOp_eq_lane (t : IntTy) (o : IOp) (a b r : BitVec t.bits) (h : scalarOp t o a b = some r) :
    r = o.lane a b := by
  unfold scalarOp at h
  simp only at h
  split at h
  · cases h
  · rw [lane_eq_encode t o a b]; exact (Option.some.inj h).symm

theorem scalarOp_some_unsigned_wide (t : IntTy) (hs : t.signed = false) (hb : 32 ≤ t.bits) (o : IOp)
    (a b : BitVec t.bits) : scalarOp t o a b = some (o.lane a b) := by
  have hp : t.promoted = t := by unfold promoted; rw [if_neg (by omega)]
  unfold scalarOp
  simp only [hp, hs, Bool.false_and]
  rw [lane_eq_encode t o a b]; rfl

theorem inRange32 (z : Int) (h : -2147483648 ≤ z ∧ z < 2147483648) : (⟨32, true⟩ : IntTy).InRange z := by
  unfold InRange; simpa using h

theorem scalarOp_some_narrow_addsub (t : IntTy) (hb0 : 0 < t.bits) (hb : t.bits ≤ 16) (o : IOp) (ho : o ≠ .mul)
    (a b : BitVec t.bits) : scalarOp t o a b = some (o.lane a b) := by
  have hp : t.promoted = ⟨32, true⟩ := by unfold promoted; rw [if_pos (by omega)]
  have ha := inRange_bound t _ (decode_inRange t hb0 a) 16 hb
  have hbb := inRange_bound t _ (decode_inRange t hb0 b) 16 hb
  have hz : (⟨32, true⟩ : IntTy).InRange (o.exact (t.decode a) (t.decode b)) := by
    apply inRange32
    cases o with
    | add => simp only [IOp.exact]; omega
    | sub => simp only [IOp.exact]; omega
    | mul => exact absurd rfl ho
  unfold scalarOp
  simp only [hp, hz, decide_true, Bool.not_true, Bool.and_false]
  rw [lane_eq_encode t o a b]; rfl

theorem scalarOp_some_narrow_mul (t : IntTy) (hb0 : 0 < t.bits) (hb : t.bits ≤ 15 ∨ (t.bits ≤ 16 ∧ t.signed = true))
    (a b : BitVec t.bits) : scalarOp t .mul a b = some (IOp.mul.lane a b) := by
  have hp : t.promoted = ⟨32, true⟩ := by unfold promoted; rw [if_pos (by omega)]
  -- |decode| ≤ 2^15 in both cases
  have hbnd : ∀ c : BitVec t.bits, (t.decode c).natAbs ≤ 32768 := by
    intro c
    have hc := decode_inRange t hb0 c
    rcases hb with h15 | ⟨h16, hs⟩
    · have := inRange_bound t _ hc 15 h15; omega
    · unfold InRange at hc
      rw [if_pos hs] at hc
      have h2 : 2 ^ (t.bits - 1) ≤ 2 ^ 15 := Nat.pow_le_pow_right (by decide) (by omega)
      have c2 : ((2 ^ (t.bits - 1) : Nat) : Int) = (2 : Int) ^ (t.bits - 1) := by push_cast; rfl
      rw [← c2] at hc; omega
  have hm : (t.decode a * t.decode b).natAbs ≤ 32768 * 32768 := by
    rw [Int.natAbs_mul]; exact Nat.mul_le_mul (hbnd a) (hbnd b)
  have hz : (⟨32, true⟩ : IntTy).InRange (IOp.mul.exact (t.decode a) (t.decode b)) := by
    apply inRange32
    simp only [IOp.exact]; omega
  unfold scalarOp
  simp only [hp, hz, decide_true, Bool.not_true, Bool.and_false]
  rw [lane_eq_encode t .mul a b]; rfl

theorem bv_add_monoid (w : Nat) : IsCommMonoid (IOp.add.lane (w := w)) 0 :=
  ⟨BitVec.add_assoc, BitVec.add_comm, BitVec.zero_add⟩
theorem bv_mul_monoid (w : Nat) : IsCommMonoid (IOp.mul.lane (w := w)) 1 :=
  ⟨BitVec.mul_assoc, BitVec.mul_comm, BitVec.one_mul⟩

end NmVerif.Simd
