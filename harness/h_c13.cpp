// C13 harness: view programs of depth 1..3 over the device-supported operations (tests/cuda/CMakeLists.txt),
// run through the host-compilable kernel body (c13_kernel.hpp).  One source, several TUs: -DC13_GROUP=<n>
// selects the programs compiled into this binary (the functional layer is template heavy).
//   group 1  indexing views, depth 1 (a)        group 4  depth 2 compositions
//   group 2  indexing views, depth 1 (b)        group 5  depth 3 compositions
//   group 3  ufunc / reduce / accumulate / outer / matmul, depth 1
//   group 6  column-major leaves; raw-triple constructors (c13_mkarr), compute_offset (c13_koff)
//   groups 7, 8  second halves of the depth 2 / depth 3 compositions
//   group 9  binary ufuncs with BOTH operands views, reductions over them
//   groups 12, 13  (float leaves, -DC13_ELEM_FLOAT) unary ufuncs whose op carries RUN-TIME PARAMETERS (leaky_relu slope, elu / celu
//                  alpha, hardtanh bounds, softplus beta / threshold, hardshrink / softshrink lambda, prelu alpha), alone and in chains
//   groups 10, 11  NUMBER-valued sub-views (reduction over all axes: axis None, keepdims false) as operands of binary ufuncs
#include "c13_kernel.hpp"
#include "nmtools/array/view/cumsum.hpp"
#include "nmtools/array/view/hstack.hpp"
#include "nmtools/array/view/vstack.hpp"
#include "nmtools/array/view/moveaxis.hpp"
#include "nmtools/array/view/activations/leaky_relu.hpp"
#include "nmtools/array/view/activations/elu.hpp"
#include "nmtools/array/view/activations/celu.hpp"
#include "nmtools/array/view/activations/hardtanh.hpp"
#include "nmtools/array/view/activations/softplus.hpp"
#include "nmtools/array/view/activations/hardshrink.hpp"
#include "nmtools/array/view/activations/softshrink.hpp"
#include "nmtools/array/view/activations/prelu.hpp"
using namespace c13;

#ifndef C13_GROUP
#error "C13_GROUP not set"
#endif

#define AXIS ((int)integer(a,"axis"))
#define AXES (intsi(a,"axes"))
// a program = a function from leaf arrays to a view; attributes are read from the request
#define PROG0(name, expr) if (prog == name) return run_prog([&](){ return expr; }, a);
#define PROG1(name, expr) if (prog == name) return run_prog([&](const auto& x0){ return expr; }, a, LEAF(0));
#define PROG2(name, expr) if (prog == name) return run_prog([&](const auto& x0, const auto& x1){ return expr; }, a, LEAF(0), LEAF(1));
#define PROG3(name, expr) if (prog == name) return run_prog([&](const auto& x0, const auto& x1, const auto& x2){ return expr; }, a, LEAF(0), LEAF(1), LEAF(2));
#define PROG4(name, expr) if (prog == name) return run_prog([&](const auto& x0, const auto& x1, const auto& x2, const auto& x3){ return expr; }, a, LEAF(0), LEAF(1), LEAF(2), LEAF(3));
#if C13_GROUP == 6
#define LEAF(i) L.c(i)
#else
#define LEAF(i) L.r(i)
#endif
#define KEEP nm::None, nm::None, nm::True
#define DROP nm::None, nm::None, nm::False
#define SUMALL(x) view::reduce_add(x, nm::None)
#define MAXALL(x) view::reduce_maximum(x, nm::None)

// run-time parameter i of a parametrised activation: request pq=<ints>, in quarter units (exact in binary32)
#define PQ(i) (0.25f * (float)par_q(a, i))
static int par_q(const Args& a, size_t i) { auto v = intsi(a, "pq"); if (i >= v.size()) throw bad_args("pq"); return v[i]; }

static std::string kern(const Args& a) {
    auto prog = get(a, "prog");
    auto L = make_leaves(a, C13_GROUP == 6);
#if C13_GROUP == 1
    PROG1("transpose",   view::transpose(x0, AXES))
    PROG1("flip",        view::flip(x0, AXIS))
    PROG1("tile",        view::tile(x0, nats(a,"reps")))
    PROG1("repeat",      view::repeat(x0, (size_t)integer(a,"r"), AXIS))
    PROG1("expand_dims", view::expand_dims(x0, AXIS))
    PROG1("squeeze",     view::squeeze(x0))
    PROG1("flatten",     view::flatten(x0))
    PROG1("moveaxis",    view::moveaxis(x0, (int)integer(a,"src"), (int)integer(a,"dst")))
    PROG1("atleast_2d",  view::atleast_2d(x0))
#elif C13_GROUP == 2
    PROG2("concatenate", view::concatenate(x0, x1, AXIS))
    PROG3("where",       view::where(x0, x1, x2))
    if (prog == "slice2") { auto s = intsi(a,"s"); if (s.size() != 6) throw bad_args("s");
        PROG1("slice2",  view::slice(x0, nmtools_tuple{s[0],s[1],s[2]}, nmtools_tuple{s[3],s[4],s[5]})) }
    PROG1("maxpool",     view::max_pool2d(x0, nats(a,"k"), nats(a,"st"), nm::False))
    PROG1("reshape",     view::reshape(x0, intsi(a,"to")))
    PROG1("broadcast_to",view::broadcast_to(x0, nats(a,"to")))
    PROG2("hstack",      view::hstack(x0, x1))
    PROG2("vstack",      view::vstack(x0, x1))
    PROG0("full",        view::full(nats(a,"to"), (int)integer(a,"value")))
#elif C13_GROUP == 3
    PROG2("add",         view::add(x0, x1))
    PROG2("multiply",    view::multiply(x0, x1))
    PROG1("negative",    view::negative(x0))
    if (prog == "reduce_add") {
        if (integer(a,"keepdims")) { PROG1("reduce_add", view::reduce_add(x0, AXIS, KEEP)) }
        PROG1("reduce_add", view::reduce_add(x0, AXIS, DROP)) }
    PROG1("reduce_add_axes", view::reduce_add(x0, AXES, DROP))
    PROG1("reduce_multiply", view::reduce_multiply(x0, AXIS))
    PROG1("accumulate_add",  view::accumulate_add(x0, AXIS))
    PROG2("outer_add",   view::outer_add(x0, x1))
    PROG2("matmul",      view::matmul(x0, x1))
    PROG1("sum",         view::sum(x0, AXIS))
    PROG1("cumsum",      view::cumsum(x0, AXIS))
#elif C13_GROUP == 4
    PROG2("neg_add",     view::negative(view::add(x0, x1)))
    PROG3("mul_add",     view::multiply(view::add(x0, x1), x2))
    PROG2("sum_mul",     view::reduce_add(view::multiply(x0, x1), AXIS, DROP))
    PROG2("tr_add",      view::transpose(view::add(x0, x1), AXES))
    PROG2("add_tr",      view::add(view::transpose(x0, AXES), x1))
    PROG2("sum_add",     view::add(view::reduce_add(x0, AXIS, KEEP), x1))
#elif C13_GROUP == 7
    PROG1("cumsum_tr",   view::accumulate_add(view::transpose(x0, AXES), AXIS))
    PROG1("flip_neg",    view::flip(view::negative(x0), AXIS))
    PROG1("sum_tr",      view::reduce_add(view::transpose(x0, AXES), AXIS, DROP))
    PROG2("tile_add",    view::tile(view::add(x0, x1), nats(a,"reps")))
    PROG2("cumsum_mul",  view::accumulate_add(view::multiply(x0, x1), AXIS))
    // a view operand that is not the first operand (known finding extract.nonfirst-view-operand)
    PROG3("add_mul2",    view::add(x0, view::multiply(x1, x2)))
    PROG2("add_sum",     view::add(x0, view::reduce_add(x1, AXIS, KEEP)))
#elif C13_GROUP == 5
    PROG3("add_sum_mul", view::add(view::reduce_add(view::multiply(x0, x1), AXIS, KEEP), x2))
    PROG4("max_add_mul", view::maximum(view::add(view::multiply(x0, x1), x2), x3))
    PROG1("neg_max_sub", view::negative(view::subtract(view::reduce_maximum(x0, AXIS, KEEP), x0)))   // repeated leaf
    PROG3("neg_add_mul", view::negative(view::add(view::multiply(x0, x1), x2)))
    PROG2("tr_neg_add",  view::transpose(view::negative(view::add(x0, x1)), AXES))
#elif C13_GROUP == 8
    PROG2("sum_tr_mul",  view::reduce_add(view::transpose(view::multiply(x0, x1), AXES), AXIS, DROP))
    PROG1("flip_tile_tr",view::flip(view::tile(view::transpose(x0, AXES), nats(a,"reps")), AXIS))
    PROG2("neg_sum_mul", view::negative(view::reduce_add(view::multiply(x0, x1), AXIS, KEEP)))
    PROG2("rep_tr_add",  view::repeat(view::transpose(view::add(x0, x1), AXES), (size_t)integer(a,"r"), AXIS))
    // a view operand that is not the first operand (known finding extract.nonfirst-view-operand)
    PROG1("neg_sub_max", view::negative(view::subtract(x0, view::reduce_maximum(x0, AXIS, KEEP))))
#elif C13_GROUP == 9
    // both operands of a broadcasting binary ufunc are views / a reduction over such a node (depth 2, 3):
    // device path = known finding extract.nonfirst-view-operand, OpenCL path (direct view call) in-domain
    PROG2("add_tr_neg",      view::add(view::transpose(x0, AXES), view::negative(x1)))
    PROG2("mul_sum_sum",     view::multiply(view::reduce_add(x0, AXIS, KEEP), view::reduce_add(x1, AXIS, KEEP)))
    PROG2("sum_add_neg_neg", view::reduce_add(view::add(view::negative(x0), view::negative(x1)), AXIS, DROP))
    PROG4("max_mul_add",     view::maximum(view::multiply(x0, x1), view::add(x2, x3)))
    PROG4("neg_add_mul_mul", view::negative(view::add(view::multiply(x0, x1), view::multiply(x2, x3))))
#elif C13_GROUP == 10
    // a number-valued view (0-d, broadcasts like a scalar) as the first / a non-first operand of a broadcasting binary ufunc
    // (non-first: known finding extract.nonfirst-view-operand on the device path)
    PROG2("mul_sumall_x",     view::multiply(SUMALL(x0), x1))
    PROG2("sub_maxall_x",     view::subtract(MAXALL(x0), x1))
    PROG2("add_x_maxall",     view::add(x0, MAXALL(x1)))
    PROG1("sub_sumall_x_rep", view::subtract(SUMALL(x0), x0))      // repeated leaf
    PROG1("sub_x_sumall_rep", view::subtract(x0, SUMALL(x0)))
    // a number LITERAL operand in either position (held by value in the extracted operand tuple, passed to the kernel as it is)
    PROG1("add_x_lit",        view::add(x0, (int)integer(a,"lit")))
    PROG1("mul_lit_x",        view::multiply((int)integer(a,"lit"), x0))
    PROG2("neg_add_mul_x_lit_x", view::negative(view::add(view::multiply(x0, (int)integer(a,"lit")), x1)))
#elif C13_GROUP == 11
    PROG3("neg_mul_sumall_mul_x", view::negative(view::multiply(SUMALL(view::multiply(x0, x1)), x2)))
    PROG3("add_mul_sumall_x_x",   view::add(view::multiply(SUMALL(x0), x1), x2))
    PROG2("tr_add_maxall_x",      view::transpose(view::add(MAXALL(x0), x1), AXES))
    PROG3("mul_x_sumall_mul",     view::multiply(x0, SUMALL(view::multiply(x1, x2))))
#elif C13_GROUP == 12
    // a unary ufunc whose op carries run-time parameters: the extracted functor must carry THAT parameter (ufunc_t::attributes())
    PROG1("act_leaky",      view::leaky_relu(x0, PQ(0)))
    PROG1("act_elu",        view::elu(x0, PQ(0)))
    PROG1("act_celu",       view::celu(x0, PQ(0)))
    PROG1("act_hardtanh",   view::hardtanh(x0, PQ(0), PQ(1)))
    PROG1("act_softplus",   view::softplus(x0, PQ(0), PQ(1)))
    PROG1("act_hardshrink", view::hardshrink(x0, PQ(0)))
    PROG1("act_softshrink", view::softshrink(x0, PQ(0)))
    PROG1("act_prelu",      view::prelu(x0, PQ(0)))
#elif C13_GROUP == 13
    // … as inner / outer node of a chain, as first / non-first operand (non-first: known finding on the device path), two in one chain
    PROG1("neg_leaky",      view::negative(view::leaky_relu(x0, PQ(0))))
    PROG2("leaky_add",      view::leaky_relu(view::add(x0, x1), PQ(0)))
    PROG2("add_leaky_x",    view::add(view::leaky_relu(x0, PQ(0)), x1))
    PROG2("add_x_leaky",    view::add(x0, view::leaky_relu(x1, PQ(0))))
    PROG2("hardtanh_mul_elu_x", view::hardtanh(view::multiply(view::elu(x0, PQ(0)), x1), PQ(1), PQ(2)))
    PROG1("sum_softshrink", view::reduce_add(view::softshrink(x0, PQ(0)), AXIS, DROP))
    PROG1("prelu_tr",       view::prelu(view::transpose(x0, AXES), PQ(0)))
#elif C13_GROUP == 6
    // same programs over column-major host arrays: context_t::create_array accepts any non-view ndarray
    PROG1("transpose_col", view::transpose(x0, AXES))
    PROG2("add_col",       view::add(x0, x1))
#endif
    return "unknown-prog";
}

std::string handle(const std::string& op, const Args& a) {
    if (op == "c13_kern") return kern(a);
#if C13_GROUP == 6
    if (op == "c13_mkarr") {
        // raw triple -> array, exactly the two constructors the kernels use
        auto data = intsi(a, "data"); auto sp = nats(a, "shapeptr"); size_t dim = (size_t)integer(a, "dim");
        std::string mode = has(a,"mode") ? get(a,"mode") : "ref";
        uvec shape; std::vector<long long> els;
        if (mode == "ref") {
            auto v = na::create_array(data.data(), sp.data(), dim);
            if (!nm::has_value(v)) return "nothing";
            auto u = nm::unwrap(v); dump(u, shape, els);
        } else {
            auto v = na::create_mutable_array(data.data(), sp.data(), dim);
            dump(v, shape, els);
        }
        return "ok shape=" + fmt(shape) + " data=" + fmt(els);
    }
    if (op == "c13_koff") {
        auto idx = na::compute_offset(ks_t{{(size_t)integer(a,"tid"),0,0}}, ks_t{{(size_t)integer(a,"bid"),0,0}}, ks_t{{(size_t)integer(a,"bsz"),1,1}});
        return "ok " + std::to_string((unsigned long long)idx);
    }
#endif
    return "unknown-op";
}
