import NmVerif.Proto
import NmVerif.Arr
import NmVerif.Index.Transpose
import NmVerif.Index.Reshape
import NmVerif.Index.Flip
namespace NmVerif.Driver.C03
open NmVerif NmVerif.Proto

/-- what harness/h_c03.cpp prints for a view over `data[k] = k` -/
def showView : Option IxView → String
  | none => "nothing"
  | some v => s!"ok shape={fmtNats v.dst} data={fmtInts v.provenance}"

def single (l : List Int) : Option Int := match l with | [x] => some x | _ => none

def handle : Handler := fun op a =>
  match op with
  | "reshape" => orBad do
      let s ← a.nats "shape"; let t ← a.ints "to"
      pure (showView (reshapeView s t))
  | "flatten" => orBad do
      let s ← a.nats "shape"
      pure (showView (flattenView s))
  | "transpose" => orBad do
      let s ← a.nats "shape"; let ax ← a.optInts "axes"
      pure (showView (transposeView s ax))
  | "moveaxis" => orBad do
      let s ← a.nats "shape"; let src ← a.ints "src"; let dst ← a.ints "dst"
      if (a.get? "kind") == some "int" then do
        let _ ← single src; let _ ← single dst
        pure (showView (moveaxisView s src dst))
      else pure (showView (moveaxisView s src dst))
  | "swapaxes" => orBad do
      let s ← a.nats "shape"; let a1 ← a.int "a1"; let a2 ← a.int "a2"
      pure (showView (swapaxesView s a1 a2))
  | "expand_dims" => orBad do
      let s ← a.nats "shape"; let ax ← a.ints "axis"
      if (a.get? "kind") == some "int" then do
        let _ ← single ax
        pure (showView (expandDimsView s ax))
      else pure (showView (expandDimsView s ax))
  | "squeeze" => orBad do
      let s ← a.nats "shape"
      pure (showView (squeezeView s))
  | "atleast" => orBad do
      let s ← a.nats "shape"
      match a.get? "kind" with
      | some "1d" => pure (showView (atleastNdView s 1))
      | some "2d" => pure (showView (atleastNdView s 2))
      | _ => do
        let nd ← a.nat "nd"
        pure (showView (atleastNdView s nd))
  | "flip" => orBad do
      let s ← a.nats "shape"; let ax ← a.optInts "axis"
      pure (showView (flipView s ax))
  | "transpose2" => orBad do
      let s ← a.nats "shape"; let p ← a.ints "axes"; let q ← a.ints "axes2"
      pure (showView do
        let inner ← transposeView s (some p)
        let outer ← transposeView inner.dst (some q)
        pure (outer.comp inner))
  | "flip2" => orBad do
      let s ← a.nats "shape"; let p ← a.ints "axis"; let q ← a.ints "axis2"
      pure (showView do
        let inner ← flipView s (some p)
        let outer ← flipView inner.dst (some q)
        pure (outer.comp inner))
  | _ => none

end NmVerif.Driver.C03
