import NmVerif.Containers.Core
import NmVerif.Containers.Vector
import NmVerif.Containers.StaticVector
/-
  NmVerif.Containers.SmallVector — mirror of `nmtools::small_vector<T,DIM>` (utility/small_vector.hpp:17-217)
  instantiated with the STL-free parts: `utl::either<utl::static_vector<T,DIM>, utl::vector<T>>`.

  The union holds either the static vector (`tagS`, LEFT) or the heap vector (RIGHT).  `utl::either` for this pair
  is the specialisation for non-trivially destructible alternatives; state of the code after the `fix:` commits
  C19-either-maybe-lifetime (the active alternative is destroyed by `~either()` and when the tag changes; copies are
  constructed in place, never assigned into raw storage) and C19-small-vector-alias-push.

  Mirrored, line by line:
    small_vector()        `buffer_ = {}`: left{} — static, size 0
    small_vector(N)       N < DIM: `buffer_ = static_vector{}` (member assignment), `resize(N)`;
                          else `buffer_ = vector{}`: a temporary default vector (block of 4) is copy-constructed
                          into the union (`vector(const vector&)`: block of 4), the temporary is destroyed,
                          then `resize(N)`                                                       (l.39-55)
    resize(n)             static and n ≤ DIM: static resize; static and n > DIM: `new_buffer = small_vector(n)`,
                          element copy, `buffer_ = new_buffer.buffer_` (either::operator=: the static vector is
                          destroyed — trivially —, a vector is copy-constructed from the temporary's);
                          `new_buffer` goes out of scope: its vector is destroyed; dynamic: vector resize (l.69-88)
    push_back(t)          size == DIM: `value = t; resize(size+1); at(size) = value`; else push_back of the active part
    copy ctor (implicit)  either(const either&): the active alternative is copy-constructed
                          (static_vector: whole buffer and size; vector: `vector(const vector&)`)
    operator= (implicit)  either::operator=: `x = x` nothing; same alternative: member assignment; other alternative:
                          the active one is destroyed (a heap vector frees its block), the source's copy-constructed
    destructor            `~either()`: a heap vector is destroyed
  The vector / static_vector parts are the repaired ones (value-initialising resize, unconditional free).
  Core Lean only.
-/
namespace NmVerif.Containers

structure Small (α : Type) where
  tagS : Bool
  st : SVec α
  dy : Vec α
  /-- a `vector` constructor ran on the union storage (placement-new) -/
  dyLive : Bool
  deriving Repr

namespace Small
variable {α : Type}

def rawVec : Vec α := { blk := none, cells := [], size := 0, cap := 0 }
def freshSt (c : Nat) (zero : α) : SVec α := { cells := List.replicate c (some zero), size := 0 }

def mkDefault (c : Nat) (zero : α) (L : Ledger) : Small α × Ledger :=
  ({ tagS := true, st := freshSt c zero, dy := rawVec, dyLive := false }, L)

/-- `small_vector(N)` -/
def mkSized (c : Nat) (zero : α) (n : Nat) (L : Ledger) : Small α × Ledger :=
  if n < c then
    let r := SVec.assign c zero (freshSt c zero) (freshSt c zero) L
    let r := SVec.resize c zero r.1 n r.2
    ({ tagS := true, st := r.1, dy := rawVec, dyLive := false }, r.2)
  else
    -- buffer_ = vector_type{}: temporary, copy-construction into the union, destruction of the temporary
    let tmp := Vec.mkDefault (α := α) L
    let r := Vec.mkCopy zero tmp.1 tmp.2
    let L3 := Vec.destroy tmp.1 r.2
    let r := r.1.resize zero n L3
    ({ tagS := false, st := freshSt c zero, dy := r.1, dyLive := true }, r.2)

def size (x : Small α) : Nat := if x.tagS then x.st.size else x.dy.size
def view (x : Small α) : List (Cell α) := if x.tagS then x.st.view else x.dy.view

def write (x : Small α) (i : Nat) (a : α) (L : Ledger) : Small α × Ledger :=
  if x.tagS then let r := x.st.write i a L; ({ x with st := r.1 }, r.2)
  else let r := x.dy.write i a L; ({ x with dy := r.1 }, r.2)

def read (x : Small α) (i : Nat) (L : Ledger) : Cell α × Ledger :=
  if x.tagS then x.st.read i L else x.dy.read i L

def resize (c : Nat) (zero : α) (x : Small α) (n : Nat) (L : Ledger) : Small α × Ledger :=
  if x.tagS then
    if n ≤ c then let r := SVec.resize c zero x.st n L; ({ x with st := r.1 }, r.2)
    else
      let prev := x.st.size
      let nb := mkSized c zero n L
      -- for i < prev_size: new_buffer.at(i) = static_ptr->at(i)
      let nbdy : Vec α := { nb.1.dy with cells := x.st.cells.take prev ++ nb.1.dy.cells.drop prev }
      let L2 := nb.2.flagIf (decide (x.st.cells.length < prev ∨ nb.1.dy.cells.length < prev)) .oob
      -- buffer_ = new_buffer.buffer_ : the static vector is destroyed (trivial), a vector is copy-constructed
      let r := Vec.mkCopy zero nbdy L2
      -- new_buffer leaves scope: ~either() destroys its vector
      ({ tagS := false, st := x.st, dy := r.1, dyLive := true }, Vec.destroy nbdy r.2)
  else let r := x.dy.resize zero n L; ({ x with dy := r.1 }, r.2)

def push (c : Nat) (zero : α) (x : Small α) (a : α) (L : Ledger) : Small α × Ledger :=
  let old := x.size
  if old = c then
    let r := resize c zero x (old + 1) L
    r.1.write old a r.2
  else if x.tagS then let r := SVec.push c zero x.st a L; ({ x with st := r.1 }, r.2)
  else let r := x.dy.push zero a L; ({ x with dy := r.1 }, r.2)

/-- `at(i) = c` for an already fetched cell -/
def storeCell (x : Small α) (i : Nat) (v : Cell α) (L : Ledger) : Small α × Ledger :=
  if x.tagS then let r := x.st.store i v L; ({ x with st := r.1 }, r.2)
  else let r := x.dy.store i v L; ({ x with dy := r.1 }, r.2)

/-- `x.push_back(x[i])`: the argument is a reference into the active part.
    size ≠ DIM: push_back of the active part (static: no reallocation; heap: `utl::vector::push_back` copies its
    argument first).  size == DIM: the value is copied (`const T value = t`) before `resize(DIM+1)` replaces the
    storage, then `at(DIM) = value`. -/
def pushAt (c : Nat) (zero : α) (x : Small α) (i : Nat) (L : Ledger) : Small α × Ledger :=
  let old := x.size
  if old = c then
    let src : Cell α × Ledger := match (if x.tagS then x.st.cells else x.dy.cells)[i]? with
      | some v => (v, L)
      | none => (none, L.flag .oob)
    let r := resize c zero x (old + 1) src.2
    storeCell r.1 old src.1 r.2
  else if x.tagS then let r := SVec.pushAt c zero x.st i L; ({ x with st := r.1 }, r.2)
  else let r := x.dy.pushAt zero i L; ({ x with dy := r.1 }, r.2)

def storeAll (x : Small α) : Nat → List α → Ledger → Small α × Ledger
  | _, [], L => (x, L)
  | i, a :: as, L => let r := x.write i a L; storeAll r.1 (i + 1) as r.2

def mkVariadic (c : Nat) (zero : α) (vs : List α) (L : Ledger) : Small α × Ledger :=
  let r := mkDefault c zero L
  let r := resize c zero r.1 vs.length r.2
  storeAll r.1 0 vs r.2

/-- implicit copy constructor -/
def mkCopy (c : Nat) (zero : α) (o : Small α) (L : Ledger) : Small α × Ledger :=
  if o.tagS then ({ tagS := true, st := o.st, dy := rawVec, dyLive := false }, L)
  else
    let r := Vec.mkCopy zero o.dy L
    ({ tagS := false, st := freshSt c zero, dy := r.1, dyLive := true }, r.2)

/-- implicit copy assignment, `o` a different object -/
def assign (c : Nat) (zero : α) (x o : Small α) (L : Ledger) : Small α × Ledger :=
  if x.tagS != o.tagS then
    if o.tagS then
      -- the heap vector is destroyed, the static vector copy-constructed
      ({ tagS := true, st := o.st, dy := rawVec, dyLive := false }, Vec.destroy x.dy L)
    else
      let r := Vec.mkCopy zero o.dy L
      ({ tagS := false, st := x.st, dy := r.1, dyLive := true }, r.2)
  else if x.tagS then let r := SVec.assign c zero x.st o.st L; ({ x with st := r.1 }, r.2)
  else let r := Vec.assign zero x.dy o.dy L; ({ x with dy := r.1 }, r.2)

/-- `x = x`: `&other == this`, nothing happens -/
def assignSelf (_c : Nat) (_zero : α) (x : Small α) (L : Ledger) : Small α × Ledger := (x, L)

/-- `~either()` -/
def destroy (x : Small α) (L : Ledger) : Ledger := if x.tagS then L else Vec.destroy x.dy L

end Small

def smallImpl (c : Nat) (zero : α) : Impl (Small α) α where
  mkDefault := Small.mkDefault c zero
  mkSized := Small.mkSized c zero
  mkVariadic := Small.mkVariadic c zero
  mkCopy := Small.mkCopy c zero
  assign := Small.assign c zero
  assignSelf := Small.assignSelf c zero
  push := Small.push c zero
  pushAt := Small.pushAt c zero
  resize := Small.resize c zero
  write := Small.write
  read := Small.read
  destroy := Small.destroy
  size := Small.size
  view := Small.view

end NmVerif.Containers
