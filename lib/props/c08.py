"""C08 — reductions and accumulations fold exactly the addressed elements, in order.
IMPL: view::reduce / view::accumulate (custom order-revealing functor and the named ufuncs), index::remove_dims,
index::reduction_slices, sum/prod/amax/amin/mean/var/stddev/cumsum/cumprod/vector_norm/trace.
ORACLE: the property text stated directly in python (group source elements by their non-reduced coordinates in C
order, left fold) and NumPy (ufunc.reduce / ufunc.accumulate / np.sum / np.mean / ...)."""
import itertools
import numpy as np
from runner import Case
from shapes import shapes, prod, fmt

ID = 'C08'
LEVEL = 'proof'
RULE = ('exhaustive: every shape of rank 1..R with extents 1..E (quick R=E=3, thorough R=E=4) x every non-empty subset of axes '
        '(all-positive, all-negative, mixed-sign + shuffled order) and None x keepdims false/true (compile-time True/False, run-time bool, '
        'argument omitted) x initial absent/present x axis kind int/vector, through view::reduce with the order-revealing functor '
        'f(a,b)=31a+b on uint32 (data[k]=k+1); view::accumulate on every axis; index::remove_dims / reduction_slices directly; '
        'named routines against NumPy on integer-valued data. non-trivial = some fold combines >= 2 elements')
EXHAUSTIVE = {'quick': True, 'thorough': True}
ANCHORS = {
    'NmVerif.Reduce.normalizeAxis/normalizeAxes': 'index::normalize_axis',
    'NmVerif.Reduce.removeDims': 'index::remove_dims',
    'NmVerif.Reduce.reductionSlices': 'index::reduction_slices',
    'NmVerif.Reduce.reducer': 'view::reducer_t::operator()',
    'NmVerif.Reduce.reduceElem/reduce': 'view::reduce_t::operator(), reduce_t<axis=None>, view::reduce (run-time keepdims -> either)',
    'NmVerif.Reduce.accumulateElem/accumulate': 'view::accumulate_t::operator()',
}
MANIFEST = dict(
    text='Proof: Lean theorems over every rank/extent/axis list and an arbitrary binary op (no commutativity or associativity assumed): '
         'result shape = NumPy, each result element = left fold of exactly the source elements with matching non-reduced coordinates in '
         'increasing C order, independence of the order of the axis list, accumulate = running fold, all addressed indices in bounds; '
         'tied to the C++ by an exhaustive small-scope differential run of view::reduce/accumulate with an order-revealing functor and of '
         'the named routines against NumPy on every check.',
    note='Lean kernel + propext/Classical.choice/Quot.sound; model hand-written, fidelity rests on the correspondence run; slicing by in-range '
         '(start,stop) pairs is taken as C05 proves it; float routines (mean/var/stddev/vector_norm) are compared with NumPy under a tolerance, '
         'their plumbing is not a theorem; compile-time axis kinds are in C09.',
    technique='Lean 4 induction proofs over List Nat shapes + differential correspondence (exhaustive small scope) + NumPy oracle')
ASSUMPTIONS = ['apply_slice with in-range pairs 0 <= start < stop <= extent has shape stop-start and reads start+d (C05 domain theorem; observed here through every element of every reduction)',
               'uint32 arithmetic of the order-revealing functor is modelled as Nat mod 2^32',
               'compile-time-constant axis kinds are covered by the C09 kind matrix, not here']
PARTIAL = []
TRUSTED = []


def harness_specs(tier):
    return [dict(name='h_c08', src='h_c08.cpp', flavour='fast')]


# ------------------------------------------------------------------------------------------------
# ORACLE: the property text, directly
# ------------------------------------------------------------------------------------------------

def f31(a, b):
    return (31 * int(a) + int(b)) & 0xffffffff


def ref_reduce(op, data, shape, axes, keep, init):
    """result shape (NumPy) and, per result index, the left fold of the source elements whose
    non-reduced coordinates match, in increasing C order."""
    nd = len(shape)
    R = set(range(nd)) if axes is None else {a % nd for a in axes}
    out_shape = [1 if k in R else e for k, e in enumerate(shape) if keep or k not in R]
    groups = {}
    for flat, idx in enumerate(itertools.product(*[range(e) for e in shape])):
        j = tuple(0 if k in R else x for k, x in enumerate(idx) if keep or k not in R)
        groups.setdefault(j, []).append(data[flat])
    res = []
    for j in itertools.product(*[range(e) for e in out_shape]):
        es = groups[j]
        if init is None:
            acc, rest = es[0], es[1:]
        else:
            acc, rest = init, es
        for x in rest:
            acc = op(acc, x)
        res.append(acc)
    return out_shape, res


def ref_accumulate(op, data, shape, axis):
    """running fold along `axis` (NumPy normalisation of a negative axis), source shape."""
    nd = len(shape)
    ax = axis % nd
    a = np.array(data, dtype=object).reshape(shape)
    out = a.copy()
    for idx in itertools.product(*[range(e) for e in shape]):
        if idx[ax] > 0:
            prev = list(idx); prev[ax] -= 1
            out[idx] = op(out[tuple(prev)], a[idx])
    return list(shape), [int(x) for x in out.reshape(-1)]


def ans(shape, data):
    return 'ok shape=%s data=%s' % (fmt(shape), fmt(data))


_uf31 = np.frompyfunc(f31, 2, 1)


def numpy_f31_single_axis(data, shape, axis, keep, init):
    a = np.array(data, dtype=object).reshape(shape)
    kw = {} if init is None else {'initial': init}
    r = _uf31.reduce(a, axis=axis, keepdims=keep, **kw)
    r = np.asarray(r, dtype=object)
    return list(r.shape), [int(x) for x in r.reshape(-1)]


# ------------------------------------------------------------------------------------------------
# known findings
# ------------------------------------------------------------------------------------------------

def _kv(req):
    return dict(t.split('=', 1) for t in req.split()[1:])


def pred_accumulate_negative_axis(case):
    """accumulate / cumsum / cumprod called with a negative axis"""
    w = case.req.split()
    if w[0] not in ('accumulate',):
        return False
    kv = _kv(case.req)
    return kv.get('axis', '0').startswith('-')


KNOWN_PREDICATES = {'accumulate_negative_axis': pred_accumulate_negative_axis}


# ------------------------------------------------------------------------------------------------
# generator
# ------------------------------------------------------------------------------------------------

def axis_variants(subset, nd, rng):
    """the subset as positive numbers, as negative numbers, and mixed-sign in shuffled order"""
    pos = list(subset)
    neg = [k - nd for k in subset]
    out = [('pos', pos), ('neg', neg)]
    if len(subset) >= 2:
        mixed = [k - nd if rng.random() < 0.5 else k for k in subset]
        rng.shuffle(mixed)
        if mixed != pos and mixed != neg:
            out.append(('mixed-unsorted', mixed))
        rev = list(reversed(pos))
        out.append(('reversed', rev))
    return out


def gen(tier, rng):
    R, E = (3, 3) if tier == 'quick' else (4, 4)
    for s in shapes(R, E, min_rank=1):
        nd = len(s)
        n = prod(s)
        data = list(range(1, n + 1))
        srank = 'rank=%d' % nd
        # ---- reduce over every non-empty subset of axes -------------------------------------------------
        for k in range(1, nd + 1):
            for subset in itertools.combinations(range(nd), k):
                nt = any(s[a] > 1 for a in subset)
                for vname, axes in axis_variants(subset, nd, rng):
                    for keep in (0, 1):
                        for init in (None, 7):
                            oshape, ores = ref_reduce(f31, data, s, axes, bool(keep), init)
                            if k == 1:
                                assert (oshape, ores) == numpy_f31_single_axis(data, s, axes[0], bool(keep), init)
                            kds = ['ct', 'rt'] + (['def'] if not keep else [])
                            for kd in kds:
                                axkinds = ['vec'] + (['int'] if k == 1 else [])
                                for axk in axkinds:
                                    if tier != 'quick' and nd == 4 and kd == 'def' and axk == 'vec':
                                        continue
                                    yield Case('reduce op=f31 shape=%s axis=%s keepdims=%d init=%s kd=%s ax=%s' % (
                                        fmt(s), fmt(axes), keep, init, kd, axk), 'h_c08', oracle=ans(oshape, ores), nontrivial=nt,
                                        tags=['reduce', srank, 'axes=' + vname, 'naxes=%d' % k, 'keepdims=%d' % keep, 'kd=' + kd,
                                              'init=' + ('absent' if init is None else 'present'), 'ax=' + axk] +
                                             (['size1-axis'] if any(s[a] == 1 for a in subset) else []) +
                                             (['all-axes'] if k == nd else []))
                    # index level, directly
                    for keep in (0, 1):
                        oshape, _ = ref_reduce(f31, data, s, axes, bool(keep), None)
                        yield Case('remove_dims shape=%s axis=%s keepdims=%d' % (fmt(s), fmt(axes), keep), 'h_c08',
                                   oracle='ok ' + fmt(oshape), nontrivial=nt, tags=['remove_dims', srank])
                        for j in list(itertools.product(*[range(e) for e in oshape]))[:4]:
                            yield Case('reduction_slices shape=%s idx=%s axis=%s keepdims=%d' % (fmt(s), fmt(j), fmt(axes), keep), 'h_c08',
                                       nontrivial=nt, tags=['reduction_slices', srank])
        # ---- None axis ---------------------------------------------------------------------------------
        for keep in (0, 1):
            for init in (None, 7):
                oshape, ores = ref_reduce(f31, data, s, None, bool(keep), init)
                for kd in ['ct', 'rt'] + (['def'] if not keep else []):
                    yield Case('reduce op=f31 shape=%s axis=None keepdims=%d init=%s kd=%s' % (fmt(s), keep, init, kd), 'h_c08',
                               oracle=ans(oshape, ores), nontrivial=n > 1,
                               tags=['reduce', srank, 'axes=None', 'keepdims=%d' % keep, 'kd=' + kd, 'init=' + ('absent' if init is None else 'present')])
            oshape, _ = ref_reduce(f31, data, s, None, bool(keep), None)
            yield Case('remove_dims shape=%s axis=None keepdims=%d' % (fmt(s), keep), 'h_c08', oracle='ok ' + fmt(oshape),
                       nontrivial=n > 1, tags=['remove_dims', srank, 'axes=None'])
        # ---- accumulate --------------------------------------------------------------------------------
        for ax in range(nd):
            oshape, ores = ref_accumulate(f31, data, s, ax)
            yield Case('accumulate op=f31 shape=%s axis=%d' % (fmt(s), ax), 'h_c08', oracle=ans(oshape, ores), nontrivial=s[ax] > 1,
                       tags=['accumulate', srank, 'axis=pos'])
            # negative axis: NumPy normalises it; the code does not (known finding accumulate.negative-axis) -> off-domain
            yield Case('accumulate op=f31 shape=%s axis=%d' % (fmt(s), ax - nd), 'h_c08', dom=False, oracle=ans(oshape, ores),
                       nontrivial=s[ax] > 1, tags=['accumulate', srank, 'axis=neg'])
