// C04 harness, part C: generator views arange, linspace, full, zeros, ones, full_like, zeros_like, ones_like
//
// Answers : `ok shape=<dims> data=<elements, C order>` | `unsupported` | `bad-args` | `unknown-op` |
//           `ok shape=<dims> data=huge` (the computed length wrapped around, nothing is enumerated)
//           integer element types print decimal integers, real element types print %.17g (nan / inf / -inf)
//
// Request syntax.  Integer parameters `start= stop= step=`; a real parameter is given in QUARTER units with a
// `q` suffix on the key: `stepq=3` means step = 0.75 (dyadic rationals are exact in float and double).
//   arange   start=<int> stop=<int> step=<int>|None dtype=int        view::arange(start, stop[, step], int32)
//   arange   start=<int> stop=<int> step=<int>|None dtype=float|double   same with float32 / float64
//   arange   start=<int> stop=<int> stepq=<int> dtype=float|double   view::arange(int, int, float|double step, dtype)
//   arange   startq=.. | stopq=..                                    `unsupported`: start/stop must be integers
//                                                                    (index::arange_shape only resolves for index types)
//   linspace start=<int>|startq=<int> stop=<int>|stopq=<int> num=<int> endpoint=0|1 dtype=float|double
//                                                                    view::linspace(T start, T stop, num, bool endpoint), T = dtype
//   full       shape=<dims> value=<int>     view::full(shape, value)
//   zeros      shape=<dims>                 view::zeros(shape, int32)
//   ones       shape=<dims>                 view::ones(shape, int32)
//   full_like  shape=<dims> value=<int>     view::full_like(mk(shape), value)
//   zeros_like shape=<dims>                 view::zeros_like(mk(shape))
//   ones_like  shape=<dims>                 view::ones_like(mk(shape))
#include "nmtools/array/view/arange.hpp"
#include "nmtools/array/view/linspace.hpp"
#include "nmtools/array/view/full.hpp"
#include "nmtools/array/view/zeros.hpp"
#include "nmtools/array/view/ones.hpp"
#include "nmtools/array/view/full_like.hpp"
#include "nmtools/array/view/zeros_like.hpp"
#include "nmtools/array/view/ones_like.hpp"
#include "c04_bc.hpp"
using namespace c04;

// rank-1 integer view indexed with v(k)
template <typename V> static std::string idump1(const V& v) {
    auto h = huge_answer(v); if (!h.empty()) return h;
    uvec s = to_uvec(nm::shape(v));
    if (s.size() != 1) return "dim-mismatch";
    std::ostringstream o; o << "ok shape=" << fmt(s) << " data=";
    if (s[0] == 0) o << "[]";
    for (size_t k = 0; k < s[0]; k++) { if (k) o << ','; o << (long long)v(k); }
    return o.str();
}
template <typename T> static T real_arg(const Args& a, const std::string& k) {
    if (has(a, k + "q")) return (T)integer(a, k + "q") / (T)4;
    return (T)integer(a, k);
}
template <typename T, typename D> static std::string do_linspace(const Args& a, D dtype) {
    T start = real_arg<T>(a, "start"), stop = real_arg<T>(a, "stop");
    size_t num = (size_t)integer(a, "num"); bool endpoint = integer(a, "endpoint") != 0;
    return fdump1(view::linspace(start, stop, num, endpoint));
}
template <typename T, typename D> static std::string do_arange_real(const Args& a, D dtype) {
    int start = (int)integer(a, "start"), stop = (int)integer(a, "stop");
    if (has(a, "stepq")) return fdump1(view::arange(start, stop, real_arg<T>(a, "step"), dtype));
    if (is_none(a, "step")) return fdump1(view::arange(start, stop, dtype));
    return fdump1(view::arange(start, stop, (int)integer(a, "step"), dtype));
}

std::string handle(const std::string& op, const Args& a) {
    if (op == "arange") {
        if (has(a, "startq") || has(a, "stopq")) return "unsupported";
        const auto& dt = get(a, "dtype");
        if (dt == "float") return do_arange_real<float>(a, nm::float32);
        if (dt == "double") return do_arange_real<double>(a, nm::float64);
        if (dt != "int") return "bad-args";
        if (has(a, "stepq")) return "bad-args";
        int start = (int)integer(a, "start"), stop = (int)integer(a, "stop");
        if (is_none(a, "step")) return idump1(view::arange(start, stop, nm::int32));
        return idump1(view::arange(start, stop, (int)integer(a, "step"), nm::int32));
    }
    if (op == "linspace") {
        const auto& dt = get(a, "dtype");
        if (dt == "float") return do_linspace<float>(a, nm::float32);
        if (dt == "double") return do_linspace<double>(a, nm::float64);
        return "bad-args";
    }
    auto s = nats(a, "shape");
    if (op == "full") return sdump(view::full(s, (int)integer(a, "value")));
    if (op == "zeros") return sdump(view::zeros(s, nm::int32));
    if (op == "ones") return sdump(view::ones(s, nm::int32));
    auto A = mk(s);
    if (op == "full_like") return sdump(view::full_like(A, (int)integer(a, "value")));
    if (op == "zeros_like") return sdump(view::zeros_like(A));
    if (op == "ones_like") return sdump(view::ones_like(A));
    return "unknown-op";
}
