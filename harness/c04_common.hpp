// helpers shared by the C04 harness TUs (h_c04*.cpp): provenance arrays and canonical dump of a view
#pragma once
#include "nmtools/array/ndarray.hpp"
#include "nmtools/array/index/ndindex.hpp"
#include "nmtools/utility/at.hpp"
#include "proto.hpp"
#include <array>

namespace nm = nmtools; namespace ix = nmtools::index; namespace na = nmtools::array; namespace view = nmtools::view;
using namespace proto;

namespace c04 {
using arr_t = na::ndarray_t<std::vector<int>, std::vector<size_t>>;

// data[k] = k + base : an element of an indexing view IS the flat id of the source element it was read from
inline arr_t mk(const uvec& s, int base = 0) {
    arr_t a; a.resize(s); size_t n = nm::size(a);
    for (size_t k = 0; k < n; k++) a.data()[k] = (int)k + base;
    return a;
}
template <typename S> inline uvec to_uvec(const S& shp) {
    uvec s; for (size_t i = 0; i < (size_t)nm::len(shp); i++) s.push_back((size_t)nm::at(shp, i));
    return s;
}
// shape + every element (C order, dynamic multi-index through apply_at)
template <typename V> inline std::string dump_view(const V& v) {
    uvec s = to_uvec(nm::shape(v));
    if ((size_t)nm::dim(v) != s.size()) return "dim-mismatch";
    size_t n = 1; for (auto e : s) n *= e;
    if ((size_t)nm::size(v) != n) return "size-mismatch";
    std::ostringstream o; o << "ok shape=" << fmt(s) << " data=";
    if (n == 0) o << "[]";
    auto nd = ix::ndindex(s);
    try {
        for (size_t k = 0; k < n; k++) { auto idx = nd[k]; if (k) o << ','; o << (long long)nm::apply_at(v, idx); }
    } catch (const std::out_of_range&) { return "oob"; }
    return o.str();
}
// rank-1 results whose indexer insists on a fixed-size index (axis = None paths): v(k)
template <typename V> inline std::string dump1_view(const V& v) {
    uvec s = to_uvec(nm::shape(v));
    if (s.size() != 1) return "dim-mismatch";
    size_t n = s[0];
    std::ostringstream o; o << "ok shape=" << fmt(s) << " data=";
    if (n == 0) o << "[]";
    try {
        for (size_t k = 0; k < n; k++) { if (k) o << ','; o << (long long)v(k); }
    } catch (const std::out_of_range&) { return "oob"; }
    return o.str();
}
template <typename V> inline std::string dump(const V& v) {
    if constexpr (nm::meta::is_maybe_v<V>) { if (!nm::has_value(v)) return "nothing"; return dump_view(*v); }
    else return dump_view(v);
}
template <typename V> inline std::string dump1(const V& v) {
    if constexpr (nm::meta::is_maybe_v<V>) { if (!nm::has_value(v)) return "nothing"; return dump1_view(*v); }
    else return dump1_view(v);
}
} // namespace c04
